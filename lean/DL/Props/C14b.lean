import DL.Lemmas.Scope2

/-!
# C14 (richer model) — rules about global names respect lexical scoping, with hoisting

Model: `DL.Scope2` (`Model/Scope2.lean`): lexical declarations (visible in the whole of their scope), `var` (hoisted to
the nearest enclosing function or the program, through blocks / catch bodies / loop bodies), parameters, names of
function expressions, catch parameters and `let`/`const` loop heads.  A global-name rule is `globalReports g`: it reports
the reference occurrences spelled `g` that the resolver left unresolved.

`reported_iff`: a reference under an arbitrary stack of enclosing scopes (all scope kinds, arbitrary statements before
and after the hole in each, any depth) is reported iff no enclosing scope *declares* `g` (`declares`): as its name /
parameter / catch parameter / loop variable, by a lexical declaration anywhere in the scope (before or after the
reference), or — a function — by a `var` anywhere in its body that is not inside a nested function (in a sibling
subtree of the function itself or of any scope between the function and the reference: `hoisted`, `mem_hoisted`).
-/
namespace DL.Props.C14b
open DL.Scope2

/-- **C14 (model with hoisting)**: a reference to `g` placed under the scopes `ls` (outermost first) produces exactly
one occurrence at the hole, and the rule reports it iff none of the enclosing scopes declares `g`. -/
theorem reported_iff (g : Nat) (ls : List Layer) :
    ∃ pre post e, (plug ls (.ref g)).res [] = pre ++ e :: post ∧ e.kind = .ref ∧ e.name = g ∧
      (isGlobalRef g e = true ↔ ¬ declares g ls) := by
  obtain ⟨pre, post, h⟩ := plug_res ls (.ref g) rfl []
  refine ⟨pre, post, ⟨.ref, g, lookup (envOf ls [] []) g⟩, by simpa [Item.res, Item.vars] using h, rfl, rfl, ?_⟩
  have := lookup_envOf_none_iff g ls []
  simp only [lookup, and_true] at this
  simp only [isGlobalRef, BEq.rfl, Bool.true_and, beq_iff_eq, this]

/-- what a program (the module scope, like a function without parameters) declares around a hole under `ls` -/
def programDeclares (g : Nat) (pre post : Items) (ls : List Layer) : Prop :=
  g ∈ pre.lets ++ post.lets ∨ g ∈ pre.vars ++ post.vars ∨ g ∈ hoisted ls ∨ declares g ls

/-- the same for whole programs: `pre; <ls[ g ]>; post` at module level — `var`s of the module level and of blocks
below it (beside the hole or in other statements) bind as well -/
theorem reported_iff_program (g : Nat) (pre post : Items) (ls : List Layer) :
    ∃ preE postE e, Program.res (pre.append (.cons (plug ls (.ref g)) post)) = preE ++ e :: postE ∧
      e.kind = .ref ∧ e.name = g ∧ (isGlobalRef g e = true ↔ ¬ programDeclares g pre post ls) := by
  have hnl := plug_notLet ls (.ref g) rfl
  have hfr : funcFrame [] (pre.append (.cons (plug ls (.ref g)) post)) =
      (pre.lets ++ post.lets) ++ (pre.vars ++ (holeVars ls [] ++ post.vars)) := by
    simp only [funcFrame, lets_append, vars_append, lets_cons_notLet _ post hnl, Items.vars, plug_vars, Item.vars,
      List.nil_append]
  obtain ⟨p1, q1, h⟩ := plug_res ls (.ref g) rfl
    [(.scope 0, (pre.lets ++ post.lets) ++ (pre.vars ++ (holeVars ls [] ++ post.vars)))]
  refine ⟨pre.res [(.scope 0, (pre.lets ++ post.lets) ++ (pre.vars ++ (holeVars ls [] ++ post.vars)))] ++ p1,
    q1 ++ post.res [(.scope 0, (pre.lets ++ post.lets) ++ (pre.vars ++ (holeVars ls [] ++ post.vars)))],
    ⟨.ref, g, lookup (envOf ls [] [(.scope 0, (pre.lets ++ post.lets) ++ (pre.vars ++ (holeVars ls [] ++ post.vars)))]) g⟩,
    ?_, rfl, rfl, ?_⟩
  · unfold Program.res
    rw [hfr, res_append, Items.res, h]
    simp only [Item.res, Item.vars, List.append_assoc, List.cons_append, List.nil_append]
  · have := lookup_envOf_none_iff g ls
      [(.scope 0, (pre.lets ++ post.lets) ++ (pre.vars ++ (holeVars ls [] ++ post.vars)))]
    simp only [isGlobalRef, BEq.rfl, Bool.true_and, beq_iff_eq, this, programDeclares]
    rw [lookup_cons]
    by_cases hm : g ∈ (pre.lets ++ post.lets) ++ (pre.vars ++ (holeVars ls [] ++ post.vars))
    · rw [if_pos hm]
      simp only [List.mem_append, mem_holeVars_nil] at hm ⊢
      constructor
      · rintro ⟨_, h⟩; cases h
      · intro hh; exact absurd (by grind) hh
    · rw [if_neg hm]
      simp only [List.mem_append, mem_holeVars_nil] at hm ⊢
      simp only [lookup, and_true]
      grind

/-- the bound direction for whole subtrees: below a binding of `g` nothing is reported, whatever the subtree is
(all nesting depths at once, all scope kinds) -/
theorem bound_subtree_silent (g : Nat) (i : Item) (env : Env) (h : lookup env g ≠ none) :
    ∀ e ∈ i.res env, isGlobalRef g e = false := Item.bound_silent g i env h

/-- enclosing scopes further out do not undo a declaration -/
theorem declares_append (g : Nat) (a b : List Layer) (h : declares g b) : declares g (a ++ b) := by
  induction a with
  | nil => exact h
  | cons l r ih => exact Or.inr (Or.inr ih)

/-! ### sibling subtrees: the interesting difference between functions and blocks -/

/-- a sibling **function** is opaque: whatever it contains — in particular a `var g` — changes neither the frames the
enclosing function pushes nor what the context declares -/
theorem sibling_func_var_does_not_bind (g id id' : Nat) (nm nm' : Option Nat) (ps ps' : List Nat)
    (pre post inner : Items) (ls : List Layer) (v : List Nat) :
    (Layer.func id nm ps (pre.append (.cons (.func id' nm' ps' inner) .nil)) post).frames v =
      (Layer.func id nm ps pre post).frames v ∧
    (declares g (Layer.func id nm ps (pre.append (.cons (.func id' nm' ps' inner) .nil)) post :: ls) ↔
      declares g (Layer.func id nm ps pre post :: ls)) := by
  simp [Layer.frames, declares, Layer.own, Layer.isFunc, lets_append, vars_append, Items.lets, Items.vars, Item.vars]

/-- a sibling **block** (likewise a catch body or loop body) of the same function is transparent for `var`: the
enclosing function declares exactly the `var`s of the block in addition -/
theorem sibling_block_var_binds_iff (g id id' : Nat) (nm : Option Nat) (ps : List Nat) (pre post inner : Items)
    (ls : List Layer) :
    declares g (Layer.func id nm ps (pre.append (.cons (.block id' inner) .nil)) post :: ls) ↔
      (g ∈ inner.vars ∨ declares g (Layer.func id nm ps pre post :: ls)) := by
  simp only [declares, Layer.own, Layer.isFunc, lets_append, vars_append, Items.lets, Items.vars, Item.vars,
    List.mem_append, List.append_nil]
  grind

theorem sibling_block_var_binds (g id id' : Nat) (nm : Option Nat) (ps : List Nat) (pre post inner : Items)
    (ls : List Layer) (h : g ∈ inner.vars) :
    declares g (Layer.func id nm ps (pre.append (.cons (.block id' inner) .nil)) post :: ls) :=
  (sibling_block_var_binds_iff g id id' nm ps pre post inner ls).mpr (Or.inl h)

theorem sibling_catch_var_binds (g id id' : Nat) (nm p : Option Nat) (ps : List Nat) (pre post inner : Items)
    (ls : List Layer) (h : g ∈ inner.vars) :
    declares g (Layer.func id nm ps (pre.append (.cons (.catchC id' p inner) .nil)) post :: ls) := by
  simp only [declares, Layer.own, lets_append, vars_append, Items.lets, Items.vars, Item.vars, List.mem_append,
    List.append_nil]
  exact Or.inl (Or.inr (Or.inr (Or.inl (Or.inr h))))

theorem sibling_loop_var_binds (g id id' z : Nat) (nm : Option Nat) (ps : List Nat) (pre post inner : Items)
    (ls : List Layer) (h : g ∈ inner.vars) :
    declares g (Layer.func id nm ps (pre.append (.cons (.forLet id' z inner) .nil)) post :: ls) := by
  simp only [declares, Layer.own, lets_append, vars_append, Items.lets, Items.vars, Item.vars, List.mem_append,
    List.append_nil]
  exact Or.inl (Or.inr (Or.inr (Or.inl (Or.inr h))))

/-- …and the `var` may sit beside the reference arbitrarily deep below the function, as long as no function lies in
between: `function f() { { { g; { var g; } } } }` -/
theorem deep_sibling_block_var_binds (g id : Nat) (nm : Option Nat) (ps : List Nat) (pre post : Items)
    (mid : List Layer) (hmid : ∀ l ∈ mid, l.isFunc = false) (l : Layer) (hl : l.isFunc = false) (hg : g ∈ l.sideVars)
    (ls : List Layer) : declares g (Layer.func id nm ps pre post :: (mid ++ l :: ls)) :=
  Or.inr (Or.inl ⟨rfl, (mem_hoisted _ g).mpr ⟨mid, l, ls, rfl, hmid, hl, hg⟩⟩)

/-- a function between the `var` and an outer function stops the hoisting: seen from outside, the function layer lets no
`var` through -/
theorem hoisted_stops_at_func (id : Nat) (nm : Option Nat) (ps : List Nat) (pre post : Items) (ls : List Layer) :
    hoisted (Layer.func id nm ps pre post :: ls) = [] := rfl

/-- a sibling *lexical* declaration inside a block stays there; property keys and references declare nothing -/
theorem declared_ignores_siblings (id id' x : Nat) (pre post inner : Items) (h : inner.vars = []) :
    (Layer.block id (pre.append (.cons (.block id' inner) .nil)) post).own = (Layer.block id pre post).own ∧
    (Layer.block id (pre.append (.cons (.block id' inner) .nil)) post).sideVars = (Layer.block id pre post).sideVars ∧
    (Layer.block id (pre.append (.cons (.key x) .nil)) post).own = (Layer.block id pre post).own ∧
    (Layer.block id (pre.append (.cons (.ref x) .nil)) post).own = (Layer.block id pre post).own := by
  simp [Layer.own, Layer.sideVars, lets_append, vars_append, Items.lets, Items.vars, Item.vars, h]

/-- property keys and member names are never occurrences at all -/
theorem key_is_no_occurrence (x : Nat) (env : Env) : (Item.key x).res env = [] := rfl

/-! ### non-vacuity (g = 7; `l` builds statement lists) -/
def l : List Item → Items := fun xs => xs.foldr Items.cons .nil

/-- `function f() { g; { var g; } }` — bound: the `var` in the sibling block is hoisted to `f` -/
def varInBlock : Items := l [.letDecl 1, .func 1 none [] (l [.ref 7, .block 2 (l [.varDecl 7])])]
example : globalReports 7 varInBlock = [] := by decide
example : (Program.res varInBlock).map (·.bind) = [some (.scope 0), some (.scope 1), some (.scope 1)] := by decide

/-- `function f() { g; }  function h() { var g; }` — not bound: reported (occurrence 1) -/
def varInOtherFunc : Items :=
  l [.letDecl 1, .func 1 none [] (l [.ref 7]), .letDecl 2, .func 2 none [] (l [.varDecl 7])]
example : globalReports 7 varInOtherFunc = [1] := by decide
example : (Program.res varInOtherFunc).map (·.bind) = [some (.scope 0), none, some (.scope 0), some (.scope 2)] := by
  decide

/-- `function f() { g; function h() { var g; } }` — a nested function does not leak its `var` either -/
example : globalReports 7 (l [.letDecl 1, .func 1 none [] (l [.ref 7, .letDecl 2, .func 2 none [] (l [.varDecl 7])])])
    = [1] := by decide

/-- `g; try { } catch (g) { g; }  g;` — the catch parameter binds inside the clause only -/
def catchParam : Items := l [.ref 7, .block 1 .nil, .catchC 2 (some 7) (l [.ref 7]), .ref 7]
example : globalReports 7 catchParam = [0, 3] := by decide
example : (Program.res catchParam).map (·.bind) = [none, some (.scope 2), some (.scope 2), none] := by decide

/-- `(function g(a) { g; a; });  g;` — a named function expression refers to itself; the name is not visible outside -/
def namedFuncExpr : Items := l [.func 1 (some 7) [3] (l [.ref 7, .ref 3]), .ref 7]
example : globalReports 7 namedFuncExpr = [4] := by decide
example : (Program.res namedFuncExpr).map (·.bind) =
    [some (.head 1), some (.scope 1), some (.head 1), some (.scope 1), none] := by decide

/-- `(function g(g) { g; })` / `(function g() { var g; g; })` — parameter and `var` shadow the name (distinct bindings) -/
example : (Program.res (l [.func 1 (some 7) [7] (l [.ref 7])])).map (·.bind) =
    [some (.head 1), some (.scope 1), some (.scope 1)] := by decide
example : (Program.res (l [.func 1 (some 7) [] (l [.varDecl 7, .ref 7])])).map (·.bind) =
    [some (.head 1), some (.scope 1), some (.scope 1)] := by decide

/-- `for (const g of …) { g; let g; }  g;` — the head binding is shadowed by the body's own declaration; a `let` after
the reference binds it (temporal dead zone is not a scoping matter) -/
example : (Program.res (l [.forLet 1 7 (l [.ref 7, .letDecl 7]), .ref 7])).map (·.bind) =
    [some (.head 1), some (.scope 1), some (.scope 1), none] := by decide
example : globalReports 7 (l [.forLet 1 7 (l [.ref 7]), .ref 7]) = [2] := by decide

/-- `{ g; }  { { var g; } }` at module level — a `var` in a block is a module-level binding -/
example : globalReports 7 (l [.block 1 (l [.ref 7]), .block 2 (l [.block 3 (l [.varDecl 7])])]) = [] := by decide

/-- all of these are well-formed -/
example : Program.wf varInBlock = true ∧ Program.wf varInOtherFunc = true ∧ Program.wf catchParam = true ∧
    Program.wf namedFuncExpr = true := by decide
/-- and `WF` does reject the early errors: `{ let a; { var a; } }`, `let a; let a;`, `function f(a) { let a; }`,
`catch (a) { var a; }`, `for (const a of …) { var a; }` -/
example : Program.wf (l [.block 1 (l [.letDecl 1, .block 2 (l [.varDecl 1])])]) = false ∧
    Program.wf (l [.letDecl 1, .letDecl 1]) = false ∧
    Program.wf (l [.func 1 none [1] (l [.letDecl 1])]) = false ∧
    Program.wf (l [.catchC 1 (some 1) (l [.varDecl 1])]) = false ∧
    Program.wf (l [.forLet 1 1 (l [.varDecl 1])]) = false := by decide

/-- the instance of `reported_iff` for the first example, through the context machinery -/
example : plug [.func 1 none [] .nil (l [.block 2 (l [.varDecl 7])])] (.ref 7) =
    .func 1 none [] (l [.ref 7, .block 2 (l [.varDecl 7])]) := by decide
example : declares 7 [.func 1 none [] .nil (l [.block 2 (l [.varDecl 7])])] := Or.inl (by decide)
example : declares 7 [.func 1 none [] (l [.block 2 (l [.varDecl 7])]) .nil] :=
  sibling_block_var_binds 7 1 2 none [] .nil .nil (l [.varDecl 7]) [] (by decide)

end DL.Props.C14b
