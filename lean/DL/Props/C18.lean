import DL.Gen.CtxAccess

/-!
# C18 — JSX factory configuration affects nothing but unused-variable analysis

* `effectiveFactory`: the factory expression `Context::new` ends up with (`context.rs:63-104`): the in-file pragma if
  there is one, else the configured default;
* non-interference: a rule that does not read the two factory fields of the context computes the same diagnostics under
  any two configurations; *which* rules read them is the translator table `Gen/CtxAccess` (syn, regenerated on every run);
* for `no-unused-vars`: marking the identifiers of the factory expression as used can only remove reports, and only
  reports about those identifiers.
-/
namespace DL.Props.C18

/-- pragma first, configured default second -/
def effectiveFactory (pragma default_ : Option String) : Option String :=
  match pragma with
  | some p => some p
  | none => default_

theorem pragma_takes_precedence (p : String) (d d' : Option String) :
    effectiveFactory (some p) d = effectiveFactory (some p) d' := rfl

theorem default_used_without_pragma (d : Option String) : effectiveFactory none d = d := rfl

/-- what a rule sees of a file: everything that does not depend on the configuration, plus the two factory fields -/
structure FileCtx (F : Type) where
  facts : F
  jsx : Option String
  jsxFrag : Option String

/-- "does not read the factory fields" -/
def IgnoresFactories {F D : Type} (rule : FileCtx F → List D) : Prop := ∃ r' : F → List D, ∀ c, rule c = r' c.facts

theorem config_noninterference {F D : Type} (rule : FileCtx F → List D) (h : IgnoresFactories rule)
    (facts : F) (j j' f f' : Option String) :
    rule { facts := facts, jsx := j, jsxFrag := f } = rule { facts := facts, jsx := j', jsxFrag := f' } := by
  obtain ⟨r', hr⟩ := h
  rw [hr, hr]

/-! ## no-unused-vars: the factory identifiers are added to the used set -/
def unusedReport (declared used : List String) : List String := declared.filter (fun x => !used.contains x)

/-- it can only remove reports … -/
theorem factory_only_removes (declared used fac : List String) :
    (unusedReport declared (used ++ fac)).Sublist (unusedReport declared used) := by
  unfold unusedReport
  induction declared with
  | nil => exact List.Sublist.refl _
  | cons x r ih =>
    rw [List.filter_cons, List.filter_cons]
    by_cases h1 : used.contains x = true
    · have h2 : (used ++ fac).contains x = true := by
        rw [List.contains_iff_mem] at h1 ⊢; exact List.mem_append.mpr (Or.inl h1)
      rw [h1, h2]; exact ih
    · have h1' : used.contains x = false := by simpa using h1
      rw [h1']
      by_cases h2 : (used ++ fac).contains x = true
      · rw [h2]; exact List.Sublist.cons _ ih
      · have h2' : (used ++ fac).contains x = false := by simpa using h2
        rw [h2']; exact List.Sublist.cons_cons _ ih

/-- … and only reports about identifiers occurring in the effective factory expression -/
theorem removed_are_factory_idents (declared used fac : List String) (x : String)
    (h1 : x ∈ unusedReport declared used) (h2 : x ∉ unusedReport declared (used ++ fac)) : x ∈ fac := by
  unfold unusedReport at *
  rw [List.mem_filter] at h1 h2
  have hu : used.contains x = false := by simpa using h1.2
  have hc : (used ++ fac).contains x = true := by
    cases h : (used ++ fac).contains x with
    | true => rfl
    | false => exact absurd ⟨h1.1, by rw [h]; rfl⟩ h2
  rw [List.contains_iff_mem] at hc
  rcases List.mem_append.mp hc with h | h
  · rw [List.contains_iff_mem.mpr h] at hu; cases hu
  · exact h

/-- no factory configured, or no JSX element visited (the factory is consumed by `visit_jsx_element` only): nothing changes -/
theorem no_factory_no_change (declared used : List String) : unusedReport declared (used ++ []) = unusedReport declared used := by
  simp

/-! ## which rules read the factory fields (regenerated from /repo) -/
open DL.Gen

theorem only_no_unused_vars_reads_factories :
    ∀ row ∈ ctxMethodCalls, (row.2.contains "jsx_factory" || row.2.contains "jsx_fragment_factory") = true →
      row.1 = "src/rules/no_unused_vars.rs" := by decide +kernel

/-! non-vacuity -/
example : unusedReport ["h", "x", "y"] ["x"] = ["h", "y"] ∧ unusedReport ["h", "x", "y"] (["x"] ++ ["h"]) = ["y"] := by decide

end DL.Props.C18
