import DL.Props.C06

/-!
# C07 — every code in every directive is accounted for exactly once

For **every** raw list (rule and external diagnostics), directive state (any number of directives, codes, prior
marks), configuration (with or without the two accounting rules), known-code set and external code list.

`dirAt st key` is the directive (`none` = the file-level one, `some k` = the line-level one stored under line `k`);
`c` ranges over its codes.  `K`/`U` are the two possible reports *at that directive for that code*.
-/
namespace DL.Props.C07
open DL.Pipe DL.Props.C06

def dirAt (st : St) : DirKey → Option Dir
  | none => st.file
  | some k => lookupLine k st.lines

def reportUnknown (dir : Dir) (c : String) : Diag := ⟨cUnknown, some (dir.start, dir.line), .unknown c⟩
def reportUnused (dir : Dir) (c : String) : Diag := ⟨cUnused, some (dir.start, dir.line), .unused c⟩

/-- well-formedness of a directive state as produced by the parser: line keys distinct (it is a map), directive
comments start at distinct positions, codes of one directive distinct (it is a map) -/
structure WF (st : St) : Prop where
  keys : (st.lines.map (·.1)).Nodup
  starts : (st.lines.map (·.2.start)).Nodup
  fileStart : ∀ f, st.file = some f → ∀ kd ∈ st.lines, kd.2.start ≠ f.start
  fileCodes : ∀ f, st.file = some f → f.codes.Nodup
  lineCodes : ∀ kd ∈ st.lines, kd.2.codes.Nodup

theorem lookupLine_mem {k : Nat} {d : Dir} {ls : List (Nat × Dir)} (h : lookupLine k ls = some d) : (k, d) ∈ ls := by
  induction ls with
  | nil => cases h
  | cons kd r ih =>
    obtain ⟨k', d'⟩ := kd
    simp only [lookupLine] at h
    split at h
    · rename_i hk; subst hk; injection h with h; subst h; exact List.mem_cons_self
    · exact List.mem_cons_of_mem _ (ih h)

theorem lookupLine_of_mem {k : Nat} {d : Dir} {ls : List (Nat × Dir)} (hn : (ls.map (·.1)).Nodup) (h : (k, d) ∈ ls) :
    lookupLine k ls = some d := by
  induction ls with
  | nil => cases h
  | cons kd r ih =>
    obtain ⟨k', d'⟩ := kd
    simp only [List.map_cons, List.nodup_cons, List.mem_map, not_exists, not_and] at hn
    simp only [lookupLine]
    rcases List.mem_cons.mp h with h | h
    · injection h with h1 h2; subst h1; subst h2; simp
    · have : k' ≠ k := fun e => hn.1 (k, d) h (e ▸ rfl)
      simp [this, ih hn.2 h]

/-- the final bookkeeping state (after the filter pass and `ban_unknown_rule_code`) -/
def finalSt (cfg : Cfg) (extCodes : List String) (st : St) (raw : List Diag) : St :=
  (banUnknown (cfg.allCodes ++ extCodes) cfg.checkUnknown (checkUsage st raw).1).1

/-- some directive lists a code that is not known (then the file-level `ban-unknown-rule-code` entry counts as used) -/
def anyUnknown (cfg : Cfg) (extCodes : List String) (st : St) : Prop :=
  allDirDiags cUnknown .unknown (unknownP (cfg.allCodes ++ extCodes)) st ≠ []

/-- when is a code of a directive marked used in the end: it was marked before, or it suppressed a diagnostic, or
it is the file-level `ban-unknown-rule-code` switch and an unknown code exists -/
theorem used_final_iff (cfg : Cfg) (extCodes : List String) (st : St) (raw : List Diag) (key : DirKey) (c : String) :
    (finalSt cfg extCodes st raw).used key c = true ↔
      (key, c) ∈ st.marks ∨ (∃ d ∈ raw, hits st d = some (key, c)) ∨
      (key = none ∧ c = cUnknown ∧ fileNames st cUnknown = true ∧ anyUnknown cfg extCodes st) := by
  unfold finalSt St.used
  rw [List.contains_iff_mem]
  unfold banUnknown anyUnknown
  dsimp only
  have hA : allDirDiags cUnknown Payload.unknown (unknownP (cfg.allCodes ++ extCodes)) (checkUsage st raw).1
      = allDirDiags cUnknown Payload.unknown (unknownP (cfg.allCodes ++ extCodes)) st := by
    unfold allDirDiags; simp
  rw [hA]
  by_cases he : (allDirDiags cUnknown Payload.unknown (unknownP (cfg.allCodes ++ extCodes)) st).isEmpty = true
  · rw [if_pos he, mem_marks_checkUsage]
    have : allDirDiags cUnknown Payload.unknown (unknownP (cfg.allCodes ++ extCodes)) st = [] := List.isEmpty_iff.mp he
    simp [this]
  · rw [if_neg he]
    have hne : allDirDiags cUnknown Payload.unknown (unknownP (cfg.allCodes ++ extCodes)) st ≠ [] :=
      fun e => he (List.isEmpty_iff.mpr e)
    unfold markFile
    rw [fileNames_congr (checkUsage_file st raw)]
    by_cases hf : fileNames st cUnknown = true
    · rw [if_pos hf]
      simp only [mark_marks, List.mem_cons, mem_marks_checkUsage, Prod.mk.injEq]
      constructor
      · rintro (⟨h1, h2⟩ | h | h)
        · exact Or.inr (Or.inr ⟨h1, h2, hf, hne⟩)
        · exact Or.inl h
        · exact Or.inr (Or.inl h)
      · rintro (h | h | ⟨h1, h2, _, _⟩)
        · exact Or.inr (Or.inl h)
        · exact Or.inr (Or.inr h)
        · exact Or.inl ⟨h1, h2⟩
    · rw [if_neg hf, mem_marks_checkUsage]
      simp [hf]

theorem isRaw_false_of_acc (dir : Dir) (c : String) :
    Diag.isRaw (reportUnknown dir c) = false ∧ Diag.isRaw (reportUnused dir c) = false := ⟨rfl, rfl⟩

theorem cUnknown_ne_cUnused : cUnknown ≠ cUnused := by decide

theorem mem_collect (cfg : Cfg) (extCodes : List String) (st : St) (raw : List Diag) (x : Diag) :
    x ∈ collect cfg extCodes st raw ↔
      x ∈ raw.filter (fun d => !suppressed st d) ∨
      x ∈ (banUnknown (cfg.allCodes ++ extCodes) cfg.checkUnknown (checkUsage st raw).1).2 ∨
      x ∈ (if (extCodes ++ cfg.configured).contains cUnused = true
            then banUnused (extCodes ++ cfg.configured) (finalSt cfg extCodes st raw) else []) := by
  unfold collect finalSt
  rw [List.mem_mergeSort, List.mem_append, List.mem_append, checkUsage_kept, or_assoc]

/-- **unknown**: the code is reported as unknown at its directive iff it names no known or external rule, unknown-code
checking is enabled, and the file-level switch is not set -/
theorem unknown_reported_iff (cfg : Cfg) (extCodes : List String) (st : St) (raw : List Diag)
    (hraw : ∀ d ∈ raw, Diag.isRaw d = true)
    (key : DirKey) (dir : Dir) (hd : dirAt st key = some dir) (c : String) (hc : c ∈ dir.codes) :
    reportUnknown dir c ∈ collect cfg extCodes st raw ↔
      c ∉ cfg.allCodes ++ extCodes ∧ cfg.checkUnknown = true ∧ fileNames st cUnknown = false := by
  rw [mem_collect]
  constructor
  · rintro (h | h | h)
    · have := hraw _ (List.mem_filter.mp h).1; cases this
    · rw [banUnknown_snd] at h
      rw [fileNames_congr (checkUsage_file st raw)] at h
      by_cases hcond : (cfg.checkUnknown && !fileNames st cUnknown) = true
      · rw [if_pos hcond] at h
        simp only [Bool.and_eq_true, Bool.not_eq_true'] at hcond
        refine ⟨?_, hcond.1, hcond.2⟩
        rcases mem_allDirDiags_iff.mp h with ⟨f, _, c', _, hp, he⟩ | ⟨kd, _, c', _, hp, he⟩ <;>
        · simp only [reportUnknown, Diag.mk.injEq, Payload.unknown.injEq] at he
          obtain ⟨_, _, rfl⟩ := he
          simpa [unknownP] using hp
      · rw [if_neg hcond] at h; cases h
    · split at h
      · have := (banUnused_code h).1; exact absurd this cUnknown_ne_cUnused
      · cases h
  · rintro ⟨h1, h2, h3⟩
    refine Or.inr (Or.inl ?_)
    rw [banUnknown_snd, fileNames_congr (checkUsage_file st raw), if_pos (by simp [h2, h3])]
    apply mem_allDirDiags_iff.mpr
    have hp : ∀ k, unknownP (cfg.allCodes ++ extCodes) k c = true := by intro k; simpa [unknownP] using h1
    cases key with
    | none => exact Or.inl ⟨dir, by simpa [dirAt] using hd, c, hc, hp _, rfl⟩
    | some k =>
      refine Or.inr ⟨(k, dir), ?_, c, hc, hp _, rfl⟩
      simpa using lookupLine_mem (by simpa [dirAt] using hd)

theorem inj_start : ∀ (ls : List (Nat × Dir)), (ls.map (·.2.start)).Nodup → ∀ {a b}, a ∈ ls → b ∈ ls →
    a.2.start = b.2.start → a = b
  | [], _, _, _, ha, _, _ => by cases ha
  | x :: l, hn, a, b, ha, hb, hc => by
    simp only [List.map_cons, List.nodup_cons, List.mem_map, not_exists, not_and] at hn
    rcases List.mem_cons.mp ha with rfl | ha' <;> rcases List.mem_cons.mp hb with rfl | hb'
    · rfl
    · exact absurd hc.symm (hn.1 b hb')
    · exact absurd hc (hn.1 a ha')
    · exact inj_start l hn.2 ha' hb' hc

/-- a report positioned at `dir` can only come from `dir` itself -/
theorem directive_of_start {st : St} (hwf : WF st) {key : DirKey} {dir : Dir} (hd : dirAt st key = some dir) :
    (∀ f, st.file = some f → f.start = dir.start → key = none) ∧
    (∀ kd ∈ st.lines, kd.2.start = dir.start → key = some kd.1) := by
  cases key with
  | none =>
    have hf : st.file = some dir := by simpa [dirAt] using hd
    exact ⟨fun _ _ _ => rfl, fun kd hk he => absurd he (hwf.fileStart dir hf kd hk)⟩
  | some k =>
    have hm : (k, dir) ∈ st.lines := lookupLine_mem (by simpa [dirAt] using hd)
    refine ⟨fun f hf he => absurd he.symm (hwf.fileStart f hf (k, dir) hm), fun kd hk he => ?_⟩
    rw [inj_start st.lines hwf.starts hk hm he]

/-- **unused**: the code is reported as unused at its directive iff it was not used, its rule is enabled (configured or
declared by the external linter), `ban-unused-ignore` is enabled, and the file-level switch is not set -/
theorem unused_reported_iff (cfg : Cfg) (extCodes : List String) (st : St) (raw : List Diag) (hwf : WF st)
    (hraw : ∀ d ∈ raw, Diag.isRaw d = true)
    (key : DirKey) (dir : Dir) (hd : dirAt st key = some dir) (c : String) (hc : c ∈ dir.codes) :
    reportUnused dir c ∈ collect cfg extCodes st raw ↔
      (finalSt cfg extCodes st raw).used key c = false ∧ c ∈ extCodes ++ cfg.configured ∧
      cUnused ∈ extCodes ++ cfg.configured ∧ fileNames st cUnused = false := by
  have hfile : (finalSt cfg extCodes st raw).file = st.file := by simp [finalSt]
  have hlines : (finalSt cfg extCodes st raw).lines = st.lines := by simp [finalSt]
  rw [mem_collect]
  constructor
  · rintro (h | h | h)
    · have := hraw _ (List.mem_filter.mp h).1; cases this
    · have := (banUnknown_code h).1; exact absurd this.symm cUnknown_ne_cUnused
    · split at h
      · rename_i hen
        unfold banUnused at h
        change reportUnused dir c ∈ (if fileNames (finalSt cfg extCodes st raw) cUnused = true then []
          else allDirDiags cUnused Payload.unused (unusedP (extCodes ++ cfg.configured) (finalSt cfg extCodes st raw))
            (finalSt cfg extCodes st raw)) at h
        rw [fileNames_congr hfile] at h
        by_cases hfs : fileNames st cUnused = true
        · rw [if_pos hfs] at h; cases h
        · rw [if_neg hfs] at h
          have hdo := directive_of_start hwf hd
          rcases mem_allDirDiags_iff.mp h with ⟨f, hf, c', _, hp, he⟩ | ⟨kd, hk, c', _, hp, he⟩
          · simp only [reportUnused, Diag.mk.injEq, Payload.unused.injEq, Option.some.injEq, Prod.mk.injEq] at he
            obtain ⟨_, ⟨hs, _⟩, rfl⟩ := he
            rw [hfile] at hf
            have hk := hdo.1 f hf hs.symm
            subst hk
            simp only [unusedP, Bool.and_eq_true, Bool.not_eq_true', List.contains_iff_mem] at hp
            exact ⟨hp.1, hp.2, List.contains_iff_mem.mp hen, by simpa using hfs⟩
          · simp only [reportUnused, Diag.mk.injEq, Payload.unused.injEq, Option.some.injEq, Prod.mk.injEq] at he
            obtain ⟨_, ⟨hs, _⟩, rfl⟩ := he
            rw [hlines] at hk
            have hk' := hdo.2 kd hk hs.symm
            subst hk'
            simp only [unusedP, Bool.and_eq_true, Bool.not_eq_true', List.contains_iff_mem] at hp
            exact ⟨hp.1, hp.2, List.contains_iff_mem.mp hen, by simpa using hfs⟩
      · cases h
  · rintro ⟨h1, h2, h3, h4⟩
    refine Or.inr (Or.inr ?_)
    rw [if_pos (List.contains_iff_mem.mpr h3)]
    unfold banUnused
    change reportUnused dir c ∈ (if fileNames (finalSt cfg extCodes st raw) cUnused = true then []
      else allDirDiags cUnused Payload.unused (unusedP (extCodes ++ cfg.configured) (finalSt cfg extCodes st raw))
        (finalSt cfg extCodes st raw))
    rw [fileNames_congr hfile, if_neg (by simp [h4])]
    apply mem_allDirDiags_iff.mpr
    have hp : unusedP (extCodes ++ cfg.configured) (finalSt cfg extCodes st raw) key c = true := by
      simp only [unusedP, h1, Bool.not_false, Bool.true_and]; exact List.contains_iff_mem.mpr h2
    cases key with
    | none => exact Or.inl ⟨dir, by rw [hfile]; simpa [dirAt] using hd, c, hc, hp, rfl⟩
    | some k =>
      refine Or.inr ⟨(k, dir), ?_, c, hc, hp, rfl⟩
      rw [hlines]; exact lookupLine_mem (by simpa [dirAt] using hd)

/-- **at most once**: the accounting diagnostics of a well-formed directive state are pairwise distinct, so each
(directive, code) report occurs at most once in the result -/
theorem allDirDiags_nodup (code : String) (mk : String → Payload) (hmk : ∀ a b, mk a = mk b → a = b)
    (p : DirKey → String → Bool) (st : St) (hwf : WF st) : (allDirDiags code mk p st).Nodup := by
  have hdir : ∀ (q : String → Bool) (d : Dir), d.codes.Nodup → (dirDiags code mk q d).Nodup := by
    intro q d hn
    unfold dirDiags
    have h1 : ((d.codes.filter q).mergeSort strLe).Nodup :=
      (List.mergeSort_perm _ _).nodup_iff.mpr (hn.sublist List.filter_sublist)
    refine List.Pairwise.map _ ?_ h1
    intro a b hab he
    simp only [Diag.mk.injEq] at he
    exact hab (hmk _ _ he.2.2)
  unfold allDirDiags
  rw [List.nodup_append]
  refine ⟨?_, ?_, ?_⟩
  · cases hf : st.file with
    | none => exact List.Pairwise.nil
    | some f => exact hdir _ f (hwf.fileCodes f hf)
  · rw [List.Nodup, List.pairwise_flatMap]
    refine ⟨fun kd hk => hdir _ kd.2 (hwf.lineCodes kd hk), ?_⟩
    have hs := hwf.starts
    rw [List.Nodup, List.pairwise_map] at hs
    refine hs.imp ?_
    intro a b hab x hx y hy hxy
    obtain ⟨_, _, _, rfl⟩ := mem_dirDiags.mp hx
    obtain ⟨_, _, _, rfl⟩ := mem_dirDiags.mp hy
    simp only [Diag.mk.injEq, Option.some.injEq, Prod.mk.injEq] at hxy
    exact hab hxy.2.1.1
  · intro x hx y hy hxy
    cases hf : st.file with
    | none => simp [hf] at hx
    | some f =>
      simp only [hf] at hx
      obtain ⟨_, _, _, rfl⟩ := mem_dirDiags.mp hx
      obtain ⟨kd, hk, hy⟩ := List.mem_flatMap.mp hy
      obtain ⟨_, _, _, rfl⟩ := mem_dirDiags.mp hy
      simp only [Diag.mk.injEq, Option.some.injEq, Prod.mk.injEq] at hxy
      exact hwf.fileStart f hf kd hk hxy.2.1.1.symm

theorem reported_at_most_once (cfg : Cfg) (extCodes : List String) (st : St) (raw : List Diag) (hwf : WF st)
    (hraw : ∀ d ∈ raw, Diag.isRaw d = true) (x : Diag) (hx : Diag.isRaw x = false) :
    (collect cfg extCodes st raw).count x ≤ 1 := by
  rw [collect_eq, (List.mergeSort_perm _ _).count_eq, List.count_append]
  have h0 : (raw.filter (fun d => !suppressed st d)).count x = 0 := by
    apply List.count_eq_zero.mpr
    intro h; have := hraw _ (List.mem_filter.mp h).1; rw [hx] at this; cases this
  rw [h0, Nat.zero_add]
  have hwf1 : WF (checkUsage st raw).1 := ⟨by simpa using hwf.keys, by simpa using hwf.starts,
    by simpa using hwf.fileStart, by simpa using hwf.fileCodes, by simpa using hwf.lineCodes⟩
  have hwf2 : WF (banUnknown (cfg.allCodes ++ extCodes) cfg.checkUnknown (checkUsage st raw).1).1 :=
    ⟨by simpa using hwf.keys, by simpa using hwf.starts,
      by simpa using hwf.fileStart, by simpa using hwf.fileCodes, by simpa using hwf.lineCodes⟩
  have hn : (accounting cfg extCodes st raw).Nodup := by
    unfold accounting
    dsimp only
    rw [List.nodup_append]
    refine ⟨?_, ?_, ?_⟩
    · rw [banUnknown_snd]
      split
      · exact allDirDiags_nodup _ _ (by intro a b h; injection h) _ _ hwf1
      · exact List.Pairwise.nil
    · split
      · unfold banUnused
        split
        · exact List.Pairwise.nil
        · exact allDirDiags_nodup _ _ (by intro a b h; injection h) _ _ hwf2
      · exact List.Pairwise.nil
    · intro a ha b hb hab
      have h1 := (banUnknown_code ha).1
      split at hb
      · have h2 := (banUnused_code hb).1
        rw [hab, h2] at h1
        exact cUnknown_ne_cUnused h1.symm
      · cases hb
  exact List.nodup_iff_count.mp hn x

/-- **exactly one** of the four outcomes, under the two sanity conditions of the setting: every configured rule is a
known rule (`all_rule_codes ⊇ rules`), and every diagnostic carries a known or declared code. -/
theorem exactly_one (cfg : Cfg) (extCodes : List String) (st : St) (raw : List Diag) (hwf : WF st)
    (hraw : ∀ d ∈ raw, Diag.isRaw d = true)
    (hknown : ∀ x ∈ cfg.configured, x ∈ cfg.allCodes)
    (hcodes : ∀ d ∈ raw, d.code ∈ cfg.allCodes ++ extCodes)
    (hmarks : st.marks = [])
    (key : DirKey) (dir : Dir) (hd : dirAt st key = some dir) (c : String) (hc : c ∈ dir.codes)
    (hsw : ¬ (key = none ∧ (c = cUnknown ∨ c = cUnused))) :
    let suppressedSomething := ∃ d ∈ raw, hits st d = some (key, c)
    let repU := reportUnused dir c ∈ collect cfg extCodes st raw
    let repK := reportUnknown dir c ∈ collect cfg extCodes st raw
    (suppressedSomething → ¬ repU ∧ ¬ repK) ∧ (repU → ¬ repK) ∧
    (¬ suppressedSomething ∧ ¬ repU ∧ ¬ repK →
      -- silent: the named rule is not enabled / `ban-unused-ignore` is off, resp. unknown-code checking is off
      (c ∈ cfg.allCodes ++ extCodes ∧
        (c ∉ extCodes ++ cfg.configured ∨ cUnused ∉ extCodes ++ cfg.configured ∨ fileNames st cUnused = true)) ∨
      (c ∉ cfg.allCodes ++ extCodes ∧ (cfg.checkUnknown = false ∨ fileNames st cUnknown = true))) := by
  intro sup repU repK
  have hU := unused_reported_iff cfg extCodes st raw hwf hraw key dir hd c hc
  have hK := unknown_reported_iff cfg extCodes st raw hraw key dir hd c hc
  have hused := used_final_iff cfg extCodes st raw key c
  have hhit_known : sup → c ∈ cfg.allCodes ++ extCodes := by
    rintro ⟨d, hdm, hh⟩
    have : d.code = c := by
      unfold hits at hh
      split at hh
      · injection hh with hh; injection hh
      · cases hp : d.pos with
        | none => simp [hp] at hh
        | some p =>
          simp only [hp] at hh
          split at hh
          · injection hh with hh; injection hh
          · cases hh
    exact this ▸ hcodes d hdm
  refine ⟨fun hs => ⟨fun hu => ?_, fun hk => ?_⟩, fun hu hk => ?_, fun ⟨hns, hnu, hnk⟩ => ?_⟩
  · have := (hU.mp hu).1
    have h' : (finalSt cfg extCodes st raw).used key c = true := hused.mpr (Or.inr (Or.inl hs))
    rw [h'] at this; cases this
  · exact (hK.mp hk).1 (hhit_known hs)
  · have h1 := (hU.mp hu).2.1
    have h2 := (hK.mp hk).1
    apply h2
    rcases List.mem_append.mp h1 with h | h
    · exact List.mem_append.mpr (Or.inr h)
    · exact List.mem_append.mpr (Or.inl (hknown c h))
  · by_cases hkn : c ∈ cfg.allCodes ++ extCodes
    · left
      refine ⟨hkn, ?_⟩
      have hnotused : (finalSt cfg extCodes st raw).used key c = false := by
        cases hh : (finalSt cfg extCodes st raw).used key c with
        | false => rfl
        | true =>
          rcases hused.mp hh with h | h | ⟨h1, h2, _, _⟩
          · rw [hmarks] at h; cases h
          · exact absurd h hns
          · exact absurd ⟨h1, Or.inl h2⟩ hsw
      by_cases h1 : c ∈ extCodes ++ cfg.configured
      · by_cases h2 : cUnused ∈ extCodes ++ cfg.configured
        · cases h3 : fileNames st cUnused with
          | true => exact Or.inr (Or.inr rfl)
          | false => exact absurd (hU.mpr ⟨hnotused, h1, h2, h3⟩) hnu
        · exact Or.inr (Or.inl h2)
      · exact Or.inl h1
    · right
      refine ⟨hkn, ?_⟩
      cases h2 : cfg.checkUnknown with
      | false => exact Or.inl rfl
      | true =>
        cases h3 : fileNames st cUnknown with
        | true => exact Or.inr rfl
        | false => exact absurd (hK.mpr ⟨hkn, h2, h3⟩) hnk

/-- naming an accounting rule in a *line-level* directive has no suppressing effect on that rule's reports:
the two switches read the file-level directive only -/
theorem line_level_switch_has_no_effect (cfg : Cfg) (extCodes : List String) (st : St) (raw : List Diag)
    (hraw : ∀ d ∈ raw, Diag.isRaw d = true)
    (key : DirKey) (dir : Dir) (hd : dirAt st key = some dir) (c : String) (hc : c ∈ dir.codes)
    (hfile : st.file = none) :
    reportUnknown dir c ∈ collect cfg extCodes st raw ↔ c ∉ cfg.allCodes ++ extCodes ∧ cfg.checkUnknown = true := by
  rw [unknown_reported_iff cfg extCodes st raw hraw key dir hd c hc]
  simp [fileNames, hfile]

/-! ## non-vacuity: a well-formed state with a file and two line directives -/
example : WF { file := some ⟨0, 0, ["a", "b"]⟩, lines := [(2, ⟨30, 2, ["b"]⟩), (5, ⟨70, 5, ["zz", "a"]⟩)] } :=
  ⟨by decide, by decide, by decide, by decide, by decide⟩

end DL.Props.C07
