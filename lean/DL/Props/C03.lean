import DL.Props.C16

/-!
# C03 — every diagnostic is well-formed and points at real source text (the repository's own part)

Proved here: the ordering clause (for every raw list, directive state, configuration, external result) and
position facts of the accounting diagnostics.  The text-scanning rules' range arithmetic is in `DL.Props.C03Txt`.
Ranges of AST-based rules are swc spans (a parameter); they are exercised by the search step only.
-/
namespace DL.Props.C03
open DL.Pipe

/-- the comparator's key: `Option<SourcePos>` (`None` first), then code -/
def keyLe (a b : Diag) : Prop :=
  match a.pos, b.pos with
  | none, none => a.code ≤ b.code
  | none, some _ => True
  | some _, none => False
  | some (x, _), some (y, _) => x < y ∨ (x = y ∧ a.code ≤ b.code)

theorem diagLe_iff (a b : Diag) : diagLe a b = true ↔ keyLe a b := by
  unfold diagLe keyLe
  rcases a.pos with _ | ⟨x, _⟩ <;> rcases b.pos with _ | ⟨y, _⟩ <;> simp

/-- the returned list is ordered by start position, then rule code -/
theorem result_ordered (cfg : Cfg) (st : St) (ruleDiags : List Diag) (ext : Option (List Diag × List String)) :
    (lintInner cfg st ruleDiags ext).Pairwise keyLe := by
  refine (DL.Props.C16.result_sorted cfg st ruleDiags ext).imp ?_
  intro a b h; exact (diagLe_iff a b).mp h

/-- every accounting diagnostic points at the start of the directive comment it is about -/
theorem accounting_points_at_directive (code : String) (mk : String → Payload) (p : DirKey → String → Bool) (st : St)
    (x : Diag) (h : x ∈ allDirDiags code mk p st) :
    (∃ f, st.file = some f ∧ x.pos = some (f.start, f.line)) ∨ (∃ kd ∈ st.lines, x.pos = some (kd.2.start, kd.2.line)) := by
  rcases mem_allDirDiags_iff.mp h with ⟨f, hf, c, _, _, rfl⟩ | ⟨kd, hk, c, _, _, rfl⟩
  · exact Or.inl ⟨f, hf, rfl⟩
  · exact Or.inr ⟨kd, hk, rfl⟩

/-! non-vacuity -/
example : keyLe ⟨"a", none, .raw 0⟩ ⟨"a", some (0, 0), .raw 1⟩ := trivial

end DL.Props.C03
