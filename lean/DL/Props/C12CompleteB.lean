import DL.Lemmas.RxBCompTop
import DL.Props.C12SpecB
import DL.Props.C12Fuel
import DL.Props.C12NoPanic

/-!
# C12 (continued): completeness of the regular-expression validator without the `u` flag (ES2022 + Annex B.1.2)

`DL/Model/RegexSpecB.lean` is the pattern grammar for `[~UnicodeMode]` with the replacements of Annex B.1.2, read as
B.1.2 says it must be read: *"each alternative is considered only if previous production alternatives do not match"*
(the side conditions marked "ordered choice" in that file).  `C12SpecB` proves **soundness**: what the validator
accepts without `u` is derivable.  This file proves the converse: every pattern that the grammar derives
(early errors respected, both passes of *ParsePattern*) is accepted, given enough fuel — so without the `u` flag, too,
the validator **decides** the grammar.

As in Unicode mode the only difference from the standard is that the bounds of `{lo,hi}` are compared after saturation
at `i64::MAX` (`qokModel`); for bounds below `2^63 - 1` this is the standard's `lo ≤ hi`.

The proof follows a derivation (`DL/Lemmas/RxBComp*.lean`), like the one for Unicode mode (`C12Complete`), plus:
* with the ordered-choice side conditions every escape is unambiguous as a prefix: an identity escape only where no
  `ControlEscape` / `0` / hex / unicode / legacy octal escape starts, `\ [lookahead = c]` only where no control letter
  follows, a `CharacterEscape` only where no `DecimalEscape` (≤ the number of groups) and no class escape matches;
* legacy octal escapes are maximal (`\1` before a non-octal digit, `\12` with a leading `0`–`3` before a non-octal
  digit or `\4x`, `\123`), which is what the scanner eats;
* a `{` is an `ExtendedPatternCharacter` only where no `InvalidBracedQuantifier` starts; a `Term` is never followed by
  a `Quantifier` (`NoQB`), so the optional quantifier after an atom / a quantifiable assertion is the derivation's;
* the `\b` / `\B` assertions come before `\ AtomEscape` (`StartsWordBoundary`);
* the flag `last_assertion_is_quantifiable` is set exactly by the two lookaheads (`PQAB`);
* `validate_pattern` runs the `[~N]` parse and, iff that leaves a group name, the `[+N]` parse — *ParsePattern*.
Termination (`C12Fuel`) and panic freedom (`C12NoPanic`) turn "no `Err`" into "`Ok`".
-/
namespace DL.Props.C12
open DL.Rx DL.RxSpec

theorem parsesWith_sat {nf : Bool} {txt : List Nat} {a : Attr} (h : RxSpecB.ParsesWith nf qokModel txt a) :
    RxSpecB.Derives nf qokSat a.groups.length .Disjunction txt [] a ∧ (groupNames a.groups).Nodup ∧
      ∀ x ∈ a.refs, x ∈ groupNames a.groups :=
  ⟨DerivesB.mono (fun lo hi h => (qokSat_iff lo hi).mpr h) h.1, h.2.1, h.2.2⟩

/-- **completeness of the validator without the `u` flag**: a valid pattern is accepted -/
theorem validatePattern_complete_nonU (source : List Nat) (hlen : source.length < 2 ^ 61)
    (h : RxSpecB.ValidPatternWith qokModel source) (fuel : Nat) (hfuel : fuelBound source.length ≤ fuel) (st : St) :
    ∃ s', validatePattern fuel source false st = .ok () s' := by
  obtain ⟨a₀, hp0, hp1⟩ := h
  obtain ⟨hd0, hnd0, hrefs0⟩ := parsesWith_sat hp0
  have hl : (encodeUtf16 source).length < 2 ^ 62 := by
    have := encodeUtf16_length_le source; omega
  have hwc := validatePattern_wd source hl a₀ hd0 hnd0 hrefs0 (fun hne => by
    obtain ⟨a₁, hp⟩ := hp1 hne
    exact ⟨a₁, parsesWith_sat hp⟩) fuel st
  cases hv : validatePattern fuel source false st with
  | ok u s' => cases u; exact ⟨s', rfl⟩
  | err msg s' => rw [hv] at hwc; exact hwc.elim
  | panic why s' => exact absurd hv (validatePattern_never_panics fuel source false st why s')
  | outOfFuel s' => exact absurd hv (validatePattern_terminates fuel source false st hfuel s')

/-- the standard's own early error (`lo ≤ hi`) implies the implemented one -/
theorem validPatternB_model {source : List Nat} (h : RxSpecB.ValidPattern source) :
    RxSpecB.ValidPatternWith qokModel source := by
  obtain ⟨a₀, ⟨hd0, hnd0, hrefs0⟩, h1⟩ := h
  refine ⟨a₀, ⟨DerivesB.mono (fun lo hi h => .inl h) hd0, hnd0, hrefs0⟩, fun hne => ?_⟩
  obtain ⟨a₁, hd1, hnd1, hrefs1⟩ := h1 hne
  exact ⟨a₁, DerivesB.mono (fun lo hi h => .inl h) hd1, hnd1, hrefs1⟩

/-- every pattern that is valid according to ES2022 + Annex B (without the `u` flag) is accepted -/
theorem validatePattern_complete_nonU_standard (source : List Nat) (hlen : source.length < 2 ^ 61)
    (h : RxSpecB.ValidPattern source) (fuel : Nat) (hfuel : fuelBound source.length ≤ fuel) (st : St) :
    ∃ s', validatePattern fuel source false st = .ok () s' :=
  validatePattern_complete_nonU source hlen (validPatternB_model h) fuel hfuel st

/-- **the validator decides the grammar** (no `u` flag): acceptance = derivability -/
theorem validatePattern_iff_nonU (source : List Nat) (hsrc : ∀ x ∈ source, x < 0x110000)
    (hlen : source.length < 2 ^ 61) (fuel : Nat) (hfuel : fuelBound source.length ≤ fuel) (st : St) :
    (∃ s', validatePattern fuel source false st = .ok () s') ↔ RxSpecB.ValidPatternWith qokModel source :=
  ⟨fun ⟨s', h⟩ => validatePattern_sound_nonU fuel source st s' hsrc hlen h,
   fun h => validatePattern_complete_nonU source hlen h fuel hfuel st⟩

/-- the rule: a regular expression literal with valid flags without `u` is reported iff its pattern is not valid -/
theorem checkRegex_nonU_iff (fuel : Nat) (pattern flags : List Nat) (st : St)
    (hflags : checkForInvalidFlags flags = false) (hu : flags.contains (ch 'u') = false)
    (hsrc : ∀ x ∈ pattern, x < 0x110000) (hlen : pattern.length < 2 ^ 61)
    (hfuel : fuelBound pattern.length ≤ fuel) :
    ∃ b s', checkRegex fuel pattern flags st = .ok b s' ∧
      (b = false ↔ RxSpecB.ValidPatternWith qokModel pattern) := by
  have key : checkRegex fuel pattern flags st =
      (if checkForInvalidFlags flags = true then (pure true : M Bool) else
        checkForInvalidPattern fuel pattern (flags.contains (ch 'u'))) st := rfl
  rw [key, hflags, if_neg (by decide), hu]
  unfold checkForInvalidPattern
  cases hv : validatePattern fuel pattern false st with
  | ok u s1 =>
    cases u
    exact ⟨false, s1, rfl, ⟨fun _ => validatePattern_sound_nonU fuel pattern st s1 hsrc hlen hv, fun _ => rfl⟩⟩
  | err msg s1 =>
    refine ⟨true, s1, rfl, ⟨fun h => (by cases h), fun h => ?_⟩⟩
    obtain ⟨s', hok⟩ := validatePattern_complete_nonU pattern hlen h fuel hfuel st
    rw [hv] at hok; cases hok
  | panic why s1 => exact absurd hv (validatePattern_never_panics fuel pattern false st why s1)
  | outOfFuel s1 => exact absurd hv (validatePattern_terminates fuel pattern false st hfuel s1)

#print axioms validatePattern_complete_nonU
#print axioms validatePattern_iff_nonU
#print axioms checkRegex_nonU_iff

end DL.Props.C12
