import DL.Model.CFRules
import DL.Lemmas.CFSound8
import DL.Lemmas.CFSorted

/-!
# C10 — no-unreachable never flags a statement that can execute

Model: `DL.CF` (analyzer transcription, `Model/CF.lean`), reference semantics (`Model/CFRef.lean`), rule layer
(`Model/CFRules.lean`).  This file holds the property statements; the soundness invariant is developed in
`DL.Lemmas.CFSound` and instantiated here.

-- FULL: ∀ prog p, p ∈ prog.flagged (analyze prog) → prog.reachable p = false
-/
namespace DL.Props.C10
open DL.CF

/-- a statement is only ever flagged when the enclosing scope had already stopped -/
theorem flag_only_after_stop (sc : Sc) (t : Tag) (h : unreachableFlag sc t = true) : stopsEnd sc.end_ = true := by
  unfold unreachableFlag at h
  split at h
  · assumption
  · cases h

/-- hoisting: a function declaration used earlier in the scope, an empty statement and a `var` without initialiser are
never marked unreachable -/
theorem never_flagged (sc : Sc) :
    unreachableFlag sc .empty = false ∧ unreachableFlag sc .varNoInit = false ∧
    ∀ id, sc.hoist.contains id = true → unreachableFlag sc (.fnDecl id) = false := by
  refine ⟨?_, ?_, ?_⟩
  · unfold unreachableFlag; split <;> rfl
  · unfold unreachableFlag; split <;> rfl
  · intro id h; unfold unreachableFlag; split
    · simp only [h, Bool.not_true]
    · rfl

/-- the rule reports exactly at statement positions whose recorded metadata says `unreachable` -/
theorem flagHere_sound (info : Info) (s : Stmt) (p : Nat) (h : p ∈ flagHere info s) :
    p = s.pos ∧ exempt s = false ∧ ∃ m, info p = some m ∧ m.unreachable = true := by
  unfold flagHere at h
  by_cases hc : (!exempt s && metaUnreach info s.pos) = true
  · rw [if_pos hc] at h
    simp only [List.mem_singleton] at h
    subst h
    simp only [Bool.and_eq_true, Bool.not_eq_true'] at hc
    refine ⟨rfl, hc.1, ?_⟩
    have h2 := hc.2
    unfold metaUnreach at h2
    cases hi : info s.pos with
    | none => rw [hi] at h2; cases h2
    | some m => rw [hi] at h2; exact ⟨m, rfl, h2⟩
  · rw [if_neg hc] at h; cases h

/-- **C10 on the fragment `inF`** (PARTIAL: the full statement above quantifies over all programs).
Fragment (`DL.Lemmas.CFPos`): scripts whose statements are expression/declaration statements, blocks, `if`/`else`,
`while`, `do-while`, `for`, `for-in/of`, `switch`, `try`/`catch`/`finally`, labelled statements, `break`/`continue` (with or without label), `return`,
`throw`, nested to any depth, where every
expression may contain function scopes (function/arrow expressions and declarations, methods …: parameters, then a body
block whose statements are again in the fragment), to any depth; with pairwise distinct positions (`positions`: the
statements, function scopes and function body blocks; the position of an expression/declaration statement may coincide
with that of a function it starts with).  For every such script, every statement reported by `no-unreachable` is
unreachable in the reference semantics, both from the start of the script and from the entry of every function in it.
Statements nested directly in expressions (`with` bodies, class static blocks) are in the fragment, see below and
`DL.Lemmas.CFPos` for the positions where they are admitted. -/
theorem C10_partial (ss : List Stmt) (hf : (stmtsOfList ss).inF = true) (hnd : (stmtsOfList ss).positions.Nodup) (p : Nat)
    (hp : p ∈ Program.flagged { isModule := false, items := ss.map .stmt }
      (analyze { isModule := false, items := ss.map .stmt })) :
    Program.reachable { isModule := false, items := ss.map .stmt } p = false :=
  script_flagged_unreachable ss hf hnd p hp

/-- **C10 on the fragment, whole programs**: the same for a module or script whose items are statements of the fragment and
module declarations (`import`/`export` …) whose expressions are in the fragment (`itemsInF`), with pairwise distinct
positions (`itemsPositions`). -/
theorem C10_fragment (prog : Program) (hf : itemsInF prog.items = true) (hnd : (itemsPositions prog.items).Nodup) (p : Nat)
    (hp : p ∈ prog.flagged (analyze prog)) : prog.reachable p = false :=
  program_flagged_unreachable prog hf hnd p hp

/-- the hypothesis on positions, characterised: it holds whenever the source positions of the program, listed in source
order with the one allowed coincidence counted once (`itemsSrcPositions`), are strictly increasing — as they are in the
dump of a parsed program -/
theorem C10_sorted (prog : Program) (hf : itemsInF prog.items = true)
    (hinc : (itemsSrcPositions prog.items).Pairwise (· < ·)) (p : Nat)
    (hp : p ∈ prog.flagged (analyze prog)) : prog.reachable p = false :=
  program_flagged_unreachable prog hf (items_nodup_of_increasing prog.items hinc) p hp

/-- `do { if (x) continue; return 1; } while (c);  function f() { return 1; foo(); }`: source positions strictly increase
(the test of the `do-while` comes after its body, the function scope shares its position with the declaration) -/
example :
    let body := Stmt.block 3 (.cons (.ifS 5 (.cons (.expr (.ident "x") .nil) .nil) (.cont 12 none) none)
      (.cons (.ret 22 (.cons (.expr .other .nil) .nil)) .nil))
    let fbody : Stmts := .cons (.ret 65 (.cons (.expr .other .nil) .nil)) (.cons (.simple 75 .exprStmt (.cons (.expr .other .nil) .nil)) .nil)
    let items : List Item := [.stmt (.doWhileS 0 body (.cons (.expr (.ident "c") (.cons (.fnScope 40 .nil) .nil)) .nil) false),
      .stmt (.simple 50 (.fnDecl "f") (.cons (.fnScope 50 (.cons (.block 63 fbody) .nil)) .nil))]
    itemsSrcPositions items = [0, 3, 5, 12, 22, 40, 50, 63, 65, 75] ∧ (itemsSrcPositions items).Pairwise (· < ·) ∧
    itemsPositions items = [0, 40, 3, 5, 12, 22, 50, 63, 65, 75] := by
  decide

/-- non-vacuity: `while (true) { if (x) { return; } }  foo();` — in the fragment, positions distinct, and `foo()` IS
flagged (so the hypothesis of `C10_partial` is met by a real flagged statement) -/
example :
    let ss : List Stmt := [.whileS 0 (.cons (.expr .other .nil) .nil) true
        (.block 13 (.cons (.ifS 15 (.cons (.expr (.ident "x") .nil) .nil) (.block 22 (.cons (.ret 24 .nil) .nil)) none) .nil)),
      .simple 36 .exprStmt (.cons (.expr .other .nil) .nil)]
    (stmtsOfList ss).inF = true ∧ (stmtsOfList ss).positions.Nodup ∧
    Program.flagged { isModule := false, items := ss.map .stmt } (analyze { isModule := false, items := ss.map .stmt }) = [36] := by
  decide

/-- non-vacuity with a nested function: `function f() { return 1; foo(); }` — the function scope shares position 0 with
the declaration statement; `foo()` (25) inside the function IS flagged, and it is reachable neither from the script
start nor from the function entry, while `return 1` (15) is reachable from the function entry -/
example :
    let body : Stmts := .cons (.ret 15 (.cons (.expr .other .nil) .nil)) (.cons (.simple 25 .exprStmt (.cons (.expr .other .nil) .nil)) .nil)
    let ss : List Stmt := [.simple 0 (.fnDecl "f") (.cons (.fnScope 0 (.cons (.block 13 body) .nil)) .nil)]
    let prog : Program := { isModule := false, items := ss.map .stmt }
    (stmtsOfList ss).inF = true ∧ (stmtsOfList ss).positions.Nodup ∧
    Program.flagged prog (analyze prog) = [25] ∧ prog.reachable 25 = false ∧ prog.reachable 15 = true := by
  decide

/-- the collision case: an arrow-function expression statement as the body of an `if` —
`if (x) () => { return 1; foo(); }; else bar();  baz();` — the arrow function (7) shares its position with the
expression statement; `foo()` (25) is flagged, `baz()` (60) is not (the end recorded under 7 belongs to the function) -/
example :
    let body : Stmts := .cons (.ret 15 (.cons (.expr .other .nil) .nil)) (.cons (.simple 25 .exprStmt (.cons (.expr .other .nil) .nil)) .nil)
    let arrow : Stmt := .simple 7 .exprStmt (.cons (.expr .other (.cons (.fnScope 7 (.cons (.block 13 body) .nil)) .nil)) .nil)
    let ss : List Stmt := [.ifS 0 (.cons (.expr (.ident "x") .nil) .nil) arrow (some (.simple 45 .exprStmt (.cons (.expr .other .nil) .nil))),
      .simple 60 .exprStmt (.cons (.expr .other .nil) .nil)]
    let prog : Program := { isModule := false, items := ss.map .stmt }
    (stmtsOfList ss).inF = true ∧ (stmtsOfList ss).positions.Nodup ∧
    Program.flagged prog (analyze prog) = [25] ∧ prog.reachable 60 = true := by
  decide

/-- labels: `L: { while (true) { break L; }  foo(); }  bar();` — `foo()` (30) is flagged (the loop is only left by
`break L`, which skips it), `bar()` (40) is not, and is reachable -/
example :
    let ss : List Stmt := [.labeled 0 "L" (.block 3 (.cons (.whileS 5 (.cons (.expr .other .nil) .nil) true
        (.block 18 (.cons (.brk 20 (some "L")) .nil)))
        (.cons (.simple 30 .exprStmt (.cons (.expr .other .nil) .nil)) .nil))),
      .simple 40 .exprStmt (.cons (.expr .other .nil) .nil)]
    let prog : Program := { isModule := false, items := ss.map .stmt }
    (stmtsOfList ss).inF = true ∧ (stmtsOfList ss).positions.Nodup ∧
    Program.flagged prog (analyze prog) = [30] ∧ prog.reachable 40 = true ∧ prog.reachable 30 = false := by
  decide

/-- `switch`: `switch (x) { case 1: return; default: throw e; }  foo();` — `foo()` (50) is flagged; with a `break` in the
first case it is not -/
example :
    let sw (s1 : Stmt) : Stmt := .switchS 0 (.cons (.expr (.ident "x") .nil) .nil)
      (.cons 13 false (.cons (.expr .other .nil) .nil) (.cons s1 .nil)
        (.cons 29 true .nil (.cons (.throw 38 (.cons (.expr (.ident "e") .nil) .nil)) .nil) .nil))
    let foo : Stmt := .simple 50 .exprStmt (.cons (.expr .other .nil) .nil)
    let prog1 : Program := { isModule := false, items := [sw (.ret 21 .nil), foo].map .stmt }
    let prog2 : Program := { isModule := false, items := [sw (.brk 21 none), foo].map .stmt }
    (stmtsOfList [sw (.ret 21 .nil), foo]).inF = true ∧ (stmtsOfList [sw (.ret 21 .nil), foo]).positions.Nodup ∧
    Program.flagged prog1 (analyze prog1) = [50] ∧ prog1.reachable 50 = false ∧
    Program.flagged prog2 (analyze prog2) = [] ∧ prog2.reachable 50 = true := by
  decide

/-- `try`: in `try { return; } catch (e) { foo(); }  bar();` the block cannot throw, so `foo()` (30) and `bar()` (40) are
both flagged; in `try { f(); return; } catch (e) { }  bar();` nothing is; in `try { f(); } finally { return; }  bar();`
`bar()` is -/
example :
    let call (p : Nat) : Stmt := .simple p .exprStmt (.cons (.expr .other .nil) .nil)
    let ss1 : List Stmt := [.tryS 0 4 (.cons (.ret 6 .nil) .nil) true 16 (.cons (.expr (.ident "e") .nil) (.cons (.block 26 (.cons (call 30) .nil)) .nil)) false 0 .nil, call 40]
    let ss2 : List Stmt := [.tryS 0 4 (.cons (call 5) (.cons (.ret 6 .nil) .nil)) true 16 (.cons (.expr (.ident "e") .nil) (.cons (.block 26 .nil) .nil)) false 0 .nil, call 40]
    let ss3 : List Stmt := [.tryS 0 4 (.cons (call 5) .nil) false 0 .nil true 20 (.cons (.ret 30 .nil) .nil), call 40]
    let prog (ss : List Stmt) : Program := { isModule := false, items := ss.map .stmt }
    (stmtsOfList ss1).inF = true ∧ (stmtsOfList ss1).positions.Nodup ∧
    (stmtsOfList ss2).inF = true ∧ (stmtsOfList ss2).positions.Nodup ∧
    (stmtsOfList ss3).inF = true ∧ (stmtsOfList ss3).positions.Nodup ∧
    Program.flagged (prog ss1) (analyze (prog ss1)) = [30, 40] ∧ (prog ss1).reachable 30 = false ∧
    Program.flagged (prog ss2) (analyze (prog ss2)) = [] ∧ (prog ss2).reachable 40 = true ∧
    Program.flagged (prog ss3) (analyze (prog ss3)) = [40] := by
  decide

/-! ## statements nested directly in expressions: `with` bodies (`Kid.stmt`), class static blocks (`Kid.block`)

They execute in the enclosing flow, and the analyzer visits them in the enclosing scope: a `return`/`throw` in them ends
that scope.  The reference semantics now follows them too (`Kids.compl`, `Kids.flowReach` in `CFRef`), and they are in
the fragment: without restriction among the kids of expression / declaration / `with` statements; with "plain"
completions (normal or throw — the rule for static blocks) in `return`/`throw` arguments, `if`/`while`/`for` tests, `for`
initialisers and the iterated expression of `for-in/of`. -/

-- `with (o) return;  foo();` and `class A { static { throw e; } }  foo();`: `foo()` is flagged, and unreachable
example :
    let prog1 : Program := { isModule := false, items := [
      .stmt (.simple 0 .other (.cons (.expr (.ident "o") .nil) (.cons (.stmt (.ret 9 .nil)) .nil))),
      .stmt (.simple 20 .exprStmt (.cons (.expr .other .nil) .nil))] }
    let prog2 : Program := { isModule := false, items := [
      .stmt (.simple 0 .decl (.cons (.block 17 (.cons (.throw 19 (.cons (.expr (.ident "e") .nil) .nil)) .nil)) .nil)),
      .stmt (.simple 40 .exprStmt (.cons (.expr .other .nil) .nil))] }
    itemsInF prog1.items = true ∧ (itemsPositions prog1.items).Nodup ∧
    prog1.flagged (analyze prog1) = [20] ∧ prog1.reachable 20 = false ∧
    itemsInF prog2.items = true ∧ (itemsPositions prog2.items).Nodup ∧
    prog2.flagged (analyze prog2) = [40] ∧ prog2.reachable 40 = false := by decide

/-! ### three shapes where the analyzer model is unsound (linter bug candidates), kept outside the fragment

The analyzer visits the test of a `do-while` unconditionally, the update of a `for` before its test and body, and the
binding of a `for-in/of` before the iterated expression.  With a class static block that throws in those places it
concludes that what follows cannot be reached, although it can: -/

-- `do break; while (class { static { throw e; } });  foo();` — the test is never evaluated, `foo()` (40) runs
example :
    let thr : Kids := .cons (.expr .other (.cons (.block 20 (.cons (.throw 22 (.cons (.expr (.ident "e") .nil) .nil)) .nil)) .nil)) .nil
    let prog : Program := { isModule := false, items := [.stmt (.doWhileS 0 (.brk 3 none) thr false),
      .stmt (.simple 40 .exprStmt (.cons (.expr .other .nil) .nil))] }
    prog.flagged (analyze prog) = [40] ∧ prog.reachable 40 = true := by decide

-- `for (; x; class { static { throw e; } }) ;  foo();` — the loop can end by its test before any update, `foo()` (40) runs
example :
    let thr : Kids := .cons (.expr .other (.cons (.block 10 (.cons (.throw 12 (.cons (.expr (.ident "e") .nil) .nil)) .nil)) .nil)) .nil
    let prog : Program := { isModule := false, items := [
      .stmt (.forS 0 .nil thr (.cons (.expr (.ident "x") .nil) .nil) true false (.simple 30 .empty .nil)),
      .stmt (.simple 40 .exprStmt (.cons (.expr .other .nil) .nil))] }
    prog.flagged (analyze prog) = [40] ∧ prog.reachable 40 = true := by decide

-- `for ([a = class { static { throw e; } }] of class { static { foo(); } }) ;` — the iterated expression is evaluated
-- first: `foo()` (22) runs
example :
    let thr : Kids := .cons (.expr .other (.cons (.block 5 (.cons (.throw 7 (.cons (.expr (.ident "e") .nil) .nil)) .nil)) .nil)) .nil
    let right : Kids := .cons (.expr .other (.cons (.block 20 (.cons (.simple 22 .exprStmt (.cons (.expr .other .nil) .nil)) .nil)) .nil)) .nil
    let prog : Program := { isModule := false, items := [.stmt (.forInOf 0 thr right (.simple 30 .empty .nil))] }
    prog.flagged (analyze prog) = [22] ∧ prog.reachable 22 = true := by decide

/-! ## regression examples: the defects found and repaired in /repo, decided on the model -/
-- `do { if (x) continue; return 1; } while (c); foo();`  (F7): `foo()` at 50 is not flagged
example :
    let body := Stmt.block 3 (.cons (.ifS 5 (.cons (.expr (.ident "x") .nil) .nil) (.cont 12 none) none)
      (.cons (.ret 22 (.cons (.expr .other .nil) .nil)) .nil))
    let prog : Program := { isModule := false, items := [.stmt (.doWhileS 0 body (.cons (.expr (.ident "c") .nil) .nil) false),
      .stmt (.simple 50 .exprStmt (.cons (.expr .other .nil) .nil))] }
    prog.flagged (analyze prog) = [] := by decide

end DL.Props.C10
