import DL.Model.CFRules
import DL.Lemmas.CFSound7

/-!
# C10 — no-unreachable never flags a statement that can execute

Model: `DL.CF` (analyzer transcription, `Model/CF.lean`), reference semantics (`Model/CFRef.lean`), rule layer
(`Model/CFRules.lean`).  This file holds the property statements; the soundness invariant is developed in
`DL.Lemmas.CFSound` and instantiated here.

-- FULL: ∀ prog p, p ∈ prog.flagged (analyze prog) → prog.reachable p = false
-/
namespace DL.Props.C10
open DL.CF

/-- a statement is only ever flagged when the enclosing scope had already stopped -/
theorem flag_only_after_stop (sc : Sc) (t : Tag) (h : unreachableFlag sc t = true) : stopsEnd sc.end_ = true := by
  unfold unreachableFlag at h
  split at h
  · assumption
  · cases h

/-- hoisting: a function declaration used earlier in the scope, an empty statement and a `var` without initialiser are
never marked unreachable -/
theorem never_flagged (sc : Sc) :
    unreachableFlag sc .empty = false ∧ unreachableFlag sc .varNoInit = false ∧
    ∀ id, sc.hoist.contains id = true → unreachableFlag sc (.fnDecl id) = false := by
  refine ⟨?_, ?_, ?_⟩
  · unfold unreachableFlag; split <;> rfl
  · unfold unreachableFlag; split <;> rfl
  · intro id h; unfold unreachableFlag; split
    · simp only [h, Bool.not_true]
    · rfl

/-- the rule reports exactly at statement positions whose recorded metadata says `unreachable` -/
theorem flagHere_sound (info : Info) (s : Stmt) (p : Nat) (h : p ∈ flagHere info s) :
    p = s.pos ∧ exempt s = false ∧ ∃ m, info p = some m ∧ m.unreachable = true := by
  unfold flagHere at h
  by_cases hc : (!exempt s && metaUnreach info s.pos) = true
  · rw [if_pos hc] at h
    simp only [List.mem_singleton] at h
    subst h
    simp only [Bool.and_eq_true, Bool.not_eq_true'] at hc
    refine ⟨rfl, hc.1, ?_⟩
    have h2 := hc.2
    unfold metaUnreach at h2
    cases hi : info s.pos with
    | none => rw [hi] at h2; cases h2
    | some m => rw [hi] at h2; exact ⟨m, rfl, h2⟩
  · rw [if_neg hc] at h; cases h

/-- **C10 on the fragment `inF`** (PARTIAL: the full statement above quantifies over all programs).
Fragment: scripts whose statements are expression/declaration statements without nested functions, blocks, `if`/`else`,
`while`, `do-while`, `for`, `for-in/of`, unlabelled `break`/`continue`, `return`, `throw`, nested to any depth, with
pairwise distinct statement positions.  For every such script, every statement reported by `no-unreachable` is
unreachable in the reference semantics.  Missing from the fragment: `switch`, `try`, labels, nested functions. -/
theorem C10_partial (ss : List Stmt) (hf : (stmtsOfList ss).inF = true) (hnd : (stmtsOfList ss).positions.Nodup) (p : Nat)
    (hp : p ∈ Program.flagged { isModule := false, items := ss.map .stmt }
      (analyze { isModule := false, items := ss.map .stmt })) :
    Program.reachable { isModule := false, items := ss.map .stmt } p = false :=
  script_flagged_unreachable ss hf hnd p hp

/-- non-vacuity: `while (true) { if (x) { return; } }  foo();` — in the fragment, positions distinct, and `foo()` IS
flagged (so the hypothesis of `C10_partial` is met by a real flagged statement) -/
example :
    let ss : List Stmt := [.whileS 0 (.cons (.expr .other .nil) .nil) true
        (.block 13 (.cons (.ifS 15 (.cons (.expr (.ident "x") .nil) .nil) (.block 22 (.cons (.ret 24 .nil) .nil)) none) .nil)),
      .simple 36 .exprStmt (.cons (.expr .other .nil) .nil)]
    (stmtsOfList ss).inF = true ∧ (stmtsOfList ss).positions.Nodup ∧
    Program.flagged { isModule := false, items := ss.map .stmt } (analyze { isModule := false, items := ss.map .stmt }) = [36] := by
  decide

/-! ## regression examples: the defects found and repaired in /repo, decided on the model -/
-- `do { if (x) continue; return 1; } while (c); foo();`  (F7): `foo()` at 50 is not flagged
example :
    let body := Stmt.block 3 (.cons (.ifS 5 (.cons (.expr (.ident "x") .nil) .nil) (.cont 12 none) none)
      (.cons (.ret 22 (.cons (.expr .other .nil) .nil)) .nil))
    let prog : Program := { isModule := false, items := [.stmt (.doWhileS 0 body (.cons (.expr (.ident "c") .nil) .nil) false),
      .stmt (.simple 50 .exprStmt (.cons (.expr .other .nil) .nil))] }
    prog.flagged (analyze prog) = [] := by decide

end DL.Props.C10
