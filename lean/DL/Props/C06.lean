import DL.Lemmas.Pipe
import DL.Lemmas.DirSpec
import DL.Gen.RuleStructs

/-!
# C06 — ignore directives suppress exactly the diagnostics they name

For **every** raw diagnostic list, directive state (any number of directives, any codes, any `used` flags),
configuration and external code list.  `suppressed st d` is the property's own predicate: the file-level directive
names `d.code`, or `d` has a range starting on line `ℓ > 0` and the directive on line `ℓ-1` names `d.code`.
-/
namespace DL.Props.C06
open DL.Pipe

/-- the accounting diagnostics appended by `collect_diagnostics` -/
def accounting (cfg : Cfg) (extCodes : List String) (st : St) (raw : List Diag) : List Diag :=
  let r1 := checkUsage st raw
  let r2 := banUnknown (cfg.allCodes ++ extCodes) cfg.checkUnknown r1.1
  r2.2 ++ (if (extCodes ++ cfg.configured).contains cUnused then banUnused (extCodes ++ cfg.configured) r2.1 else [])

def Diag.isRaw (d : Diag) : Bool := match d.payload with | .raw _ => true | _ => false

/-- the filter keeps exactly the unsuppressed diagnostics, unaltered and in their original order -/
theorem kept_exact (st : St) (raw : List Diag) :
    (checkUsage st raw).2 = raw.filter (fun d => !suppressed st d) := checkUsage_kept st raw

/-- the result is the stable sort of (unsuppressed raw diagnostics ++ accounting diagnostics) -/
theorem collect_eq (cfg : Cfg) (extCodes : List String) (st : St) (raw : List Diag) :
    collect cfg extCodes st raw =
      (raw.filter (fun d => !suppressed st d) ++ accounting cfg extCodes st raw).mergeSort diagLe := by
  simp [collect, accounting, checkUsage_kept, List.append_assoc]

theorem accounting_not_raw {cfg : Cfg} {extCodes : List String} {st : St} {raw : List Diag} {x : Diag}
    (h : x ∈ accounting cfg extCodes st raw) : Diag.isRaw x = false ∧ (x.code = cUnknown ∨ x.code = cUnused) := by
  unfold accounting at h
  rcases List.mem_append.mp h with h | h
  · obtain ⟨h1, _, c, h3⟩ := banUnknown_code h
    exact ⟨by simp [Diag.isRaw, h3], Or.inl h1⟩
  · split at h
    · obtain ⟨h1, c, h3⟩ := banUnused_code h
      exact ⟨by simp [Diag.isRaw, h3], Or.inr h1⟩
    · cases h

/-- a rule's (or the external linter's) diagnostic is in the result iff it was produced and is not suppressed -/
theorem raw_mem_collect (cfg : Cfg) (extCodes : List String) (st : St) (raw : List Diag) (d : Diag)
    (hd : Diag.isRaw d = true) :
    d ∈ collect cfg extCodes st raw ↔ d ∈ raw ∧ suppressed st d = false := by
  rw [collect_eq, List.mem_mergeSort, List.mem_append, List.mem_filter]
  constructor
  · rintro (h | h)
    · exact ⟨h.1, by simpa using h.2⟩
    · rw [(accounting_not_raw h).1] at hd; cases hd
  · rintro ⟨h1, h2⟩; exact Or.inl ⟨h1, by simp [h2]⟩

/-- …and exactly as often as it was produced: nothing is duplicated or lost -/
theorem raw_count_collect (cfg : Cfg) (extCodes : List String) (st : St) (raw : List Diag) (d : Diag)
    (hd : Diag.isRaw d = true) :
    (collect cfg extCodes st raw).count d = if suppressed st d then 0 else raw.count d := by
  rw [collect_eq, (List.mergeSort_perm _ _).count_eq, List.count_append]
  have h0 : (accounting cfg extCodes st raw).count d = 0 := by
    apply List.count_eq_zero.mpr
    intro h; rw [(accounting_not_raw h).1] at hd; cases hd
  rw [h0, Nat.add_zero]
  cases hsup : suppressed st d
  · rw [List.count_filter (by simp [hsup])]; simp
  · simp only [if_true]
    apply List.count_eq_zero.mpr
    intro h; simp [List.mem_filter, hsup] at h

/-- "not moved": when the raw list is already in report order, the kept diagnostics appear in the result in
exactly their original relative order (stability of the final sort) -/
theorem kept_sublist (cfg : Cfg) (extCodes : List String) (st : St) (raw : List Diag)
    (hs : raw.Pairwise (fun a b => diagLe a b = true)) :
    (raw.filter (fun d => !suppressed st d)).Sublist (collect cfg extCodes st raw) := by
  rw [collect_eq]
  refine List.sublist_mergeSort diagLe_trans diagLe_total ?_ (List.sublist_append_left _ _)
  exact hs.sublist List.filter_sublist

/-- with every directive neutralised the result is just the sorted raw list: the difference the property
observes ("with directives" vs "neutralised in place") is exactly the suppressed diagnostics plus accounting -/
theorem no_directives (cfg : Cfg) (extCodes : List String) (raw : List Diag) :
    collect cfg extCodes { file := none, lines := [] } raw = raw.mergeSort diagLe := by
  have hs : ∀ d, suppressed { file := none, lines := [] } d = false := by
    intro d; unfold suppressed fileNames lineNamesAt; cases d.pos <;> simp [lookupLine]
  have ha : accounting cfg extCodes { file := none, lines := [] } raw = [] := by
    simp [accounting, banUnknown_snd, banUnused, allDirDiags, fileNames]
  rw [collect_eq, ha]
  have : raw.filter (fun d => !suppressed { file := none, lines := [] } d) = raw := by
    apply List.filter_eq_self.mpr; intro d _; simp [hs]
  rw [this, List.append_nil]

/-! ## non-vacuity: a state with a file and a line directive, three diagnostics, one kept -/
example :
    let st : St := { file := some ⟨0, 0, ["a"]⟩, lines := [(2, ⟨30, 2, ["b"]⟩)] }
    let raw : List Diag := [⟨"a", some (50, 5), .raw 0⟩, ⟨"b", some (40, 3), .raw 1⟩, ⟨"b", some (60, 6), .raw 2⟩]
    raw.filter (fun d => !suppressed st d) = [⟨"b", some (60, 6), .raw 2⟩] := by decide

/-! ## "the way codes are separated … or an appended `-- reason` does not change which codes are meant" -/
open DL.Dir in
/-- what `parse_ignore_comment` returns is the token list of the text between the directive word and the reason -/
theorem directive_codes_are_tokens (word : List Char) (kind : Kind) (text : List Char) (cs : List (List Char))
    (h : parseIgnore word kind text = some cs) :
    ∃ rest, word.isPrefixOf? (trim text) = some rest ∧ cs = tokens (stripReason rest) := by
  unfold parseIgnore at h
  by_cases hk : (kind != Kind.line) = true
  · rw [if_pos hk] at h; cases h
  · rw [if_neg hk] at h
    simp only at h
    cases hfw : firstWord (trim text) with
    | none => rw [hfw] at h; cases h
    | some p =>
      rw [hfw] at h
      simp only at h
      by_cases hp : p = word
      · rw [if_pos hp] at h
        cases hpre : word.isPrefixOf? (trim text) with
        | none => rw [hpre] at h; cases h
        | some rest =>
          rw [hpre] at h
          simp only at h
          injection h with h
          exact ⟨rest, rfl, by rw [← h]; exact codes_eq_tokens _⟩
      · rw [if_neg hp] at h; cases h

open DL.Dir in
/-- **separator independence**: codes `c1 … cn` separated by arbitrary non-empty mixtures of white space and commas
(with arbitrary leading separators, optional trailing ones) always denote `[c1, …, cn]` -/
theorem separator_independence (s0 : List Char) (l : List (List Char × List Char)) (h0 : IsSeps s0)
    (hl : ∀ ws ∈ l, IsCode ws.1 ∧ IsSeps ws.2) (hsep : ∀ i, i + 1 < l.length → (l[i]?.map (·.2)) ≠ some []) :
    tokens (s0 ++ joinCodes l) = l.map (·.1) := tokens_joinCodes s0 l h0 hl hsep

open DL.Dir in
/-- **reason independence**: appending white space, `--` and any reason to a reason-free code text denotes the same
codes (at least one white-space character before the dashes: `a---r` means `a`, see `DirSpec`) -/
theorem reason_independence (x : List Char) (w : Char) (ws r : List Char) (hx : stripReason x = x)
    (hw : isWs w = true) (hws : AllWs ws) :
    tokens (stripReason (x ++ (w :: ws ++ '-' :: '-' :: r))) = tokens x := tokens_stripReason_append x w ws r hx hw hws

/-! the three spellings of the property text, evaluated on the model parser itself -/
example : DL.Dir.parseIgnore (chars! "deno-lint-ignore") .line (chars! " deno-lint-ignore no-var no-eval") =
    some [chars! "no-var", chars! "no-eval"] := by decide
example : DL.Dir.parseIgnore (chars! "deno-lint-ignore") .line (chars! " deno-lint-ignore no-var,no-eval") =
    some [chars! "no-var", chars! "no-eval"] := by decide
example : DL.Dir.parseIgnore (chars! "deno-lint-ignore") .line (chars! " deno-lint-ignore no-var ,\t no-eval  -- because, reasons") =
    some [chars! "no-var", chars! "no-eval"] := by decide

/-! ## the two regular expressions of `parse_ignore_comment`, read off the source on every run

M-DIR re-implements `IGNORE_COMMENT_REASON_RE` and `IGNORE_COMMENT_CODE_RE` by hand (`Model/Dir.lean`; closed form in
`directive_codes_are_tokens`).  `Gen/RuleStructs.lean` lists every `Regex::new(<literal>)` of `src/`; the theorem is
re-decided on every run: the literals are the ones the model implements — "cut at the leftmost `\s*--`" and "separators
are `,\s*` or one white-space character". -/
theorem directive_regexes_as_modelled :
    DL.Gen.regexLiterals.filter (fun r => r.1 == "src/ignore_directives.rs") =
      [("src/ignore_directives.rs", "IGNORE_COMMENT_REASON_RE", "\\s*--.*"),
       ("src/ignore_directives.rs", "IGNORE_COMMENT_CODE_RE", ",\\s*|\\s")] := by
  decide

end DL.Props.C06
