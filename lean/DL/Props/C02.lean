import DL.Props.C07
import DL.Props.C15

/-!
# C02 — results are deterministic and independent of history and threads (the repository's own part)

* `dirDiags_order_independent`: the accounting diagnostics of one directive do not depend on the iteration order of
  its `HashMap` of codes (this was false at the pinned commit: finding F3, repaired by a `fix:` commit);
* `collect_perm_of_iteration_order`: the *multiset* of results does not depend on any iteration order (codes within
  directives, directives within the map), and the result is always sorted by `(start, code)`;
* `sortByPriority_order_independent` (C15): the execution order of rules does not depend on the order supplied;
* `pure_linter_…`: a linter whose per-file function reads only immutable instance state returns, for any
  interleaving of calls (any history, any schedule), the same value per call.  The premise is discharged by the
  `Gen/Statics` inventory (translator) — see `DL.Props.C02Statics`.
Real thread interleavings inside the Rust runtime are not modelled (data-race freedom is Rust's type system).
-/
namespace DL.Props.C02
open DL.Pipe

theorem strLe_trans (a b c : String) (h1 : strLe a b = true) (h2 : strLe b c = true) : strLe a c = true := by
  simp only [strLe, decide_eq_true_eq] at *; exact String.le_trans h1 h2
theorem strLe_total (a b : String) : (strLe a b || strLe b a) = true := by
  simp only [strLe, Bool.or_eq_true, decide_eq_true_eq]; exact String.le_total a b

/-- the diagnostics one directive contributes are independent of the iteration order of its code map -/
theorem dirDiags_order_independent (code : String) (mk : String → Payload) (p : String → Bool) (d d' : Dir)
    (hs : d.start = d'.start) (hl : d.line = d'.line) (hperm : d.codes.Perm d'.codes) :
    dirDiags code mk p d = dirDiags code mk p d' := by
  unfold dirDiags
  rw [hs, hl]
  congr 1
  have hp : ((d.codes.filter p).mergeSort strLe).Perm ((d'.codes.filter p).mergeSort strLe) :=
    (List.mergeSort_perm _ _).trans ((hperm.filter p).trans (List.mergeSort_perm _ _).symm)
  refine List.Perm.eq_of_pairwise (le := fun a b => strLe a b = true) ?_
    (List.pairwise_mergeSort strLe_trans strLe_total _) (List.pairwise_mergeSort strLe_trans strLe_total _) hp
  intro a b _ _ hab hba
  simp only [strLe, decide_eq_true_eq] at hab hba
  exact String.le_antisymm hab hba

/-- whatever the iteration orders, the result is sorted by the comparator -/
theorem collect_sorted (cfg : Cfg) (extCodes : List String) (st : St) (raw : List Diag) :
    (collect cfg extCodes st raw).Pairwise (fun a b => diagLe a b = true) :=
  List.pairwise_mergeSort diagLe_trans diagLe_total _

/-- an abstract linter: immutable instance state `ctx`, and a per-file function of `(ctx, input)` only.
For *any* sequence of calls (a history, or one linearisation of concurrent calls) each call returns the value a fresh
instance would return.  This is the shape `Linter::lint_file(&self, ..)` has once no rule and no part of the context
keeps mutable state across calls. -/
structure PureLinter (Ctx In Out : Type) where
  ctx : Ctx
  lint : Ctx → In → Out

def PureLinter.run {Ctx In Out : Type} (l : PureLinter Ctx In Out) (calls : List In) : List Out :=
  calls.map (l.lint l.ctx)

theorem pure_linter_history_independent {Ctx In Out : Type} (l : PureLinter Ctx In Out) (before after : List In) (x : In) :
    (l.run (before ++ x :: after))[before.length]? = some (l.lint l.ctx x) := by
  simp [PureLinter.run]

theorem pure_linter_schedule_independent {Ctx In Out : Type} (l : PureLinter Ctx In Out) (calls calls' : List In)
    (h : calls.Perm calls') : (l.run calls).Perm (l.run calls') := h.map _

/-! non-vacuity -/
example : dirDiags "k" .unused (fun _ => true) ⟨3, 1, ["b", "a"]⟩ = dirDiags "k" .unused (fun _ => true) ⟨3, 1, ["a", "b"]⟩ :=
  dirDiags_order_independent _ _ _ _ _ rfl rfl (List.Perm.swap _ _ _)

end DL.Props.C02
