import DL.Model.FixSmall
/-!
# C13 for two more fix-providing rules, completely modelled (M-FIX small)

`jsx-no-unescaped-entities`: the fixed text is never reported again, contains neither `>` nor `}`, and introduces no
character that would end the JSX text.  `jsx-props-no-spread-multi`: the fix of any reported attribute leaves exactly one
report less; repeated fixing terminates with none left.  For every text / every attribute list.
-/
namespace DL.Props.C13Small
open DL.FixSmall

/-! ### jsx-no-unescaped-entities -/

theorem escChar_no_special (c : Char) : ∀ d ∈ escChar c, d ≠ '>' ∧ d ≠ '}' := by
  intro d hd
  unfold escChar at hd
  split at hd
  · simp at hd; rcases hd with h | h | h | h <;> subst h <;> decide
  · split at hd
    · simp at hd; rcases hd with h | h | h | h | h | h <;> subst h <;> decide
    · simp at hd; subst hd; constructor <;> assumption

/-- the fixed text contains neither character the rule looks for -/
theorem escape_no_special (t : List Char) : ∀ d ∈ escape t, d ≠ '>' ∧ d ≠ '}' := by
  induction t with
  | nil => intro d hd; simp [escape] at hd
  | cons c t ih =>
    intro d hd
    simp only [escape, List.mem_append] at hd
    rcases hd with h | h
    · exact escChar_no_special c d h
    · exact ih d h

theorem escape_id_of_no_special (t : List Char) (h : ∀ d ∈ t, d ≠ '>' ∧ d ≠ '}') : escape t = t := by
  induction t with
  | nil => rfl
  | cons c t ih =>
    have hc := h c (by simp)
    have : escChar c = [c] := by simp [escChar, hc.1, hc.2]
    simp only [escape, this, List.singleton_append]
    rw [ih (fun d hd => h d (by simp [hd]))]

/-- **C13 for jsx-no-unescaped-entities**: the fixed text is not reported again (whatever the text was), so the one
diagnostic of the text node is gone after its fix -/
theorem entFix_not_reported (t : List Char) : entReported (escape t) = false := by
  simp [entReported, escape_id_of_no_special _ (escape_no_special t)]

/-- the fix introduces no character that ends a JSX text (`<`, `{`) -/
theorem escape_keeps_text (t : List Char) (h : ∀ d ∈ t, d ≠ '<' ∧ d ≠ '{') : ∀ d ∈ escape t, d ≠ '<' ∧ d ≠ '{' := by
  induction t with
  | nil => intro d hd; simp [escape] at hd
  | cons c t ih =>
    intro d hd
    simp only [escape, List.mem_append] at hd
    rcases hd with hd | hd
    · unfold escChar at hd
      split at hd
      · simp at hd; rcases hd with h' | h' | h' | h' <;> subst h' <;> decide
      · split at hd
        · simp at hd; rcases hd with h' | h' | h' | h' | h' | h' <;> subst h' <;> decide
        · simp at hd; rw [hd]; exact h c (by simp)
    · exact ih (fun d hd => h d (by simp [hd])) d hd

/-- reported iff one of the two characters occurs -/
theorem entReported_iff (t : List Char) : entReported t = true ↔ ∃ d ∈ t, d = '>' ∨ d = '}' := by
  constructor
  · intro h
    apply Classical.byContradiction
    intro hn
    have : escape t = t := escape_id_of_no_special t (by
      intro d hd
      constructor
      · intro e; exact hn ⟨d, hd, Or.inl e⟩
      · intro e; exact hn ⟨d, hd, Or.inr e⟩)
    simp [entReported, this] at h
  · intro ⟨d, hd, hs⟩
    simp only [entReported, bne_iff_ne, ne_eq]
    intro he
    have := escape_no_special t d (by rw [he]; exact hd)
    rcases hs with e | e
    · exact this.1 e
    · exact this.2 e

example : entReported "a > b }".toList = true := by decide
example : escape "a>}".toList = "a&gt;&#125;".toList := by decide

end DL.Props.C13Small

namespace DL.Props.C13Small
open DL.FixSmall

/-! ### jsx-props-no-spread-multi -/

/-- the number of reports depends on the texts seen so far only as a set, and not on the index offset -/
theorem spreadDiags_length_congr (r : List Attr) (s s' : List (List Char)) (i i' : Nat)
    (h : ∀ x, s.contains x = s'.contains x) : (spreadDiags r s i).length = (spreadDiags r s' i').length := by
  induction r generalizing s s' i i' with
  | nil => rfl
  | cons a r ih =>
    cases a with
    | none => simpa [spreadDiags] using ih s s' (i + 1) (i' + 1) h
    | some t =>
      simp only [spreadDiags, List.length_append]
      rw [ih (t :: s) (t :: s') (i + 1) (i' + 1) (by
        intro x
        have := h x
        simp only [List.contains_cons] at this ⊢
        rw [this])]
      rw [h t]
      split <;> rfl

/-- reported indices are indices of the list, at or above the offset -/
theorem spreadDiags_bounds (r : List Attr) (s : List (List Char)) (i : Nat) :
    ∀ n ∈ spreadDiags r s i, i ≤ n ∧ n < i + r.length := by
  induction r generalizing s i with
  | nil => intro n hn; simp [spreadDiags] at hn
  | cons a r ih =>
    intro n hn
    cases a with
    | none =>
      simp only [spreadDiags] at hn
      have := ih s (i + 1) n hn
      simp only [List.length_cons]; omega
    | some t =>
      simp only [spreadDiags, List.mem_append] at hn
      rcases hn with hn | hn
      · split at hn
        · simp at hn; subst hn; simp
        · simp at hn
      · have := ih (t :: s) (i + 1) n hn
        simp only [List.length_cons]; omega

/-- removing the reported attribute at relative position `j` removes exactly one report -/
theorem spreadDiags_erase (r : List Attr) (s : List (List Char)) (i j : Nat) (h : i + j ∈ spreadDiags r s i) :
    (spreadDiags (r.eraseIdx j) s i).length + 1 = (spreadDiags r s i).length := by
  induction r generalizing s i j with
  | nil => simp [spreadDiags] at h
  | cons a r ih =>
    cases j with
    | zero =>
      cases a with
      | none =>
        simp only [spreadDiags] at h
        have := (spreadDiags_bounds r s (i + 1) _ h).1
        omega
      | some t =>
        simp only [spreadDiags, List.mem_append] at h
        have ht : s.contains t = true := by
          rcases h with h | h
          · split at h
            · assumption
            · simp at h
          · have := (spreadDiags_bounds r (t :: s) (i + 1) _ h).1
            omega
        simp only [List.eraseIdx_cons_zero, spreadDiags, ht, if_true, List.length_append, List.length_singleton]
        rw [spreadDiags_length_congr r s (t :: s) i (i + 1) (by
          intro x; simp only [List.contains_cons]
          by_cases hx : x == t
          · have hxt : x = t := by simpa using hx
            rw [hxt, ht]; simp
          · simp [hx])]
        omega
    | succ j =>
      cases a with
      | none =>
        simp only [spreadDiags] at h
        have h' : (i + 1) + j ∈ spreadDiags r s (i + 1) := by
          have e : i + (j + 1) = (i + 1) + j := by omega
          rw [← e]; exact h
        simpa [List.eraseIdx_cons_succ, spreadDiags] using ih s (i + 1) j h'
      | some t =>
        simp only [spreadDiags, List.mem_append] at h
        have h' : (i + 1) + j ∈ spreadDiags r (t :: s) (i + 1) := by
          rcases h with h | h
          · split at h
            · simp at h
            · simp at h
          · have e : i + (j + 1) = (i + 1) + j := by omega
            rw [← e]; exact h
        have := ih (t :: s) (i + 1) j h'
        simp only [List.eraseIdx_cons_succ, spreadDiags, List.length_append]
        omega

/-- **C13 for jsx-props-no-spread-multi**: the fix of any reported attribute leaves exactly one report less -/
theorem spreadFix_one_fewer (attrs : List Attr) (i : Nat) (h : i ∈ spreadReported attrs) :
    (spreadReported (spreadFix attrs i)).length + 1 = (spreadReported attrs).length := by
  have := spreadDiags_erase attrs [] 0 i (by simpa [spreadReported] using h)
  simpa [spreadReported, spreadFix] using this

/-- repeatedly removing the first reported attribute -/
def spreadRepair : Nat → List Attr → List Attr
  | 0, a => a
  | fuel + 1, a =>
    match spreadReported a with
    | [] => a
    | i :: _ => spreadRepair fuel (spreadFix a i)

theorem spreadRepair_of_le (fuel : Nat) (a : List Attr) (h : (spreadReported a).length ≤ fuel) :
    spreadReported (spreadRepair fuel a) = [] := by
  induction fuel generalizing a with
  | zero => simpa [spreadRepair] using h
  | succ n ih =>
    unfold spreadRepair
    split
    · assumption
    · rename_i i rest heq
      apply ih
      have := spreadFix_one_fewer a i (by rw [heq]; simp)
      omega

/-- as many rounds as there are reports remove them all -/
theorem spreadRepair_terminates (a : List Attr) : spreadReported (spreadRepair (spreadReported a).length a) = [] :=
  spreadRepair_of_le _ a (Nat.le_refl _)

-- `<div {...p} x="1" {...p} {...q} {...p} />`: the second and third `{...p}` are reported
example : spreadReported [some ['p'], none, some ['p'], some ['q'], some ['p']] = [2, 4] := by decide
example : spreadReported (spreadFix [some ['p'], none, some ['p'], some ['q'], some ['p']] 2) = [3] := by decide

end DL.Props.C13Small
