import DL.Props.C06
import DL.Gen.EntryPoints

/-!
# C16 — both entry points and the external-linter hook behave identically

`lint_file` is `parse_program` followed by `lint_inner`; `lint_with_ast` is `lint_inner` (linter.rs:112-154): in the
model both are the one function `lintInner`, so entry-point agreement is `rfl` once parsing is fixed; the
correspondence run checks that on the real code.  The theorems below are about the external-linter hook.
-/
namespace DL.Props.C16
open DL.Pipe DL.Props.C06

/-- the two entry points, as the code has them: `lint_file = lint_inner ∘ parse`, `lint_with_ast = lint_inner` -/
def lintFile {Src AST : Type} (parse : Src → Option AST) (run : AST → List Diag) (s : Src) : Option (List Diag) :=
  (parse s).map run
def lintWithAst {AST : Type} (run : AST → List Diag) (a : AST) : List Diag := run a

theorem entry_points_agree {Src AST : Type} (parse : Src → Option AST) (run : AST → List Diag) (s : Src) (a : AST)
    (h : parse s = some a) : lintFile parse run s = some (lintWithAst run a) := by
  simp [lintFile, lintWithAst, h]

/-- external diagnostics are appended to the rules' diagnostics and go through exactly the same filtering,
accounting and ordering; the declared codes count as known *and* enabled -/
theorem external_uniform (cfg : Cfg) (st : St) (ruleDiags extDiags : List Diag) (extCodes : List String)
    (h : ∀ f, st.file = some f → f.codes ≠ []) :
    lintInner cfg st ruleDiags (some (extDiags, extCodes)) = collect cfg extCodes st (ruleDiags ++ extDiags) := by
  unfold lintInner ignoreAll
  cases hf : st.file with
  | none => simp
  | some f => have := h f hf; simp [this]

/-- a callback that declines (returns `None`) changes nothing -/
theorem external_none_noop (cfg : Cfg) (st : St) (ruleDiags : List Diag) :
    lintInner cfg st ruleDiags none = lintInner cfg st ruleDiags (some ([], [])) := by
  unfold lintInner; split <;> simp

/-- an external diagnostic is kept iff no directive names it — the same predicate as for built-in ones
(in particular a range-less one is kept unless the file-level directive names its code) -/
theorem external_kept_iff (cfg : Cfg) (st : St) (ruleDiags extDiags : List Diag) (extCodes : List String)
    (h : ∀ f, st.file = some f → f.codes ≠ []) (d : Diag) (hd : Diag.isRaw d = true) :
    d ∈ lintInner cfg st ruleDiags (some (extDiags, extCodes)) ↔
      (d ∈ ruleDiags ∨ d ∈ extDiags) ∧ suppressed st d = false := by
  rw [external_uniform cfg st ruleDiags extDiags extCodes h, raw_mem_collect _ _ _ _ _ hd, List.mem_append]

theorem rangeless_kept (cfg : Cfg) (st : St) (ruleDiags extDiags : List Diag) (extCodes : List String)
    (h : ∀ f, st.file = some f → f.codes ≠ []) (d : Diag) (hd : Diag.isRaw d = true) (hp : d.pos = none)
    (hmem : d ∈ extDiags) (hfile : fileNames st d.code = false) :
    d ∈ lintInner cfg st ruleDiags (some (extDiags, extCodes)) := by
  rw [external_kept_iff cfg st ruleDiags extDiags extCodes h d hd]
  exact ⟨Or.inr hmem, by simp [suppressed, hfile, hp]⟩

/-- the ordering is the same total preorder for everything in the result -/
theorem result_sorted (cfg : Cfg) (st : St) (ruleDiags : List Diag) (ext : Option (List Diag × List String)) :
    (lintInner cfg st ruleDiags ext).Pairwise (fun a b => diagLe a b = true) := by
  unfold lintInner
  split
  · exact List.Pairwise.nil
  · cases ext with
    | none => exact List.pairwise_mergeSort diagLe_trans diagLe_total _
    | some e => exact List.pairwise_mergeSort diagLe_trans diagLe_total _

/-! ## non-vacuity -/
example : lintInner ⟨["a"], ["a"]⟩ { file := none, lines := [] } [⟨"a", some (5, 0), .raw 0⟩]
    (some ([⟨"x", none, .raw 1⟩], ["x"])) = [⟨"x", none, .raw 1⟩, ⟨"a", some (5, 0), .raw 0⟩] := by
  simp [lintInner, ignoreAll, collect, checkUsage, stepUsage, stepLine, fileNames, banUnknown, allDirDiags,
    Cfg.checkUnknown, cUnknown, cUnused, List.mergeSort, diagLe]

/-! ## the shape of the two entry points, read off the source on every run

`Gen/EntryPoints.lean` (syn translator) lists every call in the bodies of `Linter::lint_file` and
`Linter::lint_with_ast` and the argument expressions each hands to `lint_inner`.  Re-decided on every run: `lint_file`
is `parse_program` followed by one `lint_inner` call (plus two performance marks and the `Ok` wrapper), `lint_with_ast`
is one `lint_inner` call (plus one mark) — nothing else, no macro — and both hand over the same four things in the same
order: the parsed source, the default JSX factory, the default JSX fragment factory, the external linter.  This is the
premise under which `entry_points_agree` speaks about the code (a swapped pair of factories, a configuration that is
rewritten on the way, a second pass in one of the entry points, each makes it false). -/
theorem entry_points_as_modelled :
    DL.Gen.entryCalls =
      [("lint_file", ["PerformanceMark::new", "PerformanceMark::new", "parse_program", "self.lint_inner", "Ok"]),
       ("lint_with_ast", ["PerformanceMark::new", "self.lint_inner"])]
    ∧ DL.Gen.lintInnerArgs =
      [("lint_file", ["&parsed_source", "options.config.default_jsx_factory", "options.config.default_jsx_fragment_factory",
          "options.external_linter"]),
       ("lint_with_ast", ["parsed_source", "config.default_jsx_factory", "config.default_jsx_fragment_factory",
          "maybe_external_linter"])] := by
  decide

end DL.Props.C16
