import DL.Model.CFExec
import DL.Lemmas.CFExec9
import DL.Props.C10
import DL.Props.C11

/-!
# The reference semantics, validated: closed forms = a plain inductive semantics

`DL.Model.CFExec` defines, independently of the closed forms of `DL.Model.CFRef`, a textbook big-step relation
`Exec ls s o` ("some execution of `s` ends with outcome `o`") and `Reaches s p` ("some execution of `s` reaches the program
point at `p`").  This file states that the closed forms are **exactly** that semantics, and restates C10/C11 in terms of it.
With these, the trusted base of C10/C11 no longer contains `Stmt.compl`, `loopCompl`, `goesRound`, `finallyCompl`,
`Stmt.reach` …: only the rules of `Exec`/`Reaches` (plus the analyzer model and the rule layers).

* `compl_iff_exec`, `reach_iff_reaches` — unconditional, for the whole statement language, statements nested directly in
  expressions (`with` bodies, class static blocks) included;
* `reachable_iff_reaches` — sound unconditionally; complete on the fragment (needed only for the entries of functions:
  `Program.Reaches` enters a function at its body, the closed form also looks at statements nested in its parameters).
-/
namespace DL.Props.C10Ref
open DL.CF

/-- **the closed-form completions are exactly the outcomes of the inductive semantics** (`Compl.has c o`: `o` is among `c`) -/
theorem compl_iff_exec (s : Stmt) (ls : List Id) (o : Outcome) : (s.compl ls).has o = true ↔ Exec ls s o :=
  ⟨Stmt.complete s ls o, Exec.sound⟩

theorem compl_iff_execList (l : Stmts) (o : Outcome) : l.compl.has o = true ↔ ExecList l o :=
  ⟨Stmts.complete l o, ExecList.sound⟩

/-- per outcome, for the reader: normal completion, `break`, `break L`, `continue`, `continue L`, `return`, `throw` -/
theorem compl_fields (s : Stmt) (ls : List Id) :
    ((s.compl ls).n = true ↔ Exec ls s .normal) ∧ ((s.compl ls).b = true ↔ Exec ls s (.brk none)) ∧
    (∀ l, l ∈ (s.compl ls).bl ↔ Exec ls s (.brk (some l))) ∧ ((s.compl ls).c = true ↔ Exec ls s (.cont none)) ∧
    (∀ l, l ∈ (s.compl ls).cl ↔ Exec ls s (.cont (some l))) ∧ ((s.compl ls).r = true ↔ Exec ls s .ret) ∧
    ((s.compl ls).t = true ↔ Exec ls s .thr) :=
  ⟨compl_iff_exec s ls .normal, compl_iff_exec s ls (.brk none),
   fun l => by rw [← compl_iff_exec s ls (.brk (some l))]; exact List.contains_iff_mem.symm,
   compl_iff_exec s ls (.cont none),
   fun l => by rw [← compl_iff_exec s ls (.cont (some l))]; exact List.contains_iff_mem.symm,
   compl_iff_exec s ls .ret, compl_iff_exec s ls .thr⟩

/-- **the closed-form reachability is exactly `Reaches`** (unconditional) -/
theorem reach_iff_reaches (s : Stmt) (p : Nat) : s.reach p = true ↔ Reaches s p :=
  ⟨Stmt.reach_complete s p, Reaches.sound⟩

theorem reachable_iff_reaches (prog : Program) (hf : itemsInF prog.items = true) (p : Nat) :
    prog.reachable p = true ↔ prog.Reaches p :=
  ⟨Program.Reaches.complete prog hf p, Program.Reaches.sound⟩

/-! ## C10 / C11 about the inductive semantics -/

/-- **C10**: a statement reported by `no-unreachable` is not reached by any execution of the program or of one of its
functions -/
theorem C10_fragment_exec (prog : Program) (hf : itemsInF prog.items = true) (hnd : (itemsPositions prog.items).Nodup)
    (p : Nat) (hp : p ∈ prog.flagged (analyze prog)) : ¬ prog.Reaches p := by
  intro h
  have := DL.Props.C10.C10_fragment prog hf hnd p hp
  rw [h.sound] at this; cases this

/-- **C11, statement form**: if the end recorded for a statement (analysed at a reachable point of a fresh scope) stops,
or the scope has stopped after it, no execution of the statement completes normally -/
theorem C11_partial_exec (s : Stmt) (hf : s.inF = true) (hnd : s.positions.Nodup) :
    let a' := visitStmt s { sc := {}, info := Info.empty }
    (s.isDeclOrExpr = false → stopsEnd (a'.info.endAt s.pos) = true → ¬ Exec [] s .normal) ∧
    (stopsEnd a'.sc.end_ = true → ¬ Exec [] s .normal) := by
  have h := DL.Props.C11.C11_partial s hf hnd
  refine ⟨fun hde hs he => ?_, fun hs he => ?_⟩
  · have hn : (s.compl []).n = true := he.sound
    have := h.1 hde hs; rw [hn] at this; cases this
  · have hn : (s.compl []).n = true := he.sound
    have := h.2 hs; rw [hn] at this; cases this

/-- **C11, `stopViol`**: a statement whose metadata stops although some execution of it completes normally is not reached -/
theorem C11_stopViol_exec (prog : Program) (hf : itemsInF prog.items = true) (hnd : (itemsPositions prog.items).Nodup)
    (p : Nat) (hp : p ∈ prog.stopViol (analyze prog)) : ¬ prog.Reaches p := by
  intro h
  have := (DL.Props.C11.C11_stopViol prog hf hnd p hp).2
  rw [h.sound] at this; cases this

/-- **C11, `getter-return`**: if the rule is silent on a function body, no execution of the body falls off its end -/
theorem C11_getter_exec (prog : Program) (hf : itemsInF prog.items = true) (hnd : (itemsPositions prog.items).Nodup)
    (g : Getter) (hg : g ∈ prog.getters) (hrep : getterReported (analyze prog) g = false) : ¬ ExecList g.body .normal := by
  intro he
  have := DL.Props.C11.C11_getter prog hf hnd g hg hrep
  have hn : g.body.compl.n = true := he.sound
  rw [hn] at this; cases this

/-- **C11, `no-fallthrough`**: in a reached `switch`, a case body with a stopping statement never falls through -/
theorem C11_case_exec (prog : Program) (hf : itemsInF prog.items = true) (hnd : (itemsPositions prog.items).Nodup)
    (c : Nat × Stmts) (hc : c ∈ prog.swCases) (hreach : prog.Reaches c.1)
    (hst : stmtsStop (analyze prog) c.2 = true) : ¬ ExecList c.2 .normal := by
  intro he
  have := DL.Props.C11.C11_case prog hf hnd c hc hreach.sound hst
  have hn : c.2.compl.n = true := he.sound
  rw [hn] at this; cases this

/-! ## the closed forms are not needlessly coarse

Both directions hold for the whole statement language, so there is no gap: `Kids.compl`/`Kids.flowReach` (statements
nested directly in expressions), `finallyCompl`, `loopCompl`/`goesRound`, the label filtering and `Cases.reach` are exact for
this semantics.  Three coarse spots are built into *both* sides (closed forms and `Exec`/`Reaches` agree on them):
case tests and catch parameters are only looked at through `Kids.mayThrow` (statements nested in them are not followed);
for reaching the test of a `do-while` / the update of a `for`, any `continue` of the body — whatever its label — is taken
to go round (`goesRoundAny`; reachability carries no label context); every case test is taken to be evaluated.  All three
over-approximate `reach`, which is the safe side for C10, and concern only kids that are outside the fragment. -/

/-- `with (o) foo();`: the nested statement (9) is reached, by the closed form and by a derivation -/
example :
    let s : Stmt := .simple 0 .other (.cons (.expr (.ident "o") .nil) (.cons (.stmt (.simple 9 .exprStmt .nil)) .nil))
    s.reach 9 = true ∧ Reaches s 9 ∧ s.inF = true :=
  ⟨by decide, .simple_kids (.tail (.expr .nil) (.head (.stmt (.self _)))), by decide⟩

/-- `with (o) return;`: the statement returns, and cannot complete normally -/
example :
    let s : Stmt := .simple 0 .other (.cons (.expr (.ident "o") .nil) (.cons (.stmt (.ret 9 .nil)) .nil))
    Exec [] s .ret ∧ ¬ Exec [] s .normal := by
  refine ⟨.simple (.next (.expr .nil) (.stop (.stmt (.ret .nil)) (by simp))), fun h => ?_⟩
  have := (compl_iff_exec _ [] .normal).mpr h
  revert this; decide

/-! ## non-vacuity: derivations -/

/-- `do { if (x) continue; return 1; } while (c);` completes normally: go round by `continue`, then the test is false -/
example :
    let body := Stmt.block 3 (.cons (.ifS 5 (.cons (.expr (.ident "x") .nil) .nil) (.cont 12 none) none)
      (.cons (.ret 22 (.cons (.expr .other .nil) .nil)) .nil))
    Exec [] (.doWhileS 0 body (.cons (.expr (.ident "c") .nil) .nil) false) .normal :=
  .do_done (o := .cont none) (.block (.stop (.if_then (.next (.expr .nil) .nil) .cont) (by simp))) rfl
    (.eval (.next (.expr .nil) .nil))

/-- `L: while (true) { break L; }` completes normally, and only so -/
example :
    let s : Stmt := .labeled 0 "L" (.whileS 3 (.cons (.expr .other .nil) .nil) true (.block 16 (.cons (.brk 18 (some "L")) .nil)))
    Exec [] s .normal ∧ ∀ o, Exec [] s o → o = .normal := by
  refine ⟨.labeled_break (.while_exit .known (.block (.stop .brk (by simp))) rfl), ?_⟩
  intro o h
  have := (compl_iff_exec _ [] o).mpr h
  have hc : Stmt.compl [] (.labeled 0 "L" (.whileS 3 (.cons (.expr .other .nil) .nil) true
      (.block 16 (.cons (.brk 18 (some "L")) .nil)))) = { n := true } := by decide
  rw [hc] at this
  rcases o with _ | l | l | _ | _
  · rfl
  · cases l <;> simp [Compl.has] at this
  · cases l <;> simp [Compl.has] at this
  · simp [Compl.has] at this
  · simp [Compl.has] at this

end DL.Props.C10Ref
