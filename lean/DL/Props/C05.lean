import DL.Lemmas.Pipe
import DL.Model.Dir

/-!
# C05 — a leading bare ignore-file directive silences the whole file, and only then
-/
namespace DL.Props.C05
open DL.Pipe

/-- if the file-level directive has no codes, `lint_inner` returns nothing — whatever the rules produced,
whatever the configuration and the external linter returned -/
theorem ignoreAll_silences (cfg : Cfg) (st : St) (f : Dir) (hf : st.file = some f) (hc : f.codes = [])
    (ruleDiags : List Diag) (ext : Option (List Diag × List String)) :
    lintInner cfg st ruleDiags ext = [] := by
  simp [lintInner, ignoreAll, hf, hc]

/-- …and only then: without a file directive, or with one that lists codes, the pipeline runs -/
theorem otherwise_runs (cfg : Cfg) (st : St) (h : ∀ f, st.file = some f → f.codes ≠ [])
    (ruleDiags : List Diag) :
    lintInner cfg st ruleDiags none = collect cfg [] st ruleDiags := by
  unfold lintInner ignoreAll
  cases hf : st.file with
  | none => simp
  | some f => have := h f hf; simp [this]

open DL.Dir

/-- a block comment is never a directive -/
theorem block_comment_never (word text : List Char) : parseIgnore word .block text = none := by
  simp [parseIgnore]

/-- only the *initial* comments matter: the file directive is a function of the kinds and texts of the comments
swc attaches before the first item and of nothing else in the program -/
theorem fileDirective_depends_only_on_initial (word : List Char) (initial : List Comment) :
    fileDirective word initial =
      initial.findSome? (fun c => (parseIgnore word c.kind c.text).map fun codes => (c, codes)) := rfl

theorem no_initial_comments (word : List Char) : fileDirective word [] = none := rfl

/-- directive text in block comments among the leading comments is skipped -/
theorem leading_block_skipped (word : List Char) (c : Comment) (rest : List Comment) (hk : c.kind = .block) :
    fileDirective word (c :: rest) = fileDirective word rest := by
  simp [fileDirective, List.findSome?_cons, hk, block_comment_never]

/-- when several file directives lead the file, the first one wins -/
theorem first_directive_wins (word : List Char) (c : Comment) (rest : List Comment) (codes : List (List Char))
    (h : parseIgnore word c.kind c.text = some codes) :
    fileDirective word (c :: rest) = some (c, codes) := by
  simp [fileDirective, List.findSome?_cons, h]

/-! ## non-vacuity -/
example : parseIgnore (chars! "deno-lint-ignore-file") .line (chars! " deno-lint-ignore-file -- generated -- x") = some [] := by
  decide
example : parseIgnore (chars! "deno-lint-ignore-file") .line (chars! " deno-lint-ignore-file no-var, ,eqeqeq  x--y")
    = some [chars! "no-var", chars! "eqeqeq", chars! "x"] := by decide
example : lintInner ⟨["a"], ["a"]⟩ { file := some ⟨0, 0, []⟩, lines := [] } [⟨"a", some (1, 0), .raw 0⟩] none = [] := by
  decide

end DL.Props.C05
