import DL.Model.Sel
import DL.Gen.RuleTable

/-!
# C15 — rule selection by tags, include and exclude follows its documented algebra

Theorems about `DL.Sel` (model of `filtered_rules`, `recommended_rules`, `sort_rules_by_priority`) for **every**
registry, tag set, include and exclude list; and table facts decided on the registry regenerated from /repo.
-/
namespace DL.Props.C15
open DL.Sel

/-- the property's membership law, as a Boolean spec -/
def spec (tags excl incl : Option (List String)) (r : Rule) : Prop :=
  ((tags = none) ∨ (∃ ts, tags = some ts ∧ ∃ t ∈ r.tags, t ∈ ts) ∨ (∃ is, incl = some is ∧ r.code ∈ is)) ∧
  ¬ (∃ xs, excl = some xs ∧ r.code ∈ xs)

theorem passes_iff_spec (tags excl incl : Option (List String)) (r : Rule) :
    passes tags excl incl r = true ↔ spec tags excl incl r := by
  unfold passes spec
  cases tags <;> cases incl <;> cases excl <;> simp <;> grind

/-- membership law: a rule is selected iff it is in the registry, (carries a tag in T, or T is absent, or is
listed in I) and is not listed in X -/
theorem mem_filtered (all : List Rule) (tags excl incl : Option (List String)) (r : Rule) :
    r ∈ filtered all tags excl incl ↔ r ∈ all ∧ spec tags excl incl r := by
  simp [filtered, List.mem_mergeSort, List.mem_filter, passes_iff_spec]

/-- "each once": the result is a permutation of the filtered registry, so multiplicities are those of the registry -/
theorem filtered_perm (all : List Rule) (tags excl incl : Option (List String)) :
    (filtered all tags excl incl).Perm (all.filter (passes tags excl incl)) :=
  List.mergeSort_perm _ _

theorem filtered_nodup (all : List Rule) (tags excl incl : Option (List String))
    (h : (all.map (·.code)).Nodup) : ((filtered all tags excl incl).map (·.code)).Nodup := by
  have hp := (filtered_perm all tags excl incl).map (·.code)
  refine hp.nodup_iff.mpr ?_
  exact List.Nodup.sublist (List.Sublist.map _ List.filter_sublist) h

/-- sorted by code -/
theorem filtered_sorted (all : List Rule) (tags excl incl : Option (List String)) :
    (filtered all tags excl incl).Pairwise (fun a b => a.code ≤ b.code) := by
  have := List.pairwise_mergeSort (le := codeLe)
    (fun a b c h1 h2 => by simp only [codeLe, decide_eq_true_eq] at *; exact String.le_trans h1 h2)
    (fun a b => by simp only [codeLe, Bool.or_eq_true, decide_eq_true_eq]; exact String.le_total _ _)
    (all.filter (passes tags excl incl))
  simpa [filtered, codeLe] using this

/-- unknown names are ignored: a name that is no rule's code can be added to / removed from the lists freely -/
theorem unknown_include_ignored (all : List Rule) (tags excl : Option (List String)) (is : List String) (x : String)
    (hx : ∀ r ∈ all, r.code ≠ x) :
    filtered all tags excl (some (x :: is)) = filtered all tags excl (some is) := by
  unfold filtered
  congr 1
  apply List.filter_congr
  intro r hr
  have := hx r hr
  unfold passes
  cases tags <;> cases excl <;> simp [this]

theorem unknown_exclude_ignored (all : List Rule) (tags incl : Option (List String)) (xs : List String) (x : String)
    (hx : ∀ r ∈ all, r.code ≠ x) :
    filtered all tags (some (x :: xs)) incl = filtered all tags (some xs) incl := by
  unfold filtered
  congr 1
  apply List.filter_congr
  intro r hr
  have := hx r hr
  unfold passes
  cases tags <;> cases incl <;> simp [this]

/-- the recommended set is exactly the rules tagged `recommended`, in registry order -/
theorem mem_recommended (all : List Rule) (r : Rule) :
    r ∈ recommended all ↔ r ∈ all ∧ "recommended" ∈ r.tags := by
  simp [recommended, List.mem_filter]

theorem recommended_sublist (all : List Rule) : (recommended all).Sublist all := List.filter_sublist

/-- the linter runs exactly the selected rules: `sort_rules_by_priority` permutes -/
theorem sortByPriority_perm (rs : List Rule) : (sortByPriority rs).Perm rs := List.mergeSort_perm _ _

theorem prioLe_trans (a b c : Rule) (h1 : prioLe a b = true) (h2 : prioLe b c = true) : prioLe a c = true := by
  simp only [prioLe, Bool.or_eq_true, Bool.and_eq_true, decide_eq_true_eq, beq_iff_eq] at *
  rcases h1 with h1 | ⟨h1, h1'⟩ <;> rcases h2 with h2 | ⟨h2, h2'⟩
  · left; omega
  · left; omega
  · left; omega
  · right; exact ⟨by omega, String.le_trans h1' h2'⟩

theorem prioLe_total (a b : Rule) : (prioLe a b || prioLe b a) = true := by
  simp only [prioLe, Bool.or_eq_true, Bool.and_eq_true, decide_eq_true_eq, beq_iff_eq]
  rcases Nat.lt_trichotomy a.priority b.priority with h | h | h
  · left; left; exact h
  · rcases String.le_total a.code b.code with h' | h'
    · left; right; exact ⟨h, h'⟩
    · right; right; exact ⟨h.symm, h'⟩
  · right; left; exact h

theorem sortByPriority_sorted (rs : List Rule) : (sortByPriority rs).Pairwise (fun a b => prioLe a b = true) :=
  List.pairwise_mergeSort prioLe_trans prioLe_total rs

/-- … ordering them internally so that rules with a higher priority number run later: in the execution order no
rule of higher priority precedes one of lower priority -/
theorem sortByPriority_priority_monotone (rs : List Rule) :
    (sortByPriority rs).Pairwise (fun a b => a.priority ≤ b.priority) := by
  refine (sortByPriority_sorted rs).imp ?_
  intro a b h
  simp only [prioLe, Bool.or_eq_true, Bool.and_eq_true, decide_eq_true_eq, beq_iff_eq] at h
  omega

theorem inj_of_nodup_map : ∀ (l : List Rule), (l.map (·.code)).Nodup → ∀ {a b}, a ∈ l → b ∈ l → a.code = b.code → a = b
  | [], _, _, _, ha, _, _ => by cases ha
  | x :: l, hn, a, b, ha, hb, hc => by
    simp only [List.map_cons, List.nodup_cons, List.mem_map, not_exists, not_and] at hn
    rcases List.mem_cons.mp ha with rfl | ha' <;> rcases List.mem_cons.mp hb with rfl | hb'
    · rfl
    · exact absurd hc.symm (hn.1 b hb')
    · exact absurd hc (hn.1 a ha')
    · exact inj_of_nodup_map l hn.2 ha' hb' hc

/-- the execution order does not depend on the order in which the rules were supplied (distinct codes) -/
theorem sortByPriority_order_independent (rs rs' : List Rule) (hp : rs.Perm rs')
    (hn : (rs.map (·.code)).Nodup) : sortByPriority rs = sortByPriority rs' := by
  have h1 := sortByPriority_sorted rs
  have h2 := sortByPriority_sorted rs'
  have hperm : (sortByPriority rs).Perm (sortByPriority rs') :=
    (sortByPriority_perm rs).trans (hp.trans (sortByPriority_perm rs').symm)
  refine List.Perm.eq_of_pairwise (le := fun a b => prioLe a b = true) ?_ h1 h2 hperm
  intro a b ha hb hab hba
  have ha' : a ∈ rs := (sortByPriority_perm rs).mem_iff.mp ha
  have hb' : b ∈ rs := hp.symm.mem_iff.mp ((sortByPriority_perm rs').mem_iff.mp hb)
  simp only [prioLe, Bool.or_eq_true, Bool.and_eq_true, decide_eq_true_eq, beq_iff_eq] at hab hba
  have hc : a.code = b.code := by
    rcases hab with h | ⟨_, h⟩ <;> rcases hba with h' | ⟨_, h'⟩
    · omega
    · omega
    · omega
    · exact String.le_antisymm h h'
  exact inj_of_nodup_map rs hn ha' hb' hc

/-! ## facts about the registry regenerated from /repo (re-decided on every run) -/
open DL.Gen

theorem table_codes_nodup : (ruleTable.map (·.code)).Nodup := by decide +kernel

theorem table_sorted_by_code : ruleTable.Pairwise (fun a b => a.code ≤ b.code) := by decide +kernel

/-- the only rules with a non-zero priority are the two directive-accounting rules -/
theorem table_priorities :
    ∀ r ∈ ruleTable, (r.priority ≠ 0 ↔ (r.code = "ban-unused-ignore" ∨ r.code = "ban-unknown-rule-code")) := by
  decide +kernel

theorem table_tags_known :
    ∀ r ∈ ruleTable, ∀ t ∈ r.tags, t ∈ ["recommended", "fresh", "jsr", "react", "jsx"] := by decide +kernel

/-- hence: for any selection from the real registry the accounting rules run after every ordinary rule -/
theorem accounting_rules_run_last (rs : List Rule) (hs : ∀ r ∈ rs, r ∈ ruleTable) :
    (sortByPriority rs).Pairwise (fun a b =>
      (a.code = "ban-unused-ignore" ∨ a.code = "ban-unknown-rule-code") →
      (b.code = "ban-unused-ignore" ∨ b.code = "ban-unknown-rule-code")) := by
  have hmono := sortByPriority_priority_monotone rs
  have hmem : ∀ r ∈ sortByPriority rs, r ∈ ruleTable := fun r hr => hs r ((sortByPriority_perm rs).mem_iff.mp hr)
  rw [List.pairwise_iff_forall_sublist] at *
  intro a b hab ha
  have h := hmono hab
  have ha' := hmem a (hab.subset (by simp))
  have hb' := hmem b (hab.subset (by simp))
  have pa := (table_priorities a ha').mpr ha
  exact (table_priorities b hb').mp (by omega)

/-! ## non-vacuity -/
example : (⟨"no-debugger", ["recommended"], 0⟩ : Rule) ∈
    filtered ruleTable (some ["jsr"]) (some ["no-slow-types"]) (some ["no-debugger", "nope"]) :=
  (mem_filtered _ _ _ _ _).mpr ⟨by decide +kernel, by simp [spec]⟩
example : (⟨"no-slow-types", ["jsr"], 0⟩ : Rule) ∉
    filtered ruleTable (some ["jsr"]) (some ["no-slow-types"]) (some ["no-debugger", "nope"]) :=
  fun h => ((mem_filtered _ _ _ _ _).mp h).2.2 ⟨_, rfl, by simp⟩
example : spec (some ["jsr"]) none none ⟨"x", ["jsr"], 0⟩ := by simp [spec]

end DL.Props.C15
