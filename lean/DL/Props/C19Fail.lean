import DL.Model.Sched2
import DL.Props.C19

/-!
# C19, second half — schedule independence of dlint when files fail to be read or parsed

For **every** list of worker outcomes with pairwise distinct paths and **every** schedule: the map of failures, the
collected good results, what is printed and the exit status are the same; the failure that ends the run is the one
with the least path; without failures everything is as in `C19`.
-/
namespace DL.Props.C19Fail
open DL.Sched DL.Props.C19

def goods (s : List Outcome) : List FileResult := s.filterMap (fun | .ok r => some r | .fail .. => none)
def fails (s : List Outcome) : List (String × String) := s.filterMap (fun | .fail p e => some (p, e) | .ok _ => none)

/-- the fold of `BTreeMap::insert` over the failures, from a given map -/
def errFold (l : List (String × String)) (m : List (String × String)) : List (String × String) :=
  l.foldl (fun m kv => errInsert kv.1 kv.2 m) m

def SortedE (m : List (String × String)) : Prop := m.Pairwise (fun a b => a.1 < b.1)

/-! ## `goods` / `fails` -/

@[simp] theorem goods_nil : goods [] = [] := rfl
@[simp] theorem fails_nil : fails [] = [] := rfl
@[simp] theorem goods_ok (r : FileResult) (s : List Outcome) : goods (.ok r :: s) = r :: goods s := rfl
@[simp] theorem goods_fail (p e : String) (s : List Outcome) : goods (.fail p e :: s) = goods s := rfl
@[simp] theorem fails_ok (r : FileResult) (s : List Outcome) : fails (.ok r :: s) = fails s := rfl
@[simp] theorem fails_fail (p e : String) (s : List Outcome) : fails (.fail p e :: s) = (p, e) :: fails s := rfl

theorem mem_fails {s : List Outcome} {p e : String} : (p, e) ∈ fails s ↔ Outcome.fail p e ∈ s := by
  induction s with
  | nil => simp
  | cons o r ih =>
    cases o with
    | ok r' => simp [ih]
    | fail p' e' => simp [ih]

theorem mem_goods {s : List Outcome} {r : FileResult} : r ∈ goods s ↔ Outcome.ok r ∈ s := by
  induction s with
  | nil => simp
  | cons o r' ih =>
    cases o with
    | ok r'' => simp [ih]
    | fail p' e' => simp [ih]

theorem fails_keys_sublist : ∀ (s : List Outcome), ((fails s).map (·.1)).Sublist (s.map Outcome.path)
  | [] => List.Sublist.slnil
  | .ok r :: s => by
    simp only [fails_ok, List.map_cons]
    exact (fails_keys_sublist s).cons _
  | .fail p e :: s => by
    simp only [fails_fail, List.map_cons, Outcome.path]
    exact (fails_keys_sublist s).cons_cons _

theorem goods_paths_sublist : ∀ (s : List Outcome), ((goods s).map (·.path)).Sublist (s.map Outcome.path)
  | [] => List.Sublist.slnil
  | .ok r :: s => by
    simp only [goods_ok, List.map_cons, Outcome.path]
    exact (goods_paths_sublist s).cons_cons _
  | .fail p e :: s => by
    simp only [goods_fail, List.map_cons]
    exact (goods_paths_sublist s).cons _

theorem fails_perm {s1 s2 : List Outcome} (hp : s1.Perm s2) : (fails s1).Perm (fails s2) := hp.filterMap _
theorem goods_perm {s1 s2 : List Outcome} (hp : s1.Perm s2) : (goods s1).Perm (goods s2) := hp.filterMap _

/-! ## 1. the two halves of the state -/

theorem foldl_step2 : ∀ (s : List Outcome) (st : St2),
    (s.foldl step2 st).good = (goods s).foldl step st.good ∧
    (s.foldl step2 st).failures = errFold (fails s) st.failures
  | [], st => ⟨rfl, rfl⟩
  | .ok r :: s, st => by
    have ih := foldl_step2 s (step2 st (.ok r))
    simp only [List.foldl_cons, goods_ok, fails_ok]
    exact ⟨ih.1, ih.2⟩
  | .fail p e :: s, st => by
    have ih := foldl_step2 s (step2 st (.fail p e))
    simp only [List.foldl_cons, goods_fail, fails_fail, errFold]
    exact ⟨ih.1, ih.2⟩

theorem run2_good (s : List Outcome) : (run2 s).good = run (goods s) := (foldl_step2 s _).1

theorem run2_failures (s : List Outcome) :
    (run2 s).failures = (fails s).foldl (fun m kv => errInsert kv.1 kv.2 m) [] := (foldl_step2 s _).2

/-! ## `errInsert`: the lemmas of `C19` for `mapInsert`, at the other value type -/

theorem mem_errInsert (k v : String) : ∀ (m : List (String × String)) (x : String × String),
    x ∈ errInsert k v m → x = (k, v) ∨ x ∈ m
  | [], x, h => by simp only [errInsert, List.mem_singleton] at h; exact Or.inl h
  | (k', v') :: r, x, h => by
    simp only [errInsert] at h
    split at h
    · rcases List.mem_cons.mp h with h | h
      · exact Or.inl h
      · exact Or.inr h
    · split at h
      · rcases List.mem_cons.mp h with h | h
        · exact Or.inl h
        · exact Or.inr (List.mem_cons_of_mem _ h)
      · rcases List.mem_cons.mp h with h | h
        · exact Or.inr (by rw [h]; exact List.mem_cons_self)
        · rcases mem_errInsert k v r x h with h | h
          · exact Or.inl h
          · exact Or.inr (List.mem_cons_of_mem _ h)

theorem errInsert_sorted (k v : String) :
    ∀ (m : List (String × String)), SortedE m → SortedE (errInsert k v m)
  | [], _ => by simp only [errInsert]; exact List.pairwise_singleton _ _
  | (k', v') :: r, h => by
    have h' := List.pairwise_cons.mp h
    simp only [errInsert]
    split
    · rename_i hlt
      refine List.pairwise_cons.mpr ⟨?_, h⟩
      intro x hx
      rcases List.mem_cons.mp hx with rfl | hx
      · exact hlt
      · exact String.lt_trans hlt (h'.1 x hx)
    · split
      · rename_i _ heq
        subst heq
        exact List.pairwise_cons.mpr ⟨h'.1, h'.2⟩
      · rename_i hnlt hne
        have hgt : k' < k := by
          rcases String.le_total k k' with h1 | h1
          · exact absurd (String.le_antisymm h1 (String.not_lt.mp hnlt)) hne
          · exact String.not_le.mp (fun h2 => hne (String.le_antisymm h2 h1))
        refine List.pairwise_cons.mpr ⟨?_, errInsert_sorted k v r h'.2⟩
        intro x hx
        rcases mem_errInsert k v r x hx with rfl | hx
        · exact hgt
        · exact h'.1 x hx

/-- inserting a fresh key adds exactly that entry -/
theorem errInsert_perm (k v : String) :
    ∀ (m : List (String × String)), (∀ x ∈ m, x.1 ≠ k) → (errInsert k v m).Perm ((k, v) :: m)
  | [], _ => by simp only [errInsert]; exact List.Perm.refl _
  | (k', v') :: r, h => by
    simp only [errInsert]
    split
    · exact List.Perm.refl _
    · split
      · rename_i _ heq; exact absurd heq.symm (h (k', v') List.mem_cons_self)
      · exact ((errInsert_perm k v r (fun x hx => h x (List.mem_cons_of_mem _ hx))).cons _).trans (List.Perm.swap _ _ _)

theorem errInsert_ne_nil (k v : String) : ∀ (m : List (String × String)), errInsert k v m ≠ []
  | [] => by simp [errInsert]
  | (k', v') :: r => by
    simp only [errInsert]
    split
    · simp
    · split <;> simp

theorem errFold_ne_nil : ∀ (l m : List (String × String)), m ≠ [] → errFold l m ≠ []
  | [], m, h => h
  | x :: l, m, _ => by
    simp only [errFold, List.foldl_cons]
    exact errFold_ne_nil l _ (errInsert_ne_nil _ _ _)

/-- the map of failures is sorted by path and holds exactly the failures -/
theorem errFold_facts : ∀ (l m : List (String × String)), SortedE m →
    (∀ f ∈ l, ∀ x ∈ m, x.1 ≠ f.1) → (l.map (·.1)).Nodup →
    SortedE (errFold l m) ∧ (errFold l m).Perm (l ++ m)
  | [], m, hs, _, _ => ⟨hs, by simp [errFold]⟩
  | f :: r, m, hs, hfresh, hnd => by
    simp only [List.map_cons, List.nodup_cons, List.mem_map, not_exists, not_and] at hnd
    have hp := errInsert_perm f.1 f.2 m (fun x hx => hfresh f List.mem_cons_self x hx)
    have ih := errFold_facts r (errInsert f.1 f.2 m) (errInsert_sorted _ _ _ hs)
      (by
        intro g hg x hx
        rcases mem_errInsert _ _ _ _ hx with rfl | hx
        · intro e; exact hnd.1 g hg e.symm
        · exact hfresh g (List.mem_cons_of_mem _ hg) x hx)
      hnd.2
    refine ⟨ih.1, ?_⟩
    simp only [errFold, List.foldl_cons, List.cons_append]
    refine ih.2.trans ?_
    exact ((List.Perm.append_left _ hp).trans List.perm_middle)

theorem fails_keys_nodup {s : List Outcome} (hnd : (s.map Outcome.path).Nodup) : ((fails s).map (·.1)).Nodup :=
  (fails_keys_sublist s).nodup hnd

theorem goods_paths_nodup {s : List Outcome} (hnd : (s.map Outcome.path).Nodup) : ((goods s).map (·.path)).Nodup :=
  (goods_paths_sublist s).nodup hnd

/-- the final map of failures: sorted by path, and exactly the failures -/
theorem run2_failures_facts (s : List Outcome) (hnd : (s.map Outcome.path).Nodup) :
    SortedE (run2 s).failures ∧ (run2 s).failures.Perm (fails s) := by
  have h := errFold_facts (fails s) [] List.Pairwise.nil (fun _ _ _ h => by cases h) (fails_keys_nodup hnd)
  rw [run2_failures]
  simpa [errFold] using h

/-! ## 2. the map of failures does not depend on the schedule -/

theorem failures_schedule_independent (s1 s2 : List Outcome) (hp : s1.Perm s2)
    (hnd : (s1.map Outcome.path).Nodup) : (run2 s1).failures = (run2 s2).failures := by
  have hnd2 : (s2.map Outcome.path).Nodup := (hp.map _).nodup_iff.mp hnd
  have h1 := run2_failures_facts s1 hnd
  have h2 := run2_failures_facts s2 hnd2
  have hperm : (run2 s1).failures.Perm (run2 s2).failures :=
    h1.2.trans ((fails_perm hp).trans h2.2.symm)
  have hs1 : (run2 s1).failures.Pairwise (fun a b => a.1 < b.1) := h1.1
  have hs2 : (run2 s2).failures.Pairwise (fun a b => a.1 < b.1) := h2.1
  refine List.Perm.eq_of_pairwise (le := fun a b => a.1 < b.1) ?_ hs1 hs2 hperm
  intro a b _ _ hab hba
  exact absurd hba (String.lt_asymm hab)

/-- the collected good results do not depend on the schedule either -/
theorem good_schedule_independent (s1 s2 : List Outcome) (hp : s1.Perm s2)
    (hnd : (s1.map Outcome.path).Nodup) : (run2 s1).good = (run2 s2).good := by
  rw [run2_good, run2_good]
  obtain ⟨hm, hc⟩ := final_state_schedule_independent (goods s1) (goods s2) (goods_perm hp) (goods_paths_nodup hnd)
  cases h1 : run (goods s1) with
  | mk m1 c1 =>
    cases h2 : run (goods s2) with
    | mk m2 c2 =>
      rw [h1, h2] at hm hc
      simp only at hm hc
      rw [hm, hc]

/-! ## 3. what dlint prints and its exit status do not depend on the schedule, also when files fail -/

theorem finish_schedule_independent (s1 s2 : List Outcome) (hp : s1.Perm s2)
    (hnd : (s1.map Outcome.path).Nodup) : finish (run2 s1) = finish (run2 s2) := by
  unfold finish
  rw [failures_schedule_independent s1 s2 hp hnd, good_schedule_independent s1 s2 hp hnd]

/-! ## 4. the failure that ends the run is the one with the least path

Proved in the form of the brief: `p ≤ p'` for every failing path `p'` (`String`'s `≤`, i.e. `¬ p' < p`). -/

theorem failure_reported_is_least (s : List Outcome) (hnd : (s.map Outcome.path).Nodup) (p e : String)
    (h : Outcome.fail p e ∈ s) (hmin : ∀ p' e', Outcome.fail p' e' ∈ s → p ≤ p') :
    finish (run2 s) = ([s!"Error: {e}"], 1) := by
  obtain ⟨hsorted, hperm⟩ := run2_failures_facts s hnd
  have hmem : (p, e) ∈ (run2 s).failures := hperm.mem_iff.mpr (mem_fails.mpr h)
  unfold finish
  cases hf : (run2 s).failures with
  | nil => rw [hf] at hmem; cases hmem
  | cons kv rest =>
    obtain ⟨k, v⟩ := kv
    rw [hf] at hmem hsorted hperm
    have hkv : Outcome.fail k v ∈ s := mem_fails.mp (hperm.mem_iff.mp List.mem_cons_self)
    have hle : p ≤ k := hmin k v hkv
    rcases List.mem_cons.mp hmem with heq | hin
    · cases heq; rfl
    · have hlt : k < p := (List.pairwise_cons.mp hsorted).1 (p, e) hin
      exact absurd hlt (String.not_lt.mpr hle)

/-! ## 5. without failures: exactly the report and exit status of `C19` -/

theorem no_failure_same_as_before (s : List Outcome) (h : fails s = []) :
    finish (run2 s) = (report (run (goods s)), exitStatus (run (goods s))) := by
  have hf : (run2 s).failures = [] := by rw [run2_failures, h]; rfl
  unfold finish
  rw [hf, run2_good]

/-! ## 6. any failure makes the exit status 1 (no distinctness of paths needed) -/

theorem run2_failures_ne_nil (s : List Outcome) (p e : String) (h : Outcome.fail p e ∈ s) :
    (run2 s).failures ≠ [] := by
  rw [run2_failures]
  have hm : (p, e) ∈ fails s := mem_fails.mpr h
  cases hf : fails s with
  | nil => rw [hf] at hm; cases hm
  | cons x r =>
    simp only [List.foldl_cons]
    exact errFold_ne_nil r _ (errInsert_ne_nil _ _ _)

theorem failure_exit_status (s : List Outcome) (p e : String) (h : Outcome.fail p e ∈ s) :
    (finish (run2 s)).2 = 1 := by
  have hne := run2_failures_ne_nil s p e h
  unfold finish
  cases hf : (run2 s).failures with
  | nil => exact absurd hf hne
  | cons kv rest => rfl

/-! ## 7. non-vacuity: two failing files and one good file, in two different orders -/

example :
    finish (run2 [.fail "z.ts" "cannot read", .ok ⟨"m.ts", ["no-var"], []⟩, .fail "b.ts" "parse error"]) =
      finish (run2 [.ok ⟨"m.ts", ["no-var"], []⟩, .fail "b.ts" "parse error", .fail "z.ts" "cannot read"]) ∧
    finish (run2 [.fail "z.ts" "cannot read", .ok ⟨"m.ts", ["no-var"], []⟩, .fail "b.ts" "parse error"]) =
      (["Error: parse error"], 1) := by decide

end DL.Props.C19Fail
