import DL.Lemmas.RxIndTop
import DL.Props.C12NoPanic

/-!
# C12 (history independence) — the verdict for one regular expression never depends on which expressions were
validated earlier by the same validator instance

`validate_pattern` overwrites the mode flags and every field of the reader up front, and `consume_pattern` resets
`num_capturing_parens`, `group_names`, `backreference_names` (after `count_capturing_parens`, which reads none of
them).  The seven scratch registers (`last_int_value`, `last_min_value`, `last_max_value`, `last_str_value`,
`last_key_value`, `last_val_value`, `last_assertion_is_quantifiable`) are NOT reset — but on every path each of them is
written before it is read (`DL.Rx.Ind`: a relational Hoare logic over two runs, with the set of registers already
known equal as the assertion; one lemma `DL.Rx.I.f` per function of the model).

No hypothesis beyond "same build profile" (`overflowChecks`, a constant of the build, not a field of the Rust struct).
No history dependence of the verdict was found.
-/
namespace DL.Props.C12
open DL.Rx

inductive Outcome where
  | accepted | rejected (msg : String) | outOfFuel | panic (why : String)
  deriving DecidableEq, Repr

inductive OutcomeKind where
  | accepted | rejected | outOfFuel | panic
  deriving DecidableEq, Repr

def outcome {α : Type} : Res α → Outcome
  | .ok _ _ => .accepted
  | .err m _ => .rejected m
  | .outOfFuel _ => .outOfFuel
  | .panic w _ => .panic w

def outcomeKind {α : Type} : Res α → OutcomeKind
  | .ok _ _ => .accepted
  | .err _ _ => .rejected
  | .outOfFuel _ => .outOfFuel
  | .panic _ _ => .panic

theorem sim_outcome {c : Bool} {α : Type} {r r' : Res α} (h : Sim c r r') : outcome r = outcome r' := by
  cases r <;> cases r' <;> first | exact h.elim | rfl | exact congrArg Outcome.rejected h.1 | exact congrArg Outcome.panic h.1

theorem sim_outcomeKind {c : Bool} {α : Type} {r r' : Res α} (h : Sim c r r') : outcomeKind r = outcomeKind r' := by
  cases r <;> cases r' <;> first | exact h.elim | rfl

theorem sim_state_left {c : Bool} {α : Type} {r r' : Res α} (h : Sim c r r') : r.state.overflowChecks = c := by
  cases r <;> cases r' <;> first | exact h.elim | exact h.2.1 | exact h.1

/-- **history independence of `validate_pattern`**, error message included -/
theorem validatePattern_history_independent' (fuel : Nat) (source : List Nat) (uFlag : Bool) (st st' : St)
    (h : st.overflowChecks = st'.overflowChecks) :
    outcome (validatePattern fuel source uFlag st) = outcome (validatePattern fuel source uFlag st') :=
  sim_outcome (validatePattern_sim fuel source uFlag st st' h)

/-- **history independence of `validate_pattern`** -/
theorem validatePattern_history_independent (fuel : Nat) (source : List Nat) (uFlag : Bool) (st st' : St)
    (h : st.overflowChecks = st'.overflowChecks) :
    outcomeKind (validatePattern fuel source uFlag st) = outcomeKind (validatePattern fuel source uFlag st') :=
  sim_outcomeKind (validatePattern_sim fuel source uFlag st st' h)

/-- the build-profile constant is never modified -/
theorem validatePattern_overflowChecks (fuel : Nat) (source : List Nat) (uFlag : Bool) (st : St) :
    (validatePattern fuel source uFlag st).state.overflowChecks = st.overflowChecks :=
  sim_state_left (validatePattern_sim fuel source uFlag st st rfl)

theorem checkForInvalidPattern_sim (fuel : Nat) (source : List Nat) (uFlag : Bool) (st st' : St)
    (h : st.overflowChecks = st'.overflowChecks) :
    Sim st.overflowChecks (checkForInvalidPattern fuel source uFlag st) (checkForInvalidPattern fuel source uFlag st') := by
  have hs := validatePattern_sim fuel source uFlag st st' h
  unfold checkForInvalidPattern
  cases h1 : validatePattern fuel source uFlag st <;> cases h2 : validatePattern fuel source uFlag st' <;>
    rw [h1, h2] at hs <;> first | exact hs.elim | exact ⟨rfl, hs.2⟩ | exact hs

theorem checkRegex_sim (fuel : Nat) (pattern flags : List Nat) (st st' : St)
    (h : st.overflowChecks = st'.overflowChecks) :
    Sim st.overflowChecks (checkRegex fuel pattern flags st) (checkRegex fuel pattern flags st') := by
  have key : ∀ s, checkRegex fuel pattern flags s =
      (if checkForInvalidFlags flags = true then (pure true : M Bool) else
        checkForInvalidPattern fuel pattern (flags.contains (ch 'u'))) s := fun _ => rfl
  rw [key, key]
  by_cases hf : checkForInvalidFlags flags = true
  · rw [if_pos hf]; exact ⟨rfl, rfl, h.symm⟩
  · rw [if_neg hf]; exact checkForInvalidPattern_sim fuel pattern _ st st' h

/-- the Boolean verdict of the rule (`none`: the model's fuel ran out) -/
def verdictOf : Res Bool → Option Bool
  | .ok b _ => some b
  | _ => none

theorem sim_verdictOf {c : Bool} {r r' : Res Bool} (h : Sim c r r') : verdictOf r = verdictOf r' := by
  cases r <;> cases r' <;> first | exact h.elim | rfl | exact congrArg some h.1

/-- **history independence of `check_regex`** (the rule's verdict for one literal) -/
theorem checkRegex_history_independent (fuel : Nat) (pattern flags : List Nat) (st st' : St)
    (h : st.overflowChecks = st'.overflowChecks) :
    verdictOf (checkRegex fuel pattern flags st) = verdictOf (checkRegex fuel pattern flags st') :=
  sim_verdictOf (checkRegex_sim fuel pattern flags st st' h)

/-- a fresh validator (`EcmaRegexValidator::new`) in build profile `c` -/
def fresh (c : Bool) : St := { St.new with overflowChecks := c }

theorem fresh_true : fresh true = St.new := rfl

/-- the verdict of one regex on a fresh validator -/
def freshVerdict (c : Bool) (pf : List Nat × List Nat) : Bool :=
  (verdictOf (checkRegex (defaultFuel pf.1) pf.1 pf.2 (fresh c))).getD false

theorem runSeqAux_history_independent : ∀ (seq : List (List Nat × List Nat)) (st : St),
    (runSeqAux seq st).fuel = false → (runSeqAux seq st).reported = seq.map (freshVerdict st.overflowChecks)
  | [], _, _ => rfl
  | (p, f) :: rest, st, hf => by
    have hs := checkRegex_sim (defaultFuel p) p f st (fresh st.overflowChecks) rfl
    unfold runSeqAux at hf ⊢
    rcases checkRegex_outcome (defaultFuel p) p f st with ⟨b, s', h⟩ | ⟨s', h⟩
    · rw [h] at hf ⊢
      have hb : freshVerdict st.overflowChecks (p, f) = b := by
        have := sim_verdictOf hs
        rw [h] at this
        unfold freshVerdict
        rw [← this]; rfl
      have hoc : s'.overflowChecks = st.overflowChecks := by
        have := sim_state_left hs
        rw [h] at this; exact this
      have ih := runSeqAux_history_independent rest s' hf
      show b :: (runSeqAux rest s').reported = _
      rw [ih, hoc, List.map_cons, hb]
    · rw [h] at hf; cases hf

/-- **history independence of a whole file**: with one validator instance for all regexes of the file, the list of
verdicts is the list of the verdicts each regex gets from a fresh validator (unless the model's fuel ran out) -/
theorem runSeq_history_independent (seq : List (List Nat × List Nat)) (st : St)
    (hf : (runSeq seq st).fuel = false) :
    (runSeq seq st).reported = seq.map (freshVerdict st.overflowChecks) := by
  have hp := runSeqAux_no_panic seq st
  unfold runSeq at hf ⊢
  by_cases hc : ((runSeqAux seq st).panic || (runSeqAux seq st).fuel) = true
  · rw [if_pos hc] at hf
    rw [hp, Bool.false_or] at hc
    rw [hc] at hf; cases hf
  · rw [if_neg hc] at hf ⊢
    exact runSeqAux_history_independent seq st hf

/-- the instance of the property for the state the rule starts with -/
theorem runSeq_new_history_independent (seq : List (List Nat × List Nat)) (hf : (runSeq seq St.new).fuel = false) :
    (runSeq seq St.new).reported =
      seq.map fun pf => (verdictOf (checkRegex (defaultFuel pf.1) pf.1 pf.2 St.new)).getD false :=
  runSeq_history_independent seq St.new hf

/-! ### the footprints are not vacuous: individual helpers DO depend on the registers

`consume_backreference` on the input `1` answers differently for different `num_capturing_parens` (hence the
precondition `ins .caps W` of `DL.Rx.I.consumeBackreference`), and `eat_hex_digits`' loop continues from whatever
`last_int_value` holds (hence `ins .int W` in `DL.Rx.I.eatHexDigitsLoop`); `validate_pattern` itself is insensitive
because it writes these registers before the helpers read them. -/
def okVal {α : Type} : Res α → Option α
  | .ok a _ => some a
  | _ => none

def onOne : St := { reader := { unicode := false, src := [0x31], index := 0, end_ := 1, cps := [0x31] } }

example : okVal (consumeBackreference 10 { onOne with numCapturingParens := 1 }) = some true
    ∧ okVal (consumeBackreference 10 { onOne with numCapturingParens := 0 }) = some false := by decide +kernel

example : ((eatHexDigitsLoop 10 { onOne with lastIntValue := 0 }).state.lastIntValue,
    (eatHexDigitsLoop 10 { onOne with lastIntValue := 5 }).state.lastIntValue) = (1, 81) := by decide +kernel

-- the same two register values as history of `validate_pattern`: no influence
example : outcomeKind (validatePattern 300 (strOf (chars! "(a)\\1\\2")) true { onOne with numCapturingParens := 7, lastIntValue := 5 })
    = outcomeKind (validatePattern 300 (strOf (chars! "(a)\\1\\2")) true St.new) :=
  validatePattern_history_independent _ _ _ _ _ rfl

end DL.Props.C12

#print axioms DL.Props.C12.validatePattern_history_independent
#print axioms DL.Props.C12.validatePattern_history_independent'
#print axioms DL.Props.C12.checkRegex_history_independent
#print axioms DL.Props.C12.runSeq_history_independent
