import DL.Lemmas.ImpReal
/-!
# C13 for the import fixes, faithful step: the rules' *own* repair sequence terminates

`fixReal` (`DL/Lemmas/ImpReal.lean`) is `applyFix` at the position `wheres` computes, plus the detail `applyFix` leaves
out: in case `Where.sameLine` the line of the most recent import (`recentPos`) gets one more `.imp false` item.

1. `kept_fixReal`  — the extra item does not change the reports;
2. `wf_fixReal`    — the fixed file is well-formed again, with the first token's line `firstAfter`;
3. `real_repair_terminates` — fixing the first report again and again, each time at the position the rule offers on the
   file as it then is, leaves no report after at most `(kept f).length` rounds;
4. kernel-checked (`decide`) evaluation on `fA`.

Extra: `fixReal_sameLine_spec` (in case `sameLine`, `recentPos` is defined and points at an `.imp false` item: the
`none` branch of `fixReal` is dead), `real_repair_wf` (every state of the sequence is well-formed).

All statements are proved as given in the brief; none turned out false (so there is no counterexample section).
-/
namespace DL.Imp

/-! ## 1. the extra `imp` item does not change the reports -/

theorem kept_fixReal (f : File) (first i : Nat) (hwf : WF f first) (hi : i < (raw f).length) :
    kept (fixReal f first i) =
      kept (applyFix f ((raw f)[i]).2 ((wheres f first)[i]'(by rw [wheres_length]; exact hi))) := by
  have _ := hwf
  have hi' : i < (wheres f first).length := by rw [wheres_length]; exact hi
  have h1 : (raw f)[i]? = some (raw f)[i] := List.getElem?_eq_getElem hi
  have h2 : (wheres f first)[i]? = some (wheres f first)[i] := List.getElem?_eq_getElem hi'
  cases hw : (wheres f first)[i] with
  | newLineAt k =>
    rw [hw] at h2
    rw [fixReal_newLine h1 h2]
    rfl
  | sameLine =>
    rw [hw] at h2
    rw [fixReal_sameLine h1 h2]
    show _ = kept (dropName f ((raw f)[i]).2)
    cases recentPos f i with
    | none => rfl
    | some p =>
      obtain ⟨l, j⟩ := p
      exact kept_insertImpAfter _ l j

/-! ## 2. well-formedness is preserved -/

theorem wf_fixReal (f : File) (first i : Nat) (hwf : WF f first) (hi : i < (raw f).length) :
    WF (fixReal f first i) (firstAfter f first i) := by
  have hi' : i < (wheres f first).length := by rw [wheres_length]; exact hi
  have h1 : (raw f)[i]? = some (raw f)[i] := List.getElem?_eq_getElem hi
  have h2 : (wheres f first)[i]? = some (wheres f first)[i] := List.getElem?_eq_getElem hi'
  have hsafe : Safe f (wheres f first)[i] := wheres_safe f first hwf _ (List.getElem_mem _)
  cases hw : (wheres f first)[i] with
  | newLineAt k =>
    rw [hw] at h2 hsafe
    rw [fixReal_newLine h1 h2, firstAfter_newLine h2]
    exact wf_insertLine (wf_dropName hwf _) k (by rw [length_dropName]; exact hsafe.1)
  | sameLine =>
    rw [hw] at h2
    rw [fixReal_sameLine h1 h2, firstAfter_sameLine h2]
    cases hp : recentPos f i with
    | none => exact wf_dropName hwf _
    | some p =>
      obtain ⟨l, j⟩ := p
      exact wf_insertImpAfter (wf_dropName hwf _) l j (recentPos_first_le hwf hp)

/-! ## 2b. the `none` branch of `fixReal` is never taken: the extra item goes right after an actual `.imp false` -/

theorem fixReal_sameLine_spec (f : File) (first i : Nat) (hi : i < (raw f).length)
    (hw : (wheres f first)[i]? = some .sameLine) :
    ∃ l j ln, recentPos f i = some (l, j) ∧ f[l]? = some ln ∧ ln.items[j]? = some (Item.imp false) ∧
      fixReal f first i = insertImpAfter (dropName f ((raw f)[i]).2) l j := by
  obtain ⟨l, j, ln, hp, hl, hj⟩ := recentPos_of_sameLine hw
  refine ⟨l, j, ln, hp, hl, hj, ?_⟩
  rw [fixReal_sameLine (List.getElem?_eq_getElem hi) hw, hp]

example : (wheres fA 1)[2]? = some .sameLine ∧ recentPos fA 2 = some (4, 0) ∧
    fixReal fA 1 2 = insertImpAfter (dropName fA 3) 4 0 ∧
    (fixReal fA 1 2)[4]? = some ⟨false, false, [.imp false, .imp false, .ref 2]⟩ := by decide

/-! ## 3. the rules' own repair sequence terminates -/

/-- index in `raw f` of the first reported diagnostic -/
def firstKeptIdx (f : File) : Option Nat := (raw f).findIdx? (fun d => !suppressed f d.1)

/-- one round: take the fix the rule offers for the first report (state: the file and its first token's line) -/
def realStep (s : File × Nat) : File × Nat :=
  match firstKeptIdx s.1 with
  | some i => (fixReal s.1 s.2 i, firstAfter s.1 s.2 i)
  | none => s

def realN : Nat → File × Nat → File × Nat
  | 0, s => s
  | n + 1, s => realN n (realStep s)

theorem firstKeptIdx_some {f : File} {i : Nat} (h : firstKeptIdx f = some i) :
    ∃ hi : i < (raw f).length, (raw f)[i] ∈ kept f := by
  unfold firstKeptIdx at h
  obtain ⟨hi, hp, _⟩ := List.findIdx?_eq_some_iff_getElem.mp h
  exact ⟨hi, List.mem_filter.mpr ⟨List.getElem_mem _, hp⟩⟩

theorem firstKeptIdx_none {f : File} (h : firstKeptIdx f = none) : kept f = [] := by
  unfold firstKeptIdx at h
  unfold kept
  rw [List.filter_eq_nil_iff]
  intro d hd
  rw [List.findIdx?_eq_none_iff.mp h d hd]
  exact Bool.false_ne_true

theorem realStep_some {s : File × Nat} {i : Nat} (h : firstKeptIdx s.1 = some i) :
    realStep s = (fixReal s.1 s.2 i, firstAfter s.1 s.2 i) := by
  unfold realStep; rw [h]

theorem realStep_none {s : File × Nat} (h : firstKeptIdx s.1 = none) : realStep s = s := by
  unfold realStep; rw [h]

/-- a round keeps the state well-formed -/
theorem wf_realStep {s : File × Nat} (hwf : WF s.1 s.2) : WF (realStep s).1 (realStep s).2 := by
  cases h : firstKeptIdx s.1 with
  | none => rw [realStep_none h]; exact hwf
  | some i =>
    rw [realStep_some h]
    obtain ⟨hi, _⟩ := firstKeptIdx_some h
    exact wf_fixReal s.1 s.2 i hwf hi

/-- while a report is left, a round leaves strictly fewer -/
theorem realStep_fewer {s : File × Nat} (hwf : WF s.1 s.2) (hne : kept s.1 ≠ []) :
    (kept (realStep s).1).length < (kept s.1).length := by
  cases h : firstKeptIdx s.1 with
  | none => exact absurd (firstKeptIdx_none h) hne
  | some i =>
    rw [realStep_some h]
    obtain ⟨hi, hk⟩ := firstKeptIdx_some h
    show (kept (fixReal s.1 s.2 i)).length < _
    rw [kept_fixReal s.1 s.2 i hwf hi]
    exact real_fix_strictly_fewer s.1 s.2 hwf i hi hk

theorem wf_realN (n : Nat) : ∀ {s : File × Nat}, WF s.1 s.2 → WF (realN n s).1 (realN n s).2 := by
  induction n with
  | zero => intro s h; exact h
  | succ n ih => intro s h; exact ih (wf_realStep h)

theorem realN_done (n : Nat) : ∀ (s : File × Nat), WF s.1 s.2 → (kept s.1).length ≤ n → kept (realN n s).1 = [] := by
  induction n with
  | zero =>
    intro s _ hs
    exact List.eq_nil_of_length_eq_zero (Nat.le_zero.mp hs)
  | succ n ih =>
    intro s hwf hs
    show kept (realN n (realStep s)).1 = []
    apply ih _ (wf_realStep hwf)
    by_cases hne : kept s.1 = []
    · cases h : firstKeptIdx s.1 with
      | none => rw [realStep_none h, hne]; exact Nat.zero_le _
      | some i =>
        obtain ⟨_, hk⟩ := firstKeptIdx_some h
        rw [hne] at hk; cases hk
    · have := realStep_fewer hwf hne
      omega

theorem real_repair_terminates (f : File) (first : Nat) (hwf : WF f first) :
    kept (realN (kept f).length (f, first)).1 = [] :=
  realN_done _ (f, first) hwf (Nat.le_refl _)

/-- and the final state is well-formed -/
theorem real_repair_wf (f : File) (first : Nat) (hwf : WF f first) (n : Nat) :
    WF (realN n (f, first)).1 (realN n (f, first)).2 :=
  wf_realN n (s := (f, first)) hwf

/-! ## 4. non-vacuity on `fA` (`first = 1`, `WF` by `fA_wf`) -/

/-- `fA` has 3 reports; the positions of the most recent import of its 4 raw diagnostics -/
example : (kept fA).length = 3 ∧ firstKeptIdx fA = some 1 ∧
    recentPosAll fA = [none, some (2, 0), some (4, 0), some (4, 0)] ∧
    wheres fA 1 = [.newLineAt 0, .newLineAt 3, .sameLine, .sameLine] := by decide

/-- round 1: the report `(3, 2)` is fixed by a new line 3 (after the import ending line 2); name 2 is gone everywhere;
    the first token stays on line 1 -/
theorem realN_fA_1 : realN 1 (fA, 1) =
    ([⟨true, true, []⟩, ⟨false, false, [.ref 1]⟩, ⟨false, false, [.imp true]⟩, ⟨false, false, [.imp true]⟩,
      ⟨false, false, []⟩, ⟨false, false, [.imp false, .ref 3]⟩], 1) := by decide

/-- round 2: the report `(5, 3)` is fixed on the line of the import of line 5 (`sameLine`): that line gets the extra
    `.imp false` right after item 0 -/
theorem realN_fA_2 : realN 2 (fA, 1) =
    ([⟨true, true, []⟩, ⟨false, false, [.ref 1]⟩, ⟨false, false, [.imp true]⟩, ⟨false, false, [.imp true]⟩,
      ⟨false, false, []⟩, ⟨false, false, [.imp false, .imp false]⟩], 1) := by decide

/-- round 3 changes nothing: no report is left (the reference to 1 is covered by the directive on line 0) -/
theorem realN_fA_3 : realN 3 (fA, 1) = realN 2 (fA, 1) ∧ kept (realN 3 (fA, 1)).1 = [] ∧
    raw (realN 3 (fA, 1)).1 = [(1, 1)] := by decide

theorem realN_fA_kept : kept (realN 1 (fA, 1)).1 = [(5, 3)] ∧ kept (realN 2 (fA, 1)).1 = [] ∧
    kept (realN (kept fA).length (fA, 1)).1 = [] := by decide

/-- the intermediate files are well-formed (Boolean check) -/
theorem realN_fA_wfB : wfB (realN 1 (fA, 1)).1 (realN 1 (fA, 1)).2 = true ∧
    wfB (realN 2 (fA, 1)).1 (realN 2 (fA, 1)).2 = true ∧
    wfB (realN 3 (fA, 1)).1 (realN 3 (fA, 1)).2 = true := by decide

example : kept (realN (kept fA).length (fA, 1)).1 = [] := real_repair_terminates fA 1 fA_wf

/-- a fix at `k ≤ first` moves the first token's line: on `fA` the fix for raw diagnostic 0 (the covered reference to 1)
    goes to a new line 0 above the directive line, which becomes the first token's line; the result is well-formed -/
example : (wheres fA 1)[0]? = some (.newLineAt 0) ∧ firstAfter fA 1 0 = 0 ∧
    fixReal fA 1 0 = newLine :: dropName fA 1 ∧ wfB (fixReal fA 1 0) (firstAfter fA 1 0) = true ∧
    wfB (fixReal fA 1 0) 1 = false := by decide

end DL.Imp
