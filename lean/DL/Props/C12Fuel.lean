import DL.Lemmas.RxFuPattern
import DL.Props.C12History

/-!
# C12 (fuel adequacy) — the validator terminates within a fuel linear in the pattern length

`fuel` in the model bounds the depth of the call chain, loop iterations counted as depth.  With `L` the number of
units the reader indexes (scalar values with the `u` flag, UTF-16 code units without), `5 L + 15` is enough for
`validate_pattern` from ANY state: every loop iteration and every recursive descent through a group consumes at least
one unit (`DL.Rx.Fu`: a Hoare logic whose assertion is a lower bound on the reader position, plus "the look-ahead
buffer is non-empty"; one lemma `DL.Rx.F.f` per function).  `defaultFuel` (used by `runSeq` and by the differential
harness) is far above that, so `outOfFuel` never shows up there, and the history-independence statement for whole
files becomes unconditional.
-/
namespace DL.Props.C12
open DL.Rx

/-- the number of units the reader indexes = the `end` passed to `reset` -/
def unitCount (source : List Nat) (uFlag : Bool) : Nat :=
  if uFlag then source.length else (encodeUtf16 source).length

theorem afterPrep_eq (fuel : Nat) : afterPrep fuel = (rewindLoop 0 4 0 >>= fun _ => afterReset fuel) := rfl

/-- **fuel adequacy of `validate_pattern`** -/
theorem validatePattern_fuel (fuel : Nat) (source : List Nat) (uFlag : Bool) (st : St)
    (h : 5 * unitCount source uFlag + 15 ≤ fuel) : ∀ s', validatePattern fuel source uFlag st ≠ .outOfFuel s' := by
  intro s'
  rw [validatePattern_eq, afterPrep_eq]
  have hr := rewindLoop_spec (E := unitCount source uFlag) 0 4 0 (prep source uFlag st) rfl rfl rfl (Nat.zero_le _)
  show M.bind (rewindLoop 0 4 0) (fun _ => afterReset fuel) (prep source uFlag st) ≠ _
  unfold M.bind
  cases h1 : rewindLoop 0 4 0 (prep source uFlag st) with
  | ok a s1 =>
    rw [h1] at hr
    have hA : A (unitCount source uFlag) 0 false s1 :=
      ⟨hr.1, by rw [hr.2.1]; exact hr.2.2.1, Nat.zero_le _, fun h => nomatch h⟩
    have hp := F.afterReset (E := unitCount source uFlag) (ne := false) fuel h s1 hA
    intro he
    have he' : afterReset fuel s1 = .outOfFuel s' := he
    rw [he'] at hp
    exact hp
  | err _ _ => intro he; cases he
  | panic _ _ => intro he; cases he
  | outOfFuel _ => rw [h1] at hr; exact hr.elim

theorem encodeUtf16_length_le (s : List Nat) : (encodeUtf16 s).length ≤ 2 * s.length := by
  induction s with
  | nil => exact Nat.le_refl _
  | cons c r ih =>
    simp only [encodeUtf16]
    split <;> simp only [List.length_cons] <;> omega

theorem length_le_encodeUtf16 (s : List Nat) : s.length ≤ (encodeUtf16 s).length := by
  induction s with
  | nil => exact Nat.le_refl _
  | cons c r ih =>
    simp only [encodeUtf16]
    split <;> simp only [List.length_cons] <;> omega

theorem unitCount_le (source : List Nat) (uFlag : Bool) : unitCount source uFlag ≤ 2 * source.length := by
  unfold unitCount
  cases uFlag
  · exact encodeUtf16_length_le source
  · show source.length ≤ _; omega

theorem unitCount_le_utf16 (source : List Nat) (uFlag : Bool) : unitCount source uFlag ≤ (encodeUtf16 source).length := by
  unfold unitCount
  cases uFlag
  · exact Nat.le_refl _
  · exact length_le_encodeUtf16 source

/-- an explicit linear bound in the length of the source -/
def fuelBound (len : Nat) : Nat := 10 * len + 15

theorem validatePattern_terminates :
    ∀ (fuel : Nat) (source : List Nat) (uFlag : Bool) (st : St), fuelBound source.length ≤ fuel →
      ∀ s', validatePattern fuel source uFlag st ≠ .outOfFuel s' := by
  intro fuel source uFlag st h
  refine validatePattern_fuel fuel source uFlag st ?_
  have := unitCount_le source uFlag
  unfold fuelBound at h
  omega

theorem checkRegex_fuel (fuel : Nat) (pattern flags : List Nat) (st : St)
    (h : 5 * (encodeUtf16 pattern).length + 15 ≤ fuel) : ∃ b s', checkRegex fuel pattern flags st = .ok b s' := by
  rcases checkRegex_outcome fuel pattern flags st with hok | ⟨s', hoof⟩
  · exact hok
  · exfalso
    have key : checkRegex fuel pattern flags st =
        (if checkForInvalidFlags flags = true then (pure true : M Bool) else
          checkForInvalidPattern fuel pattern (flags.contains (ch 'u'))) st := rfl
    rw [key] at hoof
    by_cases hf : checkForInvalidFlags flags = true
    · rw [if_pos hf] at hoof; cases hoof
    · rw [if_neg hf] at hoof
      unfold checkForInvalidPattern at hoof
      have hv := validatePattern_fuel fuel pattern (flags.contains (ch 'u')) st (by
        have := unitCount_le_utf16 pattern (flags.contains (ch 'u')); omega)
      cases hr : validatePattern fuel pattern (flags.contains (ch 'u')) st with
      | ok _ _ => rw [hr] at hoof; cases hoof
      | err _ _ => rw [hr] at hoof; cases hoof
      | panic _ _ => rw [hr] at hoof; cases hoof
      | outOfFuel s'' => exact hv s'' hr

/-- with the fuel the sequence runner (and the differential harness) uses, `check_regex` always delivers a verdict -/
theorem checkRegex_defaultFuel (pattern flags : List Nat) (st : St) :
    ∃ b s', checkRegex (defaultFuel pattern) pattern flags st = .ok b s' :=
  checkRegex_fuel _ pattern flags st (by unfold defaultFuel; omega)

theorem runSeqAux_fuel : ∀ (seq : List (List Nat × List Nat)) (st : St), (runSeqAux seq st).fuel = false
  | [], _ => rfl
  | (p, f) :: rest, st => by
    unfold runSeqAux
    obtain ⟨b, s', h⟩ := checkRegex_defaultFuel p f st
    rw [h]; exact runSeqAux_fuel rest s'

theorem runSeq_fuel (seq : List (List Nat × List Nat)) (st : St) : (runSeq seq st).fuel = false := by
  unfold runSeq
  by_cases hc : ((runSeqAux seq st).panic || (runSeqAux seq st).fuel) = true
  · rw [if_pos hc]; exact runSeqAux_fuel seq st
  · rw [if_neg hc]; exact runSeqAux_fuel seq st

/-- **history independence of a whole file, unconditionally**: one validator instance for all regexes of a file
yields exactly the verdicts each regex gets from a fresh validator -/
theorem runSeq_history_independent_total (seq : List (List Nat × List Nat)) (st : St) :
    (runSeq seq st).reported = seq.map (freshVerdict st.overflowChecks) :=
  runSeq_history_independent seq st (runSeq_fuel seq st)

/-! ### the fuel is really consumed: with too little of it the model does give up (so `outOfFuel` is not vacuous) -/
example : ∃ s', validatePattern 12 (strOf (chars! "((a))")) false St.new = .outOfFuel s' := ⟨_, rfl⟩
example : ∀ s', validatePattern (fuelBound 5) (strOf (chars! "((a))")) false St.new ≠ .outOfFuel s' :=
  validatePattern_terminates _ _ _ _ (Nat.le_refl _)

end DL.Props.C12

#print axioms DL.Props.C12.validatePattern_fuel
#print axioms DL.Props.C12.validatePattern_terminates
#print axioms DL.Props.C12.checkRegex_defaultFuel
#print axioms DL.Props.C12.runSeq_history_independent_total
