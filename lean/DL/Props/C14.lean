import DL.Lemmas.Scope

/-!
# C14 — rules about global names respect lexical scoping

Model: `DL.Scope` (`Model/Scope.lean`).  A global-name rule is `globalReports g` : it reports the reference
occurrences spelled `g` that the resolver left unresolved.  (That each real rule has this shape in **every** handler —
the syntactic test on the spelling plus the query of the per-file analyses — is what the C14 driver checks on the
implementation: reference alone / under each binding form at depth 0–3 / beside non-enclosing bindings.)

-- FULL (as stated): for every scope-aware global-name rule, binding form and nesting depth, a reference is reported
   iff no enclosing declaration binds it.
Proved here for the model language (lexical declarations, parameters, blocks, functions; `var` hoisting, imports, catch
and loop heads are binding *forms* that only the driver exercises): the exact characterisation `reported_iff` for a
reference under an arbitrary stack of enclosing scopes with arbitrary statements around it.
-/
namespace DL.Props.C14
open DL.Scope

/-- **C14 (model)**: a reference to `g` placed under the scopes `ls` (outermost first, arbitrary statements before and
after the hole in each of them, arbitrary depth) produces exactly one occurrence, and the rule reports it iff none of
the enclosing scopes declares `g` — as a parameter or by a declaration anywhere in the scope (before or after the
reference). -/
theorem reported_iff (g : Nat) (ls : List Layer) :
    ∃ pre post e, (plug ls (.ref g)).res [] = pre ++ e :: post ∧ e.kind = .ref ∧ e.name = g ∧
      (isGlobalRef g e = true ↔ ∀ l ∈ ls, g ∉ l.declared) := by
  obtain ⟨pre, post, h⟩ := plug_res ls (.ref g) rfl []
  refine ⟨pre, post, ⟨.ref, g, lookup (envOf ls []) g⟩, by simpa [Item.res] using h, rfl, rfl, ?_⟩
  have : lookup (envOf ls []) g = none ↔ ∀ l ∈ ls, g ∉ l.declared := by
    rw [lookup_none_iff]
    constructor
    · intro hh l hl; exact hh (l.id, l.declared) ((mem_envOf ls [] _).mpr (Or.inr ⟨l, hl, rfl⟩))
    · intro hh f hf
      rcases (mem_envOf ls [] f).mp hf with hf | ⟨l, hl, rfl⟩
      · cases hf
      · exact hh l hl
  simp only [isGlobalRef, BEq.rfl, Bool.true_and, beq_iff_eq, ← this]

/-- the bound direction for whole subtrees: below a binding of `g` nothing is reported, whatever the subtree is
(all nesting depths at once) -/
theorem bound_subtree_silent (g : Nat) (i : Item) (env : Env) (h : lookup env g ≠ none) :
    ∀ e ∈ i.res env, isGlobalRef g e = false := Item.bound_silent g i env h

/-- non-enclosing things do not matter: what a scope declares — hence the verdict above — is unchanged by sibling
blocks and functions (whatever they declare inside), by property keys / member names of the same spelling, and by
other references -/
theorem declared_ignores_siblings (id id' : Nat) (pre post inner : Items) (ps : List Nat) (x : Nat) :
    (Layer.block id (pre.append (.cons (.block id' inner) .nil)) post).declared = (Layer.block id pre post).declared ∧
    (Layer.block id (pre.append (.cons (.func id' ps inner) .nil)) post).declared = (Layer.block id pre post).declared ∧
    (Layer.block id (pre.append (.cons (.key x) .nil)) post).declared = (Layer.block id pre post).declared ∧
    (Layer.block id (pre.append (.cons (.ref x) .nil)) post).declared = (Layer.block id pre post).declared := by
  simp [Layer.declared, lets_append, Items.lets]

/-- property keys and member names are never occurrences at all -/
theorem key_is_no_occurrence (x : Nat) (env : Env) : (Item.key x).res env = [] := rfl

/-! non-vacuity and the two directions on a concrete program:
`{ g; function f(g) { { g; } } { let g; } ({g:1}) }` with g = 7 — the first reference is reported (position 0), the
one under the parameter is not, and the sibling block's `let g` and the key change nothing. -/
def sample : Items :=
  .cons (.ref 7) (.cons (.func 1 [7] (.cons (.block 2 (.cons (.ref 7) .nil)) .nil))
    (.cons (.block 3 (.cons (.decl 7) .nil)) (.cons (.key 7) .nil)))
example : globalReports 7 sample = [0] := by decide
example : (Program.res sample).map (·.bind) = [none, some 1, some 1, some 3] := by decide

end DL.Props.C14
