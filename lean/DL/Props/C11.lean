import DL.Model.CFRules
import DL.Lemmas.CFSound7
import DL.Lemmas.CFClaims11

/-!
# C11 — getter-return and no-fallthrough never miss a path that falls off the end

-- FULL: ∀ getter g in prog, g.body.compl.n → getterReported (analyze prog) g
-- FULL: ∀ reachable non-empty case c without comment, c.body.compl.n → caseReported (analyze prog) c
-- FULL (equivalently): ∀ statement s (not a loop body key, not a declaration/expression statement) reachable,
--        (analyze prog s.pos).stops → (s.compl ls).n = false
The soundness invariant is developed in `DL.Lemmas.CFSound`; this file holds the rule-layer facts.
-/
namespace DL.Props.C11
open DL.CF

/-- `getter-return` reports a getter iff the recorded end of its body block is absent or `Continue` -/
theorem getterReported_iff (info : Info) (g : Getter) (m : Meta) (h : info g.bodyP = some m) :
    getterReported info g = true ↔ (m.end_ = none ∨ m.end_ = some .cont) := by
  unfold getterReported Meta.continues
  rw [h]
  obtain ⟨u, e⟩ := m
  rcases e with _ | ⟨r, t, i⟩ | _ | _ <;> simp

/-- `no-fallthrough` stays silent on a case only if it is empty, has a fall-through comment, or some statement of it
(other than a declaration or expression statement) has metadata that stops -/
theorem case_silent_only_if (info : Info) (c : SwCase) (h : caseReported info c = false) :
    c.empty = true ∨ c.ftComment = true ∨ stmtsStop info c.body = true := by
  unfold caseReported at h
  cases h1 : c.empty <;> cases h2 : c.ftComment <;> cases h3 : stmtsStop info c.body <;> simp_all

/-- stops and continues are complementary readings of the recorded end -/
theorem stops_iff_not_continues (m : Meta) : m.stops = !m.continues := by
  unfold Meta.stops Meta.continues
  obtain ⟨u, e⟩ := m
  rcases e with _ | ⟨r, t, i⟩ | _ | _ <;> rfl

/-- **C11 (statement form) on the fragment `inF`** (PARTIAL).  For a statement of the fragment (expressions may contain
nested functions, see `C10_partial`) analysed at a reachable point of a fresh scope: if the end recorded under its
position "stops execution" — for a statement that is not an expression or declaration statement, whose key may be
shared with a function it starts with and is never consulted by the rules — or the scope has stopped after it, then no
execution completes the statement normally. -/
theorem C11_partial (s : Stmt) (hf : s.inF = true) (hnd : s.positions.Nodup) :
    let a' := visitStmt s { sc := {}, info := Info.empty }
    (s.isDeclOrExpr = false → stopsEnd (a'.info.endAt s.pos) = true → (s.compl []).n = false) ∧
    (stopsEnd a'.sc.end_ = true → (s.compl []).n = false) := by
  have hpre : Pre true s.positions { sc := {}, info := Info.empty } :=
    ⟨fun h => by simp at h, fun _ _ => rfl, hnd⟩
  have h := visitStmt_ok s [] true _ hf hpre
  exact ⟨fun hde hs => by simpa using h.p4 hde hs, fun hs => by simpa using h.p1 hs⟩

/-- …and a whole statement list (e.g. the body of a getter): if the scope has stopped at the end of the list, the list
cannot complete normally — so a body that can fall off its end is never claimed to stop -/
theorem C11_partial_body (l : Stmts) (hf : l.inF = true) (hnd : l.positions.Nodup) :
    stopsEnd (visitStmts l { sc := {}, info := Info.empty }).sc.end_ = true → l.compl.n = false := by
  have hpre : Pre true l.positions { sc := {}, info := Info.empty } :=
    ⟨fun h => by simp at h, fun _ _ => rfl, hnd⟩
  have h := visitStmts_ok l true _ hf hpre
  intro hs; simpa using h.p1 hs

/-- why expression/declaration statements are excluded from the first claim: for `() => { return 1; };` the end
recorded under the statement's position (0, shared with the arrow function) stops, yet the statement completes
normally; the analyzer never reads it (`stmtEnd`) -/
example :
    let s : Stmt := .simple 0 .exprStmt (.cons (.expr .other (.cons (.fnScope 0 (.cons (.block 6
      (.cons (.ret 8 (.cons (.expr .other .nil) .nil)) .nil)) .nil)) .nil)) .nil)
    s.inF = true ∧ s.positions.Nodup ∧ (s.compl []).n = true ∧ s.isDeclOrExpr = true ∧
      stopsEnd ((visitStmt s { sc := {}, info := Info.empty }).info.endAt s.pos) = true ∧
      stopsEnd (visitStmt s { sc := {}, info := Info.empty }).sc.end_ = false := by decide

/-- non-vacuity: `do { if (x) continue; return; } while (c);` is in the fragment, and its metadata does not stop -/
example :
    let s : Stmt := .doWhileS 0 (.block 3 (.cons (.ifS 5 (.cons (.expr (.ident "x") .nil) .nil) (.cont 12 none) none)
      (.cons (.ret 22 .nil) .nil))) (.cons (.expr (.ident "c") .nil) .nil) false
    s.inF = true ∧ s.positions.Nodup ∧ (s.compl []).n = true ∧
      stopsEnd ((visitStmt s { sc := {}, info := Info.empty }).info.endAt s.pos) = false := by decide

/-! ## the rule layers, composed with the invariant (whole programs of the fragment)

`Program.stopViol`, `getterReported`, `stmtsStop`/`caseReported` read the *final* metadata at keys anywhere inside the
program.  `DL.Lemmas.CFClaims*` show that what a visit records under the keys of a piece of syntax is never touched again
(`Stmt.info_frame`, unconditional), except the key of a loop body, which is re-used for the end of the loop (and is
filtered out by `stopViol`), and transport the facts established when each statement was visited to the final map. -/

/-- **`stopViol` (C11, statement form, whole programs).**  `Program.stopViol` is *not* conditioned on reachability (see the
example below: a dead `if` records the inherited forced end), so it is not empty in general.  The strongest true
statement: every statement whose metadata says "stops" although it can complete normally was visited after its scope
had ended — it is marked `unreachable` by the analyzer, and it is unreachable in the reference semantics. -/
theorem C11_stopViol (prog : Program) (hf : itemsInF prog.items = true) (hnd : (itemsPositions prog.items).Nodup) (p : Nat)
    (hp : p ∈ prog.stopViol (analyze prog)) : (analyze prog).ur p = true ∧ prog.reachable p = false := by
  have h := (program_claims prog hf hnd).sv p hp
  refine ⟨h, program_ur_unreachable prog hf hnd p ?_ h⟩
  rw [stopViol_items] at hp
  exact itemsStopViol_upos _ _ p hp

/-- …in particular there is no violation at all when the analyzer marks no statement `unreachable` -/
theorem C11_stopViol_nil (prog : Program) (hf : itemsInF prog.items = true) (hnd : (itemsPositions prog.items).Nodup)
    (hno : ∀ q, (analyze prog).ur q = false) : prog.stopViol (analyze prog) = [] := by
  cases h : prog.stopViol (analyze prog) with
  | nil => rfl
  | cons q r =>
    have := (C11_stopViol prog hf hnd q (by rw [h]; simp)).1
    rw [hno q] at this; cases this

/-- **`getter-return` is never silent on a body that can fall off its end.**  For every function scope with a body block
occurring anywhere in a program of the fragment (`Program.getters`): if the rule does not report it, the body cannot
complete normally. -/
theorem C11_getter (prog : Program) (hf : itemsInF prog.items = true) (hnd : (itemsPositions prog.items).Nodup) (g : Getter)
    (hg : g ∈ prog.getters) (hrep : getterReported (analyze prog) g = false) : g.body.compl.n = false := by
  refine (program_claims prog hf hnd).gv g hg ?_
  unfold getterReported at hrep
  unfold metaStops
  cases h : (analyze prog) g.bodyP with
  | none => rw [h] at hrep; cases hrep
  | some m =>
    rw [h] at hrep
    simp only at hrep ⊢
    rw [stops_iff_not_continues, hrep]; rfl

/-- **`no-fallthrough`: a stopping statement silences the rule only when the case cannot fall through.**  For every case
`(sp, body)` of a `switch` statement at `sp` occurring anywhere in a program of the fragment (`Program.swCases`), if the
`switch` is reachable (every case of a reached `switch` can be entered, `Cases.reach`) and some statement of the body has
metadata that stops (`stmtsStop`), then the body cannot complete normally. -/
theorem C11_case (prog : Program) (hf : itemsInF prog.items = true) (hnd : (itemsPositions prog.items).Nodup)
    (c : Nat × Stmts) (hc : c ∈ prog.swCases) (hreach : prog.reachable c.1 = true)
    (hst : stmtsStop (analyze prog) c.2 = true) : c.2.compl.n = false := by
  cases hn : c.2.compl.n with
  | false => rfl
  | true =>
    have hur := (program_claims prog hf hnd).cv c hc hst hn
    have := program_ur_unreachable prog hf hnd c.1 (itemsSwCases_upos _ c hc) hur
    rw [this] at hreach; cases hreach

/-- the positions of the cases of a `switch` -/
def casePositions : Cases → List Nat
  | .nil => []
  | .cons p _ _ _ r => p :: casePositions r

/-- the reachability hypothesis of `C11_case` is about the `switch` statement: in the reference semantics every case of a
reached `switch` whose discriminant can complete normally can be entered directly -/
theorem cases_reach_every_case : ∀ (cs : Cases) (cp : Nat), cp ∈ casePositions cs → cs.reach cp = true
  | .nil, cp, h => by simp [casePositions] at h
  | .cons p dflt t b r, cp, h => by
    simp only [casePositions, List.mem_cons] at h
    rcases h with h | h
    · simp [Cases.reach, h]
    · simp [Cases.reach, cases_reach_every_case r cp h]

theorem switch_reaches_every_case (sp : Nat) (d : Kids) (hd : d.compl.n = true) (cs : Cases) (cp : Nat)
    (h : cp ∈ casePositions cs) : (Stmt.switchS sp d cs).reach cp = true := by
  simp [Stmt.reach, hd, cases_reach_every_case cs cp h]

/-- …in terms of the rule: a non-empty case without fall-through comment that can fall through is reported -/
theorem C11_case_reported (prog : Program) (hf : itemsInF prog.items = true) (hnd : (itemsPositions prog.items).Nodup)
    (sp : Nat) (c : SwCase) (hc : (sp, c.body) ∈ prog.swCases) (hreach : prog.reachable sp = true)
    (he : c.empty = false) (hft : c.ftComment = false) (hn : c.body.compl.n = true) :
    caseReported (analyze prog) c = true := by
  unfold caseReported
  cases hst : stmtsStop (analyze prog) c.body with
  | false => simp [he, hft]
  | true => have := C11_case prog hf hnd (sp, c.body) hc hreach hst; rw [hn] at this; cases this

/-- `stopViol` is not empty in general: in `return; if (x) {}` the dead `if` (10) and its block (17) inherit the forced
end; they are marked `unreachable` and they are unreachable -/
example :
    let prog : Program := { isModule := false, items := [.stmt (.ret 0 .nil),
      .stmt (.ifS 10 (.cons (.expr (.ident "x") .nil) .nil) (.block 17 .nil) none)] }
    itemsInF prog.items = true ∧ (itemsPositions prog.items).Nodup ∧
    prog.stopViol (analyze prog) = [10, 17] ∧ (analyze prog).ur 10 = true ∧ prog.reachable 10 = false ∧
    (analyze prog).ur 17 = true ∧ prog.reachable 17 = false := by decide

/-- getters: `function f() { return 1; }  function g() { if (x) return 1; }` — `f` (body block 13) is not reported and
its body cannot complete normally; `g` (body block 43) can, and is reported -/
example :
    let one : Kids := .cons (.expr .other .nil) .nil
    let fbody : Stmts := .cons (.ret 15 one) .nil
    let gbody : Stmts := .cons (.ifS 45 (.cons (.expr (.ident "x") .nil) .nil) (.ret 52 one) none) .nil
    let prog : Program := { isModule := false, items := [
      .stmt (.simple 0 (.fnDecl "f") (.cons (.fnScope 0 (.cons (.block 13 fbody) .nil)) .nil)),
      .stmt (.simple 30 (.fnDecl "g") (.cons (.fnScope 30 (.cons (.block 43 gbody) .nil)) .nil))] }
    itemsInF prog.items = true ∧ (itemsPositions prog.items).Nodup ∧
    prog.getters.map (fun g => (g.at_, g.bodyP)) = [(0, 13), (30, 43)] ∧
    prog.getters.map (fun g => (getterReported (analyze prog) g, g.body.compl.n)) = [(false, false), (true, true)] := by
  decide

/-- cases: `switch (x) { case 1: return; case 2: foo(); default: bar(); }` — the first body stops and cannot complete
normally; the second does not stop (and would be reported by `no-fallthrough`) -/
example :
    let call : Kids := .cons (.expr .other .nil) .nil
    let prog : Program := { isModule := false, items := [.stmt (.switchS 0 (.cons (.expr (.ident "x") .nil) .nil)
      (.cons 13 false call (.cons (.ret 21 .nil) .nil)
        (.cons 29 false call (.cons (.simple 37 .exprStmt call) .nil)
          (.cons 44 true .nil (.cons (.simple 53 .exprStmt call) .nil) .nil))))] }
    itemsInF prog.items = true ∧ (itemsPositions prog.items).Nodup ∧ prog.reachable 0 = true ∧
    prog.swCases.map (fun c => (c.1, stmtsStop (analyze prog) c.2, c.2.compl.n)) =
      [(0, true, false), (0, false, true), (0, false, true)] := by
  decide

end DL.Props.C11
