import DL.Model.CFRules

/-!
# C11 — getter-return and no-fallthrough never miss a path that falls off the end

-- FULL: ∀ getter g in prog, g.body.compl.n → getterReported (analyze prog) g
-- FULL: ∀ reachable non-empty case c without comment, c.body.compl.n → caseReported (analyze prog) c
-- FULL (equivalently): ∀ statement s (not a loop body key, not a declaration/expression statement) reachable,
--        (analyze prog s.pos).stops → (s.compl ls).n = false
The soundness invariant is developed in `DL.Lemmas.CFSound`; this file holds the rule-layer facts.
-/
namespace DL.Props.C11
open DL.CF

/-- `getter-return` reports a getter iff the recorded end of its body block is absent or `Continue` -/
theorem getterReported_iff (info : Info) (g : Getter) (m : Meta) (h : info g.bodyP = some m) :
    getterReported info g = true ↔ (m.end_ = none ∨ m.end_ = some .cont) := by
  unfold getterReported Meta.continues
  rw [h]
  obtain ⟨u, e⟩ := m
  rcases e with _ | ⟨r, t, i⟩ | _ | _ <;> simp

/-- `no-fallthrough` stays silent on a case only if it is empty, has a fall-through comment, or some statement of it
(other than a declaration or expression statement) has metadata that stops -/
theorem case_silent_only_if (info : Info) (c : SwCase) (h : caseReported info c = false) :
    c.empty = true ∨ c.ftComment = true ∨ stmtsStop info c.body = true := by
  unfold caseReported at h
  cases h1 : c.empty <;> cases h2 : c.ftComment <;> cases h3 : stmtsStop info c.body <;> simp_all

/-- stops and continues are complementary readings of the recorded end -/
theorem stops_iff_not_continues (m : Meta) : m.stops = !m.continues := by
  unfold Meta.stops Meta.continues
  obtain ⟨u, e⟩ := m
  rcases e with _ | ⟨r, t, i⟩ | _ | _ <;> rfl

end DL.Props.C11
