import DL.Model.CFRules
import DL.Lemmas.CFSound7

/-!
# C11 — getter-return and no-fallthrough never miss a path that falls off the end

-- FULL: ∀ getter g in prog, g.body.compl.n → getterReported (analyze prog) g
-- FULL: ∀ reachable non-empty case c without comment, c.body.compl.n → caseReported (analyze prog) c
-- FULL (equivalently): ∀ statement s (not a loop body key, not a declaration/expression statement) reachable,
--        (analyze prog s.pos).stops → (s.compl ls).n = false
The soundness invariant is developed in `DL.Lemmas.CFSound`; this file holds the rule-layer facts.
-/
namespace DL.Props.C11
open DL.CF

/-- `getter-return` reports a getter iff the recorded end of its body block is absent or `Continue` -/
theorem getterReported_iff (info : Info) (g : Getter) (m : Meta) (h : info g.bodyP = some m) :
    getterReported info g = true ↔ (m.end_ = none ∨ m.end_ = some .cont) := by
  unfold getterReported Meta.continues
  rw [h]
  obtain ⟨u, e⟩ := m
  rcases e with _ | ⟨r, t, i⟩ | _ | _ <;> simp

/-- `no-fallthrough` stays silent on a case only if it is empty, has a fall-through comment, or some statement of it
(other than a declaration or expression statement) has metadata that stops -/
theorem case_silent_only_if (info : Info) (c : SwCase) (h : caseReported info c = false) :
    c.empty = true ∨ c.ftComment = true ∨ stmtsStop info c.body = true := by
  unfold caseReported at h
  cases h1 : c.empty <;> cases h2 : c.ftComment <;> cases h3 : stmtsStop info c.body <;> simp_all

/-- stops and continues are complementary readings of the recorded end -/
theorem stops_iff_not_continues (m : Meta) : m.stops = !m.continues := by
  unfold Meta.stops Meta.continues
  obtain ⟨u, e⟩ := m
  rcases e with _ | ⟨r, t, i⟩ | _ | _ <;> rfl

/-- **C11 (statement form) on the fragment `inF`** (PARTIAL).  For a statement of the fragment (expressions may contain
nested functions, see `C10_partial`) analysed at a reachable point of a fresh scope: if the end recorded under its
position "stops execution" — for a statement that is not an expression or declaration statement, whose key may be
shared with a function it starts with and is never consulted by the rules — or the scope has stopped after it, then no
execution completes the statement normally. -/
theorem C11_partial (s : Stmt) (hf : s.inF = true) (hnd : s.positions.Nodup) :
    let a' := visitStmt s { sc := {}, info := Info.empty }
    (s.isDeclOrExpr = false → stopsEnd (a'.info.endAt s.pos) = true → (s.compl []).n = false) ∧
    (stopsEnd a'.sc.end_ = true → (s.compl []).n = false) := by
  have hpre : Pre true s.positions { sc := {}, info := Info.empty } :=
    ⟨fun h => by simp at h, fun _ _ => rfl, hnd⟩
  have h := visitStmt_ok s [] true _ hf hpre
  exact ⟨fun hde hs => by simpa using h.p4 hde hs, fun hs => by simpa using h.p1 hs⟩

/-- …and a whole statement list (e.g. the body of a getter): if the scope has stopped at the end of the list, the list
cannot complete normally — so a body that can fall off its end is never claimed to stop -/
theorem C11_partial_body (l : Stmts) (hf : l.inF = true) (hnd : l.positions.Nodup) :
    stopsEnd (visitStmts l { sc := {}, info := Info.empty }).sc.end_ = true → l.compl.n = false := by
  have hpre : Pre true l.positions { sc := {}, info := Info.empty } :=
    ⟨fun h => by simp at h, fun _ _ => rfl, hnd⟩
  have h := visitStmts_ok l true _ hf hpre
  intro hs; simpa using h.p1 hs

/-- why expression/declaration statements are excluded from the first claim: for `() => { return 1; };` the end
recorded under the statement's position (0, shared with the arrow function) stops, yet the statement completes
normally; the analyzer never reads it (`stmtEnd`) -/
example :
    let s : Stmt := .simple 0 .exprStmt (.cons (.expr .other (.cons (.fnScope 0 (.cons (.block 6
      (.cons (.ret 8 (.cons (.expr .other .nil) .nil)) .nil)) .nil)) .nil)) .nil)
    s.inF = true ∧ s.positions.Nodup ∧ (s.compl []).n = true ∧ s.isDeclOrExpr = true ∧
      stopsEnd ((visitStmt s { sc := {}, info := Info.empty }).info.endAt s.pos) = true ∧
      stopsEnd (visitStmt s { sc := {}, info := Info.empty }).sc.end_ = false := by decide

/-- non-vacuity: `do { if (x) continue; return; } while (c);` is in the fragment, and its metadata does not stop -/
example :
    let s : Stmt := .doWhileS 0 (.block 3 (.cons (.ifS 5 (.cons (.expr (.ident "x") .nil) .nil) (.cont 12 none) none)
      (.cons (.ret 22 .nil) .nil))) (.cons (.expr (.ident "c") .nil) .nil) false
    s.inF = true ∧ s.positions.Nodup ∧ (s.compl []).n = true ∧
      stopsEnd ((visitStmt s { sc := {}, info := Info.empty }).info.endAt s.pos) = false := by decide

end DL.Props.C11
