import DL.Lemmas.RxIndLeaves2

/-! # History independence: unicode escapes, control escapes, identifiers -/
namespace DL.Rx
attribute [local irreducible] isScalar
variable {c : Bool}
set_option linter.unusedSimpArgs false

theorem I.eatRegexpUnicodeCodepointEscape (W : RegSet) (n : Nat) :
    Ind c W (eatRegexpUnicodeCodepointEscape n) (fun b => insIf b .int W) := by
  unfold DL.Rx.eatRegexpUnicodeCodepointEscape; rx2_auto

theorem I.eatRegexpUnicodeSurrogatePairEscape (W : RegSet) :
    Ind c W eatRegexpUnicodeSurrogatePairEscape (fun _ => ins .int W) := by
  unfold DL.Rx.eatRegexpUnicodeSurrogatePairEscape; rx2_auto

theorem I.eatRegexpUnicodeEscapeSequence (W : RegSet) (n : Nat) (f : Bool) :
    Ind c W (eatRegexpUnicodeEscapeSequence n f) (fun b => insIf b .int W) := by
  unfold DL.Rx.eatRegexpUnicodeEscapeSequence; rx2_auto

theorem I.eatControlLetter (W : RegSet) : Ind c W eatControlLetter (fun b => insIf b .int W) := by
  unfold DL.Rx.eatControlLetter; rx2_auto

theorem I.eatControlEscape (W : RegSet) : Ind c W eatControlEscape (fun b => insIf b .int W) := by
  unfold DL.Rx.eatControlEscape; rx2_auto

theorem I.eatZero (W : RegSet) : Ind c W eatZero (fun b => insIf b .int W) := by
  unfold DL.Rx.eatZero; rx2_auto

theorem I.eatCControlLetter (W : RegSet) : Ind c W eatCControlLetter (fun b => insIf b .int W) := by
  unfold DL.Rx.eatCControlLetter; rx2_auto

theorem I.eatRegexpIdentifierPart (W : RegSet) (n : Nat) :
    Ind c W (eatRegexpIdentifierPart n) (fun b => insIf b .int W) := by
  unfold DL.Rx.eatRegexpIdentifierPart; rx2_auto

theorem I.eatRegexpIdentifierStart (W : RegSet) (n : Nat) :
    Ind c W (eatRegexpIdentifierStart n) (fun b => insIf b .int W) := by
  unfold DL.Rx.eatRegexpIdentifierStart; rx2_auto

theorem I.eatRegexpIdentifierNameLoop (W : RegSet) :
    ∀ n, Ind c (ins .str W) (eatRegexpIdentifierNameLoop n) (fun _ => ins .str W)
  | 0 => by unfold DL.Rx.eatRegexpIdentifierNameLoop; rx2_auto
  | n + 1 => by
    have ih := I.eatRegexpIdentifierNameLoop W n
    unfold DL.Rx.eatRegexpIdentifierNameLoop; rx2_auto

theorem I.eatRegexpIdentifierName (W : RegSet) (n : Nat) :
    Ind c W (eatRegexpIdentifierName n) (fun b => insIf b .str W) := by
  unfold DL.Rx.eatRegexpIdentifierName; rx2_auto

theorem I.eatGroupName (W : RegSet) (n : Nat) : Ind c W (eatGroupName n) (fun b => insIf b .str W) := by
  unfold DL.Rx.eatGroupName; rx2_auto

end DL.Rx
