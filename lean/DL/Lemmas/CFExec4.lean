import DL.Lemmas.CFExec3

/-! **Soundness of the closed-form reachability**: every program point the inductive semantics reaches is reached
according to `Stmt.reach` (and its companions).  Unconditional. -/
namespace DL.CF

theorem Stmt.reach_pos (s : Stmt) : s.reach s.pos = true := by
  cases s with
  | ifS p t c a => cases a <;> simp [Stmt.reach, Stmt.pos]
  | _ => simp [Stmt.reach, Stmt.pos]

theorem EvalKids.n {ks : Kids} (h : EvalKids ks .normal) : ks.compl.n = true := h.sound
theorem EvalKid.n {k : Kid} (h : EvalKid k .normal) : k.compl.n = true := h.sound
theorem EvalTest.n {tt : Bool} {t : Kids} (h : EvalTest tt t .normal) : (testCompl tt t).n = true := h.sound

mutual
theorem Reaches.sound : ∀ {s : Stmt} {p : Nat}, Reaches s p → s.reach p = true
  | _, _, .self s => s.reach_pos
  | _, _, .simple_kids h => by simp [Stmt.reach, h.sound]
  | _, _, .block h => by simp [Stmt.reach, h.sound]
  | .ifS _ _ _ alt, _, .if_test h => by cases alt <;> simp [Stmt.reach, h.sound]
  | .ifS _ _ _ alt, _, .if_then ht h => by cases alt <;> simp [Stmt.reach, ht.n, h.sound]
  | _, _, .if_else ht h => by simp [Stmt.reach, ht.n, h.sound]
  | _, _, .while_test h => by simp [Stmt.reach, h.sound]
  | _, _, .while_body ht h => by simp [Stmt.reach, ht.n, h.sound]
  | _, _, .do_body h => by simp [Stmt.reach, h.sound]
  | _, _, .do_test (o := o) hb hg h => by
    simp [Stmt.reach, (goesRoundAny_iff _).mpr ⟨o, hb.sound, hg⟩, h.sound]
  | _, _, .for_init h => by simp [Stmt.reach, h.sound]
  | _, _, .for_test hi h => by simp [Stmt.reach, hi.n, h.sound]
  | _, _, .for_body hi ht h => by simp [Stmt.reach, hi.n, ht.n, h.sound]
  | _, _, .for_update (o := o) hi ht hb hg h => by
    simp [Stmt.reach, hi.n, ht.n, (goesRoundAny_iff _).mpr ⟨o, hb.sound, hg⟩, h.sound]
  | _, _, .forIn_right h => by simp [Stmt.reach, h.sound]
  | _, _, .forIn_left hr h => by simp [Stmt.reach, hr.n, h.sound]
  | _, _, .forIn_body hr hl h => by simp [Stmt.reach, hr.n, hl.n, h.sound]
  | _, _, .switch_disc h => by simp [Stmt.reach, h.sound]
  | _, _, .switch hd h => by simp [Stmt.reach, hd.n, h.sound]
  | _, _, .try_block h => by simp [Stmt.reach, h.sound]
  | _, _, .try_handler hb h => by
    simp [Stmt.reach, show (Stmts.compl _).t = true from hb.sound, h.sound]
  | _, _, .try_finalizer (o := o) hb h => by
    simp [Stmt.reach, (Compl.any_iff _).mpr ⟨o, hb.sound⟩, h.sound]
  | _, _, .labeled h => by simp [Stmt.reach, h.sound]
  | _, _, .ret_arg h => by simp [Stmt.reach, h.sound]
  | _, _, .throw_arg h => by simp [Stmt.reach, h.sound]
theorem ReachesList.sound : ∀ {l : Stmts} {p : Nat}, ReachesList l p → l.reach p = true
  | _, _, .head h => by simp [Stmts.reach, h.sound]
  | _, _, .tail hs h => by simp [Stmts.reach, show (Stmt.compl [] _).n = true from hs.sound, h.sound]
theorem ReachesCases.sound : ∀ {cs : Cases} {p : Nat}, ReachesCases cs p → cs.reach p = true
  | _, _, .clause => by simp [Cases.reach]
  | _, _, .test h => by simp [Cases.reach, h.sound]
  | _, _, .body h => by simp [Cases.reach, h.sound]
  | _, _, .later h => by simp [Cases.reach, h.sound]
theorem ReachesCatch.sound : ∀ {ks : Kids} {p : Nat}, ReachesCatch ks p → ks.catchReach p = true
  | _, _, .bodyBlock => by simp [Kids.catchReach]
  | _, _, .body h => by simp [Kids.catchReach, h.sound]
  | .cons k r, _, .param hk h => by
    cases k <;> simp [Kid.isBlock] at hk <;> (simp only [Kids.catchReach]; exact h.sound)
theorem ReachesKid.sound : ∀ {k : Kid} {p : Nat}, ReachesKid k p → k.flowReach p = true
  | _, _, .expr h => by simp only [Kid.flowReach]; exact h.sound
  | _, _, .blockPos => by simp [Kid.flowReach]
  | _, _, .block h => by simp [Kid.flowReach, h.sound]
  | _, _, .stmt h => by simp only [Kid.flowReach]; exact h.sound
theorem ReachesKids.sound : ∀ {ks : Kids} {p : Nat}, ReachesKids ks p → ks.flowReach p = true
  | _, _, .head h => by simp [Kids.flowReach, h.sound]
  | _, _, .tail hk h => by simp [Kids.flowReach, hk.n, h.sound]
end

theorem ReachesItems.sound : ∀ {items : List Item} {p : Nat}, ReachesItems items p → itemsReach items p = true
  | _, _, .here h => by simp [itemsReach, h.sound]
  | _, _, .next hs h => by simp [itemsReach, show (Stmt.compl [] _).n = true from hs.sound, h.sound]
  | _, _, .decl h => by simp [itemsReach, h.sound]
  | _, _, .skipDecl hk h => by simp [itemsReach, hk.n, h.sound]

end DL.CF
