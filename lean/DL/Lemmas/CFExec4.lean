import DL.Lemmas.CFExec3

/-! **Soundness of the closed-form reachability**: every program point the inductive semantics reaches is reached
according to `Stmt.reach` (and its companions).  Unconditional. -/
namespace DL.CF

theorem Stmt.reach_pos (s : Stmt) : s.reach s.pos = true := by
  cases s with
  | ifS p t c a => cases a <;> simp [Stmt.reach, Stmt.pos]
  | _ => simp [Stmt.reach, Stmt.pos]

mutual
theorem Reaches.sound : ∀ {s : Stmt} {p : Nat}, Reaches s p → s.reach p = true
  | _, _, .self s => s.reach_pos
  | _, _, .block h => by simp [Stmt.reach, h.sound]
  | .ifS _ _ _ alt, _, .if_then _ h => by cases alt <;> simp [Stmt.reach, h.sound]
  | _, _, .if_else _ h => by simp [Stmt.reach, h.sound]
  | _, _, .while_body h => by simp [Stmt.reach, h.sound]
  | _, _, .do_body h => by simp [Stmt.reach, h.sound]
  | _, _, .for_body h => by simp [Stmt.reach, h.sound]
  | _, _, .forIn_body h => by simp [Stmt.reach, h.sound]
  | _, _, .switch h => by simp [Stmt.reach, h.sound]
  | _, _, .try_block h => by simp [Stmt.reach, h.sound]
  | _, _, .try_handler hb h => by
    simp [Stmt.reach, show (Stmts.compl _).t = true from hb.sound, h.sound]
  | _, _, .try_finalizer (o := o) hb h => by
    simp [Stmt.reach, (Compl.any_iff _).mpr ⟨o, hb.sound⟩, h.sound]
  | _, _, .labeled h => by simp [Stmt.reach, h.sound]
theorem ReachesList.sound : ∀ {l : Stmts} {p : Nat}, ReachesList l p → l.reach p = true
  | _, _, .head h => by simp [Stmts.reach, h.sound]
  | _, _, .tail hs h => by simp [Stmts.reach, show (Stmt.compl [] _).n = true from hs.sound, h.sound]
theorem ReachesCases.sound : ∀ {cs : Cases} {p : Nat}, ReachesCases cs p → cs.reach p = true
  | _, _, .clause => by simp [Cases.reach]
  | _, _, .body h => by simp [Cases.reach, h.sound]
  | _, _, .later h => by simp [Cases.reach, h.sound]
theorem ReachesCatch.sound : ∀ {ks : Kids} {p : Nat}, ReachesCatch ks p → ks.catchReach p = true
  | _, _, .bodyBlock => by simp [Kids.catchReach]
  | _, _, .body h => by simp [Kids.catchReach, h.sound]
  | .cons k r, _, .param hk h => by
    cases k <;> simp [Kid.isBlock] at hk <;> (simp only [Kids.catchReach]; exact h.sound)
end

theorem ReachesItems.sound : ∀ {items : List Item} {p : Nat}, ReachesItems items p → itemsReach items p = true
  | _, _, .here h => by simp [itemsReach, h.sound]
  | _, _, .next hs h => by simp [itemsReach, show (Stmt.compl [] _).n = true from hs.sound, h.sound]
  | _, _, .skipDecl h => by simp [itemsReach, h.sound]

end DL.CF
