import DL.Lemmas.CFClaims8

/-! The claims of the rule layers: `try` statements. -/
namespace DL.CF

theorem try_claims (ls : List Id) (p bp : Nat) (b : Stmts) (hh : Bool) (cp : Nat) (ck : Kids) (hf : Bool) (fp : Nat) (f : Stmts)
    (a : A) (hfr : (Stmt.tryS p bp b hh cp ck hf fp f).inF = true)
    (hck : hh = true ∨ ck = .nil) (hfin : hf = true ∨ f = .nil)
    (hpre : PreK (Stmt.tryS p bp b hh cp ck hf fp f).positions a)
    (ihb : ∀ x, PreK b.positions x → LClaims b (visitStmts b x).info)
    (ihc : ∀ x, PreK ck.positions x → KClaims ck (visitKids ck x).info)
    (ihf : ∀ x, PreK f.positions x → LClaims f (visitStmts f x).info) :
    SClaims (.tryS p bp b hh cp ck hf fp f) ls (visitStmt (.tryS p bp b hh cp ck hf fp f) a).info := by
  have own := own_claim (.tryS p bp b hh cp ck hf fp f) ls a hfr hpre
  simp only [Stmt.positions] at hpre
  have hsp := TrySplit.of hpre.nodup
  have hv : (visitStmt (.tryS p bp b hh cp ck hf fp f) a).info =
      (tryFin p (tryFinalizer hf fp f a.sc.end_ (tryHandler hh cp ck a.sc.end_ (blockTail bp (visitStmts b (tryStart p a)))))).info := by
    rw [visitStmt_try']; rfl
  -- key separations
  have hcps : ∀ q, q ∈ ck.positions → q ∈ optPos hh cp ++ ck.positions := fun q hq => List.mem_append.mpr (Or.inr hq)
  have hfps : ∀ q, q ∈ f.positions → q ∈ optPos hf fp ++ f.positions := fun q hq => List.mem_append.mpr (Or.inr hq)
  have hcpm : hh = true → cp ∈ optPos hh cp ++ ck.positions := fun h => by simp [optPos, h]
  have hfpm : hf = true → fp ∈ optPos hf fp ++ f.positions := fun h => by simp [optPos, h]
  have hcp : hh = true → cp ∉ ck.positions := by
    intro h hm
    have := (List.nodup_append.mp hsp.nc).2.2 cp (by simp [optPos, h]) cp hm
    exact this rfl
  have hfp : hf = true → fp ∉ f.positions := by
    intro h hm
    have := (List.nodup_append.mp hsp.nf).2.2 fp (by simp [optPos, h]) fp hm
    exact this rfl
  -- the start state
  have s0i : ∀ q, q ≠ p → (tryStart p a).info q = a.info q := fun q hq => setUnreach_other _ _ _ _ hq
  have hfresh0 : ∀ q, q ≠ p → q ∈ bp :: (b.positions ++ ((optPos hh cp ++ ck.positions) ++ (optPos hf fp ++ f.positions))) →
      (tryStart p a).info.endAt q = none := by
    intro q h1 h2
    rw [endAt_eq_of_info_eq (s0i q h1)]; exact hpre.fresh q (List.mem_cons_of_mem _ h2)
  -- the try block
  have hpreb : PreK b.positions (tryStart p a) :=
    ⟨fun q hq => hfresh0 q (fun e => hsp.p_b (e ▸ hq)) (by simp [hq]), (List.nodup_cons.mp hsp.nb).2⟩
  have hb := ihb _ hpreb
  have frb : ∀ q, q ∉ b.positions → (visitStmts b (tryStart p a)).info q = (tryStart p a).info q :=
    fun q hq => Stmts.info_frame b _ q hq
  generalize visitStmts b (tryStart p a) = Gb at hv hb frb
  have i1 : ∀ q, q ≠ bp → (blockTail bp Gb).info q = Gb.info q := fun q hq => blockTail_info _ _ _ hq
  generalize blockTail bp Gb = a1 at hv i1
  -- the handler
  have hprec : PreK ck.positions a1 := by
    refine ⟨fun q hq => ?_, (List.nodup_append.mp hsp.nc).2.1⟩
    have hqc := hcps q hq
    have hqb : q ∉ bp :: b.positions := fun h => hsp.bc q h hqc
    simp only [List.mem_cons, not_or] at hqb
    rw [endAt_eq_of_info_eq (i1 q hqb.1), endAt_eq_of_info_eq (frb q hqb.2)]
    exact hfresh0 q (fun e => hsp.p_c (e ▸ hqc)) (by simp [hq])
  obtain ⟨hc, frc⟩ := handler_claims hh cp ck a.sc.end_ a1 hck hprec hcp ihc
  generalize tryHandler hh cp ck a.sc.end_ a1 = a2 at hv hc frc
  -- the finalizer
  have hpref : PreK f.positions a2 := by
    refine ⟨fun q hq => ?_, (List.nodup_append.mp hsp.nf).2.1⟩
    have hqf := hfps q hq
    have hqb : q ∉ bp :: b.positions := fun h => hsp.bf q h hqf
    simp only [List.mem_cons, not_or] at hqb
    rw [endAt_eq_of_info_eq (frc q (fun h e => hsp.cf q (e ▸ hcpm h) hqf) (fun h => hsp.cf q (hcps q h) hqf)),
      endAt_eq_of_info_eq (i1 q hqb.1), endAt_eq_of_info_eq (frb q hqb.2)]
    exact hfresh0 q (fun e => hsp.p_f (e ▸ hqf)) (by simp [hq])
  obtain ⟨hfc, frf⟩ := finalizer_claims hf fp f a.sc.end_ a2 hfin hpref hfp ihf
  generalize tryFinalizer hf fp f a.sc.end_ a2 = a3 at hv hfc frf
  -- transports to the final metadata
  have hb' : LClaims b (visitStmt (.tryS p bp b hh cp ck hf fp f) a).info := by
    refine hb.transport (fun q hq => ?_)
    have hqb : q ∈ bp :: b.positions := List.mem_cons_of_mem _ hq
    have hne : q ≠ p := fun e => hsp.p_b (e ▸ hq)
    have hnbp : q ≠ bp := fun e => (List.nodup_cons.mp hsp.nb).1 (e ▸ hq)
    rw [hv, tryFin_info _ _ _ hne, frf q (fun h e => hsp.bf q hqb (e ▸ hfpm h)) (fun h => hsp.bf q hqb (hfps q h)),
      frc q (fun h e => hsp.bc q hqb (e ▸ hcpm h)) (fun h => hsp.bc q hqb (hcps q h)), i1 q hnbp]
  have hc' : KClaims ck (visitStmt (.tryS p bp b hh cp ck hf fp f) a).info := by
    refine hc.transport (fun q hq => ?_)
    have hqc := hcps q hq
    have hne : q ≠ p := fun e => hsp.p_c (e ▸ hqc)
    rw [hv, tryFin_info _ _ _ hne, frf q (fun h e => hsp.cf q hqc (e ▸ hfpm h)) (fun h => hsp.cf q hqc (hfps q h))]
  have hf' : LClaims f (visitStmt (.tryS p bp b hh cp ck hf fp f) a).info := by
    refine hfc.transport (fun q hq => ?_)
    have hne : q ≠ p := fun e => hsp.p_f (e ▸ hfps q hq)
    rw [hv, tryFin_info _ _ _ hne]
  exact (own.append (hb'.append (hc'.append hf'))).mono (fun q hq => by simpa [Stmt.stopViol, List.append_assoc] using hq)
    (fun c hc => by simpa [Stmt.swCases] using hc) (fun g hg => by simpa [Stmt.getters] using hg)

end DL.CF
