import DL.Lemmas.CFSound7

/-! Whole programs: modules and scripts, with module declarations (`import`/`export` …) between the statements. -/
namespace DL.CF

def Item.inF : Item → Bool
  | .stmt s => s.inF
  | .decl kids => kids.okF

def itemsInF : List Item → Bool
  | [] => true
  | it :: r => it.inF && itemsInF r

def Item.positions : Item → List Nat
  | .stmt s => s.positions
  | .decl kids => kids.positions

def Item.upos : Item → List Nat
  | .stmt s => s.upos
  | .decl kids => kids.upos

def itemsPositions : List Item → List Nat
  | [] => []
  | it :: r => it.positions ++ itemsPositions r

def itemsUpos : List Item → List Nat
  | [] => []
  | it :: r => it.upos ++ itemsUpos r

def itemsCompl : List Item → Compl
  | [] => .normal
  | .stmt s :: r => (s.compl []).seq (itemsCompl r)
  | .decl kids :: r => kids.compl.seq (itemsCompl r)

def visitItem (m : Bool) : Item → A → A
  | .stmt s, a => if m then visitStmt s a else visitStmtOrBlock s a
  | .decl kids, a => visitKids kids a

def visitItems (m : Bool) : List Item → A → A
  | [], a => a
  | it :: r, a => visitItems m r (visitItem m it a)

theorem analyze_items (prog : Program) :
    analyze prog = (visitItems prog.isModule prog.items { sc := {}, info := Info.empty }).info := by
  unfold analyze
  simp only
  generalize ({ sc := {}, info := Info.empty } : A) = a0
  generalize prog.items = items
  induction items generalizing a0 with
  | nil => rfl
  | cons it r ih =>
    simp only [List.foldl_cons, visitItems]
    rw [← ih]
    cases it <;> rfl

theorem itemsUpos_sub : ∀ (items : List Item) (q : Nat), q ∈ itemsUpos items → q ∈ itemsPositions items
  | [], q, h => by simp [itemsUpos] at h
  | .stmt s :: r, q, h => by
    simp only [itemsUpos, itemsPositions, Item.upos, Item.positions, List.mem_append] at h ⊢
    exact h.imp (Stmt.upos_sub s q) (itemsUpos_sub r q)
  | .decl k :: r, q, h => by
    simp only [itemsUpos, itemsPositions, Item.upos, Item.positions, List.mem_append] at h ⊢
    exact h.imp (Kids.upos_sub k q) (itemsUpos_sub r q)

theorem itemsReach_mem : ∀ (items : List Item) (q : Nat), itemsReach items q = true → q ∈ itemsPositions items
  | [], q, h => by simp [itemsReach] at h
  | .stmt s :: r, q, h => by
    simp only [itemsReach, Bool.or_eq_true, Bool.and_eq_true] at h
    simp only [itemsPositions, Item.positions, List.mem_append]
    rcases h with h | ⟨_, h⟩
    · exact Or.inl (s.reach_mem q h)
    · exact Or.inr (itemsReach_mem r q h)
  | .decl k :: r, q, h => by
    simp only [itemsReach, Bool.or_eq_true, Bool.and_eq_true] at h
    simp only [itemsPositions, Item.positions, List.mem_append]
    exact h.imp (k.flowReach_mem q) (fun h => itemsReach_mem r q h.2)

theorem itemsInner_mem : ∀ (items : List Item) (q : Nat), itemsInner items q = true → q ∈ itemsPositions items
  | [], q, h => by simp [itemsInner] at h
  | .stmt s :: r, q, h => by
    simp only [itemsInner, Bool.or_eq_true] at h
    simp only [itemsPositions, Item.positions, List.mem_append]
    exact h.imp (s.inner_mem q) (itemsInner_mem r q)
  | .decl k :: r, q, h => by
    simp only [itemsInner, Bool.or_eq_true] at h
    simp only [itemsPositions, Item.positions, List.mem_append]
    exact h.imp (k.inner_mem q) (itemsInner_mem r q)

theorem itemsReach_false (items : List Item) (q : Nat) (h : q ∉ itemsPositions items) : itemsReach items q = false := by
  cases hr : itemsReach items q with
  | false => rfl
  | true => exact absurd (itemsReach_mem items q hr) h

theorem itemsInner_false (items : List Item) (q : Nat) (h : q ∉ itemsPositions items) : itemsInner items q = false := by
  cases hr : itemsInner items q with
  | false => rfl
  | true => exact absurd (itemsInner_mem items q hr) h

/-- a top-level statement: in a module `visit_stmt`, in a script `visit_stmt_or_block` -/
theorem visitItem_stmt_ok (m : Bool) (live : Bool) (s : Stmt) (a : A) (hf : s.inF = true) (h : Pre live s.positions a) :
    PostS live [] s a (visitItem m (.stmt s) a) := by
  cases m with
  | true => exact visitStmt_ok s [] live a hf h
  | false => exact sob_ok live [] s a _ (visitStmt_ok s [] live a hf h)

theorem visitItems_ok (m : Bool) : ∀ (items : List Item) (live : Bool) (a : A), itemsInF items = true →
    Pre live (itemsPositions items) a →
    PostL live (itemsUpos items) (itemsPositions items) (itemsCompl items) (itemsReach items) (itemsInner items) a
      (visitItems m items a)
  | [], live, a, _, h => PostL.nil live a h
  | .stmt s :: r, live, a, hf, h => by
    have hf' : s.inF = true ∧ itemsInF r = true := by simpa [itemsInF, Item.inF] using hf
    simp only [itemsPositions, Item.positions] at h
    have hnd' := List.nodup_append.mp h.nodup
    have hdisj : ∀ p, p ∈ s.positions → p ∈ itemsPositions r → False := fun p h1 h2 => hnd'.2.2 p h1 p h2 rfl
    have h1 := visitItem_stmt_ok m live s a hf'.1 (h.sub (fun p hp => List.mem_append.mpr (Or.inl hp)) hnd'.1)
    have hpre2 : Pre (live && (s.compl []).n) (itemsPositions r) (visitItem m (.stmt s) a) := by
      refine ⟨h1.p1, ?_, hnd'.2.1⟩
      intro p hp
      rw [endAt_eq_of_info_eq (h1.frame p (fun hps => hdisj p hps hp))]
      exact h.fresh p (List.mem_append.mpr (Or.inr hp))
    have h2 := visitItems_ok m r _ _ hf'.2 hpre2
    have := seq_ok live s.upos (itemsUpos r) s.positions (itemsPositions r) (s.compl []) (itemsCompl r) s.reach (itemsReach r)
      s.inner (itemsInner r) a _ _ h1.toPostL h2 hdisj (Stmt.upos_sub s) (itemsUpos_sub r)
      (fun p hp => s.reach_false p hp) (itemsReach_false r) (fun p hp => s.inner_false p hp) (itemsInner_false r)
    simp only [visitItems, itemsUpos, itemsPositions, Item.upos, Item.positions, itemsCompl]
    refine ⟨this.p1, this.p2, this.p2c, this.monoB, this.monoC, this.p2l, ?_, ?_, this.frame, this.monoT, this.pT⟩
    · intro p hp hu; simpa [itemsReach] using this.p3 p hp hu
    · intro p hp hu; simpa [itemsInner] using this.p3i p hp hu
  | .decl k :: r, live, a, hf, h => by
    have hf' : k.okF = true ∧ itemsInF r = true := by simpa [itemsInF, Item.inF] using hf
    simp only [itemsPositions, Item.positions] at h
    have := seqL live _ _ _ _ _ _ _ _ _ _ a _ _ h (visitKids_okL k live a hf'.1 h.left)
      (fun h2 => visitItems_ok m r _ _ hf'.2 h2) (Kids.upos_sub k) (itemsUpos_sub r)
      (Kids.flowReach_false k) (itemsReach_false r) (Kids.inner_false k) (itemsInner_false r)
    simp only [visitItems, itemsUpos, itemsPositions, Item.upos, Item.positions, itemsCompl]
    refine ⟨this.p1, this.p2, this.p2c, this.monoB, this.monoC, this.p2l, ?_, ?_, this.frame, this.monoT, this.pT⟩
    · intro p hp hu; simpa [itemsReach] using this.p3 p hp hu
    · intro p hp hu; simpa [itemsInner] using this.p3i p hp hu

theorem flagged_items (info : Info) : ∀ (items : List Item), FlagSub info (items.flatMap fun
    | .stmt s => s.flagged info
    | .decl kids => kids.flagged info) (itemsUpos items)
  | [] => by simp [FlagSub]
  | .stmt s :: r => by
    simp only [List.flatMap_cons, itemsUpos, Item.upos]
    exact (Stmt.flagged_sub info s).append (flagged_items info r)
  | .decl k :: r => by
    simp only [List.flatMap_cons, itemsUpos, Item.upos]
    exact (Kids.flagged_sub info k).append (flagged_items info r)

/-- **soundness of `no-unreachable` on the fragment, whole programs**: for a module or script whose statements and module
declarations are in the fragment, with pairwise distinct positions, no flagged statement is reachable — neither from the
start of the program nor from the entry of any function in it -/
theorem program_flagged_unreachable (prog : Program) (hf : itemsInF prog.items = true)
    (hnd : (itemsPositions prog.items).Nodup) (p : Nat) (hp : p ∈ prog.flagged (analyze prog)) :
    prog.reachable p = false := by
  rw [analyze_items] at hp
  have hpre : Pre true (itemsPositions prog.items) { sc := {}, info := Info.empty } :=
    ⟨fun h => by simp at h, fun _ _ => rfl, hnd⟩
  have hpost := visitItems_ok prog.isModule prog.items true _ hf hpre
  obtain ⟨hmem, hur⟩ := flagged_items _ prog.items p hp
  have h1 := hpost.p3 p hmem hur
  have h2 := hpost.p3i p hmem hur
  unfold Program.reachable
  rw [h2]; simpa using h1

end DL.CF
