import DL.Lemmas.RxBPrim
import DL.Lemmas.RxSpecTac

/-! # Annex B (no `u` flag): the stepping tactic (the one for `UAt`, renamed: `rx4_*` ↦ `rx6_*`, `UAt` ↦ `BAt`,
specifications `<fn>_wp` ↦ `<fn>_wb`) -/
namespace DL.Rx

open Lean Elab Tactic Meta in
/-- find the `BAt` fact of the current state: a hypothesis about a state with the same reader and mode fields -/
elab "rx6_at" : tactic => do
  let g ← getMainGoal
  g.withContext do
    let decls := (← getLCtx).decls.toList.reverse.filterMap id
    for decl in decls do
      if decl.isImplementationDetail then continue
      let ty ← instantiateMVars decl.type
      unless ty.isAppOfArity ``DL.Rx.BAt 4 do continue
      let h ← Term.exprToSyntax (mkFVar decl.fvarId)
      let saved ← saveState
      try
        evalTactic (← `(tactic| first | with_reducible exact $h | exact BAt.of_eq $h rfl rfl rfl rfl rfl))
        return
      catch _ => restoreState saved
    throwError "rx6_at: no BAt hypothesis fits"

open Lean Elab Tactic Meta in
/-- succeeds iff the computation of the `Wp` goal is `if … then … else …` (`bind = false`) or
`(if … then … else …) >>= g` (`bind = true`) — a syntactic test -/
def headIsIteB (bind : Bool) : TacticM Unit := do
  let g ← getMainGoal
  let t ← instantiateMVars (← g.getType)
  unless t.isAppOfArity ``DL.Rx.Wp 3 do throwError "not a Wp goal"
  let comp := t.getAppArgs[1]!.appFn!
  if bind then
    unless comp.isAppOfArity ``Bind.bind 6 do throwError "not a bind"
    unless (comp.getAppArgs[4]!).isAppOfArity ``ite 5 do throwError "not an ite"
  else
    unless comp.isAppOfArity ``ite 5 do throwError "not an ite"

elab "rx6_is_ite" : tactic => headIsIteB false
elab "rx6_is_bind_ite" : tactic => headIsIteB true

open Lean Elab Tactic Meta in
/-- all `BAt` hypotheses, newest first, each as itself and transported across record updates -/
def uatCandidatesB : TacticM (Array (TSyntax `term)) := do
  let g ← getMainGoal
  g.withContext do
    let decls := (← getLCtx).decls.toList.reverse.filterMap id
    let mut out : Array (TSyntax `term) := #[]
    for decl in decls do
      if decl.isImplementationDetail then continue
      let ty ← instantiateMVars decl.type
      unless ty.isAppOfArity ``DL.Rx.BAt 4 do continue
      let h ← Term.exprToSyntax (mkFVar decl.fvarId)
      out := out.push h
    return out

open Lean Elab Tactic Meta in
/-- candidates for "the `BAt` fact of the current state": hypotheses about exactly the state term of the `Wp` goal,
and hypotheses about states that differ from it by record updates outside the reader and the mode fields (transported
with `BAt.of_eq`, elaborated at default transparency) -/
def uatHereB : TacticM (Array (TSyntax `term)) := do
  let g ← getMainGoal
  g.withContext do
    let t ← instantiateMVars (← g.getType)
    unless t.isAppOfArity ``DL.Rx.Wp 3 do return #[]
    let st := t.getAppArgs[1]!.appArg!
    let stx ← Term.exprToSyntax st
    let decls := (← getLCtx).decls.toList.reverse.filterMap id
    let mut out : Array (TSyntax `term) := #[]
    for decl in decls do
      if decl.isImplementationDetail then continue
      let ty ← instantiateMVars decl.type
      unless ty.isAppOfArity ``DL.Rx.BAt 4 do continue
      let h ← Term.exprToSyntax (mkFVar decl.fvarId)
      if ty.getAppArgs[3]! == st then
        out := out.push h
      else
        let saved ← saveState
        try
          let e ← Tactic.elabTerm (← `((BAt.of_eq $h rfl rfl rfl rfl rfl : BAt _ _ _ $stx))) none
          let e ← instantiateMVars e
          if e.hasExprMVar then restoreState saved
          else out := out.push (← Term.exprToSyntax e)
        catch _ => restoreState saved
    return out

open Lean Elab Tactic Meta in
/-- the reader primitives (`code_point_with_offset(0)`, `eat`, `advance`, `rewind`) at the head of the computation -/
elab "rx6_prim" : tactic => do
  let here ← uatHereB
  let cands ← uatCandidatesB
  for h in here do
    let saved ← saveState
    try
      evalTactic (← `(tactic| first
        | (with_reducible refine WpB.bind_cpo0 $h (fun hr => ?nil) (fun _ _ hr => ?cons);
           (case' nil => first | subst hr | cases hr); (case' cons => first | subst hr | cases hr))
        | (with_reducible refine WpB.bind_eat $h (fun _ hr _ => ?t) (fun _ => ?f); (case' t => first | subst hr | cases hr))
        | (with_reducible refine WpB.bind_eat2 $h (fun _ hr _ => ?t) (fun _ => ?f); (case' t => first | subst hr | cases hr))
        | (with_reducible refine WpB.bind_eat3 $h (fun _ hr _ => ?t) (fun _ => ?f); (case' t => first | subst hr | cases hr))
        | with_reducible refine WpB.bind_advance_cons $h (fun _ => ?_)
        | with_reducible refine WpB.bind_advance_nil $h ?_
        | with_reducible refine WpB.bind_cpo $h (by decide) ?_))
      return
    catch _ => restoreState saved
  for h in here do
    for h0 in cands do
      let saved ← saveState
      try
        evalTactic (← `(tactic| with_reducible refine WpB.bind_rewind $h $h0 (fun _ => ?_)))
        return
      catch _ => restoreState saved
  for h in here do
    let saved ← saveState
    try
      evalTactic (← `(tactic| with_reducible refine WpB.bind_rewind' $h ?hle (fun _ => ?_)))
      evalTactic (← `(tactic| case hle => first | assumption | omega))
      return
    catch _ => restoreState saved
  throwError "rx6_prim: no reader primitive applies"

open Lean Elab Tactic Meta in
/-- split the conjunctions and existentials among the anonymous hypotheses (postconditions of calls) -/
elab "rx6_destruct" : tactic => do
  let mut fuel := 40
  let mut progress := true
  while progress && fuel > 0 do
    progress := false
    fuel := fuel - 1
    let g ← getMainGoal
    let found ← g.withContext do
      for decl in (← getLCtx) do
        if decl.isImplementationDetail then continue
        unless decl.userName.hasMacroScopes do continue
        let ty ← whnfR (← instantiateMVars decl.type)
        if ty.isAppOfArity ``And 2 || ty.isAppOfArity ``Exists 2 then
          return some decl.fvarId
      return none
    if let some fv := found then
      try
        liftMetaTactic fun g => do
          let r ← g.cases fv
          return r.toList.map (·.mvarId)
        progress := true
      catch _ => progress := false

open Lean Elab Tactic Meta in
/-- substitute the equations `s1 = <explicit state>` that explicit postconditions provide -/
elab "rx6_subst" : tactic => do
  let mut again := true
  let mut fuel2 := 10
  while again && fuel2 > 0 do
    again := false
    fuel2 := fuel2 - 1
    let g ← getMainGoal
    let found ← g.withContext do
      for decl in (← getLCtx) do
        if decl.isImplementationDetail then continue
        unless decl.userName.hasMacroScopes do continue
        let ty ← instantiateMVars decl.type
        if let some (α, lhs, _) := ty.eq? then
          if α.isConstOf ``DL.Rx.St && lhs.isFVar then
            return some decl.fvarId
      return none
    if let some fv := found then
      try
        liftMetaTactic fun g => do
          let g' ← subst g fv
          return [g']
        again := true
      catch _ => again := false


open Lean Elab Tactic Meta in
/-- `f args >>= g` for an `f` with a specification `DL.Rx.S.f`: hypotheses of the specification are looked up with
`rx6_at`; the postcondition becomes a hypothesis -/
elab "rx6_known" : tactic => do
  let g ← getMainGoal
  g.withContext do
    let t ← instantiateMVars (← g.getType)
    unless t.isAppOfArity ``DL.Rx.Wp 3 do throwError "rx6_known: not a Wp goal"
    let res := t.getAppArgs[1]!
    -- res = (m >>= g) s
    let comp := res.appFn!
    unless comp.isAppOfArity ``Bind.bind 6 do throwError "rx6_known: not a bind"
    let m := comp.getAppArgs[4]!
    let .const n _ := m.getAppFn | throwError "rx6_known: no head constant"
    let mut fn : Option (TSyntax `term × Expr) := none
    for decl in (← getLCtx) do
      if decl.isImplementationDetail then continue
      let ty ← instantiateMVars decl.type
      let hit ← withNewMCtxDepth do
        let (_, _, concl) ← forallMetaTelescope ty
        if concl.isAppOfArity ``DL.Rx.Wp 3 then
          match concl.getAppArgs[1]!.appFn!.getAppFn with
          | .const n' _ => pure (n' == n)
          | _ => pure false
        else pure false
      if hit then
        fn := some (← Term.exprToSyntax (mkFVar decl.fvarId), ty)
        break
    if fn.isNone then
      let .str _ last := n | throwError "rx6_known: anonymous"
      let lem := Name.str `DL.Rx (last ++ "_wb")
      let some ci := (← getEnv).find? lem | throwError "rx6_known: no lemma {lem}"
      fn := some (mkIdent lem, ci.type)
    let some (f, ty) := fn | throwError "rx6_known: unreachable"
    -- kinds of the explicit arguments: 0 = data, 1 = a `BAt` hypothesis, 2 = another hypothesis
    let kinds ← forallTelescope ty fun xs _ => do
      let mut ks : Array Nat := #[]
      for x in xs do
        let d ← x.fvarId!.getDecl
        if d.binderInfo.isExplicit then
          if d.type.isAppOfArity ``DL.Rx.BAt 4 then ks := ks.push 1
          else if ← isProp d.type then ks := ks.push 2
          else ks := ks.push 0
      return ks
    let cands ← uatHereB
    let hole ← `(_)
    let cands := if kinds.contains 1 then cands else #[hole]
    for h in cands do
      let saved ← saveState
      try
        let mut args : Array (TSyntax `term) := #[]
        let mut props := 0
        for k in kinds do
          if k == 0 then args := args.push (← `(_))
          else if k == 1 then args := args.push h
          else
            args := args.push (← `(?_))
            props := props + 1
        evalTactic (← `(tactic| refine Wp.call ($f $args*) (fun _ _ hpost => ?_)))
        let gs ← getGoals
        let side := gs.take props
        let rest := gs.drop props
        for sg in side do
          setGoals [sg]
          evalTactic (← `(tactic| first | with_reducible assumption | omega | rfl))
        setGoals rest
        evalTactic (← `(tactic| rx6_destruct))
        return
      catch _ => restoreState saved
    throwError "rx6_known: the specification of {n} does not apply"

open Lean Elab Tactic Meta in
/-- the facts `h.uFlag' …` of all `BAt` hypotheses, `hk.gn …` of all `Keep` hypotheses, as simp arguments -/
def factTermsB : TacticM (Array (TSyntax `term)) := do
  let g ← getMainGoal
  g.withContext do
    let mut out : Array (TSyntax `term) := #[]
    for decl in (← getLCtx) do
      if decl.isImplementationDetail then continue
      let ty ← instantiateMVars decl.type
      let h ← Term.exprToSyntax (mkFVar decl.fvarId)
      if ty.isAppOfArity ``DL.Rx.BAt 4 then
        out := out.push (← `(BAt.uFlag' $h))
        out := out.push (← `(BAt.strict' $h))
        out := out.push (← `(BAt.nFlag' $h))
        out := out.push (← `(BAt.ncp $h))
      if ty.isAppOfArity ``DL.Rx.Keep 2 then
        out := out.push (← `(Keep.gn $h))
        out := out.push (← `(Keep.bn $h))
        out := out.push (← `(Keep.str $h))
      if ty.isAppOfArity ``DL.Rx.KeepN 2 then
        out := out.push (← `(KeepN.gn $h))
        out := out.push (← `(KeepN.bn $h))
    return out

open Lean Elab Tactic Meta in
/-- decide the mode test (`u_flag`, `strict`, `n_flag`) that is the condition of the `if` at the head of the computation,
from the `BAt` facts; only the condition is simplified, the state terms are left alone -/
elab "rx6_modes" : tactic => do
  let facts ← factTermsB
  let g ← getMainGoal
  let cstx ← g.withContext do
    let t ← instantiateMVars (← g.getType)
    unless t.isAppOfArity ``DL.Rx.Wp 3 do throwError "not a Wp goal"
    let comp := t.getAppArgs[1]!.appFn!
    let ite := if comp.isAppOfArity ``Bind.bind 6 then comp.getAppArgs[4]! else comp
    unless ite.isAppOfArity ``ite 5 do throwError "not an ite"
    Term.exprToSyntax ite.getAppArgs[1]!
  evalTactic (← `(tactic| first
    | (have hcond : $cstx := by
         first
         | rfl
         | decide
         | ((try dsimp only [st_simp])
            simp only [$[$facts:term],*, Bool.or_true, Bool.true_or, Bool.or_self, Bool.and_self,
              Bool.not_true, Bool.not_false, Bool.and_true, Bool.true_and, Bool.and_false, Bool.false_and,
              Bool.false_or, Bool.or_false, Bool.false_eq_true])
       rw [if_pos hcond]; clear hcond)
    | (have hcond : ¬ $cstx := by
         first
         | decide
         | ((try dsimp only [st_simp])
            simp only [$[$facts:term],*, Bool.or_true, Bool.true_or, Bool.or_self, Bool.and_self,
              Bool.not_true, Bool.not_false, Bool.and_true, Bool.true_and, Bool.and_false, Bool.false_and,
              Bool.false_or, Bool.or_false, Bool.false_eq_true, not_false_eq_true])
       rw [if_neg hcond]; clear hcond)))

open Lean Elab Tactic Meta in
/-- `Keep s0 S` for a state `S` reached through explicit updates and calls with `Keep` postconditions -/
elab "rx6_keep" : tactic => do
  let facts ← factTermsB
  evalTactic (← `(tactic| first
    | exact ⟨rfl, rfl, rfl⟩
    | exact ⟨rfl, rfl⟩
    | with_reducible assumption
    | (refine ⟨?_, ?_, ?_⟩ <;> (simp only [st_simp, $[$facts:term],*]))
    | (refine ⟨?_, ?_⟩ <;> (simp only [st_simp, $[$facts:term],*]))))

/-- a leaf that answers `true`: leaves the part after `∃ r1, BAt … ∧` -/
macro "rx6_true" : tactic => `(tactic| (refine ⟨?k, ?u⟩; (case k => rx6_keep); (case' u => rw [if_pos rfl])))

/-- a leaf that answers `false` without having moved -/
macro "rx6_false" : tactic => `(tactic| (refine ⟨?k, ?u⟩; (case k => rx6_keep); (case u => (rw [if_neg (by decide)]; rx6_at))))

macro "rx6_prune_pos" : tactic => `(tactic|
  first | contradiction | (exact absurd ‹_› (by decide)) | skip)

/-- after a Boolean result has become known: reduce the `if b = true` of the postconditions in the context -/
macro "rx6_iteh" : tactic => `(tactic|
  try simp only [eq_self, Bool.false_eq_true, if_true, if_false, ite_true, ite_false] at *)

macro "rx6_step" : tactic => `(tactic| (show Wp _ _; first
  | (rx6_is_ite; rx6_modes)
  | (rx6_is_bind_ite; rx6_modes)
  | (rx6_is_ite; refine Wp.ite (fun hc => ?pos) (fun hn => ?neg);
     (case' pos => first | contradiction | (exact absurd hc (by decide)) | (subst hc; rx6_iteh; rx6_destruct)
                         | (simp only [Bool.not_eq_true'] at hc; subst hc; rx6_iteh; rx6_destruct) | skip);
     (case' neg => first | contradiction | (exact absurd (by decide) hn)
                         | (simp only [Bool.not_eq_true, Bool.not_eq_true', Bool.not_eq_false] at hn; subst hn; rx6_iteh; rx6_destruct) | skip))
  | (rx6_is_bind_ite; refine Wp.bind_ite (fun hc => ?pos) (fun hn => ?neg);
     (case' pos => first | contradiction | (exact absurd hc (by decide)) | (subst hc; rx6_iteh; rx6_destruct)
                         | (simp only [Bool.not_eq_true'] at hc; subst hc; rx6_iteh; rx6_destruct) | skip);
     (case' neg => first | contradiction | (exact absurd (by decide) hn)
                         | (simp only [Bool.not_eq_true, Bool.not_eq_true', Bool.not_eq_false] at hn; subst hn; rx6_iteh; rx6_destruct) | skip))
  | with_reducible refine Wp.bind_pure ?_
  | with_reducible refine Wp.bind_assoc ?_
  | with_reducible refine Wp.bind_orM ?_
  | with_reducible refine Wp.bind_andM ?_
  | with_reducible refine Wp.bind_getSt ?_
  | with_reducible refine Wp.bind_index ?_
  | with_reducible exact Wp.bind_fail
  | with_reducible exact Wp.bind_outOfFuel
  | with_reducible exact Wp.bind_rustPanic
  | with_reducible exact Wp.outOfFuel
  | with_reducible refine Wp.bind_unwrap (fun _ _ => ?_)
  | with_reducible refine Wp.bind_setInt ?_
  | with_reducible refine Wp.bind_setStr ?_
  | with_reducible refine Wp.bind_modSt ?_
  | rx6_prim
  | rx6_known
  | (with_reducible refine Wp.pure ?_)
  | dsimp only
  | split
  | ((fail_if_success (with_reducible refine Wp.bind ?_));
     (fail_if_success (with_reducible refine Wp.pure ?_)); with_reducible refine Wp.tail ?_)))

macro "rx6_auto" : tactic => `(tactic| repeat' rx6_step)
/-- like `rx6_auto`, substituting explicit state equations as they appear -/
macro "rx6_autos" : tactic => `(tactic| repeat' (rx6_step <;> rx6_subst))


/-- a leaf that answers `false` without having moved; leaves the negative fact about the input -/
macro "rx6_falsen" : tactic => `(tactic| (refine ⟨?k, ?u⟩; (case k => rx6_keep); (case' u => rw [if_neg (by decide)]); refine ⟨by rx6_at, ?_⟩))

end DL.Rx
