import DL.Lemmas.RxBCompTac
import DL.Lemmas.RxBScanG
import DL.Lemmas.RxCompQuant

/-! # Annex B (no `u` flag), completeness: the scanners that do not depend on the mode (copies of the `UAt` proofs) -/
namespace DL.Rx
open DL.RxSpec

attribute [local irreducible] isScalar
variable {src : List Nat} {K : Bool × Nat}

theorem eatControlEscape_wd (x : Nat) (r1 : List Nat) (v : Nat) (s : St) (h : BAt src K (x :: r1) s)
    (hx : ctlVal x = some v) :
    Wc (eatControlEscape s) (fun b s1 => b = true ∧ BAt src K r1 s1 ∧ s1.lastIntValue = (v : Nat) ∧ Keep s s1) := by
  unfold eatControlEscape
  rx7_auto
  case f =>
    rename_i h1 h2 h3 h4 h5
    rw [ctlVal_none (ne_of_head_ne h1) (ne_of_head_ne h2) (ne_of_head_ne h3) (ne_of_head_ne h4) (ne_of_head_ne h5)] at hx
    cases hx
  all_goals rx7_fin
  all_goals (cases hx; rfl)

theorem eatControlEscape_wdn (r : List Nat) (s : St) (h : BAt src K r s) (hn : r.head?.bind ctlVal = none) :
    Wc (eatControlEscape s) (fun b s1 => b = false ∧ s1 = s) := by
  unfold eatControlEscape
  rx7_auto
  all_goals (first | (cases hn; done) | exact ⟨rfl, rfl⟩)

theorem eatControlLetter_wd (l : Nat) (r1 : List Nat) (s : St) (h : BAt src K (l :: r1) s) (hl : ControlLetter l) :
    Wc (eatControlLetter s) (fun b s1 => b = true ∧ BAt src K r1 s1 ∧ s1.lastIntValue = ((l % 32 : Nat) : Int) ∧ Keep s s1) := by
  unfold eatControlLetter
  rx7_auto
  case neg => rename_i hn; exact absurd (isAsciiAlphabetic_of_controlLetter hl) hn
  rx7_fin

theorem eatCControlLetter_wd (l : Nat) (r1 : List Nat) (s : St) (h : BAt src K (ch 'c' :: l :: r1) s)
    (hl : ControlLetter l) :
    Wc (eatCControlLetter s) (fun b s1 => b = true ∧ BAt src K r1 s1 ∧ s1.lastIntValue = ((l % 32 : Nat) : Int) ∧ Keep s s1) := by
  unfold eatCControlLetter
  rx7_auto
  rx7_fin

theorem eatCControlLetter_wdn (r : List Nat) (s : St) (h : BAt src K r s) (hn : r.head? ≠ some (ch 'c')) :
    Wc (eatCControlLetter s) (fun b s1 => b = false ∧ s1 = s) := by
  unfold eatCControlLetter
  rx7_auto
  all_goals first | exact absurd rfl hn | exact ⟨rfl, rfl⟩

theorem eatZero_wd (r1 : List Nat) (s : St) (h : BAt src K (ch '0' :: r1) s)
    (hnd : ∀ d, r1.head? = some d → ¬DecimalDigit d) :
    Wc (eatZero s) (fun b s1 => b = true ∧ BAt src K r1 s1 ∧ s1.lastIntValue = 0 ∧ Keep s s1) := by
  unfold eatZero
  rx7_auto
  case pos =>
    rename_i hc
    exfalso
    cases r1 with
    | nil => cases hc
    | cons y r2 => exact hnd y rfl (isAsciiDigit_decimalDigit hc)
  rx7_fin

theorem eatZero_wdn (r : List Nat) (s : St) (h : BAt src K r s) (hn : r.head? ≠ some (ch '0')) :
    Wc (eatZero s) (fun b s1 => b = false ∧ s1 = s) := by
  unfold eatZero
  rx7_auto
  all_goals (try exact ⟨rfl, rfl⟩)
  rename_i x r' hx _ _
  exfalso; apply hn
  have : x = ch '0' := by simpa using hx
  rw [this]; rfl

theorem eatFixedHexDigits_wd (k : Nat) (hk : k ≤ 15) (ds r1 : List Nat) (s : St) (h : BAt src K (ds ++ r1) s)
    (hlen : ds.length = k) (hds : ∀ d ∈ ds, HexDigit d) :
    Wc (eatFixedHexDigits k s) (fun b s1 => b = true ∧ BAt src K r1 s1 ∧ s1.lastIntValue = (mvHex ds : Nat) ∧ Keep s s1) := by
  refine (Wc.of_wp (eatFixedHexDigits_wb k hk _ s h) (NE.eatFixedHexDigits k)).mono ?_
  rintro b s1 ⟨hk1, hb⟩
  cases b
  · rw [if_neg (by decide)] at hb
    exact absurd ⟨ds, r1, rfl, hlen, hds⟩ hb.2
  · rw [if_pos rfl] at hb
    obtain ⟨ds', r1', he, hl', _, hat, hv⟩ := hb
    obtain ⟨h1, h2⟩ := List.append_inj he (by omega)
    subst h1 h2
    exact ⟨rfl, hat, hv, hk1⟩

theorem eatFixedHexDigits_wdn (k : Nat) (hk : k ≤ 15) (r : List Nat) (s : St) (h : BAt src K r s)
    (hn : ¬∃ ds r1, r = ds ++ r1 ∧ ds.length = k ∧ ∀ d ∈ ds, HexDigit d) :
    Wc (eatFixedHexDigits k s) (fun b s1 => b = false ∧ BAt src K r s1 ∧ Keep s s1) := by
  refine (Wc.of_wp (eatFixedHexDigits_wb k hk _ s h) (NE.eatFixedHexDigits k)).mono ?_
  rintro b s1 ⟨hk1, hb⟩
  cases b
  · rw [if_neg (by decide)] at hb
    exact ⟨rfl, hb.1, hk1⟩
  · rw [if_pos rfl] at hb
    obtain ⟨ds', r1', he, hl', hd', _⟩ := hb
    exact absurd ⟨ds', r1', he, hl', hd'⟩ hn

theorem eatRegexpUnicodeSurrogatePairEscape_wd (r r1 : List Nat) (l t : Nat) (s : St) (h : BAt src K r s)
    (hp : PairText r r1 l t) :
    Wc (eatRegexpUnicodeSurrogatePairEscape s) (fun b s1 => b = true ∧ BAt src K r1 s1 ∧
      s1.lastIntValue = (((l - 0xD800) * 0x400 + (t - 0xDC00) + 0x10000 : Nat) : Int) ∧ Keep s s1) := by
  refine (Wc.of_wp (eatRegexpUnicodeSurrogatePairEscape_wb r s h) NE.eatRegexpUnicodeSurrogatePairEscape).mono ?_
  rintro b s1 ⟨hk1, hb⟩
  cases b
  · rw [if_neg (by decide)] at hb
    exact absurd ⟨r1, l, t, hp⟩ hb.2
  · rw [if_pos rfl] at hb
    obtain ⟨r1', l', t', hp', hat, hv⟩ := hb
    obtain ⟨e1, e2, e3⟩ := pairText_unique hp hp'
    subst e1 e2 e3
    exact ⟨rfl, hat, hv, hk1⟩

theorem eatRegexpUnicodeSurrogatePairEscape_wdn (r : List Nat) (s : St) (h : BAt src K r s)
    (hn : ¬∃ r1 l t, PairText r r1 l t) :
    Wc (eatRegexpUnicodeSurrogatePairEscape s) (fun b s1 => b = false ∧ BAt src K r s1 ∧ Keep s s1) := by
  refine (Wc.of_wp (eatRegexpUnicodeSurrogatePairEscape_wb r s h) NE.eatRegexpUnicodeSurrogatePairEscape).mono ?_
  rintro b s1 ⟨hk1, hb⟩
  cases b
  · rw [if_neg (by decide)] at hb
    exact ⟨rfl, hb.1, hk1⟩
  · rw [if_pos rfl] at hb
    obtain ⟨r1', l', t', hp', _⟩ := hb
    exact absurd ⟨r1', l', t', hp'⟩ hn

theorem eatHexDigits_wd (n : Nat) (ds r1 : List Nat) (s : St) (h : BAt src K (ds ++ r1) s)
    (hne : ds ≠ []) (hds : ∀ d ∈ ds, HexDigit d) (hstop : ∀ d, r1.head? = some d → ¬HexDigit d) :
    Wc (eatHexDigits n s) (fun b s1 => b = true ∧ BAt src K r1 s1 ∧
      s1.lastIntValue = satI (mvHex ds) ∧ Keep s s1) := by
  refine (Wc.of_wp (eatHexDigits_wb n _ s h) (NE.eatHexDigits n)).mono ?_
  rintro b s1 ⟨hk1, ds', r1', he, hds', hstop', hat, hv, hb⟩
  obtain ⟨e1, e2⟩ := run_unique he hds hds' hstop hstop'
  subst e1 e2
  exact ⟨hb.mpr hne, hat, hv, hk1⟩

theorem eatRegexpUnicodeCodepointEscape_wd (n : Nat) (ds r1 : List Nat) (s : St)
    (h : BAt src K (ch '{' :: (ds ++ ch '}' :: r1)) s) (hne : ds ≠ []) (hds : ∀ d ∈ ds, HexDigit d)
    (hle : mvHex ds ≤ 0x10FFFF) :
    Wc (eatRegexpUnicodeCodepointEscape n s) (fun b s1 => b = true ∧ BAt src K r1 s1 ∧
      s1.lastIntValue = (mvHex ds : Nat) ∧ Keep s s1) := by
  have hhx := fun s h => eatHexDigits_wd (src := src) (K := K) n ds (ch '}' :: r1) s h hne hds
    (by intro d hd; cases hd; exact not_hexDigit_rbrace)
  unfold eatRegexpUnicodeCodepointEscape
  rx7_auto
  case neg =>
    rename_i hn _
    have hv := ‹_ = satI (mvHex ds)›
    exfalso; apply hn
    st_norm
    rw [hv, satI_small hle]
    exact decide_eq_true (by omega)
  have hv := ‹_ = satI (mvHex ds)›
  rx7_fin
  st_norm
  rw [hv, satI_small hle]

theorem eatDecimalEscapeLoop_wd (n : Nat) (ds r1 : List Nat) (s : St) (h : BAt src K (ds ++ r1) s)
    (hds : ∀ d ∈ ds, DecimalDigit d) (hstop : ∀ d, r1.head? = some d → ¬DecimalDigit d) :
    Wc (eatDecimalEscapeLoop n s) (fun _ s1 => BAt src K r1 s1 ∧
      s1 = (s.setPos src (s.reader.index + ds.length)).withInt (accDec s.lastIntValue ds)) := by
  refine (Wc.of_wp (eatDecimalEscapeLoop_wb n _ s h) (NE.eatDecimalEscapeLoop n)).mono ?_
  rintro _ s1 ⟨ds', r1', he, hds', hstop', hat, hs1⟩
  obtain ⟨e1, e2⟩ := run_unique he hds hds' hstop hstop'
  subst e1 e2
  exact ⟨hat, hs1⟩

theorem eatDecimalEscape_wd (n : Nat) (r r1 : List Nat) (v : Nat) (s : St) (h : BAt src K r s)
    (hD : DecimalEscape r r1 v) :
    Wc (eatDecimalEscape n s) (fun b s1 => b = true ∧ BAt src K r1 s1 ∧ s1.lastIntValue = satI v ∧ Keep s s1) := by
  obtain ⟨ds, hr, ⟨d, ds', hds, hnz⟩, hall, hstop, hv⟩ := hD
  subst hds hr hv
  have hloop := fun s h => eatDecimalEscapeLoop_wd (src := src) (K := K) n ds' r1 s h
    (fun x hx => hall x (by simp [hx])) hstop
  have hdd : DecimalDigit d := hall d (by simp)
  have hx := isAsciiDigit_of_decimalDigit hdd
  unfold eatDecimalEscape
  rx7_auto
  case neg => rename_i hn; exact absurd (nonZero_isAsciiDigit hnz) hn
  rename_i hc d' hd
  rw [toDigit10_eq hx] at hd
  cases hd
  have hle := decVal_le hdd
  refine Wc.bind_checkedI64 (by
    show i64Min ≤ 10 * (0 : Int) + (decVal d : Int) ∧ 10 * (0 : Int) + (decVal d : Int) ≤ i64Max
    unfold i64Min i64Max; omega) ?_
  rx7_auto
  rename_i s1 hat hs1
  subst hs1
  refine ⟨rfl, hat, ?_, ⟨rfl, rfl, rfl⟩⟩
  st_norm
  show accDec (10 * (0 : Int) + (decVal d : Int)) ds' = satI (mvDec (d :: ds'))
  have : (10 * (0 : Int) + (decVal d : Int)) = satI (decVal d) := by
    unfold satI i64Max; rw [if_pos (by omega)]; omega
  rw [this, accDec_satI]
  show satI _ = satI (List.foldl _ (10 * 0 + decVal d) ds')
  rw [Nat.mul_zero, Nat.zero_add]

theorem eatDecimalEscape_wdn (n : Nat) (r : List Nat) (s : St) (h : BAt src K r s)
    (hn : ∀ d, r.head? = some d → ¬NonZeroDigit d) :
    Wc (eatDecimalEscape n s) (fun b s1 => b = false ∧ s1 = s.withInt 0) := by
  unfold eatDecimalEscape
  rx7_auto
  all_goals (try exact ⟨rfl, rfl⟩)
  rename_i x r' hc _ _
  exfalso
  have hx : isAsciiDigit x = true := (Bool.and_eq_true _ _ |>.mp hc).1
  have hx0 : x ≠ ch '0' := by
    have := (Bool.and_eq_true _ _ |>.mp hc).2
    simpa using this
  have h' : 0x30 ≤ x ∧ x ≤ 0x39 := decimalDigit_of_isAsciiDigit hx
  have : x ≠ 0x30 := hx0
  exact hn x rfl (by show 0x31 ≤ x ∧ x ≤ 0x39; omega)

theorem eatDecimalDigits_wd (n : Nat) (ds r1 : List Nat) (s : St) (h : BAt src K (ds ++ r1) s)
    (hds : ∀ d ∈ ds, DecimalDigit d) (hstop : ∀ d, r1.head? = some d → ¬DecimalDigit d) :
    Wc (eatDecimalDigits n s) (fun b s1 => (b = true ↔ ds ≠ []) ∧ BAt src K r1 s1 ∧
      s1 = (s.setPos src (s.reader.index + ds.length)).withInt (satI (mvDec ds))) := by
  refine (Wc.of_wp (eatDecimalDigits_wb n _ s h) (NE.eatDecimalDigits n)).mono ?_
  rintro b s1 ⟨ds', r1', he, hds', hstop', hat, hs1, hb⟩
  obtain ⟨e1, e2⟩ := run_unique he hds hds' hstop hstop'
  subst e1 e2
  exact ⟨hb, hat, hs1⟩

end DL.Rx
