import DL.Lemmas.CFOwn
import DL.Lemmas.CFSound8

namespace DL.CF

theorem ur_setUnreach_self (i : Info) (p : Nat) (u : Bool) : (i.setUnreach p u).ur p = u := by
  rw [ur_setUnreach, if_pos rfl]

/-- the flag `visit_stmt` records under the statement's position is what is found there afterwards -/
theorem Stmt.own_ur (s : Stmt) (a : A) (h : s.pos ∉ s.subUpos) :
    (visitStmt s a).info.ur s.pos = unreachableFlag a.sc s.tag := by
  cases s with
  | simple p t kids =>
    simp only [Stmt.subUpos, Stmt.pos] at h
    simp only [visitStmt, Stmt.pos, Stmt.tag]
    rw [Kids.ur_frame kids _ p h]; exact ur_setUnreach_self _ _ _
  | block p b =>
    simp only [Stmt.subUpos, Stmt.pos] at h
    simp only [visitStmt, Stmt.pos, Stmt.tag, blockTail_ur]
    rw [Stmts.ur_frame b _ p h]; exact ur_setUnreach_self _ _ _
  | ifS p t c al =>
    cases al with
    | none =>
      simp only [Stmt.subUpos, Stmt.pos, List.mem_append, not_or] at h
      simp only [visitStmt, Stmt.pos, Stmt.tag, setEnd_ur, markAsEnd_ur, withChild_ur, sobTail_ur]
      rw [Stmt.ur_frame c _ p h.2]; simp only
      rw [Kids.ur_frame t _ p h.1]; exact ur_setUnreach_self _ _ _
    | some al =>
      simp only [Stmt.subUpos, Stmt.pos, List.mem_append, not_or] at h
      simp only [visitStmt, Stmt.pos, Stmt.tag, ifJoin_ur, withChild_ur, sobTail_ur]
      rw [Stmt.ur_frame al _ p h.2.2]; simp only [withChild_ur, sobTail_ur]
      rw [Stmt.ur_frame c _ p h.2.1]; simp only
      rw [Kids.ur_frame t _ p h.1]; exact ur_setUnreach_self _ _ _
  | whileS p t tt b =>
    simp only [Stmt.subUpos, Stmt.pos, List.mem_append, not_or] at h
    simp only [visitStmt, Stmt.pos, Stmt.tag]
    rw [Kids.ur_frame t _ p h.1]; simp only [withChild_ur, whileTail_ur]
    rw [Stmt.ur_frame b _ p h.2]; exact ur_setUnreach_self _ _ _
  | doWhileS p b t tt =>
    simp only [Stmt.subUpos, Stmt.pos, List.mem_append, not_or] at h
    simp only [visitStmt, Stmt.pos, Stmt.tag]
    rw [Kids.ur_frame t _ p h.1]; simp only [doWhileAfter_ur, withChild_ur, doWhileTail_ur]
    rw [Stmt.ur_frame b _ p h.2]; exact ur_setUnreach_self _ _ _
  | forS p i u t ht tt b =>
    simp only [Stmt.subUpos, Stmt.pos, List.mem_append, not_or] at h
    simp only [visitStmt, Stmt.pos, Stmt.tag, withChild_ur, forTail_ur]
    rw [Stmt.ur_frame b _ p h.2]; simp only
    rw [Kids.ur_frame t _ p h.1.2.2, Kids.ur_frame u _ p h.1.2.1, Kids.ur_frame i _ p h.1.1]
    exact ur_setUnreach_self _ _ _
  | forInOf p l r b =>
    simp only [Stmt.subUpos, Stmt.pos, List.mem_append, not_or] at h
    simp only [visitStmt, Stmt.pos, Stmt.tag, withChild_ur, forInOfTail_ur]
    rw [Stmt.ur_frame b _ p h.2]; simp only
    rw [Kids.ur_frame r _ p h.1.2, Kids.ur_frame l _ p h.1.1]
    exact ur_setUnreach_self _ _ _
  | switchS p d cs =>
    simp only [Stmt.subUpos, Stmt.pos, List.mem_append, not_or] at h
    rw [visitStmt_switch]
    simp only [Stmt.pos, Stmt.tag]
    have : ∀ (e : End) (prev : Option End) (x : A), (switchFin p prev e x).info.ur p = x.info.ur p := by
      intro e prev x; unfold switchFin; split <;> simp
    rw [this, Cases.ur_frame cs _ p h.2, Kids.ur_frame d _ p h.1]
    exact flagA_ur_self a p .other
  | tryS p bp b hh cp ck hf fp f =>
    simp only [Stmt.subUpos, Stmt.pos, List.mem_append, not_or] at h
    rw [visitStmt_try']
    simp only [Stmt.pos, Stmt.tag]
    have h1 : ∀ x : A, (tryFinalizer hf fp f a.sc.end_ x).info.ur p = x.info.ur p := by
      intro x; unfold tryFinalizer
      cases hf
      · rfl
      · simp only [if_true, finallyJoin_info, withChild_ur, blockTail_ur]
        exact Stmts.ur_frame f _ p h.2.2
    have h2 : ∀ x : A, (tryHandler hh cp ck a.sc.end_ x).info.ur p = x.info.ur p := by
      intro x; unfold tryHandler
      cases hh
      · rfl
      · simp only [if_true, tryCatchJoin_info, withChild_ur]
        rw [Kids.ur_frame ck _ p h.2.1]
        split <;> rfl
    show (tryFin p _).info.ur p = _
    rw [tryFin_ur, h1, h2, blockTail_ur, Stmts.ur_frame b _ p h.1]
    exact ur_setUnreach_self _ _ _
  | labeled p l b =>
    simp only [Stmt.subUpos, Stmt.pos] at h
    simp only [visitStmt, Stmt.pos, Stmt.tag, withChild_ur, sobTail_ur]
    rw [Stmt.ur_frame b _ p h]; exact ur_setUnreach_self _ _ _
  | brk p l => simp only [visitStmt, Stmt.pos, Stmt.tag]; exact ur_setUnreach_self _ _ _
  | cont p l => simp only [visitStmt, Stmt.pos, Stmt.tag]; exact ur_setUnreach_self _ _ _
  | ret p arg =>
    simp only [Stmt.subUpos, Stmt.pos] at h
    simp only [visitStmt, Stmt.pos, Stmt.tag, markAsEnd_ur]
    rw [Kids.ur_frame arg _ p h]; exact ur_setUnreach_self _ _ _
  | throw p arg =>
    simp only [Stmt.subUpos, Stmt.pos] at h
    simp only [visitStmt, Stmt.pos, Stmt.tag, markAsEnd_ur, throwEffect_info]
    rw [Kids.ur_frame arg _ p h]; exact ur_setUnreach_self _ _ _

end DL.CF

namespace DL.CF

/-- the strongest reading of the invariant at the statement's own position: take "live" to mean "the scope has not
ended".  If the end recorded under the position of a statement (not an expression/declaration statement) stops although
the statement can complete normally, the scope had already ended when the statement was visited — and the statement is
marked `unreachable`. -/
theorem Stmt.own_stops (s : Stmt) (ls : List Id) (a : A) (hf : s.inF = true) (hpre : PreK s.positions a)
    (hde : s.isDeclOrExpr = false) (hst : stopsEnd ((visitStmt s a).info.endAt s.pos) = true) (hn : (s.compl ls).n = true) :
    (visitStmt s a).info.ur s.pos = true := by
  have hP : Pre (!stopsEnd a.sc.end_) s.positions a := ⟨fun h => by simp [h], hpre.fresh, hpre.nodup⟩
  have hpost := visitStmt_ok s ls _ a hf hP
  have h4 := hpost.p4 hde hst
  rw [hn] at h4
  have hstop : stopsEnd a.sc.end_ = true := by simpa using h4
  rw [Stmt.own_ur s a (s.pos_not_sub hpre.nodup)]
  cases s with
  | simple p t kids =>
    -- nothing is ever recorded under the position of such a statement
    exfalso
    rw [Stmt.isDeclOrExpr_simple] at hde
    have hpos := Stmt.positions_simple_nde p t kids hde
    have hnd := hpre.nodup; rw [hpos] at hnd
    have hp : p ∉ kids.positions := (List.nodup_cons.mp hnd).1
    simp only [visitStmt, Stmt.pos] at hst
    rw [endAt_eq_of_info_eq (Kids.info_frame kids _ p hp), endAt_setUnreach, hpre.fresh p (by rw [hpos]; simp)] at hst
    simp at hst
  | _ => simp [Stmt.tag, unreachableFlag, hstop]

end DL.CF
