import DL.Lemmas.CFClaims3

/-! The claims of the rule layers: loops. -/
namespace DL.CF

/-- the loop scope: the body is visited in a child scope, then the tail of the closure and the exit of the scope mark
the end of the loop under the body's key (and, for `for`, under `extra`) -/
theorem loopStep (body : Stmt) (extra : List Nat) (tail : A → A) (x : A) (hprec : PreK body.positions x)
    (hextra : ∀ q, q ∈ extra → q ∉ body.positions)
    (htail_info : ∀ y q, q ≠ body.pos → q ∉ extra → (tail y).info q = y.info q)
    (htail_ur : ∀ y q, (tail y).info.ur q = y.info.ur q)
    (ih : ∀ y, PreK body.positions y → SClaims body [] (visitStmt body y).info) :
    (∀ F : Info, (∀ q ∈ body.positions, q ≠ body.pos → F q = (withChild .loop body.pos (fun y => tail (visitStmt body y)) x).info q) →
      F.ur body.pos = (withChild .loop body.pos (fun y => tail (visitStmt body y)) x).info.ur body.pos →
      Claims ((body.stopViol F []).filter (· != body.pos)) body.swCases body.getters F) ∧
    (∀ q, q ∉ body.positions → q ∉ extra → (withChild .loop body.pos (fun y => tail (visitStmt body y)) x).info q = x.info q) := by
  have hG := ih (childA .loop x) ⟨hprec.fresh, hprec.nodup⟩
  have hr : ∀ q, q ≠ body.pos → q ∉ extra →
      (withChild .loop body.pos (fun y => tail (visitStmt body y)) x).info q = (visitStmt body (childA .loop x)).info q := by
    intro q h1 h2
    rw [withChild_info _ _ _ _ _ h1]; exact htail_info _ q h1 h2
  refine ⟨?_, ?_⟩
  · intro F hag hur
    refine hG.transport_body hprec.nodup ?_ ?_
    · intro q hq hne
      rw [hag q hq hne, hr q hne (fun h => hextra q h hq)]
    · rw [hur, withChild_ur, htail_ur]; rfl
  · intro q hq he
    have hne : q ≠ body.pos := fun e => hq (e ▸ body.pos_mem)
    rw [hr q hne he, Stmt.info_frame body _ q hq]; rfl

theorem while_claims (ls : List Id) (p : Nat) (test : Kids) (tt : Bool) (body : Stmt) (a : A)
    (hf : (Stmt.whileS p test tt body).inF = true)
    (hpre : PreK (p :: (test.positions ++ body.positions)) a)
    (ihk : ∀ x, PreK test.positions x → KClaims test (visitKids test x).info)
    (ih : ∀ x, PreK body.positions x → SClaims body [] (visitStmt body x).info) :
    SClaims (.whileS p test tt body) ls (visitStmt (.whileS p test tt body) a).info := by
  have own := own_claim (.whileS p test tt body) ls a hf hpre
  have hsp := Split.of hpre.nodup
  have hpre0 : PreK (test.positions ++ body.positions) (flagA a p .other) :=
    (hpre.sub (fun q hq => List.mem_cons_of_mem _ hq) (List.nodup_cons.mp hpre.nodup).2).flag p .other
  have hv : visitStmt (.whileS p test tt body) a =
      visitKids test (withChild .loop body.pos (fun x => whileTail tt body.isDeclOrExpr body.pos (visitStmt body x)) (flagA a p .other)) := by
    simp [visitStmt, flagA]
  have hpreb : PreK body.positions (flagA a p .other) :=
    hpre0.sub (fun q hq => List.mem_append.mpr (Or.inr hq)) hsp.ndb
  obtain ⟨hbody, hfr⟩ := loopStep body [] (whileTail tt body.isDeclOrExpr body.pos) (flagA a p .other) hpreb (by simp)
    (fun y q h _ => whileTail_info _ _ _ _ _ h) (fun y q => whileTail_ur _ _ _ _ _) ih
  generalize withChild .loop body.pos (fun x => whileTail tt body.isDeclOrExpr body.pos (visitStmt body x)) (flagA a p .other) = r
    at hv hbody hfr
  have hk := ihk r (hpre0.move (fun q hq => List.mem_append.mpr (Or.inl hq)) hsp.ndk
    (fun q hq => hfr q (fun h => hsp.disj q hq h) (by simp)))
  rw [← hv] at hk
  have hb' := hbody (visitStmt (.whileS p test tt body) a).info
    (fun q hq _ => by rw [hv, Kids.info_frame test r q (fun h => hsp.disj q h hq)])
    (by rw [hv, Kids.ur_frame test r _ (fun h => hsp.disj _ (Kids.upos_sub test _ h) body.pos_mem)])
  exact (own.append (hk.append hb')).mono (fun q hq => by simpa [Stmt.stopViol, List.append_assoc] using hq)
    (fun c hc => by simpa [Stmt.swCases] using hc) (fun g hg => by simpa [Stmt.getters] using hg)

theorem doWhile_claims (ls : List Id) (p : Nat) (body : Stmt) (test : Kids) (tt : Bool) (a : A)
    (hf : (Stmt.doWhileS p body test tt).inF = true)
    (hpre : PreK (p :: (test.positions ++ body.positions)) a)
    (ihk : ∀ x, PreK test.positions x → KClaims test (visitKids test x).info)
    (ih : ∀ x, PreK body.positions x → SClaims body [] (visitStmt body x).info) :
    SClaims (.doWhileS p body test tt) ls (visitStmt (.doWhileS p body test tt) a).info := by
  have own := own_claim (.doWhileS p body test tt) ls a hf hpre
  have hsp := Split.of hpre.nodup
  have hpre0 : PreK (test.positions ++ body.positions) (flagA a p .other) :=
    (hpre.sub (fun q hq => List.mem_cons_of_mem _ hq) (List.nodup_cons.mp hpre.nodup).2).flag p .other
  have hv : visitStmt (.doWhileS p body test tt) a =
      visitKids test (doWhileAfter p body.pos
        (withChild .loop body.pos (fun x => doWhileTail tt body.isDeclOrExpr body.pos (visitStmt body x)) (flagA a p .other))) := by
    simp [visitStmt, flagA]
  have hpreb : PreK body.positions (flagA a p .other) :=
    hpre0.sub (fun q hq => List.mem_append.mpr (Or.inr hq)) hsp.ndb
  obtain ⟨hbody, hfr⟩ := loopStep body [] (doWhileTail tt body.isDeclOrExpr body.pos) (flagA a p .other) hpreb (by simp)
    (fun y q h _ => doWhileTail_info _ _ _ _ _ h) (fun y q => doWhileTail_ur _ _ _ _ _) ih
  generalize withChild .loop body.pos (fun x => doWhileTail tt body.isDeclOrExpr body.pos (visitStmt body x)) (flagA a p .other) = r
    at hv hbody hfr
  have hk := ihk (doWhileAfter p body.pos r) (hpre0.move (fun q hq => List.mem_append.mpr (Or.inl hq)) hsp.ndk
    (fun q hq => by
      have hne : q ≠ p := fun e => hsp.pk (e ▸ hq)
      rw [doWhileAfter_info _ _ _ _ hne]; exact hfr q (fun h => hsp.disj q hq h) (by simp)))
  rw [← hv] at hk
  have hb' := hbody (visitStmt (.doWhileS p body test tt) a).info
    (fun q hq _ => by
      have hne : q ≠ p := fun e => hsp.pb (e ▸ hq)
      rw [hv, Kids.info_frame test _ q (fun h => hsp.disj q h hq), doWhileAfter_info _ _ _ _ hne])
    (by rw [hv, Kids.ur_frame test _ _ (fun h => hsp.disj _ (Kids.upos_sub test _ h) body.pos_mem), doWhileAfter_ur])
  exact (own.append (hk.append hb')).mono (fun q hq => by simpa [Stmt.stopViol, List.append_assoc] using hq)
    (fun c hc => by simpa [Stmt.swCases] using hc) (fun g hg => by simpa [Stmt.getters] using hg)

end DL.CF
