import DL.Lemmas.RxBCompQuant
import DL.Lemmas.RxBCompAtomEsc2

/-! # Annex B (no `u` flag), completeness: `\ AtomEscape` as an atom -/
namespace DL.Rx
open DL.RxSpec DL.Gen.Unicode

attribute [local irreducible] isScalar
variable {src : List Nat} {K : Bool × Nat}

theorem consumeReverseSolidusAtomEscape_wd (hN : K.2 < 2 ^ 62) (n : Nat) (m r1 : List Nat) (a : Attr) (s : St)
    (h : BAt src K (ch '\\' :: m) s) (hD : RxSpecB.AtomEscape K.1 K.2 m r1 a) :
    Wc (consumeReverseSolidusAtomEscape n s) (fun b s1 => b = true ∧ BAt src K r1 s1 ∧ TrackC s s1 a) := by
  have hae := fun s h => consumeAtomEscape_wd (src := src) (K := K) hN n m r1 a s h hD
  unfold consumeReverseSolidusAtomEscape
  rx7_autos
  exact ⟨rfl, ‹BAt src K r1 _›, TrackC.pre (s1 := s.setPos src (s.reader.index + 1)) ⟨rfl, rfl⟩ ‹TrackC _ _ a›⟩

theorem consumeReverseSolidusAtomEscape_wdn (n : Nat) (r : List Nat) (s : St) (h : BAt src K r s)
    (hn : r.head? ≠ some (ch '\\')) :
    Wc (consumeReverseSolidusAtomEscape n s) (fun b s1 => b = false ∧ s1 = s) := by
  unfold consumeReverseSolidusAtomEscape
  rx7_autos
  exact ⟨rfl, rfl⟩

/-- `\c` not followed by a letter is no `\ AtomEscape` -/
theorem consumeReverseSolidusAtomEscape_wdm (n : Nat) (m : List Nat) (s : St) (h : BAt src K (ch '\\' :: ch 'c' :: m) s)
    (hn : ∀ l, m.head? = some l → ¬ControlLetter l) :
    Wc (consumeReverseSolidusAtomEscape n s) (fun b s1 => b = false ∧ BAt src K (ch '\\' :: ch 'c' :: m) s1 ∧ KeepN s s1) := by
  have hae := fun s h => consumeAtomEscape_wdn (src := src) (K := K) n m s h hn
  unfold consumeReverseSolidusAtomEscape
  rx7_autos
  rename_i hk _
  exact ⟨rfl, by assumption, ⟨hk.gn, hk.bn⟩⟩

end DL.Rx
