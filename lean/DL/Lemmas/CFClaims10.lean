import DL.Lemmas.CFClaims9

/-! The claims of the rule layers hold in the metadata left by any visit of a piece of syntax of the fragment
(from a state whose keys are fresh): the mutual induction. -/
namespace DL.CF

/-- a block among the kids (class static block) -/
theorem kidBlock_claims (q : Nat) (body : Stmts) (a : A) (hpre : PreK (Kid.block q body).positions a)
    (ih : ∀ x, PreK body.positions x → LClaims body (visitStmts body x).info) :
    KdClaims (.block q body) (visitKid (.block q body) a).info := by
  simp only [Kid.positions] at hpre
  have hnd := List.nodup_cons.mp hpre.nodup
  have hb := ih a (hpre.sub (fun u hu => List.mem_cons_of_mem _ hu) hnd.2)
  simp only [visitKid]
  have hb' : LClaims body (blockTail q (visitStmts body a)).info := by
    refine hb.transport (fun u hu => ?_)
    have hne : u ≠ q := fun e => hnd.1 (e ▸ hu)
    exact blockTail_info _ _ _ hne
  exact hb'.mono (fun u hu => by simpa [Kid.stopViol] using hu) (fun c hc => by simpa [Kid.swCases] using hc)
    (fun g hg => by simpa [Kid.getters] using hg)

/-- a statement among the kids (`with` body) -/
theorem kidStmt_claims (s : Stmt) (a : A) (h : SClaims s [] (visitStmt s a).info) : KdClaims (.stmt s) (visitKid (.stmt s) a).info := by
  simp only [visitKid]
  exact h.mono (fun u hu => by simpa [Kid.stopViol] using hu) (fun c hc => by simpa [Kid.swCases] using hc)
    (fun g hg => by simpa [Kid.getters] using hg)

mutual
theorem Stmt.claims_ok : ∀ (s : Stmt) (ls : List Id) (a : A), s.inF = true → PreK s.positions a →
    SClaims s ls (visitStmt s a).info
  | .simple p t kids, ls, a, hf, h =>
    have hf' : kids.okF = true := by simpa [Stmt.inF] using hf
    simple_claims ls p t kids a hf h (fun x hx => Kids.claims_ok kids x hf' hx)
  | .block p b, ls, a, hf, h =>
    have hf' : b.inF = true := by simpa [Stmt.inF] using hf
    block_claims ls p b a hf h (fun x hx => Stmts.claims_ok b x hf' hx)
  | .ifS p t c none, ls, a, hf, h =>
    have hf' : t.okF = true ∧ c.inF = true := by
      have : (t.okF = true ∧ t.compl.plain = true) ∧ c.inF = true := by simpa [Stmt.inF] using hf
      exact ⟨this.1.1, this.2⟩
    if_none_claims ls p t c a hf h (fun x hx => Kids.claims_ok t x hf'.1 hx) (fun x hx => Stmt.claims_ok c [] x hf'.2 hx)
  | .ifS p t c (some al), ls, a, hf, h =>
    have hf' : (t.okF = true ∧ c.inF = true) ∧ al.inF = true := by
      have : ((t.okF = true ∧ t.compl.plain = true) ∧ c.inF = true) ∧ al.inF = true := by simpa [Stmt.inF] using hf
      exact ⟨⟨this.1.1.1, this.1.2⟩, this.2⟩
    if_some_claims ls p t c al a hf h (fun x hx => Kids.claims_ok t x hf'.1.1 hx) (fun x hx => Stmt.claims_ok c [] x hf'.1.2 hx)
      (fun x hx => Stmt.claims_ok al [] x hf'.2 hx)
  | .whileS p t tt b, ls, a, hf, h =>
    have hf' : t.okF = true ∧ b.inF = true := by
      have : ((t.okF = true ∧ t.compl.plain = true) ∧ (tt = false ∨ t.pure = true)) ∧ b.inF = true := by simpa [Stmt.inF] using hf
      exact ⟨this.1.1.1, this.2⟩
    while_claims ls p t tt b a hf h (fun x hx => Kids.claims_ok t x hf'.1 hx) (fun x hx => Stmt.claims_ok b [] x hf'.2 hx)
  | .doWhileS p b t tt, ls, a, hf, h =>
    have hf' : t.okF = true ∧ b.inF = true := by
      have : (t.okF = true ∧ t.pure = true) ∧ b.inF = true := by simpa [Stmt.inF] using hf
      exact ⟨this.1.1, this.2⟩
    doWhile_claims ls p b t tt a hf h (fun x hx => Kids.claims_ok t x hf'.1 hx) (fun x hx => Stmt.claims_ok b [] x hf'.2 hx)
  | .forS p i u t ht tt b, ls, a, hf, h =>
    have hf' : ((i.okF = true ∧ u.okF = true) ∧ t.okF = true) ∧ b.inF = true := by
      have : ((((i.okF = true ∧ i.compl.plain = true) ∧ (u.okF = true ∧ u.pure = true)) ∧
        ((t.okF = true ∧ t.compl.plain = true) ∧ (tt = false ∨ t.pure = true))) ∧ b.inF = true) := by simpa [Stmt.inF] using hf
      exact ⟨⟨⟨this.1.1.1.1, this.1.1.2.1⟩, this.1.2.1.1⟩, this.2⟩
    for_claims ls p i u t ht tt b a hf h (fun x hx => Kids.claims_ok i x hf'.1.1.1 hx) (fun x hx => Kids.claims_ok u x hf'.1.1.2 hx)
      (fun x hx => Kids.claims_ok t x hf'.1.2 hx) (fun x hx => Stmt.claims_ok b [] x hf'.2 hx)
  | .forInOf p l r b, ls, a, hf, h =>
    have hf' : (l.okF = true ∧ r.okF = true) ∧ b.inF = true := by
      have : ((l.okF = true ∧ l.pure = true) ∧ (r.okF = true ∧ r.compl.plain = true)) ∧ b.inF = true := by simpa [Stmt.inF] using hf
      exact ⟨⟨this.1.1.1, this.1.2.1⟩, this.2⟩
    forInOf_claims ls p l r b a hf h (fun x hx => Kids.claims_ok l x hf'.1.1 hx) (fun x hx => Kids.claims_ok r x hf'.1.2 hx)
      (fun x hx => Stmt.claims_ok b [] x hf'.2 hx)
  | .switchS p d cs, ls, a, hf, h =>
    have hf' : d.okF = true ∧ cs.inF = true := by
      have : (d.okF = true ∧ d.pure = true) ∧ cs.inF = true := by simpa [Stmt.inF] using hf
      exact ⟨this.1.1, this.2⟩
    have hp : p ∉ cs.upos := fun hm =>
      (List.nodup_cons.mp h.nodup).1 (List.mem_append.mpr (Or.inr (Cases.upos_sub cs p hm)))
    switch_claims ls p d cs a hf h (fun x hx => Kids.claims_ok d x hf'.1 hx)
      (fun x hx he => Cases.claims_ok cs p x hf'.2 hx hp he)
  | .tryS p bp b hh cp ck hf fp f, ls, a, hfr, h =>
    have hf' : (((b.inF = true ∧ ck.okFn = true) ∧ f.inF = true) ∧ (hh = true ∨ ck.isNil = true)) ∧ (hf = true ∨ f.isNil = true) := by
      simpa [Stmt.inF] using hfr
    try_claims ls p bp b hh cp ck hf fp f a hfr
      (hf'.1.2.imp id (fun h => by cases ck <;> simp_all [Kids.isNil]))
      (hf'.2.imp id (fun h => by cases f <;> simp_all [Stmts.isNil])) h
      (fun x hx => Stmts.claims_ok b x hf'.1.1.1.1 hx)
      (fun x hx => Kids.claims_okFn ck x hf'.1.1.1.2 hx)
      (fun x hx => Stmts.claims_ok f x hf'.1.1.2 hx)
  | .labeled p l b, ls, a, hf, h =>
    have hf' : b.inF = true := by simpa [Stmt.inF] using hf
    labeled_claims ls p l b a hf h (fun x hx => Stmt.claims_ok b (l :: ls) x hf' hx)
  | .brk p l, ls, a, _, _ => brk_claims ls p l _
  | .cont p l, ls, a, _, _ => cont_claims ls p l _
  | .ret p arg, ls, a, hf, h =>
    have hf' : arg.okF = true := by
      have : arg.okF = true ∧ arg.compl.plain = true := by simpa [Stmt.inF] using hf
      exact this.1
    ret_claims ls p arg a h (fun x hx => Kids.claims_ok arg x hf' hx)
  | .throw p arg, ls, a, hf, h =>
    have hf' : arg.okF = true := by
      have : arg.okF = true ∧ arg.compl.plain = true := by simpa [Stmt.inF] using hf
      exact this.1
    throw_claims ls p arg a h (fun x hx => Kids.claims_ok arg x hf' hx)
theorem Stmts.claims_ok : ∀ (l : Stmts) (a : A), l.inF = true → PreK l.positions a → LClaims l (visitStmts l a).info
  | .nil, a, _, _ => Claims.nil _
  | .cons s r, a, hf, h =>
    have hf' : s.inF = true ∧ r.inF = true := by simpa [Stmts.inF] using hf
    stmtsCons_claims s r a h (fun x hx => Stmt.claims_ok s [] x hf'.1 hx) (fun x hx => Stmts.claims_ok r x hf'.2 hx)
theorem Kid.claims_ok : ∀ (k : Kid) (a : A), k.okF = true → PreK k.positions a → KdClaims k (visitKid k a).info
  | .expr e ks, a, hf, h =>
    have hf' : ks.okF = true := by simpa [Kid.okF] using hf
    expr_claims e ks a (Kids.claims_ok ks a hf' h)
  | .fnScope p ks, a, hf, h =>
    have hf' : ks.okFn = true := by simpa [Kid.okF] using hf
    fnScope_claims p ks a hf' h (fun x hx => Kids.claims_okFn ks x hf' hx)
  | .block q body, a, hf, h =>
    have hf' : body.inF = true := by simpa [Kid.okF] using hf
    kidBlock_claims q body a h (fun x hx => Stmts.claims_ok body x hf' hx)
  | .stmt s, a, hf, h =>
    have hf' : s.inF = true := by simpa [Kid.okF] using hf
    kidStmt_claims s a (Stmt.claims_ok s [] a hf' (by simpa [Kid.positions] using h))
theorem Kids.claims_ok : ∀ (ks : Kids) (a : A), ks.okF = true → PreK ks.positions a → KClaims ks (visitKids ks a).info
  | .nil, a, _, _ => Claims.nil _
  | .cons k r, a, hf, h =>
    have hf' : k.okF = true ∧ r.okF = true := by simpa [Kids.okF] using hf
    kidsCons_claims k r a h (fun x hx => Kid.claims_ok k x hf'.1 hx) (fun x hx => Kids.claims_ok r x hf'.2 hx)
theorem Kids.claims_okFn : ∀ (ks : Kids) (a : A), ks.okFn = true → PreK ks.positions a → KClaims ks (visitKids ks a).info
  | .nil, a, _, _ => Claims.nil _
  | .cons (.block q body) .nil, a, hf, h =>
    have hf' : body.inF = true := by simpa [Kids.okFn, Kids.isNil] using hf
    kidsBlock_claims q body a h (fun x hx => Stmts.claims_ok body x hf' hx)
  | .cons (.block q body) (.cons _ _), _, hf, _ => by simp [Kids.okFn, Kids.isNil] at hf
  | .cons (.expr e ks) r, a, hf, h =>
    have hf' : ks.okF = true ∧ r.okFn = true := by
      have : (ks.okF = true ∧ ks.pure = true) ∧ r.okFn = true := by simpa [Kids.okFn] using hf
      exact ⟨this.1.1, this.2⟩
    kidsCons_claims (.expr e ks) r a h (fun x hx => Kid.claims_ok (.expr e ks) x (by simpa [Kid.okF] using hf'.1) hx)
      (fun x hx => Kids.claims_okFn r x hf'.2 hx)
  | .cons (.fnScope p ks) r, a, hf, h =>
    have hf' : ks.okFn = true ∧ r.okFn = true := by simpa [Kids.okFn] using hf
    kidsCons_claims (.fnScope p ks) r a h (fun x hx => Kid.claims_ok (.fnScope p ks) x (by simpa [Kid.okF] using hf'.1) hx)
      (fun x hx => Kids.claims_okFn r x hf'.2 hx)
  | .cons (.stmt _) _, _, hf, _ => by simp [Kids.okFn] at hf
theorem Cases.claims_ok : ∀ (cs : Cases) (sp : Nat) (a : A), cs.inF = true → PreK cs.positions a → sp ∉ cs.upos →
    (stopsEnd a.sc.end_ = true → a.info.ur sp = true) → CClaims cs sp (visitCases cs a).info
  | .nil, sp, a, _, _, _, _ => Claims.nil _
  | .cons p d t body r, sp, a, hf, h, hsp, he =>
    have hf' : (t.okF = true ∧ body.inF = true) ∧ r.inF = true := by
      have : ((t.okF = true ∧ t.pure = true) ∧ body.inF = true) ∧ r.inF = true := by simpa [Cases.inF] using hf
      exact ⟨⟨this.1.1.1, this.1.2⟩, this.2⟩
    have hspr : sp ∉ r.upos := fun hm => hsp (by simp [Cases.upos, hm])
    casesCons_claims sp p d t body r a hf h hsp he (fun x hx => Kids.claims_ok t x hf'.1.1 hx)
      (fun x hx => Stmts.claims_ok body x hf'.1.2 hx) (fun x hx he' => Cases.claims_ok r sp x hf'.2 hx hspr he')
end

end DL.CF
