import DL.Lemmas.RxBCompAtomEsc
import DL.Lemmas.RxCompName2

/-! # Annex B (no `u` flag), completeness: group names -/
namespace DL.Rx
open DL.RxSpec DL.Gen.Unicode

attribute [local irreducible] isScalar
variable {src : List Nat} {K : Bool × Nat}

theorem isRegexpIdentifierStart_wd (cp : Nat) (s : St) (hp : IdentifierStartChar cp) :
    Wc (isRegexpIdentifierStart cp s) (fun b s1 => b = true ∧ s1 = s) := isRegexpIdentifierStart_wc cp s hp

theorem isRegexpIdentifierPart_wd (cp : Nat) (s : St) (hp : IdentifierPartChar cp) :
    Wc (isRegexpIdentifierPart cp s) (fun b s1 => b = true ∧ s1 = s) := isRegexpIdentifierPart_wc cp s hp

theorem isRegexpIdentifierPart_wdn (cp : Nat) (s : St) (hp : ¬IdentifierPartChar cp) :
    Wc (isRegexpIdentifierPart cp s) (fun b s1 => b = false ∧ s1 = s) := isRegexpIdentifierPart_wcn cp s hp

/-- the Unicode-mode escapes inside a group name (`force_u_flag`) -/
theorem names_rues (n : Nat) (r r1 : List Nat) (v : Nat) (s : St) (h : BAt src K r s)
    (hD : RegExpUnicodeEscapeSequence r r1 v) :
    Wc (eatRegexpUnicodeEscapeSequence n true s) (fun b s1 => b = true ∧ BAt src K r1 s1 ∧
      s1.lastIntValue = (v : Nat) ∧ Keep s s1) := by
  cases hD with
  | surrogatePair m₁ m₂ _ lead trail h1 hl h2 ht =>
    have hp := pairText_of_hex4 h1 hl h2 ht
    unfold eatRegexpUnicodeEscapeSequence
    rx7_auto
    all_goals rx7_close
  | lead m _ _ h4 hl hno =>
    have hnp : ¬∃ r1 l t, PairText m r1 l t := by
      rintro ⟨r1', l, t, hp⟩
      obtain ⟨_, m', e, h4', ht⟩ := hex4_of_pairText hp h4
      exact hno ⟨m', r1', t, e, h4', ht⟩
    obtain ⟨a, b, c', d, e1, ha, hb, hc, hd, v1⟩ := h4
    subst e1 v1
    have hfx := fun s h => eatFixedHexDigits_wd (src := src) (K := K) 4 (by decide) [a, b, c', d] r1 s h rfl
      (by intro x hx; simp at hx; rcases hx with rfl | rfl | rfl | rfl <;> assumption)
    unfold eatRegexpUnicodeEscapeSequence
    rx7_auto
    all_goals rx7_close
  | nonLead m _ _ h4 hnl =>
    have hnp : ¬∃ r1 l t, PairText m r1 l t := by
      rintro ⟨r1', l, t, hp⟩
      obtain ⟨e, _⟩ := hex4_of_pairText hp h4
      obtain ⟨_, _, _, _, _, _, _, _, _, hL, _⟩ := hp
      exact hnl (e ▸ hL)
    obtain ⟨a, b, c', d, e1, ha, hb, hc, hd, v1⟩ := h4
    subst e1 v1
    have hfx := fun s h => eatFixedHexDigits_wd (src := src) (K := K) 4 (by decide) [a, b, c', d] r1 s h rfl
      (by intro x hx; simp at hx; rcases hx with rfl | rfl | rfl | rfl <;> assumption)
    unfold eatRegexpUnicodeEscapeSequence
    rx7_auto
    all_goals rx7_close
  | codePoint m _ ds hrun hle =>
    obtain ⟨e, hne, hds⟩ := hrun
    subst e
    have hnp : ¬∃ r1' l t, PairText (c '{' :: (ds ++ c '}' :: r1)) r1' l t := no_pair_of_head not_hexDigit_lbrace
    have hnf : ¬∃ ds' r1', c '{' :: (ds ++ c '}' :: r1) = ds' ++ r1' ∧ ds'.length = 4 ∧ ∀ d ∈ ds', HexDigit d :=
      no_fixed_of_head (by decide) not_hexDigit_lbrace
    unfold eatRegexpUnicodeEscapeSequence
    rx7_auto
    all_goals rx7_close

theorem notLead_of_partChar {x : Nat} (h : IdentifierPartChar x) : isLeadSurrogate (x : Int) = false := by
  have h1 := (identifierPartChar_char h).1
  unfold toChar at h1
  by_cases hc : x < 0xD800 ∨ (0xE000 ≤ x ∧ x < 0x110000)
  · unfold isLeadSurrogate
    simp only [Bool.and_eq_false_iff, decide_eq_false_iff_not]
    omega
  · rw [if_neg hc] at h1; cases h1

theorem lead_ne_backslash {l : Nat} (h : isLead l) : (l == ch '\\') = false := by
  unfold isLead at h
  have : l ≠ ch '\\' := by intro e; rw [e] at h; revert h; decide
  simpa using this

theorem eatRegexpIdentifierStart_wd (n : Nat) (r r1 : List Nat) (x : Nat) (s : St) (h : BAt src K r s)
    (hD : RxSpecB.RegExpIdentifierStart r r1 x) :
    Wc (eatRegexpIdentifierStart n s) (fun b s1 => b = true ∧ BAt src K r1 s1 ∧ s1.lastIntValue = (x : Nat) ∧ Keep s s1) := by
  cases hD with
  | char _ _ hx =>
    have hne : (x == ch '\\') = false := by
      have : x ≠ ch '\\' := fun e => not_identifierStartChar_backslash (e ▸ hx)
      simpa using this
    have hnl := notLead_of_partChar (identifierStartChar_part hx)
    unfold eatRegexpIdentifierStart
    rx7_step
    rx7_step
    dsimp only
    simp only [h.uFlag', Bool.not_false, Bool.true_and]
    rx7_autos
    all_goals rx7_fin
  | escape m _ _ hu hx =>
    have hru := fun s h => names_rues (src := src) (K := K) n m r1 x s h hu
    unfold eatRegexpIdentifierStart
    rx7_step
    rx7_step
    dsimp only
    simp only [h.uFlag', Bool.not_false, Bool.true_and]
    rx7_autos
    all_goals (
      have hv := ‹(_ : St).lastIntValue = (x : Nat)›
      rw [hv, i64AsU32_small (rues_le hu)]
      rx7_autos
      rx7_fin)
  | pair _ _ _ hp hx =>
    obtain ⟨l, t, rfl, hl, ht, hv⟩ := hp
    have hne := lead_ne_backslash hl
    have hL := (isLeadSurrogate_iff l).mpr hl
    have hT := (isTrailSurrogate_iff t).mpr ht
    obtain ⟨_, _, hval⟩ := pair_value hL hT
    have hx' : IdentifierStartChar (i64AsU32 (combineSurrogatePair (l : Int) (t : Int))) := by
      rw [hval, ← hv]; exact hx
    unfold eatRegexpIdentifierStart
    rx7_step
    rx7_step
    dsimp only
    simp only [h.uFlag', Bool.not_false, Bool.true_and]
    rx7_autos
    all_goals first
      | (rx7_fin; done)
      | (rx7_fin; st_norm; rw [hval, hv])
theorem eatRegexpIdentifierPart_wd (n : Nat) (r r1 : List Nat) (x : Nat) (s : St) (h : BAt src K r s)
    (hD : RxSpecB.RegExpIdentifierPart r r1 x) :
    Wc (eatRegexpIdentifierPart n s) (fun b s1 => b = true ∧ BAt src K r1 s1 ∧ s1.lastIntValue = (x : Nat) ∧ Keep s s1) := by
  cases hD with
  | char _ _ hx =>
    have hne : (some x == some (ch '\\')) = false := by
      have : x ≠ ch '\\' := fun e => not_identifierPartChar_backslash (e ▸ hx)
      simpa using this
    have hnl := notLead_of_partChar hx
    unfold eatRegexpIdentifierPart
    rx7_step
    rx7_step
    dsimp only
    simp only [h.uFlag', Bool.not_false, Bool.true_and]
    rx7_autos
    all_goals rx7_fin
  | escape m _ _ hu hx =>
    have hru := fun s h => names_rues (src := src) (K := K) n m r1 x s h hu
    unfold eatRegexpIdentifierPart
    rx7_step
    rx7_step
    dsimp only
    simp only [h.uFlag', Bool.not_false, Bool.true_and]
    rx7_autos
    all_goals (
      have hv := ‹(_ : St).lastIntValue = (x : Nat)›
      rw [hv, i64AsU32_small (rues_le hu)]
      rx7_autos
      rx7_fin)
  | pair _ _ _ hp hx =>
    obtain ⟨l, t, rfl, hl, ht, hv⟩ := hp
    have hne : (some l == some (ch '\\')) = false := by
      have := lead_ne_backslash hl
      simpa using this
    have hL := (isLeadSurrogate_iff l).mpr hl
    have hT := (isTrailSurrogate_iff t).mpr ht
    obtain ⟨_, _, hval⟩ := pair_value hL hT
    have hx' : IdentifierPartChar (i64AsU32 (combineSurrogatePair (l : Int) (t : Int))) := by
      rw [hval, ← hv]; exact hx
    unfold eatRegexpIdentifierPart
    rx7_step
    rx7_step
    dsimp only
    simp only [h.uFlag', Bool.not_false, Bool.true_and]
    rx7_autos
    all_goals first
      | (rx7_fin; done)
      | (rx7_fin; st_norm; rw [hval, hv])


end DL.Rx
