import DL.Lemmas.CFClaims6

/-! The claims of the rule layers: `switch`. -/
namespace DL.CF

theorem Stmt.reach_self (s : Stmt) : s.reach s.pos = true := by
  cases s with
  | ifS p t c a => cases a <;> simp [Stmt.reach, Stmt.pos]
  | _ => simp [Stmt.reach, Stmt.pos]

/-- a statement whose metadata stops although it can complete normally is among its own violations -/
theorem Stmt.self_viol (s : Stmt) (info : Info) (h1 : s.isDeclOrExpr = false) (h2 : metaStops info s.pos = true)
    (h3 : (s.compl []).n = true) : s.pos ∈ s.stopViol info [] := by
  have hm := stopHere_mem (info := info) (ls := []) h1 h2 h3
  cases s with
  | ifS p t c a => cases a <;> (simp only [Stmt.stopViol, List.mem_append]; simp [hm])
  | brk p l => cases l <;> simp [Stmt.compl] at h3
  | cont p l => cases l <;> simp [Stmt.compl] at h3
  | ret p a => simp [Stmt.compl] at h3
  | throw p a => simp [Stmt.compl] at h3
  | _ => simp only [Stmt.stopViol, List.mem_append]; simp [hm]

theorem stmtsStop_witness (info : Info) : ∀ (l : Stmts), stmtsStop info l = true → l.compl.n = true →
    ∃ q, q ∈ l.stopViol info ∧ l.reach q = true
  | .nil, h, _ => by simp [stmtsStop] at h
  | .cons s r, h, hn => by
    simp only [Stmts.compl, seq_n, Bool.and_eq_true] at hn
    simp only [stmtsStop, Bool.or_eq_true, Bool.and_eq_true, Bool.not_eq_true', isDeclOrExpr] at h
    rcases h with h | h
    · exact ⟨s.pos, by simp [Stmts.stopViol, Stmt.self_viol s info h.1 h.2 hn.1], by simp [Stmts.reach, s.reach_self]⟩
    · obtain ⟨q, hq, hr⟩ := stmtsStop_witness info r h hn.2
      exact ⟨q, by simp [Stmts.stopViol, hq], by simp [Stmts.reach, hn.1, hr]⟩

theorem caseTail_end (p : Nat) (prev : Option End) (r : A × Sc) : (caseTail p prev r).sc.end_ = prev := rfl

theorem switchFin_ur (p : Nat) (prev : Option End) (e : End) (x : A) (q : Nat) : (switchFin p prev e x).info.ur q = x.info.ur q := by
  unfold switchFin; split <;> simp

theorem casesCons_claims (sp p : Nat) (d : Bool) (t : Kids) (body : Stmts) (r : Cases) (a : A)
    (hf : (Cases.cons p d t body r).inF = true)
    (hpre : PreK (p :: (t.positions ++ (body.positions ++ r.positions))) a)
    (hsp : sp ∉ (Cases.cons p d t body r).upos) (hend : stopsEnd a.sc.end_ = true → a.info.ur sp = true)
    (ihk : ∀ x, PreK t.positions x → KClaims t (visitKids t x).info)
    (ihb : ∀ x, PreK body.positions x → LClaims body (visitStmts body x).info)
    (ihr : ∀ x, PreK r.positions x → (stopsEnd x.sc.end_ = true → x.info.ur sp = true) → CClaims r sp (visitCases r x).info) :
    CClaims (.cons p d t body r) sp (visitCases (.cons p d t body r) a).info := by
  have hf' : ((t.okF = true ∧ t.pure = true) ∧ body.inF = true) ∧ r.inF = true := by simpa [Cases.inF] using hf
  have h3 := Split3.of hpre.nodup
  simp only [Cases.upos, List.mem_append, not_or] at hsp
  have hpre0 : PreK (t.positions ++ (body.positions ++ r.positions)) a :=
    hpre.sub (fun q hq => List.mem_cons_of_mem _ hq) (List.nodup_cons.mp hpre.nodup).2
  -- the test
  have hkt := ihk a hpre0.left
  have hK := visitKids_ok t a hf'.1.1.1 hf'.1.1.2 hpre0.left
  have fr1 : ∀ q, q ∉ t.positions → (visitKids t a).info q = a.info q := fun q hq => Kids.info_frame t a q hq
  have ur1 : (visitKids t a).info.ur sp = a.info.ur sp := Kids.ur_frame t a sp hsp.1
  have he1 : (visitKids t a).sc.end_ = a.sc.end_ := hK.end_
  simp only [visitCases]
  rw [withChildR_case]
  generalize visitKids t a = x at hkt fr1 ur1 he1
  -- the body
  have hpre1 : PreK (body.positions ++ r.positions) x := hpre0.right fr1
  have hprec : PreK body.positions (childA .case x) := ⟨hpre1.left.fresh, hpre1.left.nodup⟩
  have hb := ihb _ hprec
  have hB := visitStmts_ok body (!stopsEnd (childA .case x).sc.end_) (childA .case x) hf'.1.2
    ⟨fun h => by simp [h], hprec.fresh, hprec.nodup⟩
  have fr2 : ∀ q, q ∉ body.positions → (visitStmts body (childA .case x)).info q = x.info q :=
    fun q hq => Stmts.info_frame body _ q hq
  have ur2 : (visitStmts body (childA .case x)).info.ur sp = x.info.ur sp := Stmts.ur_frame body _ sp hsp.2.1
  generalize hG : visitStmts body (childA .case x) = G at hb hB fr2 ur2
  -- the state the remaining cases are visited from
  generalize ha1 : caseTail p a.sc.end_ ({ sc := mergeSc .case x.sc G.sc, info := G.info }, G.sc) = a1
  have e1 : a1.sc.end_ = a.sc.end_ := by rw [← ha1]; rfl
  have i1 : ∀ q, q ≠ p → a1.info q = G.info q := fun q hq => by rw [← ha1]; exact caseTail_info _ _ _ _ hq
  have u1 : a1.info.ur sp = a.info.ur sp := by rw [← ha1, caseTail_ur]; simp only; rw [ur2, ur1]
  have hprer : PreK r.positions a1 := hpre1.move (fun q hq => List.mem_append.mpr (Or.inr hq)) h3.nz
    (fun q hq => by rw [i1 q (fun e => h3.pz (e ▸ hq)), fr2 q (fun h => h3.yz q h hq)])
  have hr := ihr a1 hprer (fun h => by rw [u1]; exact hend (by rw [← e1]; exact h))
  have frr : ∀ q, q ∉ r.positions → (visitCases r a1).info q = a1.info q := fun q hq => Cases.info_frame r a1 q hq
  have urr : (visitCases r a1).info.ur sp = a1.info.ur sp := Cases.ur_frame r a1 sp hsp.2.2
  generalize visitCases r a1 = a2 at hr frr urr
  -- transports
  have agB : ∀ q ∈ body.positions, a2.info q = G.info q := fun q hq => by
    rw [frr q (fun h => h3.yz q hq h), i1 q (fun e => h3.py (e ▸ hq))]
  have hkt' : KClaims t a2.info := by
    refine hkt.transport (fun q hq => ?_)
    rw [frr q (fun h => h3.xz q hq h), i1 q (fun e => h3.px (e ▸ hq)), fr2 q (fun h => h3.xy q hq h)]
  have hb' : LClaims body a2.info := hb.transport agB
  have own : Claims [] [(sp, body)] [] a2.info := by
    refine ⟨fun _ h => absurd h (by simp), ?_, fun _ h => absurd h (by simp)⟩
    intro c hc hst hn
    simp only [List.mem_singleton] at hc; subst hc
    simp only at hst hn ⊢
    rw [stmtsStop_congr G.info a2.info body (fun q hq => agB q (Stmts.upos_sub body q (Stmts.topPos_sub body q hq)))] at hst
    obtain ⟨q, hq, hreach⟩ := stmtsStop_witness G.info body hst hn
    have hur := hb.sv q hq
    have hqu := (Stmts.sv_local body G.info G.info q hq).1
    have hdead := hB.p3 q hqu hur
    rw [hreach] at hdead
    have hstop : stopsEnd (childA .case x).sc.end_ = true := by simpa using hdead
    have hstopa : stopsEnd a.sc.end_ = true := by rw [← he1]; exact childEnd_stops .case _ hstop
    rw [urr, u1]; exact hend hstopa
  exact (own.append (hkt'.append (hb'.append hr))).mono
    (fun q hq => by simpa [Cases.stopViol, List.append_assoc] using hq)
    (fun c hc => by simpa [Cases.swCasesAt] using hc) (fun g hg => by simpa [Cases.getters] using hg)

end DL.CF
