import DL.Lemmas.RxBCompClass2

/-! # Annex B (no `u` flag), completeness: quantifiers -/
namespace DL.Rx
open DL.RxSpec DL.Gen.Unicode

attribute [local irreducible] isScalar
variable {src : List Nat} {K : Bool × Nat}

theorem eatBracedQuantifier_wd (n : Nat) (m r1 : List Nat) (s : St) (h : BAt src K (ch '{' :: m) s)
    (hq : QuantifierPrefix qokSat (ch '{' :: m) r1) :
    Wc (eatBracedQuantifier n false s) (fun b s1 => b = true ∧ BAt src K r1 s1 ∧ KeepN s s1) := by
  cases hq with
  | exact _ _ ds hrun =>
    obtain ⟨e, hne, hds⟩ := hrun
    subst e
    have hdd := fun s h => (eatDecimalDigits_wd (src := src) (K := K) n ds (ch '}' :: r1) s h hds
      (head_not_digit (by decide))).mono (fun b s1 hp => (⟨hp.1.mpr hne, hp.2⟩ : b = true ∧ _))
    unfold eatBracedQuantifier
    rx7_autos
    case pos =>
      rename_i hc
      simp only [st_simp, Bool.not_false, Bool.true_and] at hc
      exact absurd (of_decide_eq_true hc) (Int.lt_irrefl _)
    rx7_fin
  | atLeast _ _ ds hrun =>
    obtain ⟨e, hne, hds⟩ := hrun
    subst e
    have hdd := fun s h => (eatDecimalDigits_wd (src := src) (K := K) n ds (ch ',' :: ch '}' :: r1) s h hds
      (head_not_digit (by decide))).mono (fun b s1 hp => (⟨hp.1.mpr hne, hp.2⟩ : b = true ∧ _))
    have hd0 := fun s h => (eatDecimalDigits_wd (src := src) (K := K) n [] (ch '}' :: r1) s h (by simp)
      (head_not_digit (by decide))).mono (fun b s1 hp => (⟨by
        cases b
        · rfl
        · exact absurd rfl (hp.1.mp rfl), hp.2⟩ : b = false ∧ _))
    unfold eatBracedQuantifier
    rx7_autos
    case pos =>
      rename_i hc
      simp only [st_simp, Bool.not_false, Bool.true_and] at hc
      have := of_decide_eq_true hc
      have := satI_le (mvDec ds)
      omega
    rx7_fin
  | range m₁ m₂ _ ds₁ ds₂ hrun1 hrun2 hok =>
    obtain ⟨e1, hne1, hds1⟩ := hrun1
    obtain ⟨e2, hne2, hds2⟩ := hrun2
    subst e2
    have e1' : m = ds₁ ++ ch ',' :: (ds₂ ++ ch '}' :: r1) := e1
    subst e1'
    have hdd1 := fun s h => (eatDecimalDigits_wd (src := src) (K := K) n ds₁ (ch ',' :: (ds₂ ++ ch '}' :: r1)) s h hds1
      (head_not_digit (by decide))).mono (fun b s1 hp => (⟨hp.1.mpr hne1, hp.2⟩ : b = true ∧ _))
    have hdd2 := fun s h => (eatDecimalDigits_wd (src := src) (K := K) n ds₂ (ch '}' :: r1) s h hds2
      (head_not_digit (by decide))).mono (fun b s1 hp => (⟨hp.1.mpr hne2, hp.2⟩ : b = true ∧ _))
    unfold eatBracedQuantifier
    rx7_autos
    case pos =>
      rename_i hc
      simp only [st_simp, Bool.not_false, Bool.true_and] at hc
      have := of_decide_eq_true hc
      have hok' : satI (mvDec ds₁) ≤ satI (mvDec ds₂) := hok
      omega
    rx7_fin

theorem eatBracedQuantifier_wdn (n : Nat) (b : Bool) (r : List Nat) (s : St) (h : BAt src K r s)
    (hn : r.head? ≠ some (ch '{')) :
    Wc (eatBracedQuantifier n b s) (fun b s1 => b = false ∧ s1 = s) := by
  unfold eatBracedQuantifier
  rx7_autos
  exact ⟨rfl, rfl⟩

theorem consumeQuantifier_wd (n : Nat) (r r1 : List Nat) (s : St) (h : BAt src K r s)
    (hq : Quantifier qokSat r r1) (hf : r1.head? ≠ some (ch '?')) :
    Wc (consumeQuantifier n false s) (fun b s1 => b = true ∧ BAt src K r1 s1 ∧ KeepN s s1) := by
  cases hq with
  | greedy hp =>
    cases hp with
    | exact m _ ds hrun =>
      have hb := fun s h => eatBracedQuantifier_wd (src := src) (K := K) n m r1 s h (QuantifierPrefix.exact m r1 ds hrun)
      unfold consumeQuantifier
      rx7_autos
      all_goals rx7_fin
    | atLeast m _ ds hrun =>
      have hb := fun s h => eatBracedQuantifier_wd (src := src) (K := K) n m r1 s h (QuantifierPrefix.atLeast m r1 ds hrun)
      unfold consumeQuantifier
      rx7_autos
      all_goals rx7_fin
    | range m₁ m₂ _ ds₁ ds₂ h1 h2 hok =>
      have hb := fun s h => eatBracedQuantifier_wd (src := src) (K := K) n m₁ r1 s h
        (QuantifierPrefix.range m₁ m₂ r1 ds₁ ds₂ h1 h2 hok)
      unfold consumeQuantifier
      rx7_autos
      all_goals rx7_fin
    | _ =>
      unfold consumeQuantifier
      rx7_autos
      all_goals rx7_fin
  | lazy hp =>
    cases hp with
    | exact m _ ds hrun =>
      have hb := fun s h => eatBracedQuantifier_wd (src := src) (K := K) n m _ s h (QuantifierPrefix.exact m _ ds hrun)
      unfold consumeQuantifier
      rx7_autos
      all_goals rx7_fin
    | atLeast m _ ds hrun =>
      have hb := fun s h => eatBracedQuantifier_wd (src := src) (K := K) n m _ s h (QuantifierPrefix.atLeast m _ ds hrun)
      unfold consumeQuantifier
      rx7_autos
      all_goals rx7_fin
    | range m₁ m₂ _ ds₁ ds₂ h1 h2 hok =>
      have hb := fun s h => eatBracedQuantifier_wd (src := src) (K := K) n m₁ _ s h
        (QuantifierPrefix.range m₁ m₂ _ ds₁ ds₂ h1 h2 hok)
      unfold consumeQuantifier
      rx7_autos
      all_goals rx7_fin
    | _ =>
      unfold consumeQuantifier
      rx7_autos
      all_goals rx7_fin

theorem consumeOptionalQuantifier_wd (n : Nat) (r r1 : List Nat) (s : St) (h : BAt src K r s)
    (hq : Quantifier qokSat r r1) (hf : r1.head? ≠ some (ch '?')) :
    Wc (consumeOptionalQuantifier n s) (fun b s1 => b = true ∧ BAt src K r1 s1 ∧ KeepN s s1) := by
  unfold consumeOptionalQuantifier
  rx7_autos
  exact ⟨rfl, ‹BAt src K r1 _›, ‹KeepN s _›⟩

/-- not followed by a quantifier: none of `* + ?`, and no braced quantifier text -/
def NoQB (r : List Nat) : Prop :=
  r.head? ≠ some (ch '*') ∧ r.head? ≠ some (ch '+') ∧ r.head? ≠ some (ch '?') ∧
  ¬∃ r', RxSpecB.InvalidBracedQuantifier r r'

/-- `{` that does not begin the text of a braced quantifier: nothing is consumed (without `u` that is no error) -/
theorem eatBracedQuantifier_notIBQ (n : Nat) (b : Bool) (m : List Nat) (s : St) (h : BAt src K (ch '{' :: m) s)
    (hno : ¬∃ r', RxSpecB.InvalidBracedQuantifier (ch '{' :: m) r') :
    Wc (eatBracedQuantifier n b s) (fun b s1 => b = false ∧ BAt src K (ch '{' :: m) s1 ∧ KeepN s s1) := by
  obtain ⟨ds, m1, e, hds, hstop⟩ := exists_run DecimalDigit m
  subst e
  by_cases hne : ds = []
  · subst hne
    have hd0 := fun s h => (eatDecimalDigits_wd (src := src) (K := K) n [] m1 s h (by simp) hstop).mono
      (fun b s1 hp => (⟨by
        cases b
        · rfl
        · exact absurd rfl (hp.1.mp rfl), hp.2⟩ : b = false ∧ _))
    unfold eatBracedQuantifier
    rx7_autos
    all_goals exact ⟨rfl, by rx6_at, by rx6_keep⟩
  · have hdd1 := fun s h => (eatDecimalDigits_wd (src := src) (K := K) n ds m1 s h hds hstop).mono
      (fun b s1 hp => (⟨hp.1.mpr hne, hp.2⟩ : b = true ∧ _))
    by_cases hcomma : m1.head? = some (ch ',')
    · cases m1 with
      | nil => cases hcomma
      | cons x m2 =>
        have ex : x = ch ',' := by simpa using hcomma
        subst ex
        obtain ⟨ds2, m3, e, hds2, hstop2⟩ := exists_run DecimalDigit m2
        subst e
        have hbrace : m3.head? ≠ some (ch '}') := by
          intro hb
          cases m3 with
          | nil => cases hb
          | cons y m4 =>
            have ey : y = ch '}' := by simpa using hb
            subst ey
            apply hno
            by_cases h2 : ds2 = []
            · subst h2
              exact ⟨m4, _, rfl, .inr (.inl ⟨ds, rfl, hne, hds⟩)⟩
            · exact ⟨m4, _, rfl, .inr (.inr ⟨ds, ds2, _, ⟨rfl, hne, hds⟩, ⟨rfl, h2, hds2⟩⟩)⟩
        have hdd2 := fun s h => eatDecimalDigits_wd (src := src) (K := K) n ds2 m3 s h hds2 hstop2
        unfold eatBracedQuantifier
        rx7_autos
        all_goals first
          | exact ⟨rfl, by rx6_at, by rx6_keep⟩
          | (rename_i hc; simp [st_simp, h.uFlag', h.strict'] at hc)
    · have hbrace : m1.head? ≠ some (ch '}') := by
        intro hb
        cases m1 with
        | nil => cases hb
        | cons y m4 =>
          have ey : y = ch '}' := by simpa using hb
          subst ey
          exact hno ⟨m4, _, rfl, .inl ⟨ds, rfl, hne, hds⟩⟩
      unfold eatBracedQuantifier
      rx7_autos
      all_goals exact ⟨rfl, by rx6_at, by rx6_keep⟩

theorem eatBracedQuantifier_none (n : Nat) (b : Bool) (r : List Nat) (s : St) (h : BAt src K r s)
    (hno : ¬∃ r', RxSpecB.InvalidBracedQuantifier r r') :
    Wc (eatBracedQuantifier n b s) (fun b s1 => b = false ∧ BAt src K r s1 ∧ KeepN s s1) := by
  by_cases hb : r.head? = some (ch '{')
  · cases r with
    | nil => cases hb
    | cons x m =>
      have ex : x = ch '{' := by simpa using hb
      subst ex
      exact eatBracedQuantifier_notIBQ n b m s h hno
  · exact (eatBracedQuantifier_wdn n b r s h hb).mono (fun b s1 hp => ⟨hp.1, hp.2 ▸ h, hp.2 ▸ KeepN.refl s⟩)

theorem consumeQuantifier_wdn (n : Nat) (b : Bool) (r : List Nat) (s : St) (h : BAt src K r s) (hn : NoQB r) :
    Wc (consumeQuantifier n b s) (fun b s1 => b = false ∧ BAt src K r s1 ∧ KeepN s s1) := by
  obtain ⟨h1, h2, h3, h4⟩ := hn
  have hb := fun s (h : BAt src K r s) => eatBracedQuantifier_none (src := src) (K := K) n b r s h h4
  unfold consumeQuantifier
  rx7_autos
  exact ⟨rfl, ‹BAt src K r _›, ‹KeepN s _›⟩

theorem consumeOptionalQuantifier_wdn (n : Nat) (r : List Nat) (s : St) (h : BAt src K r s) (hf : NoQB r) :
    Wc (consumeOptionalQuantifier n s) (fun b s1 => b = true ∧ BAt src K r s1 ∧ KeepN s s1) := by
  have hq := fun s (h : BAt src K r s) => consumeQuantifier_wdn (src := src) (K := K) n false r s h hf
  unfold consumeOptionalQuantifier
  rx7_autos
  exact ⟨rfl, ‹BAt src K r _›, ‹KeepN s _›⟩

theorem consumeInvalidBracedQuantifier_wd (n : Nat) (r : List Nat) (s : St) (h : BAt src K r s)
    (hno : ¬∃ r', RxSpecB.InvalidBracedQuantifier r r') :
    Wc (consumeInvalidBracedQuantifier n s) (fun b s1 => b = false ∧ BAt src K r s1 ∧ KeepN s s1) := by
  have hb := fun s (h : BAt src K r s) => eatBracedQuantifier_none (src := src) (K := K) n true r s h hno
  unfold consumeInvalidBracedQuantifier
  rx7_autos
  exact ⟨rfl, ‹BAt src K r _›, ‹KeepN s _›⟩

theorem consumeReverseSolidusFollowedByC_wd (m : List Nat) (s : St) (h : BAt src K (ch '\\' :: ch 'c' :: m) s) :
    Wc (consumeReverseSolidusFollowedByC s) (fun b s1 => b = true ∧ BAt src K (ch 'c' :: m) s1 ∧ Keep s s1) := by
  unfold consumeReverseSolidusFollowedByC
  rx7_autos
  exact ⟨rfl, by rx6_at, by rx6_keep⟩

theorem consumeReverseSolidusFollowedByC_wdn (r : List Nat) (s : St) (h : BAt src K r s)
    (hn : ¬∃ m, r = ch '\\' :: ch 'c' :: m) :
    Wc (consumeReverseSolidusFollowedByC s) (fun b s1 => b = false ∧ s1 = s) := by
  unfold consumeReverseSolidusFollowedByC
  rcases r with _ | ⟨x, _ | ⟨y, m⟩⟩
  all_goals rx7_autos
  all_goals (try exact ⟨rfl, rfl⟩)
  all_goals (rename_i hc _; exfalso)
  · simp at hc
  · apply hn
    simp only [Bool.and_eq_true, beq_iff_eq] at hc
    simp at hc
    exact ⟨m, by rw [hc.1, hc.2]⟩

theorem consumeExtendedPatternCharacter_wd (x : Nat) (r1 : List Nat) (s : St) (h : BAt src K (x :: r1) s)
    (hx : RxSpecB.ExtendedPatternCharacter x) :
    Wc (consumeExtendedPatternCharacter s) (fun b s1 => b = true ∧ BAt src K r1 s1 ∧ Keep s s1) := by
  unfold consumeExtendedPatternCharacter
  rx7_autos
  · rename_i hn
    exfalso; apply hn
    have h2 := hx.2
    simp only [List.mem_cons, List.not_mem_nil, or_false, not_or] at h2
    simp only [Bool.and_eq_true, bne_iff_ne, ne_eq]
    exact ⟨⟨⟨⟨⟨⟨⟨⟨⟨⟨h2.1, h2.2.1⟩, h2.2.2.1⟩, h2.2.2.2.1⟩, h2.2.2.2.2.1⟩, h2.2.2.2.2.2.1⟩, h2.2.2.2.2.2.2.1⟩,
      h2.2.2.2.2.2.2.2.1⟩, h2.2.2.2.2.2.2.2.2.1⟩, h2.2.2.2.2.2.2.2.2.2.1⟩, h2.2.2.2.2.2.2.2.2.2.2⟩
  · exact ⟨rfl, by rx6_at, by rx6_keep⟩

theorem consumeExtendedPatternCharacter_wdn (r : List Nat) (s : St) (h : BAt src K r s)
    (hn : ∀ x, r.head? = some x →
      x ∈ [c '^', c '$', c '\\', c '.', c '*', c '+', c '?', c '(', c ')', c '[', c '|']) :
    Wc (consumeExtendedPatternCharacter s) (fun b s1 => b = false ∧ s1 = s) := by
  unfold consumeExtendedPatternCharacter
  cases r with
  | nil => rx7_autos; exact ⟨rfl, rfl⟩
  | cons x m =>
    rx7_autos
    · exact ⟨rfl, rfl⟩
    · rename_i hc _
      exfalso
      have h2 := hn x rfl
      simp only [Bool.and_eq_true, bne_iff_ne, ne_eq] at hc
      simp only [List.mem_cons, List.not_mem_nil, or_false] at h2
      have e : ∀ a, c a = ch a := fun _ => rfl
      simp only [e] at h2
      rcases h2 with h2 | h2 | h2 | h2 | h2 | h2 | h2 | h2 | h2 | h2 | h2 <;> simp [h2] at hc

end DL.Rx
