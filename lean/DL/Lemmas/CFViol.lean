import DL.Lemmas.CFOwn2

/-! The rule layers read the final metadata at keys inside the program.  `stopViol` only depends on the metadata at
statement positions, pointwise. -/
namespace DL.CF

theorem metaStops_eq (info : Info) (p : Nat) : metaStops info p = stopsEnd (info.endAt p) := by
  unfold metaStops Info.endAt
  cases h : info p with
  | none => rfl
  | some m =>
    obtain ⟨u, e⟩ := m
    rcases e with _ | ⟨r, t, i⟩ | _ | _ <;> rfl

theorem metaStops_congr {info info' : Info} {p : Nat} (h : info' p = info p) : metaStops info' p = metaStops info p := by
  unfold metaStops; rw [h]

theorem mem_stopHere {info : Info} {ls : List Id} {s : Stmt} {q : Nat} (h : q ∈ stopHere info ls s) :
    q = s.pos ∧ s.isDeclOrExpr = false ∧ metaStops info s.pos = true ∧ (s.compl ls).n = true := by
  unfold stopHere at h
  by_cases hc : (!isDeclOrExpr s && metaStops info s.pos && (s.compl ls).n) = true
  · rw [if_pos hc] at h
    simp only [List.mem_singleton] at h
    simp only [Bool.and_eq_true, Bool.not_eq_true', isDeclOrExpr] at hc
    exact ⟨h, hc.1.1, hc.1.2, hc.2⟩
  · rw [if_neg hc] at h; cases h

theorem stopHere_mem {info : Info} {ls : List Id} {s : Stmt} (h1 : s.isDeclOrExpr = false) (h2 : metaStops info s.pos = true)
    (h3 : (s.compl ls).n = true) : s.pos ∈ stopHere info ls s := by
  unfold stopHere
  simp [isDeclOrExpr, h1, h2, h3]

theorem stopHere_congr {info info' : Info} {ls : List Id} {s : Stmt} {q : Nat} (h : q ∈ stopHere info' ls s)
    (hq : info' q = info q) : q ∈ stopHere info ls s := by
  obtain ⟨h0, h1, h2, h3⟩ := mem_stopHere h
  subst h0
  rw [metaStops_congr hq] at h2
  exact stopHere_mem h1 h2 h3

/-- `q ∈ X.stopViol info'` only depends on `info' q`; and such a `q` is a statement position of `X` -/
def SVLocal (f : Info → List Nat) (us : List Nat) : Prop :=
  ∀ (info info' : Info) (q : Nat), q ∈ f info' → q ∈ us ∧ (info' q = info q → q ∈ f info)

theorem SVLocal.append {f g : Info → List Nat} {us vs : List Nat} (hf : SVLocal f us) (hg : SVLocal g vs) :
    SVLocal (fun i => f i ++ g i) (us ++ vs) := by
  intro info info' q hq
  rcases List.mem_append.mp hq with h | h
  · exact ⟨List.mem_append.mpr (Or.inl (hf info info' q h).1), fun e => List.mem_append.mpr (Or.inl ((hf info info' q h).2 e))⟩
  · exact ⟨List.mem_append.mpr (Or.inr (hg info info' q h).1), fun e => List.mem_append.mpr (Or.inr ((hg info info' q h).2 e))⟩

theorem SVLocal.here (ls : List Id) (s : Stmt) (p : Nat) (hp : s.pos = p) : SVLocal (fun i => stopHere i ls s) [p] := by
  intro info info' q hq
  refine ⟨?_, fun e => stopHere_congr hq e⟩
  rw [(mem_stopHere hq).1, hp]; simp

theorem SVLocal.cons {f g : Info → List Nat} {p : Nat} {vs : List Nat} (hf : SVLocal f [p]) (hg : SVLocal g vs) :
    SVLocal (fun i => f i ++ g i) (p :: vs) := hf.append hg

theorem SVLocal.filter {f : Info → List Nat} {us : List Nat} (hf : SVLocal f us) (k : Nat) :
    SVLocal (fun i => (f i).filter (· != k)) us := by
  intro info info' q hq
  rw [List.mem_filter] at hq
  exact ⟨(hf info info' q hq.1).1, fun e => List.mem_filter.mpr ⟨(hf info info' q hq.1).2 e, hq.2⟩⟩

theorem SVLocal.nil (us : List Nat) : SVLocal (fun _ => []) us := fun _ _ _ h => absurd h (by simp)

mutual
theorem Stmt.sv_local : ∀ (s : Stmt) (ls : List Id), SVLocal (fun i => s.stopViol i ls) s.upos
  | .simple p t kids, ls => by
    simp only [Stmt.stopViol, Stmt.upos]; exact (SVLocal.here ls _ p rfl).cons (Kids.sv_local kids)
  | .block p b, ls => by
    simp only [Stmt.stopViol, Stmt.upos]; exact (SVLocal.here ls _ p rfl).cons (Stmts.sv_local b)
  | .ifS p t c none, ls => by
    simp only [Stmt.stopViol, Stmt.upos, List.append_assoc]
    exact (SVLocal.here ls _ p rfl).cons ((Kids.sv_local t).append (Stmt.sv_local c []))
  | .ifS p t c (some al), ls => by
    simp only [Stmt.stopViol, Stmt.upos, List.append_assoc]
    exact (SVLocal.here ls _ p rfl).cons ((Kids.sv_local t).append ((Stmt.sv_local c []).append (Stmt.sv_local al [])))
  | .whileS p t tt b, ls => by
    simp only [Stmt.stopViol, Stmt.upos, List.append_assoc]
    exact (SVLocal.here ls _ p rfl).cons ((Kids.sv_local t).append ((Stmt.sv_local b []).filter b.pos))
  | .doWhileS p b t tt, ls => by
    simp only [Stmt.stopViol, Stmt.upos, List.append_assoc]
    exact (SVLocal.here ls _ p rfl).cons ((Kids.sv_local t).append ((Stmt.sv_local b []).filter b.pos))
  | .forS p i u t ht tt b, ls => by
    simp only [Stmt.stopViol, Stmt.upos]
    have := (SVLocal.here ls (.forS p i u t ht tt b) p rfl).cons ((((Kids.sv_local i).append ((Kids.sv_local u).append (Kids.sv_local t)))).append
      ((Stmt.sv_local b []).filter b.pos))
    simpa only [List.append_assoc] using this
  | .forInOf p l r b, ls => by
    simp only [Stmt.stopViol, Stmt.upos]
    have := (SVLocal.here ls (.forInOf p l r b) p rfl).cons (((Kids.sv_local l).append (Kids.sv_local r)).append
      ((Stmt.sv_local b []).filter b.pos))
    simpa only [List.append_assoc] using this
  | .switchS p d cs, ls => by
    simp only [Stmt.stopViol, Stmt.upos, List.append_assoc]
    exact (SVLocal.here ls _ p rfl).cons ((Kids.sv_local d).append (Cases.sv_local cs))
  | .tryS p bp b hh cp ck hf fp f, ls => by
    simp only [Stmt.stopViol, Stmt.upos, List.append_assoc]
    exact (SVLocal.here ls _ p rfl).cons ((Stmts.sv_local b).append ((Kids.sv_local ck).append (Stmts.sv_local f)))
  | .labeled p l b, ls => by
    simp only [Stmt.stopViol, Stmt.upos]; exact (SVLocal.here ls _ p rfl).cons (Stmt.sv_local b (l :: ls))
  | .brk p l, ls => by simp only [Stmt.stopViol]; exact SVLocal.nil _
  | .cont p l, ls => by simp only [Stmt.stopViol]; exact SVLocal.nil _
  | .ret p arg, ls => by
    simp only [Stmt.stopViol, Stmt.upos]
    intro info info' q hq
    have := Kids.sv_local arg info info' q hq
    exact ⟨List.mem_cons_of_mem _ this.1, this.2⟩
  | .throw p arg, ls => by
    simp only [Stmt.stopViol, Stmt.upos]
    intro info info' q hq
    have := Kids.sv_local arg info info' q hq
    exact ⟨List.mem_cons_of_mem _ this.1, this.2⟩
theorem Stmts.sv_local : ∀ (l : Stmts), SVLocal (fun i => l.stopViol i) l.upos
  | .nil => by simp only [Stmts.stopViol]; exact SVLocal.nil _
  | .cons s r => by simp only [Stmts.stopViol, Stmts.upos]; exact (Stmt.sv_local s []).append (Stmts.sv_local r)
theorem Kid.sv_local : ∀ (k : Kid), SVLocal (fun i => k.stopViol i) k.upos
  | .expr _ ks => by simp only [Kid.stopViol, Kid.upos]; exact Kids.sv_local ks
  | .fnScope _ ks => by simp only [Kid.stopViol, Kid.upos]; exact Kids.sv_local ks
  | .block _ b => by simp only [Kid.stopViol, Kid.upos]; exact Stmts.sv_local b
  | .stmt s => by simp only [Kid.stopViol, Kid.upos]; exact Stmt.sv_local s []
theorem Kids.sv_local : ∀ (ks : Kids), SVLocal (fun i => ks.stopViol i) ks.upos
  | .nil => by simp only [Kids.stopViol]; exact SVLocal.nil _
  | .cons k r => by simp only [Kids.stopViol, Kids.upos]; exact (Kid.sv_local k).append (Kids.sv_local r)
theorem Cases.sv_local : ∀ (cs : Cases), SVLocal (fun i => cs.stopViol i) cs.upos
  | .nil => by simp only [Cases.stopViol]; exact SVLocal.nil _
  | .cons _ _ t b r => by
    simp only [Cases.stopViol, Cases.upos, List.append_assoc]
    exact (Kids.sv_local t).append ((Stmts.sv_local b).append (Cases.sv_local r))
end

end DL.CF
