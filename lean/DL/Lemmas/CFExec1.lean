import DL.Model.CFExec
import DL.Lemmas.CFBasic

/-! Membership of an outcome in a set of completions (`Compl.has`), and how the operations on `Compl` act on it. -/
namespace DL.CF

/-- the outcome `o` is among the completions `c` -/
def Compl.has (c : Compl) : Outcome → Bool
  | .normal => c.n
  | .brk none => c.b
  | .brk (some l) => c.bl.contains l
  | .cont none => c.c
  | .cont (some l) => c.cl.contains l
  | .ret => c.r
  | .thr => c.t

def Outcome.abrupt : Outcome → Bool
  | .normal => false
  | _ => true

theorem Outcome.abrupt_iff (o : Outcome) : o.abrupt = true ↔ o ≠ .normal := by cases o <;> simp [Outcome.abrupt]

theorem contains_filter_id (l : List Id) (p : Id → Bool) (x : Id) : (l.filter p).contains x = (l.contains x && p x) := by
  apply Bool.eq_iff_iff.mpr
  simp [List.contains_iff_mem, List.mem_filter]

@[simp] theorem has_union (x y : Compl) (o : Outcome) : (x.union y).has o = (x.has o || y.has o) := by
  rcases o with _ | l | l | _ | _ <;> try rfl
  · cases l <;> simp [Compl.has, Compl.union, List.contains_append]
  · cases l <;> simp [Compl.has, Compl.union, List.contains_append]

@[simp] theorem has_abrupt (x : Compl) (o : Outcome) : x.abrupt.has o = (o.abrupt && x.has o) := by
  rcases o with _ | l | l | _ | _ <;> try rfl
  · cases l <;> simp [Compl.has, Compl.abrupt, Outcome.abrupt]
  · cases l <;> simp [Compl.has, Compl.abrupt, Outcome.abrupt]

theorem has_seq (x y : Compl) (o : Outcome) : (x.seq y).has o = ((o.abrupt && x.has o) || (x.n && y.has o)) := by
  unfold Compl.seq
  cases hn : x.n
  · simp only [Bool.false_eq_true, if_false, Bool.false_and, Bool.or_false]
    cases o <;> simp [Outcome.abrupt, Compl.has, hn]
  · simp [has_union, has_abrupt]

@[simp] theorem has_guard (g : Bool) (x : Compl) (o : Outcome) : (Compl.guard g x).has o = (g && x.has o) := by
  unfold Compl.guard
  cases g
  · simp only [Bool.false_eq_true, if_false, Bool.false_and]
    rcases o with _ | l | l | _ | _ <;> try rfl
    · cases l <;> rfl
    · cases l <;> rfl
  · simp

theorem has_empty (o : Outcome) : ({} : Compl).has o = false := by
  rcases o with _ | l | l | _ | _ <;> try rfl
  · cases l <;> rfl
  · cases l <;> rfl

theorem has_exprOwn (e : EKind) (o : Outcome) :
    (exprOwn e).has o = (match o with | .normal => true | .thr => (match e with | .other => true | _ => false) | _ => false) := by
  cases e <;> (rcases o with _ | l | l | _ | _ <;> first | rfl | (cases l <;> rfl))

theorem has_testCompl (tt : Bool) (ks : Kids) (o : Outcome) :
    (testCompl tt ks).has o = (if tt then (match o with | .normal => true | _ => false) else ks.compl.has o) := by
  unfold testCompl testComplOf
  cases tt
  · simp
  · simp only [if_true]
    rcases o with _ | l | l | _ | _ <;> try rfl
    · cases l <;> rfl
    · cases l <;> rfl

/-- sequencing is associative (as far as membership of outcomes goes) -/
theorem has_seq_assoc (x y z : Compl) (o : Outcome) : ((x.seq y).seq z).has o = (x.seq (y.seq z)).has o := by
  simp only [has_seq, seq_n]
  cases o.abrupt <;> cases x.has o <;> cases x.n <;> cases y.has o <;> cases y.n <;> simp

theorem has_normal (o : Outcome) : Compl.normal.has o = (match o with | .normal => true | _ => false) := by
  rcases o with _ | l | l | _ | _ <;> try rfl
  · cases l <;> rfl
  · cases l <;> rfl

theorem has_single_ret (o : Outcome) : ({ r := true } : Compl).has o = (match o with | .ret => true | _ => false) := by
  rcases o with _ | l | l | _ | _ <;> try rfl
  · cases l <;> rfl
  · cases l <;> rfl

theorem has_single_thr (o : Outcome) : ({ t := true } : Compl).has o = (match o with | .thr => true | _ => false) := by
  rcases o with _ | l | l | _ | _ <;> try rfl
  · cases l <;> rfl
  · cases l <;> rfl

theorem exitsLoop_contL (ls : List Id) (l : Id) :
    (Outcome.cont (some l)).exitsLoop ls = if ls.contains l = true then none else some (.cont (some l)) := rfl

theorem exitsLoop_contL_out (ls : List Id) (l : Id) (h : ls.contains l = false) :
    (Outcome.cont (some l)).exitsLoop ls = some (.cont (some l)) := by
  rw [exitsLoop_contL, if_neg (by rw [h]; exact Bool.false_ne_true)]

theorem exitsLoop_contL_in (ls : List Id) (l : Id) (h : ls.contains l = true) :
    (Outcome.cont (some l)).exitsLoop ls = none := by
  rw [exitsLoop_contL, if_pos h]

/-- the completions of a loop in terms of the outcomes of one round `b` -/
theorem has_loopCompl (ls : List Id) (e : Bool) (b : Compl) (o : Outcome) :
    (loopCompl ls e b).has o =
      (match o with
       | .normal => e || b.b
       | .brk none => false
       | .brk (some l) => b.bl.contains l
       | .cont none => false
       | .cont (some l) => b.cl.contains l && !ls.contains l
       | .ret => b.r
       | .thr => b.t) := by
  rcases o with _ | l | l | _ | _ <;> try rfl
  · cases l <;> rfl
  · cases l with
    | none => rfl
    | some l => simp [Compl.has, loopCompl, contains_filter_id]

/-- …equivalently: some outcome of a round exits the loop as `o`, or `o` is normal and the test can be false -/
theorem has_loopCompl_iff (ls : List Id) (e : Bool) (b : Compl) (o : Outcome) :
    (loopCompl ls e b).has o = true ↔ (o = .normal ∧ e = true) ∨ ∃ o', b.has o' = true ∧ o'.exitsLoop ls = some o := by
  rw [has_loopCompl]
  constructor
  · intro h
    rcases o with _ | l | l | _ | _
    · simp only [Bool.or_eq_true] at h
      rcases h with h | h
      · exact Or.inl ⟨rfl, h⟩
      · exact Or.inr ⟨.brk none, h, rfl⟩
    · cases l with
      | none => cases h
      | some l => exact Or.inr ⟨.brk (some l), h, rfl⟩
    · cases l with
      | none => cases h
      | some l =>
        simp only [Bool.and_eq_true, Bool.not_eq_true'] at h
        exact Or.inr ⟨.cont (some l), h.1, exitsLoop_contL_out ls l h.2⟩
    · exact Or.inr ⟨.ret, h, rfl⟩
    · exact Or.inr ⟨.thr, h, rfl⟩
  · rintro (⟨rfl, he⟩ | ⟨o', h1, h2⟩)
    · simp [he]
    · rcases o' with _ | l | l | _ | _
      · simp [Outcome.exitsLoop] at h2
      · cases l with
        | none => simp only [Outcome.exitsLoop, Option.some.injEq] at h2; subst h2; simp [show b.b = true from h1]
        | some l => simp only [Outcome.exitsLoop, Option.some.injEq] at h2; subst h2; exact h1
      · cases l with
        | none => simp [Outcome.exitsLoop] at h2
        | some l =>
          cases hc : ls.contains l with
          | true => rw [exitsLoop_contL_in ls l hc] at h2; cases h2
          | false =>
            rw [exitsLoop_contL_out ls l hc, Option.some.injEq] at h2; subst h2
            show (b.cl.contains l && !ls.contains l) = true
            rw [hc]
            have : b.cl.contains l = true := h1
            rw [this]; rfl
      · simp only [Outcome.exitsLoop, Option.some.injEq] at h2; subst h2; exact h1
      · simp only [Outcome.exitsLoop, Option.some.injEq] at h2; subst h2; exact h1

/-- `goesRound` in terms of outcomes -/
theorem goesRound_iff (ls : List Id) (b : Compl) :
    goesRound ls b = true ↔ ∃ o, b.has o = true ∧ o.continuesLoop ls = true := by
  unfold goesRound
  constructor
  · intro h
    simp only [Bool.or_eq_true, List.any_eq_true] at h
    rcases h with (h | h) | ⟨l, hl, hc⟩
    · exact ⟨.normal, h, rfl⟩
    · exact ⟨.cont none, h, rfl⟩
    · exact ⟨.cont (some l), by simpa [Compl.has, List.contains_iff_mem] using hl, hc⟩
  · rintro ⟨o, h1, h2⟩
    rcases o with _ | l | l | _ | _
    · simp [show b.n = true from h1]
    · cases l <;> simp [Outcome.continuesLoop] at h2
    · cases l with
      | none => simp [show b.c = true from h1]
      | some l =>
        simp only [Bool.or_eq_true, List.any_eq_true]
        exact Or.inr ⟨l, by simpa [Compl.has, List.contains_iff_mem] using h1, h2⟩
    · simp [Outcome.continuesLoop] at h2
    · simp [Outcome.continuesLoop] at h2

theorem goesRoundAny_iff (b : Compl) : goesRoundAny b = true ↔ ∃ o, b.has o = true ∧ o.goesRoundAny = true := by
  unfold goesRoundAny
  constructor
  · intro h
    simp only [Bool.or_eq_true, Bool.not_eq_true', List.isEmpty_eq_false_iff] at h
    rcases h with (h | h) | h
    · exact ⟨.normal, h, rfl⟩
    · exact ⟨.cont none, h, rfl⟩
    · obtain ⟨l, r, hl⟩ := List.exists_cons_of_ne_nil h
      exact ⟨.cont (some l), by simp [Compl.has, hl], rfl⟩
  · rintro ⟨o, h1, h2⟩
    rcases o with _ | l | l | _ | _
    · simp [show b.n = true from h1]
    · simp [Outcome.goesRoundAny] at h2
    · cases l with
      | none => simp [show b.c = true from h1]
      | some l =>
        have : b.cl ≠ [] := by intro e; simp [Compl.has, e] at h1
        simp [this]
    · simp [Outcome.goesRoundAny] at h2
    · simp [Outcome.goesRoundAny] at h2

/-- an outcome of a loop body either leaves the loop or goes round -/
theorem exits_or_continues (ls : List Id) (o : Outcome) : (∃ o', o.exitsLoop ls = some o') ∨ o.continuesLoop ls = true := by
  rcases o with _ | l | l | _ | _
  · exact Or.inr rfl
  · cases l <;> exact Or.inl ⟨_, rfl⟩
  · cases l with
    | none => exact Or.inr rfl
    | some l =>
      cases h : ls.contains l with
      | true => exact Or.inr h
      | false => exact Or.inl ⟨_, exitsLoop_contL_out ls l h⟩
  · exact Or.inl ⟨_, rfl⟩
  · exact Or.inl ⟨_, rfl⟩

theorem Compl.any_iff (c : Compl) : c.any = true ↔ ∃ o, c.has o = true := by
  unfold Compl.any
  constructor
  · intro h
    simp only [Bool.or_eq_true, Bool.not_eq_true', List.isEmpty_eq_false_iff] at h
    rcases h with (((((h | h) | h) | h) | h) | h) | h
    · exact ⟨.normal, h⟩
    · exact ⟨.brk none, h⟩
    · exact ⟨.cont none, h⟩
    · exact ⟨.ret, h⟩
    · exact ⟨.thr, h⟩
    · obtain ⟨l, r, hl⟩ := List.exists_cons_of_ne_nil h
      exact ⟨.brk (some l), by simp [Compl.has, hl]⟩
    · obtain ⟨l, r, hl⟩ := List.exists_cons_of_ne_nil h
      exact ⟨.cont (some l), by simp [Compl.has, hl]⟩
  · rintro ⟨o, h⟩
    rcases o with _ | l | l | _ | _
    · simp [show c.n = true from h]
    · cases l with
      | none => simp [show c.b = true from h]
      | some l =>
        have : c.bl ≠ [] := by intro e; simp [Compl.has, e] at h
        simp [this]
    · cases l with
      | none => simp [show c.c = true from h]
      | some l =>
        have : c.cl ≠ [] := by intro e; simp [Compl.has, e] at h
        simp [this]
    · simp [show c.r = true from h]
    · simp [show c.t = true from h]

end DL.CF
