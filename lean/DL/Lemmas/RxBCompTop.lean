import DL.Lemmas.RxBCompRec7
import DL.Lemmas.RxCompTop
import DL.Lemmas.RxBTop

/-! # Annex B (no `u` flag), completeness: `consume_pattern`, the two passes of `validate_pattern` -/
namespace DL.Rx
open DL.RxSpec DL.Gen.Unicode

attribute [local irreducible] isScalar
variable {src : List Nat} {K : Bool × Nat}

theorem countCapturingParens_wd (n : Nat) (r : List Nat) (s : St) (h : BAt src K r s) :
    Wc (countCapturingParens n s) (fun v s1 => v = scan r false false 0 ∧ BAt src K r s1 ∧ KeepN s s1) :=
  Wc.of_wp (countCapturingParens_wb n r s h) (NE.countCapturingParens n)

/-- a valid pattern passes `consume_pattern`; the names of its groups are what is left in the state -/
theorem consumePattern_wd (hlen : src.length < 2 ^ 62) (a : Attr)
    (hder : RxSpecB.Derives K.1 qokSat a.groups.length .Disjunction src [] a)
    (hnd : (groupNames a.groups).Nodup) (hrefs : ∀ x ∈ a.refs, x ∈ groupNames a.groups)
    (n : Nat) (s : St) (h : BAt src K src s) :
    Wc (consumePattern n s) (fun _ s1 => BAt src (K.1, a.groups.length) [] s1 ∧ s1.groupNames = groupNames a.groups) := by
  have hscan : scan src false false 0 = a.groups.length := by
    have := derives_scanB hder 0
    rw [this]; simp [scan]
  have hN : a.groups.length < 2 ^ 62 := by
    have := scan_le src false false 0; omega
  have hdj : PDjB src (K.1, a.groups.length) src [] a :=
    disj_of_bodyB (derives_completeB (src := src) (K := (K.1, a.groups.length)) hN hder) (.inl rfl)
  unfold consumePattern
  refine Wc.call (countCapturingParens_wd n src s h) (fun v s1 hpost => ?_)
  obtain ⟨hv, hat1, hk1⟩ := hpost
  rw [hscan] at hv
  subst hv
  with_reducible refine Wc.bind_modSt ?_
  have hat2 : BAt src (K.1, a.groups.length) src
      { s1 with numCapturingParens := a.groups.length, groupNames := [], backreferenceNames := [] } :=
    ⟨hat1.1, hat1.2.1, hat1.2.2.1, hat1.2.2.2.1, hat1.2.2.2.2.1, rfl⟩
  refine Wc.call (hdj n _ hat2 (by
    show ([] ++ groupNames a.groups).Nodup
    rw [List.nil_append]; exact hnd)) (fun _ s2 hpost => ?_)
  obtain ⟨hat3, htr⟩ := hpost
  rx7_auto
  · rename_i name hfind
    have hmem := List.mem_of_find?_eq_some hfind
    have hp := List.find?_some hfind
    have hin : name ∈ a.refs := by
      rcases (htr.bn name).mp hmem with h | h
      · exact nomatch h
      · exact h
    have hg : name ∈ s2.groupNames := by
      rw [htr.gn]
      exact List.mem_append_right _ (hrefs name hin)
    have : s2.groupNames.contains name = true := List.contains_iff_mem.mpr hg
    rw [this] at hp
    cases hp
  · refine ⟨hat3, ?_⟩
    rw [htr.gn]; exact List.nil_append _

/-- a valid pattern passes `validate_pattern` without the `u` flag -/
theorem validatePattern_wd (source : List Nat) (hlen : (encodeUtf16 source).length < 2 ^ 62) (a₀ : Attr)
    (hder0 : RxSpecB.Derives false qokSat a₀.groups.length .Disjunction (encodeUtf16 source) [] a₀)
    (hnd0 : (groupNames a₀.groups).Nodup) (hrefs0 : ∀ x ∈ a₀.refs, x ∈ groupNames a₀.groups)
    (h1 : groupNames a₀.groups ≠ [] → ∃ a₁ : Attr,
      RxSpecB.Derives true qokSat a₁.groups.length .Disjunction (encodeUtf16 source) [] a₁ ∧
      (groupNames a₁.groups).Nodup ∧ ∀ x ∈ a₁.refs, x ∈ groupNames a₁.groups)
    (fuel : Nat) (st : St) :
    Wc (validatePattern fuel source false st) (fun _ _ => True) := by
  rw [validatePattern_eq]
  have hstat : RStatic (encodeUtf16 source) (prep source false st).reader := ⟨rfl, rfl⟩
  have hrw := rewindLoop_eq (src := encodeUtf16 source) 0 (prep source false st) hstat 4 0 rfl (Nat.zero_le _)
  have hat : BAt (encodeUtf16 source) (false, st.numCapturingParens) (encodeUtf16 source)
      ((prep source false st).setPos (encodeUtf16 source) 0) :=
    ⟨RInv.setPos hstat (Nat.zero_le _), rfl, rfl, rfl, rfl, rfl⟩
  unfold afterPrep
  refine Wc.bind ?_
  have e : rewindLoop 0 4 0 (prep source false st) = .ok () ((prep source false st).setPos (encodeUtf16 source) 0) := hrw
  rw [e]
  refine Wc.ok ?_
  refine Wc.call (consumePattern_wd (K := (false, st.numCapturingParens)) hlen a₀ hder0 hnd0 hrefs0 fuel _ hat)
    (fun _ s1 hpost => ?_)
  obtain ⟨hat1, hgn⟩ := hpost
  with_reducible refine Wc.bind_getSt ?_
  by_cases hc : (!s1.nFlag && true && !s1.groupNames.isEmpty) = true
  · rw [if_pos hc]
    with_reducible refine Wc.bind_modSt ?_
    have hne : groupNames a₀.groups ≠ [] := by
      intro he
      rw [hgn, he] at hc
      simp at hc
    obtain ⟨a₁, hder1, hnd1, hrefs1⟩ := h1 hne
    have hat2 : BAt (encodeUtf16 source) (true, a₀.groups.length) []
        { s1 with nFlag := true } := ⟨hat1.1, hat1.2.1, hat1.2.2.1, hat1.2.2.2.1, rfl, hat1.2.2.2.2.2⟩
    refine WcB.bind_rewind' hat2 (Nat.zero_le _) (fun hat3 => ?_)
    refine Wc.tail ?_
    refine Wc.call (consumePattern_wd (K := (true, a₀.groups.length)) hlen a₁ hder1 hnd1 hrefs1 fuel _ hat3)
      (fun _ s2 _ => ?_)
    exact Wc.pure trivial
  · rw [if_neg hc]
    exact Wc.pure trivial

end DL.Rx
