import DL.Lemmas.RxSpecDigits
import DL.Lemmas.RxLeaves

/-! # Soundness w.r.t. the grammar: `DecimalEscape`, back references -/
namespace DL.Rx
open DL.RxSpec
attribute [local irreducible] isScalar
variable {src : List Nat} {N : Nat}

theorem Wp.bind_checkedI64 {β : Type} {v : Int} {site : String} {g : Int → M β} {s : St} {Q : β → St → Prop}
    (h : i64Min ≤ v ∧ v ≤ i64Max) (hg : Wp (g v s) Q) : Wp ((checkedI64 v site >>= g) s) Q := by
  rw [checkedI64_inrange h]; exact hg

theorem decVal_le {x : Nat} (h : DecimalDigit x) : decVal x ≤ 9 := by
  have h' : 0x30 ≤ x ∧ x ≤ 0x39 := h
  show x - 0x30 ≤ 9
  omega

theorem eatDecimalEscape_wp (n : Nat) (r : List Nat) (s : St) (h : UAt src N r s) :
    Wp (eatDecimalEscape n s) (fun b s1 => Keep s s1 ∧
      if b = true then ∃ r1 v, UAt src N r1 s1 ∧ DecimalEscape r r1 v ∧ s1.lastIntValue = satI v
      else UAt src N r s1) := by
  unfold eatDecimalEscape
  rx4_auto
  · rx4_false
  · rename_i x r' hc d hd
    have hx : isAsciiDigit x = true := (Bool.and_eq_true _ _ |>.mp hc).1
    have hx0 : x ≠ ch '0' := by
      have := (Bool.and_eq_true _ _ |>.mp hc).2
      simpa using this
    have hdd := decimalDigit_of_isAsciiDigit hx
    rw [toDigit10_eq hx] at hd
    cases hd
    have hle := decVal_le hdd
    refine Wp.bind_checkedI64 (by
      show i64Min ≤ 10 * (0 : Int) + (decVal x : Int) ∧ 10 * (0 : Int) + (decVal x : Int) ≤ i64Max
      unfold i64Min i64Max; omega) ?_
    rx4_auto
    rename_i hat a s1 ds r1 hr hds hnx hat1 hs1
    subst hs1
    refine ⟨⟨rfl, rfl, rfl⟩, ?_⟩
    rw [if_pos rfl]
    refine ⟨r1, mvDec (x :: ds), hat1, ⟨x :: ds, by rw [hr]; rfl, ⟨x, ds, rfl, ?_⟩, ?_, hnx, rfl⟩, ?_⟩
    · have h' : 0x30 ≤ x ∧ x ≤ 0x39 := hdd
      have : x ≠ 0x30 := hx0
      show 0x31 ≤ x ∧ x ≤ 0x39
      omega
    · intro d hd
      rcases List.mem_cons.mp hd with rfl | hd
      · exact hdd
      · exact hds d hd
    · st_norm
      show accDec (10 * (0 : Int) + (decVal x : Int)) ds = satI (mvDec (x :: ds))
      have : (10 * (0 : Int) + (decVal x : Int)) = satI (decVal x) := by
        unfold satI i64Max; rw [if_pos (by omega)]; omega
      rw [this, accDec_satI]
      show satI _ = satI (List.foldl _ (10 * 0 + decVal x) ds)
      rw [Nat.mul_zero, Nat.zero_add]
  · rx4_false

theorem le_of_satI_le {v : Nat} (hN : N < 2 ^ 62) (h : satI v ≤ (N : Int)) : v ≤ N := by
  unfold satI i64Max at h
  split at h <;> omega

theorem consumeBackreference_wp (hN : N < 2 ^ 62) (n : Nat) (r : List Nat) (s : St) (h : UAt src N r s) :
    Wp (consumeBackreference n s) (fun b s1 => Keep s s1 ∧
      if b = true then ∃ r1, UAt src N r1 s1 ∧ AtomEscape N r r1 Attr.nil else UAt src N r s1) := by
  unfold consumeBackreference
  rx4_auto
  · rx4_false
  · rename_i s1 hk r1 v hat hde hv hle
    rx4_true
    rw [hv, hat.ncp] at hle
    exact ⟨r1, hat, AtomEscape.decimal r r1 v hde (le_of_satI_le hN hle)⟩

end DL.Rx
