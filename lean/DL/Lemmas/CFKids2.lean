import DL.Lemmas.CFKids

/-! The invariant for expressions that contain function scopes. -/
namespace DL.CF

/-- what is reached when a function with these kids (parameters, body block) is entered, or a function nested in them -/
def Kids.fnReach (ks : Kids) (q : Nat) : Bool := ks.entryReach q || ks.flowReach q || ks.inner q

theorem Kids.fnReach_false (ks : Kids) (q : Nat) (h : q ∉ ks.positions) : ks.fnReach q = false := by
  simp [Kids.fnReach, ks.entryReach_false q h, ks.flowReach_false q h, ks.inner_false q h]

theorem exprEffect_mt (k : EKind) (a : A) : (a.sc.mayThrow = true → (exprEffect k a).sc.mayThrow = true) ∧
    (stopsEnd a.sc.end_ = false → k = .other → (exprEffect k a).sc.mayThrow = true) := by
  unfold exprEffect
  rcases h : a.sc.end_ with _ | ⟨r, t, i⟩ | _ | _ <;> cases k <;> simp [h]

theorem expr_ok (e : EKind) (ks : Kids) (a : A)
    (h : PostK ks.upos ks.positions ks.inner ks.mayThrow a (visitKids ks a)) :
    PostK (Kid.expr e ks).upos (Kid.expr e ks).positions (Kid.expr e ks).inner (Kid.expr e ks).mayThrow a (visitKid (.expr e ks) a) := by
  simp only [visitKid, Kid.upos, Kid.positions]
  have := h.same (thr' := (Kid.expr e ks).mayThrow) (exprEffect_same e _) (exprEffect_mt e _).1 (by
    intro hs ht
    cases e with
    | other => exact (exprEffect_mt _ _).2 (by rw [h.end_]; exact hs) rfl
    | ident id => exact (exprEffect_mt _ _).1 (h.pT hs (by simpa [Kid.mayThrow] using ht))
    | this => exact (exprEffect_mt _ _).1 (h.pT hs (by simpa [Kid.mayThrow] using ht)))
  exact ⟨⟨fun q hq hu => by simp only [Kid.inner]; exact this.p3 q hq hu, this.frame⟩, this.end_, this.fb, this.fc, this.mt, this.pT⟩

/-- `with_child_scope(BlockKind::Function, ..)`: what the parent sees afterwards -/
theorem withChild_function (p : Nat) (op : A → A) (a : A) :
    let c := op { sc := { end_ := none }, info := a.info }
    let r := withChild .function p op a
    r.sc.end_ = a.sc.end_ ∧ r.sc.foundBreak = a.sc.foundBreak ∧
    r.sc.foundContinue = (a.sc.foundContinue || c.sc.foundContinue) ∧
    r.sc.mayThrow = (a.sc.mayThrow || c.sc.mayThrow) ∧
    (∀ q, r.info.ur q = c.info.ur q) ∧ (∀ q, q ≠ p → r.info q = c.info q) := by
  simp only [withChild, withChildR, childEnd]
  generalize op { sc := { end_ := none }, info := a.info } = c
  rcases hce : c.sc.end_ with _ | e
  · simp [childExit, mergeSc, mergeFb]
  · cases e <;> simp [childExit, mergeSc, mergeFb] <;> intro q hq <;> exact markAsEnd_info_other _ _ _ _ hq

theorem fnScope_ok (p : Nat) (ks : Kids) (a : A) (hpre : PreK (p :: ks.positions) a)
    (ih : ∀ x, PreK ks.positions x → x.sc.end_ = none →
      PostI ks.upos ks.positions ks.fnReach x (visitKids ks x)) :
    PostK (Kid.fnScope p ks).upos (Kid.fnScope p ks).positions (Kid.fnScope p ks).inner (Kid.fnScope p ks).mayThrow a (visitKid (.fnScope p ks) a) := by
  have hnd := List.nodup_cons.mp hpre.nodup
  have hI := ih { sc := { end_ := none }, info := a.info }
    ⟨fun q hq => hpre.fresh q (List.mem_cons_of_mem _ hq), hnd.2⟩ rfl
  obtain ⟨he, hb, hc, hmt, hur, hinfo⟩ := withChild_function p (visitKids ks) a
  simp only [visitKid, Kid.upos, Kid.positions]
  refine ⟨⟨?_, ?_⟩, he, hb, fun h => by rw [hc, h]; rfl, fun h => by rw [hmt, h]; rfl, fun _ h => by simp [Kid.mayThrow] at h⟩
  · intro q hq hu
    rw [hur] at hu
    have := hI.p3 q hq hu
    simpa only [Kid.inner, Kids.fnReach] using this
  · intro q hq
    simp only [List.mem_cons, not_or] at hq
    rw [hinfo q hq.1, hI.frame q hq.2]

theorem okFn_nil (x : A) : PostI Kids.nil.upos Kids.nil.positions Kids.nil.fnReach x (visitKids .nil x) :=
  ⟨fun _ h _ => absurd h (by simp [Kids.upos]), fun _ _ => rfl⟩

theorem okFn_block (q : Nat) (body : Stmts) (x : A) (hpre : PreK (Kids.cons (.block q body) .nil).positions x)
    (he : x.sc.end_ = none)
    (ih : ∀ a0, Pre true body.positions a0 → PostL true body.upos body.positions body.compl body.reach body.inner a0 (visitStmts body a0)) :
    PostI (Kids.cons (.block q body) .nil).upos (Kids.cons (.block q body) .nil).positions
      (Kids.cons (.block q body) .nil).fnReach x (visitKids (.cons (.block q body) .nil) x) := by
  have hpos : (Kids.cons (.block q body) .nil).positions = q :: body.positions := by simp [Kids.positions, Kid.positions]
  have hup : (Kids.cons (.block q body) .nil).upos = body.upos := by simp [Kids.upos, Kid.upos]
  rw [hpos] at hpre ⊢
  rw [hup]
  have hnd := List.nodup_cons.mp hpre.nodup
  have hb := ih x ⟨fun h => by rw [he] at h; simp at h, fun u hu => hpre.fresh u (List.mem_cons_of_mem _ hu), hnd.2⟩
  simp only [visitKids, visitKid]
  refine ⟨?_, ?_⟩
  · intro u hu hur
    rw [blockTail_ur] at hur
    have hne : u ≠ q := fun e => hnd.1 (e ▸ Stmts.upos_sub body u hu)
    have h1 := hb.p3 u hu hur
    have h2 := hb.p3i u hu hur
    simp only [Bool.true_and] at h1
    simp [Kids.fnReach, Kids.entryReach, Kids.flowReach, Kid.flowReach, Kids.inner, Kid.inner, h1, h2, hne]
  · intro u hu
    simp only [List.mem_cons, not_or] at hu
    unfold blockTail
    rw [markAsEnd_info_other _ _ _ _ hu.1, hb.frame u hu.2]

theorem okFn_cons (k : Kid) (r : Kids) (x : A) (hpre : PreK (Kids.cons k r).positions x)
    (he : x.sc.end_ = none)
    (hentry : ∀ q, (Kids.cons k r).entryReach q = r.entryReach q) (hflow : ∀ q, k.flowReach q = false)
    (hk : ∀ x, PreK k.positions x → PostK k.upos k.positions k.inner k.mayThrow x (visitKid k x))
    (ih : ∀ x, PreK r.positions x → x.sc.end_ = none →
      PostI r.upos r.positions r.fnReach x (visitKids r x)) :
    PostI (Kids.cons k r).upos (Kids.cons k r).positions (Kids.cons k r).fnReach x (visitKids (.cons k r) x) := by
  simp only [Kids.positions] at hpre
  have h1 := hk x hpre.left
  have h2 := ih _ (hpre.right h1.frame) (h1.end_.trans he)
  simp only [visitKids, Kids.upos, Kids.positions]
  generalize visitKid k x = x1 at h1 h2
  generalize visitKids r x1 = x2 at h2
  refine ⟨?_, ?_⟩
  · intro u hu hur
    simp only [Kids.fnReach, hentry, Kids.flowReach, hflow, Kids.inner, Bool.false_or]
    rcases List.mem_append.mp hu with hu | hu
    · have hnr : u ∉ r.positions := fun h => hpre.disj u (Kid.upos_sub k u hu) h
      rw [ur_eq_of_info_eq (h2.frame u hnr)] at hur
      simp [h1.p3 u hu hur, r.entryReach_false u hnr, r.flowReach_false u hnr, r.inner_false u hnr]
    · have hnk : u ∉ k.positions := fun h => hpre.disj u h (Kids.upos_sub r u hu)
      have := h2.p3 u hu hur
      simp only [Kids.fnReach, Bool.or_eq_false_iff] at this
      simp [this.1.1, this.1.2, this.2, k.inner_false u hnk]
  · intro u hu
    simp only [List.mem_append, not_or] at hu
    rw [h2.frame u hu.2, h1.frame u hu.1]

theorem kidsCons_ok (k : Kid) (r : Kids) (x : A) (hpre : PreK (Kids.cons k r).positions x)
    (hk : ∀ x, PreK k.positions x → PostK k.upos k.positions k.inner k.mayThrow x (visitKid k x))
    (ih : ∀ x, PreK r.positions x → PostK r.upos r.positions r.inner r.mayThrow x (visitKids r x)) :
    PostK (Kids.cons k r).upos (Kids.cons k r).positions (Kids.cons k r).inner (Kids.cons k r).mayThrow x (visitKids (.cons k r) x) := by
  simp only [Kids.positions] at hpre
  have h1 := hk x hpre.left
  have h2 := ih _ (hpre.right h1.frame)
  have := h1.seq h2 hpre.disj (Kid.upos_sub k) (Kids.upos_sub r) (Kid.inner_false k) (Kids.inner_false r)
  simp only [visitKids, Kids.upos, Kids.positions]
  exact ⟨⟨fun q hq hu => by simp only [Kids.inner]; exact this.p3 q hq hu, this.frame⟩, this.end_, this.fb, this.fc, this.mt,
    fun hs ht => this.pT hs (by simpa [Kids.mayThrow] using ht)⟩

end DL.CF
