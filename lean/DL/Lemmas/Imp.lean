import DL.Model.ImportFix
/-!
# Helper lemmas for the import-fix model: `raw`, `dirAt`, `suppressed`, `kept` under `dropName` / `insertLine`
-/
namespace DL.Imp

/-- a placement that does not separate a directive naming the rule from references on the line below it -/
def Safe (f : File) : Where → Prop
  | .newLineAt k => k ≤ f.length ∧ ¬ (0 < k ∧ dirAt f (k - 1) = true ∧ ∃ l, f[k]? = some l ∧ l.refs ≠ [])
  | .sameLine => True

/-! ## `rawFrom` -/

theorem rawFrom_nil (i : Nat) : rawFrom i [] = [] := rfl

theorem rawFrom_cons (i : Nat) (l : Line) (ls : File) :
    rawFrom i (l :: ls) = l.refs.map (fun n => (i, n)) ++ rawFrom (i + 1) ls := rfl

/-- every raw diagnostic comes from a reference on its line -/
theorem mem_rawFrom {i : Nat} {f : File} {d : Nat × Name} (h : d ∈ rawFrom i f) :
    ∃ j l, f[j]? = some l ∧ d.1 = i + j ∧ d.2 ∈ l.refs := by
  induction f generalizing i with
  | nil => simp [rawFrom_nil] at h
  | cons a as ih =>
    rw [rawFrom_cons, List.mem_append] at h
    cases h with
    | inl h =>
      rw [List.mem_map] at h
      obtain ⟨n, hn, rfl⟩ := h
      exact ⟨0, a, rfl, rfl, hn⟩
    | inr h =>
      obtain ⟨j, l, hj, h1, h2⟩ := ih h
      refine ⟨j + 1, l, ?_, ?_, h2⟩
      · simpa using hj
      · omega

theorem le_of_mem_rawFrom {i : Nat} {f : File} {d : Nat × Name} (h : d ∈ rawFrom i f) : i ≤ d.1 := by
  obtain ⟨j, _, _, h1, _⟩ := mem_rawFrom h
  omega

theorem mem_raw {f : File} {d : Nat × Name} (h : d ∈ raw f) :
    ∃ l, f[d.1]? = some l ∧ d.2 ∈ l.refs := by
  obtain ⟨j, l, hj, h1, h2⟩ := mem_rawFrom h
  have : d.1 = j := by omega
  exact ⟨l, this ▸ hj, h2⟩

theorem rawFrom_succ (i : Nat) (f : File) :
    rawFrom (i + 1) f = (rawFrom i f).map (fun d => (d.1 + 1, d.2)) := by
  induction f generalizing i with
  | nil => rfl
  | cons a as ih =>
    rw [rawFrom_cons, rawFrom_cons, ih (i + 1), List.map_append, List.map_map]
    rfl

/-! ## `dropName` -/

theorem refs_filter (is : List Item) (g : Name) :
    (is.filter fun it => it != .ref g).filterMap Item.refName? =
      (is.filterMap Item.refName?).filter (fun n => n != g) := by
  induction is with
  | nil => rfl
  | cons a as ih =>
    cases a with
    | imp e =>
      have : ((Item.imp e) != Item.ref g) = true := by simp
      simp only [List.filter_cons, this, if_true, List.filterMap_cons, Item.refName?, ih]
    | ref n =>
      by_cases hn : n = g
      · subst hn
        simp [Item.refName?, ih]
      · have h1 : ((Item.ref n) != Item.ref g) = true := by simp [hn]
        have h2 : (n != g) = true := by simp [hn]
        simp only [List.filter_cons, h1, if_true, List.filterMap_cons, Item.refName?, ih, h2]

theorem dropName_nil (g : Name) : dropName [] g = [] := rfl

theorem dropName_cons (l : Line) (ls : File) (g : Name) :
    dropName (l :: ls) g = { l with items := l.items.filter fun it => it != .ref g } :: dropName ls g := rfl

theorem rawFrom_dropName (i : Nat) (f : File) (g : Name) :
    rawFrom i (dropName f g) = (rawFrom i f).filter (fun d => d.2 != g) := by
  induction f generalizing i with
  | nil => rfl
  | cons a as ih =>
    rw [dropName_cons, rawFrom_cons, rawFrom_cons, List.filter_append, ih (i + 1)]
    congr 1
    simp only [Line.refs, refs_filter, List.filter_map]
    rfl

theorem raw_dropName (f : File) (g : Name) : raw (dropName f g) = (raw f).filter (fun d => d.2 != g) :=
  rawFrom_dropName 0 f g

theorem length_dropName (f : File) (g : Name) : (dropName f g).length = f.length := by
  simp [dropName]

theorem getElem?_dropName (f : File) (g : Name) (j : Nat) :
    (dropName f g)[j]? = (f[j]?).map fun l => { l with items := l.items.filter fun it => it != .ref g } := by
  simp [dropName]

theorem dirAt_dropName (f : File) (g : Name) (j : Nat) : dirAt (dropName f g) j = dirAt f j := by
  unfold dirAt
  rw [getElem?_dropName]
  cases f[j]? <;> rfl

theorem suppressed_dropName (f : File) (g : Name) (l : Nat) : suppressed (dropName f g) l = suppressed f l := by
  unfold suppressed
  rw [dirAt_dropName]

theorem kept_dropName (f : File) (g : Name) :
    kept (dropName f g) = (kept f).filter (fun d => d.2 != g) := by
  unfold kept
  rw [raw_dropName, List.filter_filter, List.filter_filter]
  apply List.filter_congr
  intro d _
  rw [suppressed_dropName, Bool.and_comm]

theorem Safe_dropName {f : File} {w : Where} (g : Name) (h : Safe f w) : Safe (dropName f g) w := by
  cases w with
  | sameLine => trivial
  | newLineAt k =>
    obtain ⟨h1, h2⟩ := h
    refine ⟨by rw [length_dropName]; exact h1, ?_⟩
    rintro ⟨hk, hd, l, hl, hr⟩
    rw [dirAt_dropName] at hd
    rw [getElem?_dropName] at hl
    cases hfk : f[k]? with
    | none => rw [hfk] at hl; cases hl
    | some l0 =>
      rw [hfk] at hl
      simp only [Option.map_some, Option.some.injEq] at hl
      subst hl
      apply h2
      refine ⟨hk, hd, l0, hfk, ?_⟩
      intro h0
      apply hr
      simp only [Line.refs] at h0 ⊢
      rw [refs_filter, h0]
      rfl

/-! ## `insertLine` -/

theorem insertLine_zero (f : File) : insertLine f 0 = newLine :: f := rfl

theorem insertLine_cons_succ (l : Line) (ls : File) (k : Nat) :
    insertLine (l :: ls) (k + 1) = l :: insertLine ls k := rfl

theorem newLine_refs : newLine.refs = [] := rfl

theorem rawFrom_insertLine (i : Nat) (f : File) (k : Nat) (hk : k ≤ f.length) :
    rawFrom i (insertLine f k) = (rawFrom i f).map (fun d => (shiftLine (i + k) d.1, d.2)) := by
  induction f generalizing i k with
  | nil =>
    have : k = 0 := by simpa using hk
    subst this
    rfl
  | cons a as ih =>
    cases k with
    | zero =>
      rw [insertLine_zero, rawFrom_cons, newLine_refs, List.map_nil, List.nil_append, rawFrom_succ]
      apply List.map_congr_left
      intro d hd
      have := le_of_mem_rawFrom hd
      simp only [shiftLine, Nat.add_zero, this, if_true]
    | succ k =>
      have hk' : k ≤ as.length := by simpa using hk
      rw [insertLine_cons_succ, rawFrom_cons, rawFrom_cons, ih (i + 1) k hk', List.map_append, List.map_map]
      congr 1
      · apply List.map_congr_left
        intro n _
        have : ¬ (i + (k + 1) ≤ i) := by omega
        simp only [Function.comp, shiftLine, this, if_false]
      · apply List.map_congr_left
        intro d _
        have : i + 1 + k = i + (k + 1) := by omega
        rw [this]

theorem raw_insertLine (f : File) (k : Nat) (hk : k ≤ f.length) :
    raw (insertLine f k) = (raw f).map (shiftBy (.newLineAt k)) := by
  unfold raw
  rw [rawFrom_insertLine 0 f k hk]
  apply List.map_congr_left
  intro d _
  simp only [shiftBy, Nat.zero_add]

theorem getElem?_insertLine_lt (f : File) {k j : Nat} (hk : k ≤ f.length) (hj : j < k) :
    (insertLine f k)[j]? = f[j]? := by
  unfold insertLine
  rw [List.getElem?_append_left (by rw [List.length_take]; omega), List.getElem?_take, if_pos hj]

theorem getElem?_insertLine_eq (f : File) {k : Nat} (hk : k ≤ f.length) :
    (insertLine f k)[k]? = some newLine := by
  unfold insertLine
  rw [List.getElem?_append_right (by rw [List.length_take]; omega)]
  have : k - (List.take k f).length = 0 := by rw [List.length_take]; omega
  rw [this]
  rfl

theorem getElem?_insertLine_gt (f : File) {k j : Nat} (hk : k ≤ f.length) (hj : k ≤ j) :
    (insertLine f k)[j + 1]? = f[j]? := by
  unfold insertLine
  rw [List.getElem?_append_right (by rw [List.length_take]; omega)]
  have : j + 1 - (List.take k f).length = (j - k) + 1 := by rw [List.length_take]; omega
  rw [this, List.getElem?_cons_succ, List.getElem?_drop]
  congr 1
  omega

theorem dirAt_insertLine_lt (f : File) {k j : Nat} (hk : k ≤ f.length) (hj : j < k) :
    dirAt (insertLine f k) j = dirAt f j := by
  unfold dirAt; rw [getElem?_insertLine_lt f hk hj]

theorem dirAt_insertLine_eq (f : File) {k : Nat} (hk : k ≤ f.length) :
    dirAt (insertLine f k) k = false := by
  unfold dirAt; rw [getElem?_insertLine_eq f hk]; rfl

theorem dirAt_insertLine_gt (f : File) {k j : Nat} (hk : k ≤ f.length) (hj : k ≤ j) :
    dirAt (insertLine f k) (j + 1) = dirAt f j := by
  unfold dirAt; rw [getElem?_insertLine_gt f hk hj]

/-- under `Safe`, a line that carries a reference is suppressed after the insertion iff it was before -/
theorem suppressed_insertLine (f : File) (k : Nat) (h : Safe f (.newLineAt k)) (l : Nat) (ln : Line)
    (hl : f[l]? = some ln) (hr : ln.refs ≠ []) :
    suppressed (insertLine f k) (shiftLine k l) = suppressed f l := by
  obtain ⟨hk, hs⟩ := h
  unfold suppressed shiftLine
  by_cases hkl : k ≤ l
  · rw [if_pos hkl]
    have e1 : l + 1 - 1 = l := by omega
    rw [e1]
    by_cases hkl' : k = l
    · subst hkl'
      rw [dirAt_insertLine_eq f hk]
      cases k with
      | zero => rfl
      | succ k =>
        have : dirAt f (k + 1 - 1) ≠ true := fun hd => hs ⟨by omega, hd, ln, hl, hr⟩
        have e2 : dirAt f (k + 1 - 1) = false := by
          cases hh : dirAt f (k + 1 - 1) with
          | false => rfl
          | true => exact absurd hh this
        rw [e2]; simp
    · have hlt : k ≤ l - 1 := by omega
      have := dirAt_insertLine_gt f hk hlt
      have e3 : l - 1 + 1 = l := by omega
      rw [e3] at this
      rw [this]
      have h1 : decide (l + 1 > 0) = true := by simp
      have h2 : decide (l > 0) = true := by simp; omega
      rw [h1, h2]
  · rw [if_neg hkl]
    cases l with
    | zero => rfl
    | succ l =>
      have : l + 1 - 1 < k := by omega
      rw [dirAt_insertLine_lt f hk this]

theorem kept_insertLine (f : File) (k : Nat) (h : Safe f (.newLineAt k)) :
    kept (insertLine f k) = (kept f).map (shiftBy (.newLineAt k)) := by
  unfold kept
  rw [raw_insertLine f k h.1, List.filter_map]
  congr 1
  apply List.filter_congr
  intro d hd
  obtain ⟨ln, hl, hn⟩ := mem_raw hd
  have hr : ln.refs ≠ [] := by
    intro h0; rw [h0] at hn; cases hn
  have := suppressed_insertLine f k h d.1 ln hl hr
  simp only [Function.comp, shiftBy, this]

/-- names reported after dropping `g` are different from `g` -/
theorem ne_of_mem_raw_dropName {f : File} {g : Name} {d : Nat × Name} (h : d ∈ raw (dropName f g)) : d.2 ≠ g := by
  rw [raw_dropName, List.mem_filter] at h
  simpa using h.2

/-- the names reported after an insertion (anywhere, even past the end) are names reported before -/
theorem snd_mem_rawFrom_insertLine {i : Nat} {f : File} {k : Nat} {d : Nat × Name}
    (h : d ∈ rawFrom i (insertLine f k)) : ∃ d' ∈ rawFrom i f, d'.2 = d.2 := by
  induction f generalizing i k with
  | nil =>
    have : insertLine [] k = [newLine] := by cases k <;> rfl
    rw [this] at h
    simp [rawFrom_cons, newLine_refs, rawFrom_nil] at h
  | cons a as ih =>
    cases k with
    | zero =>
      rw [insertLine_zero, rawFrom_cons, newLine_refs, List.map_nil, List.nil_append, rawFrom_succ,
        List.mem_map] at h
      obtain ⟨d', hd', rfl⟩ := h
      exact ⟨d', hd', rfl⟩
    | succ k =>
      rw [insertLine_cons_succ, rawFrom_cons, List.mem_append] at h
      cases h with
      | inl h => exact ⟨d, by rw [rawFrom_cons, List.mem_append]; exact Or.inl h, rfl⟩
      | inr h =>
        obtain ⟨d', hd', he⟩ := ih h
        exact ⟨d', by rw [rawFrom_cons, List.mem_append]; exact Or.inr hd', he⟩

end DL.Imp
