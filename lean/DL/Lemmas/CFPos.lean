import DL.Lemmas.CFBasic

/-!
# Fragment and position bookkeeping for the soundness invariant of the control-flow analyzer

* `Stmt.inF` / `Kids.okF` / `Kids.okFn` — the fragment: statements whose expressions may contain function scopes
  (parameters, then at most one body block whose statements are again in the fragment) and nested statements / blocks
  (`with` bodies, class static blocks), to any depth, with these restrictions on *where* nested statements may sit:
  anywhere in the expressions of a `simple` statement; in a `return`/`throw` argument, an `if`/`while`/`for` test, a
  `for` init and the right side of a `for-in/of` only if they cannot `break`/`continue` out of the expression
  (`Compl.plain`), and not at all in a test known to be true; not in a `do-while` test, a `for` update, the left side of
  a `for-in/of` (the analyzer is unsound there: `DL.Props.C10`), a `switch` discriminant, a case test, catch or function
  parameters (`Kids.pure`).
* `positions` — every key of the metadata map a visit may write (`end_` or `unreachable`).
* `upos` — the keys whose `unreachable` flag a visit writes: the start positions of statements, at any depth.
* `Kids.fpos` — the positions of the function scopes of an expression tree that are not nested in another function.
  The position of an expression/declaration statement may coincide with one of them (`() => {…};`, `function f(){…}`).
-/
namespace DL.CF

def Tag.isDeclOrExpr : Tag → Bool
  | .fnDecl _ | .varNoInit | .tsDecl | .decl | .exprStmt => true
  | _ => false

theorem Stmt.isDeclOrExpr_simple (p : Nat) (t : Tag) (kids : Kids) :
    (Stmt.simple p t kids).isDeclOrExpr = t.isDeclOrExpr := by
  cases t <;> rfl

def Kids.isNil : Kids → Bool
  | .nil => true
  | _ => false

def Stmts.isNil : Stmts → Bool
  | .nil => true
  | _ => false

mutual
def Kid.fpos : Kid → List Nat
  | .expr _ ks => ks.fpos
  | .fnScope p _ => [p]
  | .block _ _ => []
  | .stmt _ => []
def Kids.fpos : Kids → List Nat
  | .nil => []
  | .cons k r => k.fpos ++ r.fpos
end

/-- the position of an optional clause (`catch`, `finally`): absent clauses have a dummy position -/
def optPos (b : Bool) (p : Nat) : List Nat := if b then [p] else []

mutual
def Stmt.positions : Stmt → List Nat
  | .simple p t kids => if t.isDeclOrExpr && kids.fpos.contains p then kids.positions else p :: kids.positions
  | .block p b => p :: b.positions
  | .ifS p t c none => p :: (t.positions ++ c.positions)
  | .ifS p t c (some a) => p :: (t.positions ++ (c.positions ++ a.positions))
  | .whileS p t _ b => p :: (t.positions ++ b.positions)
  | .doWhileS p b t _ => p :: (t.positions ++ b.positions)
  | .forS p i u t _ _ b => p :: ((i.positions ++ (u.positions ++ t.positions)) ++ b.positions)
  | .forInOf p l r b => p :: ((l.positions ++ r.positions) ++ b.positions)
  | .switchS p d cs => p :: (d.positions ++ cs.positions)
  | .tryS p bp b hh cp ck hf fp f => p :: bp :: (b.positions ++ ((optPos hh cp ++ ck.positions) ++ (optPos hf fp ++ f.positions)))
  | .labeled p _ b => p :: b.positions
  | .brk p _ => [p]
  | .cont p _ => [p]
  | .ret p a => p :: a.positions
  | .throw p a => p :: a.positions
def Stmts.positions : Stmts → List Nat
  | .nil => []
  | .cons s r => s.positions ++ r.positions
def Kid.positions : Kid → List Nat
  | .expr _ ks => ks.positions
  | .fnScope p ks => p :: ks.positions
  | .block p b => p :: b.positions
  | .stmt s => s.positions
def Kids.positions : Kids → List Nat
  | .nil => []
  | .cons k r => k.positions ++ r.positions
def Cases.positions : Cases → List Nat
  | .nil => []
  | .cons p _ t b r => p :: (t.positions ++ (b.positions ++ r.positions))
end

mutual
def Stmt.upos : Stmt → List Nat
  | .simple p _ kids => p :: kids.upos
  | .block p b => p :: b.upos
  | .ifS p t c none => p :: (t.upos ++ c.upos)
  | .ifS p t c (some a) => p :: (t.upos ++ (c.upos ++ a.upos))
  | .whileS p t _ b => p :: (t.upos ++ b.upos)
  | .doWhileS p b t _ => p :: (t.upos ++ b.upos)
  | .forS p i u t _ _ b => p :: ((i.upos ++ (u.upos ++ t.upos)) ++ b.upos)
  | .forInOf p l r b => p :: ((l.upos ++ r.upos) ++ b.upos)
  | .switchS p d cs => p :: (d.upos ++ cs.upos)
  | .tryS p _ b _ _ ck _ _ f => p :: (b.upos ++ (ck.upos ++ f.upos))
  | .labeled p _ b => p :: b.upos
  | .brk p _ => [p]
  | .cont p _ => [p]
  | .ret p a => p :: a.upos
  | .throw p a => p :: a.upos
def Stmts.upos : Stmts → List Nat
  | .nil => []
  | .cons s r => s.upos ++ r.upos
def Kid.upos : Kid → List Nat
  | .expr _ ks => ks.upos
  | .fnScope _ ks => ks.upos
  | .block _ b => b.upos
  | .stmt s => s.upos
def Kids.upos : Kids → List Nat
  | .nil => []
  | .cons k r => k.upos ++ r.upos
def Cases.upos : Cases → List Nat
  | .nil => []
  | .cons _ _ t b r => t.upos ++ (b.upos ++ r.upos)
end

/-! ### the fragment

Every form of statement and of expression kid is in it.  Statements nested directly in expressions (`with` bodies:
`Kid.stmt`; class static blocks: `Kid.block`) are admitted
* without restriction among the kids of a `simple` statement (expression / declaration / `with` statements);
* with "plain" completions (normal or throw: no `break`/`continue` escapes — the rule for class static blocks) in the
  argument of `return`/`throw`, the test of `if`, the test of `while` and `for` (unless it is known to be true), the
  initialiser of `for`, the iterated expression of `for-in/of`;
* not in: the test of `do-while`, the update of `for`, the binding of `for-in/of` (there the analyzer model is unsound,
  see `DL.Props.C10`), nor in a `switch` discriminant, case tests, catch and function parameters (kept pure). -/
mutual
def Kid.okF : Kid → Bool
  | .expr _ ks => ks.okF
  | .fnScope _ ks => ks.okFn
  | .block _ b => b.inF
  | .stmt s => s.inF
def Kids.okF : Kids → Bool
  | .nil => true
  | .cons k r => k.okF && r.okF
/-- the kids of a function scope or of a catch clause: parameters (pure expressions), then at most one body block -/
def Kids.okFn : Kids → Bool
  | .nil => true
  | .cons (.block _ body) r => body.inF && r.isNil
  | .cons (.expr _ ks) r => ks.okF && ks.pure && r.okFn
  | .cons (.fnScope _ ks) r => ks.okFn && r.okFn
  | .cons (.stmt _) _ => false
def Stmt.inF : Stmt → Bool
  | .simple _ _ kids => kids.okF
  | .block _ b => b.inF
  | .ifS _ t c none => t.okF && t.compl.plain && c.inF
  | .ifS _ t c (some a) => t.okF && t.compl.plain && c.inF && a.inF
  | .whileS _ t tt b => t.okF && t.compl.plain && (!tt || t.pure) && b.inF
  | .doWhileS _ b t _ => t.okF && t.pure && b.inF
  | .forS _ i u t _ tt b => i.okF && i.compl.plain && (u.okF && u.pure) && (t.okF && t.compl.plain && (!tt || t.pure)) && b.inF
  | .forInOf _ l r b => (l.okF && l.pure) && (r.okF && r.compl.plain) && b.inF
  | .switchS _ d cs => d.okF && d.pure && cs.inF
  | .tryS _ _ b hh _ ck hf _ f => b.inF && ck.okFn && f.inF && (hh || ck.isNil) && (hf || f.isNil)
  | .labeled _ _ b => b.inF
  | .brk _ _ => true
  | .cont _ _ => true
  | .ret _ a => a.okF && a.compl.plain
  | .throw _ a => a.okF && a.compl.plain
def Stmts.inF : Stmts → Bool
  | .nil => true
  | .cons s r => s.inF && r.inF
def Cases.inF : Cases → Bool
  | .nil => true
  | .cons _ _ t b r => t.okF && t.pure && b.inF && r.inF
end

end DL.CF
