import DL.Lemmas.CFPos

/-! Membership lemmas for `positions`, `upos`, `fpos`. -/
namespace DL.CF

mutual
theorem Kid.fpos_sub : ∀ (k : Kid) (q : Nat), q ∈ k.fpos → q ∈ k.positions
  | .expr _ ks, q, h => by simp only [Kid.fpos] at h; simp only [Kid.positions]; exact Kids.fpos_sub ks q h
  | .fnScope p _, q, h => by simp only [Kid.fpos, List.mem_singleton] at h; simp [Kid.positions, h]
  | .block _ _, q, h => by simp [Kid.fpos] at h
  | .stmt _, q, h => by simp [Kid.fpos] at h
theorem Kids.fpos_sub : ∀ (ks : Kids) (q : Nat), q ∈ ks.fpos → q ∈ ks.positions
  | .nil, q, h => by simp [Kids.fpos] at h
  | .cons k r, q, h => by
    simp only [Kids.fpos, List.mem_append] at h
    simp only [Kids.positions, List.mem_append]
    rcases h with h | h
    · exact Or.inl (Kid.fpos_sub k q h)
    · exact Or.inr (Kids.fpos_sub r q h)
end

theorem Stmt.mem_positions_simple (p : Nat) (t : Tag) (kids : Kids) (q : Nat) :
    q ∈ (Stmt.simple p t kids).positions ↔ (q = p ∨ q ∈ kids.positions) := by
  simp only [Stmt.positions]
  by_cases h : (t.isDeclOrExpr && kids.fpos.contains p) = true
  · rw [if_pos h]
    simp only [Bool.and_eq_true, List.contains_iff_mem] at h
    constructor
    · exact Or.inr
    · rintro (rfl | h')
      · exact Kids.fpos_sub kids _ h.2
      · exact h'
  · rw [if_neg h]; simp

/-- unless the statement is an expression/declaration statement, its own position is not among its kids' positions -/
theorem Stmt.positions_simple_nde (p : Nat) (t : Tag) (kids : Kids) (h : t.isDeclOrExpr = false) :
    (Stmt.simple p t kids).positions = p :: kids.positions := by
  simp [Stmt.positions, h]

theorem Stmt.nodup_simple (p : Nat) (t : Tag) (kids : Kids) (h : (Stmt.simple p t kids).positions.Nodup) :
    kids.positions.Nodup := by
  simp only [Stmt.positions] at h
  by_cases hc : (t.isDeclOrExpr && kids.fpos.contains p) = true
  · rwa [if_pos hc] at h
  · rw [if_neg hc] at h; exact (List.nodup_cons.mp h).2

/-- the own position of a `simple` statement is a function-scope position of its kids, or not among their positions -/
theorem Stmt.simple_own (p : Nat) (t : Tag) (kids : Kids) (h : (Stmt.simple p t kids).positions.Nodup) :
    p ∈ kids.fpos ∨ p ∉ kids.positions := by
  simp only [Stmt.positions] at h
  by_cases hc : (t.isDeclOrExpr && kids.fpos.contains p) = true
  · simp only [Bool.and_eq_true, List.contains_iff_mem] at hc; exact Or.inl hc.2
  · rw [if_neg hc] at h; exact Or.inr (List.nodup_cons.mp h).1

theorem Stmt.pos_mem (s : Stmt) : s.pos ∈ s.positions := by
  cases s with
  | simple p t k => exact (Stmt.mem_positions_simple p t k p).mpr (Or.inl rfl)
  | ifS p t c a => cases a <;> simp [Stmt.pos, Stmt.positions]
  | _ => simp [Stmt.pos, Stmt.positions]

theorem Stmt.pos_mem_upos (s : Stmt) : s.pos ∈ s.upos := by
  cases s with
  | ifS p t c a => cases a <;> simp [Stmt.pos, Stmt.upos]
  | _ => simp [Stmt.pos, Stmt.upos]

mutual
theorem Stmt.upos_sub : ∀ (s : Stmt) (q : Nat), q ∈ s.upos → q ∈ s.positions
  | .simple p t kids, q, h => by
    simp only [Stmt.upos, List.mem_cons] at h
    rw [Stmt.mem_positions_simple]
    exact h.imp id (Kids.upos_sub kids q)
  | .block p b, q, h => by
    simp only [Stmt.upos, Stmt.positions, List.mem_cons] at h ⊢
    exact h.imp id (Stmts.upos_sub b q)
  | .ifS p t c none, q, h => by
    simp only [Stmt.upos, Stmt.positions, List.mem_cons, List.mem_append] at h ⊢
    exact h.imp id (Or.imp (Kids.upos_sub t q) (Stmt.upos_sub c q))
  | .ifS p t c (some a), q, h => by
    simp only [Stmt.upos, Stmt.positions, List.mem_cons, List.mem_append] at h ⊢
    exact h.imp id (Or.imp (Kids.upos_sub t q) (Or.imp (Stmt.upos_sub c q) (Stmt.upos_sub a q)))
  | .whileS p t _ b, q, h => by
    simp only [Stmt.upos, Stmt.positions, List.mem_cons, List.mem_append] at h ⊢
    exact h.imp id (Or.imp (Kids.upos_sub t q) (Stmt.upos_sub b q))
  | .doWhileS p b t _, q, h => by
    simp only [Stmt.upos, Stmt.positions, List.mem_cons, List.mem_append] at h ⊢
    exact h.imp id (Or.imp (Kids.upos_sub t q) (Stmt.upos_sub b q))
  | .forS p i u t _ _ b, q, h => by
    simp only [Stmt.upos, Stmt.positions, List.mem_cons, List.mem_append] at h ⊢
    exact h.imp id (Or.imp (Or.imp (Kids.upos_sub i q) (Or.imp (Kids.upos_sub u q) (Kids.upos_sub t q))) (Stmt.upos_sub b q))
  | .forInOf p l r b, q, h => by
    simp only [Stmt.upos, Stmt.positions, List.mem_cons, List.mem_append] at h ⊢
    exact h.imp id (Or.imp (Or.imp (Kids.upos_sub l q) (Kids.upos_sub r q)) (Stmt.upos_sub b q))
  | .switchS p d cs, q, h => by
    simp only [Stmt.upos, Stmt.positions, List.mem_cons, List.mem_append] at h ⊢
    exact h.imp id (Or.imp (Kids.upos_sub d q) (Cases.upos_sub cs q))
  | .tryS p bp b _ cp ck _ fp f, q, h => by
    simp only [Stmt.upos, Stmt.positions, List.mem_cons, List.mem_append] at h ⊢
    rcases h with h | h | h | h
    · exact Or.inl h
    · exact Or.inr (Or.inr (Or.inl (Stmts.upos_sub b q h)))
    · exact Or.inr (Or.inr (Or.inr (Or.inl (Or.inr (Kids.upos_sub ck q h)))))
    · exact Or.inr (Or.inr (Or.inr (Or.inr (Or.inr (Stmts.upos_sub f q h)))))
  | .labeled p _ b, q, h => by
    simp only [Stmt.upos, Stmt.positions, List.mem_cons] at h ⊢
    exact h.imp id (Stmt.upos_sub b q)
  | .brk p _, q, h => by simpa [Stmt.upos, Stmt.positions] using h
  | .cont p _, q, h => by simpa [Stmt.upos, Stmt.positions] using h
  | .ret p a, q, h => by
    simp only [Stmt.upos, Stmt.positions, List.mem_cons] at h ⊢
    exact h.imp id (Kids.upos_sub a q)
  | .throw p a, q, h => by
    simp only [Stmt.upos, Stmt.positions, List.mem_cons] at h ⊢
    exact h.imp id (Kids.upos_sub a q)
theorem Stmts.upos_sub : ∀ (l : Stmts) (q : Nat), q ∈ l.upos → q ∈ l.positions
  | .nil, q, h => by simp [Stmts.upos] at h
  | .cons s r, q, h => by
    simp only [Stmts.upos, Stmts.positions, List.mem_append] at h ⊢
    exact h.imp (Stmt.upos_sub s q) (Stmts.upos_sub r q)
theorem Kid.upos_sub : ∀ (k : Kid) (q : Nat), q ∈ k.upos → q ∈ k.positions
  | .expr _ ks, q, h => by simp only [Kid.upos, Kid.positions] at h ⊢; exact Kids.upos_sub ks q h
  | .fnScope p ks, q, h => by
    simp only [Kid.upos, Kid.positions, List.mem_cons] at h ⊢; exact Or.inr (Kids.upos_sub ks q h)
  | .block p b, q, h => by
    simp only [Kid.upos, Kid.positions, List.mem_cons] at h ⊢; exact Or.inr (Stmts.upos_sub b q h)
  | .stmt s, q, h => by simp only [Kid.upos, Kid.positions] at h ⊢; exact Stmt.upos_sub s q h
theorem Kids.upos_sub : ∀ (ks : Kids) (q : Nat), q ∈ ks.upos → q ∈ ks.positions
  | .nil, q, h => by simp [Kids.upos] at h
  | .cons k r, q, h => by
    simp only [Kids.upos, Kids.positions, List.mem_append] at h ⊢
    exact h.imp (Kid.upos_sub k q) (Kids.upos_sub r q)
theorem Cases.upos_sub : ∀ (cs : Cases) (q : Nat), q ∈ cs.upos → q ∈ cs.positions
  | .nil, q, h => by simp [Cases.upos] at h
  | .cons p _ t b r, q, h => by
    simp only [Cases.upos, Cases.positions, List.mem_cons, List.mem_append] at h ⊢
    exact Or.inr (h.imp (Kids.upos_sub t q) (Or.imp (Stmts.upos_sub b q) (Cases.upos_sub r q)))
end

end DL.CF
