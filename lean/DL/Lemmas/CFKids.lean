import DL.Lemmas.CFSound2

/-! The invariant for expressions: composition, and the common prefix of composite statements
(record the `unreachable` flag at `p`, then visit some expressions). -/
namespace DL.CF

theorem PostK.nil (a : A) : PostK [] [] (fun _ => false) false a a :=
  ⟨⟨fun _ h _ => absurd h (by simp), fun _ _ => rfl⟩, rfl, rfl, id, id, fun _ h => by cases h⟩

theorem PostK.same {us ps : List Nat} {inn : Nat → Bool} {thr thr' : Bool} {a a1 a2 : A} (h : PostK us ps inn thr a a1)
    (hs : SameCtl a1 a2) (hmt : a1.sc.mayThrow = true → a2.sc.mayThrow = true)
    (hpt : stopsEnd a.sc.end_ = false → thr' = true → a2.sc.mayThrow = true) :
    PostK us ps inn thr' a a2 :=
  ⟨⟨fun q hq hu => h.p3 q hq (by rw [← hs.info]; exact hu), fun q hq => by rw [hs.info]; exact h.frame q hq⟩,
    hs.end_.trans h.end_, hs.fb.trans h.fb, fun hc => by rw [hs.fc]; exact h.fc hc, fun hm => hmt (h.mt hm), hpt⟩

theorem PostK.seq {us vs ps qs : List Nat} {ix iy : Nat → Bool} {tx ty : Bool} {a a1 a2 : A}
    (hx : PostK us ps ix tx a a1) (hy : PostK vs qs iy ty a1 a2)
    (hdisj : ∀ p, p ∈ ps → p ∈ qs → False)
    (hus : ∀ p, p ∈ us → p ∈ ps) (hvs : ∀ p, p ∈ vs → p ∈ qs)
    (hix : ∀ p, p ∉ ps → ix p = false) (hiy : ∀ p, p ∉ qs → iy p = false) :
    PostK (us ++ vs) (ps ++ qs) (fun p => ix p || iy p) (tx || ty) a a2 := by
  refine ⟨⟨?_, ?_⟩, hy.end_.trans hx.end_, hy.fb.trans hx.fb, fun hc => hy.fc (hx.fc hc), fun hm => hy.mt (hx.mt hm), ?_⟩
  rotate_left 2
  · intro hs ht
    cases htx : tx with
    | true => exact hy.mt (hx.pT hs htx)
    | false => rw [htx] at ht; exact hy.pT (by rw [hx.end_]; exact hs) (by simpa using ht)
  · intro p hp hu
    rcases List.mem_append.mp hp with hps | hpq
    · have hnq : p ∉ qs := fun hq => hdisj p (hus p hps) hq
      rw [ur_eq_of_info_eq (hy.frame p hnq)] at hu
      simp [hx.p3 p hps hu, hiy p hnq]
    · have hnp : p ∉ ps := fun hp' => hdisj p hp' (hvs p hpq)
      simp [hy.p3 p hpq hu, hix p hnp]
  · intro q hq
    rw [hy.frame q (fun h => hq (List.mem_append.mpr (Or.inr h))), hx.frame q (fun h => hq (List.mem_append.mpr (Or.inl h)))]

theorem PreK.left {ps qs : List Nat} {a : A} (h : PreK (ps ++ qs) a) : PreK ps a :=
  ⟨fun p hp => h.fresh p (List.mem_append.mpr (Or.inl hp)), (List.nodup_append.mp h.nodup).1⟩

theorem PreK.right {ps qs : List Nat} {a a1 : A} (h : PreK (ps ++ qs) a) (hf : ∀ q, q ∉ ps → a1.info q = a.info q) :
    PreK qs a1 := by
  have hn := List.nodup_append.mp h.nodup
  refine ⟨fun p hp => ?_, hn.2.1⟩
  rw [endAt_eq_of_info_eq (hf p (fun hps => hn.2.2 p hps p hp rfl))]
  exact h.fresh p (List.mem_append.mpr (Or.inr hp))

theorem PreK.disj {ps qs : List Nat} {a : A} (h : PreK (ps ++ qs) a) : ∀ p, p ∈ ps → p ∈ qs → False :=
  fun p h1 h2 => (List.nodup_append.mp h.nodup).2.2 p h1 p h2 rfl

/-- the state after `visit_stmt` recorded the flag at `p` and some expressions (`kps`, with completions `tc`) were
visited: what follows is live only if they can complete normally -/
structure Prefix (live : Bool) (p : Nat) (kps rest : List Nat) (tc : Compl) (a a1 : A) : Prop where
  hs : stopsEnd a1.sc.end_ = true → (live && tc.n) = false
  hb : a.sc.foundBreak = some none → a1.sc.foundBreak = some none
  hc : a.sc.foundContinue = true → a1.sc.foundContinue = true
  hi : ∀ q, q ≠ p → q ∉ kps → a1.info q = a.info q
  hur : a1.info.ur p = (flagA a p .other).info.ur p
  hfresh : ∀ q ∈ rest, a1.info.endAt q = none
  hp : a1.info.endAt p = none
  hmt : a.sc.mayThrow = true → a1.sc.mayThrow = true
  pT : (live && tc.t) = true → a1.sc.mayThrow = true
  pk : p ∉ kps
  pr : p ∉ rest
  ndr : rest.Nodup
  disj : ∀ q, q ∈ kps → q ∈ rest → False

theorem Prefix.pre {live : Bool} {p : Nat} {kps rest : List Nat} {a : A} (hpre : Pre live (p :: (kps ++ rest)) a) :
    Pre live kps (flagA a p .other) :=
  hpre.flag p .other (fun q hq => List.mem_cons_of_mem _ (List.mem_append.mpr (Or.inl hq)))
    (List.nodup_append.mp (List.nodup_cons.mp hpre.nodup).2).1

theorem Prefix.of {live : Bool} {p : Nat} {kus kps rest : List Nat} {tc : Compl} {tr ti : Nat → Bool} {a a1 : A}
    (hpre : Pre live (p :: (kps ++ rest)) a) (hk : PostL live kus kps tc tr ti (flagA a p .other) a1) :
    Prefix live p kps rest tc a a1 := by
  have hnd := List.nodup_cons.mp hpre.nodup
  have hnd2 := List.nodup_append.mp hnd.2
  have hpk : p ∉ kps := fun h => hnd.1 (List.mem_append.mpr (Or.inl h))
  have hpr : p ∉ rest := fun h => hnd.1 (List.mem_append.mpr (Or.inr h))
  have hdisj : ∀ q, q ∈ kps → q ∈ rest → False := fun q h1 h2 => hnd2.2.2 q h1 q h2 rfl
  refine ⟨hk.p1, hk.monoB, hk.monoC, ?_, ur_eq_of_info_eq (hk.frame p hpk), ?_, ?_, hk.monoT, hk.pT, hpk, hpr, hnd2.2.1, hdisj⟩
  · intro q h1 h2; rw [hk.frame q h2]; exact flagA_other a p .other q h1
  · intro q hq
    rw [endAt_eq_of_info_eq (hk.frame q (fun h => hdisj q h hq)), flagA_endAt]
    exact hpre.fresh q (List.mem_cons_of_mem _ (List.mem_append.mpr (Or.inr hq)))
  · rw [endAt_eq_of_info_eq (hk.frame p hpk), flagA_endAt]; exact hpre.fresh p (by simp)

/-- the statement's own position is flagged only if the point is dead -/
theorem Prefix.dead {live : Bool} {p : Nat} {kps rest : List Nat} {tc : Compl} {a a1 : A} (hx : Prefix live p kps rest tc a a1)
    (hpre : Pre live (p :: (kps ++ rest)) a) (i : Info) (hi : i.ur p = a1.info.ur p) (hu : i.ur p = true) : live = false :=
  own_pos_dead hpre p .other i (hi.trans hx.hur) hu

/-- what follows the expressions is live when the statement is and they can complete normally -/
theorem Prefix.pre_rest {live : Bool} {p : Nat} {kps rest : List Nat} {tc : Compl} {a a1 : A}
    (hx : Prefix live p kps rest tc a a1) : Pre (live && tc.n) rest a1 := ⟨hx.hs, hx.hfresh, hx.ndr⟩

theorem Prefix.preK {live : Bool} {p : Nat} {kps rest : List Nat} {a : A} (hpre : Pre live (p :: (kps ++ rest)) a) :
    PreK kps (flagA a p .other) :=
  ((PreK.of_pre hpre (fun q hq => List.mem_cons_of_mem _ (List.mem_append.mpr (Or.inl hq)))
    (List.nodup_append.mp (List.nodup_cons.mp hpre.nodup).2).1)).flag p .other

/-- the prefix facts when the expressions are pure (they complete normally, or throw if `kt`) -/
theorem Prefix.ofK {live : Bool} {p : Nat} {kus kps rest : List Nat} {kinn : Nat → Bool} {kt : Bool} {a a1 : A}
    (hpre : Pre live (p :: (kps ++ rest)) a) (hk : PostK kus kps kinn kt (flagA a p .other) a1) :
    Prefix live p kps rest { n := true, t := kt } a a1 := by
  have hnd := List.nodup_cons.mp hpre.nodup
  have hnd2 := List.nodup_append.mp hnd.2
  have hpk : p ∉ kps := fun h => hnd.1 (List.mem_append.mpr (Or.inl h))
  have hpr : p ∉ rest := fun h => hnd.1 (List.mem_append.mpr (Or.inr h))
  have hdisj : ∀ q, q ∈ kps → q ∈ rest → False := fun q h1 h2 => hnd2.2.2 q h1 q h2 rfl
  refine ⟨?_, ?_, hk.fc, ?_, ur_eq_of_info_eq (hk.frame p hpk), ?_, ?_, hk.mt, ?_, hpk, hpr, hnd2.2.1, hdisj⟩
  · intro h; rw [hk.end_] at h; simp [hpre.hs h]
  · intro h; rw [hk.fb]; exact h
  · intro q h1 h2; rw [hk.frame q h2]; exact flagA_other a p .other q h1
  · intro q hq
    rw [endAt_eq_of_info_eq (hk.frame q (fun h => hdisj q h hq)), flagA_endAt]
    exact hpre.fresh q (List.mem_cons_of_mem _ (List.mem_append.mpr (Or.inr hq)))
  · rw [endAt_eq_of_info_eq (hk.frame p hpk), flagA_endAt]; exact hpre.fresh p (by simp)
  · intro h
    simp only [Bool.and_eq_true] at h
    exact hk.pT (hpre.notStopped h.1) h.2

theorem Prefix.end_eq {live : Bool} {p : Nat} {kus kps : List Nat} {kinn : Nat → Bool} {kt : Bool} {a a1 : A}
    (hk : PostK kus kps kinn kt (flagA a p .other) a1) : a1.sc.end_ = a.sc.end_ := hk.end_

end DL.CF
