import DL.Lemmas.CFClaims10

/-! The claims of the rule layers for whole programs. -/
namespace DL.CF

def itemsSwCases : List Item → List (Nat × Stmts)
  | [] => []
  | .stmt s :: r => s.swCases ++ itemsSwCases r
  | .decl k :: r => k.swCases ++ itemsSwCases r

def itemsGetters : List Item → List Getter
  | [] => []
  | .stmt s :: r => s.getters ++ itemsGetters r
  | .decl k :: r => k.getters ++ itemsGetters r

def itemsStopViol (info : Info) : List Item → List Nat
  | [] => []
  | .stmt s :: r => s.stopViol info [] ++ itemsStopViol info r
  | .decl k :: r => k.stopViol info ++ itemsStopViol info r

/-- every switch case of the program: (position of the `switch` statement, case body) -/
def Program.swCases (prog : Program) : List (Nat × Stmts) := itemsSwCases prog.items
/-- every function scope with a body block in the program -/
def Program.getters (prog : Program) : List Getter := itemsGetters prog.items

theorem stopViol_items (prog : Program) (info : Info) : prog.stopViol info = itemsStopViol info prog.items := by
  unfold Program.stopViol
  generalize prog.items = items
  induction items with
  | nil => rfl
  | cons it r ih => cases it <;> simp [itemsStopViol, ih]

theorem visitItems_frame (m : Bool) : ∀ (items : List Item) (x : A) (q : Nat), q ∉ itemsPositions items →
    (visitItems m items x).info q = x.info q
  | [], _, _, _ => rfl
  | .stmt s :: r, x, q, h => by
    simp only [itemsPositions, Item.positions, List.mem_append, not_or] at h
    simp only [visitItems]
    rw [visitItems_frame m r _ q h.2]
    have hne : q ≠ s.pos := fun e => h.1 (e ▸ s.pos_mem)
    cases m with
    | true => exact Stmt.info_frame s x q h.1
    | false =>
      show (sobTail s (visitStmt s x)).info q = _
      rw [sobTail_info _ _ _ hne]; exact Stmt.info_frame s x q h.1
  | .decl k :: r, x, q, h => by
    simp only [itemsPositions, Item.positions, List.mem_append, not_or] at h
    simp only [visitItems]
    rw [visitItems_frame m r _ q h.2]; exact Kids.info_frame k x q h.1

theorem items_claims (m : Bool) : ∀ (items : List Item) (a : A), itemsInF items = true → PreK (itemsPositions items) a →
    Claims (itemsStopViol (visitItems m items a).info items) (itemsSwCases items) (itemsGetters items) (visitItems m items a).info
  | [], a, _, _ => Claims.nil _
  | .stmt s :: r, a, hf, h => by
    have hf' : s.inF = true ∧ itemsInF r = true := by simpa [itemsInF, Item.inF] using hf
    simp only [itemsPositions, Item.positions] at h
    have hs := Stmt.claims_ok s [] a hf'.1 h.left
    have hfr : ∀ q, q ∉ s.positions → (visitItem m (.stmt s) a).info q = a.info q := by
      intro q hq
      have hne : q ≠ s.pos := fun e => hq (e ▸ s.pos_mem)
      cases m with
      | true => exact Stmt.info_frame s a q hq
      | false =>
        show (sobTail s (visitStmt s a)).info q = _
        rw [sobTail_info _ _ _ hne]; exact Stmt.info_frame s a q hq
    have hr := items_claims m r _ hf'.2 (h.right hfr)
    simp only [visitItems, itemsStopViol, itemsSwCases, itemsGetters]
    have hs' : SClaims s [] (visitItems m r (visitItem m (.stmt s) a)).info := by
      have hvi : (∀ ls F, SClaims s ls F) ∨ visitItem m (.stmt s) a = visitStmt s a := by
        cases m with
        | true => exact Or.inr rfl
        | false =>
          rcases sob_cases s with h' | h'
          · exact Or.inl h'
          · exact Or.inr (h' _)
      rcases hvi with h' | h'
      · exact h' _ _
      · refine hs.transport (fun q hq => ?_)
        rw [visitItems_frame m r _ q (fun hq' => h.disj q hq hq'), h']
    exact hs'.append hr
  | .decl k :: r, a, hf, h => by
    have hf' : k.okF = true ∧ itemsInF r = true := by simpa [itemsInF, Item.inF] using hf
    simp only [itemsPositions, Item.positions] at h
    have hk := Kids.claims_ok k a hf'.1 h.left
    have hr := items_claims m r (visitItem m (.decl k) a) hf'.2 (h.right (fun q hq => Kids.info_frame k a q hq))
    simp only [visitItems, itemsStopViol, itemsSwCases, itemsGetters]
    have hk' : KClaims k (visitItems m r (visitItem m (.decl k) a)).info := by
      refine hk.transport (fun q hq => ?_)
      rw [visitItems_frame m r _ q (fun hq' => h.disj q hq hq')]; rfl
    exact hk'.append hr

/-- the claims hold in the metadata the analyzer computes for a program of the fragment -/
theorem program_claims (prog : Program) (hf : itemsInF prog.items = true) (hnd : (itemsPositions prog.items).Nodup) :
    Claims (prog.stopViol (analyze prog)) prog.swCases prog.getters (analyze prog) := by
  rw [stopViol_items, analyze_items]
  exact items_claims prog.isModule prog.items _ hf ⟨fun _ _ => rfl, hnd⟩

/-- a statement position marked `unreachable` is unreachable (the core of `program_flagged_unreachable`) -/
theorem program_ur_unreachable (prog : Program) (hf : itemsInF prog.items = true) (hnd : (itemsPositions prog.items).Nodup)
    (p : Nat) (hp : p ∈ itemsUpos prog.items) (hur : (analyze prog).ur p = true) : prog.reachable p = false := by
  rw [analyze_items] at hur
  have hpre : Pre true (itemsPositions prog.items) { sc := {}, info := Info.empty } :=
    ⟨fun h => by simp at h, fun _ _ => rfl, hnd⟩
  have hpost := visitItems_ok prog.isModule prog.items true _ hf hpre
  have h1 := hpost.p3 p hp hur
  have h2 := hpost.p3i p hp hur
  unfold Program.reachable
  rw [h2]; simpa using h1

theorem itemsStopViol_upos (info : Info) : ∀ (items : List Item) (q : Nat), q ∈ itemsStopViol info items → q ∈ itemsUpos items
  | [], q, h => by simp [itemsStopViol] at h
  | .stmt s :: r, q, h => by
    simp only [itemsStopViol, List.mem_append] at h
    simp only [itemsUpos, Item.upos, List.mem_append]
    exact h.imp (fun h => (Stmt.sv_local s [] info info q h).1) (itemsStopViol_upos info r q)
  | .decl k :: r, q, h => by
    simp only [itemsStopViol, List.mem_append] at h
    simp only [itemsUpos, Item.upos, List.mem_append]
    exact h.imp (fun h => (Kids.sv_local k info info q h).1) (itemsStopViol_upos info r q)

theorem itemsSwCases_upos : ∀ (items : List Item) (c : Nat × Stmts), c ∈ itemsSwCases items → c.1 ∈ itemsUpos items
  | [], c, h => by simp [itemsSwCases] at h
  | .stmt s :: r, c, h => by
    simp only [itemsSwCases, List.mem_append] at h
    simp only [itemsUpos, Item.upos, List.mem_append]
    refine h.imp (fun h => ?_) (itemsSwCases_upos r c)
    rcases ((Stmt.sw_keys s).close [] c h).1 with h' | h'
    · simp at h'
    · exact h'
  | .decl k :: r, c, h => by
    simp only [itemsSwCases, List.mem_append] at h
    simp only [itemsUpos, Item.upos, List.mem_append]
    refine h.imp (fun h => ?_) (itemsSwCases_upos r c)
    rcases (Kids.sw_keys k [] c h).1 with h' | h'
    · simp at h'
    · exact h'

end DL.CF
