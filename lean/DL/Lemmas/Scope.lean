import DL.Model.Scope

/-! Lemmas about M-SCOPE: lookup, contexts, and the renaming invariant. -/
namespace DL.Scope

theorem lookup_cons (id : Nat) (fr : List Nat) (env : Env) (x : Nat) :
    lookup ((id, fr) :: env) x = if x ∈ fr then some id else lookup env x := rfl

theorem lookup_none_iff (env : Env) (x : Nat) : lookup env x = none ↔ ∀ f ∈ env, x ∉ f.2 := by
  induction env with
  | nil => simp [lookup]
  | cons f r ih =>
    obtain ⟨id, fr⟩ := f
    rw [lookup_cons]
    by_cases h : x ∈ fr
    · simp [h]
    · simp [h, ih]

theorem lookup_some_of_tail {env : Env} {x : Nat} (f : Nat × List Nat) (h : lookup env x ≠ none) :
    lookup (f :: env) x ≠ none := by
  obtain ⟨id, fr⟩ := f
  rw [lookup_cons]
  by_cases hx : x ∈ fr
  · simp [hx]
  · simpa [hx] using h

/-! ### `lets` -/
theorem lets_append : (a b : Items) → (a.append b).lets = a.lets ++ b.lets
  | .nil, _ => rfl
  | .cons i r, b => by
    have ih := lets_append r b
    cases i <;> simp [Items.append, Items.lets, ih]

theorem lets_cons_ref (x : Nat) (r : Items) : (Items.cons (.ref x) r).lets = r.lets := rfl
theorem lets_cons_key (x : Nat) (r : Items) : (Items.cons (.key x) r).lets = r.lets := rfl
theorem lets_cons_block (id : Nat) (b r : Items) : (Items.cons (.block id b) r).lets = r.lets := rfl
theorem lets_cons_func (id : Nat) (ps : List Nat) (b r : Items) : (Items.cons (.func id ps b) r).lets = r.lets := rfl

/-- an item that is not itself a declaration -/
def Item.notDecl : Item → Bool
  | .decl _ => false
  | _ => true

theorem lets_cons_notDecl (i : Item) (r : Items) (h : i.notDecl = true) : (Items.cons i r).lets = r.lets := by
  cases i <;> first | rfl | simp [Item.notDecl] at h

theorem plug_notDecl (ls : List Layer) (i : Item) (h : i.notDecl = true) : (plug ls i).notDecl = true := by
  cases ls with
  | nil => exact h
  | cons l r => cases l <;> rfl

theorem res_append (env : Env) : (a b : Items) → (a.append b).res env = a.res env ++ b.res env
  | .nil, _ => by simp [Items.append, Items.res]
  | .cons i r, b => by simp [Items.append, Items.res, res_append env r b]

/-- the frame a layer pushes when the hole holds a non-declaration -/
theorem wrap_res (l : Layer) (inner : Item) (h : inner.notDecl = true) (env : Env) :
    ∃ pre post, (l.wrap inner).res env = pre ++ inner.res ((l.id, l.declared) :: env) ++ post := by
  cases l with
  | block id pre post =>
    refine ⟨pre.res ((id, pre.lets ++ post.lets) :: env), post.res ((id, pre.lets ++ post.lets) :: env), ?_⟩
    simp only [Layer.wrap, Item.res, lets_append, lets_cons_notDecl inner post h, res_append, Items.res,
      Layer.id, Layer.declared, List.append_assoc]
  | func id ps pre post =>
    refine ⟨ps.map (fun p => ⟨.decl, p, lookup ((id, ps ++ (pre.lets ++ post.lets)) :: env) p⟩) ++
        pre.res ((id, ps ++ (pre.lets ++ post.lets)) :: env), post.res ((id, ps ++ (pre.lets ++ post.lets)) :: env), ?_⟩
    simp only [Layer.wrap, Item.res, lets_append, lets_cons_notDecl inner post h, res_append, Items.res,
      Layer.id, Layer.declared, List.append_assoc]

theorem plug_res (ls : List Layer) (inner : Item) (h : inner.notDecl = true) (env : Env) :
    ∃ pre post, (plug ls inner).res env = pre ++ inner.res (envOf ls env) ++ post := by
  induction ls generalizing env with
  | nil => exact ⟨[], [], by simp [plug, envOf]⟩
  | cons l r ih =>
    obtain ⟨p1, q1, h1⟩ := wrap_res l (plug r inner) (plug_notDecl r inner h) env
    obtain ⟨p2, q2, h2⟩ := ih ((l.id, l.declared) :: env)
    refine ⟨p1 ++ p2, q2 ++ q1, ?_⟩
    simp only [plug, envOf, h1, h2, List.append_assoc]

theorem mem_envOf (ls : List Layer) (env : Env) (f : Nat × List Nat) :
    f ∈ envOf ls env ↔ f ∈ env ∨ ∃ l ∈ ls, f = (l.id, l.declared) := by
  induction ls generalizing env with
  | nil => simp [envOf]
  | cons l r ih =>
    simp only [envOf, ih, List.mem_cons]
    constructor
    · rintro ((h | h) | ⟨l', hl', h⟩)
      · exact Or.inr ⟨l, Or.inl rfl, h⟩
      · exact Or.inl h
      · exact Or.inr ⟨l', Or.inr hl', h⟩
    · rintro (h | ⟨l', (rfl | hl'), h⟩)
      · exact Or.inl (Or.inr h)
      · exact Or.inl (Or.inl h)
      · exact Or.inr ⟨l', hl', h⟩

/-! ### the bound case: under a binding nothing is reported, at any depth -/
mutual
theorem Item.bound_silent (g : Nat) (i : Item) (env : Env) (h : lookup env g ≠ none) :
    ∀ e ∈ i.res env, isGlobalRef g e = false := by
  cases i with
  | ref x =>
    intro e he
    simp only [Item.res, List.mem_singleton] at he
    subst he
    by_cases hx : x = g
    · subst hx
      cases hl : lookup env x with
      | none => exact absurd hl h
      | some v => simp [isGlobalRef]
    · simp [isGlobalRef, hx]
  | key x => intro e he; simp [Item.res] at he
  | decl x => intro e he; simp only [Item.res, List.mem_singleton] at he; subst he; simp [isGlobalRef]
  | block id b => exact Items.bound_silent g b _ (lookup_some_of_tail _ h)
  | func id ps b =>
    intro e he
    simp only [Item.res, List.mem_append, List.mem_map] at he
    rcases he with ⟨p, _, rfl⟩ | he
    · simp [isGlobalRef]
    · exact Items.bound_silent g b _ (lookup_some_of_tail _ h) e he
theorem Items.bound_silent (g : Nat) (is : Items) (env : Env) (h : lookup env g ≠ none) :
    ∀ e ∈ is.res env, isGlobalRef g e = false := by
  cases is with
  | nil => intro e he; simp [Items.res] at he
  | cons i r =>
    intro e he
    simp only [Items.res, List.mem_append] at he
    rcases he with he | he
    · exact Item.bound_silent g i env h e he
    · exact Items.bound_silent g r env h e he
end

/-! ### renaming -/
theorem sw_ne {x y z : Nat} (h : z ≠ x) : sw x y z = z := by simp [sw, h]
theorem sw_self (x y : Nat) : sw x y x = y := by simp [sw]

theorem mem_map_sw {x y z : Nat} {fr : List Nat} (hy : y ∉ fr) (hz : z ≠ y) : sw x y z ∈ fr.map (sw x y) ↔ z ∈ fr := by
  simp only [List.mem_map]
  constructor
  · rintro ⟨w, hw, he⟩
    have hwy : w ≠ y := fun h => hy (h ▸ hw)
    by_cases hwx : w = x
    · by_cases hzx : z = x
      · subst hwx; subst hzx; exact hw
      · subst hwx; rw [sw_self, sw_ne hzx] at he; exact absurd he.symm hz
    · by_cases hzx : z = x
      · rw [sw_ne hwx, hzx, sw_self] at he; exact absurd he hwy
      · rw [sw_ne hwx, sw_ne hzx] at he; exact he ▸ hw
  · intro h; exact ⟨z, h, rfl⟩

/-- relation between the environment of the original and of the renamed program -/
def Rel (t x y : Nat) (active : Bool) (env env' : Env) : Prop :=
  if active then (∀ z, z ≠ y → lookup env' (sw x y z) = lookup env z) ∧ lookup env x = some t
  else (∀ z, z ≠ y → lookup env' z = lookup env z) ∧ lookup env x ≠ some t

theorem Rel.step {t x y : Nat} {active : Bool} {env env' : Env} (h : Rel t x y active env env') (id : Nat)
    (fr : List Nat) (hy : y ∉ fr) :
    Rel t x y (act' t x active id fr) ((id, fr) :: env)
      ((id, if act' t x active id fr then fr.map (sw x y) else fr) :: env') := by
  by_cases hxf : x ∈ fr
  · by_cases hid : id = t
    · -- the target scope: active from here on
      subst hid
      have ha : act' id x active id fr = true := by simp [act', hxf]
      rw [ha]; simp only [Rel, if_true]
      refine ⟨?_, by simp [lookup_cons, hxf]⟩
      intro z hz
      rw [lookup_cons, lookup_cons]
      by_cases hzf : z ∈ fr
      · rw [if_pos ((mem_map_sw hy hz).mpr hzf), if_pos hzf]
      · rw [if_neg (fun hh => hzf ((mem_map_sw hy hz).mp hh)), if_neg hzf]
        have hzx : z ≠ x := fun hh => hzf (hh ▸ hxf)
        cases active with
        | true => simp only [Rel, if_true] at h; exact h.1 z hz
        | false =>
          simp only [Rel, Bool.false_eq_true, if_false] at h
          rw [sw_ne hzx]; exact h.1 z hz
    · -- shadowed by another scope
      have ha : act' t x active id fr = false := by simp [act', hxf, hid]
      rw [ha]; simp only [Rel, Bool.false_eq_true, if_false]
      refine ⟨?_, by simp [lookup_cons, hxf, hid]⟩
      intro z hz
      rw [lookup_cons, lookup_cons]
      by_cases hzf : z ∈ fr
      · rw [if_pos hzf, if_pos hzf]
      · rw [if_neg hzf, if_neg hzf]
        have hzx : z ≠ x := fun hh => hzf (hh ▸ hxf)
        cases active with
        | true => simp only [Rel, if_true] at h; have := h.1 z hz; rwa [sw_ne hzx] at this
        | false => simp only [Rel, Bool.false_eq_true, if_false] at h; exact h.1 z hz
  · have ha : act' t x active id fr = active := by simp [act', hxf]
    rw [ha]
    cases active with
    | true =>
      simp only [Rel, if_true] at h ⊢
      refine ⟨?_, by rw [lookup_cons, if_neg hxf]; exact h.2⟩
      intro z hz
      rw [lookup_cons, lookup_cons]
      by_cases hzf : z ∈ fr
      · rw [if_pos ((mem_map_sw hy hz).mpr hzf), if_pos hzf]
      · rw [if_neg (fun hh => hzf ((mem_map_sw hy hz).mp hh)), if_neg hzf]
        exact h.1 z hz
    | false =>
      simp only [Rel, Bool.false_eq_true, if_false] at h ⊢
      refine ⟨?_, by rw [lookup_cons, if_neg hxf]; exact h.2⟩
      intro z hz
      rw [lookup_cons, lookup_cons]
      by_cases hzf : z ∈ fr
      · rw [if_pos hzf, if_pos hzf]
      · rw [if_neg hzf, if_neg hzf]; exact h.1 z hz

/-- one occurrence: its spelling is switched exactly when its binding is the renamed one -/
theorem entry_ok {t x y : Nat} {active : Bool} {env env' : Env} (h : Rel t x y active env env') (k : Occ) (z : Nat)
    (hz : z ≠ y) :
    (⟨k, if active then sw x y z else z, lookup env' (if active then sw x y z else z)⟩ : Entry) =
      swE t x y ⟨k, z, lookup env z⟩ := by
  cases active with
  | true =>
    simp only [Rel, if_true] at h ⊢
    rw [h.1 z hz]
    by_cases hzx : z = x
    · subst hzx; simp [swE, h.2, sw_self]
    · simp [swE, hzx, sw_ne hzx]
  | false =>
    simp only [Rel, Bool.false_eq_true, if_false] at h ⊢
    rw [h.1 z hz]
    by_cases hzx : z = x
    · subst hzx; simp [swE, h.2]
    · simp [swE, hzx]

theorem lets_ren (t x y : Nat) (a : Bool) : (b : Items) →
    (b.ren t x y a).lets = if a then b.lets.map (sw x y) else b.lets
  | .nil => by cases a <;> rfl
  | .cons i r => by
    have ih := lets_ren t x y a r
    cases i <;> cases a <;> simp_all [Items.ren, Item.ren, Items.lets]

theorem lets_sub_names : (b : Items) → ∀ z ∈ b.lets, z ∈ b.names
  | .nil => by intro z hz; simp [Items.lets] at hz
  | .cons i r => by
    have ih := lets_sub_names r
    intro z hz
    cases i <;> simp_all [Items.lets, Items.names, Item.names] <;> grind

mutual
theorem Item.res_ren (t x y : Nat) (i : Item) (active : Bool) (env env' : Env) (h : Rel t x y active env env')
    (hy : y ∉ i.names) : (i.ren t x y active).res env' = (i.res env).map (swE t x y) := by
  cases i with
  | ref z =>
    have hz : z ≠ y := fun hh => hy (by simp [Item.names, hh])
    simp only [Item.ren, Item.res, List.map_cons, List.map_nil]
    rw [entry_ok h .ref z hz]
  | key z => simp [Item.ren, Item.res]
  | decl z =>
    have hz : z ≠ y := fun hh => hy (by simp [Item.names, hh])
    simp only [Item.ren, Item.res, List.map_cons, List.map_nil]
    rw [entry_ok h .decl z hz]
  | block id b =>
    simp only [Item.names] at hy
    have hyl : y ∉ b.lets := fun hh => hy (lets_sub_names b y hh)
    have hs := h.step id b.lets hyl
    simp only [Item.ren, Item.res, lets_ren]
    exact Items.res_ren t x y b _ _ _ hs hy
  | func id ps b =>
    simp only [Item.names, List.mem_append, not_or] at hy
    have hyl : y ∉ ps ++ b.lets := by
      intro hh; rcases List.mem_append.mp hh with hh | hh
      · exact hy.1 hh
      · exact hy.2 (lets_sub_names b y hh)
    have hs := h.step id (ps ++ b.lets) hyl
    have hfr : (if act' t x active id (ps ++ b.lets) = true then ps.map (sw x y) else ps) ++
        (b.ren t x y (act' t x active id (ps ++ b.lets))).lets =
        if act' t x active id (ps ++ b.lets) = true then (ps ++ b.lets).map (sw x y) else ps ++ b.lets := by
      rw [lets_ren]; cases act' t x active id (ps ++ b.lets) <;> simp
    simp only [Item.ren, Item.res, List.map_append, List.map_map]
    rw [hfr, Items.res_ren t x y b _ _ _ hs hy.2]
    congr 1
    -- the parameters
    generalize act' t x active id (ps ++ b.lets) = a at hs
    have : ∀ p ∈ ps, p ≠ y := fun p hp hh => hy.1 (hh ▸ hp)
    cases a with
    | true =>
      simp only [if_true, List.map_map]
      apply List.map_congr_left
      intro p hp
      have := entry_ok hs .decl p (this p hp)
      simpa using this
    | false =>
      simp only [Bool.false_eq_true, if_false]
      apply List.map_congr_left
      intro p hp
      have := entry_ok hs .decl p (this p hp)
      simpa using this
theorem Items.res_ren (t x y : Nat) (is : Items) (active : Bool) (env env' : Env) (h : Rel t x y active env env')
    (hy : y ∉ is.names) : (is.ren t x y active).res env' = (is.res env).map (swE t x y) := by
  cases is with
  | nil => simp [Items.ren, Items.res]
  | cons i r =>
    simp only [Items.names, List.mem_append, not_or] at hy
    simp only [Items.ren, Items.res, List.map_append]
    rw [Item.res_ren t x y i active env env' h hy.1, Items.res_ren t x y r active env env' h hy.2]
end

-- names of resolved occurrences are names of the program
mutual
theorem Item.res_names (i : Item) (env : Env) : ∀ e ∈ i.res env, e.name ∈ i.names := by
  cases i with
  | ref z => intro e he; simp only [Item.res, List.mem_singleton] at he; subst he; simp [Item.names]
  | key z => intro e he; simp [Item.res] at he
  | decl z => intro e he; simp only [Item.res, List.mem_singleton] at he; subst he; simp [Item.names]
  | block id b => intro e he; exact Items.res_names b _ e he
  | func id ps b =>
    intro e he
    simp only [Item.res, List.mem_append, List.mem_map] at he
    rcases he with ⟨p, hp, rfl⟩ | he
    · simp [Item.names, hp]
    · simp only [Item.names, List.mem_append]; exact Or.inr (Items.res_names b _ e he)
theorem Items.res_names (is : Items) (env : Env) : ∀ e ∈ is.res env, e.name ∈ is.names := by
  cases is with
  | nil => intro e he; simp [Items.res] at he
  | cons i r =>
    intro e he
    simp only [Items.res, List.mem_append] at he
    simp only [Items.names, List.mem_append]
    rcases he with he | he
    · exact Or.inl (Item.res_names i env e he)
    · exact Or.inr (Items.res_names r env e he)
end

end DL.Scope
