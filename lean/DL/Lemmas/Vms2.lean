import DL.Lemmas.Vms1
/-!
# Per-item diagnostic counts for M-VMS

The number of diagnostics of a module is the sum of per-item counts, the count of an item depends on the module only
through `hasImportIdent` / `hasExportIdent` on the names of the item's value specifiers.
-/
namespace DL.Vms

/-- the shape shared by `importDiags` and `exportDiags` -/
def gDiags (p t : α → Bool) (k : Nat) (l : List α) : List Diag :=
  if l.length == (usageIdx p l 0).length + (l.filter t).length then [⟨k, .all⟩]
  else (usageIdx p l 0).map (fun i => ⟨k, .spec i⟩)

def gCnt (p t : α → Bool) (l : List α) : Nat :=
  if l.length = l.countP p + l.countP t then 1 else l.countP p

theorem gDiags_length (p t : α → Bool) (k : Nat) (l : List α) : (gDiags p t k l).length = gCnt p t l := by
  unfold gDiags gCnt
  simp only [usageIdx_length, ← List.countP_eq_length_filter, beq_iff_eq]
  split <;> simp [usageIdx_length]

theorem gCnt_congr (p q t : α → Bool) (l : List α) (h : ∀ a ∈ l, p a = q a) : gCnt p t l = gCnt q t l := by
  have : l.countP p = l.countP q := List.countP_congr (fun a ha => by rw [h a ha])
  unfold gCnt; rw [this]

/-- the predicates of the two analyses, as functions of `hasImportIdent` / `hasExportIdent` -/
def iP (hi : Nat → Bool) (s : ISpec) : Bool := !s.typed && !hi s.name
def eP (he : Nat → Bool) (s : ESpec) : Bool := !s.inlineType && !he s.orig

theorem importDiags_eq (m : Module) (k : Nat) (d : IDecl) :
    importDiags m k d =
      if d.typeOnly || d.specs.isEmpty then [] else gDiags (iP m.hasImportIdent) (·.typed) k d.specs := rfl

theorem exportDiags_eq (m : Module) (k : Nat) (d : EDecl) :
    exportDiags m k d =
      if d.typeOnly || d.specs.isEmpty || d.hasSrc then [] else gDiags (eP m.hasExportIdent) (·.inlineType) k d.specs :=
  rfl

def iCnt (hi : Nat → Bool) (d : IDecl) : Nat :=
  if d.typeOnly || d.specs.isEmpty then 0 else gCnt (iP hi) (·.typed) d.specs

def eCnt (he : Nat → Bool) (d : EDecl) : Nat :=
  if d.typeOnly || d.specs.isEmpty || d.hasSrc then 0 else gCnt (eP he) (·.inlineType) d.specs

def itemCnt (hi he : Nat → Bool) : Item → Nat
  | .imp d => iCnt hi d
  | .exp d => eCnt he d

def itemsCnt (hi he : Nat → Bool) : List Item → Nat
  | [] => 0
  | it :: r => itemCnt hi he it + itemsCnt hi he r

/-- the diagnostics of one item -/
def itemDiags (m : Module) (k : Nat) : Item → List Diag
  | .imp d => importDiags m k d
  | .exp d => exportDiags m k d

theorem itemsDiags_cons (m : Module) (it : Item) (r : List Item) (k : Nat) :
    itemsDiags m (it :: r) k = itemDiags m k it ++ itemsDiags m r (k + 1) := by
  cases it <;> rfl

theorem itemDiags_length (m : Module) (k : Nat) (it : Item) :
    (itemDiags m k it).length = itemCnt m.hasImportIdent m.hasExportIdent it := by
  cases it with
  | imp d =>
    simp only [itemDiags, itemCnt, iCnt, importDiags_eq]
    split <;> simp [gDiags_length]
  | exp d =>
    simp only [itemDiags, itemCnt, eCnt, exportDiags_eq]
    split <;> simp [gDiags_length]

theorem itemsDiags_length (m : Module) (its : List Item) (k : Nat) :
    (itemsDiags m its k).length = itemsCnt m.hasImportIdent m.hasExportIdent its := by
  induction its generalizing k with
  | nil => rfl
  | cons it r ih => simp only [itemsDiags_cons, List.length_append, itemDiags_length, ih, itemsCnt]

theorem itemsCnt_append (hi he : Nat → Bool) (a b : List Item) :
    itemsCnt hi he (a ++ b) = itemsCnt hi he a + itemsCnt hi he b := by
  induction a with
  | nil => simp [itemsCnt]
  | cons it r ih => simp only [List.cons_append, itemsCnt, ih]; omega

theorem importValue_append (a b : List Item) : importValue (a ++ b) = importValue a ++ importValue b := by
  induction a with
  | nil => rfl
  | cons it r ih => cases it <;> simp [importValue, ih]

theorem exportValue_append (a b : List Item) : exportValue (a ++ b) = exportValue a ++ exportValue b := by
  induction a with
  | nil => rfl
  | cons it r ih => cases it <;> simp [exportValue, ih]

theorem importValue_cons (it : Item) (r : List Item) : importValue (it :: r) = importValue [it] ++ importValue r :=
  importValue_append [it] r

theorem exportValue_cons (it : Item) (r : List Item) : exportValue (it :: r) = exportValue [it] ++ exportValue r :=
  exportValue_append [it] r

theorem mem_importValue_imp (d : IDecl) (x : Nat) :
    x ∈ importValue [Item.imp d] ↔ d.typeOnly = false ∧ ∃ s ∈ d.specs, s.typed = false ∧ s.name = x := by
  cases h : d.typeOnly <;> simp [importValue, h, and_assoc]

theorem mem_exportValue_exp (d : EDecl) (x : Nat) :
    x ∈ exportValue [Item.exp d] ↔
      d.typeOnly = false ∧ d.hasSrc = false ∧ ∃ s ∈ d.specs, s.inlineType = false ∧ s.orig = x := by
  cases h : d.typeOnly <;> cases h' : d.hasSrc <;> simp [exportValue, h, h', and_assoc]

@[simp] theorem importValue_exp (d : EDecl) : importValue [Item.exp d] = [] := rfl
@[simp] theorem exportValue_imp (d : IDecl) : exportValue [Item.imp d] = [] := rfl

/-- the count of an item only depends on the two predicates at the names of its value specifiers -/
theorem itemCnt_congr (hi he hi' he' : Nat → Bool) (it : Item)
    (h1 : ∀ x ∈ importValue [it], hi' x = hi x) (h2 : ∀ x ∈ exportValue [it], he' x = he x) :
    itemCnt hi' he' it = itemCnt hi he it := by
  cases it with
  | imp d =>
    simp only [itemCnt, iCnt]
    split
    · rfl
    · rename_i hc
      apply gCnt_congr
      intro s hs
      simp only [iP]
      cases hty : s.typed
      · have : s.name ∈ importValue [Item.imp d] := by
          simp only [Bool.or_eq_true, not_or, Bool.not_eq_true] at hc
          exact (mem_importValue_imp d _).2 ⟨hc.1, s, hs, hty, rfl⟩
        rw [h1 _ this]
      · rfl
  | exp d =>
    simp only [itemCnt, eCnt]
    split
    · rfl
    · rename_i hc
      apply gCnt_congr
      intro s hs
      simp only [eP]
      cases hty : s.inlineType
      · have : s.orig ∈ exportValue [Item.exp d] := by
          simp only [Bool.or_eq_true, not_or, Bool.not_eq_true] at hc
          exact (mem_exportValue_exp d _).2 ⟨hc.1.1, hc.2, s, hs, hty, rfl⟩
        rw [h2 _ this]
      · rfl

theorem itemsCnt_congr (hi he hi' he' : Nat → Bool) (its : List Item)
    (h1 : ∀ x ∈ importValue its, hi' x = hi x) (h2 : ∀ x ∈ exportValue its, he' x = he x) :
    itemsCnt hi' he' its = itemsCnt hi he its := by
  induction its with
  | nil => rfl
  | cons it r ih =>
    rw [importValue_cons] at h1
    rw [exportValue_cons] at h2
    simp only [itemsCnt]
    rw [itemCnt_congr hi he hi' he' it (fun x hx => h1 x (List.mem_append_left _ hx))
      (fun x hx => h2 x (List.mem_append_left _ hx)),
      ih (fun x hx => h1 x (List.mem_append_right _ hx)) (fun x hx => h2 x (List.mem_append_right _ hx))]

/-! ## locating the item of a diagnostic -/

theorem item_of_mem_itemDiags (m : Module) (k : Nat) (it : Item) (d : Diag) (h : d ∈ itemDiags m k it) :
    d.item = k := by
  cases it with
  | imp D =>
    simp only [itemDiags, importDiags_eq, gDiags] at h
    split at h
    · simp at h
    · split at h
      · simp at h; rw [h]
      · simp at h; rcases h with ⟨i, _, rfl⟩; rfl
  | exp D =>
    simp only [itemDiags, exportDiags_eq, gDiags] at h
    split at h
    · simp at h
    · split at h
      · simp at h; rw [h]
      · simp at h; rcases h with ⟨i, _, rfl⟩; rfl

theorem split_of_mem_itemsDiags (m : Module) (its : List Item) (k : Nat) (d : Diag) (h : d ∈ itemsDiags m its k) :
    ∃ pre it post, its = pre ++ it :: post ∧ d.item = k + pre.length ∧ d ∈ itemDiags m d.item it := by
  induction its generalizing k with
  | nil => simp [itemsDiags] at h
  | cons it r ih =>
    rw [itemsDiags_cons, List.mem_append] at h
    rcases h with h | h
    · have := item_of_mem_itemDiags m k it d h
      exact ⟨[], it, r, rfl, by simpa using this, by rw [this]; exact h⟩
    · rcases ih (k + 1) h with ⟨pre, it', post, h1, h2, h3⟩
      exact ⟨it :: pre, it', post, by rw [h1]; rfl, by simp only [List.length_cons]; omega, h3⟩

theorem fixItems_split (pre : List Item) (it : Item) (post : List Item) (t : Target) :
    fixItems (pre ++ it :: post) pre.length t = pre ++ (fixItem it t ++ post) := by
  induction pre with
  | nil => rfl
  | cons a r ih => simp only [List.cons_append, List.length_cons, fixItems, ih]

end DL.Vms
