import DL.Lemmas.CFSound3

/-! Soundness invariant: `switch` — reference-side lemmas and one `visit_switch_case` step. -/
namespace DL.CF

/-- some case body can `continue` (with or without label) -/
def Cases.anyCont : Cases → Bool
  | .nil => false
  | .cons _ _ _ body r => body.compl.c || body.compl.hasCl || r.anyCont

theorem Cases.fall_cont : ∀ (cs : Cases), (cs.fallCompl.c || cs.fallCompl.hasCl) = true → cs.anyCont = true
  | .nil, h => by simp [Cases.fallCompl] at h
  | .cons _ _ _ body r, h => by
    simp only [Cases.fallCompl, seq_c, seq_hasCl] at h
    simp only [Cases.anyCont]
    have ih := Cases.fall_cont r
    revert h ih
    cases body.compl.c <;> cases body.compl.hasCl <;> cases body.compl.n <;> cases r.fallCompl.c <;>
      cases r.fallCompl.hasCl <;> cases r.anyCont <;> simp

theorem Cases.compl_cont : ∀ (cs : Cases), (cs.compl.1.c || cs.compl.1.hasCl) = true → cs.anyCont = true
  | .nil, h => by simp [Cases.compl, Compl.hasCl] at h
  | .cons _ _ _ body r, h => by
    simp only [Cases.compl, union_c, union_hasCl, seq_c, seq_hasCl] at h
    simp only [Cases.anyCont]
    have ih := Cases.compl_cont r
    have ih2 := Cases.fall_cont r
    revert h ih ih2
    cases body.compl.c <;> cases body.compl.hasCl <;> cases body.compl.n <;> cases r.fallCompl.c <;>
      cases r.fallCompl.hasCl <;> cases r.compl.1.c <;> cases r.compl.1.hasCl <;> cases r.anyCont <;> simp

/-- some case body can throw -/
def Cases.anyT : Cases → Bool
  | .nil => false
  | .cons _ _ _ body r => body.compl.t || r.anyT

theorem Cases.fall_t : ∀ (cs : Cases), cs.fallCompl.t = true → cs.anyT = true
  | .nil, h => by simp [Cases.fallCompl] at h
  | .cons _ _ _ body r, h => by
    simp only [Cases.fallCompl, seq_t] at h
    simp only [Cases.anyT]
    have ih := Cases.fall_t r
    revert h ih
    cases body.compl.t <;> cases body.compl.n <;> cases r.fallCompl.t <;> cases r.anyT <;> simp

theorem Cases.compl_t : ∀ (cs : Cases), cs.compl.1.t = true → cs.anyT = true
  | .nil, h => by simp [Cases.compl] at h
  | .cons _ _ _ body r, h => by
    simp only [Cases.compl, union_t, seq_t] at h
    simp only [Cases.anyT]
    have ih := Cases.compl_t r
    have ih2 := Cases.fall_t r
    revert h ih ih2
    cases body.compl.t <;> cases body.compl.n <;> cases r.fallCompl.t <;> cases r.compl.1.t <;> cases r.anyT <;> simp

/-- what `visit_switch_case` recorded for every case: an end, and if it is forced the body neither completes normally
nor breaks -/
def Cases.marks (info : Info) (live : Bool) : Cases → Prop
  | .nil => True
  | .cons p _ _ body r =>
    (∃ e, info.endAt p = some e ∧ (e.isForced = true → (live && (body.compl.n || body.compl.b)) = false)) ∧ r.marks info live

theorem Cases.marks_congr (live : Bool) (info info' : Info) : ∀ (cs : Cases), (∀ q ∈ cs.positions, info' q = info q) →
    cs.marks info live → cs.marks info' live
  | .nil, _, _ => trivial
  | .cons p _ t body r, h, hm => by
    simp only [Cases.marks] at hm ⊢
    refine ⟨?_, Cases.marks_congr live info info' r (fun q hq => h q (by simp [Cases.positions, hq])) hm.2⟩
    rw [endAt_eq_of_info_eq (h p (by simp [Cases.positions]))]
    exact hm.1

theorem switchEnd_default (info : Info) : ∀ (cs : Cases), (switchEnd info cs).1 = cs.compl.2
  | .nil => by simp [switchEnd, Cases.compl]
  | .cons _ d _ _ r => by simp only [switchEnd, Cases.compl]; rw [switchEnd_default info r, Bool.or_comm]

theorem mergeForced_some {x y e : End} (h : x.mergeForced y = some e) : x.isForced = true ∧ y.isForced = true ∧ e.isForced = true := by
  cases x <;> cases y <;> simp [End.mergeForced] at h
  subst h; simp [End.isForced]

theorem switchEnd_forced (info : Info) (live : Bool) : ∀ (cs : Cases) (e : End), cs.marks info live → (switchEnd info cs).2 = some e →
    e.isForced = true ∧ (live && (cs.compl.1.n || cs.compl.1.b)) = false
  | .nil, e, _, h => by
    simp only [switchEnd, Option.some.injEq] at h; subst h
    simp [End.isForced, Cases.compl]
  | .cons p d t body r, e, hm, h => by
    simp only [Cases.marks] at hm
    obtain ⟨⟨e0, he0, hf0⟩, hmr⟩ := hm
    simp only [switchEnd, he0] at h
    cases hacc : (switchEnd info r).2 with
    | none => rw [hacc] at h; simp at h
    | some x =>
      rw [hacc] at h
      simp only [Option.bind_some] at h
      have hmf := mergeForced_some h
      have ih := switchEnd_forced info live r x hmr hacc
      refine ⟨hmf.2.2, ?_⟩
      have h0 := hf0 hmf.2.1
      have h1 := ih.2
      simp only [Cases.compl, union_n, union_b, seq_n, seq_b]
      revert h0 h1
      cases live <;> cases body.compl.n <;> cases body.compl.b <;> cases r.compl.1.n <;> cases r.compl.1.b <;> simp

theorem markAsEnd_self_some (p : Nat) (e : End) (a : A) : ∃ e', (markAsEnd p e a).info.endAt p = some e' := by
  unfold markAsEnd
  rcases h : a.sc.end_ with _ | ⟨r, t, i⟩ | _ | _ <;> simp [endAt_setEnd]

end DL.CF
