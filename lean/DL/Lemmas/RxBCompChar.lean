import DL.Lemmas.RxBCompLex

/-! # Annex B (no `u` flag), completeness: `CharacterEscape[~U, N]` -/
namespace DL.Rx
open DL.RxSpec DL.RxSpecB

attribute [local irreducible] isScalar
variable {src : List Nat} {K : Bool × Nat}

theorem eatHexEscapeSequence_wd (a b : Nat) (r1 : List Nat) (s : St) (h : BAt src K (ch 'x' :: a :: b :: r1) s)
    (ha : HexDigit a) (hb : HexDigit b) :
    Wc (eatHexEscapeSequence s) (fun b' s1 => b' = true ∧ BAt src K r1 s1 ∧ s1.lastIntValue = (mvHex [a, b] : Nat) ∧ Keep s s1) := by
  have hfx := fun s h => eatFixedHexDigits_wd (src := src) (K := K) 2 (by decide) [a, b] r1 s h rfl
    (by intro d hd; simp at hd; rcases hd with rfl | rfl <;> assumption)
  unfold eatHexEscapeSequence
  rx7_auto
  rx7_fin

theorem eatHexEscapeSequence_wdn (r : List Nat) (s : St) (h : BAt src K r s) (hn : r.head? ≠ some (ch 'x')) :
    Wc (eatHexEscapeSequence s) (fun b s1 => b = false ∧ s1 = s) := by
  unfold eatHexEscapeSequence
  rx7_auto
  all_goals first | exact absurd rfl hn | exact ⟨rfl, rfl⟩

/-- `\x` not followed by two hexadecimal digits: no escape (without the `u` flag this is not an error) -/
theorem eatHexEscapeSequence_wdm (m : List Nat) (s : St) (h : BAt src K (ch 'x' :: m) s)
    (hn : ¬∃ a b r', m = a :: b :: r' ∧ HexDigit a ∧ HexDigit b) :
    Wc (eatHexEscapeSequence s) (fun b s1 => b = false ∧ BAt src K (ch 'x' :: m) s1 ∧ Keep s s1) := by
  have hn2 : ¬∃ ds r1, m = ds ++ r1 ∧ ds.length = 2 ∧ ∀ d ∈ ds, HexDigit d := by
    rintro ⟨ds, r1, e, hl, hd⟩
    rcases ds with _ | ⟨a, _ | ⟨b, _ | ⟨e', t⟩⟩⟩ <;> simp at hl
    exact hn ⟨a, b, r1, e, hd a (by simp), hd b (by simp)⟩
  have hfx := fun s (h : BAt src K m s) => eatFixedHexDigits_wdn (src := src) (K := K) 2 (by decide) m s h hn2
  unfold eatHexEscapeSequence
  rx7_auto
  rx7_fin

/-- `\uHHHH` outside a group name -/
theorem eatRegexpUnicodeEscapeSequence_wdm (n : Nat) (m r1 : List Nat) (v : Nat) (s : St)
    (h : BAt src K (ch 'u' :: m) s) (h4 : Hex4Digits m r1 v) :
    Wc (eatRegexpUnicodeEscapeSequence n false s) (fun b s1 => b = true ∧ BAt src K r1 s1 ∧
      s1.lastIntValue = (v : Nat) ∧ Keep s s1) := by
  obtain ⟨a, b, c', d, e1, ha, hb, hc, hd, v1⟩ := h4
  subst e1 v1
  have hfx := fun s h => eatFixedHexDigits_wd (src := src) (K := K) 4 (by decide) [a, b, c', d] r1 s h rfl
    (by intro x hx; simp at hx; rcases hx with rfl | rfl | rfl | rfl <;> assumption)
  unfold eatRegexpUnicodeEscapeSequence
  rx7_auto
  all_goals rx7_close

theorem eatRegexpUnicodeEscapeSequence_wdn (n : Nat) (f : Bool) (r : List Nat) (s : St) (h : BAt src K r s)
    (hn : r.head? ≠ some (ch 'u')) :
    Wc (eatRegexpUnicodeEscapeSequence n f s) (fun b s1 => b = false ∧ s1 = s) := by
  unfold eatRegexpUnicodeEscapeSequence
  rx7_auto
  all_goals first | exact absurd rfl hn | exact ⟨rfl, rfl⟩

/-- `\u` not followed by four hexadecimal digits, outside a group name: no escape -/
theorem eatRegexpUnicodeEscapeSequence_notHex (n : Nat) (m : List Nat) (s : St) (h : BAt src K (ch 'u' :: m) s)
    (hn : ¬∃ r' v, Hex4Digits m r' v) :
    Wc (eatRegexpUnicodeEscapeSequence n false s) (fun b s1 => b = false ∧ BAt src K (ch 'u' :: m) s1 ∧ Keep s s1) := by
  have hn4 : ¬∃ ds r1, m = ds ++ r1 ∧ ds.length = 4 ∧ ∀ d ∈ ds, HexDigit d := by
    rintro ⟨ds, r1, e, hl, hd⟩
    exact hn ⟨r1, _, hex4_of e hl hd⟩
  have hfx := fun s (h : BAt src K m s) => eatFixedHexDigits_wdn (src := src) (K := K) 4 (by decide) m s h hn4
  unfold eatRegexpUnicodeEscapeSequence
  rx7_auto
  all_goals rx7_close

theorem eatOctalDigit_wd (x : Nat) (r1 : List Nat) (s : St) (h : BAt src K (x :: r1) s) (hx : OctalDigit x) :
    Wc (eatOctalDigit s) (fun b s1 => b = true ∧ BAt src K r1 s1 ∧ s1.lastIntValue = (octVal x : Nat) ∧ Keep s s1) := by
  have hd := (isDigit8_iff x).mpr hx
  unfold eatOctalDigit
  rx7_auto
  rename_i y hy
  rw [toDigit8_eq hx] at hy
  cases hy
  rx7_fin

theorem eatOctalDigit_wdn (r : List Nat) (s : St) (h : BAt src K r s) (hn : ∀ d, r.head? = some d → ¬OctalDigit d) :
    Wc (eatOctalDigit s) (fun b s1 => b = false ∧ s1 = s.withInt 0) := by
  unfold eatOctalDigit
  rx7_auto
  all_goals (try exact ⟨rfl, rfl⟩)
  rename_i x r' hc _ _ _
  exact absurd ((isDigit8_iff x).mp hc) (hn x rfl)

theorem octVal03 {a : Nat} (h : ZeroToThree a) : ((octVal a : Nat) : Int) ≤ 3 := by
  have h1 : c '0' ≤ a := h.1
  have h2 : a ≤ c '3' := h.2
  have e0 : c '0' = 0x30 := rfl
  have e3 : c '3' = 0x33 := rfl
  show ((a - 0x30 : Nat) : Int) ≤ 3
  omega

theorem octVal47 {a : Nat} (h : FourToSeven a) : ¬((octVal a : Nat) : Int) ≤ 3 := by
  have h1 : c '4' ≤ a := h.1
  have e4 : c '4' = 0x34 := rfl
  show ¬((a - 0x30 : Nat) : Int) ≤ 3
  omega

/-- a leaf of `eat_legacy_octal_escape_sequence` -/
macro "octal_leaf" ha:term : tactic => `(tactic| first
  | (rename_i hc
     have hle : (_ : Int) ≤ 3 := of_decide_eq_true hc
     have h47 := octVal47 $ha
     exfalso; omega)
  | (rename_i hn
     have h03 := octVal03 $ha
     exfalso; refine hn (decide_eq_true (?_ : (_ : Int) ≤ 3))
     omega)
  | (refine ⟨by first | rfl | assumption, by rx6_at, ?_, by rx6_keep⟩
     st_norm
     simp only [*]
     try omega))

theorem eatLegacyOctalEscapeSequence_wd (r r1 : List Nat) (v : Nat) (s : St) (h : BAt src K r s)
    (hD : LegacyOctalEscapeSequence r r1 v) :
    Wc (eatLegacyOctalEscapeSequence s) (fun b s1 => b = true ∧ BAt src K r1 s1 ∧ s1.lastIntValue = (v : Nat) ∧
      Keep s s1) := by
  cases hD with
  | zero89 _ h89 =>
    have h0 : OctalDigit (c '0') := octal_zero
    have hno : ∀ d, r1.head? = some d → ¬OctalDigit d := by
      obtain ⟨d, hd, h8⟩ := h89
      intro d' hd' ho
      rw [hd] at hd'; cases hd'
      have ho' : 0x30 ≤ d ∧ d ≤ 0x37 := ho
      rcases h8 with e | e <;> (rw [e] at ho'; revert ho'; decide)
    unfold eatLegacyOctalEscapeSequence
    rx7_autos
    rename_i s1 _ _ hv1 _ _ _
    refine ⟨rfl, by rx6_at, ?_, by rx6_keep⟩
    st_norm; rw [hv1]; rfl
  | one a _ ha hno =>
    have hoa : OctalDigit a := ⟨by have := ha.1; have e : c '1' = 0x31 := rfl; show 0x30 ≤ a; omega, ha.2⟩
    unfold eatLegacyOctalEscapeSequence
    rx7_autos
    rename_i s1 _ _ hv1 _ _ _
    refine ⟨rfl, by rx6_at, ?_, by rx6_keep⟩
    st_norm; rw [hv1]
  | two03 a b _ ha hb hno =>
    have hoa : OctalDigit a := ⟨ha.1, by have := ha.2; have e : c '3' = 0x33 := rfl; show a ≤ 0x37; omega⟩
    unfold eatLegacyOctalEscapeSequence
    rx7_autos
    all_goals octal_leaf ha
  | two47 a b _ ha hb =>
    have hoa : OctalDigit a := ⟨by have := ha.1; have e : c '4' = 0x34 := rfl; show 0x30 ≤ a; omega, ha.2⟩
    unfold eatLegacyOctalEscapeSequence
    rx7_autos
    all_goals octal_leaf ha
  | three a b d _ ha hb hd =>
    have hoa : OctalDigit a := ⟨ha.1, by have := ha.2; have e : c '3' = 0x33 := rfl; show a ≤ 0x37; omega⟩
    unfold eatLegacyOctalEscapeSequence
    rx7_autos
    all_goals octal_leaf ha

end DL.Rx
