import DL.Lemmas.CFSound3
import DL.Lemmas.CFKids2

/-! Soundness invariant, `try`/`catch`/`finally`: blocks visited as kids, catch clauses, the two joins. -/
namespace DL.CF

/-- a block statement reached by `visit_block_stmt` (try block, catch body, finalizer): like a statement list, plus
the mark at its position -/
theorem blockKid_ok (live : Bool) (q : Nat) (body : Stmts) (a : A) (hpre : Pre live (q :: body.positions) a)
    (ih : ∀ a0, Pre live body.positions a0 → PostL live body.upos body.positions body.compl body.reach body.inner a0 (visitStmts body a0)) :
    PostL live body.upos (q :: body.positions) body.compl body.reach body.inner a (blockTail q (visitStmts body a)) := by
  have hnd := List.nodup_cons.mp hpre.nodup
  have h1 := ih a (hpre.sub (fun p hp => List.mem_cons_of_mem _ hp) hnd.2)
  generalize visitStmts body a = a1 at h1
  unfold blockTail
  have hst : stopsEnd (markAsEnd q (a1.sc.end_.getD .cont) a1).sc.end_ = stopsEnd a1.sc.end_ := by
    rw [markAsEnd_stops, getD_cont_stops]; simp
  refine ⟨?_, ?_, ?_, ?_, ?_, ?_, ?_, ?_, ?_, ?_, ?_⟩
  · intro hs; rw [hst] at hs; exact h1.p1 hs
  · intro hb; rw [markAsEnd_foundBreak]; exact h1.p2 hb
  · intro hc; rw [markAsEnd_foundContinue]; exact h1.p2c hc
  · intro hb; rw [markAsEnd_foundBreak]; exact h1.monoB hb
  · intro hc; rw [markAsEnd_foundContinue]; exact h1.monoC hc
  · intro hc; rw [markAsEnd_foundContinue]; exact h1.p2l hc
  · intro p hp hu; rw [markAsEnd_ur] at hu; exact h1.p3 p hp hu
  · intro p hp hu; rw [markAsEnd_ur] at hu; exact h1.p3i p hp hu
  · intro p hp
    simp only [List.mem_cons, not_or] at hp
    rw [markAsEnd_info_other _ _ _ _ hp.1, h1.frame p hp.2]
  · intro hh; rw [markAsEnd_mayThrow]; exact h1.monoT hh
  · intro hh; rw [markAsEnd_mayThrow]; exact h1.pT hh

/-- an expression evaluated in the flow, as a "statement" that completes normally or throws -/
theorem kidL {live : Bool} {us ps : List Nat} {inn : Nat → Bool} {thr : Bool} {a a' : A}
    (hk : PostK us ps inn thr a a') (hs : stopsEnd a.sc.end_ = true → live = false) :
    PostL live us ps { n := true, t := thr } (fun _ => false) inn a a' := by
  refine ⟨?_, by simp, by simp, ?_, hk.fc, by simp [Compl.hasCl], ?_, hk.p3, hk.frame, hk.mt, ?_⟩
  · intro h; rw [hk.end_] at h; simp [hs h]
  · intro h; rw [hk.fb]; exact h
  · intro _ _ _; simp
  · intro h
    simp only [Bool.and_eq_true] at h
    refine hk.pT ?_ h.2
    cases hst : stopsEnd a.sc.end_ with
    | false => rfl
    | true => rw [hs hst] at h; cases h.1

/-! ### the catch clause: parameter patterns, then the body block -/
theorem catchNil_ok (live : Bool) (a : A) (hpre : Pre live Kids.nil.positions a) :
    PostL live Kids.nil.upos Kids.nil.positions Kids.nil.catchCompl Kids.nil.catchReach Kids.nil.inner a (visitKids .nil a) :=
  ⟨fun h => by simp [hpre.hs h], by simp [Kids.catchCompl], by simp [Kids.catchCompl], id, id, by simp [Kids.catchCompl],
    fun _ h _ => absurd h (by simp [Kids.upos]), fun _ h _ => absurd h (by simp [Kids.upos]), fun _ _ => rfl, id,
    by simp [Kids.catchCompl]⟩

theorem catchBlock_ok (live : Bool) (q : Nat) (body : Stmts) (a : A)
    (hpre : Pre live (Kids.cons (.block q body) .nil).positions a)
    (ih : ∀ a0, Pre live body.positions a0 → PostL live body.upos body.positions body.compl body.reach body.inner a0 (visitStmts body a0)) :
    PostL live (Kids.cons (.block q body) .nil).upos (Kids.cons (.block q body) .nil).positions
      (Kids.cons (.block q body) .nil).catchCompl (Kids.cons (.block q body) .nil).catchReach
      (Kids.cons (.block q body) .nil).inner a (visitKids (.cons (.block q body) .nil) a) := by
  have hpos : (Kids.cons (.block q body) .nil).positions = q :: body.positions := by simp [Kids.positions, Kid.positions]
  have hup : (Kids.cons (.block q body) .nil).upos = body.upos := by simp [Kids.upos, Kid.upos]
  rw [hpos] at hpre ⊢
  rw [hup]
  have hnd := List.nodup_cons.mp hpre.nodup
  have h := blockKid_ok live q body a hpre ih
  simp only [visitKids, visitKid]
  generalize blockTail q (visitStmts body a) = a1 at h
  have hc : (Kids.cons (.block q body) .nil).catchCompl = body.compl.seq .normal := by simp [Kids.catchCompl]
  rw [hc]
  refine ⟨?_, ?_, ?_, h.monoB, h.monoC, ?_, ?_, ?_, h.frame, h.monoT, ?_⟩
  · intro hs; have := h.p1 hs; simpa using this
  · intro hb; exact h.p2 (by simpa using hb)
  · intro hb; exact h.p2c (by simpa using hb)
  · intro hb; exact h.p2l (by simpa using hb)
  · intro p hp hu
    have hne : p ≠ q := fun e => hnd.1 (e ▸ Stmts.upos_sub body p hp)
    have := h.p3 p hp hu
    simp only [Kids.catchReach]
    revert this; cases live <;> simp [hne]
  · intro p hp hu
    simp [Kids.inner, Kid.inner, h.p3i p hp hu]
  · intro hb; exact h.pT (by simpa using hb)

theorem catchCons_ok (live : Bool) (k : Kid) (r : Kids) (a : A) (hpre : Pre live (Kids.cons k r).positions a)
    (hcc : (Kids.cons k r).catchCompl = Compl.seq { n := true, t := k.mayThrow } r.catchCompl)
    (hcr : ∀ p, (Kids.cons k r).catchReach p = r.catchReach p)
    (hk : ∀ x, PreK k.positions x → PostK k.upos k.positions k.inner k.mayThrow x (visitKid k x))
    (ih : ∀ x, Pre live r.positions x → PostL live r.upos r.positions r.catchCompl r.catchReach r.inner x (visitKids r x)) :
    PostL live (Kids.cons k r).upos (Kids.cons k r).positions (Kids.cons k r).catchCompl (Kids.cons k r).catchReach
      (Kids.cons k r).inner a (visitKids (.cons k r) a) := by
  simp only [Kids.positions] at hpre
  simp only [visitKids, Kids.upos, Kids.positions]
  have hnd := List.nodup_append.mp hpre.nodup
  have hdisj : ∀ p, p ∈ k.positions → p ∈ r.positions → False := fun p h1 h2 => hnd.2.2 p h1 p h2 rfl
  have h1 := kidL (live := live) (hk a ⟨fun p hp => hpre.fresh p (List.mem_append.mpr (Or.inl hp)), hnd.1⟩) hpre.hs
  generalize visitKid k a = a1 at h1
  have hpre2 : Pre (live && true) r.positions a1 := by
    refine ⟨fun h => by simpa using h1.p1 h, ?_, hnd.2.1⟩
    intro p hp
    rw [endAt_eq_of_info_eq (h1.frame p (fun h => hdisj p h hp))]
    exact hpre.fresh p (List.mem_append.mpr (Or.inr hp))
  have h2 := ih a1 (by simpa using hpre2)
  generalize visitKids r a1 = a2 at h2
  have hcatchReach_false : ∀ p, p ∉ r.positions → r.catchReach p = false := fun p hp => by
    cases hr : r.catchReach p with
    | false => rfl
    | true => exact absurd (r.catchReach_mem p hr) hp
  have := seq_ok live k.upos r.upos k.positions r.positions { n := true, t := k.mayThrow } r.catchCompl (fun _ => false)
    r.catchReach k.inner r.inner a a1 a2 h1 (by simpa using h2) hdisj (Kid.upos_sub k) (Kids.upos_sub r)
    (fun _ _ => rfl) hcatchReach_false (Kid.inner_false k) (Kids.inner_false r)
  rw [hcc]
  refine ⟨this.p1, this.p2, this.p2c, this.monoB, this.monoC, this.p2l, ?_, ?_, this.frame, this.monoT, this.pT⟩
  · intro p hp hu
    have := this.p3 p hp hu
    rw [hcr]; simpa using this
  · intro p hp hu
    have := this.p3i p hp hu
    simpa [Kids.inner] using this

end DL.CF
