import DL.Lemmas.RxBCompAtomEsc2
import DL.Lemmas.RxCompClass

/-! # Annex B (no `u` flag), completeness: character classes -/
namespace DL.Rx
open DL.RxSpec DL.Gen.Unicode

attribute [local irreducible] isScalar
variable {src : List Nat} {K : Bool × Nat}

/-- the finishing step of the leaves about class atoms -/
macro "class_leaf" : tactic => `(tactic| (
  refine ⟨by first | rfl | assumption, by rx6_at, ?_, by first | rx6_keep | exact Keep.toN ‹_›⟩
  first | rfl | (show _ = _; assumption)))

theorem ccl_not_letter {l : Nat} (h : RxSpecB.ClassControlLetter l) : (isAsciiDigit l || l == ch '_') = true := by
  rcases h with h | h
  · rw [isAsciiDigit_of_decimalDigit h]; rfl
  · rw [h]; simp

theorem letter_not_ccl {l : Nat} (h : ControlLetter l) : (isAsciiDigit l || l == ch '_') = false := by
  have h' : (0x61 ≤ l ∧ l ≤ 0x7a) ∨ (0x41 ≤ l ∧ l ≤ 0x5a) := h
  have h1 : isAsciiDigit l = false := by
    cases hd : isAsciiDigit l
    · rfl
    · have := decimalDigit_of_isAsciiDigit hd
      have h2 : 0x30 ≤ l ∧ l ≤ 0x39 := this
      omega
  have h2 : (l == ch '_') = false := by
    have : l ≠ ch '_' := by show l ≠ 0x5f; omega
    simpa using this
  rw [h1, h2]; rfl

theorem ce_c_shape {nf : Bool} {m r1 : List Nat} {v : Nat} (h : RxSpecB.CharacterEscape nf (ch 'c' :: m) r1 v) :
    ∃ l, m = l :: r1 ∧ ControlLetter l := by
  generalize hi : ch 'c' :: m = i at h
  cases h with
  | controlLetter l _ hl => exact ⟨l, (List.cons.inj hi).2, hl⟩
  | legacyOctal _ _ _ hlo =>
    obtain ⟨x, m', e, hx⟩ := legacyOctal_head hlo
    subst e
    have : ch 'c' = x := (List.cons.inj hi).1
    subst this
    have h' : 0x30 ≤ ch 'c' ∧ ch 'c' ≤ 0x37 := hx
    exact absurd h' (by decide)
  | identity x _ _ hc _ _ => exact absurd (List.cons.inj hi).1.symm hc
  | _ => exact absurd (List.cons.inj hi).1 (by decide)

theorem ce_cons {nf : Bool} {i r1 : List Nat} {v : Nat} (h : RxSpecB.CharacterEscape nf i r1 v) : ∃ x m, i = x :: m := by
  cases h with
  | legacyOctal _ _ _ hlo => obtain ⟨x, m, e, _⟩ := legacyOctal_head hlo; exact ⟨x, m, e⟩
  | _ => exact ⟨_, _, rfl⟩

theorem consumeClassEscape_wd (n : Nat) (r r1 : List Nat) (v : Option Nat) (s : St) (h : BAt src K r s)
    (hD : RxSpecB.ClassEscape K.1 r r1 v) :
    Wc (consumeClassEscape n s) (fun b s1 => b = true ∧ BAt src K r1 s1 ∧ IntIs s1 v ∧ KeepN s s1) := by
  cases hD with
  | b _ =>
    unfold consumeClassEscape
    rx7_autos
    all_goals class_leaf
  | classControl l _ hl =>
    have hd := ccl_not_letter hl
    have hcc : (some (c 'c') == some (ch 'c')) = true := by decide
    unfold consumeClassEscape
    rx7_autos
    · have hd' := ‹(c 'c' :: l :: r1)[1]? = some _›
      have e : l = _ := Option.some.inj hd'
      subst e
      exact absurd hd ‹¬(isAsciiDigit l || l == ch '_') = true›
    · have hd' := ‹(c 'c' :: l :: r1)[1]? = some _›
      have e : l = _ := Option.some.inj hd'
      subst e
      refine ⟨rfl, by rx6_at, ?_, by rx6_keep⟩
      show _ = ((l % 32 : Nat) : Int)
      st_norm; omega
    · have hd' := ‹(c 'c' :: l :: r1)[1]? = none›
      cases hd'
  | characterClass _ _ hc =>
    have hc0 := hc
    obtain ⟨x, rfl, hx⟩ := hc0
    simp only [List.mem_cons, List.not_mem_nil, or_false] at hx
    have hcc : (some x == some (ch 'c')) = false := by
      rcases hx with rfl | rfl | rfl | rfl | rfl | rfl <;> decide
    have hb : (x :: r1).head? ≠ some (ch 'b') := by
      rcases hx with rfl | rfl | rfl | rfl | rfl | rfl <;> exact head_ne_of_ne (by decide) _
    unfold consumeClassEscape
    rx7_autos
    all_goals class_leaf
  | character _ _ v hc hb hncc =>
    have hfree := cceFreeB_of hncc
    obtain ⟨x, m, rfl⟩ := ce_cons hc
    by_cases hx : x = ch 'c'
    · subst hx
      obtain ⟨l, rfl, hl⟩ := ce_c_shape hc
      have hcc : (some (ch 'c') == some (ch 'c')) = true := by decide
      have hd := letter_not_ccl hl
      unfold consumeClassEscape
      rx7_autos
      · class_leaf
      · have hd' := ‹(ch 'c' :: l :: r1)[1]? = some _›
        have e : l = _ := Option.some.inj hd'
        subst e
        have hbad := ‹(isAsciiDigit l || l == ch '_') = true›
        rw [hd] at hbad; cases hbad
      · have hd' := ‹(ch 'c' :: l :: r1)[1]? = none›
        cases hd'
    · have hcc : (some x == some (ch 'c')) = false := by simpa using hx
      unfold consumeClassEscape
      rx7_autos
      all_goals class_leaf

end DL.Rx
