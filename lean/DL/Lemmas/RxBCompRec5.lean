import DL.Lemmas.RxBCompRec4

/-! # Annex B (no `u` flag), completeness: terms -/
namespace DL.Rx
open DL.RxSpec DL.Gen.Unicode

attribute [local irreducible] isScalar
variable {src : List Nat} {K : Bool × Nat}

theorem term_of_assertionB {i r : List Nat} {a : Attr} (ih : PAB src K i r a) : PTB src K i r a := by
  intro n s hat hnq hnd
  have ih' : ∀ n s, BAt src K i s → ND s.groupNames a →
    Wc (consumeAssertion n s) (fun b s1 => b = true ∧ BAt src K r s1 ∧ TrackC s s1 a) := ih
  cases n with
  | zero => exact Wc.outOfFuel
  | succ n =>
    have hoq := fun s (h : BAt src K r s) => consumeOptionalQuantifier_wdn (src := src) (K := K) n r s h hnq
    unfold consumeTerm
    rx7_autos
    · exact ⟨rfl, ‹BAt src K r _›, TrackC.post ‹TrackC s _ a› ‹KeepN _ _›⟩
    · exact ⟨rfl, ‹BAt src K r _›, ‹TrackC s _ a›⟩

theorem term_of_qassertion_quantified {i m r : List Nat} {a : Attr} (ih : PQAB src K i m a)
    (hq : Quantifier qokSat m r) : PTB src K i r a := by
  intro n s hat hnq hnd
  have ih' : ∀ n s, BAt src K i s → ND s.groupNames a →
    Wc (consumeAssertion n s) (fun b s1 => b = true ∧ BAt src K m s1 ∧ TrackC s s1 a ∧
      s1.lastAssertionIsQuantifiable = true) := ih
  have hf3 := hnq.2.2.1
  cases n with
  | zero => exact Wc.outOfFuel
  | succ n =>
    unfold consumeTerm
    rx7_autos
    rename_i htr _ _ _ _ _ hk
    exact ⟨rfl, ‹BAt src K r _›, TrackC.post htr hk⟩

theorem term_of_atomB {i r : List Nat} {a : Attr} (hatom : RxSpecB.Derives K.1 qokSat K.2 .ExtendedAtom i r a)
    (hw : ¬RxSpecB.StartsWordBoundary i) (ih : PAtB src K i r a) : PTB src K i r a := by
  intro n s hat hnq hnd
  have ih' : ∀ n s, BAt src K i s → ND s.groupNames a →
    Wc (consumeExtendedAtom n s) (fun b s1 => b = true ∧ BAt src K r s1 ∧ TrackC s s1 a) := ih
  have hnas := atom_nasB hatom hw
  cases n with
  | zero => exact Wc.outOfFuel
  | succ n =>
    have hoq := fun s (h : BAt src K r s) => consumeOptionalQuantifier_wdn (src := src) (K := K) n r s h hnq
    unfold consumeTerm
    rx7_autos
    rename_i hk1 _ _ _ _ htr _ _ _ _ hk2
    exact ⟨by assumption, ‹BAt src K r _›, TrackC.pre hk1 (TrackC.post htr hk2)⟩

theorem term_of_quantifiedB {i m r : List Nat} {a : Attr} (hatom : RxSpecB.Derives K.1 qokSat K.2 .ExtendedAtom i m a)
    (hw : ¬RxSpecB.StartsWordBoundary i) (hq : Quantifier qokSat m r) (ih : PAtB src K i m a) : PTB src K i r a := by
  intro n s hat hnq hnd
  have ih' : ∀ n s, BAt src K i s → ND s.groupNames a →
    Wc (consumeExtendedAtom n s) (fun b s1 => b = true ∧ BAt src K m s1 ∧ TrackC s s1 a) := ih
  have hnas := atom_nasB hatom hw
  have hf3 := hnq.2.2.1
  cases n with
  | zero => exact Wc.outOfFuel
  | succ n =>
    unfold consumeTerm
    rx7_autos
    rename_i hk1 _ _ _ _ htr _ _ _ _ hk2
    exact ⟨by assumption, ‹BAt src K r _›, TrackC.pre hk1 (TrackC.post htr hk2)⟩

end DL.Rx
