import DL.Model.CFRules

/-! Basic lemmas about the M-CF analyzer state (`Info`, `markAsEnd`, `withChild`) and the reference completions. -/
namespace DL.CF

/-! ### metadata map -/
def Info.ur (i : Info) (q : Nat) : Bool :=
  match i q with
  | some m => m.unreachable
  | none => false

theorem metaUnreach_eq_ur (i : Info) (q : Nat) : metaUnreach i q = i.ur q := rfl

@[simp] theorem ur_setEnd (i : Info) (p : Nat) (e : Option End) (q : Nat) : (i.setEnd p e).ur q = i.ur q := by
  unfold Info.ur Info.setEnd
  by_cases h : q = p
  · subst h; simp only [if_true]; cases i q <;> rfl
  · simp [h]

theorem ur_setUnreach (i : Info) (p : Nat) (u : Bool) (q : Nat) :
    (i.setUnreach p u).ur q = if q = p then u else i.ur q := by
  unfold Info.ur Info.setUnreach
  by_cases h : q = p
  · subst h; simp
  · simp [h]

@[simp] theorem endAt_setUnreach (i : Info) (p : Nat) (u : Bool) (q : Nat) : (i.setUnreach p u).endAt q = i.endAt q := by
  unfold Info.endAt Info.setUnreach
  by_cases h : q = p
  · subst h; simp only [if_true]; cases i q <;> rfl
  · simp [h]

theorem endAt_setEnd (i : Info) (p : Nat) (e : Option End) (q : Nat) :
    (i.setEnd p e).endAt q = if q = p then e else i.endAt q := by
  unfold Info.endAt Info.setEnd
  by_cases h : q = p
  · subst h; simp
  · simp [h]

/-! ### `stopsEnd`, `isForcedEnd` -/
@[simp] theorem stopsEnd_none : stopsEnd none = false := rfl
@[simp] theorem stopsEnd_cont : stopsEnd (some .cont) = false := rfl
@[simp] theorem stopsEnd_brk : stopsEnd (some .brk) = true := rfl
@[simp] theorem stopsEnd_forced (r t i : Bool) : stopsEnd (some (.forced r t i)) = true := rfl
@[simp] theorem isForcedEnd_none : isForcedEnd none = false := rfl
@[simp] theorem isForcedEnd_cont : isForcedEnd (some .cont) = false := rfl
@[simp] theorem isForcedEnd_brk : isForcedEnd (some .brk) = false := rfl
@[simp] theorem isForcedEnd_forced (r t i : Bool) : isForcedEnd (some (.forced r t i)) = true := rfl

theorem stops_of_forced {e : Option End} (h : isForcedEnd e = true) : stopsEnd e = true := by
  rcases e with _ | ⟨r, t, i⟩ | _ | _ <;> simp_all

/-! ### `markAsEnd` -/
theorem markAsEnd_sc (p : Nat) (e : End) (a : A) :
    (markAsEnd p e a).sc = { a.sc with end_ := (markAsEnd p e a).sc.end_ } := by
  obtain ⟨⟨e0, mt, fb, fc, ho⟩, info⟩ := a
  unfold markAsEnd; rcases e0 with _ | ⟨r, t, i⟩ | _ | _ <;> simp

@[simp] theorem markAsEnd_foundBreak (p : Nat) (e : End) (a : A) : (markAsEnd p e a).sc.foundBreak = a.sc.foundBreak := by
  rw [markAsEnd_sc]
@[simp] theorem markAsEnd_foundContinue (p : Nat) (e : End) (a : A) :
    (markAsEnd p e a).sc.foundContinue = a.sc.foundContinue := by rw [markAsEnd_sc]
@[simp] theorem markAsEnd_mayThrow (p : Nat) (e : End) (a : A) : (markAsEnd p e a).sc.mayThrow = a.sc.mayThrow := by
  rw [markAsEnd_sc]
@[simp] theorem markAsEnd_hoist (p : Nat) (e : End) (a : A) : (markAsEnd p e a).sc.hoist = a.sc.hoist := by
  rw [markAsEnd_sc]

@[simp] theorem markAsEnd_ur (p : Nat) (e : End) (a : A) (q : Nat) : (markAsEnd p e a).info.ur q = a.info.ur q := by
  unfold markAsEnd; rcases h : a.sc.end_ with _ | ⟨r, t, i⟩ | _ | _ <;> simp [h]

theorem markAsEnd_endAt_other (p : Nat) (e : End) (a : A) (q : Nat) (hq : q ≠ p) :
    (markAsEnd p e a).info.endAt q = a.info.endAt q := by
  unfold markAsEnd; rcases h : a.sc.end_ with _ | ⟨r, t, i⟩ | _ | _ <;> simp [h, endAt_setEnd, hq]

theorem markAsEnd_info_other (p : Nat) (e : End) (a : A) (q : Nat) (hq : q ≠ p) :
    (markAsEnd p e a).info q = a.info q := by
  unfold markAsEnd; rcases h : a.sc.end_ with _ | ⟨r, t, i⟩ | _ | _ <;> simp [h, Info.setEnd, hq]

/-- the scope's end after `mark_as_end` stops iff it stopped before or the marked end stops -/
theorem markAsEnd_stops (p : Nat) (e : End) (a : A) :
    stopsEnd (markAsEnd p e a).sc.end_ = (stopsEnd a.sc.end_ || stopsEnd (some e)) := by
  unfold markAsEnd; rcases h : a.sc.end_ with _ | ⟨r, t, i⟩ | _ | _ <;> simp [h]

/-- the end recorded at `p` stops only if the scope had stopped or the marked end stops -/
theorem markAsEnd_self_stops (p : Nat) (e : End) (a : A)
    (h : stopsEnd ((markAsEnd p e a).info.endAt p) = true) : stopsEnd a.sc.end_ = true ∨ stopsEnd (some e) = true := by
  unfold markAsEnd at h
  rcases h' : a.sc.end_ with _ | ⟨r, t, i⟩ | _ | _ <;> simp [h', endAt_setEnd] at h ⊢ <;> simp_all

/-- …and it is forced only if the scope's end was forced or the marked end is -/
theorem markAsEnd_self_forced (p : Nat) (e : End) (a : A)
    (h : isForcedEnd ((markAsEnd p e a).info.endAt p) = true) : isForcedEnd a.sc.end_ = true ∨ e.isForced = true := by
  unfold markAsEnd at h
  rcases h' : a.sc.end_ with _ | ⟨r, t, i⟩ | _ | _ <;> simp [h', endAt_setEnd] at h ⊢
  all_goals (cases e <;> simp_all [End.isForced, isForcedEnd])

theorem markAsEnd_forced (p : Nat) (e : End) (a : A) :
    isForcedEnd (markAsEnd p e a).sc.end_ =
      (isForcedEnd a.sc.end_ || (!stopsEnd a.sc.end_ && e.isForced)) := by
  unfold markAsEnd; rcases h : a.sc.end_ with _ | ⟨r, t, i⟩ | _ | _ <;> cases e <;> simp [h, End.isForced]

@[simp] theorem setEnd_info (a : A) (e : Option End) : (a.setEnd e).info = a.info := rfl
@[simp] theorem setEnd_end (a : A) (e : Option End) : (a.setEnd e).sc.end_ = e := rfl
@[simp] theorem setEnd_foundBreak (a : A) (e : Option End) : (a.setEnd e).sc.foundBreak = a.sc.foundBreak := rfl
@[simp] theorem setEnd_foundContinue (a : A) (e : Option End) : (a.setEnd e).sc.foundContinue = a.sc.foundContinue := rfl

/-! ### completions -/
@[simp] theorem seq_n (x y : Compl) : (x.seq y).n = (x.n && y.n) := by
  unfold Compl.seq; cases h : x.n <;> simp [h, Compl.union, Compl.abrupt]
@[simp] theorem seq_b (x y : Compl) : (x.seq y).b = (x.b || (x.n && y.b)) := by
  unfold Compl.seq; cases h : x.n <;> simp [h, Compl.union, Compl.abrupt]
@[simp] theorem seq_c (x y : Compl) : (x.seq y).c = (x.c || (x.n && y.c)) := by
  unfold Compl.seq; cases h : x.n <;> simp [h, Compl.union, Compl.abrupt]
@[simp] theorem union_n (x y : Compl) : (x.union y).n = (x.n || y.n) := rfl
@[simp] theorem union_b (x y : Compl) : (x.union y).b = (x.b || y.b) := rfl
@[simp] theorem union_c (x y : Compl) : (x.union y).c = (x.c || y.c) := rfl
@[simp] theorem evalCompl_eq (k : Kids) : evalCompl k = k.compl := rfl
@[simp] theorem testComplOf_eq (tt : Bool) (k : Kids) : testComplOf tt k.compl = testCompl tt k := rfl
@[simp] theorem normal_n : Compl.normal.n = true := rfl
@[simp] theorem normal_b : Compl.normal.b = false := rfl
@[simp] theorem normal_c : Compl.normal.c = false := rfl
@[simp] theorem loopCompl_n (ls : List Id) (x : Bool) (b : Compl) : (loopCompl ls x b).n = (x || b.b) := rfl
@[simp] theorem loopCompl_b (ls : List Id) (x : Bool) (b : Compl) : (loopCompl ls x b).b = false := rfl
@[simp] theorem loopCompl_c (ls : List Id) (x : Bool) (b : Compl) : (loopCompl ls x b).c = false := rfl
@[simp] theorem guard_n (g : Bool) (x : Compl) : (Compl.guard g x).n = (g && x.n) := by
  unfold Compl.guard; cases g <;> simp
@[simp] theorem guard_b (g : Bool) (x : Compl) : (Compl.guard g x).b = (g && x.b) := by
  unfold Compl.guard; cases g <;> simp
@[simp] theorem guard_c (g : Bool) (x : Compl) : (Compl.guard g x).c = (g && x.c) := by
  unfold Compl.guard; cases g <;> simp
@[simp] theorem abrupt_n (x : Compl) : x.abrupt.n = false := rfl
@[simp] theorem abrupt_b (x : Compl) : x.abrupt.b = x.b := rfl
@[simp] theorem abrupt_c (x : Compl) : x.abrupt.c = x.c := rfl

/-! ### labelled continues -/
/-- some labelled `continue` is among the completions -/
def Compl.hasCl (x : Compl) : Bool := !x.cl.isEmpty

theorem hasCl_append (x y : List Id) : (!(x ++ y).isEmpty) = (!x.isEmpty || !y.isEmpty) := by
  cases x <;> cases y <;> rfl

@[simp] theorem seq_hasCl (x y : Compl) : (x.seq y).hasCl = (x.hasCl || (x.n && y.hasCl)) := by
  unfold Compl.seq Compl.hasCl; cases h : x.n <;> simp [Compl.union, Compl.abrupt, hasCl_append]
@[simp] theorem union_hasCl (x y : Compl) : (x.union y).hasCl = (x.hasCl || y.hasCl) := by
  simp [Compl.union, Compl.hasCl, hasCl_append]
@[simp] theorem normal_hasCl : Compl.normal.hasCl = false := rfl
@[simp] theorem guard_hasCl (g : Bool) (x : Compl) : (Compl.guard g x).hasCl = (g && x.hasCl) := by
  unfold Compl.guard; cases g <;> simp [Compl.hasCl]
@[simp] theorem abrupt_hasCl (x : Compl) : x.abrupt.hasCl = x.hasCl := rfl

theorem filter_nonempty {α : Type} (f : α → Bool) (l : List α) (h : (!(l.filter f).isEmpty) = true) : (!l.isEmpty) = true := by
  cases l with
  | nil => simp at h
  | cons a r => rfl

theorem loopCompl_hasCl (ls : List Id) (x : Bool) (b : Compl) (h : (loopCompl ls x b).hasCl = true) : b.hasCl = true :=
  filter_nonempty _ _ h

/-- no labelled `continue`: nothing continues to a label -/
theorem any_of_not_hasCl (x : Compl) (f : Id → Bool) (h : x.hasCl = false) : x.cl.any f = false := by
  unfold Compl.hasCl at h
  cases hc : x.cl with
  | nil => rfl
  | cons a r => rw [hc] at h; simp at h

/-! ### throw completions -/
@[simp] theorem seq_t (x y : Compl) : (x.seq y).t = (x.t || (x.n && y.t)) := by
  unfold Compl.seq; cases h : x.n <;> simp [Compl.union, Compl.abrupt]
@[simp] theorem union_t (x y : Compl) : (x.union y).t = (x.t || y.t) := rfl
@[simp] theorem normal_t : Compl.normal.t = false := rfl
@[simp] theorem guard_t (g : Bool) (x : Compl) : (Compl.guard g x).t = (g && x.t) := by
  unfold Compl.guard; cases g <;> simp
@[simp] theorem abrupt_t (x : Compl) : x.abrupt.t = x.t := rfl
@[simp] theorem loopCompl_t (ls : List Id) (x : Bool) (b : Compl) : (loopCompl ls x b).t = b.t := rfl

@[simp] theorem setEnd_mayThrow (a : A) (e : Option End) : (a.setEnd e).sc.mayThrow = a.sc.mayThrow := rfl

/-! ### expressions without statements nested in them, and "plain" completions -/
mutual
/-- no statement is nested directly in this expression tree (`with` bodies, class static blocks); function scopes are
not looked into -/
def Kid.pure : Kid → Bool
  | .expr _ ks => ks.pure
  | .fnScope _ _ => true
  | .block _ _ => false
  | .stmt _ => false
def Kids.pure : Kids → Bool
  | .nil => true
  | .cons k r => k.pure && r.pure
end

/-- completions that are normal or a throw only: no `break`/`continue` escapes -/
def Compl.plain (c : Compl) : Bool := !c.b && !c.c && !c.hasCl

theorem Compl.plain_b {c : Compl} (h : c.plain = true) : c.b = false := by
  unfold Compl.plain at h; cases hb : c.b <;> simp_all
theorem Compl.plain_c {c : Compl} (h : c.plain = true) : c.c = false := by
  unfold Compl.plain at h; cases hb : c.c <;> simp_all
theorem Compl.plain_hasCl {c : Compl} (h : c.plain = true) : c.hasCl = false := by
  unfold Compl.plain at h; cases hb : c.hasCl <;> simp_all

/-- what evaluating pure expressions can do: complete normally, or throw if some part may throw -/
def pureCompl (ks : Kids) : Compl := { n := true, t := ks.mayThrow }

@[simp] theorem pureCompl_n (k : Kids) : (pureCompl k).n = true := rfl
@[simp] theorem pureCompl_b (k : Kids) : (pureCompl k).b = false := rfl
@[simp] theorem pureCompl_c (k : Kids) : (pureCompl k).c = false := rfl
@[simp] theorem pureCompl_hasCl (k : Kids) : (pureCompl k).hasCl = false := rfl
@[simp] theorem pureCompl_t (k : Kids) : (pureCompl k).t = k.mayThrow := rfl
theorem pureCompl_plain (k : Kids) : (pureCompl k).plain = true := rfl

theorem seq_simple (t1 t2 : Bool) : Compl.seq { n := true, t := t1 } { n := true, t := t2 } = { n := true, t := t1 || t2 } := by
  simp [Compl.seq, Compl.union, Compl.abrupt]

mutual
theorem Kid.compl_pure : ∀ (k : Kid), k.pure = true → k.compl = { n := true, t := k.mayThrow }
  | .expr e ks, h => by
    have hk := Kids.compl_pure ks (by simpa [Kid.pure] using h)
    simp only [Kid.compl, hk, pureCompl]
    cases e <;> simp [exprOwn, seq_simple, Kid.mayThrow]
  | .fnScope _ _, _ => by simp [Kid.compl, Kid.mayThrow, Compl.normal]
  | .block _ _, h => by simp [Kid.pure] at h
  | .stmt _, h => by simp [Kid.pure] at h
theorem Kids.compl_pure : ∀ (ks : Kids), ks.pure = true → ks.compl = pureCompl ks
  | .nil, _ => by simp [Kids.compl, pureCompl, Kids.mayThrow, Compl.normal]
  | .cons k r, h => by
    simp only [Kids.pure, Bool.and_eq_true] at h
    simp only [Kids.compl, Kid.compl_pure k h.1, Kids.compl_pure r h.2, pureCompl, seq_simple, Kids.mayThrow]
end

theorem testCompl_n (tt : Bool) (k : Kids) : (testCompl tt k).n = (tt || k.compl.n) := by
  unfold testCompl testComplOf; cases tt <;> simp
theorem testCompl_plain (tt : Bool) (k : Kids) (h : k.compl.plain = true) : (testCompl tt k).plain = true := by
  unfold testCompl testComplOf; cases tt
  · simpa using h
  · rfl
theorem testCompl_t (tt : Bool) (k : Kids) : (testCompl tt k).t = (!tt && k.compl.t) := by
  unfold testCompl testComplOf; cases tt <;> simp

end DL.CF
