import DL.Lemmas.CFSwitch

/-! Soundness invariant: the cases of a `switch`. -/
namespace DL.CF

structure PostC (live : Bool) (cs : Cases) (a a' : A) : Prop where
  end_ : a'.sc.end_ = a.sc.end_
  fb : a'.sc.foundBreak = a.sc.foundBreak
  monoC : a.sc.foundContinue = true → a'.sc.foundContinue = true
  p2c : (live && cs.anyCont) = true → a'.sc.foundContinue = true
  mt : a.sc.mayThrow = true → a'.sc.mayThrow = true
  pT : (live && (cs.testsMayThrow || cs.anyT)) = true → a'.sc.mayThrow = true
  p3 : ∀ q ∈ cs.upos, a'.info.ur q = true → (live && cs.reach q) = false
  p3i : ∀ q ∈ cs.upos, a'.info.ur q = true → cs.inner q = false
  frame : ∀ q, q ∉ cs.positions → a'.info q = a.info q
  marks : cs.marks a'.info live

theorem withChildR_case (p : Nat) (op : A → A) (x : A) :
    withChildR .case p op x =
      ({ sc := mergeSc .case x.sc (op (childA .case x)).sc, info := (op (childA .case x)).info }, (op (childA .case x)).sc) := by
  simp only [withChildR, childA, childExit]
  cases (op _).sc.end_ <;> rfl

/-- one `visit_switch_case` -/
structure CaseStep (live : Bool) (p : Nat) (t : Kids) (body : Stmts) (a a' : A) : Prop where
  end_ : a'.sc.end_ = a.sc.end_
  fb : a'.sc.foundBreak = a.sc.foundBreak
  monoC : a.sc.foundContinue = true → a'.sc.foundContinue = true
  p2c : (live && (body.compl.c || body.compl.hasCl)) = true → a'.sc.foundContinue = true
  mt : a.sc.mayThrow = true → a'.sc.mayThrow = true
  pT : (live && (t.mayThrow || body.compl.t)) = true → a'.sc.mayThrow = true
  p3t : ∀ q ∈ t.upos, a'.info.ur q = true → t.inner q = false
  p3 : ∀ q ∈ body.upos, a'.info.ur q = true → (live && body.reach q) = false
  p3i : ∀ q ∈ body.upos, a'.info.ur q = true → body.inner q = false
  frame : ∀ q, q ≠ p → q ∉ t.positions → q ∉ body.positions → a'.info q = a.info q
  mark : ∃ e, a'.info.endAt p = some e ∧ (e.isForced = true → (live && (body.compl.n || body.compl.b)) = false)

theorem caseStep (live : Bool) (p : Nat) (t : Kids) (body : Stmts) (a : A)
    (hpre : Pre live (p :: (t.positions ++ body.positions)) a)
    (ihk : ∀ x, PreK t.positions x → PostK t.upos t.positions t.inner t.mayThrow x (visitKids t x))
    (ihb : ∀ a0, Pre live body.positions a0 → PostL live body.upos body.positions body.compl body.reach body.inner a0 (visitStmts body a0)) :
    CaseStep live p t body a (caseTail p a.sc.end_ (withChildR .case p (visitStmts body) (visitKids t a))) := by
  have hnd := List.nodup_cons.mp hpre.nodup
  have hnd2 := List.nodup_append.mp hnd.2
  have hpt : p ∉ t.positions := fun h => hnd.1 (List.mem_append.mpr (Or.inl h))
  have hpb : p ∉ body.positions := fun h => hnd.1 (List.mem_append.mpr (Or.inr h))
  have hdisj : ∀ q, q ∈ t.positions → q ∈ body.positions → False := fun q h1 h2 => hnd2.2.2 q h1 q h2 rfl
  have hk := ihk a ⟨fun q hq => hpre.fresh q (List.mem_cons_of_mem _ (List.mem_append.mpr (Or.inl hq))), hnd2.1⟩
  generalize visitKids t a = x at hk
  rw [withChildR_case]
  have hprec : Pre live body.positions (childA .case x) := by
    refine childA_pre live .case _ x (fun h => hpre.hs (by rw [← hk.end_]; exact h)) ?_ hnd2.2.1
    intro q hq
    rw [endAt_eq_of_info_eq (hk.frame q (fun h => hdisj q h hq))]
    exact hpre.fresh q (List.mem_cons_of_mem _ (List.mem_append.mpr (Or.inr hq)))
  have hb := ihb _ hprec
  have hcfb : (childA .case x).sc.foundBreak = none := rfl
  generalize visitStmts body (childA .case x) = c at hb
  unfold caseTail
  simp only
  generalize hce : (if c.sc.foundBreak.isSome = true then some End.brk
      else if isForcedEnd c.sc.end_ = true then c.sc.end_ else none : Option End) = caseEnd
  generalize hr1 : ({ sc := mergeSc .case x.sc c.sc, info := c.info } : A) = r1
  have hr1e : r1.sc.end_ = a.sc.end_ := by rw [← hr1]; exact hk.end_
  have hr1i : r1.info = c.info := by rw [← hr1]
  have hr1b : r1.sc.foundBreak = a.sc.foundBreak := by rw [← hr1]; exact hk.fb
  have hr1c : r1.sc.foundContinue = (x.sc.foundContinue || c.sc.foundContinue) := by rw [← hr1]; rfl
  have hr1t : r1.sc.mayThrow = (x.sc.mayThrow || c.sc.mayThrow) := by rw [← hr1]; rfl
  refine ⟨rfl, ?_, ?_, ?_, ?_, ?_, ?_, ?_, ?_, ?_, ?_⟩
  · simp [hr1b]
  · intro h; simp [hr1c, hk.fc h]
  · intro h
    have : c.sc.foundContinue = true := by
      cases h1 : (live && body.compl.c) with
      | true => exact hb.p2c h1
      | false =>
        apply hb.p2l
        revert h h1; cases live <;> cases body.compl.c <;> simp
    simp [hr1c, this]
  · intro h; simp [hr1t, hk.mt h]
  · intro h
    simp only [Bool.and_eq_true, Bool.or_eq_true] at h
    rcases h.2 with ht | ht
    · simp [hr1t, hk.pT (hpre.notStopped h.1) ht]
    · simp [hr1t, hb.pT (by simp [h.1, ht])]
  · intro q hq hu
    simp only [setEnd_info, markAsEnd_ur] at hu
    rw [hr1i, ur_eq_of_info_eq (hb.frame q (fun h => hdisj q (Kids.upos_sub t q hq) h))] at hu
    exact hk.p3 q hq hu
  · intro q hq hu
    simp only [setEnd_info, markAsEnd_ur] at hu
    rw [hr1i] at hu
    exact hb.p3 q hq hu
  · intro q hq hu
    simp only [setEnd_info, markAsEnd_ur] at hu
    rw [hr1i] at hu
    exact hb.p3i q hq hu
  · intro q h1 h2 h3
    simp only [setEnd_info]
    rw [markAsEnd_info_other _ _ _ _ h1, hr1i, hb.frame q h3]
    exact hk.frame q h2
  · simp only [setEnd_info]
    obtain ⟨e', he'⟩ := markAsEnd_self_some p (caseEnd.getD .cont) r1
    refine ⟨e', he', ?_⟩
    intro hf
    have hf' : isForcedEnd ((markAsEnd p (caseEnd.getD .cont) r1).info.endAt p) = true := by
      rw [he']; cases e' <;> simp_all [End.isForced]
    rcases markAsEnd_self_forced _ _ _ hf' with h | h
    · rw [hr1e] at h; simp [hpre.hs (stops_of_forced h)]
    · -- the case end is forced: no `break` was found and the body's scope has a forced end
      by_cases hfb : c.sc.foundBreak.isSome = true
      · rw [if_pos hfb] at hce; subst hce; simp [End.isForced] at h
      · rw [if_neg hfb] at hce
        by_cases hfe : isForcedEnd c.sc.end_ = true
        · rw [if_pos hfe] at hce
          have hn := hb.p1 (stops_of_forced hfe)
          have hbk : (live && body.compl.b) = false := by
            cases hh : (live && body.compl.b) with
            | false => rfl
            | true => rw [hb.p2 hh] at hfb; simp at hfb
          revert hn hbk; cases live <;> cases body.compl.n <;> cases body.compl.b <;> simp
        · rw [if_neg hfe] at hce; subst hce; simp [End.isForced] at h

end DL.CF
