import DL.Lemmas.RxCompBase

/-! # Completeness: the helpers that cannot return `Err` -/
namespace DL.Rx
attribute [local irreducible] isScalar

theorem NE.isInRangeLoop (cp : Nat) (ranges : Array Nat) : ∀ n l r, NE (DL.Rx.isInRangeLoop cp ranges n l r)
  | 0, _, _ => by unfold DL.Rx.isInRangeLoop; ne_auto
  | n + 1, l, r => by
    have ih := NE.isInRangeLoop cp ranges n
    unfold DL.Rx.isInRangeLoop; ne_auto
    all_goals exact ih _ _
macro_rules | `(tactic| ne_known) => `(tactic| exact NE.isInRangeLoop _ _ _ _ _)

theorem NE.isInRange (cp : Nat) (ranges : Array Nat) : NE (DL.Rx.isInRange cp ranges) := by unfold DL.Rx.isInRange; ne_auto
macro_rules | `(tactic| ne_known) => `(tactic| exact NE.isInRange _ _)

theorem NE.isLargeIdStart (cp : Nat) : NE (DL.Rx.isLargeIdStart cp) := by unfold DL.Rx.isLargeIdStart; ne_auto
macro_rules | `(tactic| ne_known) => `(tactic| exact NE.isLargeIdStart _)

theorem NE.isLargeIdContinue (cp : Nat) : NE (DL.Rx.isLargeIdContinue cp) := by unfold DL.Rx.isLargeIdContinue; ne_auto
macro_rules | `(tactic| ne_known) => `(tactic| exact NE.isLargeIdContinue _)

theorem NE.isIdStart (cp : Nat) : NE (DL.Rx.isIdStart cp) := by unfold DL.Rx.isIdStart; ne_auto
macro_rules | `(tactic| ne_known) => `(tactic| exact NE.isIdStart _)

theorem NE.isIdContinue (cp : Nat) : NE (DL.Rx.isIdContinue cp) := by unfold DL.Rx.isIdContinue; ne_auto
macro_rules | `(tactic| ne_known) => `(tactic| exact NE.isIdContinue _)

theorem NE.isRegexpIdentifierStart (cp : Nat) : NE (DL.Rx.isRegexpIdentifierStart cp) := by unfold DL.Rx.isRegexpIdentifierStart; ne_auto
macro_rules | `(tactic| ne_known) => `(tactic| exact NE.isRegexpIdentifierStart _)

theorem NE.isRegexpIdentifierPart (cp : Nat) : NE (DL.Rx.isRegexpIdentifierPart cp) := by unfold DL.Rx.isRegexpIdentifierPart; ne_auto
macro_rules | `(tactic| ne_known) => `(tactic| exact NE.isRegexpIdentifierPart _)

theorem NE.checkedI64 (v : Int) (site : String) : NE (DL.Rx.checkedI64 v site) := by unfold DL.Rx.checkedI64; ne_auto
macro_rules | `(tactic| ne_known) => `(tactic| exact NE.checkedI64 _ _)

theorem NE.eatFixedHexDigitsLoop (start : Nat) : ∀ k, NE (DL.Rx.eatFixedHexDigitsLoop start k)
  | 0 => by unfold DL.Rx.eatFixedHexDigitsLoop; ne_auto
  | k + 1 => by
    have ih := NE.eatFixedHexDigitsLoop start k
    unfold DL.Rx.eatFixedHexDigitsLoop; ne_auto
macro_rules | `(tactic| ne_known) => `(tactic| exact NE.eatFixedHexDigitsLoop _ _)

theorem NE.eatFixedHexDigits (k : Nat) : NE (DL.Rx.eatFixedHexDigits k) := by unfold DL.Rx.eatFixedHexDigits; ne_auto
macro_rules | `(tactic| ne_known) => `(tactic| exact NE.eatFixedHexDigits _)

theorem NE.eatHexDigitsLoop : ∀ n, NE (DL.Rx.eatHexDigitsLoop n)
  | 0 => by unfold DL.Rx.eatHexDigitsLoop; ne_auto
  | n + 1 => by
    have ih := NE.eatHexDigitsLoop n
    unfold DL.Rx.eatHexDigitsLoop; ne_auto
macro_rules | `(tactic| ne_known) => `(tactic| exact NE.eatHexDigitsLoop _)

theorem NE.eatHexDigits (n : Nat) : NE (DL.Rx.eatHexDigits n) := by unfold DL.Rx.eatHexDigits; ne_auto
macro_rules | `(tactic| ne_known) => `(tactic| exact NE.eatHexDigits _)

theorem NE.eatDecimalDigitsLoop : ∀ n, NE (DL.Rx.eatDecimalDigitsLoop n)
  | 0 => by unfold DL.Rx.eatDecimalDigitsLoop; ne_auto
  | n + 1 => by
    have ih := NE.eatDecimalDigitsLoop n
    unfold DL.Rx.eatDecimalDigitsLoop; ne_auto
macro_rules | `(tactic| ne_known) => `(tactic| exact NE.eatDecimalDigitsLoop _)

theorem NE.eatDecimalDigits (n : Nat) : NE (DL.Rx.eatDecimalDigits n) := by unfold DL.Rx.eatDecimalDigits; ne_auto
macro_rules | `(tactic| ne_known) => `(tactic| exact NE.eatDecimalDigits _)

theorem NE.eatPropertyCharsLoop (p : Nat → Bool) (site : String) : ∀ n, NE (DL.Rx.eatPropertyCharsLoop p site n)
  | 0 => by unfold DL.Rx.eatPropertyCharsLoop; ne_auto
  | n + 1 => by
    have ih := NE.eatPropertyCharsLoop p site n
    unfold DL.Rx.eatPropertyCharsLoop; ne_auto
macro_rules | `(tactic| ne_known) => `(tactic| exact NE.eatPropertyCharsLoop _ _ _)

theorem NE.eatUnicodePropertyName (n : Nat) : NE (DL.Rx.eatUnicodePropertyName n) := by unfold DL.Rx.eatUnicodePropertyName; ne_auto
macro_rules | `(tactic| ne_known) => `(tactic| exact NE.eatUnicodePropertyName _)

theorem NE.eatUnicodePropertyValue (n : Nat) : NE (DL.Rx.eatUnicodePropertyValue n) := by unfold DL.Rx.eatUnicodePropertyValue; ne_auto
macro_rules | `(tactic| ne_known) => `(tactic| exact NE.eatUnicodePropertyValue _)

theorem NE.eatLoneUnicodePropertyNameOrValue (n : Nat) : NE (DL.Rx.eatLoneUnicodePropertyNameOrValue n) := by unfold DL.Rx.eatLoneUnicodePropertyNameOrValue; ne_auto
macro_rules | `(tactic| ne_known) => `(tactic| exact NE.eatLoneUnicodePropertyNameOrValue _)

theorem NE.eatDecimalEscapeLoop : ∀ n, NE (DL.Rx.eatDecimalEscapeLoop n)
  | 0 => by unfold DL.Rx.eatDecimalEscapeLoop; ne_auto
  | n + 1 => by
    have ih := NE.eatDecimalEscapeLoop n
    unfold DL.Rx.eatDecimalEscapeLoop; ne_auto
macro_rules | `(tactic| ne_known) => `(tactic| exact NE.eatDecimalEscapeLoop _)

theorem NE.eatDecimalEscape (n : Nat) : NE (DL.Rx.eatDecimalEscape n) := by unfold DL.Rx.eatDecimalEscape; ne_auto
macro_rules | `(tactic| ne_known) => `(tactic| exact NE.eatDecimalEscape _)

theorem NE.eatControlLetter : NE DL.Rx.eatControlLetter := by unfold DL.Rx.eatControlLetter; ne_auto
macro_rules | `(tactic| ne_known) => `(tactic| exact NE.eatControlLetter)

theorem NE.eatControlEscape : NE DL.Rx.eatControlEscape := by unfold DL.Rx.eatControlEscape; ne_auto
macro_rules | `(tactic| ne_known) => `(tactic| exact NE.eatControlEscape)

theorem NE.eatZero : NE DL.Rx.eatZero := by unfold DL.Rx.eatZero; ne_auto
macro_rules | `(tactic| ne_known) => `(tactic| exact NE.eatZero)

theorem NE.eatCControlLetter : NE DL.Rx.eatCControlLetter := by unfold DL.Rx.eatCControlLetter; ne_auto
macro_rules | `(tactic| ne_known) => `(tactic| exact NE.eatCControlLetter)

theorem NE.isValidIdentityEscape (cp : Nat) : NE (DL.Rx.isValidIdentityEscape cp) := by unfold DL.Rx.isValidIdentityEscape; ne_auto
macro_rules | `(tactic| ne_known) => `(tactic| exact NE.isValidIdentityEscape _)

theorem NE.eatIdentityEscape : NE DL.Rx.eatIdentityEscape := by unfold DL.Rx.eatIdentityEscape; ne_auto
macro_rules | `(tactic| ne_known) => `(tactic| exact NE.eatIdentityEscape)

theorem NE.eatRegexpUnicodeCodepointEscape (n : Nat) : NE (DL.Rx.eatRegexpUnicodeCodepointEscape n) := by unfold DL.Rx.eatRegexpUnicodeCodepointEscape; ne_auto
macro_rules | `(tactic| ne_known) => `(tactic| exact NE.eatRegexpUnicodeCodepointEscape _)

theorem NE.eatRegexpUnicodeSurrogatePairEscape : NE DL.Rx.eatRegexpUnicodeSurrogatePairEscape := by unfold DL.Rx.eatRegexpUnicodeSurrogatePairEscape; ne_auto
macro_rules | `(tactic| ne_known) => `(tactic| exact NE.eatRegexpUnicodeSurrogatePairEscape)

theorem NE.consumePatternCharacter : NE DL.Rx.consumePatternCharacter := by unfold DL.Rx.consumePatternCharacter; ne_auto
macro_rules | `(tactic| ne_known) => `(tactic| exact NE.consumePatternCharacter)

end DL.Rx
