import DL.Lemmas.CFTry4

/-! Soundness invariant: `try` statements. -/
namespace DL.CF

theorem PostL.conv {live : Bool} {us us' ps ps' : List Nat} {c c' : Compl} {r r' i i' : Nat → Bool} {a a' : A}
    (h : PostL live us ps c r i a a') (hus : ∀ q, q ∈ us' → q ∈ us) (hps : ∀ q, q ∈ ps → q ∈ ps') (hc : c' = c)
    (hr : ∀ q, r' q = r q) (hi : ∀ q, i' q = i q) : PostL live us' ps' c' r' i' a a' := by
  subst hc
  exact ⟨h.p1, h.p2, h.p2c, h.monoB, h.monoC, h.p2l, fun q hq hu => by rw [hr]; exact h.p3 q (hus q hq) hu,
    fun q hq hu => by rw [hi]; exact h.p3i q (hus q hq) hu, fun q hq => h.frame q (fun hp => hq (hps q hp)), h.monoT, h.pT⟩

theorem tryFin_facts (p : Nat) (a : A) :
    (∀ q, (tryFin p a).info.ur q = a.info.ur q) ∧ (∀ q, q ≠ p → (tryFin p a).info q = a.info q) ∧
    (tryFin p a).sc.foundBreak = a.sc.foundBreak ∧ (tryFin p a).sc.foundContinue = a.sc.foundContinue ∧
    (tryFin p a).sc.mayThrow = a.sc.mayThrow ∧ stopsEnd (tryFin p a).sc.end_ = stopsEnd a.sc.end_ ∧
    (stopsEnd ((tryFin p a).info.endAt p) = true → stopsEnd a.sc.end_ = true ∨ stopsEnd (a.info.endAt p) = true) := by
  unfold tryFin
  rcases he : a.sc.end_ with _ | e
  · exact ⟨fun _ => rfl, fun _ _ => rfl, rfl, rfl, rfl, by simp [he], fun h => Or.inr h⟩
  · refine ⟨fun q => by simp, fun q hq => markAsEnd_info_other _ _ _ _ hq, by simp, by simp, by simp, ?_, ?_⟩
    · simp only; rw [markAsEnd_stops, he]; simp
    · intro h
      simp only at h
      rcases markAsEnd_self_stops _ _ _ h with h' | h'
      · exact Or.inl (by rw [← he]; exact h')
      · exact Or.inl h'

/-- positions of a `try` statement, taken apart -/
structure TrySplit (p bp : Nat) (bps CP FP : List Nat) : Prop where
  p_bp : p ≠ bp
  p_b : p ∉ bps
  p_c : p ∉ CP
  p_f : p ∉ FP
  nb : (bp :: bps).Nodup
  nc : CP.Nodup
  nf : FP.Nodup
  bc : ∀ q, q ∈ bp :: bps → q ∈ CP → False
  bf : ∀ q, q ∈ bp :: bps → q ∈ FP → False
  cf : ∀ q, q ∈ CP → q ∈ FP → False

theorem TrySplit.of {p bp : Nat} {bps CP FP : List Nat} (h : (p :: bp :: (bps ++ (CP ++ FP))).Nodup) :
    TrySplit p bp bps CP FP := by
  have h1 := List.nodup_cons.mp h
  have h2 := List.nodup_cons.mp h1.2
  have h3 := List.nodup_append.mp h2.2
  have h4 := List.nodup_append.mp h3.2.1
  have hp : ∀ q, q ∈ bp :: (bps ++ (CP ++ FP)) → p ≠ q := fun q hq e => h1.1 (e ▸ hq)
  refine ⟨hp bp (by simp), fun hm => hp p (by simp [hm]) rfl, fun hm => hp p (by simp [hm]) rfl,
    fun hm => hp p (by simp [hm]) rfl, ?_, h4.1, h4.2.1, ?_, ?_, fun q a b => h4.2.2 q a q b rfl⟩
  · exact List.nodup_cons.mpr ⟨fun hm => h2.1 (List.mem_append.mpr (Or.inl hm)), h3.1⟩
  · intro q hq hc
    rcases List.mem_cons.mp hq with rfl | hq
    · exact h2.1 (by simp [hc])
    · exact h3.2.2 q hq q (List.mem_append.mpr (Or.inl hc)) rfl
  · intro q hq hc
    rcases List.mem_cons.mp hq with rfl | hq
    · exact h2.1 (by simp [hc])
    · exact h3.2.2 q hq q (List.mem_append.mpr (Or.inr hc)) rfl

end DL.CF
