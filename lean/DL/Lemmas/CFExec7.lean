import DL.Lemmas.CFExec6

/-! **Completeness of the closed-form reachability**: every program point `Stmt.reach` says is reached, is reached by the
inductive semantics.  Unconditional. -/
namespace DL.CF

theorem testN_inv {tt : Bool} {t : Kids} (h : (testCompl tt t).n = true) : EvalTest tt t .normal :=
  testCompl_has_inv (fun o' => Kids.complete t o') h

theorem goesRoundAny_inv (body : Stmt) (h : goesRoundAny (body.compl []) = true) :
    ∃ o, Exec [] body o ∧ o.goesRoundAny = true := by
  obtain ⟨o, h1, h2⟩ := (goesRoundAny_iff _).mp h
  exact ⟨o, Stmt.complete body [] o h1, h2⟩

mutual
theorem Stmt.reach_complete : ∀ (s : Stmt) (p : Nat), s.reach p = true → Reaches s p
  | .simple q t kids, p, h => by
    simp only [Stmt.reach, Bool.or_eq_true, beq_iff_eq] at h
    rcases h with rfl | h
    · exact .self _
    · exact .simple_kids (Kids.flowReach_complete kids p h)
  | .block q body, p, h => by
    simp only [Stmt.reach, Bool.or_eq_true, beq_iff_eq] at h
    rcases h with rfl | h
    · exact .self _
    · exact .block (Stmts.reach_complete body p h)
  | .ifS q t c none, p, h => by
    simp only [Stmt.reach, Bool.or_eq_true, beq_iff_eq, Bool.and_eq_true] at h
    rcases h with (rfl | h) | ⟨hn, h⟩
    · exact .self _
    · exact .if_test (Kids.flowReach_complete t p h)
    · exact .if_then (Kids.complete t .normal hn) (Stmt.reach_complete c p h)
  | .ifS q t c (some a), p, h => by
    simp only [Stmt.reach, Bool.or_eq_true, beq_iff_eq, Bool.and_eq_true] at h
    rcases h with (rfl | h) | ⟨hn, h | h⟩
    · exact .self _
    · exact .if_test (Kids.flowReach_complete t p h)
    · exact .if_then (Kids.complete t .normal hn) (Stmt.reach_complete c p h)
    · exact .if_else (Kids.complete t .normal hn) (Stmt.reach_complete a p h)
  | .whileS q t tt b, p, h => by
    simp only [Stmt.reach, testComplOf_eq, Bool.or_eq_true, beq_iff_eq, Bool.and_eq_true] at h
    rcases h with (rfl | h) | ⟨hn, h⟩
    · exact .self _
    · exact .while_test (Kids.flowReach_complete t p h)
    · exact .while_body (testN_inv hn) (Stmt.reach_complete b p h)
  | .doWhileS q b t tt, p, h => by
    simp only [Stmt.reach, Bool.or_eq_true, beq_iff_eq, Bool.and_eq_true] at h
    rcases h with (rfl | h) | ⟨hg, h⟩
    · exact .self _
    · exact .do_body (Stmt.reach_complete b p h)
    · obtain ⟨o, ho, hgo⟩ := goesRoundAny_inv b hg
      exact .do_test ho hgo (Kids.flowReach_complete t p h)
  | .forS q i u t ht tt b, p, h => by
    simp only [Stmt.reach, testComplOf_eq, Bool.or_eq_true, beq_iff_eq, Bool.and_eq_true] at h
    rcases h with (rfl | h) | ⟨hin, h | ⟨htn, h | ⟨hg, h⟩⟩⟩
    · exact .self _
    · exact .for_init (Kids.flowReach_complete i p h)
    · exact .for_test (Kids.complete i .normal hin) (Kids.flowReach_complete t p h)
    · exact .for_body (Kids.complete i .normal hin) (testN_inv htn) (Stmt.reach_complete b p h)
    · obtain ⟨o, ho, hgo⟩ := goesRoundAny_inv b hg
      exact .for_update (Kids.complete i .normal hin) (testN_inv htn) ho hgo (Kids.flowReach_complete u p h)
  | .forInOf q l r b, p, h => by
    simp only [Stmt.reach, Bool.or_eq_true, beq_iff_eq, Bool.and_eq_true] at h
    rcases h with (rfl | h) | ⟨hrn, h | ⟨hln, h⟩⟩
    · exact .self _
    · exact .forIn_right (Kids.flowReach_complete r p h)
    · exact .forIn_left (Kids.complete r .normal hrn) (Kids.flowReach_complete l p h)
    · exact .forIn_body (Kids.complete r .normal hrn) (Kids.complete l .normal hln) (Stmt.reach_complete b p h)
  | .switchS q d cs, p, h => by
    simp only [Stmt.reach, Bool.or_eq_true, beq_iff_eq, Bool.and_eq_true] at h
    rcases h with (rfl | h) | ⟨hdn, h⟩
    · exact .self _
    · exact .switch_disc (Kids.flowReach_complete d p h)
    · exact .switch (Kids.complete d .normal hdn) (Cases.reach_complete cs p h)
  | .tryS q bp block hh cp ck hf fp fin, p, h => by
    simp only [Stmt.reach, Bool.or_eq_true, beq_iff_eq, Bool.and_eq_true] at h
    rcases h with ((rfl | h) | ⟨⟨hh', ht⟩, h⟩) | ⟨⟨hf'', hany⟩, h⟩
    · exact .self _
    · exact .try_block (Stmts.reach_complete block p h)
    · subst hh'
      exact .try_handler (Stmts.complete block .thr ht) (Kids.catchReach_complete ck p h)
    · subst hf''
      obtain ⟨o, ho⟩ := (Compl.any_iff _).mp hany
      exact .try_finalizer (tryCatch_complete block hh ck o (fun o' => Stmts.complete block o')
        (fun o' => Kids.complete_catch ck o') ho) (Stmts.reach_complete fin p h)
  | .labeled q l b, p, h => by
    simp only [Stmt.reach, Bool.or_eq_true, beq_iff_eq] at h
    rcases h with rfl | h
    · exact .self _
    · exact .labeled (Stmt.reach_complete b p h)
  | .brk q l, p, h => by simp only [Stmt.reach, beq_iff_eq] at h; subst h; exact .self _
  | .cont q l, p, h => by simp only [Stmt.reach, beq_iff_eq] at h; subst h; exact .self _
  | .ret q a, p, h => by
    simp only [Stmt.reach, Bool.or_eq_true, beq_iff_eq] at h
    rcases h with rfl | h
    · exact .self _
    · exact .ret_arg (Kids.flowReach_complete a p h)
  | .throw q a, p, h => by
    simp only [Stmt.reach, Bool.or_eq_true, beq_iff_eq] at h
    rcases h with rfl | h
    · exact .self _
    · exact .throw_arg (Kids.flowReach_complete a p h)
theorem Stmts.reach_complete : ∀ (l : Stmts) (p : Nat), l.reach p = true → ReachesList l p
  | .nil, p, h => by simp [Stmts.reach] at h
  | .cons s r, p, h => by
    simp only [Stmts.reach, Bool.or_eq_true, Bool.and_eq_true] at h
    rcases h with h | ⟨hn, h⟩
    · exact .head (Stmt.reach_complete s p h)
    · exact .tail (Stmt.complete s [] .normal hn) (Stmts.reach_complete r p h)
theorem Cases.reach_complete : ∀ (cs : Cases) (p : Nat), cs.reach p = true → ReachesCases cs p
  | .nil, p, h => by simp [Cases.reach] at h
  | .cons q d t body r, p, h => by
    simp only [Cases.reach, Bool.or_eq_true, beq_iff_eq] at h
    rcases h with ((rfl | h) | h) | h
    · exact .clause
    · exact .test (Kids.flowReach_complete t p h)
    · exact .body (Stmts.reach_complete body p h)
    · exact .later (Cases.reach_complete r p h)
theorem Kids.catchReach_complete : ∀ (ks : Kids) (p : Nat), ks.catchReach p = true → ReachesCatch ks p
  | .nil, p, h => by simp [Kids.catchReach] at h
  | .cons (.block q body) r, p, h => by
    simp only [Kids.catchReach, Bool.or_eq_true, beq_iff_eq] at h
    rcases h with rfl | h
    · exact .bodyBlock
    · exact .body (Stmts.reach_complete body p h)
  | .cons (.expr e ks) r, p, h => by
    simp only [Kids.catchReach] at h
    exact .param rfl (Kids.catchReach_complete r p h)
  | .cons (.fnScope p' ks) r, p, h => by
    simp only [Kids.catchReach] at h
    exact .param rfl (Kids.catchReach_complete r p h)
  | .cons (.stmt s) r, p, h => by
    simp only [Kids.catchReach] at h
    exact .param rfl (Kids.catchReach_complete r p h)
theorem Kid.flowReach_complete : ∀ (k : Kid) (p : Nat), k.flowReach p = true → ReachesKid k p
  | .expr e ks, p, h => by simp only [Kid.flowReach] at h; exact .expr (Kids.flowReach_complete ks p h)
  | .fnScope _ _, p, h => by simp [Kid.flowReach] at h
  | .block q body, p, h => by
    simp only [Kid.flowReach, Bool.or_eq_true, beq_iff_eq] at h
    rcases h with rfl | h
    · exact .blockPos
    · exact .block (Stmts.reach_complete body p h)
  | .stmt s, p, h => by simp only [Kid.flowReach] at h; exact .stmt (Stmt.reach_complete s p h)
theorem Kids.flowReach_complete : ∀ (ks : Kids) (p : Nat), ks.flowReach p = true → ReachesKids ks p
  | .nil, p, h => by simp [Kids.flowReach] at h
  | .cons k r, p, h => by
    simp only [Kids.flowReach, Bool.or_eq_true, Bool.and_eq_true] at h
    rcases h with h | ⟨hn, h⟩
    · exact .head (Kid.flowReach_complete k p h)
    · exact .tail (Kid.complete k .normal hn) (Kids.flowReach_complete r p h)
end

end DL.CF
