import DL.Lemmas.CFExec6
import DL.Lemmas.CFReach

/-! **Completeness of the closed-form reachability** on the fragment `inF` (where no statement is nested directly in an
expression: `Kids.flowReach` is constantly false there; outside it over-approximates, see `DL.Props.C10Ref`). -/
namespace DL.CF

mutual
theorem Stmt.reach_complete : ∀ (s : Stmt) (p : Nat), s.inF = true → s.reach p = true → Reaches s p
  | .simple q t kids, p, hf, h => by
    have hk : kids.okF = true := by simpa [Stmt.inF] using hf
    simp only [Stmt.reach, Kids.flowReach_okF kids p hk, Bool.or_false, beq_iff_eq] at h
    subst h; exact .self _
  | .block q body, p, hf, h => by
    have hf' : body.inF = true := by simpa [Stmt.inF] using hf
    simp only [Stmt.reach, Bool.or_eq_true, beq_iff_eq] at h
    rcases h with rfl | h
    · exact .self _
    · exact .block (Stmts.reach_complete body p hf' h)
  | .ifS q t c none, p, hf, h => by
    have hf' : t.okF = true ∧ c.inF = true := by simpa [Stmt.inF] using hf
    simp only [Stmt.reach, Bool.or_eq_true, beq_iff_eq, Bool.and_eq_true] at h
    rcases h with rfl | ⟨_, h⟩
    · exact .self _
    · exact .if_then (.normal _) (Stmt.reach_complete c p hf'.2 h)
  | .ifS q t c (some a), p, hf, h => by
    have hf' : (t.okF = true ∧ c.inF = true) ∧ a.inF = true := by simpa [Stmt.inF] using hf
    simp only [Stmt.reach, Bool.or_eq_true, beq_iff_eq, Bool.and_eq_true] at h
    rcases h with rfl | ⟨_, h | h⟩
    · exact .self _
    · exact .if_then (.normal _) (Stmt.reach_complete c p hf'.1.2 h)
    · exact .if_else (.normal _) (Stmt.reach_complete a p hf'.2 h)
  | .whileS q t tt b, p, hf, h => by
    have hf' : t.okF = true ∧ b.inF = true := by simpa [Stmt.inF] using hf
    simp only [Stmt.reach, Bool.or_eq_true, beq_iff_eq] at h
    rcases h with rfl | h
    · exact .self _
    · exact .while_body (Stmt.reach_complete b p hf'.2 h)
  | .doWhileS q b t tt, p, hf, h => by
    have hf' : t.okF = true ∧ b.inF = true := by simpa [Stmt.inF] using hf
    simp only [Stmt.reach, Bool.or_eq_true, beq_iff_eq] at h
    rcases h with rfl | h
    · exact .self _
    · exact .do_body (Stmt.reach_complete b p hf'.2 h)
  | .forS q i u t ht tt b, p, hf, h => by
    have hf' : ((i.okF = true ∧ u.okF = true) ∧ t.okF = true) ∧ b.inF = true := by simpa [Stmt.inF] using hf
    simp only [Stmt.reach, Bool.or_eq_true, beq_iff_eq] at h
    rcases h with rfl | h
    · exact .self _
    · exact .for_body (Stmt.reach_complete b p hf'.2 h)
  | .forInOf q l r b, p, hf, h => by
    have hf' : (l.okF = true ∧ r.okF = true) ∧ b.inF = true := by simpa [Stmt.inF] using hf
    simp only [Stmt.reach, Bool.or_eq_true, beq_iff_eq] at h
    rcases h with rfl | h
    · exact .self _
    · exact .forIn_body (Stmt.reach_complete b p hf'.2 h)
  | .switchS q d cs, p, hf, h => by
    have hf' : d.okF = true ∧ cs.inF = true := by simpa [Stmt.inF] using hf
    simp only [Stmt.reach, Bool.or_eq_true, beq_iff_eq] at h
    rcases h with rfl | h
    · exact .self _
    · exact .switch (Cases.reach_complete cs p hf'.2 h)
  | .tryS q bp block hh cp ck hf fp fin, p, hfr, h => by
    have hf' : (((block.inF = true ∧ ck.okFn = true) ∧ fin.inF = true) ∧ (hh = true ∨ ck.isNil = true)) ∧ (hf = true ∨ fin.isNil = true) := by
      simpa [Stmt.inF] using hfr
    simp only [Stmt.reach, Bool.or_eq_true, beq_iff_eq, Bool.and_eq_true] at h
    rcases h with ((rfl | h) | ⟨⟨hh', ht⟩, h⟩) | ⟨⟨hf'', hany⟩, h⟩
    · exact .self _
    · exact .try_block (Stmts.reach_complete block p hf'.1.1.1.1 h)
    · subst hh'
      exact .try_handler (Stmts.complete block .thr ht) (Kids.catchReach_complete ck p hf'.1.1.1.2 h)
    · subst hf''
      obtain ⟨o, ho⟩ := (Compl.any_iff _).mp hany
      exact .try_finalizer (tryCatch_complete block hh ck o (fun o' => Stmts.complete block o')
        (fun o' => Kids.complete_catch ck o') ho) (Stmts.reach_complete fin p hf'.1.1.2 h)
  | .labeled q l b, p, hf, h => by
    have hf' : b.inF = true := by simpa [Stmt.inF] using hf
    simp only [Stmt.reach, Bool.or_eq_true, beq_iff_eq] at h
    rcases h with rfl | h
    · exact .self _
    · exact .labeled (Stmt.reach_complete b p hf' h)
  | .brk q l, p, _, h => by simp only [Stmt.reach, beq_iff_eq] at h; subst h; exact .self _
  | .cont q l, p, _, h => by simp only [Stmt.reach, beq_iff_eq] at h; subst h; exact .self _
  | .ret q a, p, _, h => by simp only [Stmt.reach, beq_iff_eq] at h; subst h; exact .self _
  | .throw q a, p, _, h => by simp only [Stmt.reach, beq_iff_eq] at h; subst h; exact .self _
theorem Stmts.reach_complete : ∀ (l : Stmts) (p : Nat), l.inF = true → l.reach p = true → ReachesList l p
  | .nil, p, _, h => by simp [Stmts.reach] at h
  | .cons s r, p, hf, h => by
    have hf' : s.inF = true ∧ r.inF = true := by simpa [Stmts.inF] using hf
    simp only [Stmts.reach, Bool.or_eq_true, Bool.and_eq_true] at h
    rcases h with h | ⟨hn, h⟩
    · exact .head (Stmt.reach_complete s p hf'.1 h)
    · exact .tail (Stmt.complete s [] .normal hn) (Stmts.reach_complete r p hf'.2 h)
theorem Cases.reach_complete : ∀ (cs : Cases) (p : Nat), cs.inF = true → cs.reach p = true → ReachesCases cs p
  | .nil, p, _, h => by simp [Cases.reach] at h
  | .cons q d t body r, p, hf, h => by
    have hf' : (t.okF = true ∧ body.inF = true) ∧ r.inF = true := by simpa [Cases.inF] using hf
    simp only [Cases.reach, Bool.or_eq_true, beq_iff_eq] at h
    rcases h with (rfl | h) | h
    · exact .clause
    · exact .body (Stmts.reach_complete body p hf'.1.2 h)
    · exact .later (Cases.reach_complete r p hf'.2 h)
theorem Kids.catchReach_complete : ∀ (ks : Kids) (p : Nat), ks.okFn = true → ks.catchReach p = true → ReachesCatch ks p
  | .nil, p, _, h => by simp [Kids.catchReach] at h
  | .cons (.block q body) r, p, hf, h => by
    have hf' : body.inF = true ∧ r.isNil = true := by simpa [Kids.okFn] using hf
    simp only [Kids.catchReach, Bool.or_eq_true, beq_iff_eq] at h
    rcases h with rfl | h
    · exact .bodyBlock
    · exact .body (Stmts.reach_complete body p hf'.1 h)
  | .cons (.expr e ks) r, p, hf, h => by
    have hf' : ks.okF = true ∧ r.okFn = true := by simpa [Kids.okFn] using hf
    simp only [Kids.catchReach] at h
    exact .param rfl (Kids.catchReach_complete r p hf'.2 h)
  | .cons (.fnScope p' ks) r, p, hf, h => by
    have hf' : ks.okFn = true ∧ r.okFn = true := by simpa [Kids.okFn] using hf
    simp only [Kids.catchReach] at h
    exact .param rfl (Kids.catchReach_complete r p hf'.2 h)
  | .cons (.stmt _) _, _, hf, _ => by simp [Kids.okFn] at hf
end

end DL.CF
