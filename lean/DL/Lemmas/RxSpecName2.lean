import DL.Lemmas.RxSpecName

/-! # Soundness w.r.t. the grammar: names (continued), `\k<…>`, group specifiers -/
namespace DL.Rx
open DL.RxSpec DL.Gen.Unicode
attribute [local irreducible] isScalar
variable {src : List Nat} {N : Nat}

theorem toChar_eq_of_isSome {x : Nat} (h : (toChar x).isSome = true) : toChar x = some x ∧ x ≤ 0x10FFFF := by
  unfold toChar at h ⊢
  by_cases hc : x < 0xD800 ∨ (0xE000 ≤ x ∧ x < 0x110000)
  · rw [if_pos hc]; exact ⟨rfl, by omega⟩
  · rw [if_neg hc] at h; cases h

theorem identifierPartChar_char {x : Nat} (h : IdentifierPartChar x) : toChar x = some x ∧ x ≤ 0x10FFFF := by
  have small : ∀ {y : Nat}, y < 0xD800 → toChar y = some y ∧ y ≤ 0x10FFFF :=
    fun hy => toChar_eq_of_isSome (isChar_lt hy)
  rcases h with ((((h | h) | h) | h | h | h) | h | h | h)
  · have h' : (0x61 ≤ x ∧ x ≤ 0x7a) := h; exact small (by omega)
  · have h' : (0x41 ≤ x ∧ x ≤ 0x5a) := h; exact small (by omega)
  · exact toChar_eq_of_isSome (toChar_of_inRanges largeIdStart_chars h)
  · have h' : 0x30 ≤ x ∧ x ≤ 0x39 := h; exact small (by omega)
  · have h' : x = 0x5F := h; exact small (by omega)
  · exact toChar_eq_of_isSome (toChar_of_inRanges largeIdContinue_chars h)
  · have h' : x = 0x24 := h; exact small (by omega)
  · have h' : x = 0x200C := h; exact small (by omega)
  · have h' : x = 0x200D := h; exact small (by omega)

theorem identifierStartChar_part {x : Nat} (h : IdentifierStartChar x) : IdentifierPartChar x := by
  rcases h with h | h | h
  · exact .inl (.inl h)
  · exact .inr (.inl h)
  · exact .inl (.inr (.inr (.inl h)))

theorem part_value {r r1 : List Nat} {x : Nat} (h : RegExpIdentifierPart r r1 x) : IdentifierPartChar x := by
  cases h with
  | char x r h => exact h
  | escape m r v _ h => exact h

theorem start_value {r r1 : List Nat} {x : Nat} (h : RegExpIdentifierStart r r1 x) : IdentifierStartChar x := by
  cases h with
  | char x r h => exact h
  | escape m r v _ h => exact h

/-- a sequence of `RegExpIdentifierPart`s with the code points they denote -/
inductive PartsRun : List Nat → List Nat → List Nat → Prop
  | nil (r : List Nat) : PartsRun r r []
  | cons (r m r1 : List Nat) (x : Nat) (xs : List Nat) : RegExpIdentifierPart r m x → PartsRun m r1 xs →
      PartsRun r r1 (x :: xs)

theorem name_append {r m r1 : List Nat} {nm xs : List Nat} (h1 : RegExpIdentifierName r m nm) (h2 : PartsRun m r1 xs) :
    RegExpIdentifierName r r1 (nm ++ xs) := by
  induction h2 generalizing nm with
  | nil r => rw [List.append_nil]; exact h1
  | cons r' m' r1' x xs hp _ ih =>
    have := ih (RegExpIdentifierName.part r r' m' nm x h1 hp)
    rw [List.append_assoc] at this; exact this

theorem eatRegexpIdentifierNameLoop_wp : ∀ (n : Nat) (r : List Nat) (s : St), UAt src N r s →
    Wp (eatRegexpIdentifierNameLoop n s) (fun _ s1 => KeepN s s1 ∧ ∃ xs r1, PartsRun r r1 xs ∧ UAt src N r1 s1 ∧
      s1.lastStrValue = s.lastStrValue ++ xs)
  | 0, _, _, _ => Wp.outOfFuel
  | n + 1, r, s, h => by
    have ih := eatRegexpIdentifierNameLoop_wp n
    unfold eatRegexpIdentifierNameLoop
    rx4_auto
    · rename_i s1 hk hat1
      exact ⟨hk.toN, [], r, PartsRun.nil r, hat1, by rw [hk.str, List.append_nil]⟩
    · rename_i s1 hk r1 x hat1 hpart hv c hc _ s2 hk2 xs r2 hrun hat2 hstr
      have hpc := identifierPartChar_char (part_value hpart)
      rw [hv, i64AsU32_small hpc.2, hpc.1] at hc
      cases hc
      refine ⟨⟨hk2.gn.trans hk.gn, hk2.bn.trans hk.bn⟩, x :: xs, r2, PartsRun.cons r r1 r2 x xs hpart hrun, hat2, ?_⟩
      rw [hstr]
      show (s1.lastStrValue ++ [x]) ++ xs = _
      rw [hk.str, List.append_assoc]; rfl

theorem eatRegexpIdentifierName_wp (n : Nat) (r : List Nat) (s : St) (h : UAt src N r s) :
    Wp (eatRegexpIdentifierName n s) (fun b s1 => KeepN s s1 ∧
      if b = true then ∃ r1 nm, UAt src N r1 s1 ∧ RegExpIdentifierName r r1 nm ∧ s1.lastStrValue = nm
      else UAt src N r s1) := by
  unfold eatRegexpIdentifierName
  rx4_auto
  all_goals (try rx4_false)
  rename_i s1 hk r1 x hat1 hstart hv c hc _ s2 hk2 xs r2 hrun hat2 hstr
  have hpc := identifierPartChar_char (identifierStartChar_part (start_value hstart))
  rw [hv, i64AsU32_small hpc.2, hpc.1] at hc
  cases hc
  refine ⟨⟨hk2.gn.trans hk.gn, hk2.bn.trans hk.bn⟩, ?_⟩
  rw [if_pos rfl]
  exact ⟨r2, [x] ++ xs, hat2, name_append (RegExpIdentifierName.start r r1 x hstart) hrun, hstr⟩

theorem eatGroupName_wp (n : Nat) (r : List Nat) (s : St) (h : UAt src N r s) :
    Wp (eatGroupName n s) (fun b s1 => KeepN s s1 ∧
      if b = true then ∃ r1 nm, UAt src N r1 s1 ∧ GroupName r r1 nm ∧ s1.lastStrValue = nm
      else UAt src N r s1) := by
  unfold eatGroupName
  rx4_auto
  all_goals (try rx4_false)
  rename_i m hat0 s1 hk nm hstr r1 hat1 hat2 hname
  rx4_true
  exact ⟨r1, nm, by rx4_at, ⟨m, rfl, hname⟩, hstr⟩

end DL.Rx
