import DL.Lemmas.RxBQuant
import DL.Lemmas.RxSpecClass

/-! # Annex B (no `u` flag): character classes -/
namespace DL.Rx
open DL.RxSpec DL.Gen.Unicode
attribute [local irreducible] isScalar
variable {src : List Nat} {K : Bool × Nat}

theorem consumeClassEscape_wb (hsrc : ∀ x ∈ src, x ≤ 0xFFFF) (n : Nat) (r : List Nat) (s : St) (h : BAt src K r s) :
    Wp (consumeClassEscape n s) (fun b s1 => KeepN s s1 ∧
      if b = true then ∃ r1 v, BAt src K r1 s1 ∧ RxSpecB.ClassEscape K.1 r r1 v ∧ IntIs s1 v
      else BAt src K r s1 ∧ (¬∃ r1 v, RxSpecB.CharacterEscape K.1 r r1 v) ∧
        ¬∃ l r', r = c 'c' :: l :: r' ∧ RxSpecB.ClassControlLetter l) := by
  unfold consumeClassEscape
  rcases r with _ | ⟨x, _ | ⟨y, r'⟩⟩
  all_goals rx6_auto
  all_goals (try (rx6_true; exact ⟨_, some 8, by rx6_at, RxSpecB.ClassEscape.b _, rfl⟩))
  all_goals (try (
    rx6_true
    exact ⟨_, none, ‹BAt src K _ _›, RxSpecB.ClassEscape.characterClass _ _ ‹RxSpecB.CharacterClassEscape _ _›, ‹_ = -1›⟩))
  case pos =>
    rename_i hne hc d0 d hd hcd hat1 hat2
    have hd' : y = d := by simpa using hd
    subst hd'
    have hx : x = ch 'c' := by
      have := (Bool.and_eq_true _ _).mp hc
      simpa using this.2
    subst hx
    rx6_true
    refine ⟨r', some (y % 32), by rx6_at, RxSpecB.ClassEscape.classControl y r' ?_, ?_⟩
    · rcases (Bool.or_eq_true _ _).mp hcd with h1 | h1
      · exact .inl (decimalDigit_of_isAsciiDigit h1)
      · exact .inr (by simpa using h1)
    · show _ = ((y % 32 : Nat) : Int)
      st_norm; omega
  all_goals (
    rename_i b s2 hk2 hb
    refine ⟨by rx6_keep, ?_⟩
    cases b
    · rw [if_neg (by decide)] at hb ⊢
      refine ⟨hb.1, hb.2, ?_⟩
      rintro ⟨l, r'', e, hl⟩
      first
      | (cases e; done)
      | (-- the first unit is not `c`
         have hx := (List.cons.inj e).1
         subst hx
         have hn := ‹¬(!s.strict && !s.uFlag && some (c 'c') == some (ch 'c')) = true›
         rw [h.strict', h.uFlag'] at hn
         exact hn rfl)
      | (-- `c` is not followed by a digit or `_`
         have hy := (List.cons.inj (List.cons.inj e).2).1
         subst hy
         have hd := ‹(_ :: _ :: _)[1]? = some _›
         have hd' : _ = _ := Option.some.inj hd
         subst hd'
         have hn := ‹¬(isAsciiDigit _ || _ == ch '_') = true›
         apply hn
         rcases hl with hl | hl
         · rw [isAsciiDigit_of_decimalDigit hl]; rfl
         · rw [hl]; simp)
    · rw [if_pos rfl] at hb ⊢
      obtain ⟨r1, v, hat, hce, hv⟩ := hb
      exact ⟨r1, some v, hat, RxSpecB.ClassEscape.character _ r1 v hce ‹_ ≠ some (ch 'b')›
        ‹¬∃ r', RxSpecB.CharacterClassEscape _ r'›, hv⟩)

theorem consumeClassAtom_wb (hsrc : ∀ x ∈ src, x ≤ 0xFFFF) (n : Nat) (r : List Nat) (s : St) (h : BAt src K r s) :
    Wp (consumeClassAtom n s) (fun b s1 => KeepN s s1 ∧
      if b = true then ∃ r1 v, BAt src K r1 s1 ∧ RxSpecB.ClassAtom K.1 r r1 v ∧ IntIs s1 v else BAt src K r s1) := by
  unfold consumeClassAtom
  rx6_auto
  all_goals (try rx6_false)
  · -- `\` [lookahead = c]
    rename_i hn s1 hk y r' hat1 hat2 hnce hncc hc
    have hy : y = ch 'c' := by
      have := (Bool.and_eq_true _ _).mp hc
      simpa using this.2
    subst hy
    rx6_true
    refine ⟨_, some (c '\\'), by rx6_at, RxSpecB.ClassAtom.noDash _ _ _ (RxSpecB.ClassAtomNoDash.backslashC r' ?_), rfl⟩
    intro l hl
    cases r' with
    | nil => cases hl
    | cons l' r'' =>
      cases hl
      exact ⟨fun hcl => hncc ⟨l, r'', rfl, hcl⟩,
        fun hcl => hnce ⟨r'', l % 32, RxSpecB.CharacterEscape.controlLetter l r'' hcl⟩⟩
  · rename_i hc
    have := (Bool.and_eq_true _ _).mp hc
    exact absurd this.2 (by decide)
  · rename_i m hn hat0 s1 hk r1 v hat1 hce hv
    rx6_true
    exact ⟨r1, v, hat1, RxSpecB.ClassAtom.noDash _ r1 v (RxSpecB.ClassAtomNoDash.escape m r1 v hce), hv⟩
  · rename_i x r1 hc hat
    rx6_true
    have hx : x ≠ ch '\\' ∧ x ≠ ch ']' := by simpa using hc
    by_cases hd : x = ch '-'
    · subst hd
      exact ⟨r1, some (c '-'), by rx6_at, RxSpecB.ClassAtom.dash r1, rfl⟩
    · exact ⟨r1, some x, by rx6_at, RxSpecB.ClassAtom.noDash _ r1 _
        (RxSpecB.ClassAtomNoDash.char x r1 (hsrc x (h.mem_src List.mem_cons_self)) hx.1 hx.2 hd), rfl⟩

inductive ItemsB (nf : Bool) : Bool → Str → Str → Prop
  | nil (r : Str) : ItemsB nf false r r
  | atom (b : Bool) (r m r1 : Str) (v : Option Nat) : RxSpecB.ClassAtom nf r m v → m.head? ≠ some (c '-') →
      ItemsB nf b m r1 → ItemsB nf true r r1
  | range (b : Bool) (r m₁ m₂ r1 : Str) (x y : Option Nat) : RxSpecB.ClassAtom nf r (c '-' :: m₁) x →
      RxSpecB.ClassAtom nf m₁ m₂ y → RxSpecB.RangeOk x y → ItemsB nf b m₂ r1 → ItemsB nf true r r1
  | trailing (r m : Str) (v : Option Nat) : RxSpecB.ClassAtom nf r (c '-' :: m) v → ItemsB nf true r m

theorem rangeOkB_of {sa sb : St} {x y : Option Nat} (hx : IntIs sa x) (hy : IntIs sb y)
    (h2 : (sa.lastIntValue == -1 || sb.lastIntValue == -1) = true ∨ ¬sa.lastIntValue > sb.lastIntValue) :
    RxSpecB.RangeOk x y := by
  intro a b ha hb
  subst ha hb
  have ha : sa.lastIntValue = (a : Nat) := hx
  have hb : sb.lastIntValue = (b : Nat) := hy
  rw [ha, hb] at h2
  rcases h2 with h2 | h2
  · simp only [Bool.or_eq_true, beq_iff_eq] at h2
    omega
  · omega

theorem consumeClassRanges_wb (hsrc : ∀ x ∈ src, x ≤ 0xFFFF) : ∀ (n : Nat) (r : List Nat) (s : St), BAt src K r s →
    Wp (consumeClassRanges n s) (fun _ s1 => KeepN s s1 ∧ ∃ b r1, ItemsB K.1 b r r1 ∧ BAt src K r1 s1)
  | 0, _, _, _ => Wp.outOfFuel
  | n + 1, r, s, h => by
    have ih := consumeClassRanges_wb hsrc n
    unfold consumeClassRanges
    rx6_auto
    · -- a range, both ends characters in order
      rename_i s1 hk1 x hx m1 hat0 hat1 ha s2 hk2 m2 y hat2 hb hy hne hle _ s3 hk3 b r1 hit hat3
      exact ⟨by rx6_keep, true, r1, ItemsB.range b r m1 m2 r1 x y ha hb (rangeOkB_of hx hy (.inr hle)) hit, hat3⟩
    · -- a range with a class as an end (allowed without `u`)
      rename_i s1 hk1 x hx m1 hat0 hat1 ha s2 hk2 m2 y hat2 hb hy hc _ s3 hk3 b r1 hit hat3
      exact ⟨by rx6_keep, true, r1, ItemsB.range b r m1 m2 r1 x y ha hb (rangeOkB_of hx hy (.inl hc)) hit, hat3⟩
    · -- `atom -` at the end
      rename_i s1 hk1 x hx m1 hat0 hat1 ha s2 hk2 hat2
      exact ⟨by rx6_keep, true, m1, ItemsB.trailing r m1 x ha, hat2⟩
    · -- an atom not followed by `-`
      rename_i s1 hk1 m x hat1 ha hx hne _ s2 hk2 b r1 hit hat2
      exact ⟨by rx6_keep, true, r1, ItemsB.atom b r m r1 x ha hne hit, hat2⟩
    · -- no atom
      rename_i s1 hk1 hat1
      exact ⟨hk1, false, r, ItemsB.nil r, hat1⟩

theorem classAtom_noDashB {nf : Bool} {r m : Str} {v : Option Nat} (h : RxSpecB.ClassAtom nf r m v)
    (hne : r.head? ≠ some (c '-')) : RxSpecB.ClassAtomNoDash nf r m v := by
  cases h with
  | dash r => exact (hne rfl).elim
  | noDash i r v h => exact h

theorem items_crB {nf : Bool} {b : Bool} {r r1 : Str} (h : ItemsB nf b r r1) :
    RxSpecB.CR nf .ClassRanges r r1 ∧
      (b = true → r.head? ≠ some (c '-') → RxSpecB.CR nf .NonemptyClassRangesNoDash r r1) := by
  induction h with
  | nil r => exact ⟨.empty r, fun h => by cases h⟩
  | atom b r m r1 v ha hne hrest ih =>
    cases b with
    | false =>
      cases hrest
      exact ⟨.nonempty _ _ (.atom _ _ v ha), fun _ _ => .ndAtom _ _ v ha⟩
    | true =>
      have hnd := ih.2 rfl hne
      exact ⟨.nonempty _ _ (.atomMore _ _ _ v ha hnd),
        fun _ hr => .ndAtomMore _ _ _ v (classAtom_noDashB ha hr) hnd⟩
  | range b r m₁ m₂ r1 x y ha hb hok hrest ih =>
    exact ⟨.nonempty _ _ (.range _ _ _ _ x y ha hb hok ih.1),
      fun _ hr => .ndRange _ _ _ _ x y (classAtom_noDashB ha hr) hb hok ih.1⟩
  | trailing r m v ha =>
    exact ⟨.nonempty _ _ (.atomMore _ _ _ v ha (.ndAtom _ _ _ (.dash m))),
      fun _ hr => .ndAtomMore _ _ _ v (classAtom_noDashB ha hr) (.ndAtom _ _ _ (.dash m))⟩

theorem consumeCharacterClass_wb (hsrc : ∀ x ∈ src, x ≤ 0xFFFF) (n : Nat) (r : List Nat) (s : St)
    (h : BAt src K r s) :
    Wp (consumeCharacterClass n s) (fun b s1 => KeepN s s1 ∧
      if b = true then ∃ r1, BAt src K r1 s1 ∧ RxSpecB.CharacterClass K.1 r r1 else BAt src K r s1) := by
  unfold consumeCharacterClass
  rx6_auto
  all_goals (try rx6_false)
  · rename_i m hat0 hat1 _ s1 hk b r1 hat2 hit hat3
    rx6_true
    exact ⟨r1, by rx6_at, RxSpecB.CharacterClass.neg m r1 (items_crB hit).1⟩
  · rename_i m hat0 hne _ s1 hk b r1 hat2 hit hat3
    rx6_true
    exact ⟨r1, by rx6_at, RxSpecB.CharacterClass.pos m r1 hne (items_crB hit).1⟩

end DL.Rx
