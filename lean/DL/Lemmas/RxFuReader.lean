import DL.Lemmas.RxFu

/-! # Fuel adequacy: the reader (by direct computation) -/
namespace DL.Rx
variable {E : Nat}

theorem readerAt_spec (p : Nat) (s : St) :
    (readerAt p s = .ok none s ∧ s.reader.end_ ≤ p) ∨ (∃ c, readerAt p s = .ok (some c) s ∧ p < s.reader.end_)
      ∨ (∃ w, readerAt p s = .panic w s) := by
  show ((if p ≥ s.reader.end_ then (pure none : M (Option Nat)) else _) s = _ ∧ _) ∨
    (∃ c, (if p ≥ s.reader.end_ then (pure none : M (Option Nat)) else _) s = _ ∧ _) ∨
    (∃ w, (if p ≥ s.reader.end_ then (pure none : M (Option Nat)) else _) s = _)
  by_cases h1 : p ≥ s.reader.end_
  · rw [if_pos h1]; exact .inl ⟨rfl, h1⟩
  · rw [if_neg h1]
    have hlt : p < s.reader.end_ := by omega
    by_cases hu : s.reader.unicode = true
    · rw [if_pos hu]
      cases hx : s.reader.src[p]? with
      | some c => exact .inr (.inl ⟨c, rfl, hlt⟩)
      | none => exact .inr (.inr ⟨_, rfl⟩)
    · rw [if_neg hu]
      cases hx : (encodeUtf16 s.reader.src)[p]? with
      | some c => exact .inr (.inl ⟨c, rfl, hlt⟩)
      | none => exact .inr (.inr ⟨_, rfl⟩)

/-- outcome of a reader operation: `end` kept, position exactly `idx`, look-ahead inside `E`, and at least `k` long -/
def RL (E idx k : Nat) : Res Unit → Prop
  | .ok _ s => s.reader.end_ = E ∧ s.reader.index = idx ∧ idx + s.reader.cps.length ≤ E ∧ k ≤ s.reader.cps.length
  | .outOfFuel _ => False
  | _ => True

theorem rewindLoop_spec (idx : Nat) : ∀ (k j : Nat) (s : St), s.reader.end_ = E → s.reader.index = idx →
    s.reader.cps.length = j → idx + j ≤ E → RL E idx j (rewindLoop idx k j s)
  | 0, j, s, h1, h2, h3, h4 => ⟨h1, h2, by omega, by omega⟩
  | k + 1, j, s, h1, h2, h3, h4 => by
    unfold rewindLoop
    show RL E idx j (M.bind (readerAt (idx + j)) _ s)
    unfold M.bind
    rcases readerAt_spec (idx + j) s with ⟨h, _⟩ | ⟨c, h, hlt⟩ | ⟨w, h⟩
    · rw [h]; exact ⟨h1, h2, by omega, by omega⟩
    · rw [h]
      have := rewindLoop_spec idx k (j + 1)
        { s with reader := { s.reader with cps := s.reader.cps ++ [c] } } h1 h2
        (by show (s.reader.cps ++ [c]).length = j + 1; rw [List.length_append, h3]; rfl) (by omega)
      show RL E idx j (rewindLoop idx k (j + 1) _)
      cases hr : rewindLoop idx k (j + 1) { s with reader := { s.reader with cps := s.reader.cps ++ [c] } } with
      | ok a s' => rw [hr] at this; exact ⟨this.1, this.2.1, this.2.2.1, by have := this.2.2.2; omega⟩
      | err _ _ => trivial
      | panic _ _ => trivial
      | outOfFuel _ => rw [hr] at this; exact this
    · rw [h]; trivial

theorem rewind_spec (start : Nat) (s : St) (h1 : s.reader.end_ = E) (hs : start ≤ E) : RL E start 0 (rewind start s) :=
  rewindLoop_spec start 4 0 { s with reader := { s.reader with index := start, cps := [] } } h1 rfl rfl (by omega)

theorem advance_nil (s : St) (h : s.reader.cps = []) : advance s = .ok () s := by
  show (match s.reader.cps with | [] => (pure () : M Unit) | _ :: rest => _) s = _
  rw [h]; rfl

/-- `advance` with a non-empty look-ahead: position `+1` -/
theorem advance_cons (s : St) (c : Nat) (rest : List Nat) (h : s.reader.cps = c :: rest) (h1 : s.reader.end_ = E)
    (hl : s.reader.index + s.reader.cps.length ≤ E) : RL E (s.reader.index + 1) 0 (advance s) := by
  show RL E _ 0 ((match s.reader.cps with | [] => (pure () : M Unit) | _ :: rest => _) s)
  rw [h]
  rw [h] at hl
  have hl' : s.reader.index + 1 + rest.length ≤ E := by simp only [List.length_cons] at hl; omega
  show RL E _ 0 (M.bind (readerAt (s.reader.index + 1 + rest.length)) _
    { s with reader := { s.reader with index := s.reader.index + 1, cps := rest } })
  unfold M.bind
  rcases readerAt_spec (s.reader.index + 1 + rest.length)
      { s with reader := { s.reader with index := s.reader.index + 1, cps := rest } } with ⟨h', _⟩ | ⟨c', h', hlt⟩ | ⟨w, h'⟩
  · rw [h']; exact ⟨h1, rfl, hl', Nat.zero_le _⟩
  · rw [h']
    refine ⟨h1, rfl, ?_, Nat.zero_le _⟩
    show s.reader.index + 1 + (rest ++ [c']).length ≤ E
    have : s.reader.index + 1 + rest.length < E := by rw [← h1]; exact hlt
    rw [List.length_append]; simp only [List.length_cons, List.length_nil]; omega
  · rw [h']; trivial

end DL.Rx

namespace DL.Rx
variable {E : Nat}

theorem RL.post {idx k i : Nat} {r : Res Unit} (h : RL E idx k r) (hi : i ≤ idx) : Post E (fun _ => i) r := by
  cases r with
  | ok a s => exact ⟨h.1, by rw [h.2.1]; exact h.2.2.1, by rw [h.2.1]; exact hi, fun h => nomatch h⟩
  | err _ _ => trivial
  | panic _ _ => trivial
  | outOfFuel _ => exact h

theorem F.rewind (i : Nat) {ne : Bool} (start : Nat) (hs : start ≤ E) : Fu E i ne (rewind start) (fun _ => start) :=
  fun s hA => (rewind_spec start s hA.end_ hs).post (Nat.le_refl _)

theorem F.advance_ne (i : Nat) : Fu E i true advance (fun _ => i + 1) := by
  intro s hA
  cases hc : s.reader.cps with
  | nil => exact absurd hc (hA.nonempty rfl)
  | cons c rest => exact (advance_cons s c rest hc hA.end_ hA.look).post (by have := hA.pos; omega)

theorem F.advance (i : Nat) {ne : Bool} : Fu E i ne advance (fun _ => i) := by
  intro s hA
  cases hc : s.reader.cps with
  | nil => rw [advance_nil s hc]; exact hA.weaken (Nat.le_refl _)
  | cons c rest => exact (advance_cons s c rest hc hA.end_ hA.look).post (by have := hA.pos; omega)

theorem A.ne_of_cons {i : Nat} {ne : Bool} {s : St} (h : A E i ne s) {c : Nat} {rest : List Nat}
    (hc : s.reader.cps = c :: rest) : A E i true s :=
  ⟨h.end_, h.look, h.pos, fun _ => by rw [hc]; exact List.cons_ne_nil _ _⟩

theorem F.eat (i : Nat) {ne : Bool} (x : Char) : Fu E i ne (eat x) (fun b => i + b.toNat) := by
  intro s hA
  show Post E _ ((match s.reader.cps with
    | c :: _ => if (c == ch x) = true then (DL.Rx.advance >>= fun _ => (pure true : M Bool)) else pure false
    | [] => pure false) s)
  cases hc : s.reader.cps with
  | nil => exact hA.weaken (Nat.le_refl _)
  | cons c rest =>
    dsimp only
    by_cases hx : (c == ch x) = true
    · rw [if_pos hx]
      have h : Fu E i true (DL.Rx.advance >>= fun _ => (pure true : M Bool)) (fun b => i + b.toNat) :=
        Fu.bind (F.advance_ne i) fun _ => Fu.pure (Nat.le_refl _)
      exact h s (hA.ne_of_cons hc)
    · rw [if_neg hx]; exact hA.weaken (Nat.le_refl _)

theorem F.eat2 (i : Nat) {ne : Bool} (x y : Char) : Fu E i ne (eat2 x y) (fun b => i + b.toNat) := by
  intro s hA
  show Post E _ ((match s.reader.cps with
    | c1 :: c2 :: _ => if (c1 == ch x && c2 == ch y) = true then
        (DL.Rx.advance >>= fun _ => DL.Rx.advance >>= fun _ => (pure true : M Bool)) else pure false
    | _ => pure false) s)
  cases hc : s.reader.cps with
  | nil => exact hA.weaken (Nat.le_refl _)
  | cons c rest =>
    cases rest with
    | nil => exact hA.weaken (Nat.le_refl _)
    | cons c2 rest2 =>
      dsimp only
      by_cases hx : (c == ch x && c2 == ch y) = true
      · rw [if_pos hx]
        have h : Fu E i true (DL.Rx.advance >>= fun _ => DL.Rx.advance >>= fun _ => (pure true : M Bool))
            (fun b => i + b.toNat) :=
          Fu.bind (F.advance_ne i) fun _ => Fu.bind (F.advance (i + 1)) fun _ => Fu.pure (Nat.le_refl _)
        exact h s (hA.ne_of_cons hc)
      · rw [if_neg hx]; exact hA.weaken (Nat.le_refl _)

theorem F.eat3 (i : Nat) {ne : Bool} (x y z : Char) : Fu E i ne (eat3 x y z) (fun b => i + b.toNat) := by
  intro s hA
  show Post E _ ((match s.reader.cps with
    | c1 :: c2 :: c3 :: _ => if (c1 == ch x && c2 == ch y && c3 == ch z) = true then
        (DL.Rx.advance >>= fun _ => DL.Rx.advance >>= fun _ => DL.Rx.advance >>= fun _ => (pure true : M Bool)) else pure false
    | _ => pure false) s)
  cases hc : s.reader.cps with
  | nil => exact hA.weaken (Nat.le_refl _)
  | cons c rest =>
    cases rest with
    | nil => exact hA.weaken (Nat.le_refl _)
    | cons c2 rest2 =>
      cases rest2 with
      | nil => exact hA.weaken (Nat.le_refl _)
      | cons c3 rest3 =>
        dsimp only
        by_cases hx : (c == ch x && c2 == ch y && c3 == ch z) = true
        · rw [if_pos hx]
          have h : Fu E i true (DL.Rx.advance >>= fun _ => DL.Rx.advance >>= fun _ => DL.Rx.advance >>= fun _ =>
              (pure true : M Bool)) (fun b => i + b.toNat) :=
            Fu.bind (F.advance_ne i) fun _ => Fu.bind (F.advance (i + 1)) fun _ =>
              Fu.bind (F.advance (i + 1)) fun _ => Fu.pure (Nat.le_refl _)
          exact h s (hA.ne_of_cons hc)
        · rw [if_neg hx]; exact hA.weaken (Nat.le_refl _)

end DL.Rx
