import DL.Lemmas.RxSpecName2

/-! # Soundness w.r.t. the grammar: `AtomEscape`, group specifiers, and the bookkeeping of names -/
namespace DL.Rx
open DL.RxSpec DL.Gen.Unicode
attribute [local irreducible] isScalar
variable {src : List Nat} {N : Nat}

/-- how a phrase with attributes `a` changes the name registers: its group names are appended (and stay
duplicate-free), its `\k` references are recorded, nothing is forgotten -/
structure Track (s s1 : St) (a : Attr) : Prop where
  gn : s1.groupNames = s.groupNames ++ groupNames a.groups
  nodup : s.groupNames.Nodup → s1.groupNames.Nodup
  mono : ∀ x ∈ s.backreferenceNames, x ∈ s1.backreferenceNames
  refs : ∀ x ∈ a.refs, x ∈ s1.backreferenceNames

theorem Track.ofKeepN {s s1 : St} (h : KeepN s s1) : Track s s1 Attr.nil :=
  ⟨by rw [h.gn]; exact (List.append_nil _).symm, fun hn => by rw [h.gn]; exact hn, fun x hx => by rw [h.bn]; exact hx,
    fun x hx => nomatch hx⟩

theorem Track.pre {s s1 s2 : St} {a : Attr} (hk : KeepN s s1) (h : Track s1 s2 a) : Track s s2 a :=
  ⟨by rw [h.gn, hk.gn], fun hn => h.nodup (by rw [hk.gn]; exact hn), fun x hx => h.mono x (by rw [hk.bn]; exact hx),
    h.refs⟩

theorem groupNames_append (g1 g2 : List (Option Name)) : groupNames (g1 ++ g2) = groupNames g1 ++ groupNames g2 := by
  unfold groupNames; rw [List.filterMap_append]

theorem Track.trans {s s1 s2 : St} {a1 a2 : Attr} (h1 : Track s s1 a1) (h2 : Track s1 s2 a2) :
    Track s s2 (a1 ++ a2) := by
  refine ⟨?_, fun hn => h2.nodup (h1.nodup hn), fun x hx => h2.mono x (h1.mono x hx), ?_⟩
  · show s2.groupNames = s.groupNames ++ groupNames (a1.groups ++ a2.groups)
    rw [h2.gn, h1.gn, groupNames_append, List.append_assoc]
  · intro x hx
    have hx' : x ∈ a1.refs ++ a2.refs := hx
    rcases List.mem_append.mp hx' with hx | hx
    · exact h2.mono x (h1.refs x hx)
    · exact h2.refs x hx

theorem Attr.nil_append (a : Attr) : Attr.nil ++ a = a := by
  cases a; rfl
theorem Attr.append_nil (a : Attr) : a ++ Attr.nil = a := by
  cases a with
  | mk g r => show Attr.mk (g ++ []) (r ++ []) = _; rw [List.append_nil, List.append_nil]

theorem consumeKGroupName_wp (n : Nat) (r : List Nat) (s : St) (h : UAt src N r s) :
    Wp (consumeKGroupName n s) (fun b s1 =>
      if b = true then ∃ r1 a, UAt src N r1 s1 ∧ AtomEscape N r r1 a ∧ Track s s1 a
      else UAt src N r s1 ∧ KeepN s s1) := by
  unfold consumeKGroupName
  rx4_auto
  · rename_i m hat0 s1 hk r1 nm hat1 hgn hstr
    rw [if_pos rfl]
    refine ⟨r1, ⟨[], [nm]⟩, by rx4_at, AtomEscape.named m r1 nm hgn, ?_⟩
    refine ⟨?_, fun hn => ?_, fun x hx => ?_, fun x hx => ?_⟩
    · show s1.groupNames = s.groupNames ++ []
      rw [hk.gn, List.append_nil]; rfl
    · show s1.groupNames.Nodup
      rw [hk.gn]; exact hn
    · show x ∈ (if s1.backreferenceNames.contains s1.lastStrValue then s1.backreferenceNames
        else s1.backreferenceNames ++ [s1.lastStrValue])
      have hx' : x ∈ s1.backreferenceNames := by rw [hk.bn]; exact hx
      split
      · exact hx'
      · exact List.mem_append_left _ hx'
    · show x ∈ (if s1.backreferenceNames.contains s1.lastStrValue then s1.backreferenceNames
        else s1.backreferenceNames ++ [s1.lastStrValue])
      have hxn : x = nm := by simpa using hx
      subst hxn
      rw [hstr]
      split
      · rename_i hc; exact List.contains_iff_mem.mp hc
      · exact List.mem_append_right _ (List.mem_singleton.mpr rfl)
  · rw [if_neg (by decide)]
    exact ⟨h, KeepN.refl s⟩

theorem consumeGroupSpecifier_wp (n : Nat) (r : List Nat) (s : St) (h : UAt src N r s) :
    Wp (consumeGroupSpecifier n s) (fun b s1 =>
      if b = true then ∃ r1 nm, UAt src N r1 s1 ∧ GroupSpecifier r r1 (some nm) ∧ Track s s1 ⟨[some nm], []⟩
      else UAt src N r s1 ∧ KeepN s s1) := by
  unfold consumeGroupSpecifier
  rx4_auto
  · rename_i m hat0 s1 hk r1 nm hat1 hgn hstr hc
    rw [if_pos rfl]
    refine ⟨r1, nm, by rx4_at, GroupSpecifier.named m r1 nm hgn, ?_⟩
    have hnc : ¬ nm ∈ s1.groupNames := by
      intro hm
      rw [← hstr] at hm
      have : s1.groupNames.contains s1.lastStrValue = true := List.contains_iff_mem.mpr hm
      rw [this] at hc; cases hc
    refine ⟨?_, fun hn => ?_, fun x hx => ?_, fun x hx => nomatch hx⟩
    · show s1.groupNames ++ [s1.lastStrValue] = s.groupNames ++ [nm]
      rw [hk.gn, hstr]; rfl
    · show (s1.groupNames ++ [s1.lastStrValue]).Nodup
      rw [hstr]
      refine List.nodup_append.mpr ⟨by rw [hk.gn]; exact hn, (List.nodup_cons.mpr ⟨List.not_mem_nil, List.nodup_nil⟩), ?_⟩
      intro a ha b hb
      have : b = nm := by simpa using hb
      subst this
      intro hab; subst hab; exact hnc ha
    · show x ∈ s1.backreferenceNames
      rw [hk.bn]; exact hx
  · rw [if_neg (by decide)]
    exact ⟨h, KeepN.refl s⟩

theorem consumeAtomEscape_wp (hN : N < 2 ^ 62) (n : Nat) (r : List Nat) (s : St) (h : UAt src N r s) :
    Wp (consumeAtomEscape n s) (fun b s1 =>
      if b = true then ∃ r1 a, UAt src N r1 s1 ∧ AtomEscape N r r1 a ∧ Track s s1 a
      else UAt src N r s1 ∧ KeepN s s1) := by
  unfold consumeAtomEscape
  rx4_auto
  · rename_i s1 hk1 hat1 s2 hk2 hat2 s3 hk3 hat3 s4 r1 a hat4 hae htr
    rw [if_pos rfl]
    have hk : KeepN s s3 := (hk1.toN.trans hk2).trans hk3.toN
    exact ⟨r1, a, hat4, hae, Track.pre hk htr⟩
  · rw [if_pos rfl]
    exact ⟨_, _, ‹UAt src N _ _›, AtomEscape.character _ _ _ ‹CharacterEscape r _ _›, Track.ofKeepN (by rx4_keep)⟩
  · rw [if_pos rfl]
    exact ⟨_, _, ‹UAt src N _ _›, AtomEscape.characterClass _ _ ‹CharacterClassEscape r _›, Track.ofKeepN (by rx4_keep)⟩
  · rw [if_pos rfl]
    exact ⟨_, _, ‹UAt src N _ _›, ‹AtomEscape N r _ Attr.nil›, Track.ofKeepN (by rx4_keep)⟩

end DL.Rx
