import DL.Lemmas.RxBCompRec6

/-! # Annex B (no `u` flag), completeness: the induction over the derivation -/
namespace DL.Rx
open DL.RxSpec DL.Gen.Unicode

attribute [local irreducible] isScalar
variable {src : List Nat} {K : Bool × Nat}

theorem disj_oneB {i r : List Nat} {a : Attr} (ih : TermsPB K (PTB src K) i r a) : PDB src K i r a := by
  intro n s hat hf hnd
  refine Wc.call (alt_loopB ih hf.alt n s hat hnd) (fun _ s1 hpost => ?_)
  obtain ⟨hat1, htr⟩ := hpost
  have hne : r.head? ≠ some (ch '|') := by
    rcases hf with rfl | hf
    · exact nil_head_ne _
    · rw [hf]; decide
  cases n with
  | zero => exact Wc.outOfFuel
  | succ n =>
    unfold consumeDisjunctionLoop
    rx7_autos
    exact ⟨hat1, htr⟩

theorem disj_moreB {i m r : List Nat} {a₁ a₂ : Attr} (ih1 : TermsPB K (PTB src K) i (ch '|' :: m) a₁)
    (ih2 : PDB src K m r a₂) : PDB src K i r (a₁ ++ a₂) := by
  intro n s hat hf hnd
  refine Wc.call (alt_loopB ih1 (.inr (.inl rfl)) n s hat hnd.left) (fun _ s1 hpost => ?_)
  obtain ⟨hat1, htr⟩ := hpost
  cases n with
  | zero => exact Wc.outOfFuel
  | succ n =>
    unfold consumeDisjunctionLoop
    rx7_autos
    refine (ih2 n _ ‹BAt src K m _› hf (ND.right hnd (by rw [← htr.gn]; rfl))).mono ?_
    rintro _ s2 ⟨hat2, htr2⟩
    exact ⟨hat2, TrackC.trans htr (TrackC.move _ _ htr2 rfl rfl rfl rfl)⟩

/-- **completeness of the recursive productions without `u`**: the validator follows every derivation -/
theorem derives_completeB (hN : K.2 < 2 ^ 62) {sym : RxSpecB.Sym} {i r : List Nat} {a : Attr}
    (h : RxSpecB.Derives K.1 qokSat K.2 sym i r a) : MotiveB src K sym i r a := by
  induction h with
  | disjOne i r a _ ih => exact disj_oneB ih
  | disjMore i m r a₁ a₂ _ _ ih1 ih2 => exact disj_moreB ih1 ih2
  | altEmpty r => exact TermsPB.nil r
  | altSnoc i m r a₁ a₂ _ ht ih1 ih2 => exact TermsPB.snoc ih1 ht ih2
  | termQAssertionQuantified i m r a _ hq ih => exact term_of_qassertion_quantified ih hq
  | termAssertion i r a _ ih => exact term_of_assertionB ih
  | termAtomQuantified i m r a hatom hq hw ih => exact term_of_quantifiedB hatom hw hq ih
  | termAtom i r a hatom hw ih => exact term_of_atomB hatom hw ih
  | caret r => exact caret_wd
  | dollar r => exact dollar_wd
  | wordBoundary r => exact wordBoundary_wd
  | notWordBoundary r => exact notWordBoundary_wd
  | quantifiable i r a _ ih => exact PQAB.toPAB ih
  | lookahead i m r a hl _ ih =>
    have e : i = ch '(' :: ch '?' :: ch '=' :: m := hl
    subst e
    exact lookahead_wd (disj_of_bodyB ih (.inr rfl))
  | negativeLookahead i m r a hl _ ih =>
    have e : i = ch '(' :: ch '?' :: ch '!' :: m := hl
    subst e
    exact negativeLookahead_wd (disj_of_bodyB ih (.inr rfl))
  | lookbehind i m r a hl _ ih =>
    have e : i = ch '(' :: ch '?' :: ch '<' :: ch '=' :: m := hl
    subst e
    exact lookbehind_wd (disj_of_bodyB ih (.inr rfl))
  | negativeLookbehind i m r a hl _ ih =>
    have e : i = ch '(' :: ch '?' :: ch '<' :: ch '!' :: m := hl
    subst e
    exact negativeLookbehind_wd (disj_of_bodyB ih (.inr rfl))
  | dot r => exact atomB_dot
  | atomEscape m r a hae => exact atomB_escape hN hae
  | backslashC r hn => exact atomB_backslashC hn
  | characterClass i r hc => exact atomB_class hc
  | group m₁ m₂ r name a hg hd ih =>
    cases hg with
    | empty _ =>
      have hq : m₁.head? ≠ some (c '?') := derives_headB hd (.inl (head_cons_ne (by decide) _))
      exact atomB_group_empty hq (disj_of_bodyB ih (.inr rfl))
    | named m _ nm hgn => exact atomB_group_named hgn (disj_of_bodyB ih (.inr rfl))
  | nonCapturing i m r a hl _ ih =>
    have e : i = ch '(' :: ch '?' :: ch ':' :: m := hl
    subst e
    exact atomB_nonCapturing (disj_of_bodyB ih (.inr rfl))
  | extendedPatternCharacter x r hx hno => exact atomB_patternCharacter hx hno

end DL.Rx
