import DL.Lemmas.CFClaims7

/-! The claims of the rule layers: `switch` statements, `try` statements. -/
namespace DL.CF

theorem switch_claims (ls : List Id) (p : Nat) (d : Kids) (cs : Cases) (a : A) (hf : (Stmt.switchS p d cs).inF = true)
    (hpre : PreK (p :: (d.positions ++ cs.positions)) a)
    (ihk : ∀ x, PreK d.positions x → KClaims d (visitKids d x).info)
    (ihc : ∀ x, PreK cs.positions x → (stopsEnd x.sc.end_ = true → x.info.ur p = true) → CClaims cs p (visitCases cs x).info) :
    SClaims (.switchS p d cs) ls (visitStmt (.switchS p d cs) a).info := by
  have own := own_claim (.switchS p d cs) ls a hf hpre
  have hf' : (d.okF = true ∧ d.pure = true) ∧ cs.inF = true := by simpa [Stmt.inF] using hf
  have hsp := Split.of hpre.nodup
  have hpre0 : PreK (d.positions ++ cs.positions) (flagA a p .other) :=
    (hpre.sub (fun q hq => List.mem_cons_of_mem _ hq) (List.nodup_cons.mp hpre.nodup).2).flag p .other
  have hv := visitStmt_switch p d cs a
  have hk := ihk _ hpre0.left
  have hK := visitKids_ok d _ hf'.1.1 hf'.1.2 hpre0.left
  have fr1 : ∀ q, q ∉ d.positions → (visitKids d (flagA a p .other)).info q = (flagA a p .other).info q :=
    fun q hq => Kids.info_frame d _ q hq
  have ur1 : (visitKids d (flagA a p .other)).info.ur p = (flagA a p .other).info.ur p :=
    Kids.ur_frame d _ p (fun h => hsp.pk (Kids.upos_sub d p h))
  have he1 : (visitKids d (flagA a p .other)).sc.end_ = a.sc.end_ := hK.end_
  generalize visitKids d (flagA a p .other) = a1 at hv hk fr1 ur1 he1
  have hc := ihc a1 (hpre0.right fr1) (fun h => by
    rw [ur1, flagA_ur_self]; rw [he1] at h; simp [unreachableFlag, h])
  have frc : ∀ q, q ∉ cs.positions → (visitCases cs a1).info q = a1.info q := fun q hq => Cases.info_frame cs a1 q hq
  generalize visitCases cs a1 = a2 at hv hc frc
  have hk' : KClaims d (visitStmt (.switchS p d cs) a).info := by
    refine hk.transport (fun q hq => ?_)
    have hne : q ≠ p := fun e => hsp.pk (e ▸ hq)
    rw [hv, switchFin_info _ _ _ _ _ hne, frc q (fun h => hsp.disj q hq h)]
  have hc' : CClaims cs p (visitStmt (.switchS p d cs) a).info := by
    refine hc.transport (fun q hq => ?_) (by rw [hv, switchFin_ur])
    have hne : q ≠ p := fun e => hsp.pb (e ▸ hq)
    rw [hv, switchFin_info _ _ _ _ _ hne]
  exact (own.append (hk'.append hc')).mono (fun q hq => by simpa [Stmt.stopViol, List.append_assoc] using hq)
    (fun c hc => by simpa [Stmt.swCases] using hc) (fun g hg => by simpa [Stmt.getters] using hg)

theorem handler_claims (hh : Bool) (cp : Nat) (ck : Kids) (prev : Option End) (a1 : A) (hck : hh = true ∨ ck = .nil)
    (hpre : PreK ck.positions a1) (hcp : hh = true → cp ∉ ck.positions)
    (ih : ∀ x, PreK ck.positions x → KClaims ck (visitKids ck x).info) :
    KClaims ck (tryHandler hh cp ck prev a1).info ∧
    ∀ q, (hh = true → q ≠ cp) → q ∉ ck.positions → (tryHandler hh cp ck prev a1).info q = a1.info q := by
  cases hh with
  | false =>
    have : ck = .nil := by rcases hck with h | h; cases h; exact h
    subst this
    exact ⟨Claims.nil _, fun _ _ _ => rfl⟩
  | true =>
    rw [tryHandler_true]
    have hsi := (handlerStart_facts prev a1).1
    have hc := ih (childA .catch_ (handlerStart prev a1)) ⟨fun q hq => by simp only [childA]; rw [hsi]; exact hpre.fresh q hq, hpre.nodup⟩
    have hinfo : ∀ q, q ≠ cp → (tryCatchJoin a1.sc.end_ a1.sc.mayThrow (withChild .catch_ cp (visitKids ck) (handlerStart prev a1))).info q =
        (visitKids ck (childA .catch_ (handlerStart prev a1))).info q := by
      intro q hq
      rw [tryCatchJoin_info, withChild_info _ _ _ _ _ hq]; rfl
    refine ⟨?_, ?_⟩
    · refine hc.transport (fun q hq => ?_)
      have hne : q ≠ cp := fun e => hcp rfl (e ▸ hq)
      exact hinfo q hne
    · intro q h1 h2
      rw [hinfo q (h1 rfl), Kids.info_frame ck _ q h2]
      simp only [childA]; rw [hsi]

theorem finalizer_claims (hf : Bool) (fp : Nat) (f : Stmts) (prev : Option End) (a2 : A) (hfin : hf = true ∨ f = .nil)
    (hpre : PreK f.positions a2) (hfp : hf = true → fp ∉ f.positions)
    (ih : ∀ x, PreK f.positions x → LClaims f (visitStmts f x).info) :
    LClaims f (tryFinalizer hf fp f prev a2).info ∧
    ∀ q, (hf = true → q ≠ fp) → q ∉ f.positions → (tryFinalizer hf fp f prev a2).info q = a2.info q := by
  cases hf with
  | false =>
    have : f = .nil := by rcases hfin with h | h; cases h; exact h
    subst this
    exact ⟨Claims.nil _, fun _ _ _ => rfl⟩
  | true =>
    rw [tryFinalizer_true]
    have hc := ih (childA .finally_ (a2.setEnd prev)) ⟨hpre.fresh, hpre.nodup⟩
    have hinfo : ∀ q, q ≠ fp →
        (finallyJoin a2.sc.end_ (withChild .finally_ fp (fun x => blockTail fp (visitStmts f x)) (a2.setEnd prev))).info q =
        (visitStmts f (childA .finally_ (a2.setEnd prev))).info q := by
      intro q hq
      rw [finallyJoin_info, withChild_info _ _ _ _ _ hq, blockTail_info _ _ _ hq]; rfl
    refine ⟨?_, ?_⟩
    · refine hc.transport (fun q hq => ?_)
      have hne : q ≠ fp := fun e => hfp rfl (e ▸ hq)
      exact hinfo q hne
    · intro q h1 h2
      rw [hinfo q (h1 rfl), Stmts.info_frame f _ q h2]; rfl

end DL.CF
