import DL.Lemmas.CFClaims2

/-! The claims of the rule layers: `if`, labelled statements. -/
namespace DL.CF

theorem withChild_if_info (p : Nat) (op : A → A) (a : A) : (withChild .ifK p op a).info = (op (childA .ifK a)).info := by
  rw [withChild_if]

/-- a branch / labelled body visited through `visit_stmt_or_block` in a child scope whose exit does not mark anything -/
theorem branch_claims (kind : BlockKind) (c : Stmt) (ls : List Id) (x : A) (hpre : PreK c.positions x)
    (ih : ∀ y, PreK c.positions y → SClaims c ls (visitStmt c y).info) :
    SClaims c ls (sobTail c (visitStmt c (childA kind x))).info := by
  rcases sob_cases c with h | h
  · exact h _ _
  · rw [h]; exact ih _ ⟨hpre.fresh, hpre.nodup⟩

theorem if_none_claims (ls : List Id) (p : Nat) (test : Kids) (c : Stmt) (a : A) (hf : (Stmt.ifS p test c none).inF = true)
    (hpre : PreK (p :: (test.positions ++ c.positions)) a)
    (ihk : ∀ x, PreK test.positions x → KClaims test (visitKids test x).info)
    (ih : ∀ x, PreK c.positions x → SClaims c [] (visitStmt c x).info) :
    SClaims (.ifS p test c none) ls (visitStmt (.ifS p test c none) a).info := by
  have own := own_claim (.ifS p test c none) ls a hf hpre
  have hsp := Split.of hpre.nodup
  have hv : (visitStmt (.ifS p test c none) a).info =
      (markAsEnd p .cont (withChild .ifK c.pos (fun x => sobTail c (visitStmt c x)) (visitKids test (flagA a p .other)))).info := by
    simp [visitStmt, flagA]
  have hpre0 : PreK (test.positions ++ c.positions) (flagA a p .other) :=
    (hpre.sub (fun q hq => List.mem_cons_of_mem _ hq) (List.nodup_cons.mp hpre.nodup).2).flag p .other
  have hk := ihk _ hpre0.left
  have hfr1 : ∀ q, q ∉ test.positions → (visitKids test (flagA a p .other)).info q = (flagA a p .other).info q :=
    fun q hq => Kids.info_frame test _ q hq
  generalize visitKids test (flagA a p .other) = a1 at hv hk hfr1
  have hprec : PreK c.positions a1 := hpre0.right hfr1
  have hc : SClaims c [] (withChild .ifK c.pos (fun x => sobTail c (visitStmt c x)) a1).info := by
    rw [withChild_if_info]; exact branch_claims .ifK c [] a1 hprec ih
  have hfrc : ∀ q, q ∉ c.positions → (withChild .ifK c.pos (fun x => sobTail c (visitStmt c x)) a1).info q = a1.info q := by
    intro q hq
    have hne : q ≠ c.pos := fun e => hq (e ▸ c.pos_mem)
    rw [withChild_if_info, sobTail_info _ _ _ hne, Stmt.info_frame c _ q hq]; rfl
  generalize withChild .ifK c.pos (fun x => sobTail c (visitStmt c x)) a1 = a2 at hv hc hfrc
  have hk' : KClaims test (visitStmt (.ifS p test c none) a).info := by
    refine hk.transport (fun q hq => ?_)
    have hne : q ≠ p := fun e => hsp.pk (e ▸ hq)
    rw [hv, markAsEnd_info_other _ _ _ _ hne, hfrc q (fun h => hsp.disj q hq h)]
  have hc' : SClaims c [] (visitStmt (.ifS p test c none) a).info := by
    refine hc.transport (fun q hq => ?_)
    have hne : q ≠ p := fun e => hsp.pb (e ▸ hq)
    rw [hv, markAsEnd_info_other _ _ _ _ hne]
  exact (own.append (hk'.append hc')).mono (fun q hq => by simpa [Stmt.stopViol, List.append_assoc] using hq)
    (fun c hc => by simpa [Stmt.swCases] using hc) (fun g hg => by simpa [Stmt.getters] using hg)

theorem ifBranch (c : Stmt) (x : A) (hprec : PreK c.positions x)
    (ih : ∀ y, PreK c.positions y → SClaims c [] (visitStmt c y).info) :
    SClaims c [] (withChild .ifK c.pos (fun y => sobTail c (visitStmt c y)) x).info ∧
    ∀ q, q ∉ c.positions → (withChild .ifK c.pos (fun y => sobTail c (visitStmt c y)) x).info q = x.info q := by
  refine ⟨by rw [withChild_if_info]; exact branch_claims .ifK c [] x hprec ih, ?_⟩
  intro q hq
  have hne : q ≠ c.pos := fun e => hq (e ▸ c.pos_mem)
  rw [withChild_if_info, sobTail_info _ _ _ hne, Stmt.info_frame c _ q hq]; rfl

theorem if_some_claims (ls : List Id) (p : Nat) (test : Kids) (c al : Stmt) (a : A)
    (hf : (Stmt.ifS p test c (some al)).inF = true)
    (hpre : PreK (p :: (test.positions ++ (c.positions ++ al.positions))) a)
    (ihk : ∀ x, PreK test.positions x → KClaims test (visitKids test x).info)
    (ihc : ∀ x, PreK c.positions x → SClaims c [] (visitStmt c x).info)
    (iha : ∀ x, PreK al.positions x → SClaims al [] (visitStmt al x).info) :
    SClaims (.ifS p test c (some al)) ls (visitStmt (.ifS p test c (some al)) a).info := by
  have own := own_claim (.ifS p test c (some al)) ls a hf hpre
  have hsp := Split3.of hpre.nodup
  have hpre0 : PreK (test.positions ++ (c.positions ++ al.positions)) (flagA a p .other) :=
    (hpre.sub (fun q hq => List.mem_cons_of_mem _ hq) (List.nodup_cons.mp hpre.nodup).2).flag p .other
  have hk := ihk _ hpre0.left
  have hfr1 : ∀ q, q ∉ test.positions → (visitKids test (flagA a p .other)).info q = (flagA a p .other).info q :=
    fun q hq => Kids.info_frame test _ q hq
  have hv : (visitStmt (.ifS p test c (some al)) a).info =
      (let a1 := visitKids test (flagA a p .other)
       let a2 := withChild .ifK c.pos (fun x => sobTail c (visitStmt c x)) a1
       let a3 := withChild .ifK al.pos (fun x => sobTail al (visitStmt al x)) a2
       ifJoin p (stmtEnd c.isDeclOrExpr a2.info c.pos) (stmtEnd al.isDeclOrExpr a3.info al.pos) a3).info := by
    simp [visitStmt, flagA]
  simp only at hv
  generalize visitKids test (flagA a p .other) = a1 at hv hk hfr1
  have hpre1 : PreK (c.positions ++ al.positions) a1 := hpre0.right hfr1
  obtain ⟨hc, hfrc⟩ := ifBranch c a1 hpre1.left ihc
  generalize withChild .ifK c.pos (fun x => sobTail c (visitStmt c x)) a1 = a2 at hv hc hfrc
  obtain ⟨ha, hfra⟩ := ifBranch al a2 (hpre1.right hfrc) iha
  generalize withChild .ifK al.pos (fun x => sobTail al (visitStmt al x)) a2 = a3 at hv ha hfra
  have hk' : KClaims test (visitStmt (.ifS p test c (some al)) a).info := by
    refine hk.transport (fun q hq => ?_)
    have hne : q ≠ p := fun e => hsp.px (e ▸ hq)
    rw [hv, ifJoin_info _ _ _ _ _ hne, hfra q (fun h => hsp.xz q hq h), hfrc q (fun h => hsp.xy q hq h)]
  have hc' : SClaims c [] (visitStmt (.ifS p test c (some al)) a).info := by
    refine hc.transport (fun q hq => ?_)
    have hne : q ≠ p := fun e => hsp.py (e ▸ hq)
    rw [hv, ifJoin_info _ _ _ _ _ hne, hfra q (fun h => hsp.yz q hq h)]
  have ha' : SClaims al [] (visitStmt (.ifS p test c (some al)) a).info := by
    refine ha.transport (fun q hq => ?_)
    have hne : q ≠ p := fun e => hsp.pz (e ▸ hq)
    rw [hv, ifJoin_info _ _ _ _ _ hne]
  exact (own.append (hk'.append (hc'.append ha'))).mono (fun q hq => by simpa [Stmt.stopViol, List.append_assoc] using hq)
    (fun c hc => by simpa [Stmt.swCases] using hc) (fun g hg => by simpa [Stmt.getters] using hg)

theorem labeled_claims (ls : List Id) (p : Nat) (l : Id) (body : Stmt) (a : A) (hf : (Stmt.labeled p l body).inF = true)
    (hpre : PreK (p :: body.positions) a)
    (ih : ∀ x, PreK body.positions x → SClaims body (l :: ls) (visitStmt body x).info) :
    SClaims (.labeled p l body) ls (visitStmt (.labeled p l body) a).info := by
  have own := own_claim (.labeled p l body) ls a hf hpre
  have hnd := List.nodup_cons.mp hpre.nodup
  have hv : visitStmt (.labeled p l body) a =
      withChild (.label l) p (fun x => sobTail body (visitStmt body x)) (flagA a p .other) := by simp [visitStmt, flagA]
  have hi := (withChild_label l p (fun x => sobTail body (visitStmt body x)) (flagA a p .other)).1
  have hb := branch_claims (.label l) body (l :: ls) (flagA a p .other)
    ((hpre.sub (fun q hq => List.mem_cons_of_mem _ hq) hnd.2).flag p .other) ih
  have hb' : SClaims body (l :: ls) (visitStmt (.labeled p l body) a).info := by
    rw [hv, hi]; exact hb
  exact (own.append hb').mono (fun q hq => by simpa [Stmt.stopViol] using hq) (fun c hc => by simpa [Stmt.swCases] using hc)
    (fun g hg => by simpa [Stmt.getters] using hg)

end DL.CF
