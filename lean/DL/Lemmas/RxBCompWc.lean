import DL.Lemmas.RxBPrim
import DL.Lemmas.RxCompWc

/-! # Annex B (no `u` flag), completeness: the reader rules of the `Wc` calculus for `BAt` (copies of the ones for `UAt`) -/
namespace DL.Rx

variable {src : List Nat} {K : Bool × Nat} {α β : Type}

theorem WcB.bind_cpo0 {r : List Nat} {g : Option Nat → M β} {s : St} {Q : β → St → Prop} (h : BAt src K r s)
    (hnil : r = [] → Wc (g none s) Q) (hcons : ∀ x r', r = x :: r' → Wc (g (some x) s) Q) :
    Wc ((codePointWithOffset 0 >>= g) s) Q := by
  show Wc (g (s.reader.cps[0]?) s) Q
  rw [h.cps]
  cases r with
  | nil => exact hnil rfl
  | cons x r' => exact hcons x r' rfl

theorem WcB.bind_cpo {r : List Nat} {k : Nat} {g : Option Nat → M β} {s : St} {Q : β → St → Prop} (h : BAt src K r s)
    (hk : k < 4) (hg : Wc (g r[k]? s) Q) : Wc ((codePointWithOffset k >>= g) s) Q := by
  show Wc (g (s.reader.cps[k]?) s) Q
  rw [h.cps, List.getElem?_take, if_pos hk]; exact hg

theorem WcB.bind_advance_cons {x : Nat} {r : List Nat} {g : Unit → M β} {s : St} {Q : β → St → Prop}
    (h : BAt src K (x :: r) s)
    (hg : BAt src K r (s.setPos src (s.reader.index + 1)) → Wc (g () (s.setPos src (s.reader.index + 1))) Q) :
    Wc ((advance >>= g) s) Q := by
  show Wc (M.bind advance g s) Q
  unfold M.bind
  rw [advance_eq h.inv h.lt]; exact hg h.step

theorem WcB.bind_advance_nil {g : Unit → M β} {s : St} {Q : β → St → Prop}
    (h : BAt src K [] s) (hg : Wc (g () s) Q) : Wc ((advance >>= g) s) Q := by
  show Wc (M.bind advance g s) Q
  unfold M.bind
  rw [advance_end h.inv h.eq_end]; exact hg

theorem WcB.bind_rewind {r r0 : List Nat} {g : Unit → M β} {s s0 : St} {Q : β → St → Prop}
    (h : BAt src K r s) (h0 : BAt src K r0 s0)
    (hg : BAt src K r0 (s.setPos src s0.reader.index) → Wc (g () (s.setPos src s0.reader.index)) Q) :
    Wc ((rewind s0.reader.index >>= g) s) Q := by
  show Wc (M.bind (rewind s0.reader.index) g s) Q
  unfold M.bind
  rw [rewind_eq h.inv.toRStatic]; exact hg (h.back h0)

theorem WcB.bind_rewind' {r : List Nat} {i : Nat} {g : Unit → M β} {s : St} {Q : β → St → Prop}
    (h : BAt src K r s) (hle : i ≤ src.length)
    (hg : BAt src K (src.drop i) (s.setPos src i) → Wc (g () (s.setPos src i)) Q) : Wc ((rewind i >>= g) s) Q := by
  show Wc (M.bind (rewind i) g s) Q
  unfold M.bind
  rw [rewind_eq h.inv.toRStatic]; exact hg (h.back' hle rfl)

theorem WcB.bind_eat {r : List Nat} {x : Char} {g : Bool → M β} {s : St} {Q : β → St → Prop} (h : BAt src K r s)
    (ht : ∀ r', r = ch x :: r' → BAt src K r' (s.setPos src (s.reader.index + 1)) →
      Wc (g true (s.setPos src (s.reader.index + 1))) Q)
    (hf : r.head? ≠ some (ch x) → Wc (g false s) Q) : Wc ((eat x >>= g) s) Q := by
  show Wc (M.bind (eat x) g s) Q
  unfold M.bind
  by_cases hx : r.head? = some (ch x)
  · cases r with
    | nil => cases hx
    | cons y r' =>
      have : y = ch x := by simpa using hx
      subst this
      rw [Beat_cons h]; exact ht r' rfl h.step
  · rw [Beat_ne h hx]; exact hf hx

theorem WcB.bind_eat_ne {r : List Nat} {x : Char} {g : Bool → M β} {s : St} {Q : β → St → Prop} (h : BAt src K r s)
    (hne : r.head? ≠ some (ch x)) (hf : Wc (g false s) Q) : Wc ((eat x >>= g) s) Q := by
  show Wc (M.bind (eat x) g s) Q
  unfold M.bind
  rw [Beat_ne h hne]; exact hf

theorem WcB.bind_eat2 {r : List Nat} {x y : Char} {g : Bool → M β} {s : St} {Q : β → St → Prop} (h : BAt src K r s)
    (ht : ∀ r', r = ch x :: ch y :: r' → BAt src K r' (s.setPos src (s.reader.index + 2)) →
      Wc (g true (s.setPos src (s.reader.index + 2))) Q)
    (hf : (¬∃ r', r = ch x :: ch y :: r') → Wc (g false s) Q) : Wc ((eat2 x y >>= g) s) Q := by
  show Wc (M.bind (eat2 x y) g s) Q
  unfold M.bind
  by_cases hx : ∃ r', r = ch x :: ch y :: r'
  · obtain ⟨r', rfl⟩ := hx
    rw [Beat2_cons h]; exact ht r' rfl h.step2
  · rw [Beat2_ne h hx]; exact hf hx

theorem WcB.bind_eat3 {r : List Nat} {x y z : Char} {g : Bool → M β} {s : St} {Q : β → St → Prop} (h : BAt src K r s)
    (ht : ∀ r', r = ch x :: ch y :: ch z :: r' → BAt src K r' (s.setPos src (s.reader.index + 3)) →
      Wc (g true (s.setPos src (s.reader.index + 3))) Q)
    (hf : (¬∃ r', r = ch x :: ch y :: ch z :: r') → Wc (g false s) Q) : Wc ((eat3 x y z >>= g) s) Q := by
  show Wc (M.bind (eat3 x y z) g s) Q
  unfold M.bind
  by_cases hx : ∃ r', r = ch x :: ch y :: ch z :: r'
  · obtain ⟨r', rfl⟩ := hx
    rw [Beat3_cons h]; exact ht r' rfl h.step3
  · rw [Beat3_ne h hx]; exact hf hx

theorem WcB.bind_eat2_ne {r : List Nat} {x y : Char} {g : Bool → M β} {s : St} {Q : β → St → Prop} (h : BAt src K r s)
    (hne : ¬∃ r', r = ch x :: ch y :: r') (hf : Wc (g false s) Q) : Wc ((eat2 x y >>= g) s) Q := by
  show Wc (M.bind (eat2 x y) g s) Q
  unfold M.bind
  rw [Beat2_ne h hne]; exact hf

theorem WcB.bind_eat3_ne {r : List Nat} {x y z : Char} {g : Bool → M β} {s : St} {Q : β → St → Prop} (h : BAt src K r s)
    (hne : ¬∃ r', r = ch x :: ch y :: ch z :: r') (hf : Wc (g false s) Q) : Wc ((eat3 x y z >>= g) s) Q := by
  show Wc (M.bind (eat3 x y z) g s) Q
  unfold M.bind
  rw [Beat3_ne h hne]; exact hf

end DL.Rx
