import DL.Lemmas.RxBCompRec2

/-! # Annex B (no `u` flag), completeness: the recursive productions -/
namespace DL.Rx
open DL.RxSpec DL.Gen.Unicode

attribute [local irreducible] isScalar
variable {src : List Nat} {K : Bool × Nat}

/-- more side conditions: the bookkeeping of new group names -/
macro_rules
  | `(tactic| rx7_side) => `(tactic| first
    | exact ND.left ‹ND _ (_ ++ _)›
    | exact ND.right ‹ND _ (_ ++ _)› (TrackC.gn ‹TrackC _ _ _›)
    | exact ND.right ‹ND _ (_ ++ _)› (TrackC.gn (by rx5_track))
    | exact AltFollow.noQB ‹AltFollow _›
    | exact DFollow.alt ‹DFollow _›
    | (rw [KeepN.gn ‹KeepN _ _›]; assumption)
    | rx5_ne2
    | rx5_ne3
    | assumption)

def PTB (src : List Nat) (K : Bool × Nat) (i r : List Nat) (a : Attr) : Prop :=
  ∀ n s, BAt src K i s → NoQB r → ND s.groupNames a →
    Wc (consumeTerm n s) (fun b s1 => b = true ∧ BAt src K r s1 ∧ TrackC s s1 a)

def PAB (src : List Nat) (K : Bool × Nat) (i r : List Nat) (a : Attr) : Prop :=
  ∀ n s, BAt src K i s → ND s.groupNames a →
    Wc (consumeAssertion n s) (fun b s1 => b = true ∧ BAt src K r s1 ∧ TrackC s s1 a)

/-- a quantifiable assertion leaves the flag set -/
def PQAB (src : List Nat) (K : Bool × Nat) (i r : List Nat) (a : Attr) : Prop :=
  ∀ n s, BAt src K i s → ND s.groupNames a →
    Wc (consumeAssertion n s) (fun b s1 => b = true ∧ BAt src K r s1 ∧ TrackC s s1 a ∧
      s1.lastAssertionIsQuantifiable = true)

def PAtB (src : List Nat) (K : Bool × Nat) (i r : List Nat) (a : Attr) : Prop :=
  ∀ n s, BAt src K i s → ND s.groupNames a →
    Wc (consumeExtendedAtom n s) (fun b s1 => b = true ∧ BAt src K r s1 ∧ TrackC s s1 a)

def PDB (src : List Nat) (K : Bool × Nat) (i r : List Nat) (a : Attr) : Prop :=
  ∀ n s, BAt src K i s → DFollow r → ND s.groupNames a →
    Wc ((consumeAlternative n >>= fun _ => consumeDisjunctionLoop n) s) (fun _ s1 => BAt src K r s1 ∧ TrackC s s1 a)

theorem alt_loopB {i r : List Nat} {a : Attr} (h : TermsPB K (PTB src K) i r a) (hf : AltFollow r) :
    ∀ n s, BAt src K i s → ND s.groupNames a →
      Wc (consumeAlternative n s) (fun _ s1 => BAt src K r s1 ∧ TrackC s s1 a) := by
  induction h with
  | nil r =>
    intro n s hat hnd
    cases n with
    | zero => exact Wc.outOfFuel
    | succ n =>
      have hterm := fun s (h : BAt src K r s) => consumeTerm_wdn (src := src) (K := K) n r s h hf
      unfold consumeAlternative
      rx7_autos
      · exact ⟨‹BAt src K _ _›, TrackC.ofKeepN ‹KeepN s _›⟩
      · exact ⟨hat, TrackC.ofKeepN (KeepN.refl _)⟩
  | cons i m r a₁ a₂ ht hp hrest ih =>
    intro n s hat hnd
    have ih' := ih hf
    have hp' : ∀ n s, BAt src K i s → NoQB m → ND s.groupNames a₁ →
      Wc (consumeTerm n s) (fun b s1 => b = true ∧ BAt src K m s1 ∧ TrackC s s1 a₁) := hp
    have hq : NoQB m := hrest.noQ hf.noQB
    obtain ⟨x, i', rfl⟩ := term_consB ht rfl
    cases n with
    | zero => exact Wc.outOfFuel
    | succ n =>
      unfold consumeAlternative
      rx7_autos
      exact ⟨‹BAt src K r _›, TrackC.trans ‹TrackC s _ a₁› ‹TrackC _ _ a₂›⟩

/-- the specification of `consume_disjunction` that the callers use -/
def PDjB (src : List Nat) (K : Bool × Nat) (i r : List Nat) (a : Attr) : Prop :=
  ∀ n s, BAt src K i s → ND s.groupNames a →
    Wc (consumeDisjunction n s) (fun _ s1 => BAt src K r s1 ∧ TrackC s s1 a)

theorem disj_of_bodyB {i r : List Nat} {a : Attr} (hd : PDB src K i r a) (hf : DFollow r) : PDjB src K i r a := by
  intro n s hat hnd
  cases n with
  | zero => exact Wc.outOfFuel
  | succ n =>
    have e : consumeDisjunction (n + 1) = ((consumeAlternative n >>= fun _ => consumeDisjunctionLoop n) >>= fun _ => do
        if ← consumeQuantifier n true then fail "Nothing to repeat"
        else if ← eat '{' then fail "Lone quantifier brackets"
        else pure ()) := by
      conv => lhs; unfold consumeDisjunction
      rw [bind_assoc']
    rw [e]
    refine Wc.call (hd n s hat hf hnd) (fun _ s1 hpost => ?_)
    obtain ⟨hat1, htr⟩ := hpost
    have hnq : NoQB r := hf.alt.noQB
    have hq := fun s (h : BAt src K r s) => consumeQuantifier_wdn (src := src) (K := K) n true r s h hnq
    have h4 : r.head? ≠ some (ch '{') := by
      rcases hf with rfl | hf
      · exact nil_head_ne _
      · rw [hf]; decide
    rx7_autos
    exact ⟨‹BAt src K r _›, TrackC.post htr ‹KeepN s1 _›⟩

theorem uncapturing_wd {m r : List Nat} {a : Attr} (hdj : PDjB src K m (ch ')' :: r) a) :
    ∀ n s, BAt src K (ch '(' :: ch '?' :: ch ':' :: m) s → ND s.groupNames a →
      Wc (consumeUncapturingGroup n s) (fun b s1 => b = true ∧ BAt src K r s1 ∧ TrackC s s1 a) := by
  intro n s hat hnd
  have hdj' : ∀ n s, BAt src K m s → ND s.groupNames a →
    Wc (consumeDisjunction n s) (fun _ s1 => BAt src K (ch ')' :: r) s1 ∧ TrackC s s1 a) := hdj
  cases n with
  | zero => exact Wc.outOfFuel
  | succ n =>
    unfold consumeUncapturingGroup
    rx7_autos
    exact ⟨rfl, by rx6_at, by rx5_track⟩

theorem capturing_named_wd {m m₂ r : List Nat} {nm : Name} {a : Attr} (hg : RxSpecB.GroupName m m₂ nm)
    (hdj : PDjB src K m₂ (ch ')' :: r) a) :
    ∀ n s, BAt src K (ch '(' :: ch '?' :: m) s → ND s.groupNames (⟨[some nm], []⟩ ++ a) →
      Wc (consumeCapturingGroup n s) (fun b s1 => b = true ∧ BAt src K r s1 ∧ TrackC s s1 (⟨[some nm], []⟩ ++ a)) := by
  intro n s hat hnd
  have hdj' : ∀ n s, BAt src K m₂ s → ND s.groupNames a →
    Wc (consumeDisjunction n s) (fun _ s1 => BAt src K (ch ')' :: r) s1 ∧ TrackC s s1 a) := hdj
  have hnew : ¬nm ∈ s.groupNames := ND.new hnd
  cases n with
  | zero => exact Wc.outOfFuel
  | succ n =>
    unfold consumeCapturingGroup
    rx7_autos
    rename_i t1 _ _ _ t2 _
    exact ⟨rfl, by rx6_at, TrackC.move _ _ (TrackC.trans t1 t2) rfl rfl rfl rfl⟩

theorem capturing_empty_wd {m r : List Nat} {a : Attr} (hq : m.head? ≠ some (ch '?'))
    (hdj : PDjB src K m (ch ')' :: r) a) :
    ∀ n s, BAt src K (ch '(' :: m) s → ND s.groupNames (⟨[none], []⟩ ++ a) →
      Wc (consumeCapturingGroup n s) (fun b s1 => b = true ∧ BAt src K r s1 ∧ TrackC s s1 (⟨[none], []⟩ ++ a)) := by
  intro n s hat hnd
  have hdj' : ∀ n s, BAt src K m s → ND s.groupNames a →
    Wc (consumeDisjunction n s) (fun _ s1 => BAt src K (ch ')' :: r) s1 ∧ TrackC s s1 a) := hdj
  have hnd' : ND s.groupNames a := ND.right_none hnd
  cases n with
  | zero => exact Wc.outOfFuel
  | succ n =>
    unfold consumeCapturingGroup
    rx7_autos
    rename_i t1 _
    exact ⟨rfl, by rx6_at, TrackC.move _ _
      (TrackC.trans (TrackC.none (⟨rfl, rfl⟩ : KeepN s (s.setPos src (s.reader.index + 1)))) t1) rfl rfl rfl rfl⟩

end DL.Rx
