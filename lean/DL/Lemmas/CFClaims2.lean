import DL.Lemmas.CFClaims

/-! The claims of the rule layers: leaf statements, blocks, statement lists. -/
namespace DL.CF

theorem flagA_info_endAt (a : A) (p : Nat) (t : Tag) (q : Nat) : (flagA a p t).info.endAt q = a.info.endAt q := flagA_endAt a p t q

theorem PreK.flagged {ps : List Nat} {a : A} (h : PreK ps a) (p : Nat) (t : Tag) : PreK ps (flagA a p t) := h.flag p t

theorem simple_claims (ls : List Id) (p : Nat) (t : Tag) (kids : Kids) (a : A) (hf : (Stmt.simple p t kids).inF = true)
    (hpre : PreK (Stmt.simple p t kids).positions a)
    (ihk : ∀ x, PreK kids.positions x → KClaims kids (visitKids kids x).info) :
    SClaims (.simple p t kids) ls (visitStmt (.simple p t kids) a).info := by
  have own := own_claim (.simple p t kids) ls a hf hpre
  have hv : visitStmt (.simple p t kids) a = visitKids kids (flagA a p t) := by simp [visitStmt, flagA]
  have hk := ihk (flagA a p t) ((hpre.sub (fun q hq => (Stmt.mem_positions_simple p t kids q).mpr (Or.inr hq))
    (Stmt.nodup_simple p t kids hpre.nodup)).flag p t)
  rw [← hv] at hk
  exact (own.append hk).mono (fun q hq => by simpa [Stmt.stopViol] using hq) (fun c hc => by simpa [Stmt.swCases] using hc)
    (fun g hg => by simpa [Stmt.getters] using hg)

theorem block_claims (ls : List Id) (p : Nat) (b : Stmts) (a : A) (hf : (Stmt.block p b).inF = true)
    (hpre : PreK (p :: b.positions) a)
    (ih : ∀ x, PreK b.positions x → LClaims b (visitStmts b x).info) :
    SClaims (.block p b) ls (visitStmt (.block p b) a).info := by
  have own := own_claim (.block p b) ls a hf hpre
  have hnd := List.nodup_cons.mp hpre.nodup
  have hv : visitStmt (.block p b) a = blockTail p (visitStmts b (flagA a p .other)) := by simp [visitStmt, flagA]
  have hb := ih (flagA a p .other) ((hpre.sub (fun q hq => List.mem_cons_of_mem _ hq) hnd.2).flag p .other)
  have hb' : LClaims b (visitStmt (.block p b) a).info := by
    refine hb.transport (fun q hq => ?_)
    have hne : q ≠ p := fun e => hnd.1 (e ▸ hq)
    rw [hv, blockTail_info _ _ _ hne]
  exact (own.append hb').mono (fun q hq => by simpa [Stmt.stopViol] using hq) (fun c hc => by simpa [Stmt.swCases] using hc)
    (fun g hg => by simpa [Stmt.getters] using hg)

theorem ret_claims (ls : List Id) (p : Nat) (arg : Kids) (a : A) (hpre : PreK (p :: arg.positions) a)
    (ihk : ∀ x, PreK arg.positions x → KClaims arg (visitKids arg x).info) :
    SClaims (.ret p arg) ls (visitStmt (.ret p arg) a).info := by
  have hnd := List.nodup_cons.mp hpre.nodup
  have hv : visitStmt (.ret p arg) a = markAsEnd p forcedRet (visitKids arg (flagA a p .other)) := by simp [visitStmt, flagA]
  have hk := ihk (flagA a p .other) ((hpre.sub (fun q hq => List.mem_cons_of_mem _ hq) hnd.2).flag p .other)
  have hk' : KClaims arg (visitStmt (.ret p arg) a).info := by
    refine hk.transport (fun q hq => ?_)
    have hne : q ≠ p := fun e => hnd.1 (e ▸ hq)
    rw [hv, markAsEnd_info_other _ _ _ _ hne]
  exact hk'.mono (fun q hq => by simpa [Stmt.stopViol] using hq) (fun c hc => by simpa [Stmt.swCases] using hc)
    (fun g hg => by simpa [Stmt.getters] using hg)

theorem throw_claims (ls : List Id) (p : Nat) (arg : Kids) (a : A) (hpre : PreK (p :: arg.positions) a)
    (ihk : ∀ x, PreK arg.positions x → KClaims arg (visitKids arg x).info) :
    SClaims (.throw p arg) ls (visitStmt (.throw p arg) a).info := by
  have hnd := List.nodup_cons.mp hpre.nodup
  have hv : visitStmt (.throw p arg) a = markAsEnd p forcedThrow (throwEffect (visitKids arg (flagA a p .other))) := by
    simp [visitStmt, flagA]
  have hk := ihk (flagA a p .other) ((hpre.sub (fun q hq => List.mem_cons_of_mem _ hq) hnd.2).flag p .other)
  have hk' : KClaims arg (visitStmt (.throw p arg) a).info := by
    refine hk.transport (fun q hq => ?_)
    have hne : q ≠ p := fun e => hnd.1 (e ▸ hq)
    rw [hv, markAsEnd_info_other _ _ _ _ hne, throwEffect_info]
  exact hk'.mono (fun q hq => by simpa [Stmt.stopViol] using hq) (fun c hc => by simpa [Stmt.swCases] using hc)
    (fun g hg => by simpa [Stmt.getters] using hg)

theorem brk_claims (ls : List Id) (p : Nat) (l : Option Id) (F : Info) : SClaims (.brk p l) ls F := Claims.nil F
theorem cont_claims (ls : List Id) (p : Nat) (l : Option Id) (F : Info) : SClaims (.cont p l) ls F := Claims.nil F

/-- a `break`/`continue` statement has no claims; any other statement is left alone by `visit_stmt_or_block` -/
theorem sob_cases (s : Stmt) : (∀ ls F, SClaims s ls F) ∨ (∀ x, sobTail s x = x) := by
  by_cases h : s.isBreakOrContinue = true
  · left
    cases s <;> simp [Stmt.isBreakOrContinue] at h
    · exact fun ls F => Claims.nil F
    · exact fun ls F => Claims.nil F
  · right; intro x; simp [sobTail, h]

theorem stmtsCons_claims (s : Stmt) (r : Stmts) (a : A) (hpre : PreK (s.positions ++ r.positions) a)
    (ihs : ∀ x, PreK s.positions x → SClaims s [] (visitStmt s x).info)
    (ihr : ∀ x, PreK r.positions x → LClaims r (visitStmts r x).info) :
    LClaims (.cons s r) (visitStmts (.cons s r) a).info := by
  have hnd := List.nodup_append.mp hpre.nodup
  have hdisj : ∀ q, q ∈ s.positions → q ∈ r.positions → False := fun q h1 h2 => hnd.2.2 q h1 q h2 rfl
  simp only [visitStmts]
  have hs := ihs a (hpre.sub (fun q hq => List.mem_append.mpr (Or.inl hq)) hnd.1)
  have hr := ihr (sobTail s (visitStmt s a)) (hpre.move (fun q hq => List.mem_append.mpr (Or.inr hq)) hnd.2.1 (fun q hq => by
    have hne : q ≠ s.pos := fun e => hdisj q (e ▸ s.pos_mem) hq
    rw [sobTail_info _ _ _ hne, Stmt.info_frame s a q (fun h => hdisj q h hq)]))
  have hs' : SClaims s [] (visitStmts r (sobTail s (visitStmt s a))).info := by
    rcases sob_cases s with h | h
    · exact h _ _
    · refine hs.transport (fun q hq => ?_)
      rw [Stmts.info_frame r _ q (fun h' => hdisj q hq h'), h]
  exact (hs'.append hr).mono (fun q hq => by simpa [Stmts.stopViol] using hq) (fun c hc => by simpa [Stmts.swCases] using hc)
    (fun g hg => by simpa [Stmts.getters] using hg)

end DL.CF
