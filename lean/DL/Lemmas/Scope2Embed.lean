import DL.Lemmas.Scope
import DL.Lemmas.Scope2

/-! M-SCOPE2 extends M-SCOPE conservatively: on the old language (`decl` ↦ `letDecl`, `func id ps b` ↦ an anonymous
`func`) the two resolvers agree, scope `id` of the old model being `Sid.scope id` of the new one. -/
namespace DL.Scope2

mutual
def upItem : DL.Scope.Item → Item
  | .ref x => .ref x
  | .key x => .key x
  | .decl x => .letDecl x
  | .block id b => .block id (upItems b)
  | .func id ps b => .func id none ps (upItems b)
def upItems : DL.Scope.Items → Items
  | .nil => .nil
  | .cons i r => .cons (upItem i) (upItems r)
end

def upOcc : DL.Scope.Occ → Occ
  | .decl => .decl
  | .ref => .ref

def upEntry (e : DL.Scope.Entry) : Entry := ⟨upOcc e.kind, e.name, e.bind.map Sid.scope⟩

theorem up_lets : (b : DL.Scope.Items) → (upItems b).lets = b.lets
  | .nil => rfl
  | .cons i r => by
    have ih := up_lets r
    cases i <;> simp [upItems, upItem, Items.lets, DL.Scope.Items.lets, ih]

mutual
theorem upItem_vars (i : DL.Scope.Item) : (upItem i).vars = [] := by
  cases i with
  | ref x => rfl
  | key x => rfl
  | decl x => rfl
  | block id b => simp only [upItem, Item.vars]; exact upItems_vars b
  | func id ps b => rfl
theorem upItems_vars (is : DL.Scope.Items) : (upItems is).vars = [] := by
  cases is with
  | nil => rfl
  | cons i r => simp only [upItems, Items.vars, upItem_vars i, upItems_vars r, List.append_nil]
end

/-- the new environment resolves like the old one -/
def EnvRel (env : DL.Scope.Env) (env2 : Env) : Prop :=
  ∀ x, lookup env2 x = (DL.Scope.lookup env x).map Sid.scope

theorem EnvRel.push {env : DL.Scope.Env} {env2 : Env} (h : EnvRel env env2) (id : Nat) (fr : List Nat) :
    EnvRel ((id, fr) :: env) ((.scope id, fr) :: env2) := by
  intro x
  rw [lookup_cons, DL.Scope.lookup_cons]
  by_cases hx : x ∈ fr
  · simp [hx]
  · simp only [hx, if_false]; exact h x

theorem EnvRel.skip {env : DL.Scope.Env} {env2 : Env} (h : EnvRel env env2) (id : Sid) :
    EnvRel env ((id, []) :: env2) := by
  intro x
  rw [lookup_cons, if_neg (by simp)]
  exact h x

mutual
theorem upItem_res (i : DL.Scope.Item) (env : DL.Scope.Env) (env2 : Env) (h : EnvRel env env2) :
    (upItem i).res env2 = (i.res env).map upEntry := by
  cases i with
  | ref x => simp [upItem, Item.res, DL.Scope.Item.res, upEntry, upOcc, h x]
  | key x => simp [upItem, Item.res, DL.Scope.Item.res]
  | decl x => simp [upItem, Item.res, DL.Scope.Item.res, upEntry, upOcc, h x]
  | block id b =>
    simp only [upItem, Item.res, DL.Scope.Item.res, up_lets]
    exact upItems_res b _ _ (h.push id b.lets)
  | func id ps b =>
    have h2 := (h.skip (.head id)).push id (ps ++ b.lets)
    simp only [upItem, Item.res, DL.Scope.Item.res, funcFrame, up_lets, upItems_vars, List.append_nil,
      Option.toList_none, declsIn, List.map_nil, List.nil_append, List.map_append, List.map_map]
    rw [upItems_res b _ _ h2]
    congr 1
    apply List.map_congr_left
    intro p _
    simp [upEntry, upOcc, h2 p]
theorem upItems_res (is : DL.Scope.Items) (env : DL.Scope.Env) (env2 : Env) (h : EnvRel env env2) :
    (upItems is).res env2 = (is.res env).map upEntry := by
  cases is with
  | nil => simp [upItems, Items.res, DL.Scope.Items.res]
  | cons i r =>
    simp only [upItems, Items.res, DL.Scope.Items.res, List.map_append]
    rw [upItem_res i env env2 h, upItems_res r env env2 h]
end

/-- **conservativity**: the richer resolver agrees with `DL.Scope.Program.res` on the old language -/
theorem program_res_up (p : DL.Scope.Items) : Program.res (upItems p) = (DL.Scope.Program.res p).map upEntry := by
  unfold Program.res DL.Scope.Program.res
  have h0 : EnvRel [] [] := fun x => rfl
  have := h0.push 0 p.lets
  simp only [funcFrame, up_lets, upItems_vars, List.append_nil, List.nil_append]
  exact upItems_res p _ _ this

/-- …hence so do the global-name rules -/
theorem globalReports_up (g : Nat) (p : DL.Scope.Items) : globalReports g (upItems p) = DL.Scope.globalReports g p := by
  unfold globalReports DL.Scope.globalReports
  rw [program_res_up]
  generalize DL.Scope.Program.res p = l
  generalize 0 = k
  induction l generalizing k with
  | nil => rfl
  | cons e r ih =>
    have : isGlobalRef g (upEntry e) = DL.Scope.isGlobalRef g e := by
      obtain ⟨k, n, b⟩ := e
      have h1 : (Occ.decl == Occ.ref) = false := by decide
      have h2 : (DL.Scope.Occ.decl == DL.Scope.Occ.ref) = false := by decide
      cases k <;> cases b <;> simp [isGlobalRef, DL.Scope.isGlobalRef, upEntry, upOcc, h1, h2]
    simp only [List.map_cons, reportIdx, DL.Scope.reportIdx, this, ih]

end DL.Scope2
