import DL.Lemmas.RxCompClass
import DL.Lemmas.RxSpecQuant

/-! # Completeness: quantifiers (u-mode) -/
namespace DL.Rx
open DL.RxSpec DL.Gen.Unicode

attribute [local irreducible] isScalar
variable {src : List Nat} {N : Nat}

theorem eatDecimalDigits_wc (n : Nat) (ds r1 : List Nat) (s : St) (h : UAt src N (ds ++ r1) s)
    (hds : ∀ d ∈ ds, DecimalDigit d) (hstop : ∀ d, r1.head? = some d → ¬DecimalDigit d) :
    Wc (eatDecimalDigits n s) (fun b s1 => (b = true ↔ ds ≠ []) ∧ UAt src N r1 s1 ∧
      s1 = (s.setPos src (s.reader.index + ds.length)).withInt (satI (mvDec ds))) := by
  refine (Wc.of_wp (eatDecimalDigits_wp n _ s h) (NE.eatDecimalDigits n)).mono ?_
  rintro b s1 ⟨ds', r1', he, hds', hstop', hat, hs1, hb⟩
  obtain ⟨e1, e2⟩ := run_unique he hds hds' hstop hstop'
  subst e1 e2
  exact ⟨hb, hat, hs1⟩

/-- not followed by a quantifier -/
def NoQ (r : List Nat) : Prop :=
  r.head? ≠ some (ch '*') ∧ r.head? ≠ some (ch '+') ∧ r.head? ≠ some (ch '?') ∧ r.head? ≠ some (ch '{')

theorem not_digit_of {x : Nat} (h : x < 0x30 ∨ 0x39 < x) : ¬DecimalDigit x := by
  intro hd
  have h' : 0x30 ≤ x ∧ x ≤ 0x39 := hd
  omega

theorem head_not_digit {x : Nat} {m : List Nat} (h : x < 0x30 ∨ 0x39 < x) :
    ∀ d, (x :: m).head? = some d → ¬DecimalDigit d := by
  intro d hd; cases hd; exact not_digit_of h

theorem eatBracedQuantifier_wc (n : Nat) (m r1 : List Nat) (s : St) (h : UAt src N (ch '{' :: m) s)
    (hq : QuantifierPrefix qokSat (ch '{' :: m) r1) :
    Wc (eatBracedQuantifier n false s) (fun b s1 => b = true ∧ UAt src N r1 s1 ∧ KeepN s s1) := by
  cases hq with
  | exact _ _ ds hrun =>
    obtain ⟨e, hne, hds⟩ := hrun
    subst e
    have hdd := fun s h => (eatDecimalDigits_wc (src := src) (N := N) n ds (ch '}' :: r1) s h hds
      (head_not_digit (by decide))).mono (fun b s1 hp => (⟨hp.1.mpr hne, hp.2⟩ : b = true ∧ _))
    unfold eatBracedQuantifier
    rx5_autos
    case pos =>
      rename_i hc
      simp only [st_simp, Bool.not_false, Bool.true_and] at hc
      exact absurd (of_decide_eq_true hc) (Int.lt_irrefl _)
    rx5_fin
  | atLeast _ _ ds hrun =>
    obtain ⟨e, hne, hds⟩ := hrun
    subst e
    have hdd := fun s h => (eatDecimalDigits_wc (src := src) (N := N) n ds (ch ',' :: ch '}' :: r1) s h hds
      (head_not_digit (by decide))).mono (fun b s1 hp => (⟨hp.1.mpr hne, hp.2⟩ : b = true ∧ _))
    have hd0 := fun s h => (eatDecimalDigits_wc (src := src) (N := N) n [] (ch '}' :: r1) s h (by simp)
      (head_not_digit (by decide))).mono (fun b s1 hp => (⟨by
        cases b
        · rfl
        · exact absurd rfl (hp.1.mp rfl), hp.2⟩ : b = false ∧ _))
    unfold eatBracedQuantifier
    rx5_autos
    case pos =>
      rename_i hc
      simp only [st_simp, Bool.not_false, Bool.true_and] at hc
      have := of_decide_eq_true hc
      have := satI_le (mvDec ds)
      omega
    rx5_fin
  | range m₁ m₂ _ ds₁ ds₂ hrun1 hrun2 hok =>
    obtain ⟨e1, hne1, hds1⟩ := hrun1
    obtain ⟨e2, hne2, hds2⟩ := hrun2
    subst e2
    have e1' : m = ds₁ ++ ch ',' :: (ds₂ ++ ch '}' :: r1) := e1
    subst e1'
    have hdd1 := fun s h => (eatDecimalDigits_wc (src := src) (N := N) n ds₁ (ch ',' :: (ds₂ ++ ch '}' :: r1)) s h hds1
      (head_not_digit (by decide))).mono (fun b s1 hp => (⟨hp.1.mpr hne1, hp.2⟩ : b = true ∧ _))
    have hdd2 := fun s h => (eatDecimalDigits_wc (src := src) (N := N) n ds₂ (ch '}' :: r1) s h hds2
      (head_not_digit (by decide))).mono (fun b s1 hp => (⟨hp.1.mpr hne2, hp.2⟩ : b = true ∧ _))
    unfold eatBracedQuantifier
    rx5_autos
    case pos =>
      rename_i hc
      simp only [st_simp, Bool.not_false, Bool.true_and] at hc
      have := of_decide_eq_true hc
      have hok' : satI (mvDec ds₁) ≤ satI (mvDec ds₂) := hok
      omega
    rx5_fin

theorem eatBracedQuantifier_wcn (n : Nat) (b : Bool) (r : List Nat) (s : St) (h : UAt src N r s)
    (hn : r.head? ≠ some (ch '{')) :
    Wc (eatBracedQuantifier n b s) (fun b s1 => b = false ∧ s1 = s) := by
  unfold eatBracedQuantifier
  rx5_autos
  exact ⟨rfl, rfl⟩

theorem consumeQuantifier_wcn (n : Nat) (b : Bool) (r : List Nat) (s : St) (h : UAt src N r s) (hn : NoQ r) :
    Wc (consumeQuantifier n b s) (fun b s1 => b = false ∧ s1 = s) := by
  obtain ⟨h1, h2, h3, h4⟩ := hn
  have hb := fun s (h : UAt src N r s) => eatBracedQuantifier_wcn (src := src) (N := N) n b r s h h4
  unfold consumeQuantifier
  rx5_autos
  exact ⟨rfl, rfl⟩

theorem consumeQuantifier_wc (n : Nat) (r r1 : List Nat) (s : St) (h : UAt src N r s)
    (hq : Quantifier qokSat r r1) (hf : r1.head? ≠ some (ch '?')) :
    Wc (consumeQuantifier n false s) (fun b s1 => b = true ∧ UAt src N r1 s1 ∧ KeepN s s1) := by
  cases hq with
  | greedy hp =>
    cases hp with
    | exact m _ ds hrun =>
      have hb := fun s h => eatBracedQuantifier_wc (src := src) (N := N) n m r1 s h (QuantifierPrefix.exact m r1 ds hrun)
      unfold consumeQuantifier
      rx5_autos
      all_goals rx5_fin
    | atLeast m _ ds hrun =>
      have hb := fun s h => eatBracedQuantifier_wc (src := src) (N := N) n m r1 s h (QuantifierPrefix.atLeast m r1 ds hrun)
      unfold consumeQuantifier
      rx5_autos
      all_goals rx5_fin
    | range m₁ m₂ _ ds₁ ds₂ h1 h2 hok =>
      have hb := fun s h => eatBracedQuantifier_wc (src := src) (N := N) n m₁ r1 s h
        (QuantifierPrefix.range m₁ m₂ r1 ds₁ ds₂ h1 h2 hok)
      unfold consumeQuantifier
      rx5_autos
      all_goals rx5_fin
    | _ =>
      unfold consumeQuantifier
      rx5_autos
      all_goals rx5_fin
  | lazy hp =>
    cases hp with
    | exact m _ ds hrun =>
      have hb := fun s h => eatBracedQuantifier_wc (src := src) (N := N) n m _ s h (QuantifierPrefix.exact m _ ds hrun)
      unfold consumeQuantifier
      rx5_autos
      all_goals rx5_fin
    | atLeast m _ ds hrun =>
      have hb := fun s h => eatBracedQuantifier_wc (src := src) (N := N) n m _ s h (QuantifierPrefix.atLeast m _ ds hrun)
      unfold consumeQuantifier
      rx5_autos
      all_goals rx5_fin
    | range m₁ m₂ _ ds₁ ds₂ h1 h2 hok =>
      have hb := fun s h => eatBracedQuantifier_wc (src := src) (N := N) n m₁ _ s h
        (QuantifierPrefix.range m₁ m₂ _ ds₁ ds₂ h1 h2 hok)
      unfold consumeQuantifier
      rx5_autos
      all_goals rx5_fin
    | _ =>
      unfold consumeQuantifier
      rx5_autos
      all_goals rx5_fin

theorem consumeOptionalQuantifier_wc (n : Nat) (r r1 : List Nat) (s : St) (h : UAt src N r s)
    (hq : Quantifier qokSat r r1) (hf : r1.head? ≠ some (ch '?')) :
    Wc (consumeOptionalQuantifier n s) (fun b s1 => b = true ∧ UAt src N r1 s1 ∧ KeepN s s1) := by
  unfold consumeOptionalQuantifier
  rx5_autos
  exact ⟨rfl, ‹UAt src N r1 _›, ‹KeepN s _›⟩

theorem consumeOptionalQuantifier_wcn (n : Nat) (r : List Nat) (s : St) (h : UAt src N r s) (hf : NoQ r) :
    Wc (consumeOptionalQuantifier n s) (fun b s1 => b = true ∧ s1 = s) := by
  have hq := fun s (h : UAt src N r s) => consumeQuantifier_wcn (src := src) (N := N) n false r s h hf
  unfold consumeOptionalQuantifier
  rx5_autos
  exact ⟨rfl, rfl⟩

end DL.Rx
