import DL.Lemmas.RxIndLeaves

/-! # History independence: the `eat_*` leaves (second part) -/
namespace DL.Rx
attribute [local irreducible] isScalar
variable {c : Bool}
set_option linter.unusedSimpArgs false

theorem I.eatHexDigitsLoop (W : RegSet) : ∀ n, Ind c (ins .int W) (eatHexDigitsLoop n) (fun _ => ins .int W)
  | 0 => by unfold DL.Rx.eatHexDigitsLoop; rx2_auto
  | n + 1 => by
    have ih := I.eatHexDigitsLoop W n
    unfold DL.Rx.eatHexDigitsLoop; rx2_auto

theorem I.eatHexDigits (W : RegSet) (n : Nat) : Ind c W (eatHexDigits n) (fun _ => ins .int W) := by
  unfold DL.Rx.eatHexDigits; rx2_auto

theorem I.eatDecimalDigitsLoop (W : RegSet) : ∀ n, Ind c (ins .int W) (eatDecimalDigitsLoop n) (fun _ => ins .int W)
  | 0 => by unfold DL.Rx.eatDecimalDigitsLoop; rx2_auto
  | n + 1 => by
    have ih := I.eatDecimalDigitsLoop W n
    unfold DL.Rx.eatDecimalDigitsLoop; rx2_auto

theorem I.eatDecimalDigits (W : RegSet) (n : Nat) : Ind c W (eatDecimalDigits n) (fun _ => ins .int W) := by
  unfold DL.Rx.eatDecimalDigits; rx2_auto

theorem I.eatHexEscapeSequence (W : RegSet) : Ind c W eatHexEscapeSequence (fun b => insIf b .int W) := by
  unfold DL.Rx.eatHexEscapeSequence; rx2_auto

theorem I.eatPropertyCharsLoop (W : RegSet) (p : Nat → Bool) (site : String) :
    ∀ n, Ind c (ins .str W) (eatPropertyCharsLoop p site n) (fun _ => ins .str W)
  | 0 => by unfold DL.Rx.eatPropertyCharsLoop; rx2_auto
  | n + 1 => by
    have ih := I.eatPropertyCharsLoop W p site n
    unfold DL.Rx.eatPropertyCharsLoop; rx2_auto

theorem I.eatUnicodePropertyName (W : RegSet) (n : Nat) : Ind c W (eatUnicodePropertyName n) (fun _ => ins .str W) := by
  unfold DL.Rx.eatUnicodePropertyName; rx2_auto

theorem I.eatUnicodePropertyValue (W : RegSet) (n : Nat) : Ind c W (eatUnicodePropertyValue n) (fun _ => ins .str W) := by
  unfold DL.Rx.eatUnicodePropertyValue; rx2_auto

theorem I.eatLoneUnicodePropertyNameOrValue (W : RegSet) (n : Nat) :
    Ind c W (eatLoneUnicodePropertyNameOrValue n) (fun _ => ins .str W) := I.eatUnicodePropertyValue W n

theorem I.eatUnicodePropertyValueExpression (W : RegSet) (n : Nat) :
    Ind c W (eatUnicodePropertyValueExpression n) (fun _ => W) := by
  unfold DL.Rx.eatUnicodePropertyValueExpression; rx2_auto

theorem I.eatDecimalEscapeLoop (W : RegSet) : ∀ n, Ind c (ins .int W) (eatDecimalEscapeLoop n) (fun _ => ins .int W)
  | 0 => by unfold DL.Rx.eatDecimalEscapeLoop; rx2_auto
  | n + 1 => by
    have ih := I.eatDecimalEscapeLoop W n
    unfold DL.Rx.eatDecimalEscapeLoop; rx2_auto

theorem I.eatDecimalEscape (W : RegSet) (n : Nat) : Ind c W (eatDecimalEscape n) (fun _ => ins .int W) := by
  unfold DL.Rx.eatDecimalEscape; rx2_auto

theorem I.isValidIdentityEscape (W : RegSet) (cp : Nat) : Ind c W (isValidIdentityEscape cp) (fun _ => W) := by
  unfold DL.Rx.isValidIdentityEscape; rx2_auto

theorem I.eatIdentityEscape (W : RegSet) : Ind c W eatIdentityEscape (fun b => insIf b .int W) := by
  unfold DL.Rx.eatIdentityEscape; rx2_auto

end DL.Rx
