import DL.Lemmas.RxBLex1
import DL.Lemmas.RxSpecUni

/-! # Annex B (no `u` flag): escapes -/
namespace DL.Rx
open DL.RxSpec

attribute [local irreducible] isScalar
variable {src : List Nat} {K : Bool × Nat}

/-- `\u…`: with `force_u_flag` (inside a group name) the Unicode-mode escapes, otherwise `u` and four hex digits only -/
theorem eatRegexpUnicodeEscapeSequence_wb (n : Nat) (f : Bool) (r : List Nat) (s : St) (h : BAt src K r s) :
    Wp (eatRegexpUnicodeEscapeSequence n f s) (fun b s1 => Keep s s1 ∧
      if b = true then ∃ r1 v, BAt src K r1 s1 ∧
        (if f = true then RegExpUnicodeEscapeSequence r r1 v else ∃ m, r = ch 'u' :: m ∧ Hex4Digits m r1 v) ∧
        s1.lastIntValue = (v : Nat)
      else BAt src K r s1 ∧ (f = false → ¬∃ m r' v, r = ch 'u' :: m ∧ Hex4Digits m r' v)) := by
  cases f with
  | true =>
    unfold eatRegexpUnicodeEscapeSequence
    rx6_auto
    all_goals (try (rx6_falsen; exact fun h => nomatch h))
    · -- `u{ CodePoint }`
      rename_i m hat0 s1 hk1 hat1 hnp s2 hk2 hat2 hn4 s3 hk3 ds r1 hm hne hds hle hat3 hv
      rx6_true
      refine ⟨r1, mvHex ds, hat3, ?_, hv⟩
      rw [hm]
      exact RegExpUnicodeEscapeSequence.codePoint _ r1 ds ⟨rfl, hne, hds⟩ hle
    · -- four digits, not the first half of a pair
      rename_i m hat0 s1 hk1 hat1 hnp s2 hk2 ds r1 hm hlen hds hat2 hv
      rx6_true
      refine ⟨r1, mvHex ds, hat2, ?_, hv⟩
      have h4 := hex4_of hm hlen hds
      by_cases hL : isLead (mvHex ds)
      · refine RegExpUnicodeEscapeSequence.lead m r1 _ h4 hL ?_
        rintro ⟨m', r', t, hr1, ⟨a, b, c', d, hm', ha, hb, hc, hd, ht⟩, hT⟩
        refine hnp ⟨r', mvHex ds, t, ds, [a, b, c', d], ?_, hlen, rfl, hds, ?_, rfl, ht, hL, hT⟩
        · rw [hm, hr1, hm']; rfl
        · intro x hx
          simp only [List.mem_cons, List.not_mem_nil, or_false] at hx
          rcases hx with rfl | rfl | rfl | rfl <;> assumption
      · exact RegExpUnicodeEscapeSequence.nonLead m r1 _ h4 hL
    · -- a surrogate pair
      rename_i m hat0 s1 hk1 r1 lead trail hp hat1 hv
      rx6_true
      refine ⟨r1, _, hat1, ?_, hv⟩
      obtain ⟨ds1, ds2, hm, l1, l2, hd1, hd2, hl, ht, hL, hT⟩ := hp
      subst hl ht
      exact RegExpUnicodeEscapeSequence.surrogatePair m (ds2 ++ r1) r1 _ _ (hex4_of hm l1 hd1) hL (hex4_of rfl l2 hd2) hT
  | false =>
    unfold eatRegexpUnicodeEscapeSequence
    rx6_auto
    · rx6_falsen
      rename_i m _ _ _ _ hno _
      rintro _ ⟨m', r', v, e, a, b, c', d, e2, ha, hb, hc, hd, _⟩
      have e' : m = m' := (List.cons.inj e).2
      subst e'
      refine hno ⟨[a, b, c', d], r', e2, rfl, ?_⟩
      intro x hx
      simp only [List.mem_cons, List.not_mem_nil, or_false] at hx
      rcases hx with rfl | rfl | rfl | rfl <;> assumption
    · rename_i m hat0 s1 hk1 ds r1 hm hlen hds hat1 hv
      rx6_true
      exact ⟨r1, mvHex ds, hat1, ⟨m, rfl, hex4_of hm hlen hds⟩, hv⟩
    · rx6_falsen
      rename_i hne
      rintro _ ⟨m', r', v, e, _⟩
      exact hne (by rw [e]; rfl)

end DL.Rx
