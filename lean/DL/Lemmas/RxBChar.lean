import DL.Lemmas.RxBEsc
import DL.Lemmas.RxSpecChar

/-! # Annex B (no `u` flag): `CharacterEscape[~U, N]` -/
namespace DL.Rx
open DL.RxSpec

attribute [local irreducible] isScalar
variable {src : List Nat} {K : Bool × Nat}

theorem ne_of_head_ne' {x y : Nat} {m : List Nat} (h : (x :: m).head? ≠ some y) : x ≠ y := by
  intro he; exact h (by rw [he]; rfl)

theorem eatControlEscape_wb (r : List Nat) (s : St) (h : BAt src K r s) :
    Wp (eatControlEscape s) (fun b s1 => Keep s s1 ∧
      if b = true then ∃ r1 v, BAt src K r1 s1 ∧ RxSpecB.CharacterEscape K.1 r r1 v ∧ s1.lastIntValue = (v : Nat)
      else BAt src K r s1 ∧ ∀ x, r.head? = some x → x ∉ [c 'f', c 'n', c 'r', c 't', c 'v']) := by
  unfold eatControlEscape
  rx6_auto
  · rx6_true; exact ⟨_, 12, by rx6_at, RxSpecB.CharacterEscape.f _, rfl⟩
  · rx6_true; exact ⟨_, 10, by rx6_at, RxSpecB.CharacterEscape.n _, rfl⟩
  · rx6_true; exact ⟨_, 13, by rx6_at, RxSpecB.CharacterEscape.r _, rfl⟩
  · rx6_true; exact ⟨_, 9, by rx6_at, RxSpecB.CharacterEscape.t _, rfl⟩
  · rx6_true; exact ⟨_, 11, by rx6_at, RxSpecB.CharacterEscape.v _, rfl⟩
  · rx6_falsen
    rename_i h1 h2 h3 h4 h5
    intro x hx
    cases r with
    | nil => cases hx
    | cons y m =>
      cases hx
      simp only [List.mem_cons, List.not_mem_nil, or_false, not_or]
      exact ⟨ne_of_head_ne' h1, ne_of_head_ne' h2, ne_of_head_ne' h3, ne_of_head_ne' h4, ne_of_head_ne' h5⟩

theorem eatControlLetter_wb (r : List Nat) (s : St) (h : BAt src K r s) :
    Wp (eatControlLetter s) (fun b s1 => Keep s s1 ∧
      if b = true then ∃ l r1, r = l :: r1 ∧ ControlLetter l ∧ BAt src K r1 s1 ∧ s1.lastIntValue = ((l % 32 : Nat) : Int)
      else BAt src K r s1 ∧ ∀ l, r.head? = some l → ¬ControlLetter l) := by
  unfold eatControlLetter
  rx6_auto
  · rx6_falsen
    rename_i l r1 hn
    intro x hx hl
    cases hx
    exact hn (isAsciiAlphabetic_of_controlLetter hl)
  · rename_i l r1 hc hat
    rx6_true
    exact ⟨l, r1, rfl, controlLetter_of_isAsciiAlphabetic hc, by rx6_at, by st_norm; omega⟩
  · rx6_falsen
    exact fun l hl => nomatch hl

theorem eatCControlLetter_wb (r : List Nat) (s : St) (h : BAt src K r s) :
    Wp (eatCControlLetter s) (fun b s1 => Keep s s1 ∧
      if b = true then ∃ r1 v, BAt src K r1 s1 ∧ RxSpecB.CharacterEscape K.1 r r1 v ∧ s1.lastIntValue = (v : Nat)
      else BAt src K r s1 ∧ ¬∃ l r', r = c 'c' :: l :: r' ∧ ControlLetter l) := by
  unfold eatCControlLetter
  rx6_auto
  · rx6_falsen
    rename_i m _ _ _ _ hno _
    rintro ⟨l, r', e, hl⟩
    have e' : m = l :: r' := (List.cons.inj e).2
    exact hno l (by rw [e']; rfl) hl
  · rename_i m hat0 s1 hk l r1 hm hl hat1 hv
    rx6_true
    exact ⟨r1, l % 32, hat1, by rw [hm]; exact RxSpecB.CharacterEscape.controlLetter l r1 hl, hv⟩
  · rx6_falsen
    rename_i hne
    rintro ⟨l, r', e, _⟩
    exact hne (by rw [e]; rfl)

theorem eatZero_wb (r : List Nat) (s : St) (h : BAt src K r s) :
    Wp (eatZero s) (fun b s1 => Keep s s1 ∧
      if b = true then ∃ r1 v, BAt src K r1 s1 ∧ RxSpecB.CharacterEscape K.1 r r1 v ∧ s1.lastIntValue = (v : Nat)
      else BAt src K r s1) := by
  unfold eatZero
  rx6_auto
  all_goals (try rx6_false)
  rename_i x r' hx hn hat
  have hx0 : x = ch '0' := by simpa using hx
  subst hx0
  rx6_true
  refine ⟨r', 0, by rx6_at, RxSpecB.CharacterEscape.zero _ ?_, rfl⟩
  intro d hd hdd
  apply hn
  cases r' with
  | nil => cases hd
  | cons y r'' =>
    cases hd
    exact isAsciiDigit_of_decimalDigit hdd

theorem eatHexEscapeSequence_wb (r : List Nat) (s : St) (h : BAt src K r s) :
    Wp (eatHexEscapeSequence s) (fun b s1 => Keep s s1 ∧
      if b = true then ∃ r1 v, BAt src K r1 s1 ∧ RxSpecB.CharacterEscape K.1 r r1 v ∧ s1.lastIntValue = (v : Nat)
      else BAt src K r s1 ∧ ¬∃ a b r', r = c 'x' :: a :: b :: r' ∧ HexDigit a ∧ HexDigit b) := by
  unfold eatHexEscapeSequence
  rx6_auto
  · rx6_falsen
    rename_i m _ _ _ _ hno _
    rintro ⟨a, b, r', e, ha, hb⟩
    have e' : m = a :: b :: r' := (List.cons.inj e).2
    refine hno ⟨[a, b], r', e', rfl, ?_⟩
    intro d hd
    simp only [List.mem_cons, List.not_mem_nil, or_false] at hd
    rcases hd with rfl | rfl <;> assumption
  · rename_i m hat0 s1 hk ds r1 hm hlen hds hat1 hv
    rx6_true
    rcases ds with _ | ⟨a, _ | ⟨b, _ | ⟨e, t⟩⟩⟩ <;> simp at hlen
    refine ⟨r1, mvHex [a, b], hat1, ?_, hv⟩
    rw [hm]
    exact RxSpecB.CharacterEscape.hex a b r1 (hds a (by simp)) (hds b (by simp))
  · rx6_falsen
    rename_i hne
    rintro ⟨a, b, r', e, _⟩
    exact hne (by rw [e]; rfl)

theorem BAt.mem_src {r : List Nat} {s : St} (h : BAt src K r s) {x : Nat} (hx : x ∈ r) : x ∈ src := by
  rw [← h.rest] at hx
  exact List.mem_of_mem_drop hx

/-- `eat_identity_escape` alone: any unit other than `c` (and `k` with named groups) -/
theorem eatIdentityEscape_wb (hsrc : ∀ x ∈ src, x ≤ 0xFFFF) (r : List Nat) (s : St) (h : BAt src K r s) :
    Wp (eatIdentityEscape s) (fun b s1 => Keep s s1 ∧
      if b = true then ∃ x r1, r = x :: r1 ∧ RxSpecB.SourceCharacter x ∧ x ≠ c 'c' ∧ (K.1 = true → x ≠ c 'k') ∧
        BAt src K r1 s1 ∧ s1.lastIntValue = (x : Nat)
      else BAt src K r s1 ∧ ∀ x, r.head? = some x → x = c 'c' ∨ (K.1 = true ∧ x = c 'k')) := by
  unfold eatIdentityEscape isValidIdentityEscape
  rx6_auto
  · rx6_falsen
    rename_i x r1 hn hc
    intro y hy; cases hy
    exact .inl (by simpa using hc)
  · rename_i x r1 hn hc hat
    rx6_true
    exact ⟨x, r1, rfl, hsrc x (h.mem_src (by simp)), by simpa using hc, fun hk => absurd (h.nFlag'.trans hk) hn,
      by rx6_at, rfl⟩
  · rx6_falsen
    rename_i x r1 hnf hc
    intro y hy; cases hy
    have hc0 : ¬x = ch 'c' → x = ch 'k' := by simpa using hc
    have hc' : x = ch 'c' ∨ x = ch 'k' := by
      by_cases e : x = ch 'c'
      · exact .inl e
      · exact .inr (hc0 e)
    rcases hc' with e | e
    · exact .inl e
    · exact .inr ⟨h.nFlag'.symm.trans hnf, e⟩
  · rename_i x r1 hnf hc hat
    rx6_true
    have hc' : x ≠ ch 'c' ∧ x ≠ ch 'k' := by simpa using hc
    exact ⟨x, r1, rfl, hsrc x (h.mem_src (by simp)), hc'.1, fun _ => hc'.2, by rx6_at, rfl⟩
  · rx6_falsen
    exact fun x hx => nomatch hx

end DL.Rx
