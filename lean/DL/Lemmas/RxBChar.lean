import DL.Lemmas.RxBEsc
import DL.Lemmas.RxSpecChar

/-! # Annex B (no `u` flag): `CharacterEscape[~U, N]` -/
namespace DL.Rx
open DL.RxSpec

attribute [local irreducible] isScalar
variable {src : List Nat} {K : Bool × Nat}

theorem eatControlEscape_wb (r : List Nat) (s : St) (h : BAt src K r s) :
    Wp (eatControlEscape s) (fun b s1 => Keep s s1 ∧
      if b = true then ∃ r1 v, BAt src K r1 s1 ∧ RxSpecB.CharacterEscape K.1 r r1 v ∧ s1.lastIntValue = (v : Nat)
      else BAt src K r s1) := by
  unfold eatControlEscape
  rx6_auto
  all_goals (try rx6_false)
  all_goals rx6_true
  · exact ⟨_, 12, by rx6_at, RxSpecB.CharacterEscape.f _, rfl⟩
  · exact ⟨_, 10, by rx6_at, RxSpecB.CharacterEscape.n _, rfl⟩
  · exact ⟨_, 13, by rx6_at, RxSpecB.CharacterEscape.r _, rfl⟩
  · exact ⟨_, 9, by rx6_at, RxSpecB.CharacterEscape.t _, rfl⟩
  · exact ⟨_, 11, by rx6_at, RxSpecB.CharacterEscape.v _, rfl⟩

theorem eatControlLetter_wb (r : List Nat) (s : St) (h : BAt src K r s) :
    Wp (eatControlLetter s) (fun b s1 => Keep s s1 ∧
      if b = true then ∃ l r1, r = l :: r1 ∧ ControlLetter l ∧ BAt src K r1 s1 ∧ s1.lastIntValue = ((l % 32 : Nat) : Int)
      else BAt src K r s1) := by
  unfold eatControlLetter
  rx6_auto
  all_goals (try rx6_false)
  rename_i l r1 hc hat
  rx6_true
  exact ⟨l, r1, rfl, controlLetter_of_isAsciiAlphabetic hc, by rx6_at, by st_norm; omega⟩

theorem eatCControlLetter_wb (r : List Nat) (s : St) (h : BAt src K r s) :
    Wp (eatCControlLetter s) (fun b s1 => Keep s s1 ∧
      if b = true then ∃ r1 v, BAt src K r1 s1 ∧ RxSpecB.CharacterEscape K.1 r r1 v ∧ s1.lastIntValue = (v : Nat)
      else BAt src K r s1) := by
  unfold eatCControlLetter
  rx6_auto
  all_goals (try rx6_false)
  rename_i m hat0 s1 hk l r1 hm hl hat1 hv
  rx6_true
  exact ⟨r1, l % 32, hat1, by rw [hm]; exact RxSpecB.CharacterEscape.controlLetter l r1 hl, hv⟩

theorem eatZero_wb (r : List Nat) (s : St) (h : BAt src K r s) :
    Wp (eatZero s) (fun b s1 => Keep s s1 ∧
      if b = true then ∃ r1 v, BAt src K r1 s1 ∧ RxSpecB.CharacterEscape K.1 r r1 v ∧ s1.lastIntValue = (v : Nat)
      else BAt src K r s1) := by
  unfold eatZero
  rx6_auto
  all_goals (try rx6_false)
  rename_i x r' hx hn hat
  have hx0 : x = ch '0' := by simpa using hx
  subst hx0
  rx6_true
  refine ⟨r', 0, by rx6_at, RxSpecB.CharacterEscape.zero _ ?_, rfl⟩
  intro d hd hdd
  apply hn
  cases r' with
  | nil => cases hd
  | cons y r'' =>
    cases hd
    exact isAsciiDigit_of_decimalDigit hdd

theorem eatHexEscapeSequence_wb (r : List Nat) (s : St) (h : BAt src K r s) :
    Wp (eatHexEscapeSequence s) (fun b s1 => Keep s s1 ∧
      if b = true then ∃ r1 v, BAt src K r1 s1 ∧ RxSpecB.CharacterEscape K.1 r r1 v ∧ s1.lastIntValue = (v : Nat)
      else BAt src K r s1) := by
  unfold eatHexEscapeSequence
  rx6_auto
  all_goals (try rx6_false)
  rename_i m hat0 s1 hk ds r1 hm hlen hds hat1 hv
  rx6_true
  rcases ds with _ | ⟨a, _ | ⟨b, _ | ⟨e, t⟩⟩⟩ <;> simp at hlen
  refine ⟨r1, mvHex [a, b], hat1, ?_, hv⟩
  rw [hm]
  exact RxSpecB.CharacterEscape.hex a b r1 (hds a (by simp)) (hds b (by simp))

theorem BAt.mem_src {r : List Nat} {s : St} (h : BAt src K r s) {x : Nat} (hx : x ∈ r) : x ∈ src := by
  rw [← h.rest] at hx
  exact List.mem_of_mem_drop hx

theorem eatIdentityEscape_wb (hsrc : ∀ x ∈ src, x ≤ 0xFFFF) (r : List Nat) (s : St) (h : BAt src K r s) :
    Wp (eatIdentityEscape s) (fun b s1 => Keep s s1 ∧
      if b = true then ∃ r1 v, BAt src K r1 s1 ∧ RxSpecB.CharacterEscape K.1 r r1 v ∧ s1.lastIntValue = (v : Nat)
      else BAt src K r s1) := by
  unfold eatIdentityEscape isValidIdentityEscape
  rx6_auto
  all_goals (try rx6_false)
  · rename_i x r1 hn hc hat
    rx6_true
    refine ⟨r1, x, by rx6_at, RxSpecB.CharacterEscape.identity x r1 (hsrc x (h.mem_src (by simp))) (by simpa using hc)
      (fun hk => absurd (h.nFlag'.trans hk) hn), rfl⟩
  · rename_i x r1 hnf hc hat
    rx6_true
    have hc' : x ≠ ch 'c' ∧ x ≠ ch 'k' := by simpa using hc
    exact ⟨r1, x, by rx6_at, RxSpecB.CharacterEscape.identity x r1 (hsrc x (h.mem_src (by simp))) hc'.1 (fun _ => hc'.2), rfl⟩

end DL.Rx
