import DL.Lemmas.RxLeaves2

/-!
# Group names: the two `char::from_u32(self.last_int_value as u32).unwrap()` (`validator.rs:964-965`, `970`)

`eat_regexp_identifier_start/part` return `true` only after `is_regexp_identifier_start/part(cp)` answered `true` and
`last_int_value = cp` was stored; such a `cp` is `$`, `_`, ZWNJ, ZWJ, ASCII, or inside a range of the ID_Start /
ID_Continue tables, none of which touches the surrogates or exceeds `0x10FFFF`.
-/
namespace DL.Rx
attribute [local irreducible] isScalar

/-- postcondition of `eat_regexp_identifier_start/part`: on `true`, `last_int_value as u32` is a `char` -/
def NamePost (b : Bool) (s : St) : Prop := Inv s ∧ (b = true → IsChar (i64AsU32 s.lastIntValue))

theorem i64AsU32_of_isChar {c : Nat} (h : IsChar c) : i64AsU32 (c : Int) = c := by
  unfold IsChar toChar at h
  have hlt : c < 0x110000 := by
    by_cases hc : c < 0xD800 ∨ (0xE000 ≤ c ∧ c < 0x110000)
    · omega
    · rw [if_neg hc] at h; cases h
  unfold i64AsU32
  omega

theorem Safe.bindK {α β : Type} {I : St → Prop} {Q : β → St → Prop} {m : M α} {f : α → M β}
    (hm : Keeps I m) (hf : ∀ a, Safe I (f a) Q) : Safe I (m >>= f) Q := Safe.bind hm hf

/-- `if test(cp) { last_int_value = cp; true } else { false }` -/
theorem hit_safe (test : Nat → M Bool) (ht : ∀ c, Tests (test c) (IsChar c)) (c : Nat) :
    Safe Inv (do if ← test c then do setInt c; pure true else pure false : M Bool) NamePost := by
  refine Safe.bind (ht c).safe fun b => ?_
  refine Safe.ite (fun _ => ?_) (fun _ => Safe.pure fun s h => ⟨h.1, fun h => by cases h⟩)
  refine Safe.bind (R := fun _ s => Inv s ∧ (b = true → IsChar c) ∧ s.lastIntValue = c)
    (Safe.modSt fun s hs => ⟨hs.1, hs.2, rfl⟩) fun _ => ?_
  refine Safe.pure fun s hs => ⟨hs.1, fun _ => ?_⟩
  rw [hs.2.2, i64AsU32_of_isChar (hs.2.1 ‹_›)]
  exact hs.2.1 ‹_›

/-- the common tail: `if hit { true } else { if index != start { rewind(start) }; false }` -/
theorem tail_safe (start : Nat) (hit : Bool) :
    Safe (NamePost hit) (if hit = true then pure true else do
      if (← index) != start then rewind start
      pure false : M Bool) NamePost := by
  refine Safe.ite (fun hh => Safe.pure fun s hs => ⟨hs.1, fun _ => hs.2 hh⟩) fun _ => ?_
  refine Safe.pre (P := Inv) ?_ (fun _ h => h.1)
  have hf : Safe Inv (pure false : M Bool) NamePost := Safe.pure fun s h => ⟨h, fun h => by cases h⟩
  refine Safe.bindK OK.index fun _ => ?_
  dsimp only
  exact Safe.ite (fun _ => Safe.bindK (OK.rewind _) fun _ => hf) (fun _ => hf)

theorem eatRegexpIdentifierPart_safe (fuel : Nat) : Safe Inv (eatRegexpIdentifierPart fuel) NamePost := by
  unfold eatRegexpIdentifierPart
  refine Safe.bindK OK.index fun start => ?_
  refine Safe.bindK Keeps.getSt fun s0 => ?_
  dsimp only
  refine Safe.bindK (OK.codePointWithOffset 0) fun cp0 => ?_
  refine Safe.bindK OK.advance fun _ => ?_
  refine Safe.bindK (OK.codePointWithOffset 0) fun cp1 => ?_
  refine Safe.bindK ?_ fun cp => ?_
  · rx_auto
  refine Safe.bind (R := NamePost) ?_ fun hit => tail_safe start hit
  cases cp with
  | none => exact Safe.pure fun s h => ⟨h, fun h => by cases h⟩
  | some c => exact hit_safe _ isRegexpIdentifierPart_tests c

theorem eatRegexpIdentifierStart_safe (fuel : Nat) : Safe Inv (eatRegexpIdentifierStart fuel) NamePost := by
  unfold eatRegexpIdentifierStart
  refine Safe.bindK OK.index fun start => ?_
  refine Safe.bindK Keeps.getSt fun s0 => ?_
  dsimp only
  refine Safe.bind (R := NamePost) ?_ fun hit => tail_safe start hit
  refine Safe.bindK (OK.codePointWithOffset 0) fun cp0 => ?_
  cases cp0 with
  | none => exact Safe.pure fun s h => ⟨h, fun h => by cases h⟩
  | some c0 =>
    dsimp only
    refine Safe.bindK OK.advance fun _ => ?_
    refine Safe.bindK (OK.codePointWithOffset 0) fun cp1 => ?_
    refine Safe.bindK ?_ fun cp => hit_safe _ isRegexpIdentifierStart_tests cp
    rx_auto

theorem OK.eatRegexpIdentifierPart (fuel : Nat) : OK (eatRegexpIdentifierPart fuel) :=
  (eatRegexpIdentifierPart_safe fuel).post fun _ _ h => h.1
theorem OK.eatRegexpIdentifierStart (fuel : Nat) : OK (eatRegexpIdentifierStart fuel) :=
  (eatRegexpIdentifierStart_safe fuel).post fun _ _ h => h.1

/-- what follows a successful `eat_regexp_identifier_start/part`: `char::from_u32(last_int_value as u32).unwrap()` -/
theorem after_name_safe {β : Type} (why : String) (k : Nat → M β) (hk : ∀ c, OK (k c)) :
    Safe (NamePost true) (do
      let c ← unwrap (toChar (i64AsU32 (← getSt).lastIntValue)) why
      k c) (fun _ => Inv) := by
  refine Safe.bind_getSt fun s0 hs0 => ?_
  refine Safe.pre (P := Inv) ?_ (fun s hs => hs ▸ hs0.1)
  exact Keeps.bind (Keeps.unwrap (hs0.2 rfl)) hk

theorem OK.eatRegexpIdentifierNameLoop : ∀ n, OK (eatRegexpIdentifierNameLoop n)
  | 0 => Keeps.outOfFuel
  | n + 1 => by
    have ih := OK.eatRegexpIdentifierNameLoop n
    unfold DL.Rx.eatRegexpIdentifierNameLoop
    refine Safe.bind (eatRegexpIdentifierPart_safe n) fun b => ?_
    refine Safe.ite (fun hb => ?_) (fun _ => Safe.pure fun _ h => h.1)
    subst hb
    refine after_name_safe _ _ fun c => ?_
    rx_auto

theorem OK.eatRegexpIdentifierName (fuel : Nat) : OK (eatRegexpIdentifierName fuel) := by
  have ih := OK.eatRegexpIdentifierNameLoop fuel
  unfold DL.Rx.eatRegexpIdentifierName
  refine Safe.bind (eatRegexpIdentifierStart_safe fuel) fun b => ?_
  refine Safe.ite (fun hb => ?_) (fun _ => Safe.pure fun _ h => h.1)
  subst hb
  refine after_name_safe _ _ fun c => ?_
  rx_auto
macro_rules | `(tactic| rx_known) => `(tactic| exact OK.eatRegexpIdentifierName _)

theorem OK.eatGroupName (fuel : Nat) : OK (eatGroupName fuel) := by
  unfold DL.Rx.eatGroupName; rx_auto
macro_rules | `(tactic| rx_known) => `(tactic| exact OK.eatGroupName _)

end DL.Rx
