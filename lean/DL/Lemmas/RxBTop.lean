import DL.Lemmas.RxBMutual
import DL.Lemmas.RxSpecTop

/-! # Annex B (no `u` flag): `consume_pattern`, `validate_pattern` -/
namespace DL.Rx
open DL.RxSpec DL.Gen.Unicode
attribute [local irreducible] isScalar
variable {src : List Nat} {K : Bool × Nat}

theorem countCapturingParensLoop_wb : ∀ (n : Nat) (ic esc : Bool) (k : Nat) (r : List Nat) (s : St), BAt src K r s →
    Wp (countCapturingParensLoop n ic esc k s) (fun v s1 => v = scan r ic esc k ∧ ∃ r1, BAt src K r1 s1 ∧ KeepN s s1 ∧
      s1.lastIntValue = s.lastIntValue ∧ s1.numCapturingParens = s.numCapturingParens)
  | 0, _, _, _, _, _, _ => Wp.outOfFuel
  | n + 1, ic, esc, k, r, s, h => by
    have ih := countCapturingParensLoop_wb n
    unfold countCapturingParensLoop
    rx6_auto
    all_goals (try (
      rename_i v s1 hv r1 hat1 hk hint hncp
      subst hv
      refine ⟨?_, r1, hat1, by rx6_keep, by rw [hint]; rfl, by rw [hncp]; rfl⟩
      (simp [scan, *]; done)))
    · rename_i x r' hn1 hn2 hn3 hn4 _ v s1 hv r1 hat1 hk hint hncp
      subst hv
      refine ⟨?_, r1, hat1, by rx6_keep, by rw [hint]; rfl, by rw [hncp]; rfl⟩
      simp only [scan, Bool.false_eq_true, if_false]
      rw [if_neg hn1, if_neg hn2, if_neg hn3, if_neg]
      exact hn4
    · rename_i x r' hn1 hn2 hn3 hc _ v s1 hv r1 hat1 hk hint hncp
      subst hv
      refine ⟨?_, r1, hat1, by rx6_keep, by rw [hint]; rfl, by rw [hncp]; rfl⟩
      simp only [scan, Bool.false_eq_true, if_false]
      rw [if_neg hn1, if_neg hn2, if_neg hn3, if_pos]
      exact hc
    · exact ⟨by cases ic <;> cases esc <;> rfl, [], h, KeepN.refl s, rfl, rfl⟩

theorem countCapturingParens_wb (n : Nat) (r : List Nat) (s : St) (h : BAt src K r s) :
    Wp (countCapturingParens n s) (fun v s1 => v = scan r false false 0 ∧ BAt src K r s1 ∧ KeepN s s1) := by
  unfold countCapturingParens
  rx6_auto
  rename_i v s1 hv r1 hat1 hk hint hncp hat2
  exact ⟨hv, hat2, by rx6_keep⟩

theorem consumePattern_wb (hsrc : ∀ x ∈ src, x ≤ 0xFFFF) (hlen : src.length < 2 ^ 62) (n : Nat) (r : List Nat)
    (s : St) (h : BAt src K r s) :
    Wp (consumePattern n s) (fun _ s1 => BAt src (K.1, scan r false false 0) [] s1 ∧
      ∃ a : Attr, s1.groupNames = groupNames a.groups ∧
      RxSpecB.Derives K.1 qokSat (scan r false false 0) .Disjunction r [] a ∧
      (groupNames a.groups).Nodup ∧ ∀ x ∈ a.refs, x ∈ groupNames a.groups) := by
  have hrl : r.length ≤ src.length := by
    rw [← h.rest, List.length_drop]; omega
  have hN : scan r false false 0 < 2 ^ 62 := by
    have := scan_le r false false 0; omega
  have hall := allSpecB (src := src) (K := (K.1, scan r false false 0)) hN hsrc n
  have hd := hall.disjunction
  unfold consumePattern
  rx6_step
  with_reducible refine Wp.bind_modSt ?_
  rename_i v s1 hv hat1 hk1
  subst hv
  have hat2 : BAt src (K.1, scan r false false 0) r
      { s1 with numCapturingParens := scan r false false 0, groupNames := [], backreferenceNames := [] } :=
    ⟨hat1.1, hat1.2.1, hat1.2.2.1, hat1.2.2.2.1, hat1.2.2.2.2.1, rfl⟩
  refine Wp.call (hd r _ hat2) (fun _ s2 hpost => ?_)
  obtain ⟨r1, a, hat3, hder, htr⟩ := hpost
  rx6_auto
  rename_i hfind
  have hgn : s2.groupNames = groupNames a.groups := by
    have := htr.gn
    rw [this]; exact List.nil_append _
  refine ⟨hat3, a, hgn, hder, ?_, ?_⟩
  · have := htr.nodup List.nodup_nil
    rw [hgn] at this
    exact this
  · intro x hx
    have hx1 := htr.refs x hx
    have hnone := List.find?_eq_none.mp hfind x hx1
    have hc : s2.groupNames.contains x = true := by simpa using hnone
    have := List.contains_iff_mem.mp hc
    rw [hgn] at this
    exact this

/-- soundness of `validate_pattern` without the `u` flag, with the model's own count of capturing groups:
the `[~N]` parse, and the `[+N]` parse if there is a named group -/
theorem validatePattern_soundB_scan (fuel : Nat) (source : List Nat) (st s' : St)
    (hsrc : ∀ x ∈ encodeUtf16 source, x ≤ 0xFFFF) (hlen : (encodeUtf16 source).length < 2 ^ 62)
    (h : validatePattern fuel source false st = .ok () s') :
    ∃ a₀ : Attr, RxSpecB.Derives false qokSat (scan (encodeUtf16 source) false false 0) .Disjunction
        (encodeUtf16 source) [] a₀ ∧
      (groupNames a₀.groups).Nodup ∧ (∀ x ∈ a₀.refs, x ∈ groupNames a₀.groups) ∧
      (groupNames a₀.groups ≠ [] → ∃ a₁ : Attr,
        RxSpecB.Derives true qokSat (scan (encodeUtf16 source) false false 0) .Disjunction (encodeUtf16 source) [] a₁ ∧
        (groupNames a₁.groups).Nodup ∧ ∀ x ∈ a₁.refs, x ∈ groupNames a₁.groups) := by
  rw [validatePattern_eq] at h
  have hstat : RStatic (encodeUtf16 source) (prep source false st).reader := ⟨rfl, rfl⟩
  have hrw := rewindLoop_eq (src := encodeUtf16 source) 0 (prep source false st) hstat 4 0 rfl (Nat.zero_le _)
  have hat : BAt (encodeUtf16 source) (false, st.numCapturingParens) (encodeUtf16 source)
      ((prep source false st).setPos (encodeUtf16 source) 0) :=
    ⟨RInv.setPos hstat (Nat.zero_le _), rfl, rfl, rfl, rfl, rfl⟩
  have key : Wp (afterPrep fuel (prep source false st)) (fun _ _ => ∃ a₀ : Attr,
      RxSpecB.Derives false qokSat (scan (encodeUtf16 source) false false 0) .Disjunction (encodeUtf16 source) [] a₀ ∧
      (groupNames a₀.groups).Nodup ∧ (∀ x ∈ a₀.refs, x ∈ groupNames a₀.groups) ∧
      (groupNames a₀.groups ≠ [] → ∃ a₁ : Attr,
        RxSpecB.Derives true qokSat (scan (encodeUtf16 source) false false 0) .Disjunction (encodeUtf16 source) [] a₁ ∧
        (groupNames a₁.groups).Nodup ∧ ∀ x ∈ a₁.refs, x ∈ groupNames a₁.groups)) := by
    unfold afterPrep
    refine Wp.bind ?_
    have e : rewindLoop 0 4 0 (prep source false st) = .ok () ((prep source false st).setPos (encodeUtf16 source) 0) := hrw
    rw [e]
    refine Wp.ok ?_
    refine Wp.call (consumePattern_wb hsrc hlen fuel _ _ hat) (fun _ s1 hpost => ?_)
    obtain ⟨hat1, a₀, hgn, hd0, hnd0, hrefs0⟩ := hpost
    with_reducible refine Wp.bind_getSt ?_
    by_cases hc : (!s1.nFlag && true && !s1.groupNames.isEmpty) = true
    · rw [if_pos hc]
      with_reducible refine Wp.bind_modSt ?_
      have hat2 : BAt (encodeUtf16 source) (true, scan (encodeUtf16 source) false false 0) []
          { s1 with nFlag := true } := ⟨hat1.1, hat1.2.1, hat1.2.2.1, hat1.2.2.2.1, rfl, hat1.2.2.2.2.2⟩
      refine WpB.bind_rewind' hat2 (Nat.zero_le _) (fun hat3 => ?_)
      refine Wp.tail ?_
      refine Wp.call (consumePattern_wb hsrc hlen fuel _ _ hat3) (fun _ s2 hpost => ?_)
      obtain ⟨_, a₁, _, hd1, hnd1, hrefs1⟩ := hpost
      exact ⟨a₀, hd0, hnd0, hrefs0, fun _ => ⟨a₁, hd1, hnd1, hrefs1⟩⟩
    · rw [if_neg hc]
      refine ⟨a₀, hd0, hnd0, hrefs0, fun hne => ?_⟩
      exfalso; apply hc
      rw [hat1.nFlag', hgn]
      cases hg : groupNames a₀.groups with
      | nil => exact absurd hg hne
      | cons x t => rfl
  rw [h] at key
  exact key

end DL.Rx
