import DL.Lemmas.RxIndMutual

/-! # History independence: `count_capturing_parens`, `consume_pattern` -/
namespace DL.Rx
attribute [local irreducible] isScalar
variable {c : Bool}
set_option linter.unusedSimpArgs false

theorem I.countCapturingParensLoop (W : RegSet) :
    ∀ n inClass escaped count, Ind c W (countCapturingParensLoop n inClass escaped count) (fun _ => W)
  | 0, _, _, _ => by unfold DL.Rx.countCapturingParensLoop; rx2_auto
  | n + 1, inClass, escaped, count => by
    have ih := I.countCapturingParensLoop W n
    unfold DL.Rx.countCapturingParensLoop; rx2_auto

theorem I.countCapturingParens (W : RegSet) (n : Nat) : Ind c W (countCapturingParens n) (fun _ => W) := by
  unfold DL.Rx.countCapturingParens; rx2_auto

theorem I.consumePattern (W : RegSet) (n : Nat) : Ind c W (consumePattern n) (fun _ => ins .caps W) := by
  unfold DL.Rx.consumePattern; rx2_auto

end DL.Rx
