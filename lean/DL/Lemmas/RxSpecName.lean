import DL.Lemmas.RxSpecProp
import DL.Lemmas.RxIdent

/-! # Soundness w.r.t. the grammar: `RegExpIdentifierName`, `GroupName` -/
namespace DL.Rx
open DL.RxSpec DL.Gen.Unicode
attribute [local irreducible] isScalar
variable {src : List Nat} {N : Nat}

theorem Wp.bind_tests {β : Type} {m : M Bool} {p : Prop} {g : Bool → M β} {s : St} {Q : β → St → Prop}
    (ht : Tests m p) (k : ∀ b, (b = true → p) → Wp (g b s) Q) : Wp ((m >>= g) s) Q := by
  show Wp (M.bind m g s) Q
  unfold M.bind
  rcases ht s with ⟨b, hb, hp⟩ | hb
  · rw [hb]; exact k b hp
  · rw [hb]; trivial

theorem inTable_of_inRanges {cp : Nat} {t : Array Nat} (h : InRanges cp t) : InTable cp t := h

theorem isIdStart_spec (cp : Nat) : Tests (isIdStart cp) (UnicodeIDStart cp) := by
  unfold isIdStart
  refine Tests.ite (fun _ => Tests.pure (fun h => by cases h)) fun h1 => ?_
  refine Tests.ite (fun h2 => Tests.pure fun _ => .inl (.inr ⟨by show 0x41 ≤ cp; omega, by show cp ≤ 0x5a; omega⟩))
    fun h2 => ?_
  refine Tests.ite (fun _ => Tests.pure (fun h => by cases h)) fun h3 => ?_
  refine Tests.ite (fun h4 => Tests.pure fun _ => .inl (.inl ⟨by show 0x61 ≤ cp; omega, by show cp ≤ 0x7a; omega⟩))
    fun h4 => ?_
  exact (isInRange_tests cp _).mono fun h => .inr h

theorem isIdContinue_spec (cp : Nat) : Tests (isIdContinue cp) (UnicodeIDContinue cp) := by
  unfold isIdContinue
  refine Tests.ite (fun _ => Tests.pure (fun h => by cases h)) fun h1 => ?_
  refine Tests.ite (fun h2 => Tests.pure fun _ => .inr (.inl ⟨by show 0x30 ≤ cp; omega, by show cp ≤ 0x39; omega⟩))
    fun h2 => ?_
  refine Tests.ite (fun _ => Tests.pure (fun h => by cases h)) fun h3 => ?_
  refine Tests.ite (fun h4 => Tests.pure fun _ => ?_) fun h4 => ?_
  · simp only [Bool.or_eq_true, decide_eq_true_eq, beq_iff_eq] at h4
    rcases h4 with h4 | h4
    · exact .inl (.inl (.inr ⟨by show 0x41 ≤ cp; omega, by show cp ≤ 0x5a; omega⟩))
    · exact .inr (.inr (.inl h4))
  refine Tests.ite (fun _ => Tests.pure (fun h => by cases h)) fun h5 => ?_
  refine Tests.ite (fun h6 => Tests.pure fun _ =>
    .inl (.inl (.inl ⟨by show 0x61 ≤ cp; omega, by show cp ≤ 0x7a; omega⟩))) fun h6 => ?_
  exact Tests.orM ((isInRange_tests cp _).mono fun h => .inl (.inr h))
    ((isInRange_tests cp _).mono fun h => .inr (.inr (.inr h)))

theorem tests_eq' (cp v : Nat) (p : Prop) (hp : cp = v → p) : Tests (pure (cp == v)) p :=
  Tests.pure fun h => hp (by simpa using h)

theorem isRegexpIdentifierStart_spec (cp : Nat) : Tests (isRegexpIdentifierStart cp) (IdentifierStartChar cp) := by
  unfold isRegexpIdentifierStart
  exact Tests.orM ((isIdStart_spec cp).mono .inl)
    (Tests.orM (tests_eq' cp _ _ fun h => .inr (.inl h)) (tests_eq' cp _ _ fun h => .inr (.inr h)))

theorem isRegexpIdentifierPart_spec (cp : Nat) : Tests (isRegexpIdentifierPart cp) (IdentifierPartChar cp) := by
  unfold isRegexpIdentifierPart
  exact Tests.orM ((isIdContinue_spec cp).mono .inl)
    (Tests.orM (tests_eq' cp _ _ fun h => .inr (.inl h))
      (Tests.orM (tests_eq' cp _ _ fun h => .inl (.inr (.inr (.inl h))))
        (Tests.orM (tests_eq' cp _ _ fun h => .inr (.inr (.inl h))) (tests_eq' cp _ _ fun h => .inr (.inr (.inr h))))))

/-- the value of a unicode escape is a code point -/
theorem rues_le {r r1 : List Nat} {v : Nat} (h : RegExpUnicodeEscapeSequence r r1 v) : v ≤ 0x10FFFF := by
  have hex4 : ∀ {i r v}, Hex4Digits i r v → v < 65536 := by
    rintro i r v ⟨a, b, c', d, -, ha, hb, hc, hd, rfl⟩
    have := hexVal_lt ha; have := hexVal_lt hb; have := hexVal_lt hc; have := hexVal_lt hd
    show (((16 * (16 * (16 * (16 * 0 + hexVal a) + hexVal b) + hexVal c') + hexVal d) : Nat)) < 65536
    omega
  cases h with
  | surrogatePair m₁ m₂ r lead trail h1 hl h2 ht =>
    unfold isLead at hl; unfold isTrail at ht; omega
  | lead m r v h1 _ _ => have := hex4 h1; omega
  | nonLead m r v h1 _ => have := hex4 h1; omega
  | codePoint m r ds _ hle => exact hle

theorem i64AsU32_small {v : Nat} (h : v ≤ 0x10FFFF) : i64AsU32 (v : Int) = v := by
  unfold i64AsU32; omega

theorem UAt.of_index_eq {r r1 : List Nat} {s s1 : St} (h1 : UAt src N r1 s1) (h : UAt src N r s)
    (he : s1.reader.index = s.reader.index) : UAt src N r s1 := by
  have : r1 = r := by rw [← h1.rest, ← h.rest, he]
  rw [← this]; exact h1

/-- every range of the table starts at `m` or later -/
def pairsGe (m : Nat) : List Nat → Bool
  | lo :: _ :: rest => decide (m ≤ lo) && pairsGe m rest
  | _ => true

theorem pairsGe_get (m : Nat) : ∀ (l : List Nat) (i lo hi : Nat), pairsGe m l = true → l[2 * i]? = some lo →
    l[2 * i + 1]? = some hi → m ≤ lo
  | [], _, _, _, _, h, _ => by simp at h
  | [_], i, _, _, _, _, h => by simp at h
  | a :: b :: rest, 0, lo, hi, hp, h0, _ => by
    simp only [pairsGe, Bool.and_eq_true, decide_eq_true_eq] at hp
    simp at h0; subst h0; exact hp.1
  | a :: b :: rest, i + 1, lo, hi, hp, h0, h1 => by
    simp only [pairsGe, Bool.and_eq_true] at hp
    have e0 : 2 * (i + 1) = 2 * i + 1 + 1 := by omega
    have e1 : 2 * (i + 1) + 1 = 2 * i + 1 + 1 + 1 := by omega
    rw [e0] at h0; rw [e1] at h1
    simp only [List.getElem?_cons_succ] at h0 h1
    exact pairsGe_get m rest i lo hi hp.2 h0 h1

theorem inTable_ge {cp m : Nat} {t : Array Nat} (hg : pairsGe m t.toList = true) (h : InTable cp t) : m ≤ cp := by
  obtain ⟨k, lo, hi, h0, h1, hlo, -⟩ := h
  rw [← Array.getElem?_toList] at h0 h1
  exact Nat.le_trans (pairsGe_get m _ k lo hi hg h0 h1) hlo

set_option maxRecDepth 100000 in
theorem largeIdStart_ge : pairsGe 128 largeIdStartRanges.toList = true := by decide +kernel
set_option maxRecDepth 100000 in
theorem largeIdContinue_ge : pairsGe 128 largeIdContinueRanges.toList = true := by decide +kernel

/-- `\\` is not an identifier character -/
theorem not_identifierPartChar_backslash : ¬IdentifierPartChar (ch '\\') := by
  intro h
  have c5c : ch '\\' = 0x5C := rfl
  rw [c5c] at h
  rcases h with ((((h | h) | h) | h | h | h) | h | h | h)
  · have h' : (0x61 ≤ 0x5C ∧ 0x5C ≤ 0x7a) := h; omega
  · have h' : (0x41 ≤ 0x5C ∧ 0x5C ≤ 0x5a) := h; omega
  · have := inTable_ge largeIdStart_ge h; omega
  · have h' : 0x30 ≤ 0x5C ∧ 0x5C ≤ 0x39 := h; omega
  · have h' : 0x5C = 0x5F := h; omega
  · have := inTable_ge largeIdContinue_ge h; omega
  · have h' : 0x5C = 0x24 := h; omega
  · have h' : 0x5C = 0x200C := h; omega
  · have h' : 0x5C = 0x200D := h; omega

theorem Tests.wp {m : M Bool} {p : Prop} (ht : Tests m p) (s : St) :
    Wp (m s) (fun b s1 => s1 = s ∧ (b = true → p)) := by
  rcases ht s with ⟨b, hb, hp⟩ | hb
  · rw [hb]; exact ⟨rfl, hp⟩
  · rw [hb]; trivial

theorem isRegexpIdentifierPart_wp (cp : Nat) (s : St) :
    Wp (isRegexpIdentifierPart cp s) (fun b s1 => s1 = s ∧ (b = true → IdentifierPartChar cp)) :=
  (isRegexpIdentifierPart_spec cp).wp s

theorem isRegexpIdentifierStart_wp (cp : Nat) (s : St) :
    Wp (isRegexpIdentifierStart cp s) (fun b s1 => s1 = s ∧ (b = true → IdentifierStartChar cp)) :=
  (isRegexpIdentifierStart_spec cp).wp s

theorem eatRegexpIdentifierPart_wp (n : Nat) (r : List Nat) (s : St) (h : UAt src N r s) :
    Wp (eatRegexpIdentifierPart n s) (fun b s1 => Keep s s1 ∧
      if b = true then ∃ r1 x, UAt src N r1 s1 ∧ RegExpIdentifierPart r r1 x ∧ s1.lastIntValue = (x : Nat)
      else UAt src N r s1) := by
  unfold eatRegexpIdentifierPart
  rx4_step
  rx4_step
  dsimp only
  simp only [h.uFlag', Bool.not_true, Bool.false_and]
  rx4_autos
  all_goals (try rx4_false)
  -- `false` without a rewind: the position is the initial one anyway
  all_goals (try (
    rename_i hn
    refine ⟨by rx4_keep, ?_⟩
    rw [if_neg (by decide)]
    exact UAt.of_index_eq (by assumption) h (by simpa using hn)))
  · -- an identifier character
    rename_i x y r' hat hn hp
    rx4_true
    exact ⟨y :: r', x, by rx4_at, RegExpIdentifierPart.char x _ (hp trivial), rfl⟩
  · -- `\` not followed by a unicode escape: `\` itself is no identifier character
    rename_i x y r' hat hc s1 hk hat1 hp
    have hx : x = ch '\\' := by simpa using hc
    subst hx
    exact (not_identifierPartChar_backslash (hp trivial)).elim
  · -- a unicode escape
    rename_i x y r' hat hc r1 v hu s1 hk hat1 hv hp
    have hx : x = ch '\\' := by simpa using hc
    subst hx
    rw [hv, i64AsU32_small (rues_le hu)] at hp
    rx4_true
    refine ⟨r1, v, by rx4_at, RegExpIdentifierPart.escape _ r1 v hu (hp trivial), ?_⟩
    st_norm
    rw [hv, i64AsU32_small (rues_le hu)]
  · rename_i x hat hn hp
    rx4_true
    exact ⟨[], x, by rx4_at, RegExpIdentifierPart.char x _ (hp trivial), rfl⟩
  · rename_i x hat hc s1 hk hat1 hp
    have hx : x = ch '\\' := by simpa using hc
    subst hx
    exact (not_identifierPartChar_backslash (hp trivial)).elim

theorem not_identifierStartChar_backslash : ¬IdentifierStartChar (ch '\\') := by
  intro h
  exact not_identifierPartChar_backslash (by
    rcases h with h | h | h
    · exact .inl (.inl h)
    · exact .inr (.inl h)
    · exact .inl (.inr (.inr (.inl h))))

theorem eatRegexpIdentifierStart_wp (n : Nat) (r : List Nat) (s : St) (h : UAt src N r s) :
    Wp (eatRegexpIdentifierStart n s) (fun b s1 => Keep s s1 ∧
      if b = true then ∃ r1 x, UAt src N r1 s1 ∧ RegExpIdentifierStart r r1 x ∧ s1.lastIntValue = (x : Nat)
      else UAt src N r s1) := by
  unfold eatRegexpIdentifierStart
  rx4_step
  rx4_step
  dsimp only
  simp only [h.uFlag', Bool.not_true, Bool.false_and]
  rx4_autos
  all_goals (try rx4_false)
  all_goals (try (
    rename_i hn
    refine ⟨by rx4_keep, ?_⟩
    rw [if_neg (by decide)]
    exact UAt.of_index_eq (by assumption) h (by simpa using hn)))
  · rename_i x y r' hat hn hp
    rx4_true
    exact ⟨y :: r', x, by rx4_at, RegExpIdentifierStart.char x _ (hp trivial), rfl⟩
  · rename_i x y r' hat hc s1 hk hat1 hp
    have hx : x = ch '\\' := by simpa using hc
    subst hx
    exact (not_identifierStartChar_backslash (hp trivial)).elim
  · rename_i x y r' hat hc r1 v hu s1 hk hat1 hv hp
    have hx : x = ch '\\' := by simpa using hc
    subst hx
    rw [hv, i64AsU32_small (rues_le hu)] at hp
    rx4_true
    refine ⟨r1, v, by rx4_at, RegExpIdentifierStart.escape _ r1 v hu (hp trivial), ?_⟩
    st_norm
    rw [hv, i64AsU32_small (rues_le hu)]
  · rename_i x hat hn hp
    rx4_true
    exact ⟨[], x, by rx4_at, RegExpIdentifierStart.char x _ (hp trivial), rfl⟩
  · rename_i x hat hc s1 hk hat1 hp
    have hx : x = ch '\\' := by simpa using hc
    subst hx
    exact (not_identifierStartChar_backslash (hp trivial)).elim

end DL.Rx
