import DL.Lemmas.RxBChar

/-! # Annex B (no `u` flag): `LegacyOctalEscapeSequence`, `CharacterEscape[~U, N]` -/
namespace DL.Rx
open DL.RxSpec DL.RxSpecB

attribute [local irreducible] isScalar
variable {src : List Nat} {K : Bool × Nat}

theorem isDigit8_iff (x : Nat) : isDigit x 8 = true ↔ OctalDigit x := by
  have ho : OctalDigit x ↔ 0x30 ≤ x ∧ x ≤ 0x37 := Iff.rfl
  rw [ho]
  unfold isDigit
  by_cases hs : isScalar x = true
  · rw [if_pos hs]
    unfold charToDigit
    by_cases h1 : 0x30 ≤ x ∧ x ≤ 0x39
    · rw [if_pos h1]; dsimp only
      by_cases h2 : x - 0x30 < 8
      · rw [if_pos h2]; simp; omega
      · rw [if_neg h2]; simp; omega
    · rw [if_neg h1]
      by_cases h3 : 0x61 ≤ x ∧ x ≤ 0x7a
      · rw [if_pos h3]; dsimp only
        rw [if_neg (by omega)]; simp; omega
      · rw [if_neg h3]
        by_cases h4 : 0x41 ≤ x ∧ x ≤ 0x5a
        · rw [if_pos h4]; dsimp only
          rw [if_neg (by omega)]; simp; omega
        · rw [if_neg h4]; simp; omega
  · rw [if_neg hs]
    constructor
    · intro h; cases h
    · intro h; exact absurd (isScalar_ascii x (by omega)) hs

theorem toDigit8_eq {x : Nat} (h : OctalDigit x) : toDigit x 8 = some (octVal x) := by
  have h' : 0x30 ≤ x ∧ x ≤ 0x37 := h
  unfold toDigit
  rw [if_pos (isScalar_ascii x (by omega))]
  unfold charToDigit
  rw [if_pos (by omega)]; dsimp only
  rw [if_pos (by omega)]; rfl

/-- one octal digit, or nothing (then the register is 0) -/
theorem eatOctalDigit_wb (r : List Nat) (s : St) (h : BAt src K r s) :
    Wp (eatOctalDigit s) (fun b s1 => Keep s s1 ∧
      if b = true then ∃ x r1, r = x :: r1 ∧ OctalDigit x ∧ BAt src K r1 s1 ∧ s1.lastIntValue = (octVal x : Nat)
      else BAt src K r s1 ∧ ∀ d, r.head? = some d → ¬OctalDigit d) := by
  unfold eatOctalDigit
  rx6_auto
  · rename_i x r' hn
    refine ⟨by rx6_keep, ?_⟩
    rw [if_neg (by decide)]
    refine ⟨by rx6_at, ?_⟩
    intro d hd hod
    cases hd
    exact hn ((isDigit8_iff _).mpr hod)
  · rename_i x r' hc hat y hy
    have ho := (isDigit8_iff x).mp hc
    rw [toDigit8_eq ho] at hy
    cases hy
    refine ⟨by rx6_keep, ?_⟩
    rw [if_pos rfl]
    exact ⟨x, r', rfl, ho, by rx6_at, rfl⟩
  · refine ⟨by rx6_keep, ?_⟩
    rw [if_neg (by decide)]
    exact ⟨by rx6_at, fun d hd => nomatch hd⟩

theorem octal_facts {x : Nat} (h : OctalDigit x) : 0x30 ≤ x ∧ x ≤ 0x37 ∧ octVal x = x - 0x30 := ⟨h.1, h.2, rfl⟩

theorem eatLegacyOctalEscapeSequence_wb (r : List Nat) (s : St) (h : BAt src K r s) :
    Wp (eatLegacyOctalEscapeSequence s) (fun b s1 => Keep s s1 ∧
      if b = true then ∃ r1 v, BAt src K r1 s1 ∧ RxSpecB.CharacterEscape K.1 r r1 v ∧ s1.lastIntValue = (v : Nat)
      else BAt src K r s1 ∧ ∀ d, r.head? = some d → ¬OctalDigit d) := by
  unfold eatLegacyOctalEscapeSequence
  rx6_auto
  all_goals (try (rx6_falsen; assumption))
  · -- one digit
    rename_i s1 hk1 a m hr ha hat1 hv1 s2 hk2 hat2 hno
    rx6_true
    subst hr
    obtain ⟨a1, a2, a3⟩ := octal_facts ha
    by_cases h0 : a = 0x30
    · subst h0
      by_cases h89 : ∃ d, m.head? = some d ∧ (d = c '8' ∨ d = c '9')
      · refine ⟨m, 0, by rx6_at, .legacyOctal _ _ _ (.zero89 m h89), ?_⟩
        st_norm; rw [hv1]; rfl
      · refine ⟨m, 0, by rx6_at, .zero m ?_, ?_⟩
        · intro d hd hdd
          have hdd' : 0x30 ≤ d ∧ d ≤ 0x39 := hdd
          by_cases ho : OctalDigit d
          · exact hno d hd ho
          · have : ¬(0x30 ≤ d ∧ d ≤ 0x37) := ho
            exact h89 ⟨d, hd, by
              have e8 : c '8' = 0x38 := rfl
              have e9 : c '9' = 0x39 := rfl
              rw [e8, e9]; omega⟩
        · st_norm; rw [hv1]; rfl
    · refine ⟨m, octVal a, by rx6_at, .legacyOctal _ _ _ (.one a m ?_ hno), ?_⟩
      · show 0x31 ≤ a ∧ a ≤ 0x37; omega
      · st_norm; rw [hv1]
  · -- two digits, the first 4–7
    rename_i s1 hk1 a m hr ha hat1 hv1 s2 hk2 b m2 hm hb hat2 hv2 hn
    rx6_true
    subst hr hm
    obtain ⟨a1, a2, a3⟩ := octal_facts ha
    refine ⟨m2, octVal a * 8 + octVal b, by rx6_at, .legacyOctal _ _ _ (.two47 a b m2 ?_ hb), ?_⟩
    · have : ¬(s1.lastIntValue ≤ 3) := fun hle => hn (decide_eq_true hle)
      rw [hv1, a3] at this
      show 0x34 ≤ a ∧ a ≤ 0x37; omega
    · st_norm; rw [hv1, hv2]; omega
  · -- two digits, the first 0–3, no third
    rename_i s1 hk1 a m hr ha hat1 hv1 s2 hk2 b m2 hm hb hat2 hv2 hc s3 hk3 hat3 hno
    rx6_true
    subst hr hm
    obtain ⟨a1, a2, a3⟩ := octal_facts ha
    refine ⟨m2, octVal a * 8 + octVal b, by rx6_at, .legacyOctal _ _ _ (.two03 a b m2 ?_ hb hno), ?_⟩
    · have : s1.lastIntValue ≤ 3 := of_decide_eq_true hc
      rw [hv1, a3] at this
      show 0x30 ≤ a ∧ a ≤ 0x33; omega
    · st_norm; rw [hv1, hv2]; omega
  · -- three digits
    rename_i s1 hk1 a m hr ha hat1 hv1 s2 hk2 b m2 hm hb hat2 hv2 hc s3 hk3 d m3 hm2 hd hat3 hv3
    rx6_true
    subst hr hm hm2
    obtain ⟨a1, a2, a3⟩ := octal_facts ha
    refine ⟨m3, octVal a * 64 + octVal b * 8 + octVal d, by rx6_at, .legacyOctal _ _ _ (.three a b d m3 ?_ hb hd), ?_⟩
    · have : s1.lastIntValue ≤ 3 := of_decide_eq_true hc
      rw [hv1, a3] at this
      show 0x30 ≤ a ∧ a ≤ 0x33; omega
    · st_norm; rw [hv1, hv2, hv3]; omega

theorem legacyOctal_head {i r : List Nat} {v : Nat} (h : LegacyOctalEscapeSequence i r v) :
    ∃ x m, i = x :: m ∧ OctalDigit x := by
  have e0 : c '0' = 0x30 := rfl
  have e1 : c '1' = 0x31 := rfl
  have e3 : c '3' = 0x33 := rfl
  have e4 : c '4' = 0x34 := rfl
  have e7 : c '7' = 0x37 := rfl
  have mk : ∀ x : Nat, 0x30 ≤ x → x ≤ 0x37 → OctalDigit x := fun x h1 h2 => ⟨h1, h2⟩
  cases h with
  | zero89 r _ => exact ⟨_, _, rfl, mk _ (by decide) (by decide)⟩
  | one a r ha _ =>
    have h1 : c '1' ≤ a := ha.1
    have h2 : a ≤ c '7' := ha.2
    exact ⟨_, _, rfl, mk a (by omega) (by omega)⟩
  | two03 a b r ha _ _ =>
    have h1 : c '0' ≤ a := ha.1
    have h2 : a ≤ c '3' := ha.2
    exact ⟨_, _, rfl, mk a (by omega) (by omega)⟩
  | two47 a b r ha _ =>
    have h1 : c '4' ≤ a := ha.1
    have h2 : a ≤ c '7' := ha.2
    exact ⟨_, _, rfl, mk a (by omega) (by omega)⟩
  | three a b d r ha _ _ =>
    have h1 : c '0' ≤ a := ha.1
    have h2 : a ≤ c '3' := ha.2
    exact ⟨_, _, rfl, mk a (by omega) (by omega)⟩

theorem octal_zero : OctalDigit (c '0') := ⟨by decide, by decide⟩

theorem consumeCharacterEscape_wb (hsrc : ∀ x ∈ src, x ≤ 0xFFFF) (n : Nat) (r : List Nat) (s : St) (h : BAt src K r s) :
    Wp (consumeCharacterEscape n s) (fun b s1 => Keep s s1 ∧
      if b = true then ∃ r1 v, BAt src K r1 s1 ∧ RxSpecB.CharacterEscape K.1 r r1 v ∧ s1.lastIntValue = (v : Nat)
      else BAt src K r s1 ∧ ¬∃ r1 v, RxSpecB.CharacterEscape K.1 r r1 v) := by
  unfold consumeCharacterEscape
  rx6_auto
  all_goals (try (rx6_true; exact ⟨_, _, ‹BAt src K _ _›, ‹RxSpecB.CharacterEscape K.1 r _ _›, ‹_ = _›⟩))
  · rename_i s1 _ _ hctl s2 _ _ hcc s3 _ _ s4 _ _ hhex s5 _ _ huni s6 _ _ hoct b s7 hk7 hb
    refine ⟨by rx6_keep, ?_⟩
    cases b
    · rw [if_neg (by decide)] at hb ⊢
      refine ⟨hb.1, ?_⟩
      rintro ⟨r1, v, hce⟩
      cases hce with
      | f _ => exact hctl _ rfl (by simp)
      | n _ => exact hctl _ rfl (by simp)
      | r _ => exact hctl _ rfl (by simp)
      | t _ => exact hctl _ rfl (by simp)
      | v _ => exact hctl _ rfl (by simp)
      | controlLetter l _ hl => exact hcc ⟨l, _, rfl, hl⟩
      | zero _ _ => exact hoct _ rfl octal_zero
      | hex a b' _ ha hb' => exact hhex ⟨a, b', _, rfl, ha, hb'⟩
      | unicode m _ _ h4 => exact huni trivial ⟨m, _, _, rfl, h4⟩
      | legacyOctal _ _ _ hl =>
        obtain ⟨x, m, e, hx⟩ := legacyOctal_head hl
        subst e
        exact hoct x rfl hx
      | identity _ _ _ hc hk _ =>
        rcases hb.2 _ rfl with e | ⟨e1, e2⟩
        · exact hc e
        · exact hk e1 e2
    · rw [if_pos rfl] at hb ⊢
      obtain ⟨x, r1, hr, hsc, hc, hk, hat, hv⟩ := hb
      subst hr
      refine ⟨r1, x, hat, RxSpecB.CharacterEscape.identity x r1 hsc hc hk ⟨hctl x rfl, hoct x rfl, ?_, ?_⟩, hv⟩
      · rintro ⟨e, a, b', r', e2, ha, hb'⟩
        subst e e2
        exact hhex ⟨a, b', r', rfl, ha, hb'⟩
      · rintro ⟨e, r', v, h4⟩
        subst e
        exact huni trivial ⟨r1, r', v, rfl, h4⟩
  · rx6_true
    rename_i m hr h4
    subst hr
    exact ⟨_, _, ‹BAt src K _ _›, RxSpecB.CharacterEscape.unicode _ _ _ h4, ‹_ = _›⟩

end DL.Rx
