import DL.Lemmas.CFTry5

/-! Soundness invariant: `try` statements, assembled. -/
namespace DL.CF

/-- the state the try block is visited from: flag recorded, `may_throw` reset -/
def tryStart (p : Nat) (a : A) : A :=
  { sc := { a.sc with mayThrow := false }, info := a.info.setUnreach p (unreachableFlag a.sc .other) }

/-- the last step: the enclosing `may_throw` is restored -/
def tryDone (old : Bool) (x : A) : A := { x with sc := { x.sc with mayThrow := x.sc.mayThrow || old } }

theorem visitStmt_try' (p bp : Nat) (b : Stmts) (hh : Bool) (cp : Nat) (ck : Kids) (hf : Bool) (fp : Nat) (f : Stmts) (a : A) :
    visitStmt (.tryS p bp b hh cp ck hf fp f) a =
      tryDone a.sc.mayThrow (tryFin p (tryFinalizer hf fp f a.sc.end_ (tryHandler hh cp ck a.sc.end_
        (blockTail bp (visitStmts b (tryStart p a)))))) := by
  rw [visitStmt_try]; rfl

theorem try_ok (live : Bool) (ls : List Id) (p bp : Nat) (b : Stmts) (hh : Bool) (cp : Nat) (ck : Kids) (hf : Bool)
    (fp : Nat) (f : Stmts) (a : A)
    (hck : hh = true ∨ ck = .nil) (hfin : hf = true ∨ f = .nil)
    (hpre : Pre live (Stmt.tryS p bp b hh cp ck hf fp f).positions a)
    (ihb : ∀ a0, Pre live b.positions a0 → PostL live b.upos b.positions b.compl b.reach b.inner a0 (visitStmts b a0))
    (ihc : ∀ child, Pre (live && b.compl.t) ck.positions child →
      PostL (live && b.compl.t) ck.upos ck.positions ck.catchCompl ck.catchReach ck.inner child (visitKids ck child))
    (ihf : ∀ a0, Pre (live && (tryCatchCompl b.compl hh ck.catchCompl).any) f.positions a0 →
      PostL (live && (tryCatchCompl b.compl hh ck.catchCompl).any) f.upos f.positions f.compl f.reach f.inner a0 (visitStmts f a0)) :
    PostS live ls (.tryS p bp b hh cp ck hf fp f) a (visitStmt (.tryS p bp b hh cp ck hf fp f) a) := by
  simp only [Stmt.positions] at hpre
  have hsp := TrySplit.of hpre.nodup
  rw [visitStmt_try']
  have s0e : (tryStart p a).sc.end_ = a.sc.end_ := rfl
  have s0b : (tryStart p a).sc.foundBreak = a.sc.foundBreak := rfl
  have s0c : (tryStart p a).sc.foundContinue = a.sc.foundContinue := rfl
  have s0t : (tryStart p a).sc.mayThrow = false := rfl
  have s0i : (tryStart p a).info = (flagA a p .other).info := rfl
  generalize tryStart p a = s0 at s0e s0b s0c s0t s0i ⊢
  have hs0s : stopsEnd s0.sc.end_ = true → live = false := fun h => hpre.hs (by rw [← s0e]; exact h)
  have hfr0 : ∀ q, q ∈ bp :: (b.positions ++ ((optPos hh cp ++ ck.positions) ++ (optPos hf fp ++ f.positions))) →
      s0.info.endAt q = none := by
    intro q hq
    rw [s0i, flagA_endAt]; exact hpre.fresh q (List.mem_cons_of_mem _ hq)
  -- phase 1: the try block
  have hpre1 : Pre live (bp :: b.positions) s0 := by
    refine ⟨hs0s, ?_, hsp.nb⟩
    intro q hq
    refine hfr0 q ?_
    rcases List.mem_cons.mp hq with h | h
    · simp [h]
    · simp [h]
  have h1 := blockKid_ok live bp b s0 hpre1 ihb
  generalize blockTail bp (visitStmts b s0) = a1 at h1 ⊢
  rw [← s0e]
  have hcr_false : ∀ q, q ∉ ck.positions → ck.catchReach q = false := fun q hq => by
    cases hr : ck.catchReach q with
    | false => rfl
    | true => exact absurd (ck.catchReach_mem q hr) hq
  -- phase 2: the handler
  have h2 : PostL live (b.upos ++ ck.upos) ((bp :: b.positions) ++ (optPos hh cp ++ ck.positions))
      (tryCatchCompl b.compl hh ck.catchCompl) (fun q => b.reach q || (hh && b.compl.t && ck.catchReach q))
      (fun q => b.inner q || ck.inner q) s0 (tryHandler hh cp ck s0.sc.end_ a1) := by
    cases hh with
    | true =>
      have := handler_ok live b.upos (bp :: b.positions) b.compl b.reach b.inner cp ck s0 a1 h1 hs0s s0t
        (fun q hq => hfr0 q (by simp [hq])) (List.nodup_append.mp hsp.nc).2.1
        (fun q h1 h2 => hsp.bc q h1 (List.mem_append.mpr (Or.inr h2)))
        (fun q hq => List.mem_cons_of_mem _ (Stmts.upos_sub b q hq))
        (fun q hq => b.reach_false q (fun h => hq (List.mem_cons_of_mem _ h)))
        (fun q hq => b.inner_false q (fun h => hq (List.mem_cons_of_mem _ h))) ihc
      exact this.conv (fun _ h => h) (fun q hq => by simpa [optPos] using hq) rfl (fun q => by simp) (fun _ => rfl)
    | false =>
      have hnil : ck = .nil := by rcases hck with h | h; cases h; exact h
      subst hnil
      have : tryHandler false cp .nil s0.sc.end_ a1 = a1 := rfl
      rw [this]
      exact h1.conv (fun q hq => by simpa [Kids.upos] using hq) (fun q hq => List.mem_append.mpr (Or.inl hq))
        (by simp [tryCatchCompl]) (fun q => by simp) (fun q => by simp [Kids.inner])
  generalize tryHandler hh cp ck s0.sc.end_ a1 = a2 at h2 ⊢
  -- phase 3: the finalizer
  have hP2 : ∀ q, q ∈ (bp :: b.positions) ++ (optPos hh cp ++ ck.positions) → q ∈ bp :: b.positions ∨ q ∈ optPos hh cp ++ ck.positions :=
    fun q hq => List.mem_append.mp hq
  have hr2_false : ∀ q, q ∉ (bp :: b.positions) ++ (optPos hh cp ++ ck.positions) →
      (b.reach q || (hh && b.compl.t && ck.catchReach q)) = false := by
    intro q hq
    simp only [List.mem_append, List.mem_cons, not_or] at hq
    simp [b.reach_false q hq.1.2, hcr_false q hq.2.2]
  have hi2_false : ∀ q, q ∉ (bp :: b.positions) ++ (optPos hh cp ++ ck.positions) → (b.inner q || ck.inner q) = false := by
    intro q hq
    simp only [List.mem_append, List.mem_cons, not_or] at hq
    simp [b.inner_false q hq.1.2, ck.inner_false q hq.2.2]
  have hus2 : ∀ q, q ∈ b.upos ++ ck.upos → q ∈ (bp :: b.positions) ++ (optPos hh cp ++ ck.positions) := by
    intro q hq
    rcases List.mem_append.mp hq with h | h
    · exact List.mem_append.mpr (Or.inl (List.mem_cons_of_mem _ (Stmts.upos_sub b q h)))
    · exact List.mem_append.mpr (Or.inr (List.mem_append.mpr (Or.inr (Kids.upos_sub ck q h))))
  have h3 : PostL live ((b.upos ++ ck.upos) ++ f.upos)
      (((bp :: b.positions) ++ (optPos hh cp ++ ck.positions)) ++ (optPos hf fp ++ f.positions))
      (finallyCompl (tryCatchCompl b.compl hh ck.catchCompl) hf f.compl)
      (fun q => (b.reach q || (hh && b.compl.t && ck.catchReach q)) ||
        (hf && (tryCatchCompl b.compl hh ck.catchCompl).any && f.reach q))
      (fun q => (b.inner q || ck.inner q) || f.inner q) s0 (tryFinalizer hf fp f s0.sc.end_ a2) := by
    cases hf with
    | true =>
      have hFP : optPos true fp ++ f.positions = fp :: f.positions := by simp [optPos]
      rw [hFP] at hsp hfr0 ⊢
      have := finalizer_ok live _ _ _ _ _ fp f s0 a2 h2 hs0s
        (fun q hq => hfr0 q (by
          simp only [List.mem_cons, List.mem_append] at hq ⊢
          rcases hq with h | h
          · exact Or.inr (Or.inr (Or.inr (Or.inl h)))
          · exact Or.inr (Or.inr (Or.inr (Or.inr h))))) hsp.nf
        (fun q h1 h2 => by
          rcases hP2 q h1 with h | h
          · exact hsp.bf q h h2
          · exact hsp.cf q h h2) hus2 hr2_false hi2_false ihf
      exact this.conv (fun _ h => h) (fun _ h => h) rfl (fun q => by simp) (fun _ => rfl)
    | false =>
      have hnil : f = .nil := by rcases hfin with h | h; cases h; exact h
      subst hnil
      have : tryFinalizer false fp .nil s0.sc.end_ a2 = a2 := rfl
      rw [this]
      exact h2.conv (fun q hq => by simpa [Stmts.upos] using hq) (fun q hq => List.mem_append.mpr (Or.inl hq))
        (by simp [finallyCompl]) (fun q => by simp) (fun q => by simp [Stmts.inner])
  generalize tryFinalizer hf fp f s0.sc.end_ a2 = a3 at h3 ⊢
  -- the end of the statement
  obtain ⟨fur, finfo, ffb, ffc, fmt, fstop, fp4⟩ := tryFin_facts p a3
  have hpP3 : p ∉ ((bp :: b.positions) ++ (optPos hh cp ++ ck.positions)) ++ (optPos hf fp ++ f.positions) := by
    intro h
    rcases List.mem_append.mp h with h | h
    · rcases List.mem_append.mp h with h | h
      · rcases List.mem_cons.mp h with h | h
        · exact hsp.p_bp h
        · exact hsp.p_b h
      · exact hsp.p_c h
    · exact hsp.p_f h
  have hU3 : ∀ q, q ∈ (b.upos ++ ck.upos) ++ f.upos →
      q ∈ ((bp :: b.positions) ++ (optPos hh cp ++ ck.positions)) ++ (optPos hf fp ++ f.positions) := by
    intro q hq
    rcases List.mem_append.mp hq with h | h
    · exact List.mem_append.mpr (Or.inl (hus2 q h))
    · exact List.mem_append.mpr (Or.inr (List.mem_append.mpr (Or.inr (Stmts.upos_sub f q h))))
  have hC : Stmt.compl ls (.tryS p bp b hh cp ck hf fp f) = finallyCompl (tryCatchCompl b.compl hh ck.catchCompl) hf f.compl := by
    simp [Stmt.compl]
  have dinfo : (tryDone a.sc.mayThrow (tryFin p a3)).info = (tryFin p a3).info := rfl
  have dend : (tryDone a.sc.mayThrow (tryFin p a3)).sc.end_ = (tryFin p a3).sc.end_ := rfl
  have dfb : (tryDone a.sc.mayThrow (tryFin p a3)).sc.foundBreak = a3.sc.foundBreak := ffb
  have dfc : (tryDone a.sc.mayThrow (tryFin p a3)).sc.foundContinue = a3.sc.foundContinue := ffc
  have dmt : (tryDone a.sc.mayThrow (tryFin p a3)).sc.mayThrow = (a3.sc.mayThrow || a.sc.mayThrow) := by
    simp only [tryDone]; rw [fmt]
  refine ⟨⟨?_, ?_, ?_, ?_, ?_, ?_, ?_, ?_, ?_, ?_, ?_⟩, ?_⟩ <;> (try rw [hC])
  · intro hst; rw [dend, fstop] at hst; exact h3.p1 hst
  · intro hh'; rw [dfb]; exact h3.p2 hh'
  · intro hh'; rw [dfc]; exact h3.p2c hh'
  · intro hh'; rw [dfb]; exact h3.monoB (by rw [s0b]; exact hh')
  · intro hh'; rw [dfc]; exact h3.monoC (by rw [s0c]; exact hh')
  · intro hh'; rw [dfc]; exact h3.p2l hh'
  · intro q hq hu
    rw [dinfo, fur] at hu
    simp only [Stmt.upos, List.mem_cons] at hq
    rcases hq with rfl | hq
    · rw [ur_eq_of_info_eq (h3.frame q hpP3), s0i] at hu
      have := own_pos_dead hpre q .other _ rfl hu
      simp [this]
    · have hq' : q ∈ (b.upos ++ ck.upos) ++ f.upos := by simpa [List.append_assoc] using hq
      have hne : q ≠ p := fun e => hpP3 (e ▸ hU3 q hq')
      have := h3.p3 q hq' hu
      simp only [Stmt.reach]
      revert this; cases live <;> simp [hne]
  · intro q hq hu
    rw [dinfo, fur] at hu
    simp only [Stmt.upos, List.mem_cons] at hq
    simp only [Stmt.inner]
    rcases hq with rfl | hq
    · have h1' : q ∉ b.positions := hsp.p_b
      have h2' : q ∉ ck.positions := fun h => hsp.p_c (List.mem_append.mpr (Or.inr h))
      have h3' : q ∉ f.positions := fun h => hsp.p_f (List.mem_append.mpr (Or.inr h))
      simp [b.inner_false q h1', ck.inner_false q h2', f.inner_false q h3']
    · have hq' : q ∈ (b.upos ++ ck.upos) ++ f.upos := by simpa [List.append_assoc] using hq
      exact h3.p3i q hq' hu
  · intro q hq
    simp only [Stmt.positions, List.mem_cons, not_or] at hq
    have hq3 : q ∉ ((bp :: b.positions) ++ (optPos hh cp ++ ck.positions)) ++ (optPos hf fp ++ f.positions) := by
      intro h; apply hq.2.2
      simp only [List.mem_append, List.mem_cons] at h ⊢
      rcases h with (((h | h) | h) | h)
      · exact absurd h hq.2.1
      · exact Or.inl h
      · exact Or.inr (Or.inl h)
      · exact Or.inr (Or.inr h)
    rw [dinfo, finfo q hq.1, h3.frame q hq3, s0i]
    exact flagA_other a p .other q hq.1
  · intro hh'; rw [dmt, hh']; simp
  · intro hh'; rw [dmt, h3.pT hh']; rfl
  · intro _ hst
    simp only [Stmt.pos] at hst
    rw [dinfo] at hst
    rcases fp4 hst with h | h
    · exact h3.p1 h
    · rw [endAt_eq_of_info_eq (h3.frame p hpP3), s0i, flagA_endAt, hpre.fresh p (by simp)] at h
      simp at h

end DL.CF
