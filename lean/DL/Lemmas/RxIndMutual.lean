import DL.Lemmas.RxIndEscapes

/-! # History independence: the recursive productions, `consume_pattern` -/
namespace DL.Rx
attribute [local irreducible] isScalar
variable {c : Bool}
set_option linter.unusedSimpArgs false

structure AllInd (c : Bool) (W : RegSet) (n : Nat) : Prop where
  disjunction : Ind c (ins .caps W) (consumeDisjunction n) (fun _ => ins .caps W)
  disjunctionLoop : Ind c (ins .caps W) (consumeDisjunctionLoop n) (fun _ => ins .caps W)
  alternative : Ind c (ins .caps W) (consumeAlternative n) (fun _ => ins .caps W)
  term : Ind c (ins .caps W) (consumeTerm n) (fun _ => ins .caps W)
  assertion : Ind c (ins .caps W) (consumeAssertion n) (fun _ => ins .aiq (ins .caps W))
  atom : Ind c (ins .caps W) (consumeAtom n) (fun _ => ins .caps W)
  extendedAtom : Ind c (ins .caps W) (consumeExtendedAtom n) (fun _ => ins .caps W)
  uncapturingGroup : Ind c (ins .caps W) (consumeUncapturingGroup n) (fun _ => ins .caps W)
  capturingGroup : Ind c (ins .caps W) (consumeCapturingGroup n) (fun _ => ins .caps W)

theorem allInd (W : RegSet) : ∀ n, AllInd c W n
  | 0 => by
    constructor
    · unfold consumeDisjunction; exact Ind.outOfFuel
    · unfold consumeDisjunctionLoop; exact Ind.outOfFuel
    · unfold consumeAlternative; exact Ind.outOfFuel
    · unfold consumeTerm; exact Ind.outOfFuel
    · unfold consumeAssertion; exact Ind.outOfFuel
    · unfold consumeAtom; exact Ind.outOfFuel
    · unfold consumeExtendedAtom; exact Ind.outOfFuel
    · unfold consumeUncapturingGroup; exact Ind.outOfFuel
    · unfold consumeCapturingGroup; exact Ind.outOfFuel
  | n + 1 => by
    have ih := allInd W n
    have h1 := ih.disjunction
    have h2 := ih.disjunctionLoop
    have h3 := ih.alternative
    have h4 := ih.term
    have h5 := ih.assertion
    have h6 := ih.atom
    have h7 := ih.extendedAtom
    have h8 := ih.uncapturingGroup
    have h9 := ih.capturingGroup
    constructor
    · unfold consumeDisjunction; rx2_auto
    · unfold consumeDisjunctionLoop; rx2_auto
    · unfold consumeAlternative; rx2_auto
    · unfold consumeTerm; rx2_auto
    · unfold consumeAssertion; rx2_auto
    · unfold consumeAtom; rx2_auto
    · unfold consumeExtendedAtom; rx2_auto
    · unfold consumeUncapturingGroup; rx2_auto
    · unfold consumeCapturingGroup; rx2_auto

theorem I.consumeDisjunction (W : RegSet) (n : Nat) :
    Ind c (ins .caps W) (consumeDisjunction n) (fun _ => ins .caps W) := (allInd W n).disjunction

end DL.Rx
