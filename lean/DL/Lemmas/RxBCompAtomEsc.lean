import DL.Lemmas.RxBCompChar2

/-! # Annex B (no `u` flag), completeness: class escapes, back references -/
namespace DL.Rx
open DL.RxSpec

attribute [local irreducible] isScalar
variable {src : List Nat} {K : Bool × Nat}

theorem consumeBackreference_wd (n : Nat) (r r1 : List Nat) (v : Nat) (s : St) (h : BAt src K r s)
    (hD : DecimalEscape r r1 v) (hv : v ≤ K.2) :
    Wc (consumeBackreference n s) (fun b s1 => b = true ∧ BAt src K r1 s1 ∧ Keep s s1) := by
  unfold consumeBackreference
  rx7_auto
  case pos => rx7_fin
  rename_i hn _
  have hat := ‹BAt src K r1 _›
  have hv1 := ‹_ = satI v›
  exfalso; apply hn
  rw [hv1, hat.ncp]
  have : satI v ≤ (v : Int) := by unfold satI; split <;> omega
  omega

theorem consumeBackreference_wdn (n : Nat) (r : List Nat) (s : St) (h : BAt src K r s)
    (hn : ∀ d, r.head? = some d → ¬NonZeroDigit d) :
    Wc (consumeBackreference n s) (fun b s1 => b = false ∧ s1 = s.withInt 0) := by
  unfold consumeBackreference
  rx7_auto
  exact ⟨rfl, ‹_ = s.withInt 0›⟩

/-- a decimal escape beyond the number of groups is no back reference (without the `u` flag that is not an error) -/
theorem consumeBackreference_wdm (hN : K.2 < 2 ^ 62) (n : Nat) (r r1 : List Nat) (v : Nat) (s : St) (h : BAt src K r s)
    (hD : DecimalEscape r r1 v) (hv : ¬v ≤ K.2) :
    Wc (consumeBackreference n s) (fun b s1 => b = false ∧ BAt src K r s1 ∧ Keep s s1) := by
  unfold consumeBackreference
  rx7_auto
  case pos =>
    rename_i hc
    have hat := ‹BAt src K r1 _›
    have hv1 := ‹_ = satI v›
    rw [hv1, hat.ncp] at hc
    exact absurd (le_of_satI_le (N := K.2) hN hc) hv
  rx7_fin

/-- not the first character of a `CharacterClassEscape[~U]` -/
def CceFreeB (r : List Nat) : Prop :=
  r.head? ≠ some (ch 'd') ∧ r.head? ≠ some (ch 'D') ∧ r.head? ≠ some (ch 's') ∧ r.head? ≠ some (ch 'S') ∧
  r.head? ≠ some (ch 'w') ∧ r.head? ≠ some (ch 'W')

theorem consumeCharacterClassEscape_wd (n : Nat) (r r1 : List Nat) (s : St) (h : BAt src K r s)
    (hD : RxSpecB.CharacterClassEscape r r1) :
    Wc (consumeCharacterClassEscape n s) (fun b s1 => b = true ∧ BAt src K r1 s1 ∧ s1.lastIntValue = -1 ∧ KeepN s s1) := by
  obtain ⟨x, rfl, hx⟩ := hD
  simp only [List.mem_cons, List.not_mem_nil, or_false] at hx
  unfold consumeCharacterClassEscape
  rcases hx with rfl | rfl | rfl | rfl | rfl | rfl
  all_goals rx7_auto
  all_goals rx7_fin

theorem consumeCharacterClassEscape_wdn (n : Nat) (r : List Nat) (s : St) (h : BAt src K r s) (hn : CceFreeB r) :
    Wc (consumeCharacterClassEscape n s) (fun b s1 => b = false ∧ s1 = s) := by
  obtain ⟨h1, h2, h3, h4, h5, h6⟩ := hn
  unfold consumeCharacterClassEscape
  rx7_auto
  exact ⟨rfl, rfl⟩

end DL.Rx
