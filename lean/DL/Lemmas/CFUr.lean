import DL.Lemmas.CFPos2

/-! The `unreachable` flag is only ever written at statement positions: outside `upos` a visit leaves it alone.
(Purely syntactic; holds for the whole statement language.) -/
namespace DL.CF

theorem ur_setUnreach_ne (i : Info) (p : Nat) (u : Bool) (q : Nat) (h : q ≠ p) : (i.setUnreach p u).ur q = i.ur q := by
  rw [ur_setUnreach, if_neg h]

@[simp] theorem setEnd_ur (a : A) (e : Option End) (q : Nat) : (a.setEnd e).info.ur q = a.info.ur q := rfl

theorem childExit_ur (kind : BlockKind) (p : Nat) (prev : Option End) (a1 : A) (ce : Option End) (q : Nat) :
    (childExit kind p prev a1 ce).info.ur q = a1.info.ur q := by
  unfold childExit
  rcases ce with _ | e
  · rfl
  · cases kind <;> simp only
    · cases e <;> simp
    · cases e <;> simp
    · split <;> rfl
    · simp
    · simp

theorem withChildR_ur (kind : BlockKind) (p : Nat) (op : A → A) (a : A) (q : Nat) :
    (withChildR kind p op a).1.info.ur q = (op { sc := { end_ := childEnd kind a.sc.end_ }, info := a.info }).info.ur q := by
  simp only [withChildR, childExit_ur]

theorem withChild_ur (kind : BlockKind) (p : Nat) (op : A → A) (a : A) (q : Nat) :
    (withChild kind p op a).info.ur q = (op { sc := { end_ := childEnd kind a.sc.end_ }, info := a.info }).info.ur q :=
  withChildR_ur kind p op a q

theorem whileTail_ur (tt de : Bool) (bp : Nat) (a : A) (q : Nat) : (whileTail tt de bp a).info.ur q = a.info.ur q := by
  unfold whileTail; simp only
  split
  · split <;> simp
  · split <;> simp

theorem doWhileTail_ur (tt de : Bool) (bp : Nat) (a : A) (q : Nat) : (doWhileTail tt de bp a).info.ur q = a.info.ur q := by
  unfold doWhileTail; simp only
  split
  · split <;> simp
  · split <;> simp

theorem doWhileAfter_ur (p bp : Nat) (a : A) (q : Nat) : (doWhileAfter p bp a).info.ur q = a.info.ur q := by
  unfold doWhileAfter; split <;> simp

theorem forTail_ur (p bp : Nat) (de ht tt : Bool) (a : A) (q : Nat) : (forTail p bp de ht tt a).info.ur q = a.info.ur q := by
  unfold forTail; split <;> simp

theorem forInOfTail_ur (bp : Nat) (a : A) (q : Nat) : (forInOfTail bp a).info.ur q = a.info.ur q := by
  unfold forInOfTail; simp

theorem ifJoin_ur (p : Nat) (cr ar : Option End) (a : A) (q : Nat) : (ifJoin p cr ar a).info.ur q = a.info.ur q := by
  unfold ifJoin; split <;> simp

theorem blockTail_ur (p : Nat) (a : A) (q : Nat) : (blockTail p a).info.ur q = a.info.ur q := by
  unfold blockTail; simp

theorem sobTail_ur (s : Stmt) (a : A) (q : Nat) : (sobTail s a).info.ur q = a.info.ur q := by
  unfold sobTail; split <;> simp

theorem caseTail_ur (p : Nat) (prev : Option End) (r : A × Sc) (q : Nat) : (caseTail p prev r).info.ur q = r.1.info.ur q := by
  unfold caseTail; simp

theorem tryCatchJoin_info (te : Option End) (tm : Bool) (a : A) : (tryCatchJoin te tm a).info = a.info := by
  unfold tryCatchJoin; split
  · split <;> rfl
  · rfl

theorem finallyJoin_info (te : Option End) (a : A) : (finallyJoin te a).info = a.info := by
  unfold finallyJoin; split <;> rfl

theorem exprEffect_info (k : EKind) (a : A) : (exprEffect k a).info = a.info := by
  unfold exprEffect; split
  · cases k <;> rfl
  · cases k <;> rfl
  · rfl

theorem throwEffect_info (a : A) : (throwEffect a).info = a.info := by
  unfold throwEffect; split <;> rfl

end DL.CF
