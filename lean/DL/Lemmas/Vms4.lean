import DL.Lemmas.Vms3
/-!
# One fix on the whole module (M-VMS)

`hasImportIdent` / `hasExportIdent` do not change on the value names that matter, hence every other item keeps its
count and the total drops (`length_diags_applyFix_lt`); the diagnostic that was fixed is not reported any more
(`not_mem_diags_applyFix`).
-/
namespace DL.Vms

theorem applyFix_items (m : Module) (d : Diag) (pre : List Item) (it : Item) (post : List Item)
    (h1 : m.items = pre ++ it :: post) (h2 : d.item = 0 + pre.length) :
    (applyFix m d).items = pre ++ (fixItem it d.target ++ post) := by
  simp only [applyFix, h1, h2, Nat.zero_add, fixItems_split]

/-- membership in a list "in the middle" is unchanged when the middle part only loses elements that do not matter -/
theorem mem_middle_iff {x : Nat} {A B B' C : List Nat} (hsub : x ∈ B' → x ∈ B) (hlost : x ∈ B → x ∈ B') :
    x ∈ A ++ (B' ++ C) ↔ x ∈ A ++ (B ++ C) := by
  simp only [List.mem_append]
  constructor
  · rintro (h | h | h)
    · exact Or.inl h
    · exact Or.inr (Or.inl (hsub h))
    · exact Or.inr (Or.inr h)
  · rintro (h | h | h)
    · exact Or.inl h
    · exact Or.inr (Or.inl (hlost h))
    · exact Or.inr (Or.inr h)

theorem contains_eq_of_mem_iff {x : Nat} {A B : List Nat} (h : x ∈ A ↔ x ∈ B) : A.contains x = B.contains x := by
  rw [Bool.eq_iff_iff, List.contains_iff_mem, List.contains_iff_mem]; exact h

/-- after a fix `hasImportIdent` is the same on every value-imported name of the old module, and
`hasExportIdent` on every value-exported name -/
theorem idents_stable (m : Module) (d : Diag) (pre : List Item) (it : Item) (post : List Item)
    (h1 : m.items = pre ++ it :: post) (h2 : d.item = 0 + pre.length) (h3 : d ∈ itemDiags m d.item it) :
    (∀ x ∈ importValue m.items, (applyFix m d).hasImportIdent x = m.hasImportIdent x) ∧
    (∀ x ∈ exportValue m.items, (applyFix m d).hasExportIdent x = m.hasExportIdent x) := by
  have hit := applyFix_items m d pre it post h1 h2
  constructor
  · intro x hx
    have hused : (applyFix m d).used = m.used := rfl
    have he : m.hasExportIdent x = true := by
      simp only [Module.hasExportIdent, Bool.or_eq_true, List.contains_iff_mem]; exact Or.inr hx
    simp only [Module.hasImportIdent, hused]
    congr 1
    apply contains_eq_of_mem_iff
    rw [hit, h1, exportValue_append, exportValue_append, exportValue_append, exportValue_cons it post]
    apply mem_middle_iff (exportValue_fix_subset it d.target x)
    intro hm
    rcases exportValue_fix_lost m d.item it d h3 x hm with h | h
    · exact h
    · rw [he] at h; cases h
  · intro x hx
    have hused : (applyFix m d).used = m.used := rfl
    have hi : m.hasImportIdent x = true := by
      simp only [Module.hasImportIdent, Bool.or_eq_true, List.contains_iff_mem]; exact Or.inr hx
    simp only [Module.hasExportIdent, hused]
    congr 1
    apply contains_eq_of_mem_iff
    rw [hit, h1, importValue_append, importValue_append, importValue_append, importValue_cons it post]
    apply mem_middle_iff (importValue_fix_subset it d.target x)
    intro hm
    rcases importValue_fix_lost m d.item it d h3 x hm with h | h
    · exact h
    · rw [hi] at h; cases h

theorem length_diags_applyFix_lt (m : Module) (d : Diag) (h : d ∈ diags m) :
    (diags (applyFix m d)).length < (diags m).length := by
  obtain ⟨pre, it, post, h1, h2, h3⟩ := split_of_mem_itemsDiags m m.items 0 d h
  obtain ⟨hI, hE⟩ := idents_stable m d pre it post h1 h2 h3
  have hit := applyFix_items m d pre it post h1 h2
  unfold diags
  rw [itemsDiags_length, itemsDiags_length, hit]
  -- the new items only carry value names of the old module
  have hI' : ∀ x ∈ importValue (pre ++ (fixItem it d.target ++ post)),
      (applyFix m d).hasImportIdent x = m.hasImportIdent x := by
    intro x hx
    apply hI
    rw [h1, importValue_append, importValue_cons it post]
    rw [importValue_append, importValue_append] at hx
    simp only [List.mem_append] at hx ⊢
    rcases hx with hx | hx | hx
    · exact Or.inl hx
    · exact Or.inr (Or.inl (importValue_fix_subset it d.target x hx))
    · exact Or.inr (Or.inr hx)
  have hE' : ∀ x ∈ exportValue (pre ++ (fixItem it d.target ++ post)),
      (applyFix m d).hasExportIdent x = m.hasExportIdent x := by
    intro x hx
    apply hE
    rw [h1, exportValue_append, exportValue_cons it post]
    rw [exportValue_append, exportValue_append] at hx
    simp only [List.mem_append] at hx ⊢
    rcases hx with hx | hx | hx
    · exact Or.inl hx
    · exact Or.inr (Or.inl (exportValue_fix_subset it d.target x hx))
    · exact Or.inr (Or.inr hx)
  rw [itemsCnt_congr _ _ _ _ _ hI' hE', h1]
  have := fix_local_lt m d.item it d h3
  simp only [itemsCnt_append, itemsCnt]
  omega

/-! ## the fixed diagnostic is gone -/

theorem mem_itemsDiags (m : Module) (its : List Item) (k : Nat) (d : Diag) (h : d ∈ itemsDiags m its k) :
    ∃ it, its[d.item - k]? = some it ∧ k ≤ d.item ∧ d ∈ itemDiags m d.item it := by
  obtain ⟨pre, it, post, h1, h2, h3⟩ := split_of_mem_itemsDiags m its k d h
  refine ⟨it, ?_, by omega, h3⟩
  have : d.item - k = pre.length := by omega
  rw [this, h1]; simp

theorem fixItem_head (it : Item) (t : Target) : ∃ a r, fixItem it t = a :: r := by
  cases it <;> cases t <;> simp only [fixItem]
  · exact ⟨_, _, rfl⟩
  · split
    · exact ⟨_, _, rfl⟩
    · split <;> exact ⟨_, _, rfl⟩
  · exact ⟨_, _, rfl⟩
  · exact ⟨_, _, rfl⟩

theorem getElem?_modify_some (f : α → α) (l : List α) (i : Nat) (a b : α) (h : l[i]? = some a)
    (h' : (l.modify i f)[i]? = some b) : b = f a := by
  rw [List.getElem?_modify_eq, h] at h'
  simpa using h'.symm

/-- the first of the items replacing the fixed one does not report the fixed diagnostic (in any module `m'`) -/
theorem not_mem_head_fix (m m' : Module) (k : Nat) (it : Item) (d : Diag) (h : d ∈ itemDiags m k it)
    (a : Item) (r : List Item) (hfix : fixItem it d.target = a :: r) : d ∉ itemDiags m' k a := by
  intro hd
  obtain ⟨k', t⟩ := d
  cases it with
  | imp D =>
    obtain ⟨h1, h2, h3⟩ := imp_inv m k D _ h
    cases t with
    | all =>
      simp only [fixItem, List.cons.injEq] at hfix
      rw [← hfix.1] at hd
      have := imp_inv m' k _ _ hd
      simp at this
    | spec i =>
      obtain ⟨hne, s, hs, hps⟩ := gDiags_spec_inv _ _ _ _ _ _ h3
      simp only [fixItem, hs] at hfix
      split at hfix
      · rename_i hk
        simp only [List.cons.injEq] at hfix
        rw [← hfix.1] at hd
        obtain ⟨_, _, h3'⟩ := imp_inv m' k _ _ hd
        obtain ⟨_, s', hs', hps'⟩ := gDiags_spec_inv _ _ _ _ _ _ h3'
        have := getElem?_modify_some _ _ _ _ _ hs hs'
        subst this
        have := iP_disjoint _ _ hps'
        rw [typed_setInline s hk] at this
        cases this
      · simp only [List.cons.injEq] at hfix
        rw [← hfix.1] at hd
        have := imp_inv m' k _ _ hd
        simp at this
  | exp D =>
    obtain ⟨h1, h2, hsrc, h3⟩ := exp_inv m k D _ h
    cases t with
    | all =>
      simp only [fixItem, List.cons.injEq] at hfix
      rw [← hfix.1] at hd
      have := exp_inv m' k _ _ hd
      simp at this
    | spec i =>
      obtain ⟨hne, s, hs, hps⟩ := gDiags_spec_inv _ _ _ _ _ _ h3
      simp only [fixItem, List.cons.injEq] at hfix
      rw [← hfix.1] at hd
      obtain ⟨_, _, _, h3'⟩ := exp_inv m' k _ _ hd
      obtain ⟨_, s', hs', hps'⟩ := gDiags_spec_inv _ _ _ _ _ _ h3'
      have := getElem?_modify_some _ _ _ _ _ hs hs'
      subst this
      have := eP_disjoint _ _ hps'
      cases this

theorem not_mem_diags_applyFix (m : Module) (d : Diag) (h : d ∈ diags m) : d ∉ diags (applyFix m d) := by
  intro hd
  obtain ⟨pre, it, post, h1, h2, h3⟩ := split_of_mem_itemsDiags m m.items 0 d h
  have hit := applyFix_items m d pre it post h1 h2
  obtain ⟨a, r, hfix⟩ := fixItem_head it d.target
  obtain ⟨it', h4, _, h5⟩ := mem_itemsDiags (applyFix m d) _ 0 d hd
  rw [hit, hfix, h2] at h4
  simp at h4
  subst h4
  exact not_mem_head_fix m (applyFix m d) d.item it d h3 a r hfix h5

end DL.Vms
