import DL.Lemmas.CFUr2
import DL.Lemmas.CFSwitch4
import DL.Lemmas.CFTry6

/-! Metadata is only ever written at the positions of the syntax visited: outside `positions` a visit leaves the map
alone.  (Purely syntactic; holds for the whole statement language, without any precondition.) -/
namespace DL.CF

theorem setUnreach_other (i : Info) (p : Nat) (u : Bool) (q : Nat) (h : q ≠ p) : (i.setUnreach p u) q = i q := by
  simp [Info.setUnreach, h]

theorem childExit_info (kind : BlockKind) (p : Nat) (prev : Option End) (a1 : A) (ce : Option End) (q : Nat) (hq : q ≠ p) :
    (childExit kind p prev a1 ce).info q = a1.info q := by
  unfold childExit
  rcases ce with _ | e
  · rfl
  · cases kind <;> simp only
    · cases e <;> simp only [setEnd_info] <;> first | rfl | exact markAsEnd_info_other _ _ _ _ hq
    · cases e <;> simp only [setEnd_info] <;> exact markAsEnd_info_other _ _ _ _ hq
    · split <;> rfl
    · exact markAsEnd_info_other _ _ _ _ hq
    · exact markAsEnd_info_other _ _ _ _ hq

theorem withChildR_info (kind : BlockKind) (p : Nat) (op : A → A) (a : A) (q : Nat) (hq : q ≠ p) :
    (withChildR kind p op a).1.info q = (op { sc := { end_ := childEnd kind a.sc.end_ }, info := a.info }).info q := by
  simp only [withChildR]; exact childExit_info _ _ _ _ _ q hq

theorem withChild_info (kind : BlockKind) (p : Nat) (op : A → A) (a : A) (q : Nat) (hq : q ≠ p) :
    (withChild kind p op a).info q = (op { sc := { end_ := childEnd kind a.sc.end_ }, info := a.info }).info q :=
  withChildR_info kind p op a q hq

theorem whileTail_info (tt de : Bool) (bp : Nat) (a : A) (q : Nat) (hq : q ≠ bp) : (whileTail tt de bp a).info q = a.info q := by
  unfold whileTail; simp only
  split
  · split
    · simp only [setEnd_info]; exact markAsEnd_info_other _ _ _ _ hq
    · rfl
  · split <;> (simp only [setEnd_info]; exact markAsEnd_info_other _ _ _ _ hq)

theorem doWhileTail_info (tt de : Bool) (bp : Nat) (a : A) (q : Nat) (hq : q ≠ bp) : (doWhileTail tt de bp a).info q = a.info q := by
  unfold doWhileTail; simp only
  split
  · split
    · simp only [setEnd_info]; exact markAsEnd_info_other _ _ _ _ hq
    · rfl
  · split <;> (simp only [setEnd_info]; exact markAsEnd_info_other _ _ _ _ hq)

theorem doWhileAfter_info (p bp : Nat) (a : A) (q : Nat) (hq : q ≠ p) : (doWhileAfter p bp a).info q = a.info q := by
  unfold doWhileAfter; split
  · exact markAsEnd_info_other _ _ _ _ hq
  · rfl

theorem forTail_info (p bp : Nat) (de ht tt : Bool) (a : A) (q : Nat) (hq : q ≠ p) (hq2 : q ≠ bp) :
    (forTail p bp de ht tt a).info q = a.info q := by
  unfold forTail; split
  · exact markAsEnd_info_other _ _ _ _ hq
  · simp only [setEnd_info]; exact markAsEnd_info_other _ _ _ _ hq2

theorem forInOfTail_info (bp : Nat) (a : A) (q : Nat) (hq : q ≠ bp) : (forInOfTail bp a).info q = a.info q := by
  unfold forInOfTail; simp only [setEnd_info]; exact markAsEnd_info_other _ _ _ _ hq

theorem ifJoin_info (p : Nat) (cr ar : Option End) (a : A) (q : Nat) (hq : q ≠ p) : (ifJoin p cr ar a).info q = a.info q := by
  obtain ⟨e, he, _⟩ := ifJoin_eq p cr ar a
  rw [he]; exact markAsEnd_info_other _ _ _ _ hq

theorem blockTail_info (p : Nat) (a : A) (q : Nat) (hq : q ≠ p) : (blockTail p a).info q = a.info q := by
  unfold blockTail; exact markAsEnd_info_other _ _ _ _ hq

theorem sobTail_info (s : Stmt) (a : A) (q : Nat) (hq : q ≠ s.pos) : (sobTail s a).info q = a.info q := by
  unfold sobTail; split
  · exact markAsEnd_info_other _ _ _ _ hq
  · rfl

theorem caseTail_info (p : Nat) (prev : Option End) (r : A × Sc) (q : Nat) (hq : q ≠ p) : (caseTail p prev r).info q = r.1.info q := by
  unfold caseTail; simp only [setEnd_info]; exact markAsEnd_info_other _ _ _ _ hq

theorem tryFin_info (p : Nat) (a : A) (q : Nat) (hq : q ≠ p) : (tryFin p a).info q = a.info q :=
  (tryFin_facts p a).2.1 q hq

theorem switchFin_info (p : Nat) (prev : Option End) (e : End) (a : A) (q : Nat) (hq : q ≠ p) :
    (switchFin p prev e a).info q = a.info q := by
  unfold switchFin; split
  · exact markAsEnd_info_other _ _ _ _ hq
  · simp only [setEnd_info]; exact markAsEnd_info_other _ _ _ _ hq

end DL.CF
