import DL.Lemmas.RxCompChar

/-! # Completeness: `RegExpUnicodeEscapeSequence` (u-mode) -/
namespace DL.Rx
open DL.RxSpec

attribute [local irreducible] isScalar
variable {src : List Nat} {N : Nat}

/-- a maximal run of characters with a property is unique -/
theorem run_unique {p : Nat → Prop} : ∀ {ds ds' r r' : List Nat}, ds ++ r = ds' ++ r' →
    (∀ d ∈ ds, p d) → (∀ d ∈ ds', p d) → (∀ d, r.head? = some d → ¬p d) → (∀ d, r'.head? = some d → ¬p d) →
    ds = ds' ∧ r = r'
  | [], [], _, _, h, _, _, _, _ => ⟨rfl, h⟩
  | [], y :: ds', r, r', h, _, h2, h3, _ => by
    exfalso
    have h : r = y :: (ds' ++ r') := h
    exact h3 y (by rw [h]; rfl) (h2 y (by simp))
  | x :: ds, [], r, r', h, h1, _, _, h4 => by
    exfalso
    have h : x :: (ds ++ r) = r' := h
    exact h4 x (by rw [← h]; rfl) (h1 x (by simp))
  | x :: ds, y :: ds', r, r', h, h1, h2, h3, h4 => by
    have h : x :: (ds ++ r) = y :: (ds' ++ r') := h
    obtain ⟨e1, e2⟩ := List.cons.inj h
    obtain ⟨e3, e4⟩ := run_unique e2 (fun d hd => h1 d (by simp [hd])) (fun d hd => h2 d (by simp [hd])) h3 h4
    exact ⟨by rw [e1, e3], e4⟩

theorem pairText_unique {r r1 r1' : List Nat} {l t l' t' : Nat} (h : PairText r r1 l t) (h' : PairText r r1' l' t') :
    r1 = r1' ∧ l = l' ∧ t = t' := by
  obtain ⟨ds1, ds2, hr, l1, l2, _, _, hl, ht, _, _⟩ := h
  obtain ⟨ds1', ds2', hr', l1', l2', _, _, hl', ht', _, _⟩ := h'
  rw [hr] at hr'
  obtain ⟨e1, e2⟩ := List.append_inj hr' (by omega)
  have e3 := (List.cons.inj (List.cons.inj e2).2).2
  obtain ⟨e4, e5⟩ := List.append_inj e3 (by omega)
  subst e1 e4 e5
  exact ⟨rfl, by rw [hl, hl'], by rw [ht, ht']⟩

theorem eatRegexpUnicodeSurrogatePairEscape_wc (r r1 : List Nat) (l t : Nat) (s : St) (h : UAt src N r s)
    (hp : PairText r r1 l t) :
    Wc (eatRegexpUnicodeSurrogatePairEscape s) (fun b s1 => b = true ∧ UAt src N r1 s1 ∧
      s1.lastIntValue = (((l - 0xD800) * 0x400 + (t - 0xDC00) + 0x10000 : Nat) : Int) ∧ Keep s s1) := by
  refine (Wc.of_wp (eatRegexpUnicodeSurrogatePairEscape_wp r s h) NE.eatRegexpUnicodeSurrogatePairEscape).mono ?_
  rintro b s1 ⟨hk1, hb⟩
  cases b
  · rw [if_neg (by decide)] at hb
    exact absurd ⟨r1, l, t, hp⟩ hb.2
  · rw [if_pos rfl] at hb
    obtain ⟨r1', l', t', hp', hat, hv⟩ := hb
    obtain ⟨e1, e2, e3⟩ := pairText_unique hp hp'
    subst e1 e2 e3
    exact ⟨rfl, hat, hv, hk1⟩

theorem eatRegexpUnicodeSurrogatePairEscape_wcn (r : List Nat) (s : St) (h : UAt src N r s)
    (hn : ¬∃ r1 l t, PairText r r1 l t) :
    Wc (eatRegexpUnicodeSurrogatePairEscape s) (fun b s1 => b = false ∧ UAt src N r s1 ∧ Keep s s1) := by
  refine (Wc.of_wp (eatRegexpUnicodeSurrogatePairEscape_wp r s h) NE.eatRegexpUnicodeSurrogatePairEscape).mono ?_
  rintro b s1 ⟨hk1, hb⟩
  cases b
  · rw [if_neg (by decide)] at hb
    exact ⟨rfl, hb.1, hk1⟩
  · rw [if_pos rfl] at hb
    obtain ⟨r1', l', t', hp', _⟩ := hb
    exact absurd ⟨r1', l', t', hp'⟩ hn

theorem eatHexDigits_wc (n : Nat) (ds r1 : List Nat) (s : St) (h : UAt src N (ds ++ r1) s)
    (hne : ds ≠ []) (hds : ∀ d ∈ ds, HexDigit d) (hstop : ∀ d, r1.head? = some d → ¬HexDigit d) :
    Wc (eatHexDigits n s) (fun b s1 => b = true ∧ UAt src N r1 s1 ∧
      s1.lastIntValue = satI (mvHex ds) ∧ Keep s s1) := by
  refine (Wc.of_wp (eatHexDigits_wp n _ s h) (NE.eatHexDigits n)).mono ?_
  rintro b s1 ⟨hk1, ds', r1', he, hds', hstop', hat, hv, hb⟩
  obtain ⟨e1, e2⟩ := run_unique he hds hds' hstop hstop'
  subst e1 e2
  exact ⟨hb.mpr hne, hat, hv, hk1⟩

theorem not_hexDigit_rbrace : ¬HexDigit (ch '}') := by
  intro h
  have h' : (0x30 ≤ ch '}' ∧ ch '}' ≤ 0x39) ∨ (0x61 ≤ ch '}' ∧ ch '}' ≤ 0x66) ∨ (0x41 ≤ ch '}' ∧ ch '}' ≤ 0x46) := h
  revert h'; decide

theorem satI_small {v : Nat} (h : v ≤ 0x10FFFF) : satI v = (v : Int) := by
  unfold satI i64Max; split <;> omega

theorem eatRegexpUnicodeCodepointEscape_wc (n : Nat) (ds r1 : List Nat) (s : St)
    (h : UAt src N (ch '{' :: (ds ++ ch '}' :: r1)) s) (hne : ds ≠ []) (hds : ∀ d ∈ ds, HexDigit d)
    (hle : mvHex ds ≤ 0x10FFFF) :
    Wc (eatRegexpUnicodeCodepointEscape n s) (fun b s1 => b = true ∧ UAt src N r1 s1 ∧
      s1.lastIntValue = (mvHex ds : Nat) ∧ Keep s s1) := by
  have hhx := fun s h => eatHexDigits_wc (src := src) (N := N) n ds (ch '}' :: r1) s h hne hds
    (by intro d hd; cases hd; exact not_hexDigit_rbrace)
  unfold eatRegexpUnicodeCodepointEscape
  rx5_auto
  case neg =>
    rename_i hn _
    have hv := ‹_ = satI (mvHex ds)›
    exfalso; apply hn
    st_norm
    rw [hv, satI_small hle]
    exact decide_eq_true (by omega)
  have hv := ‹_ = satI (mvHex ds)›
  rx5_fin
  st_norm
  rw [hv, satI_small hle]

theorem not_hexDigit_lbrace : ¬HexDigit (ch '{') := by
  intro h
  have h' : (0x30 ≤ ch '{' ∧ ch '{' ≤ 0x39) ∨ (0x61 ≤ ch '{' ∧ ch '{' ≤ 0x66) ∨ (0x41 ≤ ch '{' ∧ ch '{' ≤ 0x46) := h
  revert h'; decide

theorem no_fixed_of_head {k x : Nat} {m : List Nat} (hk : 0 < k) (hx : ¬HexDigit x) :
    ¬∃ ds r1, x :: m = ds ++ r1 ∧ ds.length = k ∧ ∀ d ∈ ds, HexDigit d := by
  rintro ⟨ds, r1, he, hl, hd⟩
  cases ds with
  | nil => simp at hl; omega
  | cons y ds =>
    have : x = y := (List.cons.inj he).1
    exact hx (this ▸ hd y (by simp))

theorem no_pair_of_head {x : Nat} {m : List Nat} (hx : ¬HexDigit x) : ¬∃ r1 l t, PairText (x :: m) r1 l t := by
  rintro ⟨r1, l, t, ds1, ds2, hr, l1, _, hd1, _⟩
  exact no_fixed_of_head (k := 4) (by decide) hx ⟨ds1, _, hr, l1, hd1⟩

theorem pairText_of_hex4 {m1 m2 r : List Nat} {l t : Nat} (h1 : Hex4Digits m1 (c '\\' :: c 'u' :: m2) l) (hl : isLead l)
    (h2 : Hex4Digits m2 r t) (ht : isTrail t) : PairText m1 r l t := by
  obtain ⟨a, b, c', d, e1, ha, hb, hc, hd, v1⟩ := h1
  obtain ⟨a2, b2, c2, d2, e2, ha2, hb2, hc2, hd2, v2⟩ := h2
  refine ⟨[a, b, c', d], [a2, b2, c2, d2], ?_, rfl, rfl, ?_, ?_, v1, v2, hl, ht⟩
  · rw [e1, e2]; rfl
  · intro x hx; simp at hx; rcases hx with rfl | rfl | rfl | rfl <;> assumption
  · intro x hx; simp at hx; rcases hx with rfl | rfl | rfl | rfl <;> assumption

theorem hex4_of_pairText {m r1 r : List Nat} {l t v : Nat} (hp : PairText m r1 l t) (h4 : Hex4Digits m r v) :
    l = v ∧ ∃ m', r = c '\\' :: c 'u' :: m' ∧ Hex4Digits m' r1 t ∧ isTrail t := by
  obtain ⟨a, b, c', d, e1, ha, hb, hc, hd, v1⟩ := h4
  obtain ⟨ds2, hrest, l2, hd1, hd2, hl, ht, hL, hT⟩ := pair_split (w := [a, b, c', d]) (rest := r) e1 rfl hp
  refine ⟨by rw [hl, v1], ds2 ++ r1, hrest, ?_, hT⟩
  rcases ds2 with _ | ⟨a2, _ | ⟨b2, _ | ⟨c2, _ | ⟨d2, _ | ⟨e, t'⟩⟩⟩⟩⟩ <;> simp at l2
  exact ⟨a2, b2, c2, d2, rfl, hd2 a2 (by simp), hd2 b2 (by simp), hd2 c2 (by simp), hd2 d2 (by simp), ht⟩

theorem eatRegexpUnicodeEscapeSequence_wc (n : Nat) (f : Bool) (r r1 : List Nat) (v : Nat) (s : St) (h : UAt src N r s)
    (hD : RegExpUnicodeEscapeSequence r r1 v) :
    Wc (eatRegexpUnicodeEscapeSequence n f s) (fun b s1 => b = true ∧ UAt src N r1 s1 ∧
      s1.lastIntValue = (v : Nat) ∧ Keep s s1) := by
  cases hD with
  | surrogatePair m₁ m₂ _ lead trail h1 hl h2 ht =>
    have hp := pairText_of_hex4 h1 hl h2 ht
    unfold eatRegexpUnicodeEscapeSequence
    rx5_auto
    all_goals rx5_close
  | lead m _ _ h4 hl hno =>
    have hnp : ¬∃ r1 l t, PairText m r1 l t := by
      rintro ⟨r1', l, t, hp⟩
      obtain ⟨_, m', e, h4', ht⟩ := hex4_of_pairText hp h4
      exact hno ⟨m', r1', t, e, h4', ht⟩
    obtain ⟨a, b, c', d, e1, ha, hb, hc, hd, v1⟩ := h4
    subst e1 v1
    have hfx := fun s h => eatFixedHexDigits_wc (src := src) (N := N) 4 (by decide) [a, b, c', d] r1 s h rfl
      (by intro x hx; simp at hx; rcases hx with rfl | rfl | rfl | rfl <;> assumption)
    unfold eatRegexpUnicodeEscapeSequence
    rx5_auto
    all_goals rx5_close
  | nonLead m _ _ h4 hnl =>
    have hnp : ¬∃ r1 l t, PairText m r1 l t := by
      rintro ⟨r1', l, t, hp⟩
      obtain ⟨e, _⟩ := hex4_of_pairText hp h4
      obtain ⟨_, _, _, _, _, _, _, _, _, hL, _⟩ := hp
      exact hnl (e ▸ hL)
    obtain ⟨a, b, c', d, e1, ha, hb, hc, hd, v1⟩ := h4
    subst e1 v1
    have hfx := fun s h => eatFixedHexDigits_wc (src := src) (N := N) 4 (by decide) [a, b, c', d] r1 s h rfl
      (by intro x hx; simp at hx; rcases hx with rfl | rfl | rfl | rfl <;> assumption)
    unfold eatRegexpUnicodeEscapeSequence
    rx5_auto
    all_goals rx5_close
  | codePoint m _ ds hrun hle =>
    obtain ⟨e, hne, hds⟩ := hrun
    subst e
    have hnp : ¬∃ r1' l t, PairText (c '{' :: (ds ++ c '}' :: r1)) r1' l t := no_pair_of_head not_hexDigit_lbrace
    have hnf : ¬∃ ds' r1', c '{' :: (ds ++ c '}' :: r1) = ds' ++ r1' ∧ ds'.length = 4 ∧ ∀ d ∈ ds', HexDigit d :=
      no_fixed_of_head (by decide) not_hexDigit_lbrace
    unfold eatRegexpUnicodeEscapeSequence
    rx5_auto
    all_goals rx5_close

theorem eatRegexpUnicodeEscapeSequence_wcn (n : Nat) (f : Bool) (r : List Nat) (s : St) (h : UAt src N r s)
    (hn : r.head? ≠ some (ch 'u')) :
    Wc (eatRegexpUnicodeEscapeSequence n f s) (fun b s1 => b = false ∧ s1 = s) := by
  unfold eatRegexpUnicodeEscapeSequence
  rx5_auto
  all_goals first | exact absurd rfl hn | exact ⟨rfl, rfl⟩

theorem rues_head {i r : List Nat} {v : Nat} (h : RegExpUnicodeEscapeSequence i r v) : ∃ m, i = ch 'u' :: m := by
  cases h <;> exact ⟨_, rfl⟩

/-- the first characters that start another alternative of `CharacterEscape` -/
theorem identity_head {x : Nat} (hx : SyntaxCharacter x ∨ x = c '/') :
    ctlVal x = none ∧ x ≠ ch 'c' ∧ x ≠ ch '0' ∧ x ≠ ch 'x' ∧ x ≠ ch 'u' := by
  rcases hx with hx | hx
  · unfold SyntaxCharacter at hx
    simp only [List.mem_cons, List.not_mem_nil, or_false] at hx
    rcases hx with h | h | h | h | h | h | h | h | h | h | h | h | h | h <;> subst h <;> decide
  · subst hx; decide

theorem consumeCharacterEscape_wc (n : Nat) (r r1 : List Nat) (v : Nat) (s : St) (h : UAt src N r s)
    (hD : CharacterEscape r r1 v) :
    Wc (consumeCharacterEscape n s) (fun b s1 => b = true ∧ UAt src N r1 s1 ∧ s1.lastIntValue = (v : Nat) ∧ Keep s s1) := by
  cases hD with
  | unicode _ _ _ hu =>
    obtain ⟨m, rfl⟩ := rues_head hu
    unfold consumeCharacterEscape
    rx5_autos
    all_goals rx5_close
  | identity _ _ hx =>
    obtain ⟨h1, h2, h3, h4, h5⟩ := identity_head hx
    have g1 : (v :: r1).head?.bind ctlVal = none := h1
    have g2 := head_ne_of_ne h2 r1
    have g3 := head_ne_of_ne h3 r1
    have g4 := head_ne_of_ne h4 r1
    have g5 := head_ne_of_ne h5 r1
    unfold consumeCharacterEscape
    rx5_autos
    all_goals rx5_close
  | _ =>
    unfold consumeCharacterEscape
    rx5_autos
    all_goals (first | rx5_close | (rx5_fin; assumption))

end DL.Rx
