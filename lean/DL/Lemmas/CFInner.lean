import DL.Lemmas.CFReach

/-! `inner` (reach from the entries of nested functions) is false outside `positions`; function-scope positions. -/
namespace DL.CF

mutual
theorem Stmt.inner_mem : ∀ (s : Stmt) (p : Nat), s.inner p = true → p ∈ s.positions
  | .simple q t kids, p, h => by
    simp only [Stmt.inner] at h
    rw [Stmt.mem_positions_simple]; exact Or.inr (Kids.inner_mem kids p h)
  | .block q b, p, h => by
    simp only [Stmt.inner] at h
    simp only [Stmt.positions, List.mem_cons]; exact Or.inr (Stmts.inner_mem b p h)
  | .ifS q t c none, p, h => by
    simp only [Stmt.inner, Bool.or_eq_true] at h
    simp only [Stmt.positions, List.mem_cons, List.mem_append]
    exact Or.inr (h.imp (Kids.inner_mem t p) (Stmt.inner_mem c p))
  | .ifS q t c (some al), p, h => by
    simp only [Stmt.inner, Bool.or_eq_true] at h
    simp only [Stmt.positions, List.mem_cons, List.mem_append]
    rcases h with (h | h) | h
    · exact Or.inr (Or.inl (Kids.inner_mem t p h))
    · exact Or.inr (Or.inr (Or.inl (Stmt.inner_mem c p h)))
    · exact Or.inr (Or.inr (Or.inr (Stmt.inner_mem al p h)))
  | .whileS q t tt b, p, h => by
    simp only [Stmt.inner, Bool.or_eq_true] at h
    simp only [Stmt.positions, List.mem_cons, List.mem_append]
    exact Or.inr (h.imp (Kids.inner_mem t p) (Stmt.inner_mem b p))
  | .doWhileS q b t tt, p, h => by
    simp only [Stmt.inner, Bool.or_eq_true] at h
    simp only [Stmt.positions, List.mem_cons, List.mem_append]
    exact Or.inr (h.imp (Kids.inner_mem t p) (Stmt.inner_mem b p))
  | .forS q i u t ht tt b, p, h => by
    simp only [Stmt.inner, Bool.or_eq_true] at h
    simp only [Stmt.positions, List.mem_cons, List.mem_append]
    rcases h with ((h | h) | h) | h
    · exact Or.inr (Or.inl (Or.inl (Kids.inner_mem i p h)))
    · exact Or.inr (Or.inl (Or.inr (Or.inl (Kids.inner_mem u p h))))
    · exact Or.inr (Or.inl (Or.inr (Or.inr (Kids.inner_mem t p h))))
    · exact Or.inr (Or.inr (Stmt.inner_mem b p h))
  | .forInOf q l r b, p, h => by
    simp only [Stmt.inner, Bool.or_eq_true] at h
    simp only [Stmt.positions, List.mem_cons, List.mem_append]
    rcases h with (h | h) | h
    · exact Or.inr (Or.inl (Or.inl (Kids.inner_mem l p h)))
    · exact Or.inr (Or.inl (Or.inr (Kids.inner_mem r p h)))
    · exact Or.inr (Or.inr (Stmt.inner_mem b p h))
  | .switchS q d cs, p, h => by
    simp only [Stmt.inner, Bool.or_eq_true] at h
    simp only [Stmt.positions, List.mem_cons, List.mem_append]
    exact Or.inr (h.imp (Kids.inner_mem d p) (Cases.inner_mem cs p))
  | .tryS q bp b hh cp ck hf fp f, p, h => by
    simp only [Stmt.inner, Bool.or_eq_true] at h
    simp only [Stmt.positions, List.mem_cons, List.mem_append]
    rcases h with (h | h) | h
    · exact Or.inr (Or.inr (Or.inl (Stmts.inner_mem b p h)))
    · exact Or.inr (Or.inr (Or.inr (Or.inl (Or.inr (Kids.inner_mem ck p h)))))
    · exact Or.inr (Or.inr (Or.inr (Or.inr (Or.inr (Stmts.inner_mem f p h)))))
  | .labeled q _ b, p, h => by
    simp only [Stmt.inner] at h
    simp only [Stmt.positions, List.mem_cons]; exact Or.inr (Stmt.inner_mem b p h)
  | .brk q l, p, h => by simp [Stmt.inner] at h
  | .cont q l, p, h => by simp [Stmt.inner] at h
  | .ret q a, p, h => by
    simp only [Stmt.inner] at h
    simp only [Stmt.positions, List.mem_cons]; exact Or.inr (Kids.inner_mem a p h)
  | .throw q a, p, h => by
    simp only [Stmt.inner] at h
    simp only [Stmt.positions, List.mem_cons]; exact Or.inr (Kids.inner_mem a p h)
theorem Stmts.inner_mem : ∀ (l : Stmts) (p : Nat), l.inner p = true → p ∈ l.positions
  | .nil, p, h => by simp [Stmts.inner] at h
  | .cons s r, p, h => by
    simp only [Stmts.inner, Bool.or_eq_true] at h
    simp only [Stmts.positions, List.mem_append]
    exact h.imp (Stmt.inner_mem s p) (Stmts.inner_mem r p)
theorem Kid.inner_mem : ∀ (k : Kid) (p : Nat), k.inner p = true → p ∈ k.positions
  | .expr _ ks, p, h => by simp only [Kid.inner] at h; simp only [Kid.positions]; exact Kids.inner_mem ks p h
  | .fnScope q ks, p, h => by
    simp only [Kid.inner, Bool.or_eq_true] at h
    simp only [Kid.positions, List.mem_cons]
    rcases h with (h | h) | h
    · exact Or.inr (Kids.entryReach_mem ks p h)
    · exact Or.inr (Kids.flowReach_mem ks p h)
    · exact Or.inr (Kids.inner_mem ks p h)
  | .block q body, p, h => by
    simp only [Kid.inner] at h
    simp only [Kid.positions, List.mem_cons]; exact Or.inr (Stmts.inner_mem body p h)
  | .stmt s, p, h => by simp only [Kid.inner] at h; simp only [Kid.positions]; exact Stmt.inner_mem s p h
theorem Kids.inner_mem : ∀ (ks : Kids) (p : Nat), ks.inner p = true → p ∈ ks.positions
  | .nil, p, h => by simp [Kids.inner] at h
  | .cons k r, p, h => by
    simp only [Kids.inner, Bool.or_eq_true] at h
    simp only [Kids.positions, List.mem_append]
    exact h.imp (Kid.inner_mem k p) (Kids.inner_mem r p)
theorem Cases.inner_mem : ∀ (cs : Cases) (p : Nat), cs.inner p = true → p ∈ cs.positions
  | .nil, p, h => by simp [Cases.inner] at h
  | .cons q _ t b r, p, h => by
    simp only [Cases.inner, Bool.or_eq_true] at h
    simp only [Cases.positions, List.mem_cons, List.mem_append]
    rcases h with (h | h) | h
    · exact Or.inr (Or.inl (Kids.inner_mem t p h))
    · exact Or.inr (Or.inr (Or.inl (Stmts.inner_mem b p h)))
    · exact Or.inr (Or.inr (Or.inr (Cases.inner_mem r p h)))
end

theorem Stmt.inner_false (s : Stmt) (p : Nat) (h : p ∉ s.positions) : s.inner p = false := by
  cases hr : s.inner p with
  | false => rfl
  | true => exact absurd (s.inner_mem p hr) h
theorem Stmts.inner_false (l : Stmts) (p : Nat) (h : p ∉ l.positions) : l.inner p = false := by
  cases hr : l.inner p with
  | false => rfl
  | true => exact absurd (l.inner_mem p hr) h
theorem Kid.inner_false (l : Kid) (p : Nat) (h : p ∉ l.positions) : l.inner p = false := by
  cases hr : l.inner p with
  | false => rfl
  | true => exact absurd (l.inner_mem p hr) h
theorem Kids.inner_false (l : Kids) (p : Nat) (h : p ∉ l.positions) : l.inner p = false := by
  cases hr : l.inner p with
  | false => rfl
  | true => exact absurd (l.inner_mem p hr) h

/-! a function-scope position of an expression tree (with pairwise distinct positions) is not the position of a
statement inside, and nothing inside at that position is reached from a function entry -/
mutual
theorem Kid.fpos_sep : ∀ (k : Kid) (q : Nat), q ∈ k.fpos → k.positions.Nodup → q ∉ k.upos ∧ k.inner q = false
  | .expr _ ks, q, h, hn => by
    simp only [Kid.fpos] at h; simp only [Kid.positions] at hn
    simpa only [Kid.upos, Kid.inner] using Kids.fpos_sep ks q h hn
  | .fnScope p ks, q, h, hn => by
    simp only [Kid.fpos, List.mem_singleton] at h; subst h
    simp only [Kid.positions] at hn
    have hq := (List.nodup_cons.mp hn).1
    refine ⟨fun hu => hq (Kids.upos_sub ks q hu), ?_⟩
    simp [Kid.inner, Kids.entryReach_false ks q hq, Kids.flowReach_false ks q hq, Kids.inner_false ks q hq]
  | .block _ _, q, h, _ => by simp [Kid.fpos] at h
  | .stmt _, q, h, _ => by simp [Kid.fpos] at h
theorem Kids.fpos_sep : ∀ (ks : Kids) (q : Nat), q ∈ ks.fpos → ks.positions.Nodup → q ∉ ks.upos ∧ ks.inner q = false
  | .nil, q, h, _ => by simp [Kids.fpos] at h
  | .cons k r, q, h, hn => by
    simp only [Kids.fpos, List.mem_append] at h
    simp only [Kids.positions] at hn
    have hn' := List.nodup_append.mp hn
    simp only [Kids.upos, Kids.inner, List.mem_append, not_or, Bool.or_eq_false_iff]
    rcases h with h | h
    · have h1 := Kid.fpos_sep k q h hn'.1
      have hq : q ∉ r.positions := fun hr => hn'.2.2 q (Kid.fpos_sub k q h) q hr rfl
      exact ⟨⟨h1.1, fun hu => hq (Kids.upos_sub r q hu)⟩, h1.2, Kids.inner_false r q hq⟩
    · have h1 := Kids.fpos_sep r q h hn'.2.1
      have hq : q ∉ k.positions := fun hk => hn'.2.2 q hk q (Kids.fpos_sub r q h) rfl
      exact ⟨⟨fun hu => hq (Kid.upos_sub k q hu), h1.1⟩, Kid.inner_false k q hq, h1.2⟩
end

/-- the own position of a `simple` statement is not the position of a statement in its kids, and not reached from a
function entry in its kids -/
theorem Stmt.simple_own_sep (p : Nat) (t : Tag) (kids : Kids) (h : (Stmt.simple p t kids).positions.Nodup) :
    p ∉ kids.upos ∧ kids.inner p = false := by
  rcases Stmt.simple_own p t kids h with h1 | h1
  · exact Kids.fpos_sep kids p h1 (Stmt.nodup_simple p t kids h)
  · exact ⟨fun hu => h1 (Kids.upos_sub kids p hu), Kids.inner_false kids p h1⟩

end DL.CF
