import DL.Lemmas.RxFuEscapes

/-!
# Fuel adequacy: the recursive productions

With `r = E - i` code units left, `consume_disjunction` needs fuel `5 r + 15`: one level each for
disjunction → alternative → term → atom → group, and the group consumes at least its `(`; the iteration of
`consume_alternative` / the `|` loop costs one level per term / per `|`, each of which consumes at least one unit.
-/
namespace DL.Rx
attribute [local irreducible] isScalar
variable {E : Nat}

structure AllFu (E n : Nat) : Prop where
  disjunction : ∀ (i : Nat) (ne : Bool), 5 * (E - i) + 15 ≤ n → Fu E i ne (consumeDisjunction n) (fun _ => i)
  disjunctionLoop : ∀ (i : Nat) (ne : Bool), 5 * (E - i) + 14 ≤ n → Fu E i ne (consumeDisjunctionLoop n) (fun _ => i)
  alternative : ∀ (i : Nat) (ne : Bool), 5 * (E - i) + 14 ≤ n → Fu E i ne (consumeAlternative n) (fun _ => i)
  term : ∀ (i : Nat) (ne : Bool), 5 * (E - i) + 13 ≤ n → Fu E i ne (consumeTerm n) (fun b => i + b.toNat)
  assertion : ∀ (i : Nat) (ne : Bool), 5 * (E - i) + 11 ≤ n → Fu E i ne (consumeAssertion n) (fun b => i + b.toNat)
  atom : ∀ (i : Nat) (ne : Bool), 5 * (E - i) + 12 ≤ n → Fu E i ne (consumeAtom n) (fun b => i + b.toNat)
  extendedAtom : ∀ (i : Nat) (ne : Bool), 5 * (E - i) + 12 ≤ n → Fu E i ne (consumeExtendedAtom n) (fun b => i + b.toNat)
  uncapturingGroup : ∀ (i : Nat) (ne : Bool), 5 * (E - i) + 11 ≤ n →
    Fu E i ne (consumeUncapturingGroup n) (fun b => i + b.toNat)
  capturingGroup : ∀ (i : Nat) (ne : Bool), 5 * (E - i) + 11 ≤ n →
    Fu E i ne (consumeCapturingGroup n) (fun b => i + b.toNat)

theorem allFu : ∀ n, AllFu E n
  | 0 => by
    constructor <;> (intro i ne hn; exfalso; omega)
  | n + 1 => by
    have ih : AllFu E n := allFu n
    have h1 := ih.disjunction
    have h2 := ih.disjunctionLoop
    have h3 := ih.alternative
    have h4 := ih.term
    have h5 := ih.assertion
    have h6 := ih.atom
    have h7 := ih.extendedAtom
    have h8 := ih.uncapturingGroup
    have h9 := ih.capturingGroup
    constructor
    · intro i ne hn; unfold consumeDisjunction; rx3_auto
    · intro i ne hn; unfold consumeDisjunctionLoop; rx3_auto
    · intro i ne hn; unfold consumeAlternative; rx3_auto
    · intro i ne hn; unfold consumeTerm; rx3_auto
    · intro i ne hn; unfold consumeAssertion; rx3_auto
    · intro i ne hn; unfold consumeAtom; rx3_auto
    · intro i ne hn; unfold consumeExtendedAtom; rx3_auto
    · intro i ne hn; unfold consumeUncapturingGroup; rx3_auto
    · intro i ne hn; unfold consumeCapturingGroup; rx3_auto

theorem F.consumeDisjunction (i : Nat) {ne : Bool} (n : Nat) (hn : 5 * (E - i) + 15 ≤ n) :
    Fu E i ne (consumeDisjunction n) (fun _ => i) := (allFu n).disjunction i ne hn

end DL.Rx
