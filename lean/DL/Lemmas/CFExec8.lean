import DL.Lemmas.CFExec7
import DL.Lemmas.CFClaims11

/-! Whole programs: reached from the program start, or from the entry of a function body occurring in the program. -/
namespace DL.CF

/-- a program point is reached by some execution of the program or of one of its functions: from the start of the
program, or from the entry of a function body (`Program.getters`: every function scope with a body block, at any depth) -/
def Program.Reaches (prog : Program) (p : Nat) : Prop :=
  ReachesItems prog.items p ∨ ∃ g ∈ prog.getters, p = g.bodyP ∨ ReachesList g.body p

/-- "entering this function body reaches `p`", closed form -/
def Getter.reach (g : Getter) (p : Nat) : Bool := p == g.bodyP || g.body.reach p

theorem Kids.fnBodies_entry (q : Nat) : ∀ (ks : Kids) (g : Getter) (p : Nat), g ∈ ks.fnBodies q → g.reach p = true →
    ks.entryReach p = true
  | .nil, g, p, h, _ => by simp [Kids.fnBodies] at h
  | .cons (.block b body) r, g, p, h, hr => by
    simp only [Kids.fnBodies, List.mem_cons] at h
    rcases h with rfl | h
    · simp only [Getter.reach, Bool.or_eq_true] at hr
      simp only [Kids.entryReach, Bool.or_eq_true]
      exact Or.inl hr
    · simp [Kids.entryReach, Kids.fnBodies_entry q r g p h hr]
  | .cons (.expr _ _) r, g, p, h, hr => by
    simp only [Kids.fnBodies] at h; simp only [Kids.entryReach]; exact Kids.fnBodies_entry q r g p h hr
  | .cons (.fnScope _ _) r, g, p, h, hr => by
    simp only [Kids.fnBodies] at h; simp only [Kids.entryReach]; exact Kids.fnBodies_entry q r g p h hr
  | .cons (.stmt _) r, g, p, h, hr => by
    simp only [Kids.fnBodies] at h; simp only [Kids.entryReach]; exact Kids.fnBodies_entry q r g p h hr

/-- the function bodies in a piece of syntax are entries of `inner` (unconditional) -/
def InnerOf (gs : List Getter) (inn : Nat → Bool) : Prop := ∀ g ∈ gs, ∀ p, g.reach p = true → inn p = true

theorem InnerOf.nil (inn : Nat → Bool) : InnerOf [] inn := fun _ h => absurd h (by simp)
theorem InnerOf.append {g1 g2 : List Getter} {i1 i2 : Nat → Bool} (h1 : InnerOf g1 i1) (h2 : InnerOf g2 i2) :
    InnerOf (g1 ++ g2) (fun p => i1 p || i2 p) := by
  intro g hg p hp
  rcases List.mem_append.mp hg with h | h
  · simp [h1 g h p hp]
  · simp [h2 g h p hp]
theorem InnerOf.congr {gs : List Getter} {i1 i2 : Nat → Bool} (h : InnerOf gs i1) (he : ∀ p, i2 p = i1 p) : InnerOf gs i2 :=
  fun g hg p hp => by rw [he]; exact h g hg p hp

mutual
theorem Stmt.getters_inner : ∀ (s : Stmt), InnerOf s.getters s.inner
  | .simple _ _ kids => (Kids.getters_inner kids).congr (fun _ => rfl)
  | .block _ b => (Stmts.getters_inner b).congr (fun _ => rfl)
  | .ifS _ t c none => ((Kids.getters_inner t).append (Stmt.getters_inner c)).congr (fun _ => rfl)
  | .ifS _ t c (some a) =>
    ((Kids.getters_inner t).append ((Stmt.getters_inner c).append (Stmt.getters_inner a))).congr
      (fun p => by simp [Stmt.inner, Bool.or_assoc])
  | .whileS _ t _ b => ((Kids.getters_inner t).append (Stmt.getters_inner b)).congr (fun _ => rfl)
  | .doWhileS _ b t _ => ((Kids.getters_inner t).append (Stmt.getters_inner b)).congr (fun _ => rfl)
  | .forS _ i u t _ _ b =>
    (((Kids.getters_inner i).append ((Kids.getters_inner u).append (Kids.getters_inner t))).append (Stmt.getters_inner b)).congr
      (fun p => by simp [Stmt.inner, Bool.or_assoc])
  | .forInOf _ l r b =>
    (((Kids.getters_inner l).append (Kids.getters_inner r)).append (Stmt.getters_inner b)).congr (fun _ => rfl)
  | .switchS _ d cs => ((Kids.getters_inner d).append (Cases.getters_inner cs)).congr (fun _ => rfl)
  | .tryS _ _ b _ _ ck _ _ f =>
    ((Stmts.getters_inner b).append ((Kids.getters_inner ck).append (Stmts.getters_inner f))).congr
      (fun p => by simp [Stmt.inner, Bool.or_assoc])
  | .labeled _ _ b => (Stmt.getters_inner b).congr (fun _ => rfl)
  | .brk _ _ => InnerOf.nil _
  | .cont _ _ => InnerOf.nil _
  | .ret _ a => (Kids.getters_inner a).congr (fun _ => rfl)
  | .throw _ a => (Kids.getters_inner a).congr (fun _ => rfl)
theorem Stmts.getters_inner : ∀ (l : Stmts), InnerOf l.getters l.inner
  | .nil => InnerOf.nil _
  | .cons s r => ((Stmt.getters_inner s).append (Stmts.getters_inner r)).congr (fun _ => rfl)
theorem Kid.getters_inner : ∀ (k : Kid), InnerOf k.getters k.inner
  | .expr _ ks => (Kids.getters_inner ks).congr (fun _ => rfl)
  | .fnScope q ks => by
    intro g hg p hp
    simp only [Kid.getters, List.mem_append] at hg
    simp only [Kid.inner, Bool.or_eq_true]
    rcases hg with h | h
    · exact Or.inl (Or.inl (Kids.fnBodies_entry q ks g p h hp))
    · exact Or.inr (Kids.getters_inner ks g h p hp)
  | .block _ b => (Stmts.getters_inner b).congr (fun _ => rfl)
  | .stmt s => (Stmt.getters_inner s).congr (fun _ => rfl)
theorem Kids.getters_inner : ∀ (ks : Kids), InnerOf ks.getters ks.inner
  | .nil => InnerOf.nil _
  | .cons k r => ((Kid.getters_inner k).append (Kids.getters_inner r)).congr (fun _ => rfl)
theorem Cases.getters_inner : ∀ (cs : Cases), InnerOf cs.getters cs.inner
  | .nil => InnerOf.nil _
  | .cons _ _ t b r =>
    ((Kids.getters_inner t).append ((Stmts.getters_inner b).append (Cases.getters_inner r))).congr
      (fun p => by simp [Cases.inner, Bool.or_assoc])
end

theorem itemsGetters_inner : ∀ (items : List Item), InnerOf (itemsGetters items) (itemsInner items)
  | [] => InnerOf.nil _
  | .stmt s :: r => ((Stmt.getters_inner s).append (itemsGetters_inner r)).congr (fun _ => rfl)
  | .decl k :: r => ((Kids.getters_inner k).append (itemsGetters_inner r)).congr (fun _ => rfl)

/-- **soundness of `Program.reachable`** (unconditional) -/
theorem Program.Reaches.sound {prog : Program} {p : Nat} (h : prog.Reaches p) : prog.reachable p = true := by
  unfold Program.reachable
  rcases h with h | ⟨g, hg, h⟩
  · simp [h.sound]
  · have : g.reach p = true := by
      simp only [Getter.reach, Bool.or_eq_true, beq_iff_eq]
      exact h.imp id (fun h => h.sound)
    simp [itemsGetters_inner prog.items g hg p this]

end DL.CF
