import DL.Lemmas.RxIndReader

/-! # History independence: tables, identifier tests, the `eat_*` leaves (first part) -/
namespace DL.Rx
attribute [local irreducible] isScalar
variable {c : Bool}
set_option linter.unusedSimpArgs false

theorem I.isInRangeLoop (W : RegSet) (cp : Nat) (ranges : Array Nat) :
    ∀ n l r, Ind c W (isInRangeLoop cp ranges n l r) (fun _ => W)
  | 0, _, _ => by unfold DL.Rx.isInRangeLoop; rx2_auto
  | n + 1, l, r => by
    have ih := I.isInRangeLoop W cp ranges n
    have ih1 := ih l ((l + r) / 2)
    have ih2 := ih ((l + r) / 2 + 1) r
    unfold DL.Rx.isInRangeLoop; rx2_auto

theorem I.isInRange (W : RegSet) (cp : Nat) (ranges : Array Nat) : Ind c W (isInRange cp ranges) (fun _ => W) :=
  I.isInRangeLoop W cp ranges _ _ _

theorem I.isLargeIdStart (W : RegSet) (cp : Nat) : Ind c W (isLargeIdStart cp) (fun _ => W) := I.isInRange W cp _
theorem I.isLargeIdContinue (W : RegSet) (cp : Nat) : Ind c W (isLargeIdContinue cp) (fun _ => W) := I.isInRange W cp _
-- the unifier must not compare the two tables element by element
attribute [local irreducible] isLargeIdStart isLargeIdContinue

theorem I.isIdStart (W : RegSet) (cp : Nat) : Ind c W (isIdStart cp) (fun _ => W) := by
  unfold DL.Rx.isIdStart; rx2_auto

theorem I.isIdContinue (W : RegSet) (cp : Nat) : Ind c W (isIdContinue cp) (fun _ => W) := by
  unfold DL.Rx.isIdContinue; rx2_auto

theorem I.isRegexpIdentifierStart (W : RegSet) (cp : Nat) : Ind c W (isRegexpIdentifierStart cp) (fun _ => W) := by
  unfold DL.Rx.isRegexpIdentifierStart; rx2_auto

theorem I.isRegexpIdentifierPart (W : RegSet) (cp : Nat) : Ind c W (isRegexpIdentifierPart cp) (fun _ => W) := by
  unfold DL.Rx.isRegexpIdentifierPart; rx2_auto

theorem I.checkedI64 (W : RegSet) (v : Int) (site : String) : Ind c W (checkedI64 v site) (fun _ => W) := by
  unfold DL.Rx.checkedI64; rx2_auto

theorem I.eatFixedHexDigitsLoop (W : RegSet) (start : Nat) :
    ∀ k, Ind c (ins .int W) (eatFixedHexDigitsLoop start k) (fun _ => ins .int W)
  | 0 => by unfold DL.Rx.eatFixedHexDigitsLoop; rx2_auto
  | k + 1 => by
    have ih := I.eatFixedHexDigitsLoop W start k
    unfold DL.Rx.eatFixedHexDigitsLoop; rx2_auto

theorem I.eatFixedHexDigits (W : RegSet) (n : Nat) : Ind c W (eatFixedHexDigits n) (fun _ => ins .int W) := by
  unfold DL.Rx.eatFixedHexDigits; rx2_auto

theorem I.eatOctalDigit (W : RegSet) : Ind c W eatOctalDigit (fun _ => ins .int W) := by
  unfold DL.Rx.eatOctalDigit; rx2_auto

theorem I.eatLegacyOctalEscapeSequence (W : RegSet) : Ind c W eatLegacyOctalEscapeSequence (fun _ => ins .int W) := by
  unfold DL.Rx.eatLegacyOctalEscapeSequence; rx2_auto

end DL.Rx
