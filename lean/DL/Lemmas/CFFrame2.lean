import DL.Lemmas.CFFrame

namespace DL.CF

theorem mem_optPos (b : Bool) (p q : Nat) : q ∈ optPos b p ↔ (b = true ∧ q = p) := by
  cases b <;> simp [optPos]

mutual
theorem Stmt.info_frame : ∀ (s : Stmt) (a : A) (q : Nat), q ∉ s.positions → (visitStmt s a).info q = a.info q
  | .simple p t kids, a, q, h => by
    rw [Stmt.mem_positions_simple, not_or] at h
    simp only [visitStmt]
    rw [Kids.info_frame kids _ q h.2]; exact setUnreach_other _ _ _ _ h.1
  | .block p b, a, q, h => by
    simp only [Stmt.positions, List.mem_cons, not_or] at h
    simp only [visitStmt]
    rw [blockTail_info _ _ _ h.1, Stmts.info_frame b _ q h.2]; exact setUnreach_other _ _ _ _ h.1
  | .ifS p t c none, a, q, h => by
    simp only [Stmt.positions, List.mem_cons, List.mem_append, not_or] at h
    have hc : q ≠ c.pos := fun e => h.2.2 (e ▸ c.pos_mem)
    simp only [visitStmt, setEnd_info]
    rw [markAsEnd_info_other _ _ _ _ h.1, withChild_info _ _ _ _ _ hc, sobTail_info _ _ _ hc, Stmt.info_frame c _ q h.2.2]
    simp only
    rw [Kids.info_frame t _ q h.2.1]; exact setUnreach_other _ _ _ _ h.1
  | .ifS p t c (some al), a, q, h => by
    simp only [Stmt.positions, List.mem_cons, List.mem_append, not_or] at h
    have hc : q ≠ c.pos := fun e => h.2.2.1 (e ▸ c.pos_mem)
    have hal : q ≠ al.pos := fun e => h.2.2.2 (e ▸ al.pos_mem)
    simp only [visitStmt]
    rw [ifJoin_info _ _ _ _ _ h.1, withChild_info _ _ _ _ _ hal, sobTail_info _ _ _ hal, Stmt.info_frame al _ q h.2.2.2]
    simp only
    rw [withChild_info _ _ _ _ _ hc, sobTail_info _ _ _ hc, Stmt.info_frame c _ q h.2.2.1]
    simp only
    rw [Kids.info_frame t _ q h.2.1]; exact setUnreach_other _ _ _ _ h.1
  | .whileS p t tt b, a, q, h => by
    simp only [Stmt.positions, List.mem_cons, List.mem_append, not_or] at h
    have hb : q ≠ b.pos := fun e => h.2.2 (e ▸ b.pos_mem)
    simp only [visitStmt]
    rw [Kids.info_frame t _ q h.2.1, withChild_info _ _ _ _ _ hb, whileTail_info _ _ _ _ _ hb, Stmt.info_frame b _ q h.2.2]
    exact setUnreach_other _ _ _ _ h.1
  | .doWhileS p b t tt, a, q, h => by
    simp only [Stmt.positions, List.mem_cons, List.mem_append, not_or] at h
    have hb : q ≠ b.pos := fun e => h.2.2 (e ▸ b.pos_mem)
    simp only [visitStmt]
    rw [Kids.info_frame t _ q h.2.1, doWhileAfter_info _ _ _ _ h.1, withChild_info _ _ _ _ _ hb, doWhileTail_info _ _ _ _ _ hb,
      Stmt.info_frame b _ q h.2.2]
    exact setUnreach_other _ _ _ _ h.1
  | .forS p i u t ht tt b, a, q, h => by
    simp only [Stmt.positions, List.mem_cons, List.mem_append, not_or] at h
    have hb : q ≠ b.pos := fun e => h.2.2 (e ▸ b.pos_mem)
    simp only [visitStmt]
    rw [withChild_info _ _ _ _ _ hb, forTail_info _ _ _ _ _ _ _ h.1 hb, Stmt.info_frame b _ q h.2.2]
    simp only
    rw [Kids.info_frame t _ q h.2.1.2.2, Kids.info_frame u _ q h.2.1.2.1, Kids.info_frame i _ q h.2.1.1]
    exact setUnreach_other _ _ _ _ h.1
  | .forInOf p l r b, a, q, h => by
    simp only [Stmt.positions, List.mem_cons, List.mem_append, not_or] at h
    have hb : q ≠ b.pos := fun e => h.2.2 (e ▸ b.pos_mem)
    simp only [visitStmt]
    rw [withChild_info _ _ _ _ _ hb, forInOfTail_info _ _ _ hb, Stmt.info_frame b _ q h.2.2]
    simp only
    rw [Kids.info_frame r _ q h.2.1.2, Kids.info_frame l _ q h.2.1.1]
    exact setUnreach_other _ _ _ _ h.1
  | .switchS p d cs, a, q, h => by
    simp only [Stmt.positions, List.mem_cons, List.mem_append, not_or] at h
    rw [visitStmt_switch, switchFin_info _ _ _ _ _ h.1, Cases.info_frame cs _ q h.2.2, Kids.info_frame d _ q h.2.1]
    exact flagA_other a p .other q h.1
  | .tryS p bp b hh cp ck hf fp f, a, q, h => by
    simp only [Stmt.positions, List.mem_cons, List.mem_append, not_or, mem_optPos, not_and] at h
    rw [visitStmt_try']
    have h1 : ∀ x : A, (tryFinalizer hf fp f a.sc.end_ x).info q = x.info q := by
      intro x; unfold tryFinalizer
      cases hf
      · rfl
      · have hfp : q ≠ fp := h.2.2.2.2.1 rfl
        simp only [if_true, finallyJoin_info]
        rw [withChild_info _ _ _ _ _ hfp, blockTail_info _ _ _ hfp, Stmts.info_frame f _ q h.2.2.2.2.2]
        rfl
    have h2 : ∀ x : A, (tryHandler hh cp ck a.sc.end_ x).info q = x.info q := by
      intro x; unfold tryHandler
      cases hh
      · rfl
      · have hcp : q ≠ cp := h.2.2.2.1.1 rfl
        simp only [if_true, tryCatchJoin_info]
        rw [withChild_info _ _ _ _ _ hcp, Kids.info_frame ck _ q h.2.2.2.1.2]
        split <;> rfl
    show (tryFin p _).info q = _
    rw [tryFin_info _ _ _ h.1, h1, h2, blockTail_info _ _ _ h.2.1, Stmts.info_frame b _ q h.2.2.1]
    exact setUnreach_other _ _ _ _ h.1
  | .labeled p _ b, a, q, h => by
    simp only [Stmt.positions, List.mem_cons, not_or] at h
    have hb : q ≠ b.pos := fun e => h.2 (e ▸ b.pos_mem)
    simp only [visitStmt]
    rw [withChild_info _ _ _ _ _ h.1, sobTail_info _ _ _ hb, Stmt.info_frame b _ q h.2]
    exact setUnreach_other _ _ _ _ h.1
  | .brk p _, a, q, h => by
    simp only [Stmt.positions, List.mem_singleton] at h
    simp only [visitStmt]; exact setUnreach_other _ _ _ _ h
  | .cont p _, a, q, h => by
    simp only [Stmt.positions, List.mem_singleton] at h
    simp only [visitStmt]; exact setUnreach_other _ _ _ _ h
  | .ret p arg, a, q, h => by
    simp only [Stmt.positions, List.mem_cons, not_or] at h
    simp only [visitStmt]
    rw [markAsEnd_info_other _ _ _ _ h.1, Kids.info_frame arg _ q h.2]; exact setUnreach_other _ _ _ _ h.1
  | .throw p arg, a, q, h => by
    simp only [Stmt.positions, List.mem_cons, not_or] at h
    simp only [visitStmt]
    rw [markAsEnd_info_other _ _ _ _ h.1, throwEffect_info, Kids.info_frame arg _ q h.2]; exact setUnreach_other _ _ _ _ h.1
theorem Stmts.info_frame : ∀ (l : Stmts) (a : A) (q : Nat), q ∉ l.positions → (visitStmts l a).info q = a.info q
  | .nil, a, q, _ => rfl
  | .cons s r, a, q, h => by
    simp only [Stmts.positions, List.mem_append, not_or] at h
    have hs : q ≠ s.pos := fun e => h.1 (e ▸ s.pos_mem)
    simp only [visitStmts]
    rw [Stmts.info_frame r _ q h.2, sobTail_info _ _ _ hs, Stmt.info_frame s _ q h.1]
theorem Kid.info_frame : ∀ (k : Kid) (a : A) (q : Nat), q ∉ k.positions → (visitKid k a).info q = a.info q
  | .expr _ ks, a, q, h => by
    simp only [Kid.positions] at h
    simp only [visitKid, exprEffect_info]; exact Kids.info_frame ks a q h
  | .fnScope p ks, a, q, h => by
    simp only [Kid.positions, List.mem_cons, not_or] at h
    simp only [visitKid]
    rw [withChild_info _ _ _ _ _ h.1]; exact Kids.info_frame ks _ q h.2
  | .block p b, a, q, h => by
    simp only [Kid.positions, List.mem_cons, not_or] at h
    simp only [visitKid]
    rw [blockTail_info _ _ _ h.1]; exact Stmts.info_frame b a q h.2
  | .stmt s, a, q, h => by
    simp only [Kid.positions] at h
    simp only [visitKid]; exact Stmt.info_frame s a q h
theorem Kids.info_frame : ∀ (ks : Kids) (a : A) (q : Nat), q ∉ ks.positions → (visitKids ks a).info q = a.info q
  | .nil, a, q, _ => rfl
  | .cons k r, a, q, h => by
    simp only [Kids.positions, List.mem_append, not_or] at h
    simp only [visitKids]
    rw [Kids.info_frame r _ q h.2, Kid.info_frame k _ q h.1]
theorem Cases.info_frame : ∀ (cs : Cases) (a : A) (q : Nat), q ∉ cs.positions → (visitCases cs a).info q = a.info q
  | .nil, a, q, _ => rfl
  | .cons p _ t b r, a, q, h => by
    simp only [Cases.positions, List.mem_cons, List.mem_append, not_or] at h
    simp only [visitCases]
    rw [Cases.info_frame r _ q h.2.2.2, caseTail_info _ _ _ _ h.1, withChildR_info _ _ _ _ _ h.1, Stmts.info_frame b _ q h.2.2.1]
    exact Kids.info_frame t a q h.2.1
end

end DL.CF
