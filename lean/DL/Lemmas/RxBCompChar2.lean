import DL.Lemmas.RxBCompChar

/-! # Annex B (no `u` flag), completeness: `CharacterEscape[~U, N]` (continued) -/
namespace DL.Rx
open DL.RxSpec DL.RxSpecB

attribute [local irreducible] isScalar
variable {src : List Nat} {K : Bool × Nat}

theorem eatLegacyOctalEscapeSequence_wdn (r : List Nat) (s : St) (h : BAt src K r s)
    (hn : ∀ d, r.head? = some d → ¬OctalDigit d) :
    Wc (eatLegacyOctalEscapeSequence s) (fun b s1 => b = false ∧ s1 = s.withInt 0) := by
  unfold eatLegacyOctalEscapeSequence
  rx7_autos
  exact ⟨rfl, rfl⟩

/-- `\0` followed by a digit is not the escape `\0` -/
theorem eatZero_wdm (d : Nat) (m : List Nat) (s : St) (h : BAt src K (ch '0' :: d :: m) s) (hd : DecimalDigit d) :
    Wc (eatZero s) (fun b s1 => b = false ∧ s1 = s) := by
  have hx := isAsciiDigit_of_decimalDigit hd
  unfold eatZero
  rx7_autos
  all_goals exact ⟨rfl, rfl⟩

theorem eatCControlLetter_wdm (m : List Nat) (s : St) (h : BAt src K (ch 'c' :: m) s)
    (hn : ∀ l, m.head? = some l → ¬ControlLetter l) :
    Wc (eatCControlLetter s) (fun b s1 => b = false ∧ BAt src K (ch 'c' :: m) s1 ∧ Keep s s1) := by
  unfold eatCControlLetter eatControlLetter
  rx7_autos
  case pos =>
    rename_i l r' _ hc _
    exact absurd (controlLetter_of_isAsciiAlphabetic hc) (hn l rfl)
  all_goals rx7_fin

theorem eatIdentityEscape_wd (x : Nat) (r1 : List Nat) (s : St) (h : BAt src K (x :: r1) s)
    (hc : x ≠ c 'c') (hk : K.1 = true → x ≠ c 'k') :
    Wc (eatIdentityEscape s) (fun b s1 => b = true ∧ BAt src K r1 s1 ∧ s1.lastIntValue = (x : Nat) ∧ Keep s s1) := by
  unfold eatIdentityEscape isValidIdentityEscape
  rx7_autos
  · rename_i hn
    exact absurd (by simpa using hc) hn
  · rx7_fin
  · rename_i hnf hn
    exfalso; apply hn
    have hk' := hk (h.nFlag'.symm.trans hnf)
    have e1 : (x == ch 'c') = false := by simpa using hc
    have e2 : (x == ch 'k') = false := by simpa using hk'
    rw [e1, e2]; rfl
  · rx7_fin

theorem eatIdentityEscape_wdn (r : List Nat) (s : St) (h : BAt src K r s)
    (hn : ∀ x, r.head? = some x → x = c 'c' ∨ (K.1 = true ∧ x = c 'k')) :
    Wc (eatIdentityEscape s) (fun b s1 => b = false ∧ s1 = s) := by
  unfold eatIdentityEscape isValidIdentityEscape
  rx7_autos
  all_goals (try exact ⟨rfl, rfl⟩)
  · rename_i x r' hnf hc _
    exfalso
    have hx : x ≠ ch 'c' := by simpa using hc
    rcases hn x rfl with e | ⟨e1, _⟩
    · exact hx e
    · exact hnf (h.nFlag'.trans e1)
  · rename_i x r' hnf hc _
    exfalso
    have hx : x ≠ ch 'c' ∧ x ≠ ch 'k' := by simpa using hc
    rcases hn x rfl with e | ⟨_, e⟩
    · exact hx.1 e
    · exact hx.2 e

theorem earlier_of {x : Nat} {r : List Nat} (h : EarlierEscapeFree x r) :
    (x :: r).head?.bind ctlVal = none ∧ (∀ d, (x :: r).head? = some d → ¬OctalDigit d) := by
  obtain ⟨h1, h2, _, _⟩ := h
  simp only [List.mem_cons, List.not_mem_nil, or_false, not_or] at h1
  exact ⟨ctlVal_none h1.1 h1.2.1 h1.2.2.1 h1.2.2.2.1 h1.2.2.2.2, fun d hd => by cases hd; exact h2⟩

theorem octal_side {x : Nat} (hx : OctalDigit x) :
    ctlVal x = none ∧ x ≠ ch 'c' ∧ x ≠ ch 'x' ∧ x ≠ ch 'u' := by
  have h' : 0x30 ≤ x ∧ x ≤ 0x37 := hx
  have e : ∀ y : Nat, 0x38 ≤ y → x ≠ y := fun y hy => by omega
  exact ⟨ctlVal_none (e _ (by decide)) (e _ (by decide)) (e _ (by decide)) (e _ (by decide)) (e _ (by decide)),
    e _ (by decide), e _ (by decide), e _ (by decide)⟩

/-- the part of `consume_character_escape` before the legacy octal escape fails on an octal digit that is not the
escape `\0` -/
macro "octal_prefix" : tactic => `(tactic| (
  unfold consumeCharacterEscape
  rx7_autos
  all_goals first | rx7_close | (rx7_fin; assumption)))

theorem consumeCharacterEscape_wd (n : Nat) (r r1 : List Nat) (v : Nat) (s : St) (h : BAt src K r s)
    (hD : RxSpecB.CharacterEscape K.1 r r1 v) :
    Wc (consumeCharacterEscape n s) (fun b s1 => b = true ∧ BAt src K r1 s1 ∧ s1.lastIntValue = (v : Nat) ∧ Keep s s1) := by
  cases hD with
  | unicode m _ _ h4 =>
    unfold consumeCharacterEscape
    rx7_autos
    all_goals first | rx7_close | (rx7_fin; assumption)
  | legacyOctal _ _ _ hl =>
    have key : ∀ (x : Nat) (m : List Nat), OctalDigit x →
        ((x :: m).head? ≠ some (ch '0') ∨ ∃ d m', x = ch '0' ∧ m = d :: m' ∧ DecimalDigit d) →
        ∀ s, BAt src K (x :: m) s → LegacyOctalEscapeSequence (x :: m) r1 v →
        Wc (consumeCharacterEscape n s) (fun b s1 => b = true ∧ BAt src K r1 s1 ∧ s1.lastIntValue = (v : Nat) ∧ Keep s s1) := by
      intro x m hx hz s h hl
      obtain ⟨g1, g2, g3, g4⟩ := octal_side hx
      have g1' : (x :: m).head?.bind ctlVal = none := g1
      have g2' := head_ne_of_ne g2 m
      have g3' := head_ne_of_ne g3 m
      have g4' := head_ne_of_ne g4 m
      rcases hz with hz | ⟨d, m', rfl, rfl, hd⟩
      · octal_prefix
      · octal_prefix
    have dig : ∀ {d : Nat}, OctalDigit d → DecimalDigit d := by
      intro d h
      have h2 : d ≤ c '7' := h.2
      have e7 : c '7' = 0x37 := rfl
      exact ⟨h.1, by show d ≤ 0x39; omega⟩
    obtain ⟨x, m, e, hx⟩ := legacyOctal_head hl
    subst e
    refine key x m hx ?_ s h hl
    by_cases h0 : x = ch '0'
    · subst h0
      refine .inr ?_
      cases hl with
      | zero89 _ h89 =>
        obtain ⟨d, hd, h8⟩ := h89
        cases r1 with
        | nil => cases hd
        | cons d' m' =>
          cases hd
          refine ⟨d, m', rfl, rfl, ?_⟩
          rcases h8 with e | e <;> (rw [e]; exact ⟨by decide, by decide⟩)
      | one _ _ ha _ => exact absurd ha.1 (by decide)
      | two03 _ b _ _ hb _ => exact ⟨b, _, rfl, rfl, dig hb⟩
      | two47 _ b _ ha _ => exact absurd ha.1 (by decide)
      | three _ b d _ _ hb _ => exact ⟨b, _, rfl, rfl, dig hb⟩
    · exact .inl (head_ne_of_ne h0 m)
  | identity _ _ hsc hc hk hfree =>
    obtain ⟨g1, g2⟩ := earlier_of hfree
    have g0 : v ≠ ch '0' := fun e => hfree.2.1 (e ▸ octal_zero)
    have g3 := head_ne_of_ne hc r1
    have g4 := head_ne_of_ne g0 r1
    by_cases hxx : v = ch 'x'
    · subst hxx
      have hhex := fun s h => eatHexEscapeSequence_wdm (src := src) (K := K) r1 s h
        (fun ⟨a, b, r', e, ha, hb⟩ => hfree.2.2.1 ⟨rfl, a, b, r', e, ha, hb⟩)
      octal_prefix
    · have g5 := head_ne_of_ne hxx r1
      by_cases hxu : v = ch 'u'
      · subst hxu
        have huni := fun s h => eatRegexpUnicodeEscapeSequence_notHex (src := src) (K := K) n r1 s h
          (fun ⟨r', v', h4⟩ => hfree.2.2.2 ⟨rfl, r', v', h4⟩)
        octal_prefix
      · have g6 := head_ne_of_ne hxu r1
        octal_prefix
  | _ =>
    unfold consumeCharacterEscape
    rx7_autos
    all_goals first | rx7_close | (rx7_fin; assumption)

/-- `\c` not followed by a letter is no `CharacterEscape` -/
theorem consumeCharacterEscape_wdn (n : Nat) (m : List Nat) (s : St) (h : BAt src K (ch 'c' :: m) s)
    (hn : ∀ l, m.head? = some l → ¬ControlLetter l) :
    Wc (consumeCharacterEscape n s) (fun b s1 => b = false ∧ BAt src K (ch 'c' :: m) s1 ∧ Keep s s1) := by
  have hcc := fun s h => eatCControlLetter_wdm (src := src) (K := K) m s h hn
  have hid := fun s (h : BAt src K (ch 'c' :: m) s) => eatIdentityEscape_wdn (src := src) (K := K) _ s h
    (fun x hx => by cases hx; exact .inl rfl)
  have hoct : ∀ d, (ch 'c' :: m).head? = some d → ¬OctalDigit d := by
    intro d hd; cases hd
    intro ho; have h' : 0x30 ≤ ch 'c' ∧ ch 'c' ≤ 0x37 := ho; revert h'; decide
  unfold consumeCharacterEscape
  rx7_autos
  all_goals first | rx7_close | (rx7_fin; assumption)

/-- with named groups `\k` is no `CharacterEscape` -/
theorem consumeCharacterEscape_wdm (n : Nat) (m : List Nat) (s : St) (h : BAt src K (ch 'k' :: m) s)
    (hnf : K.1 = true) :
    Wc (consumeCharacterEscape n s) (fun b s1 => b = false ∧ BAt src K (ch 'k' :: m) s1 ∧ Keep s s1) := by
  have hid := fun s (h : BAt src K (ch 'k' :: m) s) => eatIdentityEscape_wdn (src := src) (K := K) _ s h
    (fun x hx => by cases hx; exact .inr ⟨hnf, rfl⟩)
  have hoct : ∀ d, (ch 'k' :: m).head? = some d → ¬OctalDigit d := by
    intro d hd; cases hd
    intro ho; have h' : 0x30 ≤ ch 'k' ∧ ch 'k' ≤ 0x37 := ho; revert h'; decide
  unfold consumeCharacterEscape
  rx7_autos
  all_goals first | rx7_close | (rx7_fin; assumption)

end DL.Rx
