import DL.Lemmas.RxSpecAtomEsc

/-! # Soundness w.r.t. the grammar: the non-recursive atoms -/
namespace DL.Rx
open DL.RxSpec DL.Gen.Unicode
attribute [local irreducible] isScalar
variable {src : List Nat} {N : Nat} {qok : Nat → Nat → Prop}

theorem consumeReverseSolidusAtomEscape_wp (hN : N < 2 ^ 62) (n : Nat) (r : List Nat) (s : St) (h : UAt src N r s) :
    Wp (consumeReverseSolidusAtomEscape n s) (fun b s1 =>
      if b = true then ∃ r1 a, UAt src N r1 s1 ∧ Derives qok N .Atom r r1 a ∧ Track s s1 a
      else UAt src N r s1 ∧ KeepN s s1) := by
  unfold consumeReverseSolidusAtomEscape
  rx4_auto
  · rename_i m hat0 s1 hat1 hk hat2
    rw [if_neg (by decide)]
    exact ⟨hat2, by rx4_keep⟩
  · rename_i m hat0 s1 r1 a hat1 hae htr
    rw [if_pos rfl]
    exact ⟨r1, a, hat1, Derives.atomEscape m r1 a hae, Track.pre (s1 := s.setPos src (s.reader.index + 1)) ⟨rfl, rfl⟩ htr⟩
  · rw [if_neg (by decide)]
    exact ⟨h, KeepN.refl s⟩

/-- the part of the source that remains is part of the source -/
theorem UAt.mem_src {r : List Nat} {s : St} (h : UAt src N r s) {x : Nat} (hx : x ∈ r) : x ∈ src := by
  rw [← h.rest] at hx
  exact List.mem_of_mem_drop hx

theorem consumePatternCharacter_wp (hsrc : ∀ x ∈ src, x ≤ 0x10FFFF) (r : List Nat) (s : St) (h : UAt src N r s) :
    Wp (consumePatternCharacter s) (fun b s1 => KeepN s s1 ∧
      if b = true then ∃ x r1, r = x :: r1 ∧ PatternCharacter x ∧ UAt src N r1 s1 else UAt src N r s1) := by
  unfold consumePatternCharacter
  rx4_auto
  all_goals (try rx4_false)
  rename_i x r1 hc hat
  rx4_true
  refine ⟨x, r1, rfl, ⟨hsrc x (h.mem_src List.mem_cons_self), ?_⟩, hat⟩
  intro hs
  rw [(syntaxCharacter_iff x).mpr hs] at hc
  cases hc

end DL.Rx
