import DL.Lemmas.RxBClass
import DL.Lemmas.RxSpecMutual

/-! # Annex B (no `u` flag): the recursive productions -/
namespace DL.Rx
open DL.RxSpec DL.Gen.Unicode
attribute [local irreducible] isScalar
variable {src : List Nat} {K : Bool × Nat}

/-- a sequence of `Term`s (what the loop of `consume_alternative` reads) -/
inductive AltTailB (K : Bool × Nat) : Str → Str → Attr → Prop
  | nil (r : Str) : AltTailB K r r Attr.nil
  | cons (r m r1 : Str) (a₁ a₂ : Attr) : RxSpecB.Derives K.1 qokSat K.2 .Term r m a₁ → AltTailB K m r1 a₂ → AltTailB K r r1 (a₁ ++ a₂)

/-- a sequence of `| Alternative`s (what the loop of `consume_disjunction` reads) -/
inductive DisjTailB (K : Bool × Nat) : Str → Str → Attr → Prop
  | nil (r : Str) : DisjTailB K r r Attr.nil
  | cons (m m₂ r1 : Str) (a₁ a₂ : Attr) : RxSpecB.Derives K.1 qokSat K.2 .Alternative m m₂ a₁ → DisjTailB K m₂ r1 a₂ →
      DisjTailB K (c '|' :: m) r1 (a₁ ++ a₂)

theorem alt_of_tailB {r m r1 : Str} {a₀ a : Attr} (h0 : RxSpecB.Derives K.1 qokSat K.2 .Alternative r m a₀) (h : AltTailB K m r1 a) :
    RxSpecB.Derives K.1 qokSat K.2 .Alternative r r1 (a₀ ++ a) := by
  induction h generalizing a₀ r with
  | nil r' => rw [Attr.append_nil]; exact h0
  | cons r' m' r1' a₁ a₂ ht _ ih =>
    have := ih (RxSpecB.Derives.altSnoc r r' m' a₀ a₁ h0 ht)
    rw [Attr.append_assoc] at this; exact this

theorem disj_of_tailB {r m r1 : Str} {a₀ a : Attr} (h0 : RxSpecB.Derives K.1 qokSat K.2 .Alternative r m a₀) (h : DisjTailB K m r1 a) :
    RxSpecB.Derives K.1 qokSat K.2 .Disjunction r r1 (a₀ ++ a) := by
  induction h generalizing a₀ r with
  | nil r' => rw [Attr.append_nil]; exact RxSpecB.Derives.disjOne _ _ _ h0
  | cons m' m₂ r1' a₁ a₂ halt _ ih =>
    exact RxSpecB.Derives.disjMore r m' r1' a₀ (a₁ ++ a₂) h0 (ih halt)

theorem alt_of_tailB' {r r1 : Str} {a : Attr} (h : AltTailB K r r1 a) : RxSpecB.Derives K.1 qokSat K.2 .Alternative r r1 a := by
  have := alt_of_tailB (RxSpecB.Derives.altEmpty r) h
  rw [Attr.nil_append] at this; exact this


theorem consumeReverseSolidusAtomEscape_wb (hN : K.2 < 2 ^ 62) (hsrc : ∀ x ∈ src, x ≤ 0xFFFF) (n : Nat) (r : List Nat)
    (s : St) (h : BAt src K r s) :
    Wp (consumeReverseSolidusAtomEscape n s) (fun b s1 =>
      if b = true then ∃ r1 a, BAt src K r1 s1 ∧ RxSpecB.Derives K.1 qokSat K.2 .ExtendedAtom r r1 a ∧ Track s s1 a
      else BAt src K r s1 ∧ KeepN s s1 ∧ ∀ m, r = c '\\' :: m → ¬∃ r1 v, RxSpecB.CharacterEscape K.1 m r1 v) := by
  unfold consumeReverseSolidusAtomEscape
  rx6_auto
  · rename_i m hat0 s1 hat1 hk hno hat2
    rw [if_neg (by decide)]
    refine ⟨hat2, by rx6_keep, ?_⟩
    intro m' e
    have e' : m = m' := (List.cons.inj e).2
    subst e'
    exact hno
  · rename_i m hat0 s1 r1 a hat1 hae htr
    rw [if_pos rfl]
    exact ⟨r1, a, hat1, RxSpecB.Derives.atomEscape m r1 a hae, Track.pre (s1 := s.setPos src (s.reader.index + 1)) ⟨rfl, rfl⟩ htr⟩
  · rename_i hne
    rw [if_neg (by decide)]
    exact ⟨h, KeepN.refl s, fun m e => absurd (by rw [e]; rfl) hne⟩

structure AllSpecB (src : List Nat) (K : Bool × Nat) (n : Nat) : Prop where
  disjunction : ∀ (r : List Nat) (s : St), BAt src K r s → Wp (consumeDisjunction n s) (fun _ s1 =>
    ∃ r1 a, BAt src K r1 s1 ∧ RxSpecB.Derives K.1 qokSat K.2 .Disjunction r r1 a ∧ Track s s1 a)
  disjunctionLoop : ∀ (r : List Nat) (s : St), BAt src K r s → Wp (consumeDisjunctionLoop n s) (fun _ s1 =>
    ∃ r1 a, BAt src K r1 s1 ∧ DisjTailB K r r1 a ∧ Track s s1 a)
  alternative : ∀ (r : List Nat) (s : St), BAt src K r s → Wp (consumeAlternative n s) (fun _ s1 =>
    ∃ r1 a, BAt src K r1 s1 ∧ AltTailB K r r1 a ∧ Track s s1 a)
  term : ∀ (r : List Nat) (s : St), BAt src K r s → Wp (consumeTerm n s) (fun b s1 =>
    if b = true then ∃ r1 a, BAt src K r1 s1 ∧ RxSpecB.Derives K.1 qokSat K.2 .Term r r1 a ∧ Track s s1 a
    else BAt src K r s1 ∧ KeepN s s1)
  assertion : ∀ (r : List Nat) (s : St), BAt src K r s → Wp (consumeAssertion n s) (fun b s1 =>
    if b = true then ∃ r1 a, BAt src K r1 s1 ∧ Track s s1 a ∧
      ((s1.lastAssertionIsQuantifiable = true ∧ RxSpecB.Derives K.1 qokSat K.2 .QuantifiableAssertion r r1 a) ∨
       (s1.lastAssertionIsQuantifiable = false ∧ RxSpecB.Derives K.1 qokSat K.2 .Assertion r r1 a))
    else BAt src K r s1 ∧ KeepN s s1 ∧ ¬RxSpecB.StartsWordBoundary r)
  extendedAtom : ∀ (r : List Nat) (s : St), BAt src K r s → Wp (consumeExtendedAtom n s) (fun b s1 =>
    if b = true then ∃ r1 a, BAt src K r1 s1 ∧ RxSpecB.Derives K.1 qokSat K.2 .ExtendedAtom r r1 a ∧ Track s s1 a
    else BAt src K r s1 ∧ KeepN s s1)
  uncapturingGroup : ∀ (r : List Nat) (s : St), BAt src K r s → Wp (consumeUncapturingGroup n s) (fun b s1 =>
    if b = true then ∃ r1 a, BAt src K r1 s1 ∧ RxSpecB.Derives K.1 qokSat K.2 .ExtendedAtom r r1 a ∧ Track s s1 a
    else BAt src K r s1 ∧ KeepN s s1)
  capturingGroup : ∀ (r : List Nat) (s : St), BAt src K r s → Wp (consumeCapturingGroup n s) (fun b s1 =>
    if b = true then ∃ r1 a, BAt src K r1 s1 ∧ RxSpecB.Derives K.1 qokSat K.2 .ExtendedAtom r r1 a ∧ Track s s1 a
    else BAt src K r s1 ∧ KeepN s s1)

theorem allSpecB (hN : K.2 < 2 ^ 62) (hsrc : ∀ x ∈ src, x ≤ 0xFFFF) : ∀ n, AllSpecB src K n
  | 0 => by
    constructor
    · intro r s h; unfold consumeDisjunction; exact Wp.outOfFuel
    · intro r s h; unfold consumeDisjunctionLoop; exact Wp.outOfFuel
    · intro r s h; unfold consumeAlternative; exact Wp.outOfFuel
    · intro r s h; unfold consumeTerm; exact Wp.outOfFuel
    · intro r s h; unfold consumeAssertion; exact Wp.outOfFuel
    · intro r s h; unfold consumeExtendedAtom; exact Wp.outOfFuel
    · intro r s h; unfold consumeUncapturingGroup; exact Wp.outOfFuel
    · intro r s h; unfold consumeCapturingGroup; exact Wp.outOfFuel
  | n + 1 => by
    have ih := allSpecB hN hsrc n
    have h1 := ih.disjunction
    have h2 := ih.disjunctionLoop
    have h3 := ih.alternative
    have h4 := ih.term
    have h5 := ih.assertion
    have h6 := ih.extendedAtom
    have h8 := ih.uncapturingGroup
    have h9 := ih.capturingGroup
    have hrs : ∀ (n : Nat) (r : List Nat) (s : St), BAt src K r s → Wp (consumeReverseSolidusAtomEscape n s) (fun b s1 =>
        if b = true then ∃ r1 a, BAt src K r1 s1 ∧ RxSpecB.Derives K.1 qokSat K.2 .ExtendedAtom r r1 a ∧ Track s s1 a
        else BAt src K r s1 ∧ KeepN s s1 ∧ ∀ m, r = c '\\' :: m → ¬∃ r1 v, RxSpecB.CharacterEscape K.1 m r1 v) :=
      fun n r s h => consumeReverseSolidusAtomEscape_wb hN hsrc n r s h
    constructor
    · intro r s h; unfold consumeDisjunction; rx6_auto
      rename_i _ s1 m a1 hat1 halt htr1 _ s2 r1 a2 hat2 hdt htr2 s3 hk hat3 _
      exact ⟨r1, a1 ++ a2, hat3, disj_of_tailB (alt_of_tailB' halt) hdt, (htr1.trans htr2).post hk⟩
    · intro r s h; unfold consumeDisjunctionLoop; rx6_auto
      · rename_i m hat0 _ s1 m2 a1 hat1 halt htr1 _ s2 r1 a2 hat2 hdt htr2
        exact ⟨r1, a1 ++ a2, hat2, DisjTailB.cons m m2 r1 a1 a2 (alt_of_tailB' halt) hdt,
          (Track.pre (s := s) (s1 := s.setPos src (s.reader.index + 1)) ⟨rfl, rfl⟩ htr1).trans htr2⟩
      · exact ⟨r, Attr.nil, h, DisjTailB.nil r, Track.ofKeepN (KeepN.refl s)⟩
    · intro r s h; unfold consumeAlternative; rx6_auto
      · rename_i x r' s1 hat1 hk
        exact ⟨_, Attr.nil, hat1, AltTailB.nil _, Track.ofKeepN hk⟩
      · rename_i x r' s1 m a1 hat1 hterm htr1 _ s2 r1 a2 hat2 htail htr2
        exact ⟨r1, a1 ++ a2, hat2, AltTailB.cons _ m r1 a1 a2 hterm htail, htr1.trans htr2⟩
      · exact ⟨[], Attr.nil, h, AltTailB.nil _, Track.ofKeepN (KeepN.refl s)⟩
    · intro r s h; unfold consumeTerm; rx6_auto
      · rename_i s1 hat1 hk1 hws s2 hat2 hk2
        rw [if_neg (by decide)]
        exact ⟨hat2, hk1.trans hk2⟩
      · rename_i s1 hat1 hk1 hws s2 m a hat2 hatom htr b s3 hb hk3 r1 hat3 hq
        subst hb
        rw [if_pos rfl]
        refine ⟨r1, a, hat3, ?_, (Track.pre hk1 htr).post hk3⟩
        rcases hq with rfl | hq
        · exact RxSpecB.Derives.termAtom _ _ _ hatom hws
        · exact RxSpecB.Derives.termAtomQuantified _ m _ _ hatom hq hws
      · -- a quantifiable assertion, with or without a quantifier
        rename_i s1 m a hat1 htr hd hn s2 hk2 r1 hat2 hq _
        rw [if_pos rfl]
        have hl : s1.lastAssertionIsQuantifiable = true := by
          cases hb : s1.lastAssertionIsQuantifiable
          · rw [hb] at hn; exact absurd rfl hn
          · rfl
        have hqa : RxSpecB.Derives K.1 qokSat K.2 .QuantifiableAssertion r m a := by
          rcases hd with ⟨_, hd⟩ | ⟨hf, _⟩
          · exact hd
          · rw [hl] at hf; cases hf
        refine ⟨r1, a, hat2, ?_, htr.post hk2⟩
        rcases hq with rfl | hq
        · exact RxSpecB.Derives.termAssertion _ _ _ (RxSpecB.Derives.quantifiable _ _ _ hqa)
        · exact RxSpecB.Derives.termQAssertionQuantified _ m _ _ hqa hq
      · -- an assertion that cannot be quantified
        rename_i s1 m a hat1 htr hd hc
        rw [if_pos rfl]
        refine ⟨m, a, hat1, RxSpecB.Derives.termAssertion _ _ _ ?_, htr⟩
        rcases hd with ⟨_, hd⟩ | ⟨_, hd⟩
        · exact RxSpecB.Derives.quantifiable _ _ _ hd
        · exact hd
    · intro r s h; unfold consumeAssertion; rx6_auto
      all_goals (try (rw [if_neg (by decide)]; exact ⟨by rx6_at, by rx6_keep, fun ⟨r', e⟩ => e.elim
        (fun e => ‹¬∃ r', _ = ch '\\' :: ch 'b' :: r'› ⟨r', e⟩) (fun e => ‹¬∃ r', _ = ch '\\' :: ch 'B' :: r'› ⟨r', e⟩)⟩))
      all_goals (try (rw [if_pos rfl]; exact ⟨_, Attr.nil, by rx6_at, Track.ofKeepN ⟨rfl, rfl⟩, .inr ⟨rfl, RxSpecB.Derives.caret _⟩⟩))
      all_goals (try (rw [if_pos rfl]; exact ⟨_, Attr.nil, by rx6_at, Track.ofKeepN ⟨rfl, rfl⟩, .inr ⟨rfl, RxSpecB.Derives.dollar _⟩⟩))
      all_goals (try (rw [if_pos rfl]; exact ⟨_, Attr.nil, by rx6_at, Track.ofKeepN ⟨rfl, rfl⟩, .inr ⟨rfl, RxSpecB.Derives.notWordBoundary _⟩⟩))
      all_goals (try (rw [if_pos rfl]; exact ⟨_, Attr.nil, by rx6_at, Track.ofKeepN ⟨rfl, rfl⟩, .inr ⟨rfl, RxSpecB.Derives.wordBoundary _⟩⟩))
      all_goals (
        rw [if_pos rfl]
        rename_i a htr r1 hat1 hat2 hd
        refine ⟨r1, a, by rx6_at, Track.post (Track.pre' (s := s) htr ⟨rfl, rfl⟩) ⟨rfl, rfl⟩, ?_⟩
        first
        | exact .inr ⟨rfl, RxSpecB.Derives.lookbehind _ _ r1 a rfl hd⟩
        | exact .inr ⟨rfl, RxSpecB.Derives.negativeLookbehind _ _ r1 a rfl hd⟩
        | (refine .inl ⟨?_, RxSpecB.Derives.lookahead _ _ r1 a rfl hd⟩
           show (!false && !(_ : St).strict) = true
           first | (rw [hat2.strict']; rfl) | (rw [hat1.strict']; rfl))
        | (refine .inl ⟨?_, RxSpecB.Derives.negativeLookahead _ _ r1 a rfl hd⟩
           show (!false && !(_ : St).strict) = true
           first | (rw [hat2.strict']; rfl) | (rw [hat1.strict']; rfl)))
    · intro r s h; unfold consumeExtendedAtom; rx6_auto
      · rw [if_pos rfl]
        exact ⟨_, Attr.nil, by rx6_at, RxSpecB.Derives.dot _, Track.ofKeepN (by rx6_keep)⟩
      · rename_i hno _ b s9 hk9 hpost
        cases b
        · rw [if_neg (by decide)] at hpost ⊢
          exact ⟨hpost, by rx6_keep⟩
        · rw [if_pos rfl] at hpost ⊢
          obtain ⟨x, r1, hr, hx, hat⟩ := hpost
          subst hr
          exact ⟨r1, Attr.nil, hat, RxSpecB.Derives.extendedPatternCharacter x r1 hx hno, Track.ofKeepN (by rx6_keep)⟩
      · rename_i hbad
        cases hbad
      · rw [if_pos rfl]
        exact ⟨_, _, ‹BAt src K _ _›, ‹RxSpecB.Derives _ _ _ _ r _ _›, Track.pre' ‹Track _ _ _› (by rx6_keep)⟩
      · rw [if_pos rfl]
        exact ⟨_, _, ‹BAt src K _ _›, ‹RxSpecB.Derives _ _ _ _ r _ _›, Track.pre' ‹Track _ _ _› (by rx6_keep)⟩
      · rw [if_pos rfl]
        exact ⟨_, Attr.nil, ‹BAt src K _ _›, RxSpecB.Derives.characterClass _ _ ‹RxSpecB.CharacterClass _ r _›,
          Track.ofKeepN (by rx6_keep)⟩
      · rename_i w hr hat
        have hno := ‹∀ m, r = c '\\' :: m → ¬∃ r1 v, RxSpecB.CharacterEscape K.1 m r1 v›
        rw [if_pos rfl]
        subst hr
        refine ⟨_, Attr.nil, hat, RxSpecB.Derives.backslashC w ?_, Track.ofKeepN (by rx6_keep)⟩
        intro l hl hcl
        cases w with
        | nil => cases hl
        | cons l' w' =>
          cases hl
          exact hno _ rfl ⟨w', l % 32, RxSpecB.CharacterEscape.controlLetter l w' hcl⟩
      · rw [if_pos rfl]
        exact ⟨_, _, ‹BAt src K _ _›, ‹RxSpecB.Derives _ _ _ _ r _ _›, ‹Track s _ _›⟩
    · intro r s h; unfold consumeUncapturingGroup; rx6_auto
      · rename_i m hat0 _ s1 a htr r1 hat1 hat2 hd
        rw [if_pos rfl]
        exact ⟨r1, a, by rx6_at, RxSpecB.Derives.nonCapturing _ m r1 a rfl hd,
          Track.post (Track.pre' (s := s) htr ⟨rfl, rfl⟩) ⟨rfl, rfl⟩⟩
      · rw [if_neg (by decide)]
        exact ⟨h, KeepN.refl s⟩
    · intro r s h; unfold consumeCapturingGroup; rx6_auto
      · rename_i m hat0 b s1 hpost
        cases b
        · rw [if_neg (by decide)] at hpost
          obtain ⟨hat1, hk1⟩ := hpost
          rx6_auto
          rename_i _ s2 a htr r1 hat2 hat3 hd
          rw [if_pos rfl]
          refine ⟨r1, ⟨[none], []⟩ ++ a, by rx6_at, RxSpecB.Derives.group m m r1 none a (RxSpecB.GroupSpecifier.empty m) hd, ?_⟩
          have h0 : Track s s1 ⟨[none], []⟩ :=
            Track.pre' (s := s) (s1 := s.setPos src (s.reader.index + 1)) (Track.ofKeepN_none hk1) ⟨rfl, rfl⟩
          exact Track.post (h0.trans htr) ⟨rfl, rfl⟩
        · rw [if_pos rfl] at hpost
          obtain ⟨m2, nm, hat1, hgs, htr1⟩ := hpost
          rx6_auto
          rename_i _ s2 a htr r1 hat2 hat3 hd
          rw [if_pos rfl]
          refine ⟨r1, ⟨[some nm], []⟩ ++ a, by rx6_at, RxSpecB.Derives.group m m2 r1 (some nm) a hgs hd, ?_⟩
          have h0 : Track s s1 ⟨[some nm], []⟩ :=
            Track.pre' (s := s) (s1 := s.setPos src (s.reader.index + 1)) htr1 ⟨rfl, rfl⟩
          exact Track.post (h0.trans htr) ⟨rfl, rfl⟩
      · rw [if_neg (by decide)]
        exact ⟨h, KeepN.refl s⟩


end DL.Rx
