import DL.Lemmas.CFSound4

/-! Soundness invariant: `while`. -/
namespace DL.CF

/-- the completions of a `while` whose test has plain completions; `tcn` = the test can complete normally -/
theorem while_fields (ls : List Id) (p : Nat) (test : Kids) (tt : Bool) (body : Stmt) (hpl : test.compl.plain = true) :
    let s := Stmt.compl ls (.whileS p test tt body)
    s.n = ((tt || test.compl.n) && (!tt || (body.compl []).b)) ∧ s.b = false ∧ s.c = false ∧
    (s.hasCl = true → (body.compl []).hasCl = true) ∧
    (s.t = true → (!tt && test.compl.t) = true ∨ (body.compl []).t = true) := by
  have hp := testCompl_plain tt test hpl
  refine ⟨?_, ?_, ?_, ?_, ?_⟩
  · simp [Stmt.compl, testCompl_n]
  · simp [Stmt.compl, Compl.plain_b hp]
  · simp [Stmt.compl, Compl.plain_c hp]
  · intro h
    simp only [Stmt.compl, testComplOf_eq, seq_hasCl, Compl.plain_hasCl hp, union_hasCl, guard_hasCl, abrupt_hasCl, Bool.false_or,
      Bool.and_false, Bool.or_false, Bool.and_eq_true] at h
    exact loopCompl_hasCl _ _ _ h.2
  · intro h
    simp only [Stmt.compl, testComplOf_eq, seq_t, testCompl_t, loopCompl_t, union_t, guard_t, abrupt_t] at h
    revert h; cases tt <;> cases test.compl.t <;> cases (body.compl []).t <;> simp

/-- position facts shared by the loop statements: `p :: (kps ++ bps)` without duplicates -/
structure Split (p : Nat) (kps bps : List Nat) : Prop where
  pk : p ∉ kps
  pb : p ∉ bps
  ndk : kps.Nodup
  ndb : bps.Nodup
  disj : ∀ q, q ∈ kps → q ∈ bps → False

theorem Split.of {p : Nat} {kps bps : List Nat} (h : (p :: (kps ++ bps)).Nodup) : Split p kps bps := by
  have hnd := List.nodup_cons.mp h
  have hnd2 := List.nodup_append.mp hnd.2
  exact ⟨fun h => hnd.1 (List.mem_append.mpr (Or.inl h)), fun h => hnd.1 (List.mem_append.mpr (Or.inr h)),
    hnd2.1, hnd2.2.1, fun q h1 h2 => hnd2.2.2 q h1 q h2 rfl⟩

theorem not_stops_of {x : Option End} {b : Bool} (h : stopsEnd x = true → b = false) (hb : b = true) : stopsEnd x = false := by
  cases hs : stopsEnd x with
  | false => rfl
  | true => rw [h hs] at hb; cases hb

theorem while_ok (live : Bool) (ls : List Id) (p : Nat) (test : Kids) (tt : Bool) (body : Stmt) (a : A)
    (hpl : test.compl.plain = true) (htt : tt = true → test.pure = true)
    (hpre : Pre live (p :: (test.positions ++ body.positions)) a)
    (ihk : ∀ (l : Bool) x, Pre l test.positions x → KidsL l test x (visitKids test x))
    (ih : ∀ a0, Pre live body.positions a0 → PostS live [] body a0 (visitStmt body a0)) :
    PostS live ls (.whileS p test tt body) a (visitStmt (.whileS p test tt body) a) := by
  have hsp := Split.of hpre.nodup
  have hv : visitStmt (.whileS p test tt body) a =
      visitKids test (withChild .loop body.pos (fun x => whileTail tt body.isDeclOrExpr body.pos (visitStmt body x)) (flagA a p .other)) := by
    simp [visitStmt, flagA]
  rw [hv]
  have hc := loopCore live (!tt || (body.compl []).b) p body.pos body [] (whileTail tt body.isDeclOrExpr body.pos) (flagA a p .other) rfl
    hpre.hs (fun q hq => by rw [flagA_endAt]; exact hpre.fresh q (List.mem_cons_of_mem _ (List.mem_append.mpr (Or.inr hq))))
    hsp.pb hsp.ndb ih (fun b' hb => whileTail_ok live tt body _ b' hb)
  generalize withChild .loop body.pos (fun x => whileTail tt body.isDeclOrExpr body.pos (visitStmt body x)) (flagA a p .other) = r at hc
  have hrk : ∀ q, q ∈ test.positions → r.info q = (flagA a p .other).info q := fun q hq =>
    hc.frame q (by simp only [List.mem_cons, not_or]; exact ⟨fun e => hsp.pk (e ▸ hq), fun h => hsp.disj q hq h⟩) (by simp)
  have hprek : Pre (live && (!tt || (body.compl []).b)) test.positions r := by
    refine ⟨hc.stop, fun q hq => ?_, hsp.ndk⟩
    rw [endAt_eq_of_info_eq (hrk q hq), flagA_endAt]
    exact hpre.fresh q (List.mem_cons_of_mem _ (List.mem_append.mpr (Or.inl hq)))
  have hk := ihk _ r hprek
  generalize visitKids test r = fin at hk
  obtain ⟨hn, hb0, hc0, hl0, ht0⟩ := while_fields ls p test tt body hpl
  -- a test known to be true is pure: it completes normally, cannot throw, and nothing is nested in it
  have htn : tt = true → test.compl.n = true := fun h => by rw [Kids.compl_pure test (htt h)]; rfl
  have htu : ∀ q, q ∈ test.upos → q ≠ p ∧ q ∉ body.positions := fun q hq =>
    ⟨fun e => hsp.pk (e ▸ Kids.upos_sub test q hq), fun h => hsp.disj q (Kids.upos_sub test q hq) h⟩
  have hbu : ∀ q, q ∈ body.upos → q ≠ p ∧ q ∉ test.positions := fun q hq =>
    ⟨fun e => hsp.pb (e ▸ Stmt.upos_sub body q hq), fun h => hsp.disj q h (Stmt.upos_sub body q hq)⟩
  refine ⟨⟨?_, ?_, ?_, ?_, ?_, ?_, ?_, ?_, ?_, ?_, ?_⟩, ?_⟩
  · intro hst
    have := hk.p1 hst
    rw [hn]
    cases tt with
    | false => simpa [Bool.and_comm, Bool.and_assoc] using this
    | true => rw [htn rfl] at this; simpa using this
  · simp [hb0]
  · simp [hc0]
  · intro hh; apply hk.monoB; rw [hc.fbk]; exact hh
  · intro hh; exact hk.monoC (hc.fc hh)
  · intro hh
    apply hk.monoC; apply hc.fcBody
    revert hh hl0; cases live <;> cases (Stmt.compl ls (.whileS p test tt body)).hasCl <;> simp
  · intro q hq hu
    simp only [Stmt.upos, List.mem_cons, List.mem_append] at hq
    simp only [Stmt.reach]
    rcases hq with rfl | hqt | hqb
    · rw [ur_eq_of_info_eq (hk.frame q hsp.pk), hc.urp] at hu
      have := own_pos_dead hpre q .other _ rfl hu
      simp [this]
    · have := hk.p3 q hqt hu
      cases tt with
      | true => simp [(htu q hqt).1, body.reach_false q (htu q hqt).2, Kids.flowReach_pure test q (htt rfl)]
      | false =>
        revert this; cases live <;> simp [(htu q hqt).1, body.reach_false q (htu q hqt).2]
    · rw [ur_eq_of_info_eq (hk.frame q (hbu q hqb).2)] at hu
      have := hc.p3 q hqb hu
      revert this; cases live <;> simp [(hbu q hqb).1, Kids.flowReach_false test q (hbu q hqb).2]
      intro h _; exact h
  · intro q hq hu
    simp only [Stmt.upos, List.mem_cons, List.mem_append] at hq
    simp only [Stmt.inner]
    rcases hq with rfl | hqt | hqb
    · simp [Kids.inner_false test q hsp.pk, body.inner_false q hsp.pb]
    · simp [hk.p3i q hqt hu, body.inner_false q (htu q hqt).2]
    · rw [ur_eq_of_info_eq (hk.frame q (hbu q hqb).2)] at hu
      simp [hc.p3i q hqb hu, Kids.inner_false test q (hbu q hqb).2]
  · intro q hq
    simp only [Stmt.positions, List.mem_cons, List.mem_append, not_or] at hq
    rw [hk.frame q hq.2.1, hc.frame q (by simp only [List.mem_cons, not_or]; exact ⟨hq.1, hq.2.2⟩) (by simp)]
    exact flagA_other a p .other q hq.1
  · intro hh; exact hk.monoT (hc.mt hh)
  · intro hh
    simp only [Bool.and_eq_true] at hh
    rcases ht0 hh.2 with ht | ht
    · simp only [Bool.and_eq_true, Bool.not_eq_true'] at ht
      apply hk.pT
      simp [hh.1, ht.1, ht.2]
    · exact hk.monoT (hc.tBody (by simp [hh.1, ht]))
  · intro _ hst
    simp only [Stmt.pos] at hst
    rw [endAt_eq_of_info_eq (hk.frame p hsp.pk), hc.atP (by simp), flagA_endAt, hpre.fresh p (by simp)] at hst
    simp at hst

end DL.CF
