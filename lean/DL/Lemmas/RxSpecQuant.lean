import DL.Lemmas.RxSpecClass

/-! # Soundness w.r.t. the grammar: quantifiers -/
namespace DL.Rx
open DL.RxSpec DL.Gen.Unicode
attribute [local irreducible] isScalar
variable {src : List Nat} {N : Nat}

/-- the early error of `{lo,hi}` as the model implements it (on the saturated values) -/
def qokSat (lo hi : Nat) : Prop := satI lo ≤ satI hi

theorem eatDecimalDigitsLoop_wp : ∀ (n : Nat) (r : List Nat) (s : St), UAt src N r s →
    Wp (eatDecimalDigitsLoop n s) (fun _ s1 => ∃ ds r1, r = ds ++ r1 ∧ (∀ d ∈ ds, DecimalDigit d) ∧
      (∀ d, r1.head? = some d → ¬DecimalDigit d) ∧ UAt src N r1 s1 ∧
      s1 = (s.setPos src (s.reader.index + ds.length)).withInt (accDec s.lastIntValue ds))
  | 0, _, _, _ => Wp.outOfFuel
  | n + 1, r, s, h => by
    have ih := eatDecimalDigitsLoop_wp n
    unfold eatDecimalDigitsLoop
    rx4_auto
    · rename_i x r' hn x' hx' d hd hat a s1 ds r1 hr hds hnx hat1 hs1
      subst hs1
      cases hx'
      have hx : isAsciiDigit x = true := by simpa using hn
      rw [toDigit10_eq hx] at hd
      cases hd
      refine ⟨x :: ds, r1, by rw [hr]; rfl, ?_, hnx, hat1, ?_⟩
      · intro d hd
        rcases List.mem_cons.mp hd with rfl | hd
        · exact decimalDigit_of_isAsciiDigit hx
        · exact hds d hd
      · st_norm
        rw [accDec_cons, List.length_cons, Nat.add_assoc, Nat.add_comm 1]
    · rename_i x r' hc
      refine ⟨[], x :: r', rfl, forall_mem_nil, ?_, h, ?_⟩
      · intro d hd; cases hd; exact not_decimalDigit_of hc
      · show s = (s.setPos src (s.reader.index + 0)).withInt s.lastIntValue
        rw [Nat.add_zero, setPos_self h.inv]; rfl
    · exact ⟨[], [], rfl, forall_mem_nil, forall_head_nil, h, by
        show s = (s.setPos src (s.reader.index + 0)).withInt s.lastIntValue
        rw [Nat.add_zero, setPos_self h.inv]; rfl⟩

/-- `eat_decimal_digits`: the maximal run of decimal digits; `true` iff it is non-empty -/
theorem eatDecimalDigits_wp (n : Nat) (r : List Nat) (s : St) (h : UAt src N r s) :
    Wp (eatDecimalDigits n s) (fun b s1 => ∃ ds r1, r = ds ++ r1 ∧ (∀ d ∈ ds, DecimalDigit d) ∧
      (∀ d, r1.head? = some d → ¬DecimalDigit d) ∧ UAt src N r1 s1 ∧
      s1 = (s.setPos src (s.reader.index + ds.length)).withInt (satI (mvDec ds)) ∧ (b = true ↔ ds ≠ [])) := by
  unfold eatDecimalDigits
  rx4_auto
  rename_i a s1 ds r1 hr hds hnx hat1 hs1
  subst hs1
  refine ⟨ds, r1, hr, hds, hnx, hat1, ?_, ?_⟩
  · st_norm
    rw [accDec_zero]
  · st_norm
    cases ds with
    | nil => simp
    | cons d ds' => simp

theorem eatBracedQuantifier_wp (n : Nat) (noError : Bool) (r : List Nat) (s : St) (h : UAt src N r s) :
    Wp (eatBracedQuantifier n noError s) (fun b s1 => KeepN s s1 ∧
      if b = true then ∃ r1, UAt src N r1 s1 ∧ (noError = false → QuantifierPrefix qokSat r r1)
      else UAt src N r s1) := by
  unfold eatBracedQuantifier
  rx4_autos
  all_goals (try rx4_false)
  · -- `{ DecimalDigits , }`
    rename_i m hat0 ds1 hds1 hne1 m2 hat1 hm hnx1 hat2 ds2 hds2 hne2 r1 hat3 hm2 hnx2 hat4 hn
    have hnil : ds2 = [] := by
      cases ds2 with
      | nil => rfl
      | cons a t => exact (hne2.mpr (List.cons_ne_nil a t)).elim
    subst hnil
    refine ⟨by rx4_keep, ?_⟩
    rw [if_pos rfl]
    refine ⟨r1, by rx4_at, fun _ => ?_⟩
    rw [hm, hm2]
    exact QuantifierPrefix.atLeast _ r1 ds1 ⟨rfl, hne1.mp trivial, hds1⟩
  · -- `{ DecimalDigits , DecimalDigits }`
    rename_i m hat0 ds1 hds1 hne1 m2 hat1 hm hnx1 hat2 ds2 hds2 hne2 r1 hat3 hm2 hnx2 hat4 hn
    refine ⟨by rx4_keep, ?_⟩
    rw [if_pos rfl]
    refine ⟨r1, by rx4_at, fun hno => ?_⟩
    subst hno
    rw [hm, hm2]
    refine QuantifierPrefix.range _ _ r1 ds1 ds2 ⟨rfl, hne1.mp trivial, hds1⟩ ⟨rfl, hne2.mp trivial, hds2⟩ ?_
    simp only [st_simp, Bool.not_false, Bool.true_and] at hn
    exact Int.not_lt.mp (fun hlt => hn (decide_eq_true hlt))
  · -- `{ DecimalDigits }`
    rename_i m hat0 ds1 hds1 hne1 r1 hat1 hm hnx1 hat2 hnc hn
    refine ⟨by rx4_keep, ?_⟩
    rw [if_pos rfl]
    refine ⟨r1, by rx4_at, fun _ => ?_⟩
    rw [hm]
    exact QuantifierPrefix.exact _ r1 ds1 ⟨rfl, hne1.mp trivial, hds1⟩

theorem consumeQuantifier_wp (n : Nat) (noConsume : Bool) (r : List Nat) (s : St) (h : UAt src N r s) :
    Wp (consumeQuantifier n noConsume s) (fun b s1 => KeepN s s1 ∧
      if b = true then ∃ r1, UAt src N r1 s1 ∧ (noConsume = false → Quantifier qokSat r r1)
      else UAt src N r s1) := by
  unfold consumeQuantifier
  rx4_auto
  all_goals (try rx4_false)
  · rx4_true; exact ⟨_, by rx4_at, fun _ => Quantifier.lazy _ _ (QuantifierPrefix.star _)⟩
  · rx4_true; exact ⟨_, by rx4_at, fun _ => Quantifier.greedy _ _ (QuantifierPrefix.star _)⟩
  · rx4_true; exact ⟨_, by rx4_at, fun _ => Quantifier.lazy _ _ (QuantifierPrefix.plus _)⟩
  · rx4_true; exact ⟨_, by rx4_at, fun _ => Quantifier.greedy _ _ (QuantifierPrefix.plus _)⟩
  · rx4_true; exact ⟨_, by rx4_at, fun _ => Quantifier.lazy _ _ (QuantifierPrefix.opt _)⟩
  · rx4_true; exact ⟨_, by rx4_at, fun _ => Quantifier.greedy _ _ (QuantifierPrefix.opt _)⟩
  · rename_i _ _ _ s1 hk r1 hat1 hat2 hq
    rx4_true; exact ⟨_, by rx4_at, fun hno => Quantifier.lazy _ _ (hq hno)⟩
  · rename_i _ _ _ s1 hk r1 hat1 hq _
    rx4_true; exact ⟨_, by rx4_at, fun hno => Quantifier.greedy _ _ (hq hno)⟩

theorem consumeOptionalQuantifier_wp (n : Nat) (r : List Nat) (s : St) (h : UAt src N r s) :
    Wp (consumeOptionalQuantifier n s) (fun b s1 => b = true ∧ KeepN s s1 ∧
      ∃ r1, UAt src N r1 s1 ∧ (r1 = r ∨ Quantifier qokSat r r1)) := by
  unfold consumeOptionalQuantifier
  rx4_auto
  rename_i b s1 hk hb
  refine ⟨rfl, hk, ?_⟩
  cases b
  · rw [if_neg (by decide)] at hb
    exact ⟨r, hb, .inl rfl⟩
  · rw [if_pos rfl] at hb
    obtain ⟨r1, hat, hq⟩ := hb
    exact ⟨r1, hat, .inr (hq rfl)⟩

end DL.Rx
