import DL.Lemmas.RxCompAtom
import DL.Lemmas.RxSpecMutual
import DL.Lemmas.RxSpecScanG

/-! # Completeness: the recursive productions — follow sets, name bookkeeping, the list view of `Alternative` -/
namespace DL.Rx
open DL.RxSpec DL.Gen.Unicode

variable {src : List Nat} {N : Nat}

/-- the group names of the phrase are new and pairwise different -/
def ND (g : List Name) (a : Attr) : Prop := (g ++ groupNames a.groups).Nodup

theorem ND.nil (g : List Name) (h : g.Nodup) : ND g Attr.nil := by
  show (g ++ []).Nodup; rw [List.append_nil]; exact h

theorem ND.left {g : List Name} {a b : Attr} (h : ND g (a ++ b)) : ND g a := by
  have h' : (g ++ groupNames (a.groups ++ b.groups)).Nodup := h
  rw [groupNames_append, ← List.append_assoc] at h'
  exact (List.nodup_append.mp h').1

theorem ND.right {g g1 : List Name} {a b : Attr} (h : ND g (a ++ b)) (hg : g1 = g ++ groupNames a.groups) : ND g1 b := by
  have h' : (g ++ groupNames (a.groups ++ b.groups)).Nodup := h
  rw [groupNames_append, ← List.append_assoc] at h'
  subst hg; exact h'

theorem ND.base {g : List Name} {a : Attr} (h : ND g a) : g.Nodup := (List.nodup_append.mp h).1

/-- the name of a named group is new -/
theorem ND.new {g : List Name} {nm : Name} {a : Attr} (h : ND g (⟨[some nm], []⟩ ++ a)) : ¬nm ∈ g := by
  have h' : (g ++ groupNames (some nm :: a.groups)).Nodup := h
  have h'' : (g ++ nm :: groupNames a.groups).Nodup := h'
  intro hm
  exact (List.nodup_append.mp h'').2.2 nm hm nm (List.mem_cons_self) rfl

def AltFollow (r : List Nat) : Prop := r = [] ∨ r.head? = some (ch '|') ∨ r.head? = some (ch ')')
def DFollow (r : List Nat) : Prop := r = [] ∨ r.head? = some (ch ')')

theorem NoQ.of_ne {x : Nat} {m : List Nat} (h : x ≠ ch '*' ∧ x ≠ ch '+' ∧ x ≠ ch '?' ∧ x ≠ ch '{') : NoQ (x :: m) :=
  ⟨head_ne_of_ne h.1 _, head_ne_of_ne h.2.1 _, head_ne_of_ne h.2.2.1 _, head_ne_of_ne h.2.2.2 _⟩

theorem NoQ.nil : NoQ [] := ⟨nil_head_ne _, nil_head_ne _, nil_head_ne _, nil_head_ne _⟩

theorem NoQ.of_head {r : List Nat} {x : Nat} (h : r.head? = some x)
    (hx : x ≠ ch '*' ∧ x ≠ ch '+' ∧ x ≠ ch '?' ∧ x ≠ ch '{') : NoQ r := by
  cases r with
  | nil => cases h
  | cons y m => cases h; exact NoQ.of_ne hx

theorem AltFollow.noQ {r : List Nat} (h : AltFollow r) : NoQ r := by
  rcases h with rfl | h | h
  · exact NoQ.nil
  · exact NoQ.of_head h (by decide)
  · exact NoQ.of_head h (by decide)

theorem DFollow.alt {r : List Nat} (h : DFollow r) : AltFollow r := h.imp id .inr

/-- a term, an assertion, an atom does not start with a quantifier character; an alternative / a disjunction does
not, unless it is empty and what follows does -/
theorem derives_noQ {qok : Nat → Nat → Prop} {sym : Sym} {i r : List Nat} {a : Attr}
    (h : Derives qok N sym i r a) : (NoQ r ∨ isTAA sym = true) → NoQ i := by
  induction h with
  | disjOne i r a _ ih => exact fun h => ih (h.imp id (fun h => by cases h))
  | disjMore i m r a₁ a₂ _ _ ih1 _ => exact fun _ => ih1 (.inl (NoQ.of_ne (by decide)))
  | altEmpty r => exact fun h => h.elim id (fun h => by cases h)
  | altSnoc i m r a₁ a₂ _ _ ih1 ih2 => exact fun _ => ih1 (.inl (ih2 (.inr rfl)))
  | termAssertion i r a _ ih => exact fun _ => ih (.inr rfl)
  | termAtom i r a _ ih => exact fun _ => ih (.inr rfl)
  | termQuantified i m r a _ _ ih => exact fun _ => ih (.inr rfl)
  | caret r => exact fun _ => NoQ.of_ne (by decide)
  | dollar r => exact fun _ => NoQ.of_ne (by decide)
  | wordBoundary r => exact fun _ => NoQ.of_ne (by decide)
  | notWordBoundary r => exact fun _ => NoQ.of_ne (by decide)
  | lookahead i m r a hl _ _ => exact fun _ => by rw [show i = _ from hl]; exact NoQ.of_ne (by decide)
  | negativeLookahead i m r a hl _ _ => exact fun _ => by rw [show i = _ from hl]; exact NoQ.of_ne (by decide)
  | lookbehind i m r a hl _ _ => exact fun _ => by rw [show i = _ from hl]; exact NoQ.of_ne (by decide)
  | negativeLookbehind i m r a hl _ _ => exact fun _ => by rw [show i = _ from hl]; exact NoQ.of_ne (by decide)
  | patternCharacter x r hx =>
    intro _
    refine NoQ.of_ne ⟨?_, ?_, ?_, ?_⟩ <;> (intro e; subst e; exact hx.2 (by unfold SyntaxCharacter; decide))
  | dot r => exact fun _ => NoQ.of_ne (by decide)
  | atomEscape m r a _ => exact fun _ => NoQ.of_ne (by decide)
  | characterClass i r hc =>
    intro _
    cases hc <;> exact NoQ.of_ne (by decide)
  | group m₁ m₂ r name a _ _ _ => exact fun _ => NoQ.of_ne (by decide)
  | nonCapturing i m r a hl _ _ => exact fun _ => by rw [show i = _ from hl]; exact NoQ.of_ne (by decide)

/-- a term is not empty -/
theorem term_cons {qok : Nat → Nat → Prop} {sym : Sym} {i r : List Nat} {a : Attr}
    (h : Derives qok N sym i r a) : isTAA sym = true → ∃ x m, i = x :: m := by
  induction h with
  | disjOne => exact fun h => by cases h
  | disjMore => exact fun h => by cases h
  | altEmpty => exact fun h => by cases h
  | altSnoc => exact fun h => by cases h
  | termAssertion i r a _ ih => exact fun _ => ih rfl
  | termAtom i r a _ ih => exact fun _ => ih rfl
  | termQuantified i m r a _ _ ih => exact fun _ => ih rfl
  | lookahead i m r a hl _ _ => exact fun _ => ⟨_, _, hl⟩
  | negativeLookahead i m r a hl _ _ => exact fun _ => ⟨_, _, hl⟩
  | lookbehind i m r a hl _ _ => exact fun _ => ⟨_, _, hl⟩
  | negativeLookbehind i m r a hl _ _ => exact fun _ => ⟨_, _, hl⟩
  | nonCapturing i m r a hl _ _ => exact fun _ => ⟨_, _, hl⟩
  | characterClass i r hc => intro _; cases hc <;> exact ⟨_, _, rfl⟩
  | _ => exact fun _ => ⟨_, _, rfl⟩

/-- an `Alternative` as the list of its terms, each with a property `P` (the induction hypothesis) -/
inductive TermsP (P : List Nat → List Nat → Attr → Prop) : List Nat → List Nat → Attr → Prop
  | nil (r : List Nat) : TermsP P r r Attr.nil
  | cons (i m r : List Nat) (a₁ a₂ : Attr) : Derives qokSat N .Term i m a₁ → P i m a₁ → TermsP P m r a₂ →
      TermsP P i r (a₁ ++ a₂)

theorem TermsP.snoc {P : List Nat → List Nat → Attr → Prop} {i m r : List Nat} {a₁ a₂ : Attr}
    (h : TermsP (N := N) P i m a₁) (ht : Derives qokSat N .Term m r a₂) (hp : P m r a₂) : TermsP (N := N) P i r (a₁ ++ a₂) := by
  induction h with
  | nil r0 =>
    rw [Attr.nil_append, ← Attr.append_nil a₂]
    exact TermsP.cons _ _ _ _ _ ht hp (TermsP.nil _)
  | cons i0 m0 r0 b₁ b₂ ht0 hp0 _ ih =>
    rw [Attr.append_assoc]
    exact TermsP.cons _ _ _ _ _ ht0 hp0 (ih ht hp)

theorem TermsP.noQ {P : List Nat → List Nat → Attr → Prop} {i r : List Nat} {a : Attr}
    (h : TermsP (N := N) P i r a) (hr : NoQ r) : NoQ i := by
  cases h with
  | nil => exact hr
  | cons _ m _ a₁ a₂ ht _ _ => exact derives_noQ ht (.inr rfl)

end DL.Rx
