import DL.Lemmas.CFSwitch2

/-! Soundness invariant: the case list. -/
namespace DL.CF

structure Split3 (p : Nat) (xs ys zs : List Nat) : Prop where
  px : p ∉ xs
  py : p ∉ ys
  pz : p ∉ zs
  nx : xs.Nodup
  ny : ys.Nodup
  nz : zs.Nodup
  xy : ∀ q, q ∈ xs → q ∈ ys → False
  xz : ∀ q, q ∈ xs → q ∈ zs → False
  yz : ∀ q, q ∈ ys → q ∈ zs → False

theorem Split3.of {p : Nat} {xs ys zs : List Nat} (h : (p :: (xs ++ (ys ++ zs))).Nodup) : Split3 p xs ys zs := by
  have h1 := List.nodup_cons.mp h
  have h2 := List.nodup_append.mp h1.2
  have h3 := List.nodup_append.mp h2.2.1
  exact ⟨fun h => h1.1 (by simp [h]), fun h => h1.1 (by simp [h]), fun h => h1.1 (by simp [h]), h2.1, h3.1, h3.2.1,
    fun q a b => h2.2.2 q a q (List.mem_append.mpr (Or.inl b)) rfl,
    fun q a b => h2.2.2 q a q (List.mem_append.mpr (Or.inr b)) rfl,
    fun q a b => h3.2.2 q a q b rfl⟩

theorem Split3.nodup12 {p : Nat} {xs ys zs : List Nat} (h : Split3 p xs ys zs) : (p :: (xs ++ ys)).Nodup := by
  refine List.nodup_cons.mpr ⟨?_, List.nodup_append.mpr ⟨h.nx, h.ny, ?_⟩⟩
  · intro hm; rcases List.mem_append.mp hm with hm | hm
    · exact h.px hm
    · exact h.py hm
  · intro a ha b hb e; subst e; exact h.xy a ha hb

theorem casesCons_ok (live : Bool) (p : Nat) (d : Bool) (t : Kids) (body : Stmts) (r : Cases) (a : A)
    (hpt : t.pure = true)
    (hpre : Pre live (Cases.cons p d t body r).positions a)
    (ihk : ∀ x, PreK t.positions x → PostK t.upos t.positions t.inner t.mayThrow x (visitKids t x))
    (ihb : ∀ a0, Pre live body.positions a0 → PostL live body.upos body.positions body.compl body.reach body.inner a0 (visitStmts body a0))
    (ihr : ∀ a0, Pre live r.positions a0 → PostC live r a0 (visitCases r a0)) :
    PostC live (.cons p d t body r) a (visitCases (.cons p d t body r) a) := by
  simp only [Cases.positions] at hpre
  have hsp := Split3.of hpre.nodup
  have h1 := caseStep live p t body a
    (hpre.sub (fun q hq => by
      simp only [List.mem_cons, List.mem_append] at hq ⊢
      rcases hq with h | h | h
      · exact Or.inl h
      · exact Or.inr (Or.inl h)
      · exact Or.inr (Or.inr (Or.inl h))) hsp.nodup12) ihk ihb
  simp only [visitCases]
  generalize caseTail p a.sc.end_ (withChildR .case p (visitStmts body) (visitKids t a)) = a1 at h1
  have hpre2 : Pre live r.positions a1 := by
    refine ⟨fun h => hpre.hs (by rw [← h1.end_]; exact h), ?_, hsp.nz⟩
    intro q hq
    rw [endAt_eq_of_info_eq (h1.frame q (fun e => hsp.pz (e ▸ hq)) (fun h => hsp.xz q h hq) (fun h => hsp.yz q h hq))]
    exact hpre.fresh q (by simp [hq])
  have h2 := ihr a1 hpre2
  generalize visitCases r a1 = a2 at h2
  have htu : ∀ q, q ∈ t.upos → q ≠ p ∧ q ∉ body.positions ∧ q ∉ r.positions := fun q hq =>
    have hq' := Kids.upos_sub t q hq
    ⟨fun e => hsp.px (e ▸ hq'), fun h => hsp.xy q hq' h, fun h => hsp.xz q hq' h⟩
  have hbu : ∀ q, q ∈ body.upos → q ≠ p ∧ q ∉ t.positions ∧ q ∉ r.positions := fun q hq =>
    have hq' := Stmts.upos_sub body q hq
    ⟨fun e => hsp.py (e ▸ hq'), fun h => hsp.xy q h hq', fun h => hsp.yz q hq' h⟩
  have hru : ∀ q, q ∈ r.upos → q ≠ p ∧ q ∉ t.positions ∧ q ∉ body.positions := fun q hq =>
    have hq' := Cases.upos_sub r q hq
    ⟨fun e => hsp.pz (e ▸ hq'), fun h => hsp.xz q h hq', fun h => hsp.yz q h hq'⟩
  have reach_false : ∀ (cs : Cases) q, q ∉ cs.positions → cs.reach q = false := fun cs q h => by
    cases hr : cs.reach q with
    | false => rfl
    | true => exact absurd (cs.reach_mem q hr) h
  have inner_false : ∀ (cs : Cases) q, q ∉ cs.positions → cs.inner q = false := fun cs q h => by
    cases hr : cs.inner q with
    | false => rfl
    | true => exact absurd (cs.inner_mem q hr) h
  refine ⟨h2.end_.trans h1.end_, h2.fb.trans h1.fb, fun h => h2.monoC (h1.monoC h), ?_, fun h => h2.mt (h1.mt h), ?_, ?_, ?_, ?_, ?_⟩
  · intro h
    simp only [Cases.anyCont] at h
    cases hc : (live && (body.compl.c || body.compl.hasCl)) with
    | true => exact h2.monoC (h1.p2c hc)
    | false =>
      apply h2.p2c
      revert h hc; cases live <;> cases body.compl.c <;> cases body.compl.hasCl <;> simp
  · intro h
    simp only [Cases.testsMayThrow, Cases.anyT] at h
    cases hc : (live && (t.mayThrow || body.compl.t)) with
    | true => exact h2.mt (h1.pT hc)
    | false =>
      apply h2.pT
      revert h hc; cases live <;> cases t.mayThrow <;> cases body.compl.t <;> simp
  · intro q hq hu
    simp only [Cases.upos, List.mem_append] at hq
    simp only [Cases.reach, Kids.flowReach_pure t q hpt, Bool.or_false]
    rcases hq with hq | hq | hq
    · simp [(htu q hq).1, body.reach_false q (htu q hq).2.1, reach_false r q (htu q hq).2.2]
    · rw [ur_eq_of_info_eq (h2.frame q (hbu q hq).2.2)] at hu
      have := h1.p3 q hq hu
      revert this; cases live <;> simp [(hbu q hq).1, reach_false r q (hbu q hq).2.2]
    · have := h2.p3 q hq hu
      revert this; cases live <;> simp [(hru q hq).1, body.reach_false q (hru q hq).2.2]
  · intro q hq hu
    simp only [Cases.upos, List.mem_append] at hq
    simp only [Cases.inner]
    rcases hq with hq | hq | hq
    · rw [ur_eq_of_info_eq (h2.frame q (htu q hq).2.2)] at hu
      simp [h1.p3t q hq hu, body.inner_false q (htu q hq).2.1, inner_false r q (htu q hq).2.2]
    · rw [ur_eq_of_info_eq (h2.frame q (hbu q hq).2.2)] at hu
      simp [h1.p3i q hq hu, Kids.inner_false t q (hbu q hq).2.1, inner_false r q (hbu q hq).2.2]
    · simp [h2.p3i q hq hu, Kids.inner_false t q (hru q hq).2.1, body.inner_false q (hru q hq).2.2]
  · intro q hq
    simp only [Cases.positions, List.mem_cons, List.mem_append, not_or] at hq
    rw [h2.frame q hq.2.2.2, h1.frame q hq.1 hq.2.1 hq.2.2.1]
  · simp only [Cases.marks]
    refine ⟨?_, h2.marks⟩
    rw [endAt_eq_of_info_eq (h2.frame p hsp.pz)]
    exact h1.mark

theorem casesNil_ok (live : Bool) (a : A) : PostC live .nil a (visitCases .nil a) :=
  ⟨rfl, rfl, id, by simp [Cases.anyCont], id, by simp [Cases.testsMayThrow, Cases.anyT], fun _ h _ => absurd h (by simp [Cases.upos]),
    fun _ h _ => absurd h (by simp [Cases.upos]), fun _ _ => rfl, trivial⟩

end DL.CF
