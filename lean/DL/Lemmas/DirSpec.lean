import DL.Model.Dir

/-!
# What the code list of a directive means: tokens between separators, reason cut off

`parse_ignore_comment` turns the text after the directive word into codes by two regex replacements and a split.
This file proves the closed form: the codes are the maximal runs of non-separator characters (separator = white space
or comma) of the text before the reason (`tokens`), from which separator- and reason-independence follow.
-/
namespace DL.Dir

def isSep (c : Char) : Bool := isWs c || c == ','

/-- split at every separator character (pieces may be empty) -/
def pieces : List Char → List (List Char)
  | [] => [[]]
  | c :: t =>
    match pieces t with
    | [] => [[]]
    | w :: ws => if isSep c then [] :: w :: ws else (c :: w) :: ws

def nonE (l : List (List Char)) : List (List Char) := l.filter (fun w => !w.isEmpty)

/-- the codes a text denotes: its maximal separator-free runs, in order -/
def tokens (t : List Char) : List (List Char) := nonE (pieces t)

theorem pieces_ne (t : List Char) : pieces t ≠ [] := by
  cases t with
  | nil => simp [pieces]
  | cons c t => simp only [pieces]; split <;> (try split) <;> simp

theorem splitComma_ne (t : List Char) : splitComma t ≠ [] := by
  cases t with
  | nil => simp [splitComma]
  | cons c t => simp only [splitComma]; split <;> (try split) <;> simp

theorem splitComma_comma (t : List Char) : splitComma (',' :: t) = [] :: splitComma t := by
  simp only [splitComma]
  cases h : splitComma t with
  | nil => exact absurd h (splitComma_ne t)
  | cons w ws => simp

theorem splitComma_other (c : Char) (t : List Char) (hc : c ≠ ',') (w : List Char) (ws : List (List Char))
    (h : splitComma t = w :: ws) : splitComma (c :: t) = (c :: w) :: ws := by
  simp [splitComma, h, hc]

theorem pieces_sep (c : Char) (t : List Char) (hc : isSep c = true) : pieces (c :: t) = [] :: pieces t := by
  simp only [pieces]
  cases h : pieces t with
  | nil => exact absurd h (pieces_ne t)
  | cons w ws => simp [hc]

theorem pieces_other (c : Char) (t : List Char) (hc : isSep c = false) (w : List Char) (ws : List (List Char))
    (h : pieces t = w :: ws) : pieces (c :: t) = (c :: w) :: ws := by
  simp [pieces, h, hc]

@[simp] theorem nonE_nil_cons (l : List (List Char)) : nonE ([] :: l) = nonE l := by simp [nonE]
theorem nonE_cons_cons (c : Char) (w : List Char) (l : List (List Char)) : nonE ((c :: w) :: l) = (c :: w) :: nonE l := by
  simp [nonE]

/-- the two replacement modes agree with `pieces` up to empty pieces; outside a comma's white-space tail even the
first piece is the same -/
theorem replaceSeps_pieces (x : List Char) :
    (∃ h r r', splitComma (replaceSepsAux false x) = h :: r ∧ pieces x = h :: r' ∧ nonE r = nonE r') ∧
    nonE (splitComma (replaceSepsAux true x)) = nonE (pieces x) := by
  induction x with
  | nil => exact ⟨⟨[], [], [], by simp [replaceSepsAux, splitComma], by simp [pieces], rfl⟩, by simp [replaceSepsAux, splitComma, pieces]⟩
  | cons c t ih =>
    obtain ⟨⟨h, r, r', h1, h2, h3⟩, ih2⟩ := ih
    have hfalse : nonE (splitComma (replaceSepsAux false t)) = nonE (pieces t) := by
      rw [h1, h2]; cases h <;> simp [nonE, h3] <;> exact h3
    by_cases hcomma : c = ','
    · subst hcomma
      have hs : isSep ',' = true := by decide
      constructor
      · refine ⟨[], splitComma (replaceSepsAux true t), pieces t, ?_, pieces_sep _ _ hs, ih2⟩
        simp only [replaceSepsAux, if_true]; exact splitComma_comma _
      · simp only [replaceSepsAux, if_true]; rw [splitComma_comma, pieces_sep _ _ hs]; simpa using ih2
    · by_cases hws : isWs c = true
      · have hs : isSep c = true := by simp [isSep, hws]
        constructor
        · refine ⟨[], splitComma (replaceSepsAux false t), pieces t, ?_, pieces_sep _ _ hs, hfalse⟩
          simp only [replaceSepsAux, hcomma, if_false, hws, if_true, Bool.false_eq_true]
          exact splitComma_comma _
        · simp only [replaceSepsAux, hcomma, if_false, hws, if_true]
          rw [pieces_sep _ _ hs]; simpa using ih2
      · have hws' : isWs c = false := by simpa using hws
        have hs : isSep c = false := by simp [isSep, hws', hcomma]
        have e1 : splitComma (c :: replaceSepsAux false t) = (c :: h) :: r := splitComma_other c _ hcomma h r h1
        have e2 : pieces (c :: t) = (c :: h) :: r' := pieces_other c t hs h r' h2
        constructor
        · refine ⟨c :: h, r, r', ?_, e2, h3⟩
          simp only [replaceSepsAux, hcomma, if_false, hws]; exact e1
        · simp only [replaceSepsAux, hcomma, if_false, hws, Bool.false_eq_true]
          rw [e1, e2, nonE_cons_cons, nonE_cons_cons, h3]

/-- no white space (and no comma) survives the replacement inside a piece -/
theorem replaceSeps_no_ws (b : Bool) (x : List Char) : ∀ w ∈ splitComma (replaceSepsAux b x), ∀ c ∈ w, isWs c = false := by
  induction x generalizing b with
  | nil => intro w hw c hc; simp [replaceSepsAux, splitComma] at hw; subst hw; cases hc
  | cons d t ih =>
    intro w hw c hc
    by_cases hcomma : d = ','
    · subst hcomma
      simp only [replaceSepsAux, if_true] at hw
      rw [splitComma_comma] at hw
      rcases List.mem_cons.mp hw with rfl | hw
      · cases hc
      · exact ih true w hw c hc
    · by_cases hws : isWs d = true
      · simp only [replaceSepsAux, hcomma, if_false, hws, if_true] at hw
        cases b with
        | true => simp only [if_true] at hw; exact ih true w hw c hc
        | false =>
          simp only [Bool.false_eq_true, if_false] at hw
          rw [splitComma_comma] at hw
          rcases List.mem_cons.mp hw with rfl | hw
          · cases hc
          · exact ih false w hw c hc
      · have hws' : isWs d = false := by simpa using hws
        simp only [replaceSepsAux, hcomma, if_false, hws, Bool.false_eq_true] at hw
        cases hsp : splitComma (replaceSepsAux false t) with
        | nil => exact absurd hsp (splitComma_ne _)
        | cons h r =>
          rw [splitComma_other d _ hcomma h r hsp] at hw
          rcases List.mem_cons.mp hw with rfl | hw
          · rcases List.mem_cons.mp hc with rfl | hc
            · exact hws'
            · exact ih false h (by rw [hsp]; exact List.mem_cons_self) c hc
          · exact ih false w (by rw [hsp]; exact List.mem_cons_of_mem _ hw) c hc

theorem trimEnd_no_ws (w : List Char) (h : ∀ c ∈ w, isWs c = false) : trimEnd w = w := by
  induction w with
  | nil => rfl
  | cons c t ih =>
    have iht := ih (fun d hd => h d (List.mem_cons_of_mem _ hd))
    simp only [trimEnd, iht]
    cases t with
    | nil => simp [h c List.mem_cons_self]
    | cons d t' => rfl

theorem trim_no_ws (w : List Char) (h : ∀ c ∈ w, isWs c = false) : trim w = w := by
  unfold trim trimStart
  have : w.dropWhile isWs = w := by
    cases w with
    | nil => rfl
    | cons c t => simp [List.dropWhile, h c List.mem_cons_self]
  rw [this]; exact trimEnd_no_ws w h

/-- **closed form of the code list**: replacement, split, dropping empties and trimming yield exactly the tokens -/
theorem codes_eq_tokens (x : List Char) :
    (splitComma (replaceSeps x)).filterMap (fun code => if code.isEmpty then none else some (trim code)) = tokens x := by
  have hno := replaceSeps_no_ws false x
  have hp := (replaceSeps_pieces x).1
  obtain ⟨h, r, r', h1, h2, h3⟩ := hp
  have hne : nonE (splitComma (replaceSeps x)) = tokens x := by
    unfold tokens replaceSeps; rw [h1, h2]; cases h <;> simp [nonE, h3] <;> exact h3
  rw [← hne]
  unfold replaceSeps at hno ⊢
  generalize splitComma (replaceSepsAux false x) = l at hno
  induction l with
  | nil => rfl
  | cons w ws ih =>
    have ihw := ih (fun w' hw' => hno w' (List.mem_cons_of_mem _ hw'))
    cases w with
    | nil => simpa [nonE] using ihw
    | cons c t =>
      have ht := trim_no_ws (c :: t) (hno (c :: t) List.mem_cons_self)
      simp only [List.filterMap_cons, List.isEmpty_cons, Bool.false_eq_true, if_false, ht, nonE_cons_cons]
      rw [ihw]

/-! ### separator independence: tokens of `s0 c1 s1 c2 … cn sn` are `c1 … cn` -/
/-- a code: non-empty, free of separators -/
def IsCode (w : List Char) : Prop := w ≠ [] ∧ ∀ c ∈ w, isSep c = false
/-- a separator string -/
def IsSeps (s : List Char) : Prop := ∀ c ∈ s, isSep c = true

theorem tokens_sep_cons (c : Char) (t : List Char) (hc : isSep c = true) : tokens (c :: t) = tokens t := by
  unfold tokens; rw [pieces_sep c t hc]; simp

theorem tokens_seps_append (s t : List Char) (hs : IsSeps s) : tokens (s ++ t) = tokens t := by
  induction s with
  | nil => rfl
  | cons c r ih =>
    rw [List.cons_append, tokens_sep_cons c _ (hs c List.mem_cons_self)]
    exact ih (fun d hd => hs d (List.mem_cons_of_mem _ hd))

/-- a code followed by a separator (or the end) is the next token -/
theorem pieces_code_append (w t : List Char) (hw : ∀ c ∈ w, isSep c = false) :
    ∃ h r, pieces t = h :: r ∧ pieces (w ++ t) = (w ++ h) :: r := by
  induction w with
  | nil =>
    cases h : pieces t with
    | nil => exact absurd h (pieces_ne t)
    | cons a b => exact ⟨a, b, rfl, by simpa using h⟩
  | cons c u ih =>
    obtain ⟨h, r, h1, h2⟩ := ih (fun d hd => hw d (List.mem_cons_of_mem _ hd))
    exact ⟨h, r, h1, by rw [List.cons_append, pieces_other c _ (hw c List.mem_cons_self) _ _ h2]; rfl⟩

theorem tokens_code_sep (w : List Char) (s : Char) (t : List Char) (hw : IsCode w) (hs : isSep s = true) :
    tokens (w ++ s :: t) = w :: tokens t := by
  obtain ⟨h, r, h1, h2⟩ := pieces_code_append w (s :: t) hw.2
  rw [pieces_sep s t hs] at h1
  injection h1 with hh hr
  subst hh; subst hr
  unfold tokens; rw [h2]
  cases w with
  | nil => exact absurd rfl hw.1
  | cons c u => simp [nonE]

theorem tokens_code_end (w : List Char) (hw : IsCode w) : tokens w = [w] := by
  obtain ⟨h, r, h1, h2⟩ := pieces_code_append w [] hw.2
  simp only [pieces] at h1
  injection h1 with hh hr
  subst hh; subst hr
  unfold tokens; rw [← List.append_nil w, h2]
  cases w with
  | nil => exact absurd rfl hw.1
  | cons c u => simp [nonE]

/-- the text `c1 s1 c2 s2 … cn sn` built from codes and non-empty separator strings (the last may be empty) -/
def joinCodes : List (List Char × List Char) → List Char
  | [] => []
  | (w, s) :: r => w ++ s ++ joinCodes r

/-- **separator independence**: whatever non-empty mixtures of white space and commas separate the codes (and whatever
separators lead or trail), the code list is the same -/
theorem tokens_joinCodes (s0 : List Char) (l : List (List Char × List Char)) (h0 : IsSeps s0)
    (hl : ∀ ws ∈ l, IsCode ws.1 ∧ IsSeps ws.2)
    (hsep : ∀ i, i + 1 < l.length → (l[i]?.map (·.2)) ≠ some []) :
    tokens (s0 ++ joinCodes l) = l.map (·.1) := by
  rw [tokens_seps_append s0 _ h0]
  induction l with
  | nil => simp [joinCodes, tokens, pieces, nonE]
  | cons ws r ih =>
    obtain ⟨w, s⟩ := ws
    have hw := (hl (w, s) List.mem_cons_self)
    have ihr := ih (fun x hx => hl x (List.mem_cons_of_mem _ hx))
      (fun i hi => by have := hsep (i + 1) (by simp only [List.length_cons]; omega); simpa using this)
    simp only [joinCodes, List.map_cons, List.append_assoc]
    cases s with
    | nil =>
      -- no separator after this code: it must be the last one
      cases r with
      | nil => simp only [joinCodes, List.append_nil, List.nil_append, List.map_nil]; exact tokens_code_end w hw.1
      | cons x r' =>
        have := hsep 0 (by simp)
        simp at this
    | cons c s' =>
      rw [List.cons_append, tokens_code_sep w c _ hw.1 (hw.2 c List.mem_cons_self),
        tokens_seps_append s' _ (fun d hd => hw.2 d (List.mem_cons_of_mem _ hd)), ihr]

/-! ### reason independence -/
/-- white space only -/
def AllWs (s : List Char) : Prop := ∀ c ∈ s, isWs c = true

theorem startsReason_ws_append (s t : List Char) (hs : AllWs s) : startsReason (s ++ t) = startsReason t := by
  induction s with
  | nil => rfl
  | cons c r ih =>
    simp only [List.cons_append, startsReason, hs c List.mem_cons_self, if_true]
    exact ih (fun d hd => hs d (List.mem_cons_of_mem _ hd))

theorem startsReason_dashes (r : List Char) : startsReason ('-' :: '-' :: r) = true := by
  simp [startsReason, isWs]

/-- trailing separators do not change the pieces except for empty ones at the end -/
theorem pieces_append_seps (t u : List Char) (hu : IsSeps u) :
    ∃ a b b', pieces (t ++ u) = a :: b ∧ pieces t = a :: b' ∧ nonE b = nonE b' := by
  induction t with
  | nil =>
    cases u with
    | nil => exact ⟨[], [], [], by simp [pieces], by simp [pieces], rfl⟩
    | cons s u' =>
      refine ⟨[], pieces u', [], ?_, by simp [pieces], ?_⟩
      · simpa using pieces_sep s u' (hu s List.mem_cons_self)
      · have := tokens_seps_append u' [] (fun d hd => hu d (List.mem_cons_of_mem _ hd))
        simpa [tokens, pieces, nonE] using this
  | cons c t ih =>
    obtain ⟨a, b, b', h1, h2, h3⟩ := ih
    by_cases hc : isSep c = true
    · refine ⟨[], a :: b, a :: b', ?_, ?_, ?_⟩
      · rw [List.cons_append, pieces_sep c _ hc, h1]
      · rw [pieces_sep c _ hc, h2]
      · cases a <;> simp [nonE, h3] <;> exact h3
    · have hc' : isSep c = false := by simpa using hc
      exact ⟨c :: a, b, b', by rw [List.cons_append, pieces_other c _ hc' a b h1], pieces_other c _ hc' a b' h2, h3⟩

theorem tokens_append_seps (t u : List Char) (hu : IsSeps u) : tokens (t ++ u) = tokens t := by
  obtain ⟨a, b, b', h1, h2, h3⟩ := pieces_append_seps t u hu
  unfold tokens; rw [h1, h2]
  cases a <;> simp [nonE, h3] <;> exact h3

/-- if `\s*--` matches at the head of `u ++ tail` but not at the head of `u`, then `u` is white space only
(`tail` = at least one white-space character, then the dashes) -/
theorem allWs_of_startsReason (w : Char) (ws r : List Char) (hw : isWs w = true) :
    ∀ (u : List Char), startsReason u = false → startsReason (u ++ (w :: ws ++ '-' :: '-' :: r)) = true → AllWs u := by
  intro u
  induction u with
  | nil => intro _ _ d hd; cases hd
  | cons d u' ihu =>
    intro h1 h2
    simp only [List.cons_append, startsReason] at h1 h2
    by_cases hd : isWs d = true
    · simp only [hd, if_true] at h1 h2
      intro e he
      rcases List.mem_cons.mp he with rfl | he
      · exact hd
      · exact ihu h1 h2 e he
    · simp only [hd, Bool.false_eq_true, if_false, Bool.and_eq_true, beq_iff_eq] at h1 h2
      obtain ⟨hd1, hd2⟩ := h2
      subst hd1
      cases u' with
      | cons e u'' =>
        simp only [List.cons_append, List.head?_cons] at hd2
        simp [hd2] at h1
      | nil =>
        simp only [List.nil_append, List.cons_append, List.head?_cons, Option.some.injEq] at hd2
        subst hd2
        simp [isWs] at hw

/-- the cut removes at most trailing white space of the text before the reason -/
theorem stripReason_append (x : List Char) (w : Char) (ws r : List Char) (hx : stripReason x = x) (hw : isWs w = true)
    (hws : AllWs ws) :
    ∃ y u, x = y ++ u ∧ AllWs u ∧ stripReason (x ++ (w :: ws ++ '-' :: '-' :: r)) = y := by
  have htail : startsReason (w :: ws ++ '-' :: '-' :: r) = true := by
    have : AllWs (w :: ws) := fun d hd => by
      rcases List.mem_cons.mp hd with rfl | hd
      · exact hw
      · exact hws d hd
    have := startsReason_ws_append (w :: ws) ('-' :: '-' :: r) this
    rw [startsReason_dashes] at this
    simpa using this
  induction x with
  | nil =>
    refine ⟨[], [], rfl, (fun d hd => by cases hd), ?_⟩
    simp only [List.nil_append, List.cons_append, stripReason]
    simp only [List.cons_append] at htail
    rw [htail]; rfl
  | cons c t ih =>
    have hsr : startsReason (c :: t) = false ∧ stripReason t = t := by
      simp only [stripReason] at hx
      by_cases hs : startsReason (c :: t) = true
      · rw [if_pos hs] at hx; cases hx
      · rw [if_neg hs] at hx
        exact ⟨by simpa using hs, by injection hx⟩
    obtain ⟨y', u', e1, e2, e3⟩ := ih hsr.2
    simp only [List.cons_append, stripReason]
    by_cases hs : startsReason (c :: (t ++ (w :: (ws ++ '-' :: '-' :: r)))) = true
    · rw [if_pos hs]
      have := allWs_of_startsReason w ws r hw (c :: t) hsr.1 (by simpa using hs)
      exact ⟨[], c :: t, rfl, this, rfl⟩
    · rw [if_neg hs]
      refine ⟨c :: y', u', by rw [e1]; rfl, e2, ?_⟩
      simp only [List.cons_append] at e3
      rw [e3]

/-- **reason independence**: appending white space, `--` and any reason text to a code list that contains no reason
yet does not change which codes are meant -/
theorem tokens_stripReason_append (x : List Char) (w : Char) (ws r : List Char) (hx : stripReason x = x)
    (hw : isWs w = true) (hws : AllWs ws) :
    tokens (stripReason (x ++ (w :: ws ++ '-' :: '-' :: r))) = tokens x := by
  obtain ⟨y, u, e1, e2, e3⟩ := stripReason_append x w ws r hx hw hws
  rw [e3, e1, tokens_append_seps y u (fun d hd => by simp [isSep, e2 d hd])]

/-- the restriction to at least one white-space character before `--` is needed: a code ending in `-` glued to the
dashes loses its last character (`a---r` means the code `a`, not `a-`) -/
example : tokens (stripReason (chars! "a---r")) = [chars! "a"] ∧ tokens (chars! "a-") = [chars! "a-"] := by decide

end DL.Dir
