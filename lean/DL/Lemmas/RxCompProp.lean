import DL.Lemmas.RxCompEsc
import DL.Lemmas.RxSpecProp

/-! # Completeness: `CharacterClassEscape` (u-mode) -/
namespace DL.Rx
open DL.RxSpec

attribute [local irreducible] isScalar
variable {src : List Nat} {N : Nat}

/-- the maximal prefix with a property -/
theorem exists_run (p : Nat → Prop) : ∀ l : List Nat, ∃ ds r1, l = ds ++ r1 ∧ (∀ d ∈ ds, p d) ∧
    (∀ d, r1.head? = some d → ¬p d)
  | [] => ⟨[], [], rfl, by simp, by simp⟩
  | x :: l => by
    by_cases hx : p x
    · obtain ⟨ds, r1, e, h1, h2⟩ := exists_run p l
      refine ⟨x :: ds, r1, by rw [e]; rfl, ?_, h2⟩
      intro d hd
      rcases List.mem_cons.mp hd with rfl | hd
      · exact hx
      · exact h1 d hd
    · exact ⟨[], x :: l, rfl, by simp, by intro d hd; cases hd; exact hx⟩

theorem eatUnicodePropertyName_wc (n : Nat) (ds r1 : List Nat) (s : St) (h : UAt src N (ds ++ r1) s)
    (hds : ∀ d ∈ ds, UnicodePropertyNameCharacter d) (hstop : ∀ d, r1.head? = some d → ¬UnicodePropertyNameCharacter d) :
    Wc (eatUnicodePropertyName n s) (fun b s1 => (b = true ↔ ds ≠ []) ∧ UAt src N r1 s1 ∧
      s1 = (s.setPos src (s.reader.index + ds.length)).withStr ds) := by
  refine (Wc.of_wp (eatUnicodePropertyName_wp n _ s h) (NE.eatUnicodePropertyName n)).mono ?_
  rintro b s1 ⟨ds', r1', he, hds', hstop', hat, hs1, hb⟩
  obtain ⟨e1, e2⟩ := run_unique he hds hds' hstop hstop'
  subst e1 e2
  exact ⟨hb, hat, hs1⟩

theorem eatUnicodePropertyValue_wc (n : Nat) (ds r1 : List Nat) (s : St) (h : UAt src N (ds ++ r1) s)
    (hds : ∀ d ∈ ds, UnicodePropertyValueCharacter d) (hstop : ∀ d, r1.head? = some d → ¬UnicodePropertyValueCharacter d) :
    Wc (eatUnicodePropertyValue n s) (fun b s1 => (b = true ↔ ds ≠ []) ∧ UAt src N r1 s1 ∧
      s1 = (s.setPos src (s.reader.index + ds.length)).withStr ds) := by
  refine (Wc.of_wp (eatUnicodePropertyValue_wp n _ s h) (NE.eatUnicodePropertyValue n)).mono ?_
  rintro b s1 ⟨ds', r1', he, hds', hstop', hat, hs1, hb⟩
  obtain ⟨e1, e2⟩ := run_unique he hds hds' hstop hstop'
  subst e1 e2
  exact ⟨hb, hat, hs1⟩

theorem not_nameChar_eq : ¬UnicodePropertyNameCharacter (ch '=') := by
  rintro (h | h)
  · have h' : (0x61 ≤ ch '=' ∧ ch '=' ≤ 0x7a) ∨ (0x41 ≤ ch '=' ∧ ch '=' ≤ 0x5a) := h
    revert h'; decide
  · revert h; decide

theorem not_valueChar_eq : ¬UnicodePropertyValueCharacter (ch '=') := by
  rintro (h | h)
  · exact not_nameChar_eq h
  · have h' : 0x30 ≤ ch '=' ∧ ch '=' ≤ 0x39 := h
    revert h'; decide

theorem eatUnicodePropertyValueExpression_wc (n : Nat) (r r1 : List Nat) (s : St) (h : UAt src N r s)
    (hD : UnicodePropertyValueExpression r (ch '}' :: r1)) :
    Wc (eatUnicodePropertyValueExpression n s) (fun b s1 => b = true ∧ UAt src N (ch '}' :: r1) s1 ∧
      s1.lastIntValue = s.lastIntValue ∧ KeepN s s1) := by
  cases hD with
  | nameValue _ m name value hname hvalue hstop hvalid =>
    obtain ⟨e1, hn1, hn2⟩ := hname
    obtain ⟨e2, hv1, hv2⟩ := hvalue
    subst e1 e2
    have hnm := fun s h => (eatUnicodePropertyName_wc (src := src) (N := N) n name (ch '=' :: (value ++ ch '}' :: r1)) s h hn2
      (by intro d hd; cases hd; exact not_nameChar_eq)).mono (fun b s1 hp => (⟨hp.1.mpr hn1, hp.2⟩ : b = true ∧ _))
    have hvl := fun s h => (eatUnicodePropertyValue_wc (src := src) (N := N) n value (ch '}' :: r1) s h hv2
      hstop).mono (fun b s1 hp => (⟨hp.1.mpr hv1, hp.2⟩ : b = true ∧ _))
    unfold eatUnicodePropertyValueExpression
    rx5_autos
    rx5_fin
  | lone _ v hrun hstop hvalid =>
    obtain ⟨e, hv1, hv2⟩ := hrun
    subst e
    obtain ⟨nm, rest, e, hnm, hnstop⟩ := exists_run UnicodePropertyNameCharacter v
    subst e
    have hne : (rest ++ ch '}' :: r1).head? ≠ some (ch '=') := by
      cases rest with
      | nil => exact head_ne_of_ne (by decide) _
      | cons y rest' =>
        have hy := hv2 y (by simp)
        intro he
        have : y = ch '=' := by simpa using he
        exact not_valueChar_eq (this ▸ hy)
    have hnstop' : ∀ d, (rest ++ ch '}' :: r1).head? = some d → ¬UnicodePropertyNameCharacter d := by
      cases rest with
      | nil => intro d hd hc; exact hstop d hd (.inl hc)
      | cons y rest' => exact hnstop
    have h' : UAt src N (nm ++ (rest ++ ch '}' :: r1)) s := by rw [← List.append_assoc]; exact h
    clear h
    have hlone : ∀ s, UAt src N (nm ++ (rest ++ ch '}' :: r1)) s →
        Wc (eatLoneUnicodePropertyNameOrValue n s) (fun b s1 => b = true ∧ UAt src N (ch '}' :: r1) s1 ∧
          s1 = (s.setPos src (s.reader.index + (nm ++ rest).length)).withStr (nm ++ rest)) := fun s h =>
      (eatUnicodePropertyValue_wc (src := src) (N := N) n (nm ++ rest) (ch '}' :: r1) s
        (by rw [List.append_assoc]; exact h) hv2 hstop).mono (fun b s1 hp => ⟨hp.1.mpr hv1, hp.2⟩)
    by_cases hnm0 : nm = []
    · have hnmc := fun s h => (eatUnicodePropertyName_wc (src := src) (N := N) n nm (rest ++ ch '}' :: r1) s h hnm
        hnstop').mono (fun b s1 hp => (⟨by
          cases b
          · rfl
          · exact absurd hnm0 (hp.1.mp rfl), hp.2⟩ : b = false ∧ _))
      unfold eatUnicodePropertyValueExpression
      rx5_autos
      case neg =>
        rename_i hn1 hn2
        simp only [st_simp] at hn1 hn2
        rcases hvalid with hv | hv
        · exact hn1 hv
        · exact hn2 hv
      all_goals rx5_fin
    · have hnmc := fun s h => (eatUnicodePropertyName_wc (src := src) (N := N) n nm (rest ++ ch '}' :: r1) s h hnm
        hnstop').mono (fun b s1 hp => (⟨hp.1.mpr hnm0, hp.2⟩ : b = true ∧ _))
      unfold eatUnicodePropertyValueExpression
      rx5_autos
      case neg =>
        rename_i hn1 hn2
        simp only [st_simp] at hn1 hn2
        rcases hvalid with hv | hv
        · exact hn1 hv
        · exact hn2 hv
      all_goals rx5_fin

theorem consumeCharacterClassEscape_wc (n : Nat) (r r1 : List Nat) (s : St) (h : UAt src N r s)
    (hD : CharacterClassEscape r r1) :
    Wc (consumeCharacterClassEscape n s) (fun b s1 => b = true ∧ UAt src N r1 s1 ∧ s1.lastIntValue = -1 ∧ KeepN s s1) := by
  cases hD with
  | simple x _ hx =>
    simp only [List.mem_cons, List.not_mem_nil, or_false] at hx
    unfold consumeCharacterClassEscape
    rcases hx with rfl | rfl | rfl | rfl | rfl | rfl
    all_goals rx5_auto
    all_goals rx5_fin
  | property x m _ hx hD =>
    unfold consumeCharacterClassEscape
    rcases hx with rfl | rfl
    all_goals rx5_auto
    all_goals rx5_fin
    all_goals (have hint := ‹(_ : St).lastIntValue = _›; st_norm; rw [hint]; rfl)

/-- not the first character of a `CharacterClassEscape` -/
def CceFree (r : List Nat) : Prop :=
  r.head? ≠ some (ch 'd') ∧ r.head? ≠ some (ch 'D') ∧ r.head? ≠ some (ch 's') ∧ r.head? ≠ some (ch 'S') ∧
  r.head? ≠ some (ch 'w') ∧ r.head? ≠ some (ch 'W') ∧ r.head? ≠ some (ch 'p') ∧ r.head? ≠ some (ch 'P')

theorem consumeCharacterClassEscape_wcn (n : Nat) (r : List Nat) (s : St) (h : UAt src N r s) (hn : CceFree r) :
    Wc (consumeCharacterClassEscape n s) (fun b s1 => b = false ∧ s1 = s) := by
  obtain ⟨h1, h2, h3, h4, h5, h6, h7, h8⟩ := hn
  unfold consumeCharacterClassEscape
  rx5_auto
  exact ⟨rfl, rfl⟩

end DL.Rx
