import DL.Lemmas.RxCompRec1

/-! # Completeness: where the recursive functions answer `false` -/
namespace DL.Rx
open DL.RxSpec DL.Gen.Unicode

attribute [local irreducible] isScalar
variable {src : List Nat} {N : Nat}

/-- the text does not start like an `Assertion` -/
def NAS (i : List Nat) : Prop :=
  i.head? ≠ some (ch '^') ∧ i.head? ≠ some (ch '$') ∧ (¬∃ r', i = ch '\\' :: ch 'B' :: r') ∧
  (¬∃ r', i = ch '\\' :: ch 'b' :: r') ∧
  ((¬∃ r', i = ch '(' :: ch '?' :: r') ∨
   (∃ r', i = ch '(' :: ch '?' :: r' ∧ r'.head? ≠ some (ch '=') ∧ r'.head? ≠ some (ch '!') ∧ r'.head? ≠ some (ch '<')) ∨
   (∃ r', i = ch '(' :: ch '?' :: ch '<' :: r' ∧ r'.head? ≠ some (ch '=') ∧ r'.head? ≠ some (ch '!')))

theorem consumeAssertion_wcn (n : Nat) (i : List Nat) (s : St) (h : UAt src N i s) (hn : NAS i) :
    Wc (consumeAssertion n s) (fun b s1 => b = false ∧ UAt src N i s1 ∧ KeepN s s1) := by
  obtain ⟨h1, h2, h3, h4, h5⟩ := hn
  cases n with
  | zero => exact Wc.outOfFuel
  | succ n =>
    rcases h5 with h5 | ⟨r', rfl, h6, h7, h8⟩ | ⟨r', rfl, h6, h7⟩
    · unfold consumeAssertion
      rx5_autos
      all_goals first | exact ⟨rfl, by rx4_at, ⟨rfl, rfl⟩⟩ | (rx5_fin; done)
    · unfold consumeAssertion
      rx5_autos
      all_goals first | exact ⟨rfl, by rx4_at, ⟨rfl, rfl⟩⟩ | (rx5_fin; done)
    · unfold consumeAssertion
      rx5_autos
      all_goals first | exact ⟨rfl, by rx4_at, ⟨rfl, rfl⟩⟩ | (rx5_fin; done)

theorem consumeUncapturingGroup_wcn (n : Nat) (i : List Nat) (s : St) (h : UAt src N i s)
    (hn : ¬∃ r', i = ch '(' :: ch '?' :: ch ':' :: r') :
    Wc (consumeUncapturingGroup n s) (fun b s1 => b = false ∧ s1 = s) := by
  cases n with
  | zero => exact Wc.outOfFuel
  | succ n =>
    unfold consumeUncapturingGroup
    rx5_autos
    exact ⟨rfl, rfl⟩

theorem consumeCapturingGroup_wcn (n : Nat) (i : List Nat) (s : St) (h : UAt src N i s)
    (hn : i.head? ≠ some (ch '(')) :
    Wc (consumeCapturingGroup n s) (fun b s1 => b = false ∧ s1 = s) := by
  cases n with
  | zero => exact Wc.outOfFuel
  | succ n =>
    unfold consumeCapturingGroup
    rx5_autos
    exact ⟨rfl, rfl⟩

/-- the text does not start like an `Atom`: it is empty or starts with a syntax character other than `. \ [ (` -/
def NAT (i : List Nat) : Prop :=
  (∀ x, i.head? = some x → SyntaxCharacter x) ∧ i.head? ≠ some (ch '.') ∧ i.head? ≠ some (ch '\\') ∧
  i.head? ≠ some (ch '[') ∧ i.head? ≠ some (ch '(')

theorem consumeAtom_wcn (n : Nat) (i : List Nat) (s : St) (h : UAt src N i s) (hn : NAT i) :
    Wc (consumeAtom n s) (fun b s1 => b = false ∧ s1 = s) := by
  obtain ⟨h1, h2, h3, h4, h5⟩ := hn
  have h6 : ¬∃ r', i = ch '(' :: ch '?' :: ch ':' :: r' := no_eat3_head h5
  cases n with
  | zero => exact Wc.outOfFuel
  | succ n =>
    unfold consumeAtom
    rx5_autos
    exact ⟨by assumption, rfl⟩

theorem consumeTerm_wcn (n : Nat) (i : List Nat) (s : St) (h : UAt src N i s) (ha : NAS i) (hn : NAT i) :
    Wc (consumeTerm n s) (fun b s1 => b = false ∧ UAt src N i s1 ∧ KeepN s s1) := by
  cases n with
  | zero => exact Wc.outOfFuel
  | succ n =>
    unfold consumeTerm
    rx5_autos
    exact ⟨rfl, ‹UAt src N i _›, ‹KeepN s _›⟩

theorem NAS.of_ne {x : Nat} {m : List Nat} (h : x ≠ ch '^' ∧ x ≠ ch '$' ∧ x ≠ ch '\\' ∧ x ≠ ch '(') : NAS (x :: m) :=
  ⟨head_ne_of_ne h.1 _, head_ne_of_ne h.2.1 _, no_eat2_ne1 h.2.2.1, no_eat2_ne1 h.2.2.1, .inl (no_eat2_ne1 h.2.2.2)⟩

theorem NAS.nil : NAS [] := ⟨nil_head_ne _, nil_head_ne _, no_eat2_nil, no_eat2_nil, .inl no_eat2_nil⟩

/-- an `AtomEscape` does not start with `b` or `B` -/
theorem atomEscape_head {m r : List Nat} {a : Attr} (h : AtomEscape N m r a) :
    m.head? ≠ some (ch 'B') ∧ m.head? ≠ some (ch 'b') := by
  have key : ∀ (x : Nat) (t : List Nat), (x ≠ ch 'B' ∧ x ≠ ch 'b') →
      (x :: t).head? ≠ some (ch 'B') ∧ (x :: t).head? ≠ some (ch 'b') :=
    fun x t hx => ⟨head_ne_of_ne hx.1 _, head_ne_of_ne hx.2 _⟩
  cases h with
  | decimal _ _ v hd _ =>
    obtain ⟨ds, rfl, ⟨d, ds', rfl, hnz⟩, _⟩ := hd
    have h' : 0x31 ≤ d ∧ d ≤ 0x39 := hnz
    refine key _ _ ⟨?_, ?_⟩ <;> (intro e; rw [e] at h'; revert h'; decide)
  | characterClass _ _ hc =>
    cases hc with
    | simple x _ hx =>
      simp only [List.mem_cons, List.not_mem_nil, or_false] at hx
      rcases hx with rfl | rfl | rfl | rfl | rfl | rfl <;> exact key _ _ (by decide)
    | property x t _ hx _ => rcases hx with rfl | rfl <;> exact key _ _ (by decide)
  | character _ _ v hc =>
    cases hc with
    | unicode _ _ _ hu => obtain ⟨t, rfl⟩ := rues_head hu; exact key _ _ (by decide)
    | identity _ _ hx =>
      refine key _ _ ?_
      rcases hx with hx | hx
      · unfold SyntaxCharacter at hx
        simp only [List.mem_cons, List.not_mem_nil, or_false] at hx
        rcases hx with h | h | h | h | h | h | h | h | h | h | h | h | h | h <;> subst h <;> decide
      · subst hx; decide
    | _ => exact key _ _ (by decide)
  | named t _ nm _ => exact key _ _ (by decide)

theorem atom_nas {i r : List Nat} {a : Attr} (h : Derives qokSat N .Atom i r a) : NAS i := by
  cases h with
  | patternCharacter x _ hx =>
    refine NAS.of_ne ⟨?_, ?_, ?_, ?_⟩ <;> (intro e; subst e; exact hx.2 (by unfold SyntaxCharacter; decide))
  | dot _ => exact NAS.of_ne (by decide)
  | atomEscape m _ _ hae =>
    obtain ⟨hB, hb⟩ := atomEscape_head hae
    refine ⟨head_ne_of_ne (by decide) _, head_ne_of_ne (by decide) _, ?_, ?_, .inl (no_eat2_ne1 (by decide))⟩
    · rintro ⟨r', e⟩
      exact hB (by rw [(List.cons.inj e).2]; rfl)
    · rintro ⟨r', e⟩
      exact hb (by rw [(List.cons.inj e).2]; rfl)
  | characterClass _ _ hc => cases hc <;> exact NAS.of_ne (by decide)
  | group m₁ m₂ _ name a' hg hd =>
    refine ⟨head_ne_of_ne (by decide) _, head_ne_of_ne (by decide) _, no_eat2_ne1 (by decide), no_eat2_ne1 (by decide), ?_⟩
    cases hg with
    | empty _ =>
      refine .inl ?_
      rintro ⟨r', e⟩
      have hq : m₁.head? ≠ some (c '?') := derives_head hd (.inl (head_cons_ne (by decide) _))
      exact hq (by rw [(List.cons.inj e).2]; rfl)
    | named m _ nm hgn =>
      obtain ⟨m', rfl, hname⟩ := hgn
      obtain ⟨e1, e2⟩ := idName_head hname
      exact .inr (.inr ⟨m', rfl, e1, e2⟩)
  | nonCapturing _ m _ _ hl _ =>
    have e : i = ch '(' :: ch '?' :: ch ':' :: m := hl
    subst e
    refine ⟨head_ne_of_ne (by decide) _, head_ne_of_ne (by decide) _, no_eat2_ne1 (by decide), no_eat2_ne1 (by decide), ?_⟩
    exact .inr (.inl ⟨_, rfl, head_ne_of_ne (by decide) _, head_ne_of_ne (by decide) _, head_ne_of_ne (by decide) _⟩)

/-- what may follow an `Alternative` starts neither an assertion nor an atom -/
theorem AltFollow.nas {r : List Nat} (h : AltFollow r) : NAS r := by
  rcases h with rfl | h | h
  · exact NAS.nil
  · cases r with
    | nil => cases h
    | cons x m => cases h; exact NAS.of_ne (by decide)
  · cases r with
    | nil => cases h
    | cons x m => cases h; exact NAS.of_ne (by decide)

theorem AltFollow.nat {r : List Nat} (h : AltFollow r) : NAT r := by
  have key : ∀ (x : Nat) (m : List Nat), (SyntaxCharacter x ∧ x ≠ ch '.' ∧ x ≠ ch '\\' ∧ x ≠ ch '[' ∧ x ≠ ch '(') →
      NAT (x :: m) := fun x m hx =>
    ⟨fun y hy => (by cases hy; exact hx.1), head_ne_of_ne hx.2.1 _, head_ne_of_ne hx.2.2.1 _, head_ne_of_ne hx.2.2.2.1 _,
      head_ne_of_ne hx.2.2.2.2 _⟩
  rcases h with rfl | h | h
  · exact ⟨fun x hx => (by cases hx), nil_head_ne _, nil_head_ne _, nil_head_ne _, nil_head_ne _⟩
  · cases r with
    | nil => cases h
    | cons x m => cases h; exact key _ _ (by unfold SyntaxCharacter; decide)
  · cases r with
    | nil => cases h
    | cons x m => cases h; exact key _ _ (by unfold SyntaxCharacter; decide)

end DL.Rx
