import DL.Lemmas.RxCompName2

/-! # Completeness: `\k<…>`, group specifiers, `AtomEscape` (u-mode) -/
namespace DL.Rx
open DL.RxSpec DL.Gen.Unicode

attribute [local irreducible] isScalar
variable {src : List Nat} {N : Nat}

/-- the exact effect of a phrase with attributes `a` on the name registers -/
structure TrackC (s s1 : St) (a : Attr) : Prop where
  gn : s1.groupNames = s.groupNames ++ groupNames a.groups
  bn : ∀ x, x ∈ s1.backreferenceNames ↔ x ∈ s.backreferenceNames ∨ x ∈ a.refs

theorem TrackC.ofKeepN {s s1 : St} (h : KeepN s s1) : TrackC s s1 Attr.nil :=
  ⟨by rw [h.gn]; exact (List.append_nil _).symm, fun x => by
    rw [h.bn]; exact ⟨.inl, fun h => h.elim id (fun h => nomatch h)⟩⟩

theorem TrackC.ofKeep {s s1 : St} (h : Keep s s1) : TrackC s s1 Attr.nil := TrackC.ofKeepN h.toN

theorem TrackC.ofEq {s s1 : St} (h : s1 = s) : TrackC s s1 Attr.nil := by
  subst h; exact TrackC.ofKeepN (KeepN.refl _)

theorem TrackC.pre {s s1 s2 : St} {a : Attr} (hk : KeepN s s1) (h : TrackC s1 s2 a) : TrackC s s2 a :=
  ⟨by rw [h.gn, hk.gn], fun x => by rw [h.bn, hk.bn]⟩

theorem TrackC.post {s s1 s2 : St} {a : Attr} (h : TrackC s s1 a) (hk : KeepN s1 s2) : TrackC s s2 a :=
  ⟨by rw [hk.gn, h.gn], fun x => by rw [hk.bn, h.bn]⟩

theorem TrackC.trans {s s1 s2 : St} {a1 a2 : Attr} (h1 : TrackC s s1 a1) (h2 : TrackC s1 s2 a2) :
    TrackC s s2 (a1 ++ a2) := by
  refine ⟨?_, fun x => ?_⟩
  · show s2.groupNames = s.groupNames ++ groupNames (a1.groups ++ a2.groups)
    rw [h2.gn, h1.gn, groupNames_append, List.append_assoc]
  · rw [h2.bn, h1.bn]
    show _ ↔ _ ∨ x ∈ a1.refs ++ a2.refs
    rw [List.mem_append, or_assoc]

theorem consumeKGroupName_wc (n : Nat) (m r1 : List Nat) (nm : List Nat) (s : St) (h : UAt src N (ch 'k' :: m) s)
    (hD : GroupName m r1 nm) :
    Wc (consumeKGroupName n s) (fun b s1 => b = true ∧ UAt src N r1 s1 ∧ TrackC s s1 ⟨[], [nm]⟩) := by
  unfold consumeKGroupName
  rx5_auto
  rename_i s1 _ hat hstr hk
  refine ⟨rfl, by rx4_at, ?_, fun x => ?_⟩
  · show s1.groupNames = s.groupNames ++ []
    rw [hk.gn, List.append_nil]; rfl
  · show x ∈ (if s1.backreferenceNames.contains s1.lastStrValue then s1.backreferenceNames
        else s1.backreferenceNames ++ [s1.lastStrValue]) ↔ x ∈ s.backreferenceNames ∨ x ∈ [nm]
    have e : s1.backreferenceNames = s.backreferenceNames := hk.bn
    rw [hstr, e]
    split
    · rename_i hc
      have := List.contains_iff_mem.mp hc
      constructor
      · exact .inl
      · rintro (hx | hx)
        · exact hx
        · have : x = nm := by simpa using hx
          subst this; assumption
    · rw [List.mem_append]

theorem consumeKGroupName_wcn (n : Nat) (r : List Nat) (s : St) (h : UAt src N r s) (hn : r.head? ≠ some (ch 'k')) :
    Wc (consumeKGroupName n s) (fun b s1 => b = false ∧ s1 = s) := by
  unfold consumeKGroupName
  rx5_auto
  exact ⟨rfl, rfl⟩

theorem consumeGroupSpecifier_wc (n : Nat) (m r1 : List Nat) (nm : List Nat) (s : St) (h : UAt src N (ch '?' :: m) s)
    (hD : GroupName m r1 nm) (hnew : ¬nm ∈ s.groupNames) :
    Wc (consumeGroupSpecifier n s) (fun b s1 => b = true ∧ UAt src N r1 s1 ∧ TrackC s s1 ⟨[some nm], []⟩) := by
  unfold consumeGroupSpecifier
  rx5_auto
  case neg =>
    rename_i s1 _ hat hstr hk hn
    apply hn
    have e : s1.groupNames = s.groupNames := hk.gn
    rw [hstr, e]
    have : s.groupNames.contains nm = false := by
      cases hc : s.groupNames.contains nm
      · rfl
      · exact absurd (List.contains_iff_mem.mp hc) hnew
    rw [this]; rfl
  rename_i s1 _ hat hstr hk hc
  refine ⟨rfl, by rx4_at, ?_, fun x => ?_⟩
  · show s1.groupNames ++ [s1.lastStrValue] = s.groupNames ++ [nm]
    rw [hk.gn, hstr]; rfl
  · show x ∈ s1.backreferenceNames ↔ x ∈ s.backreferenceNames ∨ x ∈ []
    have e : s1.backreferenceNames = s.backreferenceNames := hk.bn
    rw [e]
    exact ⟨.inl, fun h => h.elim id (fun h => nomatch h)⟩

theorem consumeGroupSpecifier_wcn (n : Nat) (r : List Nat) (s : St) (h : UAt src N r s) (hn : r.head? ≠ some (ch '?')) :
    Wc (consumeGroupSpecifier n s) (fun b s1 => b = false ∧ s1 = s) := by
  unfold consumeGroupSpecifier
  rx5_auto
  exact ⟨rfl, rfl⟩

theorem not_nonZero_of {x : Nat} (h : x < 0x31 ∨ 0x39 < x) : ¬NonZeroDigit x := by
  intro hd
  have h' : 0x31 ≤ x ∧ x ≤ 0x39 := hd
  omega

theorem head_not_nonZero {x : Nat} {m : List Nat} (h : x < 0x31 ∨ 0x39 < x) :
    ∀ d, (x :: m).head? = some d → ¬NonZeroDigit d := by
  intro d hd; cases hd; exact not_nonZero_of h

theorem cceFree_of {x : Nat} {m : List Nat} (h : x ≠ ch 'd' ∧ x ≠ ch 'D' ∧ x ≠ ch 's' ∧ x ≠ ch 'S' ∧ x ≠ ch 'w' ∧
    x ≠ ch 'W' ∧ x ≠ ch 'p' ∧ x ≠ ch 'P') : CceFree (x :: m) := by
  obtain ⟨h1, h2, h3, h4, h5, h6, h7, h8⟩ := h
  exact ⟨head_ne_of_ne h1 _, head_ne_of_ne h2 _, head_ne_of_ne h3 _, head_ne_of_ne h4 _, head_ne_of_ne h5 _,
    head_ne_of_ne h6 _, head_ne_of_ne h7 _, head_ne_of_ne h8 _⟩

/-- a `CharacterClassEscape` does not start with a digit -/
theorem cce_head {i r : List Nat} (h : CharacterClassEscape i r) : ∀ d, i.head? = some d → ¬NonZeroDigit d := by
  cases h with
  | simple x _ hx =>
    simp only [List.mem_cons, List.not_mem_nil, or_false] at hx
    rcases hx with rfl | rfl | rfl | rfl | rfl | rfl <;> exact head_not_nonZero (by decide)
  | property x m _ hx _ =>
    rcases hx with rfl | rfl <;> exact head_not_nonZero (by decide)

/-- a `CharacterEscape` starts neither with a digit 1–9 nor with a `CharacterClassEscape` letter -/
theorem ce_head {i r : List Nat} {v : Nat} (h : CharacterEscape i r v) :
    (∀ d, i.head? = some d → ¬NonZeroDigit d) ∧ CceFree i := by
  have key : ∀ (x : Nat) (m : List Nat), (x < 0x31 ∨ 0x39 < x) ∧ (x ≠ ch 'd' ∧ x ≠ ch 'D' ∧ x ≠ ch 's' ∧ x ≠ ch 'S' ∧
      x ≠ ch 'w' ∧ x ≠ ch 'W' ∧ x ≠ ch 'p' ∧ x ≠ ch 'P') →
      (∀ d, (x :: m).head? = some d → ¬NonZeroDigit d) ∧ CceFree (x :: m) :=
    fun x m hx => ⟨head_not_nonZero hx.1, cceFree_of hx.2⟩
  cases h with
  | unicode _ _ _ hu => obtain ⟨m, rfl⟩ := rues_head hu; exact key _ _ (by decide)
  | identity _ _ hx =>
    refine key _ _ ?_
    rcases hx with hx | hx
    · unfold SyntaxCharacter at hx
      simp only [List.mem_cons, List.not_mem_nil, or_false] at hx
      rcases hx with h | h | h | h | h | h | h | h | h | h | h | h | h | h <;> subst h <;> decide
    · subst hx; decide
  | _ => exact key _ _ (by decide)

theorem not_identity_k : ¬(SyntaxCharacter (ch 'k') ∨ ch 'k' = c '/') := by
  unfold SyntaxCharacter; decide

/-- `\k` is no `CharacterEscape` -/
theorem consumeCharacterEscape_wcn (n : Nat) (m : List Nat) (s : St) (h : UAt src N (ch 'k' :: m) s) :
    Wc (consumeCharacterEscape n s) (fun b s1 => b = false ∧ s1 = s) := by
  unfold consumeCharacterEscape eatIdentityEscape isValidIdentityEscape
  rx5_autos
  exact ⟨rfl, rfl⟩

theorem consumeAtomEscape_wc (n : Nat) (r r1 : List Nat) (a : Attr) (s : St) (h : UAt src N r s)
    (hD : AtomEscape N r r1 a) :
    Wc (consumeAtomEscape n s) (fun b s1 => b = true ∧ UAt src N r1 s1 ∧ TrackC s s1 a) := by
  cases hD with
  | decimal _ _ v hd hv =>
    unfold consumeAtomEscape
    rx5_autos
    exact ⟨rfl, by rx4_at, TrackC.ofKeepN (by rx4_keep)⟩
  | characterClass _ _ hc =>
    have hnz := cce_head hc
    unfold consumeAtomEscape
    rx5_autos
    exact ⟨rfl, by rx4_at, TrackC.ofKeepN (by rx4_keep)⟩
  | character _ _ v hc =>
    obtain ⟨hnz, hfree⟩ := ce_head hc
    unfold consumeAtomEscape
    rx5_autos
    exact ⟨rfl, by rx4_at, TrackC.ofKeepN (by rx4_keep)⟩
  | named m _ nm hg =>
    have hnz : ∀ d, (ch 'k' :: m).head? = some d → ¬NonZeroDigit d := head_not_nonZero (by decide)
    have hfree : CceFree (ch 'k' :: m) := cceFree_of (by decide)
    unfold consumeAtomEscape
    rx5_autos
    exact ⟨rfl, ‹UAt src N r1 _›, TrackC.pre (s1 := s.withInt 0) ⟨rfl, rfl⟩ ‹TrackC _ _ _›⟩

end DL.Rx
