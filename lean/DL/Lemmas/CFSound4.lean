import DL.Lemmas.CFSound3b

/-! Soundness invariant: loops. -/
namespace DL.CF

/-- what the tail of a loop closure (run in the child scope after the body) must guarantee -/
structure TailOK (live loopN : Bool) (bp : Nat) (extra : List Nat) (b' c : A) : Prop where
  info_other : ∀ q, q ≠ bp → q ∉ extra → c.info q = b'.info q
  ur : ∀ q, c.info.ur q = b'.info.ur q
  fbk : c.sc.foundBreak = b'.sc.foundBreak
  fc : c.sc.foundContinue = b'.sc.foundContinue
  mt : c.sc.mayThrow = b'.sc.mayThrow
  endSome : ∃ e, c.sc.end_ = some e
  forcedSound : isForcedEnd c.sc.end_ = true → (live && loopN) = false
  atExtra : ∀ q ∈ extra, q ≠ bp → stopsEnd (c.info.endAt q) = true → b'.info.endAt q = none → (live && loopN) = false

structure LoopCore (live loopN : Bool) (p bp : Nat) (body : Stmt) (extra : List Nat) (a1 r c : A) : Prop where
  fbk : r.sc.foundBreak = a1.sc.foundBreak
  fc : a1.sc.foundContinue = true → r.sc.foundContinue = true
  fcBody : (live && (body.compl []).hasCl) = true → r.sc.foundContinue = true
  mt : a1.sc.mayThrow = true → r.sc.mayThrow = true
  tBody : (live && (body.compl []).t) = true → r.sc.mayThrow = true
  stop : stopsEnd r.sc.end_ = true → (live && loopN) = false
  endEq : r.sc.end_ = a1.sc.end_ ∨ isForcedEnd r.sc.end_ = true
  p3 : ∀ q ∈ body.upos, r.info.ur q = true → (live && body.reach q) = false
  p3i : ∀ q ∈ body.upos, r.info.ur q = true → body.inner q = false
  urp : r.info.ur p = a1.info.ur p
  frame : ∀ q, q ∉ p :: body.positions → q ∉ extra → r.info q = a1.info q
  atP : p ∉ extra → r.info.endAt p = a1.info.endAt p
  pExtra : p ∈ extra → stopsEnd (r.info.endAt p) = true → a1.info.endAt p = none → (live && loopN) = false
  bpForced : isForcedEnd (r.info.endAt bp) = true → (live && loopN) = false

theorem loopCore (live loopN : Bool) (p bp : Nat) (body : Stmt) (extra : List Nat) (tail : A → A) (a1 : A)
    (hbp : body.pos = bp)
    (hs : stopsEnd a1.sc.end_ = true → live = false)
    (hfresh : ∀ q ∈ body.positions, a1.info.endAt q = none)
    (hpb : p ∉ body.positions) (hndb : body.positions.Nodup)
    (ih : ∀ a0, Pre live body.positions a0 → PostS live [] body a0 (visitStmt body a0))
    (htail : ∀ b', PostS live [] body (childA .loop a1) b' → TailOK live loopN bp extra b' (tail b')) :
    LoopCore live loopN p bp body extra a1 (withChild .loop bp (fun x => tail (visitStmt body x)) a1)
      (tail (visitStmt body (childA .loop a1))) := by
  have hnd' : p ∉ body.positions ∧ body.positions.Nodup := ⟨hpb, hndb⟩
  have hpre : Pre live body.positions (childA .loop a1) := childA_pre live .loop _ a1 hs hfresh hnd'.2
  have hb := ih _ hpre
  have ht := htail _ hb
  rw [withChild_loop]
  generalize visitStmt body (childA .loop a1) = b' at hb ht
  generalize tail b' = c at ht
  have hbpm : bp ∈ body.positions := hbp ▸ body.pos_mem
  have hpbp : p ≠ bp := fun e => hnd'.1 (e ▸ hbpm)
  -- the merged parent before looking at the child's end
  generalize ha1' : ({ sc := mergeSc .loop a1.sc c.sc, info := c.info } : A) = a1'
  have hi1' : a1'.info = c.info := by rw [← ha1']
  have he1' : a1'.sc.end_ = a1.sc.end_ := by rw [← ha1']; rfl
  have hfb1' : a1'.sc.foundBreak = a1.sc.foundBreak := by rw [← ha1']; rfl
  have hfc1' : a1'.sc.foundContinue = (a1.sc.foundContinue || c.sc.foundContinue) := by rw [← ha1']; rfl
  have hmt1' : a1'.sc.mayThrow = (a1.sc.mayThrow || c.sc.mayThrow) := by rw [← ha1']; rfl
  -- the two shapes of the exit
  have hexit : ∃ e, c.sc.end_ = some e ∧
      childExit .loop bp a1.sc.end_ a1' c.sc.end_ =
        (markAsEnd bp e a1').setEnd (if e.isForced then some e else a1.sc.end_) := by
    obtain ⟨e, he⟩ := ht.endSome
    refine ⟨e, he, ?_⟩
    rw [he]
    rcases e with ⟨r, t, i⟩ | _ | _ <;> rfl
  obtain ⟨e, hce, hex⟩ := hexit
  rw [hex]
  have hbp' : b'.info.endAt p = a1.info.endAt p := endAt_eq_of_info_eq (hb.frame p hnd'.1)
  refine ⟨?_, ?_, ?_, ?_, ?_, ?_, ?_, ?_, ?_, ?_, ?_, ?_, ?_, ?_⟩
  · simp [hfb1']
  · intro h; simp [hfc1', h]
  · intro h; simp [hfc1', ht.fc, hb.p2l h]
  · intro h; simp [hmt1', h]
  · intro h; simp [hmt1', ht.mt, hb.pT h]
  · intro hst
    simp only [setEnd_end] at hst
    by_cases hf : e.isForced = true
    · exact ht.forcedSound (by rw [hce]; cases e <;> simp_all [End.isForced])
    · simp only [hf, Bool.false_eq_true, if_false] at hst
      simp [hs hst]
  · simp only [setEnd_end]
    by_cases hf : e.isForced = true
    · right; simp only [hf, if_true]; cases e <;> simp_all [End.isForced]
    · left; simp [hf]
  · intro q hq hu
    simp only [setEnd_info, markAsEnd_ur] at hu
    rw [hi1', ht.ur] at hu
    exact hb.p3 q hq hu
  · intro q hq hu
    simp only [setEnd_info, markAsEnd_ur] at hu
    rw [hi1', ht.ur] at hu
    exact hb.p3i q hq hu
  · simp only [setEnd_info, markAsEnd_ur]
    rw [hi1', ht.ur, ur_eq_of_info_eq (hb.frame p hnd'.1)]
    rfl
  · intro q hq hqe
    have hq' : q ≠ p ∧ q ∉ body.positions := by simpa [List.mem_cons, not_or] using hq
    have hqbp : q ≠ bp := fun e => hq'.2 (e ▸ hbpm)
    simp only [setEnd_info]
    rw [markAsEnd_info_other _ _ _ _ hqbp, hi1', ht.info_other q hqbp hqe, hb.frame q hq'.2]
    rfl
  · intro hpe
    simp only [setEnd_info]
    rw [markAsEnd_endAt_other _ _ _ _ hpbp, hi1', endAt_eq_of_info_eq (ht.info_other p hpbp hpe)]
    exact hbp'
  · intro hpe hst hnone
    simp only [setEnd_info] at hst
    rw [markAsEnd_endAt_other _ _ _ _ hpbp, hi1'] at hst
    exact ht.atExtra p hpe hpbp hst (by rw [hbp']; exact hnone)
  · intro hfo
    simp only [setEnd_info] at hfo
    rcases markAsEnd_self_forced _ _ _ hfo with h | h
    · rw [he1'] at h; simp [hs (stops_of_forced h)]
    · exact ht.forcedSound (by rw [hce]; cases e <;> simp_all [End.isForced])

end DL.CF

namespace DL.CF

theorem not_break_dead {live : Bool} {body : Stmt} {x b' : A} (hb : PostS live [] body x b')
    (h : (b'.sc.foundBreak == some none) = false) : (live && (body.compl []).b) = false := by
  cases hh : (live && (body.compl []).b) with
  | false => rfl
  | true => rw [hb.p2 hh] at h; simp at h

theorem not_continue_dead {live : Bool} {body : Stmt} {x b' : A} (hb : PostS live [] body x b')
    (h : b'.sc.foundContinue = false) : (live && (body.compl []).c) = false := by
  cases hh : (live && (body.compl []).c) with
  | false => rfl
  | true => rw [hb.p2c hh] at h; cases h

theorem not_cl_dead {live : Bool} {body : Stmt} {x b' : A} (hb : PostS live [] body x b')
    (h : b'.sc.foundContinue = false) : (live && (body.compl []).hasCl) = false := by
  cases hh : (live && (body.compl []).hasCl) with
  | false => rfl
  | true => rw [hb.p2l hh] at h; cases h

theorem whileTail_ok (live tt : Bool) (body : Stmt) (x b' : A) (hb : PostS live [] body x b') :
    TailOK live (!tt || (body.compl []).b) body.pos [] b' (whileTail tt body.isDeclOrExpr body.pos b') := by
  unfold whileTail
  simp only
  generalize stmtEnd body.isDeclOrExpr b'.info body.pos = er
  by_cases h1 : (tt && isForcedEnd er && !(b'.sc.foundBreak == some none)) = true
  · simp only [h1, if_true]
    simp only [Bool.and_eq_true, Bool.not_eq_true'] at h1
    rcases her : er with _ | e
    · rw [her] at h1; simp at h1
    · simp only
      refine ⟨fun q hq _ => markAsEnd_info_other _ _ _ _ hq, fun q => by simp, by simp, by simp, by simp, ⟨e, rfl⟩, ?_, by simp⟩
      intro _
      have := not_break_dead hb h1.2
      rw [h1.1.1]; simpa using this
  · simp only [h1, Bool.false_eq_true, if_false]
    by_cases h2 : (tt && !(b'.sc.foundBreak == some none)) = true
    · simp only [h2, if_true]
      simp only [Bool.and_eq_true, Bool.not_eq_true'] at h2
      refine ⟨fun q hq _ => markAsEnd_info_other _ _ _ _ hq, fun q => by simp, by simp, by simp, by simp, ⟨_, rfl⟩, ?_, by simp⟩
      intro _
      have := not_break_dead hb h2.2
      rw [h2.1]; simpa using this
    · simp only [h2, Bool.false_eq_true, if_false]
      exact ⟨fun q hq _ => markAsEnd_info_other _ _ _ _ hq, fun q => by simp, by simp, by simp, by simp, ⟨_, rfl⟩, by simp, by simp⟩

end DL.CF
