import DL.Lemmas.RxSpecUni

/-! # Soundness w.r.t. the grammar: `CharacterEscape` -/
namespace DL.Rx
open DL.RxSpec

theorem isScalar_ascii'' : ∀ x, x < 0x80 → isScalar x = true := isScalar_ascii

attribute [local irreducible] isScalar
variable {src : List Nat} {N : Nat}

theorem controlLetter_of_isAsciiAlphabetic {x : Nat} (h : isAsciiAlphabetic x = true) : ControlLetter x := by
  unfold isAsciiAlphabetic at h
  by_cases hs : isScalar x = true
  · rw [if_pos hs] at h
    have h' : (0x41 ≤ x ∧ x ≤ 0x5a) ∨ (0x61 ≤ x ∧ x ≤ 0x7a) := of_decide_eq_true h
    show (0x61 ≤ x ∧ x ≤ 0x7a) ∨ (0x41 ≤ x ∧ x ≤ 0x5a)
    omega
  · rw [if_neg hs] at h; cases h

theorem isAsciiAlphabetic_of_controlLetter {x : Nat} (h : ControlLetter x) : isAsciiAlphabetic x = true := by
  have h' : (0x61 ≤ x ∧ x ≤ 0x7a) ∨ (0x41 ≤ x ∧ x ≤ 0x5a) := h
  unfold isAsciiAlphabetic
  rw [if_pos (isScalar_ascii'' x (by omega))]
  exact decide_eq_true (by omega)

theorem syntaxCharacter_iff (x : Nat) : isSyntaxCharacter x = true ↔ SyntaxCharacter x := by
  unfold isSyntaxCharacter SyntaxCharacter
  simp only [Bool.or_eq_true, beq_iff_eq, List.mem_cons, List.not_mem_nil, or_false, or_assoc]

theorem eatControlEscape_wp (r : List Nat) (s : St) (h : UAt src N r s) :
    Wp (eatControlEscape s) (fun b s1 => Keep s s1 ∧
      if b = true then ∃ r1 v, UAt src N r1 s1 ∧ CharacterEscape r r1 v ∧ s1.lastIntValue = (v : Nat)
      else UAt src N r s1) := by
  unfold eatControlEscape
  rx4_auto
  all_goals (try rx4_false)
  all_goals rx4_true
  · exact ⟨_, 12, by rx4_at, CharacterEscape.f _, rfl⟩
  · exact ⟨_, 10, by rx4_at, CharacterEscape.n _, rfl⟩
  · exact ⟨_, 13, by rx4_at, CharacterEscape.r _, rfl⟩
  · exact ⟨_, 9, by rx4_at, CharacterEscape.t _, rfl⟩
  · exact ⟨_, 11, by rx4_at, CharacterEscape.v _, rfl⟩

theorem eatControlLetter_wp (r : List Nat) (s : St) (h : UAt src N r s) :
    Wp (eatControlLetter s) (fun b s1 => Keep s s1 ∧
      if b = true then ∃ l r1, r = l :: r1 ∧ ControlLetter l ∧ UAt src N r1 s1 ∧ s1.lastIntValue = ((l % 32 : Nat) : Int)
      else UAt src N r s1) := by
  unfold eatControlLetter
  rx4_auto
  all_goals (try rx4_false)
  rename_i l r1 hc hat
  rx4_true
  exact ⟨l, r1, rfl, controlLetter_of_isAsciiAlphabetic hc, by rx4_at, by st_norm; omega⟩

theorem eatCControlLetter_wp (r : List Nat) (s : St) (h : UAt src N r s) :
    Wp (eatCControlLetter s) (fun b s1 => Keep s s1 ∧
      if b = true then ∃ r1 v, UAt src N r1 s1 ∧ CharacterEscape r r1 v ∧ s1.lastIntValue = (v : Nat)
      else UAt src N r s1) := by
  unfold eatCControlLetter
  rx4_auto
  all_goals (try rx4_false)
  rename_i m hat0 s1 hk l r1 hm hl hat1 hv
  rx4_true
  exact ⟨r1, l % 32, hat1, by rw [hm]; exact CharacterEscape.controlLetter l r1 hl, hv⟩

theorem eatZero_wp (r : List Nat) (s : St) (h : UAt src N r s) :
    Wp (eatZero s) (fun b s1 => Keep s s1 ∧
      if b = true then ∃ r1 v, UAt src N r1 s1 ∧ CharacterEscape r r1 v ∧ s1.lastIntValue = (v : Nat)
      else UAt src N r s1) := by
  unfold eatZero
  rx4_auto
  all_goals (try rx4_false)
  rename_i x r' hx hn hat
  have hx0 : x = ch '0' := by simpa using hx
  subst hx0
  rx4_true
  refine ⟨r', 0, by rx4_at, CharacterEscape.zero _ ?_, rfl⟩
  intro d hd hdd
  apply hn
  cases r' with
  | nil => cases hd
  | cons y r'' =>
    cases hd
    exact isAsciiDigit_of_decimalDigit hdd

theorem eatHexEscapeSequence_wp (r : List Nat) (s : St) (h : UAt src N r s) :
    Wp (eatHexEscapeSequence s) (fun b s1 => Keep s s1 ∧
      if b = true then ∃ r1 v, UAt src N r1 s1 ∧ CharacterEscape r r1 v ∧ s1.lastIntValue = (v : Nat)
      else UAt src N r s1) := by
  unfold eatHexEscapeSequence
  rx4_auto
  all_goals (try rx4_false)
  rename_i m hat0 s1 hk ds r1 hm hlen hds hat1 hv
  rx4_true
  rcases ds with _ | ⟨a, _ | ⟨b, _ | ⟨e, t⟩⟩⟩ <;> simp at hlen
  refine ⟨r1, mvHex [a, b], hat1, ?_, hv⟩
  rw [hm]
  exact CharacterEscape.hex a b r1 (hds a (by simp)) (hds b (by simp))

theorem isIdContinue_pure (cp : Nat) (s : St) : ∃ b, isIdContinue cp s = .ok b s ∨ isIdContinue cp s = .outOfFuel s := by
  rcases isIdContinue_tests cp s with ⟨b, hb, _⟩ | hb
  · exact ⟨b, .inl hb⟩
  · exact ⟨false, .inr hb⟩

theorem eatIdentityEscape_wp (r : List Nat) (s : St) (h : UAt src N r s) :
    Wp (eatIdentityEscape s) (fun b s1 => Keep s s1 ∧
      if b = true then ∃ r1 v, UAt src N r1 s1 ∧ CharacterEscape r r1 v ∧ s1.lastIntValue = (v : Nat)
      else UAt src N r s1) := by
  unfold eatIdentityEscape isValidIdentityEscape
  rx4_auto
  all_goals (try rx4_false)
  rename_i x r1 hc hat
  rx4_true
  refine ⟨r1, x, by rx4_at, CharacterEscape.identity x r1 ?_, rfl⟩
  rcases Bool.or_eq_true _ _ |>.mp hc with h1 | h1
  · exact .inl ((syntaxCharacter_iff x).mp h1)
  · exact .inr (by simpa using h1)

theorem consumeCharacterEscape_wp (n : Nat) (r : List Nat) (s : St) (h : UAt src N r s) :
    Wp (consumeCharacterEscape n s) (fun b s1 => Keep s s1 ∧
      if b = true then ∃ r1 v, UAt src N r1 s1 ∧ CharacterEscape r r1 v ∧ s1.lastIntValue = (v : Nat)
      else UAt src N r s1) := by
  unfold consumeCharacterEscape
  rx4_auto
  all_goals (try rx4_false)
  all_goals (try (rx4_true; exact ⟨_, _, ‹UAt src N _ _›, ‹CharacterEscape r _ _›, ‹_ = _›⟩))
  · rename_i b s1 hk hb
    refine ⟨by rx4_keep, ?_⟩
    cases b
    · rw [if_neg (by decide)] at hb ⊢; exact hb
    · rw [if_pos rfl] at hb ⊢; exact hb
  · rx4_true
    exact ⟨_, _, ‹UAt src N _ _›, CharacterEscape.unicode _ _ _ ‹RegExpUnicodeEscapeSequence r _ _›, ‹_ = _›⟩

end DL.Rx
