import DL.Lemmas.RxName

/-! # Escapes, character classes, quantifiers, the non-recursive atoms: no panic site of their own, they preserve `Inv` -/
namespace DL.Rx
attribute [local irreducible] isScalar

theorem OK.consumeKGroupName (fuel : Nat) : OK (consumeKGroupName fuel) := by
  unfold DL.Rx.consumeKGroupName; rx_auto
macro_rules | `(tactic| rx_known) => `(tactic| exact OK.consumeKGroupName _)

theorem OK.consumeCharacterEscape (fuel : Nat) : OK (consumeCharacterEscape fuel) := by
  unfold DL.Rx.consumeCharacterEscape; rx_auto
macro_rules | `(tactic| rx_known) => `(tactic| exact OK.consumeCharacterEscape _)

theorem OK.consumeCharacterClassEscape (fuel : Nat) : OK (consumeCharacterClassEscape fuel) := by
  unfold DL.Rx.consumeCharacterClassEscape; rx_auto
macro_rules | `(tactic| rx_known) => `(tactic| exact OK.consumeCharacterClassEscape _)

theorem OK.consumeBackreference (fuel : Nat) : OK (consumeBackreference fuel) := by
  unfold DL.Rx.consumeBackreference; rx_auto
macro_rules | `(tactic| rx_known) => `(tactic| exact OK.consumeBackreference _)

theorem OK.consumeAtomEscape (fuel : Nat) : OK (consumeAtomEscape fuel) := by
  unfold DL.Rx.consumeAtomEscape; rx_auto
macro_rules | `(tactic| rx_known) => `(tactic| exact OK.consumeAtomEscape _)

theorem OK.consumeClassEscape (fuel : Nat) : OK (consumeClassEscape fuel) := by
  unfold DL.Rx.consumeClassEscape; rx_auto
macro_rules | `(tactic| rx_known) => `(tactic| exact OK.consumeClassEscape _)

theorem OK.consumeClassAtom (fuel : Nat) : OK (consumeClassAtom fuel) := by
  unfold DL.Rx.consumeClassAtom; rx_auto
macro_rules | `(tactic| rx_known) => `(tactic| exact OK.consumeClassAtom _)

theorem OK.consumeClassRanges : ∀ n, OK (consumeClassRanges n)
  | 0 => Keeps.outOfFuel
  | n + 1 => by
    have ih := OK.consumeClassRanges n
    unfold DL.Rx.consumeClassRanges; rx_auto
macro_rules | `(tactic| rx_known) => `(tactic| exact OK.consumeClassRanges _)

theorem OK.consumeCharacterClass (fuel : Nat) : OK (consumeCharacterClass fuel) := by
  unfold DL.Rx.consumeCharacterClass; rx_auto
macro_rules | `(tactic| rx_known) => `(tactic| exact OK.consumeCharacterClass _)

theorem OK.eatBracedQuantifier (fuel : Nat) (noError : Bool) : OK (eatBracedQuantifier fuel noError) := by
  unfold DL.Rx.eatBracedQuantifier; rx_auto
macro_rules | `(tactic| rx_known) => `(tactic| exact OK.eatBracedQuantifier _ _)

theorem OK.consumeQuantifier (fuel : Nat) (noConsume : Bool) : OK (consumeQuantifier fuel noConsume) := by
  unfold DL.Rx.consumeQuantifier; rx_auto
macro_rules | `(tactic| rx_known) => `(tactic| exact OK.consumeQuantifier _ _)

theorem OK.consumeOptionalQuantifier (fuel : Nat) : OK (consumeOptionalQuantifier fuel) := by
  unfold DL.Rx.consumeOptionalQuantifier; rx_auto
macro_rules | `(tactic| rx_known) => `(tactic| exact OK.consumeOptionalQuantifier _)

theorem OK.consumeReverseSolidusAtomEscape (fuel : Nat) : OK (consumeReverseSolidusAtomEscape fuel) := by
  unfold DL.Rx.consumeReverseSolidusAtomEscape; rx_auto
macro_rules | `(tactic| rx_known) => `(tactic| exact OK.consumeReverseSolidusAtomEscape _)

theorem OK.consumeReverseSolidusFollowedByC : OK consumeReverseSolidusFollowedByC := by
  unfold DL.Rx.consumeReverseSolidusFollowedByC; rx_auto
macro_rules | `(tactic| rx_known) => `(tactic| exact OK.consumeReverseSolidusFollowedByC)

theorem OK.consumeInvalidBracedQuantifier (fuel : Nat) : OK (consumeInvalidBracedQuantifier fuel) := by
  unfold DL.Rx.consumeInvalidBracedQuantifier; rx_auto
macro_rules | `(tactic| rx_known) => `(tactic| exact OK.consumeInvalidBracedQuantifier _)

theorem OK.consumePatternCharacter : OK consumePatternCharacter := by
  unfold DL.Rx.consumePatternCharacter; rx_auto
macro_rules | `(tactic| rx_known) => `(tactic| exact OK.consumePatternCharacter)

theorem OK.consumeExtendedPatternCharacter : OK consumeExtendedPatternCharacter := by
  unfold DL.Rx.consumeExtendedPatternCharacter; rx_auto
macro_rules | `(tactic| rx_known) => `(tactic| exact OK.consumeExtendedPatternCharacter)

theorem OK.consumeGroupSpecifier (fuel : Nat) : OK (consumeGroupSpecifier fuel) := by
  unfold DL.Rx.consumeGroupSpecifier; rx_auto
macro_rules | `(tactic| rx_known) => `(tactic| exact OK.consumeGroupSpecifier _)

end DL.Rx
