import DL.Lemmas.RxSpecMutual

/-! # Soundness w.r.t. the grammar: `count_capturing_parens` is a pure scan of the remaining input -/
namespace DL.Rx
open DL.RxSpec DL.Gen.Unicode
attribute [local irreducible] isScalar
variable {src : List Nat} {N : Nat}

/-- `count_capturing_parens` (`validator.rs:1563-1595`) as a function of the input: a left parenthesis counts if it
is outside a class, not escaped, and not followed by `?` — except `(?<` not followed by `=` or `!` -/
def scan : List Nat → Bool → Bool → Nat → Nat
  | [], _, _, k => k
  | x :: r, inClass, escaped, k =>
    if escaped then scan r inClass false k
    else if x == ch '\\' then scan r inClass true k
    else if x == ch '[' then scan r true escaped k
    else if x == ch ']' then scan r false escaped k
    else if x == ch '(' && !inClass
        && (r[0]? != some (ch '?') || (r[1]? == some (ch '<') && r[2]? != some (ch '=') && r[2]? != some (ch '!')))
      then scan r inClass escaped (k + 1)
    else scan r inClass escaped k

theorem countCapturingParensLoop_wp : ∀ (n : Nat) (ic esc : Bool) (k : Nat) (r : List Nat) (s : St), UAt src N r s →
    Wp (countCapturingParensLoop n ic esc k s) (fun v s1 => v = scan r ic esc k ∧ ∃ r1, UAt src N r1 s1 ∧ KeepN s s1 ∧
      s1.lastIntValue = s.lastIntValue ∧ s1.numCapturingParens = s.numCapturingParens)
  | 0, _, _, _, _, _, _ => Wp.outOfFuel
  | n + 1, ic, esc, k, r, s, h => by
    have ih := countCapturingParensLoop_wp n
    unfold countCapturingParensLoop
    rx4_auto
    all_goals (try (
      rename_i v s1 hv r1 hat1 hk hint hncp
      subst hv
      refine ⟨?_, r1, hat1, by rx4_keep, by rw [hint]; rfl, by rw [hncp]; rfl⟩
      (simp [scan, *]; done)))
    · rename_i x r' hn1 hn2 hn3 hn4 _ v s1 hv r1 hat1 hk hint hncp
      subst hv
      refine ⟨?_, r1, hat1, by rx4_keep, by rw [hint]; rfl, by rw [hncp]; rfl⟩
      simp only [scan, Bool.false_eq_true, if_false]
      rw [if_neg hn1, if_neg hn2, if_neg hn3, if_neg]
      exact hn4
    · rename_i x r' hn1 hn2 hn3 hc _ v s1 hv r1 hat1 hk hint hncp
      subst hv
      refine ⟨?_, r1, hat1, by rx4_keep, by rw [hint]; rfl, by rw [hncp]; rfl⟩
      simp only [scan, Bool.false_eq_true, if_false]
      rw [if_neg hn1, if_neg hn2, if_neg hn3, if_pos]
      exact hc
    · exact ⟨by cases ic <;> cases esc <;> rfl, [], h, KeepN.refl s, rfl, rfl⟩

theorem countCapturingParens_wp (n : Nat) (r : List Nat) (s : St) (h : UAt src N r s) :
    Wp (countCapturingParens n s) (fun v s1 => v = scan r false false 0 ∧ UAt src N r s1 ∧ KeepN s s1) := by
  unfold countCapturingParens
  rx4_auto
  rename_i v s1 hv r1 hat1 hk hint hncp hat2
  exact ⟨hv, hat2, by rx4_keep⟩

theorem scan_le : ∀ (r : List Nat) (ic esc : Bool) (k : Nat), scan r ic esc k ≤ k + r.length
  | [], _, _, k => by simp [scan]
  | x :: r, ic, esc, k => by
    have h1 := scan_le r ic false k
    have h2 := scan_le r ic true k
    have h3 := scan_le r true esc k
    have h4 := scan_le r false esc k
    have h5 := scan_le r ic esc (k + 1)
    have h6 := scan_le r ic esc k
    simp only [scan, List.length_cons]
    split
    · omega
    · split
      · omega
      · split
        · omega
        · split
          · omega
          · split <;> omega

end DL.Rx
