import DL.Lemmas.RxSpecScanG

/-!
# Completeness w.r.t. the grammar (Unicode mode): logic

* `NE m`: the computation `m` never returns `Err` (it contains no reachable `return Err(..)`).
* `Wc r Q`: the result `r` is not an `Err`, and if it is `Ok(a)` in state `s` then `Q a s`
  (`panic` and `outOfFuel` are excluded separately, by `C12NoPanic` and `C12Fuel`).
-/
namespace DL.Rx

def NE {α : Type} (m : M α) : Prop := ∀ s msg s', m s ≠ .err msg s'

theorem NE.pure {α : Type} {a : α} : NE (pure a : M α) := fun _ _ _ h => by cases h
theorem NE.bind {α β : Type} {m : M α} {f : α → M β} (hm : NE m) (hf : ∀ a, NE (f a)) : NE (m >>= f) := by
  intro s msg s' h
  have h' : M.bind m f s = .err msg s' := h
  unfold M.bind at h'
  cases hms : m s with
  | ok a s1 => rw [hms] at h'; exact hf a s1 msg s' h'
  | err m1 s1 => exact hm s m1 s1 hms
  | panic _ _ => rw [hms] at h'; cases h'
  | outOfFuel _ => rw [hms] at h'; cases h'
theorem NE.getSt : NE getSt := fun _ _ _ h => by cases h
theorem NE.modSt {f : St → St} : NE (modSt f) := fun _ _ _ h => by cases h
theorem NE.setInt {v : Int} : NE (setInt v) := NE.modSt
theorem NE.setStr {v : List Nat} : NE (setStr v) := NE.modSt
theorem NE.outOfFuel {α : Type} : NE (outOfFuel : M α) := fun _ _ _ h => by cases h
theorem NE.rustPanic {α : Type} {w : String} : NE (rustPanic w : M α) := fun _ _ _ h => by cases h
theorem NE.ite {α : Type} {c : Prop} [Decidable c] {a b : M α} (ha : NE a) (hb : NE b) : NE (if c then a else b) := by
  by_cases h : c
  · rw [if_pos h]; exact ha
  · rw [if_neg h]; exact hb
theorem NE.unwrap {α : Type} {o : Option α} {w : String} : NE (unwrap o w) := by
  cases o with
  | none => exact NE.rustPanic
  | some a => exact NE.pure
theorem NE.orM {a b : M Bool} (ha : NE a) (hb : NE b) : NE (a <or> b) := by
  unfold DL.Rx.orM
  exact NE.bind ha fun x => NE.ite NE.pure hb
theorem NE.andM {a b : M Bool} (ha : NE a) (hb : NE b) : NE (a <and> b) := by
  unfold DL.Rx.andM
  exact NE.bind ha fun x => NE.ite hb NE.pure

syntax "ne_known" : tactic
macro_rules | `(tactic| ne_known) => `(tactic| assumption)
macro_rules | `(tactic| ne_known) => `(tactic| exact NE.pure)
macro_rules | `(tactic| ne_known) => `(tactic| exact NE.getSt)
macro_rules | `(tactic| ne_known) => `(tactic| exact NE.modSt)
macro_rules | `(tactic| ne_known) => `(tactic| exact NE.setInt)
macro_rules | `(tactic| ne_known) => `(tactic| exact NE.setStr)
macro_rules | `(tactic| ne_known) => `(tactic| exact NE.outOfFuel)
macro_rules | `(tactic| ne_known) => `(tactic| exact NE.rustPanic)
macro_rules | `(tactic| ne_known) => `(tactic| exact NE.unwrap)

macro "ne_step" : tactic => `(tactic| (show NE _; first
    | with_reducible refine NE.bind ?_ (fun _ => ?_)
    | with_reducible refine NE.ite ?_ ?_
    | with_reducible refine NE.orM ?_ ?_
    | with_reducible refine NE.andM ?_ ?_
    | with_reducible ne_known
    | split
    | dsimp only))
macro "ne_auto" : tactic => `(tactic| repeat' ne_step)

attribute [local irreducible] isScalar

theorem NE.codePointWithOffset (k : Nat) : NE (codePointWithOffset k) := by unfold DL.Rx.codePointWithOffset; ne_auto
theorem NE.index : NE index := by unfold DL.Rx.index; ne_auto
theorem NE.readerAt (i : Nat) : NE (readerAt i) := by unfold DL.Rx.readerAt; ne_auto
theorem NE.pushBack (c : Nat) : NE (pushBack c) := NE.modSt
macro_rules | `(tactic| ne_known) => `(tactic| exact NE.codePointWithOffset _)
macro_rules | `(tactic| ne_known) => `(tactic| exact NE.index)
macro_rules | `(tactic| ne_known) => `(tactic| exact NE.readerAt _)
macro_rules | `(tactic| ne_known) => `(tactic| exact NE.pushBack _)
theorem NE.rewindLoop (idx : Nat) : ∀ k i, NE (rewindLoop idx k i)
  | 0, _ => by unfold DL.Rx.rewindLoop; ne_auto
  | k + 1, i => by
    have ih := NE.rewindLoop idx k (i + 1)
    unfold DL.Rx.rewindLoop; ne_auto
macro_rules | `(tactic| ne_known) => `(tactic| exact NE.rewindLoop _ _ _)
theorem NE.rewind (i : Nat) : NE (rewind i) := by unfold DL.Rx.rewind; ne_auto
macro_rules | `(tactic| ne_known) => `(tactic| exact NE.rewind _)
theorem NE.advance : NE advance := by unfold DL.Rx.advance; ne_auto
macro_rules | `(tactic| ne_known) => `(tactic| exact NE.advance)
theorem NE.eat (c : Char) : NE (eat c) := by unfold DL.Rx.eat; ne_auto
theorem NE.eat2 (c d : Char) : NE (eat2 c d) := by unfold DL.Rx.eat2; ne_auto
theorem NE.eat3 (c d e : Char) : NE (eat3 c d e) := by unfold DL.Rx.eat3; ne_auto
macro_rules | `(tactic| ne_known) => `(tactic| exact NE.eat _)
macro_rules | `(tactic| ne_known) => `(tactic| exact NE.eat2 _ _)
macro_rules | `(tactic| ne_known) => `(tactic| exact NE.eat3 _ _ _)

end DL.Rx
