import DL.Lemmas.RxSpecQuant

/-! # Soundness w.r.t. the grammar: the recursive productions -/
namespace DL.Rx
open DL.RxSpec DL.Gen.Unicode
attribute [local irreducible] isScalar
variable {src : List Nat} {N : Nat}

/-- a sequence of `Term`s (what the loop of `consume_alternative` reads) -/
inductive AltTail (N : Nat) : Str → Str → Attr → Prop
  | nil (r : Str) : AltTail N r r Attr.nil
  | cons (r m r1 : Str) (a₁ a₂ : Attr) : Derives qokSat N .Term r m a₁ → AltTail N m r1 a₂ → AltTail N r r1 (a₁ ++ a₂)

/-- a sequence of `| Alternative`s (what the loop of `consume_disjunction` reads) -/
inductive DisjTail (N : Nat) : Str → Str → Attr → Prop
  | nil (r : Str) : DisjTail N r r Attr.nil
  | cons (m m₂ r1 : Str) (a₁ a₂ : Attr) : Derives qokSat N .Alternative m m₂ a₁ → DisjTail N m₂ r1 a₂ →
      DisjTail N (c '|' :: m) r1 (a₁ ++ a₂)

theorem Attr.append_assoc (a b d : Attr) : a ++ b ++ d = a ++ (b ++ d) := by
  cases a; cases b; cases d
  show Attr.mk (_ ++ _ ++ _) (_ ++ _ ++ _) = Attr.mk (_ ++ (_ ++ _)) (_ ++ (_ ++ _))
  rw [List.append_assoc, List.append_assoc]

theorem alt_of_tail {r m r1 : Str} {a₀ a : Attr} (h0 : Derives qokSat N .Alternative r m a₀) (h : AltTail N m r1 a) :
    Derives qokSat N .Alternative r r1 (a₀ ++ a) := by
  induction h generalizing a₀ r with
  | nil r' => rw [Attr.append_nil]; exact h0
  | cons r' m' r1' a₁ a₂ ht _ ih =>
    have := ih (Derives.altSnoc r r' m' a₀ a₁ h0 ht)
    rw [Attr.append_assoc] at this; exact this

theorem disj_of_tail {r m r1 : Str} {a₀ a : Attr} (h0 : Derives qokSat N .Alternative r m a₀) (h : DisjTail N m r1 a) :
    Derives qokSat N .Disjunction r r1 (a₀ ++ a) := by
  induction h generalizing a₀ r with
  | nil r' => rw [Attr.append_nil]; exact Derives.disjOne _ _ _ h0
  | cons m' m₂ r1' a₁ a₂ halt _ ih =>
    exact Derives.disjMore r m' r1' a₀ (a₁ ++ a₂) h0 (ih halt)

theorem Track.post {s s1 s2 : St} {a : Attr} (h : Track s s1 a) (hk : KeepN s1 s2) : Track s s2 a :=
  ⟨by rw [hk.gn, h.gn], fun hn => by rw [hk.gn]; exact h.nodup hn, fun x hx => by rw [hk.bn]; exact h.mono x hx,
    fun x hx => by rw [hk.bn]; exact h.refs x hx⟩

theorem Track.pre' {s s1 s2 : St} {a : Attr} (h : Track s1 s2 a) (hk : KeepN s s1) : Track s s2 a := Track.pre hk h

theorem Track.ofKeepN_none {s s1 : St} (h : KeepN s s1) : Track s s1 ⟨[none], []⟩ :=
  ⟨by rw [h.gn]; exact (List.append_nil _).symm, fun hn => by rw [h.gn]; exact hn, fun x hx => by rw [h.bn]; exact hx,
    fun x hx => nomatch hx⟩

theorem alt_of_tail' {r r1 : Str} {a : Attr} (h : AltTail N r r1 a) : Derives qokSat N .Alternative r r1 a := by
  have := alt_of_tail (Derives.altEmpty r) h
  rw [Attr.nil_append] at this; exact this

structure AllSpec (src : List Nat) (N : Nat) (n : Nat) : Prop where
  disjunction : ∀ (r : List Nat) (s : St), UAt src N r s → Wp (consumeDisjunction n s) (fun _ s1 =>
    ∃ r1 a, UAt src N r1 s1 ∧ Derives qokSat N .Disjunction r r1 a ∧ Track s s1 a)
  disjunctionLoop : ∀ (r : List Nat) (s : St), UAt src N r s → Wp (consumeDisjunctionLoop n s) (fun _ s1 =>
    ∃ r1 a, UAt src N r1 s1 ∧ DisjTail N r r1 a ∧ Track s s1 a)
  alternative : ∀ (r : List Nat) (s : St), UAt src N r s → Wp (consumeAlternative n s) (fun _ s1 =>
    ∃ r1 a, UAt src N r1 s1 ∧ AltTail N r r1 a ∧ Track s s1 a)
  term : ∀ (r : List Nat) (s : St), UAt src N r s → Wp (consumeTerm n s) (fun b s1 =>
    if b = true then ∃ r1 a, UAt src N r1 s1 ∧ Derives qokSat N .Term r r1 a ∧ Track s s1 a
    else UAt src N r s1 ∧ KeepN s s1)
  assertion : ∀ (r : List Nat) (s : St), UAt src N r s → Wp (consumeAssertion n s) (fun b s1 =>
    if b = true then ∃ r1 a, UAt src N r1 s1 ∧ Derives qokSat N .Assertion r r1 a ∧ Track s s1 a
    else UAt src N r s1 ∧ KeepN s s1)
  atom : ∀ (r : List Nat) (s : St), UAt src N r s → Wp (consumeAtom n s) (fun b s1 =>
    if b = true then ∃ r1 a, UAt src N r1 s1 ∧ Derives qokSat N .Atom r r1 a ∧ Track s s1 a
    else UAt src N r s1 ∧ KeepN s s1)
  uncapturingGroup : ∀ (r : List Nat) (s : St), UAt src N r s → Wp (consumeUncapturingGroup n s) (fun b s1 =>
    if b = true then ∃ r1 a, UAt src N r1 s1 ∧ Derives qokSat N .Atom r r1 a ∧ Track s s1 a
    else UAt src N r s1 ∧ KeepN s s1)
  capturingGroup : ∀ (r : List Nat) (s : St), UAt src N r s → Wp (consumeCapturingGroup n s) (fun b s1 =>
    if b = true then ∃ r1 a, UAt src N r1 s1 ∧ Derives qokSat N .Atom r r1 a ∧ Track s s1 a
    else UAt src N r s1 ∧ KeepN s s1)

theorem allSpec (hN : N < 2 ^ 62) (hsrc : ∀ x ∈ src, x ≤ 0x10FFFF) : ∀ n, AllSpec src N n
  | 0 => by
    constructor
    · intro r s h; unfold consumeDisjunction; exact Wp.outOfFuel
    · intro r s h; unfold consumeDisjunctionLoop; exact Wp.outOfFuel
    · intro r s h; unfold consumeAlternative; exact Wp.outOfFuel
    · intro r s h; unfold consumeTerm; exact Wp.outOfFuel
    · intro r s h; unfold consumeAssertion; exact Wp.outOfFuel
    · intro r s h; unfold consumeAtom; exact Wp.outOfFuel
    · intro r s h; unfold consumeUncapturingGroup; exact Wp.outOfFuel
    · intro r s h; unfold consumeCapturingGroup; exact Wp.outOfFuel
  | n + 1 => by
    have ih := allSpec hN hsrc n
    have h1 := ih.disjunction
    have h2 := ih.disjunctionLoop
    have h3 := ih.alternative
    have h4 := ih.term
    have h5 := ih.assertion
    have h6 := ih.atom
    have h8 := ih.uncapturingGroup
    have h9 := ih.capturingGroup
    have hrs : ∀ (n : Nat) (r : List Nat) (s : St), UAt src N r s → Wp (consumeReverseSolidusAtomEscape n s) (fun b s1 =>
        if b = true then ∃ r1 a, UAt src N r1 s1 ∧ Derives qokSat N .Atom r r1 a ∧ Track s s1 a
        else UAt src N r s1 ∧ KeepN s s1) := fun n r s h => consumeReverseSolidusAtomEscape_wp hN n r s h
    constructor
    · intro r s h; unfold consumeDisjunction; rx4_auto
      rename_i _ s1 m a1 hat1 halt htr1 _ s2 r1 a2 hat2 hdt htr2 s3 hk hat3 _
      exact ⟨r1, a1 ++ a2, hat3, disj_of_tail (alt_of_tail' halt) hdt, (htr1.trans htr2).post hk⟩
    · intro r s h; unfold consumeDisjunctionLoop; rx4_auto
      · rename_i m hat0 _ s1 m2 a1 hat1 halt htr1 _ s2 r1 a2 hat2 hdt htr2
        exact ⟨r1, a1 ++ a2, hat2, DisjTail.cons m m2 r1 a1 a2 (alt_of_tail' halt) hdt,
          (Track.pre (s := s) (s1 := s.setPos src (s.reader.index + 1)) ⟨rfl, rfl⟩ htr1).trans htr2⟩
      · exact ⟨r, Attr.nil, h, DisjTail.nil r, Track.ofKeepN (KeepN.refl s)⟩
    · intro r s h; unfold consumeAlternative; rx4_auto
      · rename_i x r' s1 hat1 hk
        exact ⟨_, Attr.nil, hat1, AltTail.nil _, Track.ofKeepN hk⟩
      · rename_i x r' s1 m a1 hat1 hterm htr1 _ s2 r1 a2 hat2 htail htr2
        exact ⟨r1, a1 ++ a2, hat2, AltTail.cons _ m r1 a1 a2 hterm htail, htr1.trans htr2⟩
      · exact ⟨[], Attr.nil, h, AltTail.nil _, Track.ofKeepN (KeepN.refl s)⟩
    · intro r s h; unfold consumeTerm; rx4_auto
      · rename_i s1 hat1 hk1 s2 hat2 hk2
        rw [if_neg (by decide)]
        exact ⟨hat2, hk1.trans hk2⟩
      · rename_i s1 hat1 hk1 s2 m a hat2 hatom htr b s3 hb hk3 r1 hat3 hq
        subst hb
        rw [if_pos rfl]
        refine ⟨r1, a, hat3, ?_, (Track.pre hk1 htr).post hk3⟩
        rcases hq with rfl | hq
        · exact Derives.termAtom _ _ _ hatom
        · exact Derives.termQuantified _ m _ _ hatom hq
      · rename_i s1 r1 a hat1 hass htr
        rw [if_pos rfl]
        exact ⟨r1, a, hat1, Derives.termAssertion _ _ _ hass, htr⟩
    · intro r s h; unfold consumeAssertion; rx4_auto
      all_goals (try (rw [if_neg (by decide)]; exact ⟨by rx4_at, by rx4_keep⟩))
      all_goals (try (rw [if_pos rfl]; exact ⟨_, Attr.nil, by rx4_at, Derives.caret _, Track.ofKeepN ⟨rfl, rfl⟩⟩))
      all_goals (try (rw [if_pos rfl]; exact ⟨_, Attr.nil, by rx4_at, Derives.dollar _, Track.ofKeepN ⟨rfl, rfl⟩⟩))
      all_goals (try (rw [if_pos rfl]; exact ⟨_, Attr.nil, by rx4_at, Derives.notWordBoundary _, Track.ofKeepN ⟨rfl, rfl⟩⟩))
      all_goals (try (rw [if_pos rfl]; exact ⟨_, Attr.nil, by rx4_at, Derives.wordBoundary _, Track.ofKeepN ⟨rfl, rfl⟩⟩))
      all_goals (
        rw [if_pos rfl]
        rename_i a htr r1 hat1 hat2 hd
        refine ⟨r1, a, by rx4_at, ?_, Track.post (Track.pre' (s := s) htr ⟨rfl, rfl⟩) ⟨rfl, rfl⟩⟩
        first
        | exact Derives.lookbehind _ _ r1 a rfl hd
        | exact Derives.negativeLookbehind _ _ r1 a rfl hd
        | exact Derives.lookahead _ _ r1 a rfl hd
        | exact Derives.negativeLookahead _ _ r1 a rfl hd)
    · intro r s h; unfold consumeAtom; rx4_auto
      · rw [if_pos rfl]
        exact ⟨_, Attr.nil, by rx4_at, Derives.dot _, Track.ofKeepN (by rx4_keep)⟩
      · rename_i s1 hk1 hat1 _ s2 hat2 hk2 s3 hk3 hat3 s4 hat4 hk4 b s5 hpost
        have hk : KeepN s s4 := ((hk1.trans hk2).trans hk3).trans hk4
        cases b
        · rw [if_neg (by decide)] at hpost ⊢
          exact ⟨hpost.1, hk.trans hpost.2⟩
        · rw [if_pos rfl] at hpost ⊢
          obtain ⟨r1, a, hat, hd, htr⟩ := hpost
          exact ⟨r1, a, hat, hd, Track.pre hk htr⟩
      · rename_i s1 hk1 hat1 _ s2 hat2 hk2 s3 hk3 hat3 s4 r1 a hat4 hd htr
        rw [if_pos rfl]
        exact ⟨r1, a, hat4, hd, Track.pre ((hk1.trans hk2).trans hk3) htr⟩
      · rename_i s1 hk1 hat1 _ s2 hat2 hk2 s3 hk3 r1 hat3 hcc
        rw [if_pos rfl]
        exact ⟨r1, Attr.nil, hat3, Derives.characterClass _ _ hcc, Track.ofKeepN ((hk1.trans hk2).trans hk3)⟩
      · rename_i s1 hk1 hat1 _ s2 r1 a hat2 hd htr
        rw [if_pos rfl]
        exact ⟨r1, a, hat2, hd, Track.pre hk1 htr⟩
      · rename_i s1 hk1 x r1 hr hpc hat1
        rw [if_pos rfl]
        subst hr
        exact ⟨r1, Attr.nil, hat1, Derives.patternCharacter x r1 hpc, Track.ofKeepN hk1⟩
    · intro r s h; unfold consumeUncapturingGroup; rx4_auto
      · rename_i m hat0 _ s1 a htr r1 hat1 hat2 hd
        rw [if_pos rfl]
        exact ⟨r1, a, by rx4_at, Derives.nonCapturing _ m r1 a rfl hd,
          Track.post (Track.pre' (s := s) htr ⟨rfl, rfl⟩) ⟨rfl, rfl⟩⟩
      · rw [if_neg (by decide)]
        exact ⟨h, KeepN.refl s⟩
    · intro r s h; unfold consumeCapturingGroup; rx4_auto
      · rename_i m hat0 b s1 hpost
        cases b
        · rw [if_neg (by decide)] at hpost
          obtain ⟨hat1, hk1⟩ := hpost
          rx4_auto
          rename_i _ s2 a htr r1 hat2 hat3 hd
          rw [if_pos rfl]
          refine ⟨r1, ⟨[none], []⟩ ++ a, by rx4_at, Derives.group m m r1 none a (GroupSpecifier.empty m) hd, ?_⟩
          have h0 : Track s s1 ⟨[none], []⟩ :=
            Track.pre' (s := s) (s1 := s.setPos src (s.reader.index + 1)) (Track.ofKeepN_none hk1) ⟨rfl, rfl⟩
          exact Track.post (h0.trans htr) ⟨rfl, rfl⟩
        · rw [if_pos rfl] at hpost
          obtain ⟨m2, nm, hat1, hgs, htr1⟩ := hpost
          rx4_auto
          rename_i _ s2 a htr r1 hat2 hat3 hd
          rw [if_pos rfl]
          refine ⟨r1, ⟨[some nm], []⟩ ++ a, by rx4_at, Derives.group m m2 r1 (some nm) a hgs hd, ?_⟩
          have h0 : Track s s1 ⟨[some nm], []⟩ :=
            Track.pre' (s := s) (s1 := s.setPos src (s.reader.index + 1)) htr1 ⟨rfl, rfl⟩
          exact Track.post (h0.trans htr) ⟨rfl, rfl⟩
      · rw [if_neg (by decide)]
        exact ⟨h, KeepN.refl s⟩

end DL.Rx
