import DL.Lemmas.CFExec5

/-! Completeness of the closed-form completions: the other statements and the structural induction. -/
namespace DL.CF

theorem normal_has_inv {o : Outcome} (h : Compl.normal.has o = true) : o = .normal := by
  rw [has_normal] at h; cases o <;> simp at h; rfl

theorem switch_has_inv (c : Compl) (o : Outcome) (h : ({ c with n := c.n || c.b, b := false } : Compl).has o = true) :
    ∃ o', c.has o' = true ∧ o'.leavesSwitch = o := by
  rcases o with _ | l | l | _ | _
  · have : (c.n || c.b) = true := h
    rcases Bool.or_eq_true _ _ |>.mp this with h' | h'
    · exact ⟨.normal, h', rfl⟩
    · exact ⟨.brk none, h', rfl⟩
  · cases l with
    | none => cases h
    | some l => exact ⟨.brk (some l), h, rfl⟩
  · cases l with
    | none => exact ⟨.cont none, h, rfl⟩
    | some l => exact ⟨.cont (some l), h, rfl⟩
  · exact ⟨.ret, h, rfl⟩
  · exact ⟨.thr, h, rfl⟩

theorem switch_complete (ls : List Id) (p : Nat) (d : Kids) (cs : Cases) (o : Outcome)
    (ih : ∀ o', cs.compl.1.has o' = true → ExecCases cs o')
    (ihd : ∀ o', d.compl.has o' = true → EvalKids d o')
    (h : (Stmt.compl ls (.switchS p d cs)).has o = true) : Exec ls (.switchS p d cs) o := by
  rw [compl_switch] at h
  rcases seq_has_inv h with ⟨ha, hd⟩ | ⟨hdn, hi⟩
  · rcases seq_has_inv hd with ⟨_, hd⟩ | ⟨hdn, ht⟩
    · exact .switch_discAbrupt (ihd o hd) ha
    · rcases o with _ | l | l | _ | _
      · exact absurd rfl ha
      · cases l <;> cases ht
      · cases l <;> cases ht
      · cases ht
      · exact .switch_testThrows (ihd .normal hdn) ht
  · have hD : EvalKids d .normal := by
      rcases seq_has_inv hdn with ⟨h', _⟩ | ⟨h', _⟩
      · exact absurd rfl h'
      · exact ihd .normal h'
    obtain ⟨o', h', rfl⟩ := switch_has_inv _ o hi
    rw [has_union, Bool.or_eq_true] at h'
    rcases h' with h' | h'
    · exact .switch_enter hD (ih o' h')
    · simp only [has_guard, Bool.and_eq_true, Bool.not_eq_true'] at h'
      obtain rfl := normal_has_inv h'.2
      exact .switch_noMatch hD (by rw [hasDefault_eq]; exact h'.1)

theorem tryCatch_complete (block : Stmts) (hh : Bool) (ck : Kids) (o : Outcome)
    (ihb : ∀ o', block.compl.has o' = true → ExecList block o')
    (ihc : ∀ o', ck.catchCompl.has o' = true → ExecCatch ck o')
    (h : (tryCatchCompl block.compl hh ck.catchCompl).has o = true) : ExecTryCatch block hh ck o := by
  cases hh with
  | false =>
    have h : block.compl.has o = true := by simpa [tryCatchCompl] using h
    by_cases ht : o = .thr
    · subst ht; exact .uncaught (ihb _ h)
    · exact .noThrow (ihb _ h) ht
  | true =>
    simp only [tryCatchCompl, if_true, has_union, has_guard, Bool.or_eq_true, Bool.and_eq_true] at h
    rcases h with h | ⟨ht, hc⟩
    · have hne : o ≠ .thr := by rintro rfl; cases h
      have hb : block.compl.has o = true := by
        rcases o with _ | l | l | _ | _
        · exact h
        · cases l <;> exact h
        · cases l <;> exact h
        · exact h
        · exact absurd rfl hne
      exact .noThrow (ihb _ hb) hne
    · exact .caught (ihb .thr ht) (ihc _ hc)

theorem try_complete (ls : List Id) (p bp : Nat) (block : Stmts) (hh : Bool) (cp : Nat) (ck : Kids) (hf : Bool) (fp : Nat)
    (fin : Stmts) (o : Outcome)
    (ihb : ∀ o', block.compl.has o' = true → ExecList block o')
    (ihc : ∀ o', ck.catchCompl.has o' = true → ExecCatch ck o')
    (ihf : ∀ o', fin.compl.has o' = true → ExecList fin o')
    (h : (Stmt.compl ls (.tryS p bp block hh cp ck hf fp fin)).has o = true) :
    Exec ls (.tryS p bp block hh cp ck hf fp fin) o := by
  simp only [Stmt.compl] at h
  cases hf with
  | false =>
    exact .try_noFinally (tryCatch_complete block hh ck o ihb ihc (by simpa [finallyCompl] using h))
  | true =>
    simp only [finallyCompl, if_true, has_guard, has_union, has_abrupt, Bool.and_eq_true, Bool.or_eq_true] at h
    obtain ⟨hany, h⟩ := h
    rcases h with ⟨hn, hr⟩ | ⟨ha, hf'⟩
    · exact .try_finallyNormal (tryCatch_complete block hh ck o ihb ihc hr) (ihf .normal hn)
    · obtain ⟨o1, h1⟩ := (Compl.any_iff _).mp hany
      exact .try_finallyAbrupt (tryCatch_complete block hh ck o1 ihb ihc h1) (ihf o hf') ((Outcome.abrupt_iff o).mp ha)

theorem labeled_complete (ls : List Id) (p : Nat) (l : Id) (body : Stmt) (o : Outcome)
    (ih : ∀ o', (body.compl (l :: ls)).has o' = true → Exec (l :: ls) body o')
    (h : (Stmt.compl ls (.labeled p l body)).has o = true) : Exec ls (.labeled p l body) o := by
  simp only [Stmt.compl] at h
  rcases o with _ | l' | l' | _ | _
  · have : ((body.compl (l :: ls)).n || (body.compl (l :: ls)).bl.contains l) = true := h
    rcases (Bool.or_eq_true _ _).mp this with h' | h'
    · exact .labeled_other (ih .normal h') (by simp) (by simp)
    · exact .labeled_break (ih _ h')
  · cases l' with
    | none => exact .labeled_other (ih _ h) (by simp) (by simp)
    | some l' =>
      simp only [Compl.has, contains_filter_id, Bool.and_eq_true, bne_iff_ne, ne_eq] at h
      exact .labeled_other (ih (.brk (some l')) h.1) (by simpa using h.2) (by simp)
  · cases l' with
    | none => exact .labeled_other (ih _ h) (by simp) (by simp)
    | some l' =>
      simp only [Compl.has, contains_filter_id, Bool.and_eq_true, bne_iff_ne, ne_eq] at h
      exact .labeled_other (ih (.cont (some l')) h.1) (by simp) (by simpa using h.2)
  · exact .labeled_other (ih _ h) (by simp) (by simp)
  · exact .labeled_other (ih _ h) (by simp) (by simp)

theorem if_complete (ls : List Id) (p : Nat) (test : Kids) (c : Stmt) (alt : Option Stmt) (o : Outcome)
    (iht : ∀ o', test.compl.has o' = true → EvalKids test o')
    (ihc : ∀ o', (c.compl []).has o' = true → Exec [] c o')
    (iha : ∀ a, alt = some a → ∀ o', (a.compl []).has o' = true → Exec [] a o')
    (h : (Stmt.compl ls (.ifS p test c alt)).has o = true) : Exec ls (.ifS p test c alt) o := by
  cases alt with
  | none =>
    simp only [Stmt.compl] at h
    rcases seq_has_inv h with ⟨ha, ht⟩ | ⟨htn, hb⟩
    · exact .if_testAbrupt (iht o ht) ha
    · rw [has_union, Bool.or_eq_true] at hb
      rcases hb with hb | hb
      · exact .if_then (iht _ htn) (ihc _ hb)
      · obtain rfl := normal_has_inv hb; exact .if_skip (iht _ htn)
  | some a =>
    simp only [Stmt.compl] at h
    rcases seq_has_inv h with ⟨ha, ht⟩ | ⟨htn, hb⟩
    · exact .if_testAbrupt (iht o ht) ha
    · rw [has_union, Bool.or_eq_true] at hb
      rcases hb with hb | hb
      · exact .if_then (iht _ htn) (ihc _ hb)
      · exact .if_else (iht _ htn) (iha a rfl _ hb)

theorem exprOwn_has_inv {e : EKind} {o : Outcome} (h : (exprOwn e).has o = true) : o = .normal ∨ (o = .thr ∧ e = .other) := by
  rw [has_exprOwn] at h
  rcases o with _ | l | l | _ | _ <;> simp at h
  · exact Or.inl rfl
  · cases e <;> simp at h
    exact Or.inr ⟨rfl, rfl⟩

mutual
theorem Stmt.complete : ∀ (s : Stmt) (ls : List Id) (o : Outcome), (s.compl ls).has o = true → Exec ls s o
  | .simple p t kids, ls, o, h => .simple (Kids.complete kids o (by simpa [Stmt.compl] using h))
  | .block p body, ls, o, h => .block (Stmts.complete body o (by simpa [Stmt.compl] using h))
  | .ifS p test c none, ls, o, h =>
    if_complete ls p test c none o (fun o' => Kids.complete test o') (fun o' => Stmt.complete c [] o') (fun _ e => by cases e) h
  | .ifS p test c (some a), ls, o, h =>
    if_complete ls p test c (some a) o (fun o' => Kids.complete test o') (fun o' => Stmt.complete c [] o')
      (fun a' e => by cases e; exact fun o' => Stmt.complete a [] o') h
  | .whileS p test tt body, ls, o, h =>
    while_complete ls p test tt body o (fun o' => Stmt.complete body [] o') (fun o' => Kids.complete test o') h
  | .doWhileS p body test tt, ls, o, h =>
    doWhile_complete ls p body test tt o (fun o' => Stmt.complete body [] o') (fun o' => Kids.complete test o') h
  | .forS p i u t ht tt body, ls, o, h => by
    rw [compl_for] at h
    rcases seq_has_inv h with ⟨ha, hi⟩ | ⟨hin, hl⟩
    · exact .for_initAbrupt (Kids.complete i o hi) ha
    · exact .for_loop (Kids.complete i .normal hin) (forLoop_complete ls u t ht tt body o (fun o' => Stmt.complete body [] o')
        (fun o' => Kids.complete t o') (fun o' => Kids.complete u o') hl)
  | .forInOf p l r body, ls, o, h => by
    rw [has_compl_forIn] at h
    rcases seq_has_inv h with ⟨ha, hi⟩ | ⟨hrn, hl⟩
    · exact .forIn_rightAbrupt (Kids.complete r o hi) ha
    · exact .forIn_loop (Kids.complete r .normal hrn) (forIn_complete ls l body o (fun o' => Stmt.complete body [] o')
        (fun o' => Kids.complete l o') hl)
  | .switchS p d cs, ls, o, h =>
    switch_complete ls p d cs o (fun o' => Cases.complete cs o') (fun o' => Kids.complete d o') h
  | .tryS p bp block hh cp ck hf fp fin, ls, o, h =>
    try_complete ls p bp block hh cp ck hf fp fin o (fun o' => Stmts.complete block o') (fun o' => Kids.complete_catch ck o')
      (fun o' => Stmts.complete fin o') h
  | .labeled p l body, ls, o, h => labeled_complete ls p l body o (fun o' => Stmt.complete body (l :: ls) o') h
  | .brk p l, ls, o, h => by
    cases l with
    | none =>
      have : o = .brk none := by
        rcases o with _ | l | l | _ | _ <;> try (simp [Stmt.compl, Compl.has] at h)
        · cases l <;> simp [Stmt.compl, Compl.has] at h; rfl
        · cases l <;> simp [Stmt.compl, Compl.has] at h
      subst this; exact .brk
    | some l0 =>
      have : o = .brk (some l0) := by
        rcases o with _ | l | l | _ | _ <;> try (simp [Stmt.compl, Compl.has] at h)
        · cases l <;> simp [Stmt.compl, Compl.has] at h; rw [h]
        · cases l <;> simp [Stmt.compl, Compl.has] at h
      subst this; exact .brk
  | .cont p l, ls, o, h => by
    cases l with
    | none =>
      have : o = .cont none := by
        rcases o with _ | l | l | _ | _ <;> try (simp [Stmt.compl, Compl.has] at h)
        · cases l <;> simp [Stmt.compl, Compl.has] at h
        · cases l <;> simp [Stmt.compl, Compl.has] at h; rfl
      subst this; exact .cont
    | some l0 =>
      have : o = .cont (some l0) := by
        rcases o with _ | l | l | _ | _ <;> try (simp [Stmt.compl, Compl.has] at h)
        · cases l <;> simp [Stmt.compl, Compl.has] at h
        · cases l <;> simp [Stmt.compl, Compl.has] at h; rw [h]
      subst this; exact .cont
  | .ret p arg, ls, o, h => by
    simp only [Stmt.compl] at h
    rcases seq_has_inv h with ⟨ha, hi⟩ | ⟨hn, hr⟩
    · exact .ret_argAbrupt (Kids.complete arg o hi) ha
    · rw [has_single_ret] at hr
      cases o <;> simp at hr
      exact .ret (Kids.complete arg .normal hn)
  | .throw p arg, ls, o, h => by
    simp only [Stmt.compl] at h
    rcases seq_has_inv h with ⟨ha, hi⟩ | ⟨hn, hr⟩
    · exact .throw_argAbrupt (Kids.complete arg o hi) ha
    · rw [has_single_thr] at hr
      cases o <;> simp at hr
      exact .throw (Kids.complete arg .normal hn)
theorem Stmts.complete : ∀ (l : Stmts) (o : Outcome), l.compl.has o = true → ExecList l o
  | .nil, o, h => by obtain rfl := normal_has_inv (by simpa [Stmts.compl] using h); exact .nil
  | .cons s r, o, h => by
    simp only [Stmts.compl] at h
    rcases seq_has_inv h with ⟨ha, hs⟩ | ⟨hn, hr⟩
    · exact .stop (Stmt.complete s [] o hs) ha
    · exact .next (Stmt.complete s [] .normal hn) (Stmts.complete r o hr)
theorem Kid.complete : ∀ (k : Kid) (o : Outcome), k.compl.has o = true → EvalKid k o
  | .expr e ks, o, h => by
    simp only [Kid.compl] at h
    rcases seq_has_inv h with ⟨ha, hs⟩ | ⟨hn, hr⟩
    · exact .sub (Kids.complete ks o hs) ha
    · rcases exprOwn_has_inv hr with rfl | ⟨rfl, rfl⟩
      · exact .expr (Kids.complete ks .normal hn)
      · exact .exprThrows (Kids.complete ks .normal hn)
  | .fnScope p ks, o, h => by
    obtain rfl := normal_has_inv (by simpa [Kid.compl] using h); exact .fnScope
  | .block p body, o, h => .block (Stmts.complete body o (by simpa [Kid.compl] using h))
  | .stmt s, o, h => .stmt (Stmt.complete s [] o (by simpa [Kid.compl] using h))
theorem Kids.complete : ∀ (ks : Kids) (o : Outcome), ks.compl.has o = true → EvalKids ks o
  | .nil, o, h => by obtain rfl := normal_has_inv (by simpa [Kids.compl] using h); exact .nil
  | .cons k r, o, h => by
    simp only [Kids.compl] at h
    rcases seq_has_inv h with ⟨ha, hs⟩ | ⟨hn, hr⟩
    · exact .stop (Kid.complete k o hs) ha
    · exact .next (Kid.complete k .normal hn) (Kids.complete r o hr)
theorem Cases.complete_fall : ∀ (cs : Cases) (o : Outcome), cs.fallCompl.has o = true → ExecFall cs o
  | .nil, o, h => by obtain rfl := normal_has_inv (by simpa [Cases.fallCompl] using h); exact .nil
  | .cons p d t body r, o, h => by
    simp only [Cases.fallCompl] at h
    rcases seq_has_inv h with ⟨ha, hs⟩ | ⟨hn, hr⟩
    · exact .stop (Stmts.complete body o hs) ha
    · exact .next (Stmts.complete body .normal hn) (Cases.complete_fall r o hr)
theorem Cases.complete : ∀ (cs : Cases) (o : Outcome), cs.compl.1.has o = true → ExecCases cs o
  | .nil, o, h => by simp [Cases.compl, has_empty] at h
  | .cons p d t body r, o, h => by
    simp only [Cases.compl, has_union, Bool.or_eq_true] at h
    rcases h with h | h
    · refine .here ?_
      rcases seq_has_inv h with ⟨ha, hs⟩ | ⟨hn, hr⟩
      · exact .stop (Stmts.complete body o hs) ha
      · exact .next (Stmts.complete body .normal hn) (Cases.complete_fall r o hr)
    · exact .later (Cases.complete r o h)
theorem Kids.complete_catch : ∀ (ks : Kids) (o : Outcome), ks.catchCompl.has o = true → ExecCatch ks o
  | .nil, o, h => by obtain rfl := normal_has_inv (by simpa [Kids.catchCompl] using h); exact .nil
  | .cons (.block q body) r, o, h => by
    simp only [Kids.catchCompl] at h
    rcases seq_has_inv h with ⟨ha, hs⟩ | ⟨hn, hr⟩
    · exact .bodyStop (Stmts.complete body o hs) ha
    · exact .bodyNext (Stmts.complete body .normal hn) (Kids.complete_catch r o hr)
  | .cons (.expr e ks) r, o, h => by
    simp only [Kids.catchCompl] at h
    rcases seq_has_inv h with ⟨ha, hs⟩ | ⟨_, hr⟩
    · rcases o with _ | l | l | _ | _ <;> try (first | exact absurd rfl ha | cases hs)
      · cases l <;> cases hs
      · cases l <;> cases hs
      · exact .paramThrows rfl hs
    · exact .param rfl (Kids.complete_catch r o hr)
  | .cons (.fnScope p ks) r, o, h => by
    simp only [Kids.catchCompl] at h
    rcases seq_has_inv h with ⟨ha, hs⟩ | ⟨_, hr⟩
    · rcases o with _ | l | l | _ | _ <;> try (first | exact absurd rfl ha | cases hs)
      · cases l <;> cases hs
      · cases l <;> cases hs
    · exact .param rfl (Kids.complete_catch r o hr)
  | .cons (.stmt s) r, o, h => by
    simp only [Kids.catchCompl] at h
    rcases seq_has_inv h with ⟨ha, hs⟩ | ⟨_, hr⟩
    · rcases o with _ | l | l | _ | _ <;> try (first | exact absurd rfl ha | cases hs)
      · cases l <;> cases hs
      · cases l <;> cases hs
    · exact .param rfl (Kids.complete_catch r o hr)
end

end DL.CF
