import DL.Lemmas.RxCompProp
import DL.Lemmas.RxCompSearch
import DL.Lemmas.RxSpecName2

/-! # Completeness: group names (u-mode) -/
namespace DL.Rx
open DL.RxSpec DL.Gen.Unicode

attribute [local irreducible] isScalar
variable {src : List Nat} {N : Nat}

theorem Wc.of_yes {m : M Bool} {p : Prop} (hy : Yes m p) (hp : p) (s : St) :
    Wc (m s) (fun b s1 => b = true ∧ s1 = s) := by
  rcases hy hp s with h | h <;> rw [h]
  · exact ⟨rfl, rfl⟩
  · trivial

theorem Wc.of_tests_not {m : M Bool} {p : Prop} (ht : Tests m p) (hp : ¬p) (s : St) :
    Wc (m s) (fun b s1 => b = false ∧ s1 = s) := by
  rcases ht s with ⟨b, h, hb⟩ | h <;> rw [h]
  · cases b
    · exact ⟨rfl, rfl⟩
    · exact absurd (hb rfl) hp
  · trivial

theorem isRegexpIdentifierStart_wc (cp : Nat) (s : St) (hp : IdentifierStartChar cp) :
    Wc (isRegexpIdentifierStart cp s) (fun b s1 => b = true ∧ s1 = s) := Wc.of_yes (isRegexpIdentifierStart_yes cp) hp s

theorem isRegexpIdentifierPart_wc (cp : Nat) (s : St) (hp : IdentifierPartChar cp) :
    Wc (isRegexpIdentifierPart cp s) (fun b s1 => b = true ∧ s1 = s) := Wc.of_yes (isRegexpIdentifierPart_yes cp) hp s

theorem isRegexpIdentifierPart_wcn (cp : Nat) (s : St) (hp : ¬IdentifierPartChar cp) :
    Wc (isRegexpIdentifierPart cp s) (fun b s1 => b = false ∧ s1 = s) :=
  Wc.of_tests_not (isRegexpIdentifierPart_spec cp) hp s

theorem eatRegexpIdentifierStart_wc (n : Nat) (r r1 : List Nat) (x : Nat) (s : St) (h : UAt src N r s)
    (hD : RegExpIdentifierStart r r1 x) :
    Wc (eatRegexpIdentifierStart n s) (fun b s1 => b = true ∧ UAt src N r1 s1 ∧ s1.lastIntValue = (x : Nat) ∧ Keep s s1) := by
  cases hD with
  | char _ _ hx =>
    have hne : (x == ch '\\') = false := by
      have : x ≠ ch '\\' := fun e => not_identifierStartChar_backslash (e ▸ hx)
      simpa using this
    unfold eatRegexpIdentifierStart
    rx5_step
    rx5_step
    dsimp only
    simp only [h.uFlag', Bool.not_true, Bool.false_and]
    rx5_autos
    all_goals rx5_fin
  | escape m _ _ hu hx =>
    unfold eatRegexpIdentifierStart
    rx5_step
    rx5_step
    dsimp only
    simp only [h.uFlag', Bool.not_true, Bool.false_and]
    rx5_autos
    all_goals (
      have hv := ‹(_ : St).lastIntValue = (x : Nat)›
      rw [hv, i64AsU32_small (rues_le hu)]
      rx5_autos
      rx5_fin)

theorem eatRegexpIdentifierPart_wc (n : Nat) (r r1 : List Nat) (x : Nat) (s : St) (h : UAt src N r s)
    (hD : RegExpIdentifierPart r r1 x) :
    Wc (eatRegexpIdentifierPart n s) (fun b s1 => b = true ∧ UAt src N r1 s1 ∧ s1.lastIntValue = (x : Nat) ∧ Keep s s1) := by
  cases hD with
  | char _ _ hx =>
    have hne : (some x == some (ch '\\')) = false := by
      have : x ≠ ch '\\' := fun e => not_identifierPartChar_backslash (e ▸ hx)
      simpa using this
    unfold eatRegexpIdentifierPart
    rx5_step
    rx5_step
    dsimp only
    simp only [h.uFlag', Bool.not_true, Bool.false_and]
    rx5_autos
    all_goals rx5_fin
  | escape m _ _ hu hx =>
    unfold eatRegexpIdentifierPart
    rx5_step
    rx5_step
    dsimp only
    simp only [h.uFlag', Bool.not_true, Bool.false_and]
    rx5_autos
    all_goals (
      have hv := ‹(_ : St).lastIntValue = (x : Nat)›
      rw [hv, i64AsU32_small (rues_le hu)]
      rx5_autos
      rx5_fin)

theorem not_identifierPartChar_gt : ¬IdentifierPartChar (ch '>') := by
  intro h
  have c3e : ch '>' = 0x3E := rfl
  rw [c3e] at h
  rcases h with ((((h | h) | h) | h | h | h) | h | h | h)
  · have h' : (0x61 ≤ 0x3E ∧ 0x3E ≤ 0x7a) := h; omega
  · have h' : (0x41 ≤ 0x3E ∧ 0x3E ≤ 0x5a) := h; omega
  · have := inTable_ge largeIdStart_ge h; omega
  · have h' : 0x30 ≤ 0x3E ∧ 0x3E ≤ 0x39 := h; omega
  · have h' : 0x3E = 0x5F := h; omega
  · have := inTable_ge largeIdContinue_ge h; omega
  · have h' : 0x3E = 0x24 := h; omega
  · have h' : 0x3E = 0x200C := h; omega
  · have h' : 0x3E = 0x200D := h; omega

/-- at `>` there is no further `RegExpIdentifierPart` -/
theorem eatRegexpIdentifierPart_wcn (n : Nat) (r1 : List Nat) (s : St) (h : UAt src N (ch '>' :: r1) s) :
    Wc (eatRegexpIdentifierPart n s) (fun b s1 => b = false ∧ UAt src N (ch '>' :: r1) s1 ∧ Keep s s1) := by
  have hgt := not_identifierPartChar_gt
  unfold eatRegexpIdentifierPart
  rx5_step
  rx5_step
  dsimp only
  simp only [h.uFlag', Bool.not_true, Bool.false_and]
  rx5_autos
  all_goals first
    | (rx5_fin; done)
    | (rename_i hn; exact ⟨rfl, UAt.of_index_eq (by assumption) h (by simpa using hn), by rx4_keep⟩)

end DL.Rx
