import DL.Lemmas.RxCompNE

/-! # Completeness: the `Wc` calculus (an `Err` result is excluded) -/
namespace DL.Rx

def Wc {α : Type} (r : Res α) (Q : α → St → Prop) : Prop :=
  match r with
  | .ok a s => Q a s
  | .err _ _ => False
  | _ => True

variable {src : List Nat} {N : Nat} {α β : Type}

theorem Wc.mono {r : Res α} {Q Q' : α → St → Prop} (h : Wc r Q) (hq : ∀ a s, Q a s → Q' a s) : Wc r Q' := by
  cases r <;> first | exact hq _ _ h | exact h | trivial

/-- soundness information and no-`Err` information combine -/
theorem Wc.of_wp {m : M α} {s : St} {Q : α → St → Prop} (h : Wp (m s) Q) (hne : NE m) : Wc (m s) Q := by
  cases hr : m s with
  | ok a s1 => rw [hr] at h; exact h
  | err msg s1 => exact hne s msg s1 hr
  | panic _ _ => trivial
  | outOfFuel _ => trivial

theorem Wc.and_wp {r : Res α} {P Q : α → St → Prop} (h1 : Wp r P) (h2 : Wc r Q) : Wc r (fun a s => P a s ∧ Q a s) := by
  cases r <;> first | exact ⟨h1, h2⟩ | exact h2 | trivial

theorem Wc.bind {m : M α} {g : α → M β} {s : St} {Q : β → St → Prop}
    (h : Wc (m s) (fun a s1 => Wc (g a s1) Q)) : Wc ((m >>= g) s) Q := by
  show Wc (M.bind m g s) Q
  unfold M.bind
  cases hm : m s <;> rw [hm] at h <;> first | exact h | trivial

theorem Wc.call {m : M α} {g : α → M β} {s : St} {R : α → St → Prop} {Q : β → St → Prop}
    (hf : Wc (m s) R) (k : ∀ a s1, R a s1 → Wc (g a s1) Q) : Wc ((m >>= g) s) Q :=
  Wc.bind (hf.mono k)

theorem Wc.ok {a : α} {s : St} {Q : α → St → Prop} (h : Q a s) : Wc (Res.ok a s) Q := h
theorem Wc.pure {a : α} {s : St} {Q : α → St → Prop} (h : Q a s) : Wc ((Pure.pure a : M α) s) Q := h
theorem Wc.bind_pure {a : α} {f : α → M β} {s : St} {Q : β → St → Prop} (h : Wc (f a s) Q) :
    Wc (((Pure.pure a : M α) >>= f) s) Q := h
theorem Wc.tail {m : M α} {s : St} {Q : α → St → Prop} (h : Wc ((m >>= Pure.pure) s) Q) : Wc (m s) Q := by
  rw [bind_pure'] at h; exact h
theorem Wc.bind_assoc {γ : Type} {a : M α} {f : α → M β} {g : β → M γ} {s : St} {Q : γ → St → Prop}
    (h : Wc ((a >>= fun x => f x >>= g) s) Q) : Wc (((a >>= f) >>= g) s) Q := by
  rw [bind_assoc']; exact h
theorem Wc.ite {p : Prop} [Decidable p] {a b : M α} {s : St} {Q : α → St → Prop}
    (ha : p → Wc (a s) Q) (hb : ¬p → Wc (b s) Q) : Wc ((if p then a else b) s) Q := by
  by_cases h : p
  · rw [if_pos h]; exact ha h
  · rw [if_neg h]; exact hb h
theorem Wc.bind_ite {p : Prop} [Decidable p] {a b : M α} {g : α → M β} {s : St} {Q : β → St → Prop}
    (ha : p → Wc ((a >>= g) s) Q) (hb : ¬p → Wc ((b >>= g) s) Q) : Wc (((if p then a else b) >>= g) s) Q := by
  rw [ite_bind]; exact Wc.ite ha hb
theorem Wc.bind_orM {a b : M Bool} {g : Bool → M β} {s : St} {Q : β → St → Prop}
    (h : Wc ((a >>= fun x => if x = true then g true else b >>= g) s) Q) : Wc (((a <or> b) >>= g) s) Q := by
  rw [orM_bind]; exact h
theorem Wc.bind_andM {a b : M Bool} {g : Bool → M β} {s : St} {Q : β → St → Prop}
    (h : Wc ((a >>= fun x => if x = true then b >>= g else g false) s) Q) : Wc (((a <and> b) >>= g) s) Q := by
  rw [andM_bind]; exact h
theorem Wc.bind_getSt {g : St → M β} {s : St} {Q : β → St → Prop} (h : Wc (g s s) Q) : Wc ((getSt >>= g) s) Q := h
theorem Wc.bind_modSt {f : St → St} {g : Unit → M β} {s : St} {Q : β → St → Prop} (h : Wc (g () (f s)) Q) :
    Wc ((modSt f >>= g) s) Q := h
theorem Wc.bind_setInt {v : Int} {g : Unit → M β} {s : St} {Q : β → St → Prop}
    (h : Wc (g () (s.withInt v)) Q) : Wc ((setInt v >>= g) s) Q := h
theorem Wc.bind_setStr {v : List Nat} {g : Unit → M β} {s : St} {Q : β → St → Prop}
    (h : Wc (g () (s.withStr v)) Q) : Wc ((setStr v >>= g) s) Q := h
/-- an `Err` must be shown unreachable -/
theorem Wc.bind_fail {msg : String} {g : α → M β} {s : St} {Q : β → St → Prop} (h : False) :
    Wc (((fail msg : M α) >>= g) s) Q := h.elim
theorem Wc.bind_outOfFuel {g : α → M β} {s : St} {Q : β → St → Prop} :
    Wc (((DL.Rx.outOfFuel : M α) >>= g) s) Q := trivial
theorem Wc.outOfFuel {s : St} {Q : α → St → Prop} : Wc ((DL.Rx.outOfFuel : M α) s) Q := trivial
theorem Wc.bind_rustPanic {why : String} {g : α → M β} {s : St} {Q : β → St → Prop} :
    Wc (((rustPanic why : M α) >>= g) s) Q := trivial
theorem Wc.bind_unwrap {o : Option α} {why : String} {g : α → M β} {s : St} {Q : β → St → Prop}
    (h : ∀ a, o = some a → Wc (g a s) Q) : Wc ((unwrap o why >>= g) s) Q := by
  cases o with
  | none => trivial
  | some a => exact h a rfl
theorem Wc.bind_index {g : Nat → M β} {s : St} {Q : β → St → Prop} (h : Wc (g s.reader.index s) Q) :
    Wc ((index >>= g) s) Q := h

theorem Wc.bind_cpo0 {r : List Nat} {g : Option Nat → M β} {s : St} {Q : β → St → Prop} (h : UAt src N r s)
    (hnil : r = [] → Wc (g none s) Q) (hcons : ∀ x r', r = x :: r' → Wc (g (some x) s) Q) :
    Wc ((codePointWithOffset 0 >>= g) s) Q := by
  show Wc (g (s.reader.cps[0]?) s) Q
  rw [h.cps]
  cases r with
  | nil => exact hnil rfl
  | cons x r' => exact hcons x r' rfl

theorem Wc.bind_cpo {r : List Nat} {k : Nat} {g : Option Nat → M β} {s : St} {Q : β → St → Prop} (h : UAt src N r s)
    (hk : k < 4) (hg : Wc (g r[k]? s) Q) : Wc ((codePointWithOffset k >>= g) s) Q := by
  show Wc (g (s.reader.cps[k]?) s) Q
  rw [h.cps, List.getElem?_take, if_pos hk]; exact hg

theorem Wc.bind_advance_cons {x : Nat} {r : List Nat} {g : Unit → M β} {s : St} {Q : β → St → Prop}
    (h : UAt src N (x :: r) s)
    (hg : UAt src N r (s.setPos src (s.reader.index + 1)) → Wc (g () (s.setPos src (s.reader.index + 1))) Q) :
    Wc ((advance >>= g) s) Q := by
  show Wc (M.bind advance g s) Q
  unfold M.bind
  rw [advance_eq h.inv h.lt]; exact hg h.step

theorem Wc.bind_advance_nil {g : Unit → M β} {s : St} {Q : β → St → Prop}
    (h : UAt src N [] s) (hg : Wc (g () s) Q) : Wc ((advance >>= g) s) Q := by
  show Wc (M.bind advance g s) Q
  unfold M.bind
  rw [advance_end h.inv h.eq_end]; exact hg

theorem Wc.bind_rewind {r r0 : List Nat} {g : Unit → M β} {s s0 : St} {Q : β → St → Prop}
    (h : UAt src N r s) (h0 : UAt src N r0 s0)
    (hg : UAt src N r0 (s.setPos src s0.reader.index) → Wc (g () (s.setPos src s0.reader.index)) Q) :
    Wc ((rewind s0.reader.index >>= g) s) Q := by
  show Wc (M.bind (rewind s0.reader.index) g s) Q
  unfold M.bind
  rw [rewind_eq h.inv.toRStatic]; exact hg (h.back h0)

theorem Wc.bind_rewind' {r : List Nat} {i : Nat} {g : Unit → M β} {s : St} {Q : β → St → Prop}
    (h : UAt src N r s) (hle : i ≤ src.length)
    (hg : UAt src N (src.drop i) (s.setPos src i) → Wc (g () (s.setPos src i)) Q) : Wc ((rewind i >>= g) s) Q := by
  show Wc (M.bind (rewind i) g s) Q
  unfold M.bind
  rw [rewind_eq h.inv.toRStatic]; exact hg (h.back' hle rfl)

theorem Wc.bind_eat {r : List Nat} {x : Char} {g : Bool → M β} {s : St} {Q : β → St → Prop} (h : UAt src N r s)
    (ht : ∀ r', r = ch x :: r' → UAt src N r' (s.setPos src (s.reader.index + 1)) →
      Wc (g true (s.setPos src (s.reader.index + 1))) Q)
    (hf : r.head? ≠ some (ch x) → Wc (g false s) Q) : Wc ((eat x >>= g) s) Q := by
  show Wc (M.bind (eat x) g s) Q
  unfold M.bind
  by_cases hx : r.head? = some (ch x)
  · cases r with
    | nil => cases hx
    | cons y r' =>
      have : y = ch x := by simpa using hx
      subst this
      rw [eat_cons h]; exact ht r' rfl h.step
  · rw [eat_ne h hx]; exact hf hx

theorem Wc.bind_eat_ne {r : List Nat} {x : Char} {g : Bool → M β} {s : St} {Q : β → St → Prop} (h : UAt src N r s)
    (hne : r.head? ≠ some (ch x)) (hf : Wc (g false s) Q) : Wc ((eat x >>= g) s) Q := by
  show Wc (M.bind (eat x) g s) Q
  unfold M.bind
  rw [eat_ne h hne]; exact hf

theorem Wc.bind_eat2 {r : List Nat} {x y : Char} {g : Bool → M β} {s : St} {Q : β → St → Prop} (h : UAt src N r s)
    (ht : ∀ r', r = ch x :: ch y :: r' → UAt src N r' (s.setPos src (s.reader.index + 2)) →
      Wc (g true (s.setPos src (s.reader.index + 2))) Q)
    (hf : (¬∃ r', r = ch x :: ch y :: r') → Wc (g false s) Q) : Wc ((eat2 x y >>= g) s) Q := by
  show Wc (M.bind (eat2 x y) g s) Q
  unfold M.bind
  by_cases hx : ∃ r', r = ch x :: ch y :: r'
  · obtain ⟨r', rfl⟩ := hx
    rw [eat2_cons h]; exact ht r' rfl h.step2
  · rw [eat2_ne h hx]; exact hf hx

theorem Wc.bind_eat3 {r : List Nat} {x y z : Char} {g : Bool → M β} {s : St} {Q : β → St → Prop} (h : UAt src N r s)
    (ht : ∀ r', r = ch x :: ch y :: ch z :: r' → UAt src N r' (s.setPos src (s.reader.index + 3)) →
      Wc (g true (s.setPos src (s.reader.index + 3))) Q)
    (hf : (¬∃ r', r = ch x :: ch y :: ch z :: r') → Wc (g false s) Q) : Wc ((eat3 x y z >>= g) s) Q := by
  show Wc (M.bind (eat3 x y z) g s) Q
  unfold M.bind
  by_cases hx : ∃ r', r = ch x :: ch y :: ch z :: r'
  · obtain ⟨r', rfl⟩ := hx
    rw [eat3_cons h]; exact ht r' rfl h.step3
  · rw [eat3_ne h hx]; exact hf hx

theorem Wc.bind_eat2_ne {r : List Nat} {x y : Char} {g : Bool → M β} {s : St} {Q : β → St → Prop} (h : UAt src N r s)
    (hne : ¬∃ r', r = ch x :: ch y :: r') (hf : Wc (g false s) Q) : Wc ((eat2 x y >>= g) s) Q := by
  show Wc (M.bind (eat2 x y) g s) Q
  unfold M.bind
  rw [eat2_ne h hne]; exact hf

theorem Wc.bind_eat3_ne {r : List Nat} {x y z : Char} {g : Bool → M β} {s : St} {Q : β → St → Prop} (h : UAt src N r s)
    (hne : ¬∃ r', r = ch x :: ch y :: ch z :: r') (hf : Wc (g false s) Q) : Wc ((eat3 x y z >>= g) s) Q := by
  show Wc (M.bind (eat3 x y z) g s) Q
  unfold M.bind
  rw [eat3_ne h hne]; exact hf

theorem no_eat2_nil {x y : Nat} : ¬∃ r', ([] : List Nat) = x :: y :: r' := fun ⟨_, h⟩ => by cases h
theorem no_eat2_one {a x y : Nat} : ¬∃ r', [a] = x :: y :: r' := fun ⟨_, h⟩ => by cases h
theorem no_eat2_ne1 {a x y : Nat} {m : List Nat} (h : a ≠ x) : ¬∃ r', a :: m = x :: y :: r' :=
  fun ⟨_, e⟩ => h (List.cons.inj e).1
theorem no_eat2_ne2 {a b x y : Nat} {m : List Nat} (h : b ≠ y) : ¬∃ r', a :: b :: m = x :: y :: r' :=
  fun ⟨_, e⟩ => h (List.cons.inj (List.cons.inj e).2).1
theorem no_eat2_head {r : List Nat} {x y : Nat} (h : r.head? ≠ some x) : ¬∃ r', r = x :: y :: r' :=
  fun ⟨_, e⟩ => h (by rw [e]; rfl)
theorem no_eat3_head {r : List Nat} {x y z : Nat} (h : r.head? ≠ some x) : ¬∃ r', r = x :: y :: z :: r' :=
  fun ⟨_, e⟩ => h (by rw [e]; rfl)
theorem no_eat3_ne1 {a x y z : Nat} {m : List Nat} (h : a ≠ x) : ¬∃ r', a :: m = x :: y :: z :: r' :=
  fun ⟨_, e⟩ => h (List.cons.inj e).1
theorem no_eat3_ne2 {a b x y z : Nat} {m : List Nat} (h : b ≠ y) : ¬∃ r', a :: b :: m = x :: y :: z :: r' :=
  fun ⟨_, e⟩ => h (List.cons.inj (List.cons.inj e).2).1
theorem no_eat3_ne3 {a b d x y z : Nat} {m : List Nat} (h : d ≠ z) : ¬∃ r', a :: b :: d :: m = x :: y :: z :: r' :=
  fun ⟨_, e⟩ => h (List.cons.inj (List.cons.inj (List.cons.inj e).2).2).1
theorem no_eat3_of_eat2 {r : List Nat} {x y z : Nat} (h : ¬∃ r', r = x :: y :: r') : ¬∃ r', r = x :: y :: z :: r' :=
  fun ⟨_, e⟩ => h ⟨_, e⟩

theorem Wc.bind_checkedI64 {v : Int} {site : String} {g : Int → M β} {s : St} {Q : β → St → Prop}
    (h : i64Min ≤ v ∧ v ≤ i64Max) (hg : Wc (g v s) Q) : Wc ((checkedI64 v site >>= g) s) Q := by
  rw [checkedI64_inrange h]; exact hg

end DL.Rx
