import DL.Model.Regex

/-!
# History independence of the validator: the relational logic

Two runs of the same computation from states `s`, `s'` that agree on everything except (some of) the scratch
registers.  `W : RegSet` is the set of registers already known to be equal ("definitely written since the start with
equal values"); `Ind c W m Q`: from `W`-related states the two runs of `m` have the same outcome (same constructor,
same value, same message) and, on `ok a`, end in `Q a`-related states.  `c` is the common value of the build-profile
constant `overflowChecks` (kept by every outcome).
-/
namespace DL.Rx

/-- the registers `validate_pattern` does not reset up front (`caps` = `num_capturing_parens`, `group_names`,
`backreference_names`, reset by `consume_pattern` only after `count_capturing_parens`) -/
inductive Reg where
  | int | min | max | str | key | val | aiq | caps
  deriving DecidableEq, Repr

abbrev RegSet := Reg → Bool

def RegSet.none : RegSet := fun _ => false
def ins (r : Reg) (W : RegSet) : RegSet := fun x => decide (x = r) || W x
def insIf (b : Bool) (r : Reg) (W : RegSet) : RegSet := fun x => (b && decide (x = r)) || W x
def insAll (G : List Reg) (W : RegSet) : RegSet := fun x => G.contains x || W x

/-- `s'` (second run) agrees with `s` (first run) on the reader, the mode flags, and the registers in `W` -/
structure Eqv (c : Bool) (W : RegSet) (s s' : St) : Prop where
  oc : s.overflowChecks = c
  oc' : s'.overflowChecks = c
  reader : s'.reader = s.reader
  strict : s'.strict = s.strict
  uFlag : s'.uFlag = s.uFlag
  nFlag : s'.nFlag = s.nFlag
  int : W .int = true → s'.lastIntValue = s.lastIntValue
  min : W .min = true → s'.lastMinValue = s.lastMinValue
  max : W .max = true → s'.lastMaxValue = s.lastMaxValue
  str : W .str = true → s'.lastStrValue = s.lastStrValue
  key : W .key = true → s'.lastKeyValue = s.lastKeyValue
  val : W .val = true → s'.lastValValue = s.lastValValue
  aiq : W .aiq = true → s'.lastAssertionIsQuantifiable = s.lastAssertionIsQuantifiable
  ncp : W .caps = true → s'.numCapturingParens = s.numCapturingParens
  gn : W .caps = true → s'.groupNames = s.groupNames
  bn : W .caps = true → s'.backreferenceNames = s.backreferenceNames

abbrev Sub (Q W : RegSet) : Prop := ∀ x, Q x = true → W x = true

theorem Eqv.weaken {c : Bool} {W Q : RegSet} {s s' : St} (h : Eqv c W s s') (hs : Sub Q W) : Eqv c Q s s' :=
  ⟨h.oc, h.oc', h.reader, h.strict, h.uFlag, h.nFlag, fun m => h.int (hs _ m), fun m => h.min (hs _ m),
    fun m => h.max (hs _ m), fun m => h.str (hs _ m), fun m => h.key (hs _ m), fun m => h.val (hs _ m),
    fun m => h.aiq (hs _ m), fun m => h.ncp (hs _ m), fun m => h.gn (hs _ m), fun m => h.bn (hs _ m)⟩

theorem Eqv.refl {c : Bool} (W : RegSet) (s : St) (h : s.overflowChecks = c) : Eqv c W s s :=
  ⟨h, h, rfl, rfl, rfl, rfl, fun _ => rfl, fun _ => rfl, fun _ => rfl, fun _ => rfl, fun _ => rfl, fun _ => rfl,
    fun _ => rfl, fun _ => rfl, fun _ => rfl, fun _ => rfl⟩

def Exit (c : Bool) (s s' : St) : Prop := s.overflowChecks = c ∧ s'.overflowChecks = c

def RelRes (c : Bool) {α : Type} (Q : α → RegSet) : Res α → Res α → Prop
  | .ok a s, .ok a' s' => a = a' ∧ Eqv c (Q a) s s'
  | .err m s, .err m' s' => m = m' ∧ Exit c s s'
  | .panic m s, .panic m' s' => m = m' ∧ Exit c s s'
  | .outOfFuel s, .outOfFuel s' => Exit c s s'
  | _, _ => False

def Ind (c : Bool) {α : Type} (W : RegSet) (m : M α) (Q : α → RegSet) : Prop :=
  ∀ s s', Eqv c W s s' → RelRes c Q (m s) (m s')

variable {c : Bool} {α β : Type}

/-! ### monad laws (to move a continuation into the branches) -/

theorem bind_assoc' (a : M α) (f : α → M β) {γ : Type} (g : β → M γ) :
    ((a >>= f) >>= g) = (a >>= fun x => f x >>= g) := by
  funext s
  show M.bind (M.bind a f) g s = M.bind a (fun x => M.bind (f x) g) s
  unfold M.bind
  cases a s <;> rfl

theorem pure_bind'' (a : α) (f : α → M β) : ((pure a : M α) >>= f) = f a := rfl

theorem bind_pure' (m : M α) : (m >>= pure) = m := by
  funext s
  show M.bind m M.pure s = m s
  unfold M.bind
  cases m s <;> rfl

theorem ite_bind (p : Prop) [Decidable p] (a b : M α) (g : α → M β) :
    ((if p then a else b) >>= g) = if p then a >>= g else b >>= g := by
  by_cases h : p
  · rw [if_pos h, if_pos h]
  · rw [if_neg h, if_neg h]

theorem orM_bind (a b : M Bool) (g : Bool → M β) :
    ((a <or> b) >>= g) = (a >>= fun x => if x = true then g true else b >>= g) := by
  unfold orM
  rw [bind_assoc']
  congr 1; funext x
  rw [ite_bind]; rfl

theorem andM_bind (a b : M Bool) (g : Bool → M β) :
    ((a <and> b) >>= g) = (a >>= fun x => if x = true then b >>= g else g false) := by
  unfold andM
  rw [bind_assoc']
  congr 1; funext x
  rw [ite_bind]; rfl

/-! ### rules -/

theorem Ind.pure {W : RegSet} {Q : α → RegSet} {a : α} (h : Sub (Q a) W) : Ind c W (pure a : M α) Q :=
  fun _ _ hs => ⟨rfl, hs.weaken h⟩

theorem Ind.bind {W : RegSet} {W1 : α → RegSet} {Q : β → RegSet} {m : M α} {f : α → M β}
    (hm : Ind c W m W1) (hf : ∀ a, Ind c (W1 a) (f a) Q) : Ind c W (m >>= f) Q := by
  intro s s' hs
  have h1 := hm s s' hs
  show RelRes c Q (M.bind m f s) (M.bind m f s')
  unfold M.bind
  cases h : m s <;> cases h' : m s' <;> rw [h, h'] at h1 <;> try exact h1.elim
  · obtain ⟨rfl, h2⟩ := h1; exact hf _ _ _ h2
  · exact h1
  · exact h1
  · exact h1

theorem Ind.tail {W : RegSet} {Q : α → RegSet} {m : M α} (h : Ind c W (m >>= Pure.pure) Q) : Ind c W m Q := by
  rw [bind_pure'] at h; exact h

theorem Ind.bind_pure {W : RegSet} {Q : β → RegSet} {a : α} {f : α → M β} (h : Ind c W (f a) Q) :
    Ind c W ((Pure.pure a : M α) >>= f) Q := h

theorem Ind.bind_assoc {W : RegSet} {γ : Type} {Q : γ → RegSet} {a : M α} {f : α → M β} {g : β → M γ}
    (h : Ind c W (a >>= fun x => f x >>= g) Q) : Ind c W ((a >>= f) >>= g) Q := by
  rw [bind_assoc']; exact h

theorem Ind.ite {W : RegSet} {Q : α → RegSet} {p : Prop} [Decidable p] {a b : M α}
    (ha : p → Ind c W a Q) (hb : ¬p → Ind c W b Q) : Ind c W (if p then a else b) Q := by
  by_cases h : p
  · rw [if_pos h]; exact ha h
  · rw [if_neg h]; exact hb h

theorem Ind.bind_ite {W : RegSet} {Q : β → RegSet} {p : Prop} [Decidable p] {a b : M α} {g : α → M β}
    (ha : p → Ind c W (a >>= g) Q) (hb : ¬p → Ind c W (b >>= g) Q) : Ind c W ((if p then a else b) >>= g) Q := by
  rw [ite_bind]; exact Ind.ite ha hb

theorem Ind.bind_orM {W : RegSet} {Q : β → RegSet} {a b : M Bool} {g : Bool → M β}
    (h : Ind c W (a >>= fun x => if x = true then g true else b >>= g) Q) : Ind c W ((a <or> b) >>= g) Q := by
  rw [orM_bind]; exact h

theorem Ind.bind_andM {W : RegSet} {Q : β → RegSet} {a b : M Bool} {g : Bool → M β}
    (h : Ind c W (a >>= fun x => if x = true then b >>= g else g false) Q) : Ind c W ((a <and> b) >>= g) Q := by
  rw [andM_bind]; exact h

/-- reading the state: the continuation may depend on the state only through fields on which the two runs agree -/
theorem Ind.bind_getSt {W : RegSet} {Q : β → RegSet} {g : St → M β}
    (h1 : ∀ s0 s0', Eqv c W s0 s0' → g s0' = g s0) (h2 : ∀ s0, Ind c W (g s0) Q) : Ind c W (getSt >>= g) Q := by
  intro s s' hs
  show RelRes c Q (g s s) (g s' s')
  rw [h1 s s' hs]
  exact h2 s s s' hs

theorem Ind.bind_modSt {W W' : RegSet} {Q : β → RegSet} {f : St → St} {g : Unit → M β}
    (h : ∀ s s', Eqv c W s s' → Eqv c W' (f s) (f s')) (hg : Ind c W' (g ()) Q) : Ind c W (modSt f >>= g) Q := by
  intro s s' hs
  exact hg _ _ (h s s' hs)

theorem Ind.bind_fail {W : RegSet} {Q : β → RegSet} {msg : String} {g : α → M β} :
    Ind c W ((fail msg : M α) >>= g) Q := fun _ _ hs => ⟨rfl, hs.oc, hs.oc'⟩

theorem Ind.bind_outOfFuel {W : RegSet} {Q : β → RegSet} {g : α → M β} :
    Ind c W ((outOfFuel : M α) >>= g) Q := fun _ _ hs => ⟨hs.oc, hs.oc'⟩

theorem Ind.outOfFuel {W : RegSet} {Q : α → RegSet} : Ind c W (outOfFuel : M α) Q := fun _ _ hs => ⟨hs.oc, hs.oc'⟩

theorem Ind.bind_rustPanic {W : RegSet} {Q : β → RegSet} {why : String} {g : α → M β} :
    Ind c W ((rustPanic why : M α) >>= g) Q := fun _ _ hs => ⟨rfl, hs.oc, hs.oc'⟩

theorem Ind.bind_unwrap {W : RegSet} {Q : β → RegSet} {o : Option α} {why : String} {g : α → M β}
    (h : ∀ a, o = some a → Ind c W (g a) Q) : Ind c W (unwrap o why >>= g) Q := by
  cases o with
  | none => exact Ind.bind_rustPanic
  | some a => exact h a rfl

/-- fewer registers known equal at entry is a stronger statement -/
theorem Ind.pre {W W0 : RegSet} {Q : α → RegSet} {m : M α} (h : Ind c W0 m Q) (hs : Sub W0 W) : Ind c W m Q :=
  fun s s' hss => h s s' (hss.weaken hs)

theorem Ind.post {W : RegSet} {Q Q' : α → RegSet} {m : M α} (h : Ind c W m Q) (hs : ∀ a, Sub (Q' a) (Q a)) :
    Ind c W m Q' := by
  intro s s' hss
  have h1 := h s s' hss
  cases h2 : m s <;> cases h2' : m s' <;> rw [h2, h2'] at h1 <;> try exact h1.elim
  · exact ⟨h1.1, h1.2.weaken (hs _)⟩
  · exact h1
  · exact h1
  · exact h1

end DL.Rx
