import DL.Lemmas.CFSound3

/-! Soundness invariant: labelled statements. -/
namespace DL.CF

/-- `with_child_scope(BlockKind::Label(l), ..)`: what the parent sees afterwards -/
theorem withChild_label (l : Id) (p : Nat) (op : A → A) (a : A) :
    let c := op (childA (.label l) a)
    let r := withChild (.label l) p op a
    r.info = c.info ∧ r.sc.end_ = a.sc.end_ ∧
    r.sc.foundContinue = (a.sc.foundContinue || c.sc.foundContinue) ∧
    r.sc.mayThrow = (a.sc.mayThrow || c.sc.mayThrow) ∧
    (c.sc.foundBreak = some none → r.sc.foundBreak = some none) ∧
    (a.sc.foundBreak = some none → r.sc.foundBreak = some none) := by
  simp only [withChild, withChildR, childA]
  generalize op { sc := { end_ := childEnd (.label l) a.sc.end_ }, info := a.info } = c
  have hm1 : c.sc.foundBreak = some none → mergeFb (.label l) a.sc.foundBreak c.sc.foundBreak = some none := by
    intro h; simp [mergeFb, h]
  have hm2 : a.sc.foundBreak = some none → mergeFb (.label l) a.sc.foundBreak c.sc.foundBreak = some none := by
    intro h
    by_cases hc : (c.sc.foundBreak == some none) = true
    · simp [mergeFb, hc]
    · simp [mergeFb, hc, h]
  rcases hce : c.sc.end_ with _ | e
  · exact ⟨rfl, rfl, rfl, rfl, hm1, hm2⟩
  · simp only [childExit]
    by_cases hfb : mergeFb (.label l) a.sc.foundBreak c.sc.foundBreak = some (some l)
    · have hfb' : ({ sc := mergeSc (.label l) a.sc c.sc, info := c.info } : A).sc.foundBreak = some (some l) := hfb
      rw [if_pos hfb']
      refine ⟨rfl, rfl, rfl, rfl, ?_, ?_⟩
      · intro h; rw [hm1 h] at hfb; simp at hfb
      · intro h; rw [hm2 h] at hfb; simp at hfb
    · have hfb' : ¬ ({ sc := mergeSc (.label l) a.sc c.sc, info := c.info } : A).sc.foundBreak = some (some l) := hfb
      rw [if_neg hfb']
      exact ⟨rfl, rfl, rfl, rfl, hm1, hm2⟩

theorem labeled_compl (ls : List Id) (p : Nat) (l : Id) (body : Stmt) :
    let b := body.compl (l :: ls)
    let c := Stmt.compl ls (.labeled p l body)
    c.n = (b.n || b.bl.contains l) ∧ c.b = b.b ∧ c.c = b.c ∧ c.t = b.t ∧ (c.hasCl = true → b.hasCl = true) := by
  refine ⟨by simp [Stmt.compl], by simp [Stmt.compl], by simp [Stmt.compl], by simp [Stmt.compl], ?_⟩
  intro h
  simp only [Stmt.compl] at h
  exact filter_nonempty _ _ h

theorem labeled_ok (live : Bool) (ls : List Id) (p : Nat) (l : Id) (body : Stmt) (a : A)
    (hpre : Pre live (p :: body.positions) a)
    (ih : ∀ a0, Pre live body.positions a0 → PostS live (l :: ls) body a0 (visitStmt body a0)) :
    PostS live ls (.labeled p l body) a (visitStmt (.labeled p l body) a) := by
  have hnd := List.nodup_cons.mp hpre.nodup
  have hv : visitStmt (.labeled p l body) a =
      withChild (.label l) p (fun x => sobTail body (visitStmt body x)) (flagA a p .other) := by simp [visitStmt, flagA]
  rw [hv]
  have hprec : Pre live body.positions (childA (.label l) (flagA a p .other)) :=
    childA_pre live _ _ _ hpre.hs (fun q hq => by rw [flagA_endAt]; exact hpre.fresh q (List.mem_cons_of_mem _ hq)) hnd.2
  have h1 := sob_ok live (l :: ls) body _ _ (ih _ hprec)
  obtain ⟨hi, he, hfc, hmt, hb1, hb2⟩ := withChild_label l p (fun x => sobTail body (visitStmt body x)) (flagA a p .other)
  generalize sobTail body (visitStmt body (childA (.label l) (flagA a p .other))) = c' at h1 hi hfc hmt hb1
  generalize withChild (.label l) p (fun x => sobTail body (visitStmt body x)) (flagA a p .other) = r at hi he hfc hmt hb1 hb2
  obtain ⟨hn, hcb, hcc, hct, hcl⟩ := labeled_compl ls p l body
  have hbu : ∀ q, q ∈ body.upos → q ≠ p := fun q hq e => hnd.1 (e ▸ Stmt.upos_sub body q hq)
  refine ⟨⟨?_, ?_, ?_, ?_, ?_, ?_, ?_, ?_, ?_, ?_, ?_⟩, ?_⟩
  · intro hst; rw [he] at hst; simp [hpre.hs hst]
  · intro hh; rw [hcb] at hh; exact hb1 (h1.p2 hh)
  · intro hh; rw [hcc] at hh; rw [hfc, h1.p2c hh]; simp
  · exact hb2
  · intro hh; rw [hfc]; simp only [flagA_sc, hh, Bool.true_or]
  · intro hh
    have : (live && (body.compl (l :: ls)).hasCl) = true := by
      revert hh hcl; cases live <;> cases (Stmt.compl ls (.labeled p l body)).hasCl <;> simp
    rw [hfc, h1.p2l this]; simp
  · intro q hq hu
    rw [hi] at hu
    simp only [Stmt.upos] at hq
    simp only [Stmt.reach]
    rcases List.mem_cons.mp hq with rfl | hqb
    · rw [ur_eq_of_info_eq (h1.frame q hnd.1)] at hu
      have := own_pos_dead hpre q .other _ rfl hu
      simp [this]
    · have := h1.p3 q hqb hu
      revert this; cases live <;> simp [hbu q hqb]
  · intro q hq hu
    rw [hi] at hu
    simp only [Stmt.upos] at hq
    simp only [Stmt.inner]
    rcases List.mem_cons.mp hq with rfl | hqb
    · exact body.inner_false q hnd.1
    · exact h1.p3i q hqb hu
  · intro q hq
    simp only [Stmt.positions, List.mem_cons, not_or] at hq
    rw [hi, h1.frame q hq.2]
    exact flagA_other a p .other q hq.1
  · intro hh; rw [hmt]; simp only [flagA_sc, hh, Bool.true_or]
  · intro hh; rw [hct] at hh; rw [hmt, h1.pT hh]; simp
  · intro _ hst
    simp only [Stmt.pos] at hst
    rw [hi, endAt_eq_of_info_eq (h1.frame p hnd.1)] at hst
    simp only [childA] at hst
    rw [flagA_endAt, hpre.fresh p (by simp)] at hst
    simp at hst

end DL.CF
