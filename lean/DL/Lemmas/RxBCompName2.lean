import DL.Lemmas.RxBCompName

/-! # Annex B (no `u` flag), completeness: `RegExpIdentifierName`, `GroupName` (copies of the `UAt` proofs) -/
namespace DL.Rx
open DL.RxSpec DL.Gen.Unicode

attribute [local irreducible] isScalar
variable {src : List Nat} {K : Bool × Nat}

/-- at `>` there is no further `RxSpecB.RegExpIdentifierPart` -/
theorem eatRegexpIdentifierPart_wdn (n : Nat) (r1 : List Nat) (s : St) (h : BAt src K (ch '>' :: r1) s) :
    Wc (eatRegexpIdentifierPart n s) (fun b s1 => b = false ∧ BAt src K (ch '>' :: r1) s1 ∧ Keep s s1) := by
  have hgt := not_identifierPartChar_gt
  unfold eatRegexpIdentifierPart
  rx7_step
  rx7_step
  dsimp only
  simp only [h.uFlag', Bool.not_false, Bool.true_and]
  rx7_autos
  all_goals first
    | (rx7_fin; done)
    | (rename_i hn; exact ⟨rfl, BAt.of_index_eq (by assumption) h (by simpa using hn), by rx6_keep⟩)

theorem PartsRunB.snoc {m r r' : List Nat} {xs : List Nat} {y : Nat} (h : PartsRunB m r xs) (hp : RxSpecB.RegExpIdentifierPart r r' y) :
    PartsRunB m r' (xs ++ [y]) := by
  induction h with
  | nil r => exact PartsRunB.cons _ _ _ _ _ hp (PartsRunB.nil _)
  | cons r0 m0 r1 x xs hp0 _ ih => exact PartsRunB.cons _ _ _ _ _ hp0 (ih hp)

theorem name_splitB {i r : List Nat} {nm : List Nat} (h : RxSpecB.RegExpIdentifierName i r nm) :
    ∃ m x xs, RxSpecB.RegExpIdentifierStart i m x ∧ PartsRunB m r xs ∧ nm = x :: xs := by
  induction h with
  | start _ _ hs => exact ⟨_, _, [], hs, PartsRunB.nil _, rfl⟩
  | part _ _ _ _ _ hp ih =>
    obtain ⟨m0, x0, xs, hs, hrun, rfl⟩ := ih
    exact ⟨m0, x0, xs ++ [_], hs, hrun.snoc hp, rfl⟩

theorem eatRegexpIdentifierNameLoop_wd (r1 : List Nat) : ∀ (n : Nat) (r : List Nat) (xs : List Nat) (s : St),
    BAt src K r s → PartsRunB r (ch '>' :: r1) xs →
    Wc (eatRegexpIdentifierNameLoop n s) (fun _ s1 => BAt src K (ch '>' :: r1) s1 ∧
      s1.lastStrValue = s.lastStrValue ++ xs ∧ KeepN s s1)
  | 0, _, _, _, _, _ => Wc.outOfFuel
  | n + 1, r, xs, s, h, hrun => by
    have ih := eatRegexpIdentifierNameLoop_wd r1 n
    cases hrun with
    | nil =>
      unfold eatRegexpIdentifierNameLoop
      rx7_auto
      have hk := ‹Keep s _›
      exact ⟨‹BAt src K (ch '>' :: r1) _›, by rw [hk.str, List.append_nil], hk.toN⟩
    | cons _ m _ x xs' hp hrest =>
      unfold eatRegexpIdentifierNameLoop
      rx7_auto
      rename_i s1 _ _ hv hk y hy _ s2 hat2 hstr hk2
      have hpc := identifierPartChar_char (part_valueB hp)
      rw [hv, i64AsU32_small hpc.2, hpc.1] at hy
      cases hy
      refine ⟨hat2, ?_, ⟨hk2.gn.trans hk.gn, hk2.bn.trans hk.bn⟩⟩
      rw [hstr]
      show (s1.lastStrValue ++ [x]) ++ xs' = _
      rw [hk.str, List.append_assoc]; rfl

theorem eatRegexpIdentifierName_wd (n : Nat) (r r1 : List Nat) (nm : List Nat) (s : St) (h : BAt src K r s)
    (hD : RxSpecB.RegExpIdentifierName r (ch '>' :: r1) nm) :
    Wc (eatRegexpIdentifierName n s) (fun b s1 => b = true ∧ BAt src K (ch '>' :: r1) s1 ∧ s1.lastStrValue = nm ∧
      KeepN s s1) := by
  obtain ⟨m, x, xs, hstart, hrun, rfl⟩ := name_splitB hD
  have hloop := fun s (h : BAt src K m s) => eatRegexpIdentifierNameLoop_wd (src := src) (K := K) r1 n m xs s h hrun
  unfold eatRegexpIdentifierName
  rx7_auto
  rename_i s1 _ _ hv hk y hy _ s2 hat2 hstr hk2
  have hpc := identifierPartChar_char (identifierStartChar_part (start_valueB hstart))
  rw [hv, i64AsU32_small hpc.2, hpc.1] at hy
  cases hy
  exact ⟨rfl, hat2, hstr, ⟨hk2.gn.trans hk.gn, hk2.bn.trans hk.bn⟩⟩

theorem eatGroupName_wd (n : Nat) (r r1 : List Nat) (nm : List Nat) (s : St) (h : BAt src K r s)
    (hD : RxSpecB.GroupName r r1 nm) :
    Wc (eatGroupName n s) (fun b s1 => b = true ∧ BAt src K r1 s1 ∧ s1.lastStrValue = nm ∧ KeepN s s1) := by
  obtain ⟨m, rfl, hname⟩ := hD
  unfold eatGroupName
  rx7_auto
  rx7_fin

theorem eatGroupName_wdn (n : Nat) (r : List Nat) (s : St) (h : BAt src K r s) (hn : r.head? ≠ some (ch '<')) :
    Wc (eatGroupName n s) (fun b s1 => b = false ∧ s1 = s) := by
  unfold eatGroupName
  rx7_auto
  exact ⟨rfl, rfl⟩

end DL.Rx
