import DL.Lemmas.RxCompRec3

/-! # Completeness: the recursive productions (the induction) -/
namespace DL.Rx
open DL.RxSpec DL.Gen.Unicode

attribute [local irreducible] isScalar
variable {src : List Nat} {N : Nat}

/-- the four lookaround assertions -/
macro "lookaround_proof" : tactic => `(tactic| (
  intro n s hat hnd
  cases n with
  | zero => exact Wc.outOfFuel
  | succ n =>
    unfold consumeAssertion
    rx5_autos
    exact ⟨rfl, by rx4_at, by rx5_track⟩))

theorem lookahead_wc {m r : List Nat} {a : Attr}
    (hdj' : ∀ n s, UAt src N m s → ND s.groupNames a →
      Wc (consumeDisjunction n s) (fun _ s1 => UAt src N (ch ')' :: r) s1 ∧ TrackC s s1 a)) :
    PA src N (ch '(' :: ch '?' :: ch '=' :: m) r a := by
  lookaround_proof

theorem negativeLookahead_wc {m r : List Nat} {a : Attr}
    (hdj' : ∀ n s, UAt src N m s → ND s.groupNames a →
      Wc (consumeDisjunction n s) (fun _ s1 => UAt src N (ch ')' :: r) s1 ∧ TrackC s s1 a)) :
    PA src N (ch '(' :: ch '?' :: ch '!' :: m) r a := by
  lookaround_proof

theorem lookbehind_wc {m r : List Nat} {a : Attr}
    (hdj' : ∀ n s, UAt src N m s → ND s.groupNames a →
      Wc (consumeDisjunction n s) (fun _ s1 => UAt src N (ch ')' :: r) s1 ∧ TrackC s s1 a)) :
    PA src N (ch '(' :: ch '?' :: ch '<' :: ch '=' :: m) r a := by
  lookaround_proof

theorem negativeLookbehind_wc {m r : List Nat} {a : Attr}
    (hdj' : ∀ n s, UAt src N m s → ND s.groupNames a →
      Wc (consumeDisjunction n s) (fun _ s1 => UAt src N (ch ')' :: r) s1 ∧ TrackC s s1 a)) :
    PA src N (ch '(' :: ch '?' :: ch '<' :: ch '!' :: m) r a := by
  lookaround_proof

/-- the assertions without a body -/
macro "simple_assertion_proof" : tactic => `(tactic| (
  intro n s hat hnd
  cases n with
  | zero => exact Wc.outOfFuel
  | succ n =>
    unfold consumeAssertion
    rx5_autos
    exact ⟨rfl, by rx4_at, TrackC.ofKeepN ⟨rfl, rfl⟩⟩))

theorem caret_wc {r : List Nat} : PA src N (ch '^' :: r) r Attr.nil := by simple_assertion_proof
theorem dollar_wc {r : List Nat} : PA src N (ch '$' :: r) r Attr.nil := by simple_assertion_proof
theorem wordBoundary_wc {r : List Nat} : PA src N (ch '\\' :: ch 'b' :: r) r Attr.nil := by simple_assertion_proof
theorem notWordBoundary_wc {r : List Nat} : PA src N (ch '\\' :: ch 'B' :: r) r Attr.nil := by simple_assertion_proof

def Motive (src : List Nat) (N : Nat) : Sym → List Nat → List Nat → Attr → Prop
  | .Disjunction => PD src N
  | .Alternative => TermsP (N := N) (PT src N)
  | .Term => PT src N
  | .Assertion => PA src N
  | .Atom => PAt src N

theorem syn_head {y : Nat} {m : List Nat} (h : SyntaxCharacter y) : ∀ x, (y :: m).head? = some x → SyntaxCharacter x := by
  intro x hx; cases hx; exact h

end DL.Rx
