import DL.Lemmas.RxBCompClass

/-! # Annex B (no `u` flag), completeness: class atoms, class ranges, `CharacterClass` -/
namespace DL.Rx
open DL.RxSpec DL.Gen.Unicode

attribute [local irreducible] isScalar
variable {src : List Nat} {K : Bool × Nat}

/-- `\c` followed neither by a letter nor by a digit or `_` is no `ClassEscape` -/
theorem consumeClassEscape_wdn (n : Nat) (m : List Nat) (s : St) (h : BAt src K (ch 'c' :: m) s)
    (hn : ∀ l, m.head? = some l → ¬RxSpecB.ClassControlLetter l ∧ ¬ControlLetter l) :
    Wc (consumeClassEscape n s) (fun b s1 => b = false ∧ BAt src K (ch 'c' :: m) s1 ∧ KeepN s s1) := by
  have hcc : (some (ch 'c') == some (ch 'c')) = true := by decide
  have hfree : CceFreeB (ch 'c' :: m) := ⟨head_ne_of_ne (by decide) _, head_ne_of_ne (by decide) _,
    head_ne_of_ne (by decide) _, head_ne_of_ne (by decide) _, head_ne_of_ne (by decide) _, head_ne_of_ne (by decide) _⟩
  have hce := fun s h => consumeCharacterEscape_wdn (src := src) (K := K) n m s h (fun l hl => (hn l hl).2)
  unfold consumeClassEscape
  rcases m with _ | ⟨l, m'⟩
  all_goals rx7_autos
  all_goals first
    | exact ⟨by assumption, ‹BAt src K _ _›, Keep.toN ‹Keep _ _›⟩
    | (-- the digit / `_` branch is excluded
       have hd' := ‹(ch 'c' :: _ :: _)[1]? = some _›
       have e : _ = _ := Option.some.inj hd'
       subst e
       have hbad := ‹(isAsciiDigit _ || _ == ch '_') = true›
       exfalso
       refine (hn _ rfl).1 ?_
       rcases (Bool.or_eq_true _ _).mp hbad with h1 | h1
       · exact .inl (decimalDigit_of_isAsciiDigit h1)
       · exact .inr (by simpa using h1))
    | (have hd' := ‹(ch 'c' :: _ :: _)[1]? = none›; cases hd')

theorem consumeClassAtom_wd (n : Nat) (r r1 : List Nat) (v : Option Nat) (s : St) (h : BAt src K r s)
    (hD : RxSpecB.ClassAtom K.1 r r1 v) :
    Wc (consumeClassAtom n s) (fun b s1 => b = true ∧ BAt src K r1 s1 ∧ IntIs s1 v ∧ KeepN s s1) := by
  cases hD with
  | dash _ =>
    unfold consumeClassAtom
    rx7_autos
    all_goals (
      refine ⟨by first | rfl | assumption, by rx6_at, ?_, by first | rx6_keep | exact Keep.toN ‹_›⟩
      first | rfl | (show _ = _; assumption))
  | noDash _ _ _ hnd =>
    cases hnd with
    | char x _ hsc h1 h2 h3 =>
      have hb : (x != ch '\\' && x != ch ']') = true := by
        have e1 : (x != ch '\\') = true := by simpa using h1
        have e2 : (x != ch ']') = true := by simpa using h2
        rw [e1, e2]; rfl
      unfold consumeClassAtom
      rx7_autos
      all_goals (
        refine ⟨by first | rfl | assumption, by rx6_at, ?_, by first | rx6_keep | exact Keep.toN ‹_›⟩
        first | rfl | (show _ = _; assumption))
    | escape m _ _ he =>
      unfold consumeClassAtom
      rx7_autos
      exact ⟨rfl, ‹BAt src K r1 _›, ‹IntIs _ v›, by rx6_keep⟩
    | backslashC m hno =>
      have hce := fun s h => consumeClassEscape_wdn (src := src) (K := K) n m s h hno
      unfold consumeClassAtom
      rx7_autos
      · rename_i hn _
        have hat := ‹BAt src K (ch 'c' :: m) _›
        exfalso; apply hn
        rw [hat.strict']; rfl
      · class_leaf

/-- at `]` there is no `RxSpecB.ClassAtom K.1` -/
theorem consumeClassAtom_wdn (n : Nat) (r1 : List Nat) (s : St) (h : BAt src K (ch ']' :: r1) s) :
    Wc (consumeClassAtom n s) (fun b s1 => b = false ∧ s1 = s) := by
  unfold consumeClassAtom
  rx7_autos
  exact ⟨rfl, rfl⟩

theorem classAtomNoDash_headB {nf : Bool} {i r : List Nat} {v : Option Nat} (h : RxSpecB.ClassAtomNoDash nf i r v) : i.head? ≠ some (c '-') := by
  cases h with
  | char x _ _ _ _ h3 => exact head_ne_of_ne h3 _
  | escape m _ _ _ => exact head_ne_of_ne (by decide) _
  | backslashC m _ => exact head_ne_of_ne (by decide) _

/-- the flat view of a `ClassRanges` that ends at `]`: what one run of the loop sees -/
theorem cr_itemsB {nf : Bool} {sym : CRSym} {i r : List Nat} (h : RxSpecB.CR nf sym i r) (r1 : List Nat) (he : r = c ']' :: r1) :
    match sym with
    | .ClassRanges => ∃ b, ItemsB nf b i r
    | .NonemptyClassRanges => ItemsB nf true i r
    | .NonemptyClassRangesNoDash => ∀ i0 v0, RxSpecB.ClassAtom nf i0 i v0 → ItemsB nf true i0 r := by
  have hend : r.head? ≠ some (c '-') := by rw [he]; exact head_ne_of_ne (by decide) _
  induction h with
  | empty r => exact ⟨false, ItemsB.nil r⟩
  | nonempty i r _ ih => exact ⟨true, ih he hend⟩
  | atom i r v ha => exact ItemsB.atom false i r r v ha hend (ItemsB.nil r)
  | atomMore i m r v ha _ ih => exact ih he hend i v ha
  | range i m₁ m₂ r a b ha hb hok _ ih =>
    obtain ⟨b', hit⟩ := ih he hend
    exact ItemsB.range b' i m₁ m₂ r a b ha hb hok hit
  | ndAtom i r v ha =>
    intro i0 v0 ha0
    cases ha with
    | dash _ => exact ItemsB.trailing i0 r v0 ha0
    | noDash _ _ _ hnd =>
      exact ItemsB.atom true i0 i r v0 ha0 (classAtomNoDash_headB hnd)
        (ItemsB.atom false i r r v (RxSpecB.ClassAtom.noDash _ _ _ hnd) hend (ItemsB.nil r))
  | ndAtomMore i m r v hnd _ ih =>
    intro i0 v0 ha0
    exact ItemsB.atom true i0 i r v0 ha0 (classAtomNoDash_headB hnd) (ih he hend i v (RxSpecB.ClassAtom.noDash _ _ _ hnd))
  | ndRange i m₁ m₂ r a b hnd hb hok _ ih =>
    intro i0 v0 ha0
    obtain ⟨b', hit⟩ := ih he hend
    exact ItemsB.atom true i0 i r v0 ha0 (classAtomNoDash_headB hnd)
      (ItemsB.range b' i m₁ m₂ r a b (RxSpecB.ClassAtom.noDash _ _ _ hnd) hb hok hit)

theorem rangeOkB_lt {sa sb : St} {x y : Option Nat} (hok : RxSpecB.RangeOk x y) (hx : IntIs sa x) (hy : IntIs sb y)
    (h1 : ¬(sa.lastIntValue == -1 || sb.lastIntValue == -1) = true) : ¬sa.lastIntValue > sb.lastIntValue := by
  simp only [Bool.or_eq_true, beq_iff_eq, not_or] at h1
  cases x with
  | none => exact (h1.1 hx).elim
  | some a =>
    cases y with
    | none => exact (h1.2 hy).elim
    | some b =>
      have ha : sa.lastIntValue = (a : Nat) := hx
      have hb : sb.lastIntValue = (b : Nat) := hy
      have := hok a b rfl rfl
      rw [ha, hb]; omega

theorem consumeClassRanges_wd (r1 : List Nat) : ∀ (n : Nat) (b : Bool) (r : List Nat) (s : St), BAt src K r s →
    ItemsB K.1 b r (ch ']' :: r1) →
    Wc (consumeClassRanges n s) (fun _ s1 => BAt src K (ch ']' :: r1) s1 ∧ KeepN s s1)
  | 0, _, _, _, _, _ => Wc.outOfFuel
  | n + 1, b, r, s, h, hit => by
    have ih := consumeClassRanges_wd r1 n
    cases hit with
    | nil =>
      unfold consumeClassRanges
      rx7_autos
      all_goals first
        | exact ⟨by rx6_at, by rx6_keep⟩
        | exact absurd ‹_ > _› (rangeOkB_lt ‹RxSpecB.RangeOk _ _› ‹IntIs _ _› ‹IntIs _ _› ‹¬(_ || _) = true›)
    | atom b' _ m _ v ha hne hrest =>
      unfold consumeClassRanges
      rx7_autos
      all_goals first
        | exact ⟨by rx6_at, by rx6_keep⟩
        | exact absurd ‹_ > _› (rangeOkB_lt ‹RxSpecB.RangeOk _ _› ‹IntIs _ _› ‹IntIs _ _› ‹¬(_ || _) = true›)
    | range b' _ m₁ m₂ _ x y ha hb hok hrest =>
      unfold consumeClassRanges
      rx7_autos
      all_goals first
        | exact ⟨by rx6_at, by rx6_keep⟩
        | exact absurd ‹_ > _› (rangeOkB_lt ‹RxSpecB.RangeOk _ _› ‹IntIs _ _› ‹IntIs _ _› ‹¬(_ || _) = true›)
    | trailing _ _ v ha =>
      unfold consumeClassRanges
      rx7_autos
      all_goals first
        | exact ⟨by rx6_at, by rx6_keep⟩
        | exact absurd ‹_ > _› (rangeOkB_lt ‹RxSpecB.RangeOk _ _› ‹IntIs _ _› ‹IntIs _ _› ‹¬(_ || _) = true›)

theorem consumeCharacterClass_wd (n : Nat) (r r1 : List Nat) (s : St) (h : BAt src K r s)
    (hD : RxSpecB.CharacterClass K.1 r r1) :
    Wc (consumeCharacterClass n s) (fun b s1 => b = true ∧ BAt src K r1 s1 ∧ KeepN s s1) := by
  cases hD with
  | pos m _ hne hcr =>
    obtain ⟨b, hit⟩ := cr_itemsB hcr r1 rfl
    have hloop := fun s (h : BAt src K m s) => consumeClassRanges_wd (src := src) (K := K) r1 n b m s h hit
    unfold consumeCharacterClass
    rx7_autos
    rx7_fin
  | neg m _ hcr =>
    obtain ⟨b, hit⟩ := cr_itemsB hcr r1 rfl
    have hloop := fun s (h : BAt src K m s) => consumeClassRanges_wd (src := src) (K := K) r1 n b m s h hit
    unfold consumeCharacterClass
    rx7_autos
    rx7_fin

theorem consumeCharacterClass_wdn (n : Nat) (r : List Nat) (s : St) (h : BAt src K r s) (hn : r.head? ≠ some (ch '[')) :
    Wc (consumeCharacterClass n s) (fun b s1 => b = false ∧ s1 = s) := by
  unfold consumeCharacterClass
  rx7_autos
  exact ⟨rfl, rfl⟩

end DL.Rx
