import DL.Lemmas.CFSound

/-! Soundness invariant, composite statements: `visit_stmt_or_block`, statement lists, blocks, `if`. -/
namespace DL.CF

/-- `visit_stmt_or_block` keeps the invariant (it marks `break`/`continue` statements with `End::Break`) -/
theorem sob_ok (live : Bool) (s : Stmt) (a a1 : A) (h : PostS live s a a1) : PostS live s a (sobTail s a1) := by
  unfold sobTail
  by_cases hb : s.isBreakOrContinue = true
  · simp only [hb, if_true]
    have hn : (s.compl []).n = false := by
      cases s <;> simp [Stmt.isBreakOrContinue] at hb <;> rename_i p l <;> cases l <;> simp [Stmt.compl]
    refine ⟨⟨?_, ?_, ?_, ?_, ?_, ?_, ?_, ?_⟩, ?_⟩
    · intro _; simp [hn]
    · intro hh; rw [markAsEnd_foundBreak]; exact h.p2 hh
    · intro hh; rw [markAsEnd_foundContinue]; exact h.p2c hh
    · intro hh; rw [markAsEnd_foundBreak]; exact h.monoB hh
    · intro hh; rw [markAsEnd_foundContinue]; exact h.monoC hh
    · unfold FB; rw [markAsEnd_foundBreak]; exact h.fb
    · intro q hq hu; rw [markAsEnd_ur] at hu; exact h.p3 q hq hu
    · intro q hq
      have : q ≠ s.pos := fun e => hq (e ▸ s.pos_mem)
      rw [markAsEnd_info_other _ _ _ _ this]; exact h.frame q hq
    · intro _; simp [hn]
  · simp only [hb, Bool.false_eq_true, if_false]; exact h

/-- sequencing two parts: `x` then (when `x` completes normally) `y` -/
theorem seq_ok (live : Bool) (ps qs : List Nat) (cx cy : Compl) (rx ry : Nat → Bool) (a a1 a2 : A)
    (hx : PostL live ps cx rx a a1) (hy : PostL (live && cx.n) qs cy ry a1 a2)
    (hdisj : ∀ p, p ∈ ps → p ∈ qs → False)
    (hrx : ∀ p, p ∉ ps → rx p = false) (hry : ∀ p, p ∉ qs → ry p = false) :
    PostL live (ps ++ qs) (cx.seq cy) (fun p => rx p || (cx.n && ry p)) a a2 := by
  refine ⟨?_, ?_, ?_, ?_, ?_, ?_, ?_, ?_⟩
  · intro hst; have := hy.p1 hst; simp only [seq_n]; revert this; cases live <;> cases cx.n <;> simp
  · intro hb
    simp only [seq_b] at hb
    cases hxb : (live && cx.b) with
    | true => exact hy.monoB (hx.p2 hxb)
    | false =>
      apply hy.p2
      revert hb hxb; cases live <;> cases cx.b <;> cases cx.n <;> simp
  · intro hc
    simp only [seq_c] at hc
    cases hxc : (live && cx.c) with
    | true => exact hy.monoC (hx.p2c hxc)
    | false =>
      apply hy.p2c
      revert hc hxc; cases live <;> cases cx.c <;> cases cx.n <;> simp
  · intro hb; exact hy.monoB (hx.monoB hb)
  · intro hc; exact hy.monoC (hx.monoC hc)
  · exact hy.fb
  · intro p hp hu
    rcases List.mem_append.mp hp with hps | hpq
    · have hnq : p ∉ qs := fun hq => hdisj p hps hq
      rw [ur_eq_of_info_eq (hy.frame p hnq)] at hu
      have := hx.p3 p hps hu
      simp only [hry p hnq, Bool.and_false, Bool.or_false]; exact this
    · have hnp : p ∉ ps := fun hp' => hdisj p hp' hpq
      have := hy.p3 p hpq hu
      simp only [hrx p hnp, Bool.false_or]
      revert this; cases live <;> cases cx.n <;> simp
  · intro q hq
    rw [hy.frame q (fun h => hq (List.mem_append.mpr (Or.inr h))), hx.frame q (fun h => hq (List.mem_append.mpr (Or.inl h)))]

end DL.CF

namespace DL.CF

mutual
theorem Stmt.reach_mem : ∀ (s : Stmt) (p : Nat), s.inF = true → s.reach p = true → p ∈ s.positions
  | .simple q t kids, p, hf, h => by
    simp only [Stmt.inF] at hf
    simp only [Stmt.reach, Kids.flowReach_flat kids p hf, Bool.or_false, beq_iff_eq] at h
    simp [Stmt.positions, h]
  | .block q b, p, hf, h => by
    simp only [Stmt.inF] at hf
    simp only [Stmt.reach, Bool.or_eq_true, beq_iff_eq] at h
    rcases h with h | h
    · simp [Stmt.positions, h]
    · simp [Stmt.positions, Stmts.reach_mem b p hf h]
  | .ifS q t c none, p, hf, h => by
    simp only [Stmt.inF, Bool.and_eq_true] at hf
    simp only [Stmt.reach, Bool.or_eq_true, beq_iff_eq, Bool.and_eq_true] at h
    rcases h with h | ⟨_, h⟩
    · simp [Stmt.positions, h]
    · simp [Stmt.positions, Stmt.reach_mem c p hf.2 h]
  | .ifS q t c (some al), p, hf, h => by
    simp only [Stmt.inF, Bool.and_eq_true] at hf
    simp only [Stmt.reach, Bool.or_eq_true, beq_iff_eq, Bool.and_eq_true] at h
    rcases h with h | ⟨_, h | h⟩
    · simp [Stmt.positions, h]
    · simp [Stmt.positions, Stmt.reach_mem c p hf.1.2 h]
    · simp [Stmt.positions, Stmt.reach_mem al p hf.2 h]
  | .whileS q t tt b, p, hf, h => by
    simp only [Stmt.inF, Bool.and_eq_true] at hf
    simp only [Stmt.reach, Bool.or_eq_true, beq_iff_eq] at h
    rcases h with h | h
    · simp [Stmt.positions, h]
    · simp [Stmt.positions, Stmt.reach_mem b p hf.2 h]
  | .doWhileS q b t tt, p, hf, h => by
    simp only [Stmt.inF, Bool.and_eq_true] at hf
    simp only [Stmt.reach, Bool.or_eq_true, beq_iff_eq] at h
    rcases h with h | h
    · simp [Stmt.positions, h]
    · simp [Stmt.positions, Stmt.reach_mem b p hf.2 h]
  | .forS q i u t ht tt b, p, hf, h => by
    simp only [Stmt.inF, Bool.and_eq_true] at hf
    simp only [Stmt.reach, Bool.or_eq_true, beq_iff_eq] at h
    rcases h with h | h
    · simp [Stmt.positions, h]
    · simp [Stmt.positions, Stmt.reach_mem b p hf.2 h]
  | .forInOf q l r b, p, hf, h => by
    simp only [Stmt.inF, Bool.and_eq_true] at hf
    simp only [Stmt.reach, Bool.or_eq_true, beq_iff_eq] at h
    rcases h with h | h
    · simp [Stmt.positions, h]
    · simp [Stmt.positions, Stmt.reach_mem b p hf.2 h]
  | .brk q l, p, _, h => by simp only [Stmt.reach, beq_iff_eq] at h; simp [Stmt.positions, h]
  | .cont q l, p, _, h => by simp only [Stmt.reach, beq_iff_eq] at h; simp [Stmt.positions, h]
  | .ret q a, p, _, h => by simp only [Stmt.reach, beq_iff_eq] at h; simp [Stmt.positions, h]
  | .throw q a, p, _, h => by simp only [Stmt.reach, beq_iff_eq] at h; simp [Stmt.positions, h]
  | .switchS .., _, hf, _ => by simp [Stmt.inF] at hf
  | .tryS .., _, hf, _ => by simp [Stmt.inF] at hf
  | .labeled .., _, hf, _ => by simp [Stmt.inF] at hf
theorem Stmts.reach_mem : ∀ (l : Stmts) (p : Nat), l.inF = true → l.reach p = true → p ∈ l.positions
  | .nil, p, _, h => by simp [Stmts.reach] at h
  | .cons s r, p, hf, h => by
    simp only [Stmts.inF, Bool.and_eq_true] at hf
    simp only [Stmts.reach, Bool.or_eq_true, Bool.and_eq_true] at h
    rcases h with h | ⟨_, h⟩
    · simp [Stmts.positions, Stmt.reach_mem s p hf.1 h]
    · simp [Stmts.positions, Stmts.reach_mem r p hf.2 h]
end

theorem Stmt.reach_false (s : Stmt) (p : Nat) (hf : s.inF = true) (h : p ∉ s.positions) : s.reach p = false := by
  cases hr : s.reach p with
  | false => rfl
  | true => exact absurd (s.reach_mem p hf hr) h
theorem Stmts.reach_false (l : Stmts) (p : Nat) (hf : l.inF = true) (h : p ∉ l.positions) : l.reach p = false := by
  cases hr : l.reach p with
  | false => rfl
  | true => exact absurd (l.reach_mem p hf hr) h

end DL.CF
