import DL.Lemmas.CFSound

/-! Soundness invariant, composite statements: `visit_stmt_or_block`, statement lists, blocks, `if`. -/
namespace DL.CF

/-- `visit_stmt_or_block` keeps the invariant (it marks `break`/`continue` statements with `End::Break`) -/
theorem sob_ok (live : Bool) (ls : List Id) (s : Stmt) (a a1 : A) (h : PostS live ls s a a1) : PostS live ls s a (sobTail s a1) := by
  unfold sobTail
  by_cases hb : s.isBreakOrContinue = true
  · simp only [hb, if_true]
    have hn : (s.compl ls).n = false := by
      cases s <;> simp [Stmt.isBreakOrContinue] at hb <;> rename_i p l <;> cases l <;> simp [Stmt.compl]
    refine ⟨⟨?_, ?_, ?_, ?_, ?_, ?_, ?_, ?_, ?_, ?_, ?_⟩, ?_⟩
    · intro _; simp [hn]
    · intro hh; rw [markAsEnd_foundBreak]; exact h.p2 hh
    · intro hh; rw [markAsEnd_foundContinue]; exact h.p2c hh
    · intro hh; rw [markAsEnd_foundBreak]; exact h.monoB hh
    · intro hh; rw [markAsEnd_foundContinue]; exact h.monoC hh
    · intro hh; rw [markAsEnd_foundContinue]; exact h.p2l hh
    · intro q hq hu; rw [markAsEnd_ur] at hu; exact h.p3 q hq hu
    · intro q hq hu; rw [markAsEnd_ur] at hu; exact h.p3i q hq hu
    · intro q hq
      have : q ≠ s.pos := fun e => hq (e ▸ s.pos_mem)
      rw [markAsEnd_info_other _ _ _ _ this]; exact h.frame q hq
    · intro hh; rw [markAsEnd_mayThrow]; exact h.monoT hh
    · intro hh; rw [markAsEnd_mayThrow]; exact h.pT hh
    · intro _ _; simp [hn]
  · simp only [hb, Bool.false_eq_true, if_false]; exact h

/-- sequencing two parts: `x` then (when `x` completes normally) `y` -/
theorem seq_ok (live : Bool) (us vs ps qs : List Nat) (cx cy : Compl) (rx ry ix iy : Nat → Bool) (a a1 a2 : A)
    (hx : PostL live us ps cx rx ix a a1) (hy : PostL (live && cx.n) vs qs cy ry iy a1 a2)
    (hdisj : ∀ p, p ∈ ps → p ∈ qs → False)
    (hus : ∀ p, p ∈ us → p ∈ ps) (hvs : ∀ p, p ∈ vs → p ∈ qs)
    (hrx : ∀ p, p ∉ ps → rx p = false) (hry : ∀ p, p ∉ qs → ry p = false)
    (hix : ∀ p, p ∉ ps → ix p = false) (hiy : ∀ p, p ∉ qs → iy p = false) :
    PostL live (us ++ vs) (ps ++ qs) (cx.seq cy) (fun p => rx p || (cx.n && ry p)) (fun p => ix p || iy p) a a2 := by
  refine ⟨?_, ?_, ?_, ?_, ?_, ?_, ?_, ?_, ?_, ?_, ?_⟩
  · intro hst; have := hy.p1 hst; simp only [seq_n]; revert this; cases live <;> cases cx.n <;> simp
  · intro hb
    simp only [seq_b] at hb
    cases hxb : (live && cx.b) with
    | true => exact hy.monoB (hx.p2 hxb)
    | false =>
      apply hy.p2
      revert hb hxb; cases live <;> cases cx.b <;> cases cx.n <;> simp
  · intro hc
    simp only [seq_c] at hc
    cases hxc : (live && cx.c) with
    | true => exact hy.monoC (hx.p2c hxc)
    | false =>
      apply hy.p2c
      revert hc hxc; cases live <;> cases cx.c <;> cases cx.n <;> simp
  · intro hb; exact hy.monoB (hx.monoB hb)
  · intro hc; exact hy.monoC (hx.monoC hc)
  · intro hc
    simp only [seq_hasCl] at hc
    cases hxc : (live && cx.hasCl) with
    | true => exact hy.monoC (hx.p2l hxc)
    | false =>
      apply hy.p2l
      revert hc hxc; cases live <;> cases cx.hasCl <;> cases cx.n <;> simp
  · intro p hp hu
    rcases List.mem_append.mp hp with hps | hpq
    · have hnq : p ∉ qs := fun hq => hdisj p (hus p hps) hq
      rw [ur_eq_of_info_eq (hy.frame p hnq)] at hu
      have := hx.p3 p hps hu
      simp only [hry p hnq, Bool.and_false, Bool.or_false]; exact this
    · have hnp : p ∉ ps := fun hp' => hdisj p hp' (hvs p hpq)
      have := hy.p3 p hpq hu
      simp only [hrx p hnp, Bool.false_or]
      revert this; cases live <;> cases cx.n <;> simp
  · intro p hp hu
    rcases List.mem_append.mp hp with hps | hpq
    · have hnq : p ∉ qs := fun hq => hdisj p (hus p hps) hq
      rw [ur_eq_of_info_eq (hy.frame p hnq)] at hu
      simp [hx.p3i p hps hu, hiy p hnq]
    · have hnp : p ∉ ps := fun hp' => hdisj p hp' (hvs p hpq)
      simp [hy.p3i p hpq hu, hix p hnp]
  · intro q hq
    rw [hy.frame q (fun h => hq (List.mem_append.mpr (Or.inr h))), hx.frame q (fun h => hq (List.mem_append.mpr (Or.inl h)))]
  · intro hc; exact hy.monoT (hx.monoT hc)
  · intro hc
    simp only [seq_t] at hc
    cases hxc : (live && cx.t) with
    | true => exact hy.monoT (hx.pT hxc)
    | false =>
      apply hy.pT
      revert hc hxc; cases live <;> cases cx.t <;> cases cx.n <;> simp

end DL.CF
