import DL.Lemmas.RxSpecEsc1

/-! # Soundness w.r.t. the grammar: hexadecimal digit runs -/
namespace DL.Rx
open DL.RxSpec

theorem isScalar_ascii' : ∀ x, x < 0x80 → isScalar x = true := isScalar_ascii

attribute [local irreducible] isScalar
variable {src : List Nat} {N : Nat}

theorem hexDigit_of_isAsciiHexdigit {x : Nat} (h : isAsciiHexdigit x = true) : HexDigit x := by
  unfold isAsciiHexdigit at h
  by_cases hs : isScalar x = true
  · rw [if_pos hs] at h
    have h' : (0x30 ≤ x ∧ x ≤ 0x39) ∨ (0x41 ≤ x ∧ x ≤ 0x46) ∨ (0x61 ≤ x ∧ x ≤ 0x66) := of_decide_eq_true h
    show (0x30 ≤ x ∧ x ≤ 0x39) ∨ (0x61 ≤ x ∧ x ≤ 0x66) ∨ (0x41 ≤ x ∧ x ≤ 0x46)
    omega
  · rw [if_neg hs] at h; cases h

theorem isAsciiHexdigit_of_hexDigit {x : Nat} (h : HexDigit x) : isAsciiHexdigit x = true := by
  have h' : (0x30 ≤ x ∧ x ≤ 0x39) ∨ (0x61 ≤ x ∧ x ≤ 0x66) ∨ (0x41 ≤ x ∧ x ≤ 0x46) := h
  unfold isAsciiHexdigit
  rw [if_pos (isScalar_ascii' x (by omega))]
  exact decide_eq_true (by omega)

theorem toDigit16_eq {x : Nat} (h : isAsciiHexdigit x = true) : toDigit x 16 = some (hexVal x) := by
  have hd : (0x30 ≤ x ∧ x ≤ 0x39) ∨ (0x61 ≤ x ∧ x ≤ 0x66) ∨ (0x41 ≤ x ∧ x ≤ 0x46) := hexDigit_of_isAsciiHexdigit h
  unfold isAsciiHexdigit at h
  unfold toDigit
  by_cases hs : isScalar x = true
  · rw [if_pos hs]
    unfold charToDigit hexVal
    by_cases h1 : 0x30 ≤ x ∧ x ≤ 0x39
    · rw [if_pos h1]; dsimp only; rw [if_pos (by omega), if_pos (show x ≤ c '9' from h1.2)]; rfl
    · rw [if_neg h1]
      by_cases h2 : 0x61 ≤ x ∧ x ≤ 0x7a
      · rw [if_pos h2]; dsimp only
        rw [if_pos (by omega), if_neg (show ¬x ≤ c '9' by show ¬x ≤ 0x39; omega),
          if_neg (show ¬x ≤ c 'F' by show ¬x ≤ 0x46; omega)]
        rfl
      · rw [if_neg h2]
        have h3 : 0x41 ≤ x ∧ x ≤ 0x5a := by omega
        rw [if_pos h3]; dsimp only
        rw [if_pos (by omega), if_neg (show ¬x ≤ c '9' by show ¬x ≤ 0x39; omega),
          if_pos (show x ≤ c 'F' by show x ≤ 0x46; omega)]
        rfl
  · rw [if_neg hs] at h; cases h

theorem hexVal_lt {x : Nat} (h : HexDigit x) : hexVal x < 16 := by
  have h' : (0x30 ≤ x ∧ x ≤ 0x39) ∨ (0x61 ≤ x ∧ x ≤ 0x66) ∨ (0x41 ≤ x ∧ x ≤ 0x46) := h
  unfold hexVal
  show (if x ≤ 0x39 then x - 0x30 else if x ≤ 0x46 then x - 0x41 + 10 else x - 0x61 + 10) < 16
  split
  · omega
  · split <;> omega

/-- the exact accumulation of hexadecimal digits -/
def accHexN (a : Nat) (ds : List Nat) : Nat := ds.foldl (fun a d => 16 * a + hexVal d) a

theorem accHexN_cons (a x : Nat) (ds : List Nat) : accHexN a (x :: ds) = accHexN (16 * a + hexVal x) ds := rfl

theorem eatFixedHexDigitsLoop_wp (start : Nat) (hle : start ≤ src.length) :
    ∀ (k j : Nat) (r : List Nat) (s : St) (a : Nat), UAt src N r s → s.lastIntValue = (a : Int) → a < 16 ^ j →
      j + k ≤ 15 →
      Wp (eatFixedHexDigitsLoop start k s) (fun b s1 => Keep s s1 ∧
        if b = true then ∃ ds r1, r = ds ++ r1 ∧ ds.length = k ∧ (∀ d ∈ ds, HexDigit d) ∧ UAt src N r1 s1 ∧
          s1.lastIntValue = (accHexN a ds : Nat)
        else UAt src N (src.drop start) s1 ∧ ¬∃ ds r1, r = ds ++ r1 ∧ ds.length = k ∧ ∀ d ∈ ds, HexDigit d)
  | 0, j, r, s, a, h, ha, haj, hjk => by
    unfold eatFixedHexDigitsLoop
    refine Wp.pure ?_
    rx4_true
    exact ⟨[], r, rfl, rfl, forall_mem_nil, h, ha⟩
  | k + 1, j, r, s, a, h, ha, haj, hjk => by
    have ih := eatFixedHexDigitsLoop_wp start hle k (j + 1)
    unfold eatFixedHexDigitsLoop
    rx4_auto
    · rename_i x r' hn d hd
      have hx : isAsciiHexdigit x = true := by simpa using hn
      have hhd := hexDigit_of_isAsciiHexdigit hx
      have hlt := hexVal_lt hhd
      rw [toDigit16_eq hx] at hd
      cases hd
      have hpow : 16 ^ (j + 1) ≤ 16 ^ 15 := Nat.pow_le_pow_right (by decide) (by omega)
      have h15 : 16 ^ 15 = 1152921504606846976 := by decide
      have hnew : 16 * a + hexVal x < 16 ^ (j + 1) := by rw [Nat.pow_succ]; omega
      refine Wp.bind_checkedI64 (by rw [ha]; unfold i64Min i64Max; omega) ?_
      rx4_step
      rx4_step
      have hint : ((s.withInt (16 * s.lastIntValue + (hexVal x : Int))).setPos src
          ((s.withInt (16 * s.lastIntValue + (hexVal x : Int))).reader.index + 1)).lastIntValue =
          ((16 * a + hexVal x : Nat) : Int) := by
        st_norm; rw [ha]; omega
      rename_i hat
      refine Wp.mono (ih _ _ (16 * a + hexVal x) hat hint hnew (by omega)) (fun b s1 hpost => ?_)
      have hk0 : Keep s ((s.withInt (16 * s.lastIntValue + (hexVal x : Int))).setPos src
          ((s.withInt (16 * s.lastIntValue + (hexVal x : Int))).reader.index + 1)) := ⟨rfl, rfl, rfl⟩
      obtain ⟨hk, hb⟩ := hpost
      have hk' := hk0.trans hk
      clear hk hk0
      cases b
      · rw [if_neg (by decide)] at hb
        refine ⟨hk', ?_⟩
        rw [if_neg (by decide)]
        refine ⟨hb.1, ?_⟩
        rintro ⟨ds, r1, hr, hlen, hds⟩
        cases ds with
        | nil => cases hlen
        | cons y ds' =>
          have h1 : x = y ∧ r' = ds' ++ r1 := by simpa using hr
          exact hb.2 ⟨ds', r1, h1.2, by simpa using hlen, fun d hd => hds d (List.mem_cons_of_mem _ hd)⟩
      · rw [if_pos rfl] at hb
        obtain ⟨ds, r1, hr, hlen, hds, hat1, hv⟩ := hb
        refine ⟨hk', ?_⟩
        rw [if_pos rfl]
        refine ⟨x :: ds, r1, by rw [hr]; rfl, by rw [List.length_cons, hlen], ?_, hat1, ?_⟩
        · intro d hd
          rcases List.mem_cons.mp hd with rfl | hd
          · exact hhd
          · exact hds d hd
        · rw [hv, accHexN_cons]
    · rename_i x r' hc hat
      refine ⟨⟨rfl, rfl, rfl⟩, ?_⟩
      rw [if_neg (by decide)]
      refine ⟨hat, ?_⟩
      rintro ⟨ds, r1, hr, hlen, hds⟩
      cases ds with
      | nil => cases hlen
      | cons y ds' =>
        have h1 : x = y ∧ r' = ds' ++ r1 := by simpa using hr
        have : HexDigit x := h1.1 ▸ hds y List.mem_cons_self
        have hx : isAsciiHexdigit x = true := isAsciiHexdigit_of_hexDigit this
        rw [hx] at hc; cases hc
    · rename_i hat
      refine ⟨⟨rfl, rfl, rfl⟩, ?_⟩
      rw [if_neg (by decide)]
      refine ⟨hat, ?_⟩
      rintro ⟨ds, r1, hr, hlen, hds⟩
      cases ds with
      | nil => cases hlen
      | cons y ds' => cases hr

theorem accHexN_zero (ds : List Nat) : accHexN 0 ds = mvHex ds := rfl

/-- `eat_fixed_hex_digits(k)`: exactly `k` hexadecimal digits, or nothing -/
theorem eatFixedHexDigits_wp (k : Nat) (hk : k ≤ 15) (r : List Nat) (s : St) (h : UAt src N r s) :
    Wp (eatFixedHexDigits k s) (fun b s1 => Keep s s1 ∧
      if b = true then ∃ ds r1, r = ds ++ r1 ∧ ds.length = k ∧ (∀ d ∈ ds, HexDigit d) ∧ UAt src N r1 s1 ∧
        s1.lastIntValue = (mvHex ds : Nat)
      else UAt src N r s1 ∧ ¬∃ ds r1, r = ds ++ r1 ∧ ds.length = k ∧ ∀ d ∈ ds, HexDigit d) := by
  unfold eatFixedHexDigits
  rx4_step
  rx4_step
  have h' : UAt src N r (s.withInt 0) := UAt.of_eq h rfl rfl rfl rfl rfl
  refine Wp.mono (eatFixedHexDigitsLoop_wp s.reader.index h.inv.le k 0 r (s.withInt 0) 0 h' rfl (by decide) (by omega))
    (fun b s1 hpost => ?_)
  obtain ⟨hk1, hb⟩ := hpost
  refine ⟨⟨hk1.gn, hk1.bn, hk1.str⟩, ?_⟩
  cases b
  · rw [if_neg (by decide)] at hb ⊢
    rw [h.rest] at hb; exact hb
  · rw [if_pos rfl] at hb ⊢
    exact hb

/-- the model's saturating accumulation of hexadecimal digits -/
def accHex (v : Int) (ds : List Nat) : Int := ds.foldl (fun a d => satMulAdd 16 a (hexVal d)) v

theorem accHex_cons (v : Int) (x : Nat) (ds : List Nat) :
    accHex v (x :: ds) = accHex (satMulAdd 16 v (hexVal x)) ds := rfl

theorem accHex_satI (a : Nat) (ds : List Nat) : accHex (satI a) ds = satI (accHexN a ds) := by
  induction ds generalizing a with
  | nil => rfl
  | cons d ds ih => rw [accHex_cons, satMulAdd_satI16, ih]; rfl

theorem not_hexDigit_of {x : Nat} (h : (!isAsciiHexdigit x) = true) : ¬HexDigit x := by
  intro hd
  rw [isAsciiHexdigit_of_hexDigit hd] at h
  cases h

theorem eatHexDigitsLoop_wp : ∀ (n : Nat) (r : List Nat) (s : St), UAt src N r s →
    Wp (eatHexDigitsLoop n s) (fun _ s1 => ∃ ds r1, r = ds ++ r1 ∧ (∀ d ∈ ds, HexDigit d) ∧
      (∀ d, r1.head? = some d → ¬HexDigit d) ∧ UAt src N r1 s1 ∧
      s1 = (s.setPos src (s.reader.index + ds.length)).withInt (accHex s.lastIntValue ds))
  | 0, _, _, _ => Wp.outOfFuel
  | n + 1, r, s, h => by
    have ih := eatHexDigitsLoop_wp n
    unfold eatHexDigitsLoop
    rx4_auto
    · rename_i x r' hn d hd hat a s1 ds r1 hr hds hnx hat1 hs1
      subst hs1
      have hx : isAsciiHexdigit x = true := by simpa using hn
      rw [toDigit16_eq hx] at hd
      cases hd
      refine ⟨x :: ds, r1, by rw [hr]; rfl, ?_, hnx, hat1, ?_⟩
      · intro d hd
        rcases List.mem_cons.mp hd with rfl | hd
        · exact hexDigit_of_isAsciiHexdigit hx
        · exact hds d hd
      · st_norm
        rw [accHex_cons, List.length_cons, Nat.add_assoc, Nat.add_comm 1]
    · rename_i x r' hc
      refine ⟨[], x :: r', rfl, forall_mem_nil, ?_, h, ?_⟩
      · intro d hd; cases hd; exact not_hexDigit_of hc
      · show s = (s.setPos src (s.reader.index + 0)).withInt s.lastIntValue
        rw [Nat.add_zero, setPos_self h.inv]; rfl
    · exact ⟨[], [], rfl, forall_mem_nil, forall_head_nil, h, by
        show s = (s.setPos src (s.reader.index + 0)).withInt s.lastIntValue
        rw [Nat.add_zero, setPos_self h.inv]; rfl⟩

/-- `eat_hex_digits`: the maximal run of hexadecimal digits; `true` iff it is non-empty -/
theorem eatHexDigits_wp (n : Nat) (r : List Nat) (s : St) (h : UAt src N r s) :
    Wp (eatHexDigits n s) (fun b s1 => Keep s s1 ∧ ∃ ds r1, r = ds ++ r1 ∧ (∀ d ∈ ds, HexDigit d) ∧
      (∀ d, r1.head? = some d → ¬HexDigit d) ∧ UAt src N r1 s1 ∧ s1.lastIntValue = satI (mvHex ds) ∧
      (b = true ↔ ds ≠ [])) := by
  unfold eatHexDigits
  rx4_auto
  rename_i a s1 ds r1 hr hds hnx hat1 hs1
  subst hs1
  refine ⟨⟨rfl, rfl, rfl⟩, ds, r1, hr, hds, hnx, hat1, ?_, ?_⟩
  · st_norm
    show accHex 0 ds = _
    have : (0 : Int) = satI 0 := rfl
    rw [this, accHex_satI]; rfl
  · st_norm
    cases ds with
    | nil => simp
    | cons d ds' => simp

end DL.Rx
