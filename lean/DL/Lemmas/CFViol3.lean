import DL.Lemmas.CFViol2

/-! Where the keys consulted for switch cases and function bodies lie. -/
namespace DL.CF

/-- the switch position of every case is in `hd` or `us`; the statements of the case bodies are in `us` -/
def CSK (cs : List (Nat × Stmts)) (hd us : List Nat) : Prop :=
  ∀ c ∈ cs, (c.1 ∈ hd ∨ c.1 ∈ us) ∧ ∀ r ∈ c.2.topPos, r ∈ us

theorem CSK.nil (hd us : List Nat) : CSK [] hd us := fun _ h => absurd h (by simp)

theorem CSK.append {c1 c2 : List (Nat × Stmts)} {hd u1 u2 : List Nat} (h1 : CSK c1 hd u1) (h2 : CSK c2 hd u2) :
    CSK (c1 ++ c2) hd (u1 ++ u2) := by
  intro c hc
  rcases List.mem_append.mp hc with h | h
  · exact ⟨(h1 c h).1.imp id (fun x => List.mem_append.mpr (Or.inl x)), fun r hr => List.mem_append.mpr (Or.inl ((h1 c h).2 r hr))⟩
  · exact ⟨(h2 c h).1.imp id (fun x => List.mem_append.mpr (Or.inr x)), fun r hr => List.mem_append.mpr (Or.inr ((h2 c h).2 r hr))⟩

theorem CSK.mono {cs : List (Nat × Stmts)} {hd hd' us us' : List Nat} (h : CSK cs hd us)
    (h1 : ∀ q, q ∈ hd → q ∈ hd' ∨ q ∈ us') (h2 : ∀ q, q ∈ us → q ∈ us') : CSK cs hd' us' := by
  intro c hc
  refine ⟨?_, fun r hr => h2 r ((h c hc).2 r hr)⟩
  rcases (h c hc).1 with h' | h'
  · exact h1 _ h'
  · exact Or.inr (h2 _ h')

/-- a statement's cases, seen from outside: all keys are statement positions of the statement -/
theorem CSK.close {cs : List (Nat × Stmts)} {s : Stmt} (h : CSK cs [s.pos] s.subUpos) (hd : List Nat) : CSK cs hd s.upos :=
  h.mono (fun q hq => Or.inr (by rw [Stmt.upos_eq]; simp at hq; simp [hq]))
    (fun q hq => by rw [Stmt.upos_eq]; exact List.mem_cons_of_mem _ hq)

mutual
theorem Stmt.sw_keys : ∀ (s : Stmt), CSK s.swCases [s.pos] s.subUpos
  | .simple p t kids => by simp only [Stmt.swCases, Stmt.subUpos]; exact Kids.sw_keys kids _
  | .block p b => by simp only [Stmt.swCases, Stmt.subUpos]; exact Stmts.sw_keys b _
  | .ifS p t c none => by
    simp only [Stmt.swCases, Stmt.subUpos]; exact (Kids.sw_keys t _).append ((Stmt.sw_keys c).close _)
  | .ifS p t c (some al) => by
    simp only [Stmt.swCases, Stmt.subUpos]
    exact (Kids.sw_keys t _).append (((Stmt.sw_keys c).close _).append ((Stmt.sw_keys al).close _))
  | .whileS p t tt b => by
    simp only [Stmt.swCases, Stmt.subUpos]; exact (Kids.sw_keys t _).append ((Stmt.sw_keys b).close _)
  | .doWhileS p b t tt => by
    simp only [Stmt.swCases, Stmt.subUpos]; exact (Kids.sw_keys t _).append ((Stmt.sw_keys b).close _)
  | .forS p i u t ht tt b => by
    simp only [Stmt.swCases, Stmt.subUpos]
    exact ((Kids.sw_keys i _).append ((Kids.sw_keys u _).append (Kids.sw_keys t _))).append ((Stmt.sw_keys b).close _)
  | .forInOf p l r b => by
    simp only [Stmt.swCases, Stmt.subUpos]
    exact ((Kids.sw_keys l _).append (Kids.sw_keys r _)).append ((Stmt.sw_keys b).close _)
  | .switchS p d cs => by
    simp only [Stmt.swCases, Stmt.subUpos, Stmt.pos]; exact (Kids.sw_keys d _).append (Cases.sw_keys cs p)
  | .tryS p bp b hh cp ck hf fp f => by
    simp only [Stmt.swCases, Stmt.subUpos]
    exact (Stmts.sw_keys b _).append ((Kids.sw_keys ck _).append (Stmts.sw_keys f _))
  | .labeled p l b => by simp only [Stmt.swCases, Stmt.subUpos]; exact (Stmt.sw_keys b).close _
  | .brk p l => CSK.nil _ _
  | .cont p l => CSK.nil _ _
  | .ret p a => by simp only [Stmt.swCases, Stmt.subUpos]; exact Kids.sw_keys a _
  | .throw p a => by simp only [Stmt.swCases, Stmt.subUpos]; exact Kids.sw_keys a _
theorem Stmts.sw_keys : ∀ (l : Stmts) (hd : List Nat), CSK l.swCases hd l.upos
  | .nil, _ => CSK.nil _ _
  | .cons s r, hd => by simp only [Stmts.swCases, Stmts.upos]; exact ((Stmt.sw_keys s).close _).append (Stmts.sw_keys r hd)
theorem Kid.sw_keys : ∀ (k : Kid) (hd : List Nat), CSK k.swCases hd k.upos
  | .expr _ ks, hd => by simp only [Kid.swCases, Kid.upos]; exact Kids.sw_keys ks hd
  | .fnScope _ ks, hd => by simp only [Kid.swCases, Kid.upos]; exact Kids.sw_keys ks hd
  | .block _ b, hd => by simp only [Kid.swCases, Kid.upos]; exact Stmts.sw_keys b hd
  | .stmt s, hd => by simp only [Kid.swCases, Kid.upos]; exact (Stmt.sw_keys s).close _
theorem Kids.sw_keys : ∀ (ks : Kids) (hd : List Nat), CSK ks.swCases hd ks.upos
  | .nil, _ => CSK.nil _ _
  | .cons k r, hd => by simp only [Kids.swCases, Kids.upos]; exact (Kid.sw_keys k hd).append (Kids.sw_keys r hd)
theorem Cases.sw_keys : ∀ (cs : Cases) (sp : Nat), CSK (cs.swCasesAt sp) [sp] cs.upos
  | .nil, _ => CSK.nil _ _
  | .cons _ _ t body r, sp => by
    simp only [Cases.swCasesAt, Cases.upos]
    intro c hc
    rcases List.mem_cons.mp hc with rfl | hc
    · exact ⟨Or.inl (by simp), fun q hq => List.mem_append.mpr (Or.inr (List.mem_append.mpr (Or.inl (Stmts.topPos_sub body q hq))))⟩
    · exact ((Kids.sw_keys t [sp]).append ((Stmts.sw_keys body [sp]).append (Cases.sw_keys r sp))) c hc
end

/-! ### function bodies -/
theorem Kids.fnBodies_mem (p : Nat) : ∀ (ks : Kids) (g : Getter), g ∈ ks.fnBodies p → g.bodyP ∈ ks.positions
  | .nil, g, h => by simp [Kids.fnBodies] at h
  | .cons (.block q body) r, g, h => by
    simp only [Kids.fnBodies, List.mem_cons] at h
    simp only [Kids.positions, Kid.positions, List.mem_append, List.mem_cons]
    rcases h with rfl | h
    · exact Or.inl (Or.inl rfl)
    · exact Or.inr (Kids.fnBodies_mem p r g h)
  | .cons (.expr _ _) r, g, h => by
    simp only [Kids.fnBodies] at h
    simp only [Kids.positions, List.mem_append]; exact Or.inr (Kids.fnBodies_mem p r g h)
  | .cons (.fnScope _ _) r, g, h => by
    simp only [Kids.fnBodies] at h
    simp only [Kids.positions, List.mem_append]; exact Or.inr (Kids.fnBodies_mem p r g h)
  | .cons (.stmt _) r, g, h => by
    simp only [Kids.fnBodies] at h
    simp only [Kids.positions, List.mem_append]; exact Or.inr (Kids.fnBodies_mem p r g h)

/-- the positions of a statement other than its own -/
def Stmt.restPositions : Stmt → List Nat
  | .simple _ _ kids => kids.positions
  | .block _ b => b.positions
  | .ifS _ t c none => t.positions ++ c.positions
  | .ifS _ t c (some a) => t.positions ++ (c.positions ++ a.positions)
  | .whileS _ t _ b => t.positions ++ b.positions
  | .doWhileS _ b t _ => t.positions ++ b.positions
  | .forS _ i u t _ _ b => (i.positions ++ (u.positions ++ t.positions)) ++ b.positions
  | .forInOf _ l r b => (l.positions ++ r.positions) ++ b.positions
  | .switchS _ d cs => d.positions ++ cs.positions
  | .tryS _ bp b hh cp ck hf fp f => bp :: (b.positions ++ ((optPos hh cp ++ ck.positions) ++ (optPos hf fp ++ f.positions)))
  | .labeled _ _ b => b.positions
  | .brk _ _ => []
  | .cont _ _ => []
  | .ret _ a => a.positions
  | .throw _ a => a.positions

def GIn (gs : List Getter) (ps : List Nat) : Prop := ∀ g ∈ gs, g.bodyP ∈ ps

theorem GIn.nil (ps : List Nat) : GIn [] ps := fun _ h => absurd h (by simp)
theorem GIn.append {g1 g2 : List Getter} {p1 p2 : List Nat} (h1 : GIn g1 p1) (h2 : GIn g2 p2) : GIn (g1 ++ g2) (p1 ++ p2) := by
  intro g hg
  rcases List.mem_append.mp hg with h | h
  · exact List.mem_append.mpr (Or.inl (h1 g h))
  · exact List.mem_append.mpr (Or.inr (h2 g h))
theorem GIn.mono {gs : List Getter} {ps ps' : List Nat} (h : GIn gs ps) (hs : ∀ q, q ∈ ps → q ∈ ps') : GIn gs ps' :=
  fun g hg => hs _ (h g hg)

theorem Stmt.rest_sub (s : Stmt) (q : Nat) (h : q ∈ s.restPositions) : q ∈ s.positions := by
  cases s with
  | simple p t kids => exact (Stmt.mem_positions_simple p t kids q).mpr (Or.inr h)
  | ifS p t c a => cases a <;> exact List.mem_cons_of_mem _ h
  | brk p l => simp [Stmt.restPositions] at h
  | cont p l => simp [Stmt.restPositions] at h
  | _ => exact List.mem_cons_of_mem _ h

mutual
theorem Stmt.getters_rest : ∀ (s : Stmt), GIn s.getters s.restPositions
  | .simple p t kids => by simp only [Stmt.getters, Stmt.restPositions]; exact Kids.getters_mem kids
  | .block p b => by simp only [Stmt.getters, Stmt.restPositions]; exact Stmts.getters_mem b
  | .ifS p t c none => by
    simp only [Stmt.getters, Stmt.restPositions]
    exact (Kids.getters_mem t).append ((Stmt.getters_rest c).mono c.rest_sub)
  | .ifS p t c (some al) => by
    simp only [Stmt.getters, Stmt.restPositions]
    exact (Kids.getters_mem t).append (((Stmt.getters_rest c).mono c.rest_sub).append ((Stmt.getters_rest al).mono al.rest_sub))
  | .whileS p t tt b => by
    simp only [Stmt.getters, Stmt.restPositions]
    exact (Kids.getters_mem t).append ((Stmt.getters_rest b).mono b.rest_sub)
  | .doWhileS p b t tt => by
    simp only [Stmt.getters, Stmt.restPositions]
    exact (Kids.getters_mem t).append ((Stmt.getters_rest b).mono b.rest_sub)
  | .forS p i u t ht tt b => by
    simp only [Stmt.getters, Stmt.restPositions]
    exact ((Kids.getters_mem i).append ((Kids.getters_mem u).append (Kids.getters_mem t))).append
      ((Stmt.getters_rest b).mono b.rest_sub)
  | .forInOf p l r b => by
    simp only [Stmt.getters, Stmt.restPositions]
    exact ((Kids.getters_mem l).append (Kids.getters_mem r)).append ((Stmt.getters_rest b).mono b.rest_sub)
  | .switchS p d cs => by
    simp only [Stmt.getters, Stmt.restPositions]; exact (Kids.getters_mem d).append (Cases.getters_mem cs)
  | .tryS p bp b hh cp ck hf fp f => by
    simp only [Stmt.getters, Stmt.restPositions]
    have := (Stmts.getters_mem b).append (((Kids.getters_mem ck).mono (ps' := optPos hh cp ++ ck.positions)
      (fun q hq => List.mem_append.mpr (Or.inr hq))).append ((Stmts.getters_mem f).mono (ps' := optPos hf fp ++ f.positions)
      (fun q hq => List.mem_append.mpr (Or.inr hq))))
    exact this.mono (fun q hq => List.mem_cons_of_mem _ hq)
  | .labeled p l b => by
    simp only [Stmt.getters, Stmt.restPositions]; exact (Stmt.getters_rest b).mono b.rest_sub
  | .brk p l => GIn.nil _
  | .cont p l => GIn.nil _
  | .ret p a => by simp only [Stmt.getters, Stmt.restPositions]; exact Kids.getters_mem a
  | .throw p a => by simp only [Stmt.getters, Stmt.restPositions]; exact Kids.getters_mem a
theorem Stmts.getters_mem : ∀ (l : Stmts), GIn l.getters l.positions
  | .nil => GIn.nil _
  | .cons s r => by
    simp only [Stmts.getters, Stmts.positions]
    exact ((Stmt.getters_rest s).mono s.rest_sub).append (Stmts.getters_mem r)
theorem Kid.getters_mem : ∀ (k : Kid), GIn k.getters k.positions
  | .expr _ ks => by simp only [Kid.getters, Kid.positions]; exact Kids.getters_mem ks
  | .fnScope p ks => by
    simp only [Kid.getters, Kid.positions]
    intro g hg
    rcases List.mem_append.mp hg with h | h
    · exact List.mem_cons_of_mem _ (Kids.fnBodies_mem p ks g h)
    · exact List.mem_cons_of_mem _ (Kids.getters_mem ks g h)
  | .block _ b => by
    simp only [Kid.getters, Kid.positions]; exact (Stmts.getters_mem b).mono (fun q hq => List.mem_cons_of_mem _ hq)
  | .stmt s => by simp only [Kid.getters, Kid.positions]; exact (Stmt.getters_rest s).mono s.rest_sub
theorem Kids.getters_mem : ∀ (ks : Kids), GIn ks.getters ks.positions
  | .nil => GIn.nil _
  | .cons k r => by simp only [Kids.getters, Kids.positions]; exact (Kid.getters_mem k).append (Kids.getters_mem r)
theorem Cases.getters_mem : ∀ (cs : Cases), GIn cs.getters cs.positions
  | .nil => GIn.nil _
  | .cons _ _ t body r => by
    simp only [Cases.getters, Cases.positions]
    exact ((Kids.getters_mem t).append ((Stmts.getters_mem body).append (Cases.getters_mem r))).mono
      (fun q hq => List.mem_cons_of_mem _ hq)
end

theorem Stmt.getters_mem (s : Stmt) : GIn s.getters s.positions := (Stmt.getters_rest s).mono s.rest_sub

end DL.CF
