import DL.Lemmas.RxSpecName

/-! # Completeness: the binary search over the (sorted) range tables finds every member -/
namespace DL.Rx
open DL.RxSpec DL.Gen.Unicode

/-- the ranges are non-empty, disjoint and increasing -/
def sortedPairs : List Nat → Bool
  | lo :: hi :: rest =>
    decide (lo ≤ hi) && (match rest with | lo' :: _ => decide (hi < lo') | [] => true) && sortedPairs rest
  | _ => true

theorem sortedPairs_cons {a b : Nat} {rest : List Nat} (h : sortedPairs (a :: b :: rest) = true) :
    a ≤ b ∧ (∀ x, rest.head? = some x → b < x) ∧ sortedPairs rest = true := by
  simp only [sortedPairs, Bool.and_eq_true, decide_eq_true_eq] at h
  refine ⟨h.1.1, ?_, h.2⟩
  intro x hx
  cases rest with
  | nil => cases hx
  | cons y t => cases hx; simpa using h.1.2

theorem idx_succ (i : Nat) : 2 * (i + 1) = 2 * i + 1 + 1 ∧ 2 * (i + 1) + 1 = 2 * i + 1 + 1 + 1 := by omega

/-- the first lower bound is the least -/
theorem sorted_first_le : ∀ (l : List Nat) (j x lo : Nat), sortedPairs l = true → l.head? = some x → l[2 * j]? = some lo →
    x ≤ lo
  | [], _, _, _, _, h, _ => by cases h
  | [_], 0, _, _, _, h, h0 => by simp at h h0; omega
  | [_], j + 1, _, _, _, _, h0 => by
    rw [(idx_succ j).1] at h0; simp at h0
  | a :: b :: rest, 0, x, lo, _, h, h0 => by simp at h h0; omega
  | a :: b :: rest, j + 1, x, lo, hs, h, h0 => by
    obtain ⟨hab, hnext, hrest⟩ := sortedPairs_cons hs
    rw [(idx_succ j).1] at h0
    simp only [List.getElem?_cons_succ] at h0
    have hx : x = a := by simpa using h.symm
    cases rest with
    | nil => simp at h0
    | cons y t =>
      have := sorted_first_le (y :: t) j y lo hrest rfl h0
      have := hnext y rfl
      omega

theorem sorted_lo_le_hi : ∀ (l : List Nat) (i lo hi : Nat), sortedPairs l = true → l[2 * i]? = some lo →
    l[2 * i + 1]? = some hi → lo ≤ hi
  | [], _, _, _, _, h, _ => by simp at h
  | [_], i, _, _, _, _, h => by simp at h
  | a :: b :: rest, 0, lo, hi, hs, h0, h1 => by
    simp at h0 h1; subst h0 h1; exact (sortedPairs_cons hs).1
  | a :: b :: rest, i + 1, lo, hi, hs, h0, h1 => by
    rw [(idx_succ i).1] at h0; rw [(idx_succ i).2] at h1
    simp only [List.getElem?_cons_succ] at h0 h1
    exact sorted_lo_le_hi rest i lo hi (sortedPairs_cons hs).2.2 h0 h1

/-- an earlier range ends before a later one starts -/
theorem sorted_lt : ∀ (l : List Nat) (i j hi lo : Nat), sortedPairs l = true → i < j → l[2 * i + 1]? = some hi →
    l[2 * j]? = some lo → hi < lo
  | [], _, _, _, _, _, _, h, _ => by simp at h
  | [_], _, _, _, _, _, _, h, _ => by simp at h
  | a :: b :: rest, 0, j + 1, hi, lo, hs, _, h1, h0 => by
    obtain ⟨_, hnext, hrest⟩ := sortedPairs_cons hs
    rw [(idx_succ j).1] at h0
    simp only [List.getElem?_cons_succ] at h0
    simp at h1; subst h1
    cases rest with
    | nil => simp at h0
    | cons y t =>
      have := sorted_first_le (y :: t) j y lo hrest rfl h0
      have := hnext y rfl
      omega
  | a :: b :: rest, i + 1, j + 1, hi, lo, hs, hij, h1, h0 => by
    rw [(idx_succ j).1] at h0; rw [(idx_succ i).2] at h1
    simp only [List.getElem?_cons_succ] at h0 h1
    exact sorted_lt rest i j hi lo (sortedPairs_cons hs).2.2 (by omega) h1 h0

/-- `m` answers `true` whenever `p` holds (unless it runs out of fuel); it does not touch the state -/
def Yes (m : M Bool) (p : Prop) : Prop := p → ∀ s, m s = .ok true s ∨ m s = .outOfFuel s

theorem isInRangeLoop_yes (cp : Nat) (t : Array Nat) (hs : sortedPairs t.toList = true) :
    ∀ n l r, r ≤ t.size / 2 →
      Yes (isInRangeLoop cp t n l r) (∃ k lo hi, l ≤ k ∧ k < r ∧ t[2 * k]? = some lo ∧ t[2 * k + 1]? = some hi ∧ lo ≤ cp ∧ cp ≤ hi)
  | 0, _, _, _ => fun _ _ => .inr rfl
  | n + 1, l, r, hr => by
    rintro ⟨k, lo, hi, hlk, hkr, h0, h1, hlo, hhi⟩ s
    have i0 : 2 * ((l + r) / 2) < t.size := by omega
    have i1 : 2 * ((l + r) / 2) + 1 < t.size := by omega
    have key : isInRangeLoop cp t (n + 1) l r =
        (if cp < t[2 * ((l + r) / 2)] then isInRangeLoop cp t n l ((l + r) / 2)
         else if cp > t[2 * ((l + r) / 2) + 1] then isInRangeLoop cp t n ((l + r) / 2 + 1) r else pure true) := by
      conv => lhs; unfold isInRangeLoop
      rw [if_pos (by omega)]
      dsimp only
      rw [Array.getElem?_eq_getElem i0, Array.getElem?_eq_getElem i1]
      rfl
    rw [key]
    have g0 : t.toList[2 * ((l + r) / 2)]? = some t[2 * ((l + r) / 2)] := by
      rw [Array.getElem?_toList]; exact Array.getElem?_eq_getElem i0
    have g1 : t.toList[2 * ((l + r) / 2) + 1]? = some t[2 * ((l + r) / 2) + 1] := by
      rw [Array.getElem?_toList]; exact Array.getElem?_eq_getElem i1
    rw [← Array.getElem?_toList] at h0 h1
    have hmm := sorted_lo_le_hi _ _ _ _ hs g0 g1
    by_cases c1 : cp < t[2 * ((l + r) / 2)]
    · rw [if_pos c1]
      refine isInRangeLoop_yes cp t hs n l _ (by omega) ⟨k, lo, hi, hlk, ?_, by rw [← Array.getElem?_toList]; exact h0,
        by rw [← Array.getElem?_toList]; exact h1, hlo, hhi⟩ s
      -- k < mid
      rcases Nat.lt_trichotomy k ((l + r) / 2) with hk | hk | hk
      · exact hk
      · subst hk; rw [g0] at h0; cases h0; omega
      · have := sorted_lt _ _ _ _ _ hs hk g1 h0; omega
    · rw [if_neg c1]
      by_cases c2 : cp > t[2 * ((l + r) / 2) + 1]
      · rw [if_pos c2]
        refine isInRangeLoop_yes cp t hs n _ r hr ⟨k, lo, hi, ?_, hkr, by rw [← Array.getElem?_toList]; exact h0,
          by rw [← Array.getElem?_toList]; exact h1, hlo, hhi⟩ s
        rcases Nat.lt_trichotomy k ((l + r) / 2) with hk | hk | hk
        · have := sorted_lt _ _ _ _ _ hs hk h1 g0; omega
        · subst hk; rw [g1] at h1; cases h1; omega
        · omega
      · rw [if_neg c2]; exact .inl rfl

theorem isInRange_yes (cp : Nat) (t : Array Nat) (hs : sortedPairs t.toList = true) :
    Yes (isInRange cp t) (InTable cp t) := by
  rintro ⟨k, lo, hi, h0, h1, hlo, hhi⟩ s
  have hk : k < t.size / 2 := by
    have : 2 * k + 1 < t.size := by
      rcases Nat.lt_or_ge (2 * k + 1) t.size with h | h
      · exact h
      · rw [Array.getElem?_eq_none h] at h1; cases h1
    omega
  exact isInRangeLoop_yes cp t hs _ 0 _ (Nat.le_refl _) ⟨k, lo, hi, Nat.zero_le _, hk, h0, h1, hlo, hhi⟩ s

set_option maxRecDepth 100000 in
theorem largeIdStart_sorted : sortedPairs largeIdStartRanges.toList = true := by decide +kernel
set_option maxRecDepth 100000 in
theorem largeIdContinue_sorted : sortedPairs largeIdContinueRanges.toList = true := by decide +kernel

end DL.Rx

namespace DL.Rx
open DL.RxSpec DL.Gen.Unicode

theorem Yes.orM_left {a b : M Bool} {p : Prop} (ha : Yes a p) : Yes (a <or> b) p := by
  intro hp s
  show (orM a b) s = _ ∨ (orM a b) s = _
  unfold orM
  show M.bind a _ s = _ ∨ M.bind a _ s = _
  unfold M.bind
  rcases ha hp s with h | h <;> rw [h]
  · exact .inl rfl
  · exact .inr rfl

theorem Yes.orM_right {a b : M Bool} {p q : Prop} (ta : Tests a q) (hb : Yes b p) : Yes (a <or> b) p := by
  intro hp s
  show (orM a b) s = _ ∨ (orM a b) s = _
  unfold orM
  show M.bind a _ s = _ ∨ M.bind a _ s = _
  unfold M.bind
  rcases ta s with ⟨b', h, _⟩ | h <;> rw [h]
  · cases b'
    · exact hb hp s
    · exact .inl rfl
  · exact .inr rfl

theorem Yes.mono {m : M Bool} {p q : Prop} (h : Yes m p) (hqp : q → p) : Yes m q := fun hq => h (hqp hq)

theorem yes_pure_eq (cp v : Nat) : Yes (pure (cp == v)) (cp = v) := by
  intro h s; subst h; exact .inl (by rw [beq_self_eq_true]; rfl)

theorem isIdStart_yes (cp : Nat) : Yes (isIdStart cp) (UnicodeIDStart cp) := by
  intro hp s
  have hcl : ControlLetter cp ↔ (0x61 ≤ cp ∧ cp ≤ 0x7a) ∨ (0x41 ≤ cp ∧ cp ≤ 0x5a) := Iff.rfl
  have hge : InTable cp largeIdStartRanges → 128 ≤ cp := inTable_ge largeIdStart_ge
  unfold isIdStart
  by_cases c1 : cp < 0x41
  · rcases hp with hp | hp
    · rw [hcl] at hp; omega
    · have := hge hp; omega
  rw [if_neg c1]
  by_cases c2 : cp < 0x5b
  · rw [if_pos c2]; exact .inl rfl
  rw [if_neg c2]
  by_cases c3 : cp < 0x61
  · rcases hp with hp | hp
    · rw [hcl] at hp; omega
    · have := hge hp; omega
  rw [if_neg c3]
  by_cases c4 : cp < 0x7b
  · rw [if_pos c4]; exact .inl rfl
  rw [if_neg c4]
  rcases hp with hp | hp
  · rw [hcl] at hp; omega
  · exact isInRange_yes cp _ largeIdStart_sorted hp s

theorem isIdContinue_yes (cp : Nat) : Yes (isIdContinue cp) (UnicodeIDContinue cp) := by
  intro hp s
  have hcl : ControlLetter cp ↔ (0x61 ≤ cp ∧ cp ≤ 0x7a) ∨ (0x41 ≤ cp ∧ cp ≤ 0x5a) := Iff.rfl
  have hdd : DecimalDigit cp ↔ 0x30 ≤ cp ∧ cp ≤ 0x39 := Iff.rfl
  have hus : cp = c '_' ↔ cp = 0x5f := Iff.rfl
  have hge : InTable cp largeIdStartRanges → 128 ≤ cp := inTable_ge largeIdStart_ge
  have hge' : InTable cp largeIdContinueRanges → 128 ≤ cp := inTable_ge largeIdContinue_ge
  have low : cp < 128 → (0x61 ≤ cp ∧ cp ≤ 0x7a) ∨ (0x41 ≤ cp ∧ cp ≤ 0x5a) ∨ (0x30 ≤ cp ∧ cp ≤ 0x39) ∨ cp = 0x5f := by
    intro hlt
    rcases hp with (hp | hp) | hp | hp | hp
    · rw [hcl] at hp; omega
    · have := hge hp; omega
    · rw [hdd] at hp; omega
    · rw [hus] at hp; omega
    · have := hge' hp; omega
  unfold isIdContinue
  by_cases c1 : cp < 0x30
  · have := low (by omega); omega
  rw [if_neg c1]
  by_cases c2 : cp < 0x3a
  · rw [if_pos c2]; exact .inl rfl
  rw [if_neg c2]
  by_cases c3 : cp < 0x41
  · have := low (by omega); omega
  rw [if_neg c3]
  by_cases c4 : (cp < 0x5b || cp == 0x5f) = true
  · rw [if_pos c4]; exact .inl rfl
  rw [if_neg c4]
  have c4' : ¬cp < 0x5b ∧ cp ≠ 0x5f := by
    simp only [Bool.or_eq_true, decide_eq_true_eq, beq_iff_eq, not_or] at c4
    exact c4
  by_cases c5 : cp < 0x61
  · have := low (by omega); omega
  rw [if_neg c5]
  by_cases c6 : cp < 0x7b
  · rw [if_pos c6]; exact .inl rfl
  rw [if_neg c6]
  have hbig : ¬cp < 128 := fun hlt => by have := low hlt; omega
  rcases hp with (hp | hp) | hp | hp | hp
  · rw [hcl] at hp; omega
  · exact Yes.orM_left (isInRange_yes cp _ largeIdStart_sorted) hp s
  · rw [hdd] at hp; omega
  · rw [hus] at hp; omega
  · exact Yes.orM_right (isInRange_tests cp _) (isInRange_yes cp _ largeIdContinue_sorted) hp s

theorem isRegexpIdentifierStart_yes (cp : Nat) : Yes (isRegexpIdentifierStart cp) (IdentifierStartChar cp) := by
  intro hp
  unfold isRegexpIdentifierStart
  rcases hp with hp | hp | hp
  · exact Yes.orM_left (isIdStart_yes cp) hp
  · exact Yes.orM_right (isIdStart_spec cp) (Yes.orM_left (yes_pure_eq cp _)) hp
  · exact Yes.orM_right (isIdStart_spec cp) (Yes.orM_right (tests_eq' cp _ True fun _ => trivial) (yes_pure_eq cp _)) hp

theorem isRegexpIdentifierPart_yes (cp : Nat) : Yes (isRegexpIdentifierPart cp) (IdentifierPartChar cp) := by
  intro hp
  unfold isRegexpIdentifierPart
  have t := fun v => tests_eq' cp v True fun _ => trivial
  rcases hp with hp | hp | hp | hp
  · exact Yes.orM_left (isIdContinue_yes cp) hp
  · exact Yes.orM_right (isIdContinue_spec cp) (Yes.orM_left (yes_pure_eq cp _)) hp
  · exact Yes.orM_right (isIdContinue_spec cp) (Yes.orM_right (t _) (Yes.orM_right (t _) (Yes.orM_left (yes_pure_eq cp _)))) hp
  · exact Yes.orM_right (isIdContinue_spec cp) (Yes.orM_right (t _) (Yes.orM_right (t _) (Yes.orM_right (t _) (yes_pure_eq cp _)))) hp

end DL.Rx
