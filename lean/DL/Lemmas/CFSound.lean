import DL.Lemmas.CFBasic

/-!
# Soundness invariant of the control-flow analyzer on the fragment `inF`

Fragment `inF`: expression/declaration statements whose expressions contain no nested function, class static block or
`with` body; blocks; `if`/`else`; `while`, `do-while`, `for`, `for-in/of`; unlabelled `break`/`continue`; `return`;
`throw`.  (Not yet: `switch`, `try`, labels, nested functions.)

For a statement visited with the analyzer state `a` at a program point that is reachable iff `live`:

* `p1`  if the scope's end stops afterwards, the statement cannot complete normally (when live);
* `p2`  if it can break (unlabelled), `found_break = Some(None)` afterwards;  `p2c` likewise for `continue`;
* `p3`  every position flagged `unreachable` inside it is not reached;
* `p4`  if the end recorded under its own position stops, it cannot complete normally;
* `frame`  metadata outside its positions is untouched.
-/
namespace DL.CF

mutual
def Kid.flat : Kid → Bool
  | .expr _ ks => ks.flat
  | _ => false
def Kids.flat : Kids → Bool
  | .nil => true
  | .cons k r => k.flat && r.flat
end

mutual
def Stmt.inF : Stmt → Bool
  | .simple _ _ kids => kids.flat
  | .block _ b => b.inF
  | .ifS _ t c none => t.flat && c.inF
  | .ifS _ t c (some a) => t.flat && c.inF && a.inF
  | .whileS _ t _ b => t.flat && b.inF
  | .doWhileS _ b t _ => t.flat && b.inF
  | .forS _ i u t _ _ b => i.flat && u.flat && t.flat && b.inF
  | .forInOf _ l r b => l.flat && r.flat && b.inF
  | .brk _ none => true
  | .cont _ none => true
  | .ret _ a => a.flat
  | .throw _ a => a.flat
  | _ => false
def Stmts.inF : Stmts → Bool
  | .nil => true
  | .cons s r => s.inF && r.inF
end

mutual
def Stmt.positions : Stmt → List Nat
  | .simple p _ _ => [p]
  | .block p b => p :: b.positions
  | .ifS p _ c none => p :: c.positions
  | .ifS p _ c (some a) => p :: (c.positions ++ a.positions)
  | .whileS p _ _ b => p :: b.positions
  | .doWhileS p b _ _ => p :: b.positions
  | .forS p _ _ _ _ _ b => p :: b.positions
  | .forInOf p _ _ b => p :: b.positions
  | .switchS p _ _ => [p]
  | .tryS p .. => [p]
  | .labeled p _ b => p :: b.positions
  | .brk p _ => [p]
  | .cont p _ => [p]
  | .ret p _ => [p]
  | .throw p _ => [p]
def Stmts.positions : Stmts → List Nat
  | .nil => []
  | .cons s r => s.positions ++ r.positions
end

theorem Stmt.pos_mem (s : Stmt) : s.pos ∈ s.positions := by
  cases s with
  | ifS p t c a => cases a <;> simp [Stmt.pos, Stmt.positions]
  | _ => simp [Stmt.pos, Stmt.positions]

/-! ### flat expression lists only touch `hoist` and `may_throw` -/
structure SameCtl (a b : A) : Prop where
  info : b.info = a.info
  end_ : b.sc.end_ = a.sc.end_
  fb : b.sc.foundBreak = a.sc.foundBreak
  fc : b.sc.foundContinue = a.sc.foundContinue

theorem SameCtl.refl (a : A) : SameCtl a a := ⟨rfl, rfl, rfl, rfl⟩
theorem SameCtl.trans {a b c : A} (h1 : SameCtl a b) (h2 : SameCtl b c) : SameCtl a c :=
  ⟨h2.info.trans h1.info, h2.end_.trans h1.end_, h2.fb.trans h1.fb, h2.fc.trans h1.fc⟩

theorem exprEffect_same (k : EKind) (a : A) : SameCtl a (exprEffect k a) := by
  unfold exprEffect
  rcases h : a.sc.end_ with _ | ⟨r, t, i⟩ | _ | _ <;> cases k <;> simp [h] <;> exact ⟨rfl, by simp [h], rfl, rfl⟩

mutual
theorem visitKid_flat : ∀ (k : Kid) (a : A), k.flat = true → SameCtl a (visitKid k a)
  | .expr k ks, a, h => by
    simp only [visitKid]
    exact (visitKids_flat ks a (by simpa [Kid.flat] using h)).trans (exprEffect_same k _)
  | .fnScope _ _, _, h => by simp [Kid.flat] at h
  | .block _ _, _, h => by simp [Kid.flat] at h
  | .stmt _, _, h => by simp [Kid.flat] at h
theorem visitKids_flat : ∀ (ks : Kids) (a : A), ks.flat = true → SameCtl a (visitKids ks a)
  | .nil, a, _ => by simp only [visitKids]; exact SameCtl.refl a
  | .cons k r, a, h => by
    simp only [Kids.flat, Bool.and_eq_true] at h
    simp only [visitKids]
    exact (visitKid_flat k a h.1).trans (visitKids_flat r _ h.2)
end

mutual
theorem Kid.flowReach_flat : ∀ (k : Kid) (p : Nat), k.flat = true → k.flowReach p = false
  | .expr _ ks, p, h => by simp only [Kid.flowReach]; exact Kids.flowReach_flat ks p (by simpa [Kid.flat] using h)
  | .fnScope _ _, _, h => by simp [Kid.flat] at h
  | .block _ _, _, h => by simp [Kid.flat] at h
  | .stmt _, _, h => by simp [Kid.flat] at h
theorem Kids.flowReach_flat : ∀ (ks : Kids) (p : Nat), ks.flat = true → ks.flowReach p = false
  | .nil, _, _ => rfl
  | .cons k r, p, h => by
    simp only [Kids.flat, Bool.and_eq_true] at h
    simp [Kids.flowReach, Kid.flowReach_flat k p h.1, Kids.flowReach_flat r p h.2]
end

/-! ### the invariant -/
/-- `found_break` is `None` or `Some(None)` (no labelled breaks in the fragment) -/
def FB (a : A) : Prop := a.sc.foundBreak = none ∨ a.sc.foundBreak = some none

structure Pre (live : Bool) (ps : List Nat) (a : A) : Prop where
  hs : stopsEnd a.sc.end_ = true → live = false
  fresh : ∀ p ∈ ps, a.info.endAt p = none
  nodup : ps.Nodup
  fb : FB a

structure PostL (live : Bool) (ps : List Nat) (c : Compl) (reach : Nat → Bool) (a a' : A) : Prop where
  p1 : stopsEnd a'.sc.end_ = true → (live && c.n) = false
  p2 : (live && c.b) = true → a'.sc.foundBreak = some none
  p2c : (live && c.c) = true → a'.sc.foundContinue = true
  monoB : a.sc.foundBreak = some none → a'.sc.foundBreak = some none
  monoC : a.sc.foundContinue = true → a'.sc.foundContinue = true
  fb : FB a'
  p3 : ∀ p ∈ ps, a'.info.ur p = true → (live && reach p) = false
  frame : ∀ q, q ∉ ps → a'.info q = a.info q

structure PostS (live : Bool) (s : Stmt) (a a' : A) : Prop
    extends PostL live s.positions (s.compl []) s.reach a a' where
  p4 : stopsEnd (a'.info.endAt s.pos) = true → (live && (s.compl []).n) = false

theorem Pre.sub {live : Bool} {ps qs : List Nat} {a : A} (h : Pre live ps a) (hsub : ∀ p ∈ qs, p ∈ ps) (hn : qs.Nodup) :
    Pre live qs a := ⟨h.hs, fun p hp => h.fresh p (hsub p hp), hn, h.fb⟩

theorem endAt_eq_of_info_eq {i j : Info} {q : Nat} (h : i q = j q) : i.endAt q = j.endAt q := by
  unfold Info.endAt; rw [h]
theorem ur_eq_of_info_eq {i j : Info} {q : Nat} (h : i q = j q) : i.ur q = j.ur q := by
  unfold Info.ur; rw [h]

/-- recording the `unreachable` flag of a statement at `p` -/
theorem flag_sound {live : Bool} {ps : List Nat} {a : A} (h : Pre live ps a) (t : Tag)
    (hu : unreachableFlag a.sc t = true) : live = false := by
  apply h.hs
  unfold unreachableFlag at hu
  split at hu
  · assumption
  · cases hu

/-! ### `with_child_scope` for the two kinds of the fragment -/
theorem childEnd_stops (kind : BlockKind) (prev : Option End) (h : stopsEnd (childEnd kind prev) = true) :
    stopsEnd prev = true := by
  unfold childEnd at h
  cases kind <;> simp only [stopsEnd_none, Bool.false_eq_true] at h <;>
    (by_cases hf : isForcedEnd prev = true
     · simp only [hf, if_true] at h; exact h
     · simp [hf] at h)

/-- the child scope an `If`/`Loop` body is visited in -/
def childA (kind : BlockKind) (a : A) : A := { sc := { end_ := childEnd kind a.sc.end_ }, info := a.info }

/-- `with_child_scope(BlockKind::If, ..)` -/
theorem withChild_if (p : Nat) (op : A → A) (a : A) :
    withChild .ifK p op a =
      { sc := mergeSc .ifK a.sc (op (childA .ifK a)).sc, info := (op (childA .ifK a)).info } := by
  simp only [withChild, withChildR, childA, childExit]
  cases (op _).sc.end_ <;> rfl

/-- `with_child_scope(BlockKind::Loop, ..)` -/
theorem withChild_loop (p : Nat) (op : A → A) (a : A) :
    withChild .loop p op a =
      childExit .loop p a.sc.end_ { sc := mergeSc .loop a.sc (op (childA .loop a)).sc, info := (op (childA .loop a)).info }
        (op (childA .loop a)).sc.end_ := by
  simp only [withChild, withChildR, childA]

end DL.CF

namespace DL.CF

/-- the state right after `visit_stmt` recorded the `unreachable` flag at `p` -/
def flagA (a : A) (p : Nat) (t : Tag) : A := { a with info := a.info.setUnreach p (unreachableFlag a.sc t) }

@[simp] theorem flagA_sc (a : A) (p : Nat) (t : Tag) : (flagA a p t).sc = a.sc := rfl
theorem flagA_endAt (a : A) (p : Nat) (t : Tag) (q : Nat) : (flagA a p t).info.endAt q = a.info.endAt q := by
  simp [flagA]
theorem flagA_other (a : A) (p : Nat) (t : Tag) (q : Nat) (h : q ≠ p) : (flagA a p t).info q = a.info q := by
  simp [flagA, Info.setUnreach, h]
theorem flagA_ur_self (a : A) (p : Nat) (t : Tag) : (flagA a p t).info.ur p = unreachableFlag a.sc t := by
  simp [flagA, ur_setUnreach]

theorem Pre.flag {live : Bool} {ps qs : List Nat} {a : A} (h : Pre live ps a) (p : Nat) (t : Tag)
    (hsub : ∀ q ∈ qs, q ∈ ps) (hn : qs.Nodup) : Pre live qs (flagA a p t) :=
  ⟨h.hs, fun q hq => by rw [flagA_endAt]; exact h.fresh q (hsub q hq), hn, h.fb⟩

/-- facts shared by every case: what happened at the statement's own position `p` -/
theorem own_pos_dead {live : Bool} {ps : List Nat} {a : A} (h : Pre live ps a) (p : Nat) (t : Tag) (i : Info)
    (hi : i.ur p = (flagA a p t).info.ur p) (hu : i.ur p = true) : live = false := by
  rw [hi, flagA_ur_self] at hu
  exact flag_sound h t hu

/-! ### leaf statements -/
theorem simple_ok (live : Bool) (p : Nat) (t : Tag) (kids : Kids) (a : A) (hk : kids.flat = true)
    (h : Pre live [p] a) : PostS live (.simple p t kids) a (visitStmt (.simple p t kids) a) := by
  have hs := visitKids_flat kids (flagA a p t) hk
  have hv : visitStmt (.simple p t kids) a = visitKids kids (flagA a p t) := by simp [visitStmt, flagA]
  rw [hv]
  refine ⟨⟨?_, ?_, ?_, ?_, ?_, ?_, ?_, ?_⟩, ?_⟩
  · intro hst; rw [hs.end_] at hst; simp [h.hs hst]
  · simp [Stmt.compl]
  · simp [Stmt.compl]
  · intro hb; rw [hs.fb]; exact hb
  · intro hc; rw [hs.fc]; exact hc
  · unfold FB; rw [hs.fb]; exact h.fb
  · intro q hq hu
    simp only [Stmt.positions, List.mem_singleton] at hq; subst hq
    have := own_pos_dead h q t _ (by rw [hs.info]) hu
    simp [this]
  · intro q hq
    simp only [Stmt.positions, List.mem_singleton] at hq
    rw [hs.info]; exact flagA_other a p t q hq
  · intro hst
    rw [endAt_eq_of_info_eq (congrFun hs.info _), Stmt.pos, flagA_endAt, h.fresh p (by simp)] at hst
    simp at hst

theorem brk_ok (live : Bool) (p : Nat) (a : A) (h : Pre live [p] a) :
    PostS live (.brk p none) a (visitStmt (.brk p none) a) := by
  have hv : visitStmt (.brk p none) a = { sc := { a.sc with foundBreak := some none }, info := (flagA a p .other).info } := by
    simp [visitStmt, flagA]
  rw [hv]
  refine ⟨⟨?_, ?_, ?_, ?_, ?_, ?_, ?_, ?_⟩, ?_⟩
  · intro _; simp [Stmt.compl]
  · intro _; rfl
  · simp [Stmt.compl]
  · intro _; rfl
  · intro hc; exact hc
  · exact Or.inr rfl
  · intro q hq hu
    simp only [Stmt.positions, List.mem_singleton] at hq; subst hq
    have := own_pos_dead h q .other _ rfl hu
    simp [this]
  · intro q hq
    simp only [Stmt.positions, List.mem_singleton] at hq
    exact flagA_other a p .other q hq
  · intro _; simp [Stmt.compl]

theorem cont_ok (live : Bool) (p : Nat) (a : A) (h : Pre live [p] a) :
    PostS live (.cont p none) a (visitStmt (.cont p none) a) := by
  have hv : visitStmt (.cont p none) a = { sc := { a.sc with foundContinue := true }, info := (flagA a p .other).info } := by
    simp [visitStmt, flagA]
  rw [hv]
  refine ⟨⟨?_, ?_, ?_, ?_, ?_, ?_, ?_, ?_⟩, ?_⟩
  · intro _; simp [Stmt.compl]
  · simp [Stmt.compl]
  · intro _; rfl
  · intro hb; exact hb
  · intro _; rfl
  · exact h.fb
  · intro q hq hu
    simp only [Stmt.positions, List.mem_singleton] at hq; subst hq
    have := own_pos_dead h q .other _ rfl hu
    simp [this]
  · intro q hq
    simp only [Stmt.positions, List.mem_singleton] at hq
    exact flagA_other a p .other q hq
  · intro _; simp [Stmt.compl]

/-- `return` / `throw`: visit the argument, then `mark_as_end` with a forced end -/
theorem forcedLeaf_ok (live : Bool) (s : Stmt) (p : Nat) (a a1 : A) (e : End)
    (hpos : s.positions = [p]) (hp : s.pos = p) (hn : (s.compl []).n = false) (hb : (s.compl []).b = false)
    (hc : (s.compl []).c = false) (hr : ∀ q, s.reach q = (q == p))
    (hs : SameCtl (flagA a p .other) a1) (h : Pre live [p] a) :
    PostS live s a (markAsEnd p e a1) := by
  refine ⟨⟨?_, ?_, ?_, ?_, ?_, ?_, ?_, ?_⟩, ?_⟩
  · intro _; simp [hn]
  · simp [hb]
  · simp [hc]
  · intro h'; rw [markAsEnd_foundBreak, hs.fb]; exact h'
  · intro h'; rw [markAsEnd_foundContinue, hs.fc]; exact h'
  · unfold FB; rw [markAsEnd_foundBreak, hs.fb]; exact h.fb
  · intro q hq hu
    rw [hpos] at hq; simp only [List.mem_singleton] at hq; subst hq
    rw [markAsEnd_ur] at hu
    have := own_pos_dead h q .other _ (by rw [hs.info]) hu
    simp [this]
  · intro q hq
    rw [hpos] at hq; simp only [List.mem_singleton] at hq
    rw [markAsEnd_info_other _ _ _ _ hq, hs.info]; exact flagA_other a p .other q hq
  · intro _; simp [hn]

theorem ret_ok (live : Bool) (p : Nat) (arg : Kids) (a : A) (hk : arg.flat = true) (h : Pre live [p] a) :
    PostS live (.ret p arg) a (visitStmt (.ret p arg) a) := by
  have hv : visitStmt (.ret p arg) a = markAsEnd p forcedRet (visitKids arg (flagA a p .other)) := by
    simp [visitStmt, flagA]
  rw [hv]
  exact forcedLeaf_ok live _ p a _ _ rfl rfl (by simp [Stmt.compl]) (by simp [Stmt.compl]) (by simp [Stmt.compl])
    (fun q => rfl) (visitKids_flat arg _ hk) h

theorem throwEffect_same (a : A) : SameCtl a (throwEffect a) := by
  unfold throwEffect
  rcases h : a.sc.end_ with _ | ⟨r, t, i⟩ | _ | _ <;> simp only [h] <;>
    first | exact SameCtl.refl a | exact ⟨rfl, by simp [h], rfl, rfl⟩

theorem throw_ok (live : Bool) (p : Nat) (arg : Kids) (a : A) (hk : arg.flat = true) (h : Pre live [p] a) :
    PostS live (.throw p arg) a (visitStmt (.throw p arg) a) := by
  have hv : visitStmt (.throw p arg) a = markAsEnd p forcedThrow (throwEffect (visitKids arg (flagA a p .other))) := by
    simp [visitStmt, flagA]
  rw [hv]
  exact forcedLeaf_ok live _ p a _ _ rfl rfl (by simp [Stmt.compl]) (by simp [Stmt.compl]) (by simp [Stmt.compl])
    (fun q => rfl) ((visitKids_flat arg _ hk).trans (throwEffect_same _)) h

end DL.CF
