import DL.Lemmas.CFInner
import DL.Lemmas.CFUr2

/-!
# Soundness invariant of the control-flow analyzer on the fragment `inF`

Fragment `inF` (`DL.Lemmas.CFPos`): expression/declaration statements, blocks, `if`/`else`, `while`, `do-while`, `for`,
`for-in/of`, `switch`, `try`/`catch`/`finally`, labelled statements, `break`/`continue` (with or without label), `return`, `throw`; expressions may contain
function scopes (parameters, then a body block of the fragment) and statements nested directly in them (`with` bodies,
class static blocks), to any depth; where nested statements may sit is restricted as described in `DL.Lemmas.CFPos`.

For a statement visited with the analyzer state `a` at a program point that is reachable iff `live`:

* `p1`  if the scope's end stops afterwards, the statement cannot complete normally (when live);
* `p2`  if it can break (unlabelled), `found_break = Some(None)` afterwards;  `p2c` likewise for `continue`, `p2l` for
  labelled `continue`s (a labelled `break` needs no invariant: only `labeled` turns it into a normal completion, and
  a labelled statement never ends the enclosing scope);
* `p3`  every statement position flagged `unreachable` inside it is not reached in the flow; `p3i` nor from the entry
  of a function nested in it;
* `p4`  if the end recorded under its own position stops, it cannot complete normally (not claimed for expression and
  declaration statements, whose key may be shared with a function they start with);
* `frame`  metadata outside its positions is untouched;
* `pT`  if it can throw (when live), the scope's `may_throw` is set afterwards; `monoT` it is never reset
  (the `try` statement resets it for its block and handler and restores it at its end).
-/
namespace DL.CF

/-! ### flat expression lists only touch `hoist` and `may_throw` -/
structure SameCtl (a b : A) : Prop where
  info : b.info = a.info
  end_ : b.sc.end_ = a.sc.end_
  fb : b.sc.foundBreak = a.sc.foundBreak
  fc : b.sc.foundContinue = a.sc.foundContinue

theorem SameCtl.refl (a : A) : SameCtl a a := ⟨rfl, rfl, rfl, rfl⟩
theorem SameCtl.trans {a b c : A} (h1 : SameCtl a b) (h2 : SameCtl b c) : SameCtl a c :=
  ⟨h2.info.trans h1.info, h2.end_.trans h1.end_, h2.fb.trans h1.fb, h2.fc.trans h1.fc⟩

theorem exprEffect_same (k : EKind) (a : A) : SameCtl a (exprEffect k a) := by
  unfold exprEffect
  rcases h : a.sc.end_ with _ | ⟨r, t, i⟩ | _ | _ <;> cases k <;> simp [h] <;> exact ⟨rfl, by simp [h], rfl, rfl⟩

/-! ### the invariant -/
structure Pre (live : Bool) (ps : List Nat) (a : A) : Prop where
  hs : stopsEnd a.sc.end_ = true → live = false
  fresh : ∀ p ∈ ps, a.info.endAt p = none
  nodup : ps.Nodup

/-- precondition for visiting expressions -/
structure PreK (ps : List Nat) (a : A) : Prop where
  fresh : ∀ p ∈ ps, a.info.endAt p = none
  nodup : ps.Nodup

/-- what a visit records about the functions nested in it: every statement position flagged `unreachable` is not
reached from a function entry (`inn`), whatever the liveness of the enclosing point -/
structure PostI (us ps : List Nat) (inn : Nat → Bool) (a a' : A) : Prop where
  p3 : ∀ q ∈ us, a'.info.ur q = true → inn q = false
  frame : ∀ q, q ∉ ps → a'.info q = a.info q

/-- visiting expressions: the scope's end and `found_break` are unchanged, `found_continue` only grows -/
structure PostK (us ps : List Nat) (inn : Nat → Bool) (thr : Bool) (a a' : A) : Prop extends PostI us ps inn a a' where
  end_ : a'.sc.end_ = a.sc.end_
  fb : a'.sc.foundBreak = a.sc.foundBreak
  fc : a.sc.foundContinue = true → a'.sc.foundContinue = true
  mt : a.sc.mayThrow = true → a'.sc.mayThrow = true
  /-- if the expressions can throw (`thr`) and the scope has not ended, `may_throw` is set -/
  pT : stopsEnd a.sc.end_ = false → thr = true → a'.sc.mayThrow = true

structure PostL (live : Bool) (us ps : List Nat) (c : Compl) (reach inn : Nat → Bool) (a a' : A) : Prop where
  p1 : stopsEnd a'.sc.end_ = true → (live && c.n) = false
  p2 : (live && c.b) = true → a'.sc.foundBreak = some none
  p2c : (live && c.c) = true → a'.sc.foundContinue = true
  monoB : a.sc.foundBreak = some none → a'.sc.foundBreak = some none
  monoC : a.sc.foundContinue = true → a'.sc.foundContinue = true
  p2l : (live && c.hasCl) = true → a'.sc.foundContinue = true
  p3 : ∀ p ∈ us, a'.info.ur p = true → (live && reach p) = false
  p3i : ∀ p ∈ us, a'.info.ur p = true → inn p = false
  frame : ∀ q, q ∉ ps → a'.info q = a.info q
  monoT : a.sc.mayThrow = true → a'.sc.mayThrow = true
  pT : (live && c.t) = true → a'.sc.mayThrow = true

/-- `ls` = the labels that immediately label the statement -/
structure PostS (live : Bool) (ls : List Id) (s : Stmt) (a a' : A) : Prop
    extends PostL live s.upos s.positions (s.compl ls) s.reach s.inner a a' where
  p4 : s.isDeclOrExpr = false → stopsEnd (a'.info.endAt s.pos) = true → (live && (s.compl ls).n) = false

theorem Pre.sub {live : Bool} {ps qs : List Nat} {a : A} (h : Pre live ps a) (hsub : ∀ p ∈ qs, p ∈ ps) (hn : qs.Nodup) :
    Pre live qs a := ⟨h.hs, fun p hp => h.fresh p (hsub p hp), hn⟩

theorem endAt_eq_of_info_eq {i j : Info} {q : Nat} (h : i q = j q) : i.endAt q = j.endAt q := by
  unfold Info.endAt; rw [h]
theorem ur_eq_of_info_eq {i j : Info} {q : Nat} (h : i q = j q) : i.ur q = j.ur q := by
  unfold Info.ur; rw [h]

/-- recording the `unreachable` flag of a statement at `p` -/
theorem flag_sound {live : Bool} {ps : List Nat} {a : A} (h : Pre live ps a) (t : Tag)
    (hu : unreachableFlag a.sc t = true) : live = false := by
  apply h.hs
  unfold unreachableFlag at hu
  split at hu
  · assumption
  · cases hu

/-! ### `with_child_scope` for the two kinds of the fragment -/
theorem childEnd_stops (kind : BlockKind) (prev : Option End) (h : stopsEnd (childEnd kind prev) = true) :
    stopsEnd prev = true := by
  unfold childEnd at h
  cases kind <;> simp only [stopsEnd_none, Bool.false_eq_true] at h <;>
    (by_cases hf : isForcedEnd prev = true
     · simp only [hf, if_true] at h; exact h
     · simp [hf] at h)

/-- the child scope an `If`/`Loop` body is visited in -/
def childA (kind : BlockKind) (a : A) : A := { sc := { end_ := childEnd kind a.sc.end_ }, info := a.info }

/-- `with_child_scope(BlockKind::If, ..)` -/
theorem withChild_if (p : Nat) (op : A → A) (a : A) :
    withChild .ifK p op a =
      { sc := mergeSc .ifK a.sc (op (childA .ifK a)).sc, info := (op (childA .ifK a)).info } := by
  simp only [withChild, withChildR, childA, childExit]
  cases (op _).sc.end_ <;> rfl

/-- `with_child_scope(BlockKind::Loop, ..)` -/
theorem withChild_loop (p : Nat) (op : A → A) (a : A) :
    withChild .loop p op a =
      childExit .loop p a.sc.end_ { sc := mergeSc .loop a.sc (op (childA .loop a)).sc, info := (op (childA .loop a)).info }
        (op (childA .loop a)).sc.end_ := by
  simp only [withChild, withChildR, childA]

end DL.CF

namespace DL.CF

/-- the state right after `visit_stmt` recorded the `unreachable` flag at `p` -/
def flagA (a : A) (p : Nat) (t : Tag) : A := { a with info := a.info.setUnreach p (unreachableFlag a.sc t) }

@[simp] theorem flagA_sc (a : A) (p : Nat) (t : Tag) : (flagA a p t).sc = a.sc := rfl
theorem flagA_endAt (a : A) (p : Nat) (t : Tag) (q : Nat) : (flagA a p t).info.endAt q = a.info.endAt q := by
  simp [flagA]
theorem flagA_other (a : A) (p : Nat) (t : Tag) (q : Nat) (h : q ≠ p) : (flagA a p t).info q = a.info q := by
  simp [flagA, Info.setUnreach, h]
theorem flagA_ur_self (a : A) (p : Nat) (t : Tag) : (flagA a p t).info.ur p = unreachableFlag a.sc t := by
  simp [flagA, ur_setUnreach]

theorem Pre.flag {live : Bool} {ps qs : List Nat} {a : A} (h : Pre live ps a) (p : Nat) (t : Tag)
    (hsub : ∀ q ∈ qs, q ∈ ps) (hn : qs.Nodup) : Pre live qs (flagA a p t) :=
  ⟨h.hs, fun q hq => by rw [flagA_endAt]; exact h.fresh q (hsub q hq), hn⟩

/-- facts shared by every case: what happened at the statement's own position `p` -/
theorem own_pos_dead {live : Bool} {ps : List Nat} {a : A} (h : Pre live ps a) (p : Nat) (t : Tag) (i : Info)
    (hi : i.ur p = (flagA a p t).info.ur p) (hu : i.ur p = true) : live = false := by
  rw [hi, flagA_ur_self] at hu
  exact flag_sound h t hu

theorem Pre.notStopped {live : Bool} {ps : List Nat} {a : A} (h : Pre live ps a) (hl : live = true) :
    stopsEnd a.sc.end_ = false := by
  cases hs : stopsEnd a.sc.end_ with
  | false => rfl
  | true => rw [h.hs hs] at hl; cases hl

theorem PreK.of_pre {live : Bool} {ps qs : List Nat} {a : A} (h : Pre live ps a) (hsub : ∀ p ∈ qs, p ∈ ps) (hn : qs.Nodup) :
    PreK qs a := ⟨fun p hp => h.fresh p (hsub p hp), hn⟩

theorem PreK.flag {ps : List Nat} {a : A} (h : PreK ps a) (p : Nat) (t : Tag) : PreK ps (flagA a p t) :=
  ⟨fun q hq => by rw [flagA_endAt]; exact h.fresh q hq, h.nodup⟩

/-! ### leaf statements -/
/-- what visiting the kids of a statement guarantees: they are evaluated in order in the enclosing flow, and the
statements nested directly in them (`with` bodies, class static blocks) behave like statements of that flow -/
abbrev KidsL (live : Bool) (ks : Kids) (a a' : A) : Prop :=
  PostL live ks.upos ks.positions ks.compl ks.flowReach ks.inner a a'

theorem Pre.of_sub_flag {live : Bool} {ps qs : List Nat} {a : A} (h : Pre live ps a) (p : Nat) (t : Tag)
    (hsub : ∀ q ∈ qs, q ∈ ps) (hn : qs.Nodup) : Pre live qs (flagA a p t) := h.flag p t hsub hn

theorem simple_ok (live : Bool) (ls : List Id) (p : Nat) (t : Tag) (kids : Kids) (a : A)
    (h : Pre live (Stmt.simple p t kids).positions a)
    (ihk : ∀ x, Pre live kids.positions x → KidsL live kids x (visitKids kids x)) :
    PostS live ls (.simple p t kids) a (visitStmt (.simple p t kids) a) := by
  have hv : visitStmt (.simple p t kids) a = visitKids kids (flagA a p t) := by simp [visitStmt, flagA]
  have hsep := Stmt.simple_own_sep p t kids h.nodup
  have hur : (visitKids kids (flagA a p t)).info.ur p = (flagA a p t).info.ur p := Kids.ur_frame kids _ p hsep.1
  have hprek : Pre live kids.positions (flagA a p t) :=
    h.flag p t (fun q hq => (Stmt.mem_positions_simple p t kids q).mpr (Or.inr hq)) (Stmt.nodup_simple p t kids h.nodup)
  have hs := ihk _ hprek
  rw [hv]
  generalize visitKids kids (flagA a p t) = a1 at hs hur
  have hc : Stmt.compl ls (.simple p t kids) = kids.compl := by simp [Stmt.compl]
  rw [show PostS live ls (.simple p t kids) a a1 = PostS live ls (.simple p t kids) a a1 from rfl]
  refine ⟨⟨?_, ?_, ?_, ?_, ?_, ?_, ?_, ?_, ?_, ?_, ?_⟩, ?_⟩
  · rw [hc]; exact hs.p1
  · rw [hc]; exact hs.p2
  · rw [hc]; exact hs.p2c
  · exact hs.monoB
  · exact hs.monoC
  · rw [hc]; exact hs.p2l
  · intro q hq hu
    simp only [Stmt.upos, List.mem_cons] at hq
    rcases hq with rfl | hq
    · have := own_pos_dead h q t _ hur hu
      simp [this]
    · have hne : q ≠ p := fun e => hsep.1 (e ▸ hq)
      have := hs.p3 q hq hu
      simp only [Stmt.reach]
      revert this; cases live <;> simp [hne]
  · intro q hq hu
    simp only [Stmt.upos, List.mem_cons] at hq
    simp only [Stmt.inner]
    rcases hq with rfl | hq
    · exact hsep.2
    · exact hs.p3i q hq hu
  · intro q hq
    rw [Stmt.mem_positions_simple, not_or] at hq
    rw [hs.frame q hq.2]; exact flagA_other a p t q hq.1
  · exact hs.monoT
  · rw [hc]; exact hs.pT
  · intro hde hst
    rw [Stmt.isDeclOrExpr_simple] at hde
    have hpos := Stmt.positions_simple_nde p t kids hde
    have hnd := h.nodup; rw [hpos] at hnd
    have hp : p ∉ kids.positions := (List.nodup_cons.mp hnd).1
    rw [Stmt.pos, endAt_eq_of_info_eq (hs.frame p hp), flagA_endAt, h.fresh p (by rw [hpos]; simp)] at hst
    simp at hst

theorem brk_ok (live : Bool) (ls : List Id) (l : Option Id) (p : Nat) (a : A) (h : Pre live [p] a) :
    PostS live ls (.brk p l) a (visitStmt (.brk p l) a) := by
  have hv : visitStmt (.brk p l) a =
      { sc := { a.sc with foundBreak := if (l.isSome && a.sc.foundBreak == some none) = true then a.sc.foundBreak else some l },
        info := (flagA a p .other).info } := by
    simp [visitStmt, flagA]
  rw [hv]
  refine ⟨⟨?_, ?_, ?_, ?_, ?_, ?_, ?_, ?_, ?_, ?_, ?_⟩, ?_⟩
  · intro _; cases l <;> simp [Stmt.compl]
  · cases l <;> simp [Stmt.compl]
  · cases l <;> simp [Stmt.compl]
  · intro hb; simp only [hb]; cases l <;> simp
  · intro hc; exact hc
  · cases l <;> simp [Stmt.compl, Compl.hasCl]
  · intro q hq hu
    simp only [Stmt.upos, List.mem_singleton] at hq; subst hq
    have := own_pos_dead h q .other _ rfl hu
    simp [this]
  · intro q _ _; rfl
  · intro q hq
    simp only [Stmt.positions, List.mem_singleton] at hq
    exact flagA_other a p .other q hq
  · exact id
  · cases l <;> simp [Stmt.compl]
  · intro _ _; cases l <;> simp [Stmt.compl]

theorem cont_ok (live : Bool) (ls : List Id) (l : Option Id) (p : Nat) (a : A) (h : Pre live [p] a) :
    PostS live ls (.cont p l) a (visitStmt (.cont p l) a) := by
  have hv : visitStmt (.cont p l) a = { sc := { a.sc with foundContinue := true }, info := (flagA a p .other).info } := by
    simp [visitStmt, flagA]
  rw [hv]
  refine ⟨⟨?_, ?_, ?_, ?_, ?_, ?_, ?_, ?_, ?_, ?_, ?_⟩, ?_⟩
  · intro _; cases l <;> simp [Stmt.compl]
  · cases l <;> simp [Stmt.compl]
  · intro _; rfl
  · intro hb; exact hb
  · intro _; rfl
  · intro _; rfl
  · intro q hq hu
    simp only [Stmt.upos, List.mem_singleton] at hq; subst hq
    have := own_pos_dead h q .other _ rfl hu
    simp [this]
  · intro q _ _; rfl
  · intro q hq
    simp only [Stmt.positions, List.mem_singleton] at hq
    exact flagA_other a p .other q hq
  · exact id
  · cases l <;> simp [Stmt.compl]
  · intro _ _; cases l <;> simp [Stmt.compl]

/-- `return` / `throw`: visit the argument, then `mark_as_end` with a forced end -/
theorem forcedLeaf_ok (live : Bool) (ls : List Id) (s : Stmt) (p : Nat) (arg : Kids) (a a1 a2 : A) (e : End)
    (hpos : s.positions = p :: arg.positions) (hup : s.upos = p :: arg.upos) (hp : s.pos = p)
    (hn : (s.compl ls).n = false) (hb : (s.compl ls).b = false)
    (hc : (s.compl ls).c = false) (hl : (s.compl ls).hasCl = false)
    (hr : ∀ q, s.reach q = (q == p || arg.flowReach q)) (hin : ∀ q, s.inner q = arg.inner q)
    (hk : KidsL live arg (flagA a p .other) a1)
    (hs : SameCtl a1 a2) (hmt : a1.sc.mayThrow = true → a2.sc.mayThrow = true)
    (hpt : (live && (s.compl ls).t) = true → a2.sc.mayThrow = true) (h : Pre live (p :: arg.positions) a) :
    PostS live ls s a (markAsEnd p e a2) := by
  have hnd := List.nodup_cons.mp h.nodup
  refine ⟨⟨?_, ?_, ?_, ?_, ?_, ?_, ?_, ?_, ?_, ?_, ?_⟩, ?_⟩
  · intro _; simp [hn]
  · simp [hb]
  · simp [hc]
  · intro h'; rw [markAsEnd_foundBreak, hs.fb]; exact hk.monoB h'
  · intro h'; rw [markAsEnd_foundContinue, hs.fc]; exact hk.monoC h'
  · simp [hl]
  · intro q hq hu
    rw [hup] at hq
    rw [markAsEnd_ur, hs.info] at hu
    rcases List.mem_cons.mp hq with rfl | hq
    · rw [ur_eq_of_info_eq (hk.frame q hnd.1)] at hu
      have := own_pos_dead h q .other _ rfl hu
      simp [this]
    · have hne : q ≠ p := fun e => hnd.1 (e ▸ Kids.upos_sub arg q hq)
      have := hk.p3 q hq hu
      rw [hr]
      revert this; cases live <;> simp [hne]
  · intro q hq hu
    rw [hup] at hq
    rw [markAsEnd_ur, hs.info] at hu
    rw [hin]
    rcases List.mem_cons.mp hq with rfl | hq
    · exact Kids.inner_false arg q hnd.1
    · exact hk.p3i q hq hu
  · intro q hq
    rw [hpos] at hq; simp only [List.mem_cons, not_or] at hq
    rw [markAsEnd_info_other _ _ _ _ hq.1, hs.info, hk.frame q hq.2]; exact flagA_other a p .other q hq.1
  · intro hh; rw [markAsEnd_mayThrow]; exact hmt (hk.monoT hh)
  · intro hh; rw [markAsEnd_mayThrow]; exact hpt hh
  · intro _ _; simp [hn]

theorem ret_ok (live : Bool) (ls : List Id) (p : Nat) (arg : Kids) (a : A) (hpl : arg.compl.plain = true)
    (h : Pre live (p :: arg.positions) a)
    (ihk : ∀ x, Pre live arg.positions x → KidsL live arg x (visitKids arg x)) :
    PostS live ls (.ret p arg) a (visitStmt (.ret p arg) a) := by
  have hv : visitStmt (.ret p arg) a = markAsEnd p forcedRet (visitKids arg (flagA a p .other)) := by
    simp [visitStmt, flagA]
  rw [hv]
  have hnd := List.nodup_cons.mp h.nodup
  have hk := ihk _ (h.flag p .other (fun q hq => List.mem_cons_of_mem _ hq) hnd.2)
  refine forcedLeaf_ok live ls _ p arg a _ _ _ rfl rfl rfl (by simp [Stmt.compl]) (by simp [Stmt.compl, Compl.plain_b hpl])
    (by simp [Stmt.compl, Compl.plain_c hpl]) (by simp only [Stmt.compl, seq_hasCl, evalCompl_eq, Compl.plain_hasCl hpl]; simp [Compl.hasCl])
    (fun q => rfl) (fun q => rfl) hk (SameCtl.refl _) id ?_ h
  intro hh
  apply hk.pT
  simpa [Stmt.compl] using hh

theorem throwEffect_same (a : A) : SameCtl a (throwEffect a) := by
  unfold throwEffect
  rcases h : a.sc.end_ with _ | ⟨r, t, i⟩ | _ | _ <;> simp only [h] <;>
    first | exact SameCtl.refl a | exact ⟨rfl, by simp [h], rfl, rfl⟩

theorem throwEffect_mt (a : A) : (a.sc.mayThrow = true → (throwEffect a).sc.mayThrow = true) ∧
    (stopsEnd a.sc.end_ = false → (throwEffect a).sc.mayThrow = true) := by
  unfold throwEffect
  rcases h : a.sc.end_ with _ | ⟨r, t, i⟩ | _ | _ <;> simp [h]

theorem throw_ok (live : Bool) (ls : List Id) (p : Nat) (arg : Kids) (a : A) (hpl : arg.compl.plain = true)
    (h : Pre live (p :: arg.positions) a)
    (ihk : ∀ x, Pre live arg.positions x → KidsL live arg x (visitKids arg x)) :
    PostS live ls (.throw p arg) a (visitStmt (.throw p arg) a) := by
  have hv : visitStmt (.throw p arg) a = markAsEnd p forcedThrow (throwEffect (visitKids arg (flagA a p .other))) := by
    simp [visitStmt, flagA]
  rw [hv]
  have hnd := List.nodup_cons.mp h.nodup
  have hk := ihk _ (h.flag p .other (fun q hq => List.mem_cons_of_mem _ hq) hnd.2)
  refine forcedLeaf_ok live ls _ p arg a _ _ _ rfl rfl rfl (by simp [Stmt.compl]) (by simp [Stmt.compl, Compl.plain_b hpl])
    (by simp [Stmt.compl, Compl.plain_c hpl]) (by simp only [Stmt.compl, seq_hasCl, evalCompl_eq, Compl.plain_hasCl hpl]; simp [Compl.hasCl])
    (fun q => rfl) (fun q => rfl) hk (throwEffect_same _) (throwEffect_mt _).1 ?_ h
  intro hh
  simp only [Stmt.compl, seq_t, evalCompl_eq, Bool.and_true] at hh
  cases h1 : (live && arg.compl.t) with
  | true => exact (throwEffect_mt _).1 (hk.pT h1)
  | false =>
    apply (throwEffect_mt _).2
    have hn : (live && arg.compl.n) = true := by
      revert hh h1; cases live <;> cases arg.compl.t <;> cases arg.compl.n <;> simp
    cases hst : stopsEnd (visitKids arg (flagA a p .other)).sc.end_ with
    | false => rfl
    | true => rw [hk.p1 hst] at hn; cases hn

end DL.CF
