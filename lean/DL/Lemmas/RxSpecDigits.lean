import DL.Lemmas.RxSpecTac

/-! # Soundness w.r.t. the grammar: digit runs -/
namespace DL.Rx
open DL.RxSpec

theorem isScalar_ascii : ∀ x, x < 0x80 → isScalar x = true := by decide

attribute [local irreducible] isScalar
variable {src : List Nat} {N : Nat}

theorem decimalDigit_of_isAsciiDigit {x : Nat} (h : isAsciiDigit x = true) : DecimalDigit x := by
  unfold isAsciiDigit at h
  by_cases hs : isScalar x = true
  · rw [if_pos hs] at h
    have h' : 0x30 ≤ x ∧ x ≤ 0x39 := of_decide_eq_true h
    exact h'
  · rw [if_neg hs] at h; cases h

theorem toDigit10_eq {x : Nat} (h : isAsciiDigit x = true) : toDigit x 10 = some (decVal x) := by
  have hd := decimalDigit_of_isAsciiDigit h
  unfold isAsciiDigit at h
  unfold toDigit
  by_cases hs : isScalar x = true
  · rw [if_pos hs]
    have hd' : 0x30 ≤ x ∧ x ≤ 0x39 := hd
    unfold charToDigit
    rw [if_pos hd']; dsimp only
    rw [if_pos (by omega)]; rfl
  · rw [if_neg hs] at h; cases h

/-- the model's accumulation of a decimal digit string (saturating) -/
def accDec (v : Int) (ds : List Nat) : Int := ds.foldl (fun a d => satMulAdd 10 a (decVal d)) v

theorem isAsciiDigit_of_decimalDigit {x : Nat} (h : DecimalDigit x) : isAsciiDigit x = true := by
  have h' : 0x30 ≤ x ∧ x ≤ 0x39 := h
  unfold isAsciiDigit
  rw [if_pos (isScalar_ascii x (by omega))]
  exact decide_eq_true h'

theorem not_decimalDigit_of {x : Nat} (h : (!isAsciiDigit x) = true) : ¬DecimalDigit x := by
  intro hd
  rw [isAsciiDigit_of_decimalDigit hd] at h
  cases h

theorem forall_mem_nil {p : Nat → Prop} : ∀ d ∈ ([] : List Nat), p d := fun _ h => (List.not_mem_nil h).elim
theorem forall_head_nil {p : Nat → Prop} : ∀ d, ([] : List Nat).head? = some d → p d := fun _ h => nomatch h

theorem accDec_cons (v : Int) (x : Nat) (ds : List Nat) :
    accDec v (x :: ds) = accDec (satMulAdd 10 v (decVal x)) ds := rfl

theorem eatDecimalEscapeLoop_wp : ∀ (n : Nat) (r : List Nat) (s : St), UAt src N r s →
    Wp (eatDecimalEscapeLoop n s) (fun _ s1 => ∃ ds r1, r = ds ++ r1 ∧ (∀ d ∈ ds, DecimalDigit d) ∧
      (∀ d, r1.head? = some d → ¬DecimalDigit d) ∧ UAt src N r1 s1 ∧
      s1 = (s.setPos src (s.reader.index + ds.length)).withInt (accDec s.lastIntValue ds))
  | 0, _, _, _ => Wp.outOfFuel
  | n + 1, r, s, h => by
    have ih := eatDecimalEscapeLoop_wp n
    unfold eatDecimalEscapeLoop
    rx4_auto
    · -- a digit: the rest of the run comes from the induction hypothesis
      rename_i x r' hn d hd hat a s1 ds r1 hr hds hnx hat1 hs1
      subst hs1
      have hx : isAsciiDigit x = true := by simpa using hn
      rw [toDigit10_eq hx] at hd
      cases hd
      refine ⟨x :: ds, r1, by rw [hr]; rfl, ?_, hnx, hat1, ?_⟩
      · intro d hd
        rcases List.mem_cons.mp hd with rfl | hd
        · exact decimalDigit_of_isAsciiDigit hx
        · exact hds d hd
      · st_norm
        rw [accDec_cons, List.length_cons, Nat.add_assoc, Nat.add_comm 1]
    · -- not a digit
      rename_i x r' hc
      refine ⟨[], x :: r', rfl, forall_mem_nil, ?_, h, ?_⟩
      · intro d hd; cases hd; exact not_decimalDigit_of hc
      · show s = (s.setPos src (s.reader.index + 0)).withInt s.lastIntValue
        rw [Nat.add_zero, setPos_self h.inv]; rfl
    · -- end of input
      exact ⟨[], [], rfl, forall_mem_nil, forall_head_nil, h, by
        show s = (s.setPos src (s.reader.index + 0)).withInt s.lastIntValue
        rw [Nat.add_zero, setPos_self h.inv]; rfl⟩

end DL.Rx

namespace DL.Rx
open DL.RxSpec
attribute [local irreducible] isScalar
variable {src : List Nat} {N : Nat}

/-- an `i64` that accumulates a natural number with saturation -/
def satI (v : Nat) : Int := if (v : Int) ≤ i64Max then (v : Int) else i64Max

theorem satI_le (v : Nat) : satI v ≤ i64Max := by
  unfold satI; split <;> omega

theorem satMulAdd_satI10 (a d : Nat) : satMulAdd 10 (satI a) d = satI (10 * a + d) := by
  unfold satMulAdd satI i64Max
  by_cases h1 : (a : Int) ≤ 9223372036854775807
  · rw [if_pos h1]
    by_cases h2 : ((10 * a + d : Nat) : Int) ≤ 9223372036854775807
    · rw [if_pos h2, if_pos (by omega)]; omega
    · rw [if_neg h2, if_neg (by omega)]
  · rw [if_neg h1, if_neg (by omega), if_neg (by omega)]

theorem satMulAdd_satI16 (a d : Nat) : satMulAdd 16 (satI a) d = satI (16 * a + d) := by
  unfold satMulAdd satI i64Max
  by_cases h1 : (a : Int) ≤ 9223372036854775807
  · rw [if_pos h1]
    by_cases h2 : ((16 * a + d : Nat) : Int) ≤ 9223372036854775807
    · rw [if_pos h2, if_pos (by omega)]; omega
    · rw [if_neg h2, if_neg (by omega)]
  · rw [if_neg h1, if_neg (by omega), if_neg (by omega)]

theorem accDec_satI (a : Nat) (ds : List Nat) :
    accDec (satI a) ds = satI (ds.foldl (fun a d => 10 * a + decVal d) a) := by
  induction ds generalizing a with
  | nil => rfl
  | cons d ds ih => rw [accDec_cons, satMulAdd_satI10, ih]; rfl

theorem accDec_zero (ds : List Nat) : accDec 0 ds = satI (mvDec ds) := accDec_satI 0 ds

end DL.Rx
