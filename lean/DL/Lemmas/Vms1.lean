import DL.Model.Vms
/-!
# Generic list facts used by the C13 proof for M-VMS

`usageIdx`, counting, and how `List.modify` / `List.eraseIdx` at an index act on counts and on membership.
-/
namespace DL.Vms

/-! ## `usageIdx` -/

theorem usageIdx_length (p : α → Bool) (l : List α) (i : Nat) :
    (usageIdx p l i).length = l.countP p := by
  induction l generalizing i with
  | nil => rfl
  | cons a r ih =>
    simp only [usageIdx, List.length_append, ih, List.countP_cons]
    cases p a <;> simp <;> omega

theorem mem_usageIdx (p : α → Bool) (l : List α) (i j : Nat) :
    j ∈ usageIdx p l i ↔ i ≤ j ∧ ∃ a, l[j - i]? = some a ∧ p a = true := by
  induction l generalizing i with
  | nil => simp [usageIdx]
  | cons a r ih =>
    simp only [usageIdx, List.mem_append, ih]
    constructor
    · rintro (h | ⟨h1, b, h2, h3⟩)
      · cases hp : p a
        · simp [hp] at h
        · simp [hp] at h
          subst h
          exact ⟨Nat.le_refl _, a, by simp, hp⟩
      · refine ⟨by omega, b, ?_, h3⟩
        have : j - i = (j - (i + 1)) + 1 := by omega
        rw [this]; simpa using h2
    · rintro ⟨h1, b, h2, h3⟩
      by_cases hji : j = i
      · subst hji
        simp at h2
        subst h2
        left; simp [h3]
      · right
        refine ⟨by omega, b, ?_, h3⟩
        have : j - i = (j - (i + 1)) + 1 := by omega
        rw [this] at h2; simpa using h2

/-! ## counting with two disjoint predicates -/

theorem countP_add_countP_of_disjoint (p t : α → Bool) (hd : ∀ a, p a = true → t a = false) (l : List α) :
    l.countP p + l.countP t = l.countP (fun a => p a || t a) := by
  induction l with
  | nil => rfl
  | cons a r ih =>
    simp only [List.countP_cons]
    cases hp : p a
    · cases ht : t a <;> simp <;> omega
    · have := hd a hp
      simp [this]; omega

theorem countP_add_countP_le (p t : α → Bool) (hd : ∀ a, p a = true → t a = false) (l : List α) :
    l.countP p + l.countP t ≤ l.length := by
  rw [countP_add_countP_of_disjoint p t hd]
  exact List.countP_le_length

theorem all_of_length_eq (p t : α → Bool) (hd : ∀ a, p a = true → t a = false) (l : List α)
    (h : l.length = l.countP p + l.countP t) : ∀ a ∈ l, p a = true ∨ t a = true := by
  rw [countP_add_countP_of_disjoint p t hd] at h
  have := (List.countP_eq_length (p := fun a => p a || t a) (l := l)).1 h.symm
  intro a ha
  simpa using this a ha

/-! ## `modify` at an index -/

theorem countP_modify (q : α → Bool) (f : α → α) (l : List α) (i : Nat) (a : α) (h : l[i]? = some a) :
    (l.modify i f).countP q + (if q a then 1 else 0) = l.countP q + (if q (f a) then 1 else 0) := by
  induction l generalizing i with
  | nil => simp at h
  | cons b r ih =>
    cases i with
    | zero =>
      simp at h; subst h
      simp only [List.modify_zero_cons, List.countP_cons]; omega
    | succ i =>
      simp at h
      have := ih i h
      simp only [List.modify_succ_cons, List.countP_cons]; omega

theorem mem_modify_or (f : α → α) (l : List α) (i : Nat) (a : α) (h : l[i]? = some a) :
    ∀ b ∈ l, b ∈ l.modify i f ∨ b = a := by
  induction l generalizing i with
  | nil => simp
  | cons c r ih =>
    intro b hb
    cases i with
    | zero =>
      simp at h; subst h
      simp only [List.modify_zero_cons, List.mem_cons] at hb ⊢
      rcases hb with hb | hb
      · right; exact hb
      · left; right; exact hb
    | succ i =>
      simp at h
      simp only [List.modify_succ_cons, List.mem_cons] at hb ⊢
      rcases hb with hb | hb
      · left; left; exact hb
      · rcases ih i h b hb with h1 | h1
        · left; right; exact h1
        · right; exact h1

theorem mem_of_mem_modify (f : α → α) (l : List α) (i : Nat) :
    ∀ b ∈ l.modify i f, b ∈ l ∨ ∃ c ∈ l, b = f c := by
  induction l generalizing i with
  | nil => simp
  | cons c r ih =>
    intro b hb
    cases i with
    | zero =>
      simp only [List.modify_zero_cons, List.mem_cons] at hb ⊢
      rcases hb with hb | hb
      · right; exact ⟨c, Or.inl rfl, hb⟩
      · left; right; exact hb
    | succ i =>
      simp only [List.modify_succ_cons, List.mem_cons] at hb ⊢
      rcases hb with hb | hb
      · left; left; exact hb
      · rcases ih i b hb with h1 | ⟨c', h1, h2⟩
        · left; right; exact h1
        · right; exact ⟨c', Or.inr h1, h2⟩

/-! ## `eraseIdx` -/

theorem countP_eraseIdx' (q : α → Bool) (l : List α) (i : Nat) (a : α) (h : l[i]? = some a) :
    (l.eraseIdx i).countP q + (if q a then 1 else 0) = l.countP q := by
  induction l generalizing i with
  | nil => simp at h
  | cons b r ih =>
    cases i with
    | zero =>
      simp at h; subst h
      simp only [List.eraseIdx_zero, List.tail_cons, List.countP_cons]
    | succ i =>
      simp at h
      have := ih i h
      simp only [List.eraseIdx_cons_succ, List.countP_cons]; omega

theorem mem_eraseIdx_or (l : List α) (i : Nat) (a : α) (h : l[i]? = some a) :
    ∀ b ∈ l, b ∈ l.eraseIdx i ∨ b = a := by
  induction l generalizing i with
  | nil => simp
  | cons c r ih =>
    intro b hb
    cases i with
    | zero =>
      simp at h; subst h
      simp only [List.eraseIdx_zero, List.tail_cons, List.mem_cons] at hb ⊢
      rcases hb with hb | hb
      · right; exact hb
      · left; exact hb
    | succ i =>
      simp at h
      simp only [List.eraseIdx_cons_succ, List.mem_cons] at hb ⊢
      rcases hb with hb | hb
      · left; left; exact hb
      · rcases ih i h b hb with h1 | h1
        · left; right; exact h1
        · right; exact h1

theorem length_eraseIdx' (l : List α) (i : Nat) (a : α) (h : l[i]? = some a) :
    (l.eraseIdx i).length + 1 = l.length := by
  have hi : i < l.length := by
    rcases List.getElem?_eq_some_iff.1 h with ⟨hi, _⟩; exact hi
  rw [List.length_eraseIdx_of_lt hi]; omega

end DL.Vms
