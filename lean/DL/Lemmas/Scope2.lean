import DL.Model.Scope2

/-! Lemmas about M-SCOPE2: lookup, `lets` / `vars`, one-hole contexts (with hoisting) and the bound case. -/
namespace DL.Scope2

theorem lookup_cons (id : Sid) (fr : List Nat) (env : Env) (x : Nat) :
    lookup ((id, fr) :: env) x = if x ∈ fr then some id else lookup env x := rfl

theorem lookup_none_iff (env : Env) (x : Nat) : lookup env x = none ↔ ∀ f ∈ env, x ∉ f.2 := by
  induction env with
  | nil => simp [lookup]
  | cons f r ih =>
    obtain ⟨id, fr⟩ := f
    rw [lookup_cons]
    by_cases h : x ∈ fr
    · simp [h]
    · simp [h, ih]

theorem lookup_some_of_tail {env : Env} {x : Nat} (f : Sid × List Nat) (h : lookup env x ≠ none) :
    lookup (f :: env) x ≠ none := by
  obtain ⟨id, fr⟩ := f
  rw [lookup_cons]
  by_cases hx : x ∈ fr
  · simp [hx]
  · simpa [hx] using h

theorem lookup_some_of_append {env : Env} {x : Nat} (fs : Env) (h : lookup env x ≠ none) :
    lookup (fs ++ env) x ≠ none := by
  induction fs with
  | nil => exact h
  | cons f r ih => exact lookup_some_of_tail f ih

/-! ### `lets` and `vars` -/
/-- an item that is not itself a lexical declaration -/
def Item.notLet : Item → Bool
  | .letDecl _ => false
  | _ => true

theorem lets_cons_notLet (i : Item) (r : Items) (h : i.notLet = true) : (Items.cons i r).lets = r.lets := by
  cases i <;> first | rfl | simp [Item.notLet] at h

theorem lets_append : (a b : Items) → (a.append b).lets = a.lets ++ b.lets
  | .nil, _ => rfl
  | .cons i r, b => by
    have ih := lets_append r b
    cases i <;> simp [Items.append, Items.lets, ih]

theorem vars_append : (a b : Items) → (a.append b).vars = a.vars ++ b.vars
  | .nil, _ => rfl
  | .cons i r, b => by simp [Items.append, Items.vars, vars_append r b]

theorem res_append (env : Env) : (a b : Items) → (a.append b).res env = a.res env ++ b.res env
  | .nil, _ => by simp [Items.append, Items.res]
  | .cons i r, b => by simp [Items.append, Items.res, res_append env r b]

theorem plug_notLet (ls : List Layer) (i : Item) (h : i.notLet = true) : (plug ls i).notLet = true := by
  cases ls with
  | nil => exact h
  | cons l r => cases l <;> rfl

theorem wrap_vars (l : Layer) (inner : Item) : (l.wrap inner).vars = l.out inner.vars := by
  cases l <;> simp [Layer.wrap, Layer.out, Item.vars, vars_append, Items.vars]

/-- `holeVars` computes the `var`s of the plugged item -/
theorem plug_vars (ls : List Layer) (inner : Item) : (plug ls inner).vars = holeVars ls inner.vars := by
  induction ls with
  | nil => rfl
  | cons l r ih => simp only [plug, holeVars, wrap_vars, ih]

/-- the frames a layer pushes when the hole holds a non-(lexical-)declaration whose `var`s are `inner.vars` -/
theorem wrap_res (l : Layer) (inner : Item) (h : inner.notLet = true) (env : Env) :
    ∃ pre post, (l.wrap inner).res env = pre ++ inner.res (l.frames inner.vars ++ env) ++ post := by
  cases l with
  | block id pre post =>
    refine ⟨pre.res ((.scope id, pre.lets ++ post.lets) :: env), post.res ((.scope id, pre.lets ++ post.lets) :: env), ?_⟩
    simp only [Layer.wrap, Item.res, lets_append, lets_cons_notLet inner post h, res_append, Items.res,
      Layer.frames, List.append_assoc, List.cons_append, List.nil_append]
  | func id nm ps pre post =>
    refine ⟨declsIn ((.head id, nm.toList) :: env) nm.toList ++
        (declsIn ((.scope id, ps ++ (pre.lets ++ post.lets) ++ (pre.vars ++ (inner.vars ++ post.vars))) ::
          (.head id, nm.toList) :: env) ps ++
        pre.res ((.scope id, ps ++ (pre.lets ++ post.lets) ++ (pre.vars ++ (inner.vars ++ post.vars))) ::
          (.head id, nm.toList) :: env)),
      post.res ((.scope id, ps ++ (pre.lets ++ post.lets) ++ (pre.vars ++ (inner.vars ++ post.vars))) ::
          (.head id, nm.toList) :: env), ?_⟩
    simp only [Layer.wrap, Item.res, funcFrame, lets_append, vars_append, Items.vars, lets_cons_notLet inner post h,
      res_append, Items.res, Layer.frames, List.append_assoc, List.cons_append, List.nil_append]
  | catchC id p pre post =>
    refine ⟨declsIn ((.scope id, p.toList ++ (pre.lets ++ post.lets)) :: env) p.toList ++
        pre.res ((.scope id, p.toList ++ (pre.lets ++ post.lets)) :: env),
      post.res ((.scope id, p.toList ++ (pre.lets ++ post.lets)) :: env), ?_⟩
    simp only [Layer.wrap, Item.res, catchFrame, lets_append, lets_cons_notLet inner post h,
      res_append, Items.res, Layer.frames, List.append_assoc, List.cons_append, List.nil_append]
  | forLet id x pre post =>
    refine ⟨declsIn ((.head id, [x]) :: env) [x] ++
        pre.res ((.scope id, pre.lets ++ post.lets) :: (.head id, [x]) :: env),
      post.res ((.scope id, pre.lets ++ post.lets) :: (.head id, [x]) :: env), ?_⟩
    simp only [Layer.wrap, Item.res, lets_append, lets_cons_notLet inner post h,
      res_append, Items.res, Layer.frames, List.append_assoc, List.cons_append, List.nil_append]

theorem plug_res (ls : List Layer) (inner : Item) (h : inner.notLet = true) (env : Env) :
    ∃ pre post, (plug ls inner).res env = pre ++ inner.res (envOf ls inner.vars env) ++ post := by
  induction ls generalizing env with
  | nil => exact ⟨[], [], by simp [plug, envOf]⟩
  | cons l r ih =>
    obtain ⟨p1, q1, h1⟩ := wrap_res l (plug r inner) (plug_notLet r inner h) env
    obtain ⟨p2, q2, h2⟩ := ih (l.frames (holeVars r inner.vars) ++ env)
    refine ⟨p1 ++ p2, q2 ++ q1, ?_⟩
    rw [plug_vars] at h1
    simp only [plug, envOf, h1, h2, List.append_assoc]

/-! ### what the enclosing scopes declare -/
/-- the names a layer's scope(s) declare by themselves: name / parameters / catch parameter / loop variable, the lexical
declarations before and after the hole and, for a function, the `var`s of its own sibling subtrees -/
def Layer.own : Layer → List Nat
  | .block _ pre post => pre.lets ++ post.lets
  | .func _ nm ps pre post => nm.toList ++ (ps ++ (pre.lets ++ post.lets) ++ (pre.vars ++ post.vars))
  | .catchC _ p pre post => p.toList ++ (pre.lets ++ post.lets)
  | .forLet _ x pre post => x :: (pre.lets ++ post.lets)

/-- the `var`s hoisted out of the layers `ls` (outermost first): those declared beside the hole in the enclosing
non-function scopes, up to the nearest enclosing function (exclusive) -/
def hoisted : List Layer → List Nat
  | [] => []
  | l :: ls => if l.isFunc then [] else l.sideVars ++ hoisted ls

/-- some scope of the context declares `g`: by itself, or — a function — by a `var` hoisted from the scopes below it -/
def declares (g : Nat) : List Layer → Prop
  | [] => False
  | l :: ls => g ∈ l.own ∨ (l.isFunc = true ∧ g ∈ hoisted ls) ∨ declares g ls

theorem mem_holeVars (ls : List Layer) (v : List Nat) (x : Nat) :
    x ∈ holeVars ls v ↔ x ∈ hoisted ls ∨ ((∀ l ∈ ls, l.isFunc = false) ∧ x ∈ v) := by
  induction ls with
  | nil => simp [holeVars, hoisted]
  | cons l r ih =>
    cases l <;> simp [holeVars, hoisted, Layer.out, Layer.isFunc, Layer.sideVars, ih] <;> grind

theorem mem_holeVars_nil (ls : List Layer) (x : Nat) : x ∈ holeVars ls [] ↔ x ∈ hoisted ls := by
  simp [mem_holeVars]

/-- `hoisted`, explicitly: a `var` beside the hole in some enclosing non-function scope that is not separated from the
top of `ls` by a function -/
theorem mem_hoisted (ls : List Layer) (x : Nat) :
    x ∈ hoisted ls ↔ ∃ a l b, ls = a ++ l :: b ∧ (∀ l' ∈ a, l'.isFunc = false) ∧ l.isFunc = false ∧ x ∈ l.sideVars := by
  induction ls with
  | nil => simp [hoisted]
  | cons l r ih =>
    by_cases hf : l.isFunc = true
    · simp only [hoisted, hf, if_true, List.not_mem_nil, false_iff]
      rintro ⟨a, l', b, he, ha, hl', _⟩
      cases a with
      | nil => simp only [List.nil_append, List.cons.injEq] at he; rw [← he.1, hf] at hl'; cases hl'
      | cons a0 a' =>
        simp only [List.cons_append, List.cons.injEq] at he
        have := ha a0 List.mem_cons_self
        rw [← he.1, hf] at this; cases this
    · have hf' : l.isFunc = false := by simpa using hf
      simp only [hoisted, hf', Bool.false_eq_true, if_false, List.mem_append, ih]
      constructor
      · rintro (h | ⟨a, l', b, he, ha, hl', hx⟩)
        · exact ⟨[], l, r, rfl, by simp, hf', h⟩
        · refine ⟨l :: a, l', b, by simp [he], ?_, hl', hx⟩
          intro l'' hl''
          rcases List.mem_cons.mp hl'' with rfl | h
          · exact hf'
          · exact ha _ h
      · rintro ⟨a, l', b, he, ha, hl', hx⟩
        cases a with
        | nil =>
          simp only [List.nil_append, List.cons.injEq] at he
          exact Or.inl (he.1 ▸ hx)
        | cons a0 a' =>
          simp only [List.cons_append, List.cons.injEq] at he
          exact Or.inr ⟨a', l', b, he.2, fun l'' h => ha l'' (List.mem_cons_of_mem _ h), hl', hx⟩

/-- the environment at the hole declares `g` iff the context does, or the outer environment did -/
theorem envOf_declares (g : Nat) (ls : List Layer) (env : Env) :
    (∃ f ∈ envOf ls [] env, g ∈ f.2) ↔ declares g ls ∨ ∃ f ∈ env, g ∈ f.2 := by
  induction ls generalizing env with
  | nil => simp [envOf, declares]
  | cons l r ih =>
    rw [envOf, ih, declares]
    have : (∃ f ∈ l.frames (holeVars r []) ++ env, g ∈ f.2) ↔
        (g ∈ l.own ∨ (l.isFunc = true ∧ g ∈ hoisted r)) ∨ ∃ f ∈ env, g ∈ f.2 := by
      cases l <;>
        simp [Layer.frames, Layer.own, Layer.isFunc, mem_holeVars_nil, or_and_right, exists_or] <;> grind
    rw [this]
    constructor
    · rintro (h | (h | h) | h)
      · exact Or.inl (Or.inr (Or.inr h))
      · exact Or.inl (Or.inl h)
      · exact Or.inl (Or.inr (Or.inl h))
      · exact Or.inr h
    · rintro ((h | h | h) | h)
      · exact Or.inr (Or.inl (Or.inl h))
      · exact Or.inr (Or.inl (Or.inr h))
      · exact Or.inl h
      · exact Or.inr (Or.inr h)

theorem lookup_envOf_none_iff (g : Nat) (ls : List Layer) (env : Env) :
    lookup (envOf ls [] env) g = none ↔ ¬ declares g ls ∧ lookup env g = none := by
  rw [lookup_none_iff, lookup_none_iff]
  have := envOf_declares g ls env
  constructor
  · intro h
    refine ⟨fun hd => ?_, fun f hf hg => ?_⟩
    · obtain ⟨f, hf, hg⟩ := this.mpr (Or.inl hd); exact h f hf hg
    · obtain ⟨f', hf', hg'⟩ := this.mpr (Or.inr ⟨f, hf, hg⟩); exact h f' hf' hg'
  · rintro ⟨h1, h2⟩ f hf hg
    rcases this.mp ⟨f, hf, hg⟩ with h | ⟨f', hf', hg'⟩
    · exact h1 h
    · exact h2 f' hf' hg'

/-! ### the bound case: under a binding nothing is reported, at any depth -/
theorem declsIn_silent (g : Nat) (env : Env) (l : List Nat) : ∀ e ∈ declsIn env l, isGlobalRef g e = false := by
  intro e he
  simp only [declsIn, List.mem_map] at he
  obtain ⟨p, _, rfl⟩ := he
  simp [isGlobalRef]

mutual
theorem Item.bound_silent (g : Nat) (i : Item) (env : Env) (h : lookup env g ≠ none) :
    ∀ e ∈ i.res env, isGlobalRef g e = false := by
  cases i with
  | ref x =>
    intro e he
    simp only [Item.res, List.mem_singleton] at he
    subst he
    by_cases hx : x = g
    · subst hx
      cases hl : lookup env x with
      | none => exact absurd hl h
      | some v => simp [isGlobalRef]
    · simp [isGlobalRef, hx]
  | key x => intro e he; simp [Item.res] at he
  | letDecl x => intro e he; simp only [Item.res, List.mem_singleton] at he; subst he; simp [isGlobalRef]
  | varDecl x => intro e he; simp only [Item.res, List.mem_singleton] at he; subst he; simp [isGlobalRef]
  | block id b => exact Items.bound_silent g b _ (lookup_some_of_tail _ h)
  | func id nm ps b =>
    intro e he
    simp only [Item.res, List.mem_append] at he
    rcases he with he | he | he
    · exact declsIn_silent g _ _ e he
    · exact declsIn_silent g _ _ e he
    · exact Items.bound_silent g b _ (lookup_some_of_tail _ (lookup_some_of_tail _ h)) e he
  | catchC id p b =>
    intro e he
    simp only [Item.res, List.mem_append] at he
    rcases he with he | he
    · exact declsIn_silent g _ _ e he
    · exact Items.bound_silent g b _ (lookup_some_of_tail _ h) e he
  | forLet id x b =>
    intro e he
    simp only [Item.res, List.mem_append] at he
    rcases he with he | he
    · exact declsIn_silent g _ _ e he
    · exact Items.bound_silent g b _ (lookup_some_of_tail _ (lookup_some_of_tail _ h)) e he
theorem Items.bound_silent (g : Nat) (is : Items) (env : Env) (h : lookup env g ≠ none) :
    ∀ e ∈ is.res env, isGlobalRef g e = false := by
  cases is with
  | nil => intro e he; simp [Items.res] at he
  | cons i r =>
    intro e he
    simp only [Items.res, List.mem_append] at he
    rcases he with he | he
    · exact Item.bound_silent g i env h e he
    · exact Items.bound_silent g r env h e he
end

end DL.Scope2
