import DL.Lemmas.CFPos2

/-! Reference reachability only speaks about positions of the syntax: `reach`/`inner` are false outside `positions`. -/
namespace DL.CF

mutual
theorem Stmt.reach_mem : ∀ (s : Stmt) (p : Nat), s.reach p = true → p ∈ s.positions
  | .simple q t kids, p, h => by
    simp only [Stmt.reach, Bool.or_eq_true, beq_iff_eq] at h
    rw [Stmt.mem_positions_simple]
    exact h.imp id (Kids.flowReach_mem kids p)
  | .block q b, p, h => by
    simp only [Stmt.reach, Bool.or_eq_true, beq_iff_eq] at h
    simp only [Stmt.positions, List.mem_cons]
    exact h.imp id (Stmts.reach_mem b p)
  | .ifS q t c none, p, h => by
    simp only [Stmt.reach, Bool.or_eq_true, beq_iff_eq, Bool.and_eq_true] at h
    simp only [Stmt.positions, List.mem_cons, List.mem_append]
    rcases h with (h | h) | ⟨_, h⟩
    · exact Or.inl h
    · exact Or.inr (Or.inl (Kids.flowReach_mem t p h))
    · exact Or.inr (Or.inr (Stmt.reach_mem c p h))
  | .ifS q t c (some al), p, h => by
    simp only [Stmt.reach, Bool.or_eq_true, beq_iff_eq, Bool.and_eq_true] at h
    simp only [Stmt.positions, List.mem_cons, List.mem_append]
    rcases h with (h | h) | ⟨_, h | h⟩
    · exact Or.inl h
    · exact Or.inr (Or.inl (Kids.flowReach_mem t p h))
    · exact Or.inr (Or.inr (Or.inl (Stmt.reach_mem c p h)))
    · exact Or.inr (Or.inr (Or.inr (Stmt.reach_mem al p h)))
  | .whileS q t tt b, p, h => by
    simp only [Stmt.reach, Bool.or_eq_true, beq_iff_eq, Bool.and_eq_true] at h
    simp only [Stmt.positions, List.mem_cons, List.mem_append]
    rcases h with (h | h) | ⟨_, h⟩
    · exact Or.inl h
    · exact Or.inr (Or.inl (Kids.flowReach_mem t p h))
    · exact Or.inr (Or.inr (Stmt.reach_mem b p h))
  | .doWhileS q b t tt, p, h => by
    simp only [Stmt.reach, Bool.or_eq_true, beq_iff_eq, Bool.and_eq_true] at h
    simp only [Stmt.positions, List.mem_cons, List.mem_append]
    rcases h with (h | h) | ⟨_, h⟩
    · exact Or.inl h
    · exact Or.inr (Or.inr (Stmt.reach_mem b p h))
    · exact Or.inr (Or.inl (Kids.flowReach_mem t p h))
  | .forS q i u t ht tt b, p, h => by
    simp only [Stmt.reach, Bool.or_eq_true, beq_iff_eq, Bool.and_eq_true] at h
    simp only [Stmt.positions, List.mem_cons, List.mem_append]
    rcases h with (h | h) | ⟨_, h | ⟨_, h | ⟨_, h⟩⟩⟩
    · exact Or.inl h
    · exact Or.inr (Or.inl (Or.inl (Kids.flowReach_mem i p h)))
    · exact Or.inr (Or.inl (Or.inr (Or.inr (Kids.flowReach_mem t p h))))
    · exact Or.inr (Or.inr (Stmt.reach_mem b p h))
    · exact Or.inr (Or.inl (Or.inr (Or.inl (Kids.flowReach_mem u p h))))
  | .forInOf q l r b, p, h => by
    simp only [Stmt.reach, Bool.or_eq_true, beq_iff_eq, Bool.and_eq_true] at h
    simp only [Stmt.positions, List.mem_cons, List.mem_append]
    rcases h with (h | h) | ⟨_, h | ⟨_, h⟩⟩
    · exact Or.inl h
    · exact Or.inr (Or.inl (Or.inr (Kids.flowReach_mem r p h)))
    · exact Or.inr (Or.inl (Or.inl (Kids.flowReach_mem l p h)))
    · exact Or.inr (Or.inr (Stmt.reach_mem b p h))
  | .switchS q d cs, p, h => by
    simp only [Stmt.reach, Bool.or_eq_true, beq_iff_eq, Bool.and_eq_true] at h
    simp only [Stmt.positions, List.mem_cons, List.mem_append]
    rcases h with (h | h) | ⟨_, h⟩
    · exact Or.inl h
    · exact Or.inr (Or.inl (Kids.flowReach_mem d p h))
    · exact Or.inr (Or.inr (Cases.reach_mem cs p h))
  | .tryS q bp b hh cp ck hf fp f, p, h => by
    simp only [Stmt.reach, Bool.or_eq_true, beq_iff_eq, Bool.and_eq_true] at h
    simp only [Stmt.positions, List.mem_cons, List.mem_append]
    rcases h with ((h | h) | ⟨_, h⟩) | ⟨_, h⟩
    · exact Or.inl h
    · exact Or.inr (Or.inr (Or.inl (Stmts.reach_mem b p h)))
    · exact Or.inr (Or.inr (Or.inr (Or.inl (Or.inr (Kids.catchReach_mem ck p h)))))
    · exact Or.inr (Or.inr (Or.inr (Or.inr (Or.inr (Stmts.reach_mem f p h)))))
  | .labeled q _ b, p, h => by
    simp only [Stmt.reach, Bool.or_eq_true, beq_iff_eq] at h
    simp only [Stmt.positions, List.mem_cons]
    exact h.imp id (Stmt.reach_mem b p)
  | .brk q l, p, h => by simp only [Stmt.reach, beq_iff_eq] at h; simp [Stmt.positions, h]
  | .cont q l, p, h => by simp only [Stmt.reach, beq_iff_eq] at h; simp [Stmt.positions, h]
  | .ret q a, p, h => by
    simp only [Stmt.reach, Bool.or_eq_true, beq_iff_eq] at h
    simp only [Stmt.positions, List.mem_cons]
    exact h.imp id (Kids.flowReach_mem a p)
  | .throw q a, p, h => by
    simp only [Stmt.reach, Bool.or_eq_true, beq_iff_eq] at h
    simp only [Stmt.positions, List.mem_cons]
    exact h.imp id (Kids.flowReach_mem a p)
theorem Stmts.reach_mem : ∀ (l : Stmts) (p : Nat), l.reach p = true → p ∈ l.positions
  | .nil, p, h => by simp [Stmts.reach] at h
  | .cons s r, p, h => by
    simp only [Stmts.reach, Bool.or_eq_true, Bool.and_eq_true] at h
    simp only [Stmts.positions, List.mem_append]
    rcases h with h | ⟨_, h⟩
    · exact Or.inl (Stmt.reach_mem s p h)
    · exact Or.inr (Stmts.reach_mem r p h)
theorem Cases.reach_mem : ∀ (cs : Cases) (p : Nat), cs.reach p = true → p ∈ cs.positions
  | .nil, p, h => by simp [Cases.reach] at h
  | .cons q _ t b r, p, h => by
    simp only [Cases.reach, Bool.or_eq_true, beq_iff_eq] at h
    simp only [Cases.positions, List.mem_cons, List.mem_append]
    rcases h with ((h | h) | h) | h
    · exact Or.inl h
    · exact Or.inr (Or.inl (Kids.flowReach_mem t p h))
    · exact Or.inr (Or.inr (Or.inl (Stmts.reach_mem b p h)))
    · exact Or.inr (Or.inr (Or.inr (Cases.reach_mem r p h)))
theorem Kids.catchReach_mem : ∀ (ks : Kids) (p : Nat), ks.catchReach p = true → p ∈ ks.positions
  | .nil, p, h => by simp [Kids.catchReach] at h
  | .cons (.block q body) r, p, h => by
    simp only [Kids.catchReach, Bool.or_eq_true, beq_iff_eq] at h
    simp only [Kids.positions, Kid.positions, List.mem_append, List.mem_cons]
    exact Or.inl (h.imp id (Stmts.reach_mem body p))
  | .cons (.expr _ _) r, p, h => by
    simp only [Kids.catchReach] at h
    simp only [Kids.positions, List.mem_append]; exact Or.inr (Kids.catchReach_mem r p h)
  | .cons (.fnScope _ _) r, p, h => by
    simp only [Kids.catchReach] at h
    simp only [Kids.positions, List.mem_append]; exact Or.inr (Kids.catchReach_mem r p h)
  | .cons (.stmt _) r, p, h => by
    simp only [Kids.catchReach] at h
    simp only [Kids.positions, List.mem_append]; exact Or.inr (Kids.catchReach_mem r p h)
theorem Kids.flowReach_mem : ∀ (ks : Kids) (p : Nat), ks.flowReach p = true → p ∈ ks.positions
  | .nil, p, h => by simp [Kids.flowReach] at h
  | .cons k r, p, h => by
    simp only [Kids.flowReach, Bool.or_eq_true, Bool.and_eq_true] at h
    simp only [Kids.positions, List.mem_append]
    exact h.imp (Kid.flowReach_mem k p) (fun h => Kids.flowReach_mem r p h.2)
theorem Kid.flowReach_mem : ∀ (k : Kid) (p : Nat), k.flowReach p = true → p ∈ k.positions
  | .expr _ ks, p, h => by simp only [Kid.flowReach] at h; simp only [Kid.positions]; exact Kids.flowReach_mem ks p h
  | .fnScope _ _, p, h => by simp [Kid.flowReach] at h
  | .block q body, p, h => by
    simp only [Kid.flowReach, Bool.or_eq_true, beq_iff_eq] at h
    simp only [Kid.positions, List.mem_cons]
    exact h.imp id (Stmts.reach_mem body p)
  | .stmt s, p, h => by simp only [Kid.flowReach] at h; simp only [Kid.positions]; exact Stmt.reach_mem s p h
end

theorem Kids.entryReach_mem : ∀ (ks : Kids) (p : Nat), ks.entryReach p = true → p ∈ ks.positions
  | .nil, p, h => by simp [Kids.entryReach] at h
  | .cons (.block q body) r, p, h => by
    simp only [Kids.entryReach, Bool.or_eq_true, beq_iff_eq] at h
    simp only [Kids.positions, Kid.positions, List.mem_append, List.mem_cons]
    rcases h with (h | h) | h
    · exact Or.inl (Or.inl h)
    · exact Or.inl (Or.inr (Stmts.reach_mem body p h))
    · exact Or.inr (Kids.entryReach_mem r p h)
  | .cons (.expr _ _) r, p, h => by
    simp only [Kids.entryReach] at h
    simp only [Kids.positions, List.mem_append]; exact Or.inr (Kids.entryReach_mem r p h)
  | .cons (.fnScope _ _) r, p, h => by
    simp only [Kids.entryReach] at h
    simp only [Kids.positions, List.mem_append]; exact Or.inr (Kids.entryReach_mem r p h)
  | .cons (.stmt _) r, p, h => by
    simp only [Kids.entryReach] at h
    simp only [Kids.positions, List.mem_append]; exact Or.inr (Kids.entryReach_mem r p h)

theorem Stmt.reach_false (s : Stmt) (p : Nat) (h : p ∉ s.positions) : s.reach p = false := by
  cases hr : s.reach p with
  | false => rfl
  | true => exact absurd (s.reach_mem p hr) h
theorem Stmts.reach_false (l : Stmts) (p : Nat) (h : p ∉ l.positions) : l.reach p = false := by
  cases hr : l.reach p with
  | false => rfl
  | true => exact absurd (l.reach_mem p hr) h
theorem Kids.flowReach_false (l : Kids) (p : Nat) (h : p ∉ l.positions) : l.flowReach p = false := by
  cases hr : l.flowReach p with
  | false => rfl
  | true => exact absurd (l.flowReach_mem p hr) h
theorem Kids.entryReach_false (l : Kids) (p : Nat) (h : p ∉ l.positions) : l.entryReach p = false := by
  cases hr : l.entryReach p with
  | false => rfl
  | true => exact absurd (l.entryReach_mem p hr) h

/-! ### pure expressions contain no statement that executes in the enclosing flow -/
mutual
theorem Kid.flowReach_pure : ∀ (k : Kid) (p : Nat), k.pure = true → k.flowReach p = false
  | .expr _ ks, p, h => by simp only [Kid.flowReach]; exact Kids.flowReach_pure ks p (by simpa [Kid.pure] using h)
  | .fnScope _ _, _, _ => rfl
  | .block _ _, _, h => by simp [Kid.pure] at h
  | .stmt _, _, h => by simp [Kid.pure] at h
theorem Kids.flowReach_pure : ∀ (ks : Kids) (p : Nat), ks.pure = true → ks.flowReach p = false
  | .nil, _, _ => rfl
  | .cons k r, p, h => by
    simp only [Kids.pure, Bool.and_eq_true] at h
    simp [Kids.flowReach, Kid.flowReach_pure k p h.1, Kids.flowReach_pure r p h.2]
end

end DL.CF
