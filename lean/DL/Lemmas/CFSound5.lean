import DL.Lemmas.CFSound4b

/-! Soundness invariant: `do-while`, `for`, `for-in/of`. -/
namespace DL.CF

theorem testCompl_pure (tt : Bool) (test : Kids) (hp : test.pure = true) :
    testCompl tt test = if tt then { n := true } else pureCompl test := by
  unfold testCompl testComplOf; rw [Kids.compl_pure test hp]

theorem doWhile_n (ls : List Id) (p : Nat) (body : Stmt) (test : Kids) (tt : Bool) (hp : test.pure = true) :
    (Stmt.compl ls (.doWhileS p body test tt)).n = ((goesRound ls (body.compl []) && !tt) || (body.compl []).b) ∧
    (Stmt.compl ls (.doWhileS p body test tt)).b = false ∧ (Stmt.compl ls (.doWhileS p body test tt)).c = false ∧
    ((Stmt.compl ls (.doWhileS p body test tt)).hasCl = true → (body.compl []).hasCl = true) := by
  have htc : (testCompl tt test).n = true ∧ (testCompl tt test).b = false ∧ (testCompl tt test).c = false ∧
      (testCompl tt test).hasCl = false := by
    rw [testCompl_pure tt test hp]; cases tt <;> simp [Compl.hasCl, pureCompl]
  refine ⟨by simp [Stmt.compl, htc], by simp [Stmt.compl, htc], by simp [Stmt.compl, htc], ?_⟩
  intro h
  simp only [Stmt.compl, testComplOf_eq, union_hasCl, abrupt_hasCl, guard_hasCl, htc, Bool.and_false, Bool.or_false] at h
  exact loopCompl_hasCl _ _ _ h

theorem doWhileTail_ok (live tt : Bool) (ls : List Id) (body : Stmt) (x b' : A) (hb : PostS live [] body x b') :
    TailOK live ((goesRound ls (body.compl []) && !tt) || (body.compl []).b) body.pos [] b'
      (doWhileTail tt body.isDeclOrExpr body.pos b') := by
  unfold doWhileTail
  simp only
  have hsf := @stmtEnd_forced' body.isDeclOrExpr b'.info body.pos
  generalize stmtEnd body.isDeclOrExpr b'.info body.pos = er at hsf
  by_cases h1 : (isForcedEnd er && !(b'.sc.foundBreak == some none) && !b'.sc.foundContinue) = true
  · simp only [h1, if_true]
    simp only [Bool.and_eq_true, Bool.not_eq_true'] at h1
    rcases her : er with _ | e
    · rw [her] at h1; simp at h1
    · simp only
      refine ⟨fun q hq _ => markAsEnd_info_other _ _ _ _ hq, fun q => by simp, by simp, by simp, by simp, ⟨e, rfl⟩, ?_, by simp⟩
      intro _
      have hbk := not_break_dead hb h1.1.2
      have hct := not_continue_dead hb h1.2
      have hnn := hb.p4 (hsf h1.1.1).1 (stops_of_forced (hsf h1.1.1).2)
      have hcl := not_cl_dead hb h1.2
      cases live with
      | false => rfl
      | true =>
        simp only [Bool.true_and] at hbk hct hnn hcl ⊢
        simp [goesRound, hbk, hct, hnn, any_of_not_hasCl _ _ hcl]
  · simp only [h1, Bool.false_eq_true, if_false]
    by_cases h2 : (tt && b'.sc.foundBreak.isNone) = true
    · simp only [h2, if_true]
      simp only [Bool.and_eq_true] at h2
      refine ⟨fun q hq _ => markAsEnd_info_other _ _ _ _ hq, fun q => by simp, by simp, by simp, by simp, ⟨_, rfl⟩, ?_, by simp⟩
      intro _
      have hnb : (b'.sc.foundBreak == some none) = false := by
        cases hfb : b'.sc.foundBreak with
        | none => rfl
        | some v => rw [hfb] at h2; simp at h2
      have := not_break_dead hb hnb
      rw [h2.1]; simpa using this
    · simp only [h2, Bool.false_eq_true, if_false]
      exact ⟨fun q hq _ => markAsEnd_info_other _ _ _ _ hq, fun q => by simp, by simp, by simp, by simp, ⟨_, rfl⟩, by simp, by simp⟩

theorem doWhile_t (ls : List Id) (p : Nat) (body : Stmt) (test : Kids) (tt : Bool) (hp : test.pure = true)
    (h : (Stmt.compl ls (.doWhileS p body test tt)).t = true) :
    (body.compl []).t = true ∨ (goesRound ls (body.compl []) && !tt && test.mayThrow) = true := by
  simp only [Stmt.compl, testComplOf_eq, loopCompl_t, union_t, guard_t, abrupt_t, testCompl_t] at h
  rw [Kids.compl_pure test hp, pureCompl_t] at h
  revert h; cases tt <;> cases test.mayThrow <;> cases (body.compl []).t <;> cases goesRound ls (body.compl []) <;> simp

theorem doWhileAfter_mayThrow (p bp : Nat) (a : A) : (doWhileAfter p bp a).sc.mayThrow = a.sc.mayThrow := by
  unfold doWhileAfter; split <;> simp

theorem doWhile_ok (live : Bool) (ls : List Id) (p : Nat) (body : Stmt) (test : Kids) (tt : Bool) (a : A)
    (hp : test.pure = true)
    (hpre : Pre live (p :: (test.positions ++ body.positions)) a)
    (ihk : ∀ x, PreK test.positions x → PostK test.upos test.positions test.inner test.mayThrow x (visitKids test x))
    (ih : ∀ a0, Pre live body.positions a0 → PostS live [] body a0 (visitStmt body a0)) :
    PostS live ls (.doWhileS p body test tt) a (visitStmt (.doWhileS p body test tt) a) := by
  have hsp := Split.of hpre.nodup
  have hpbp : p ≠ body.pos := fun e => hsp.pb (e ▸ body.pos_mem)
  have hv : visitStmt (.doWhileS p body test tt) a =
      visitKids test (doWhileAfter p body.pos
        (withChild .loop body.pos (fun x => doWhileTail tt body.isDeclOrExpr body.pos (visitStmt body x)) (flagA a p .other))) := by
    simp [visitStmt, flagA]
  rw [hv]
  obtain ⟨hn, hb0, hc0, hl0⟩ := doWhile_n ls p body test tt hp
  have hc := loopCore live _ p body.pos body [] (doWhileTail tt body.isDeclOrExpr body.pos) (flagA a p .other) rfl
    hpre.hs (fun q hq => by rw [flagA_endAt]; exact hpre.fresh q (List.mem_cons_of_mem _ (List.mem_append.mpr (Or.inr hq))))
    hsp.pb hsp.ndb ih (fun b' hb => doWhileTail_ok live tt ls body _ b' hb)
  generalize withChild .loop body.pos (fun x => doWhileTail tt body.isDeclOrExpr body.pos (visitStmt body x)) (flagA a p .other) = r at hc
  -- the optional extra mark at `p`
  have hm : ∃ r2, doWhileAfter p body.pos r = r2 ∧ r2.sc.foundBreak = r.sc.foundBreak ∧ r2.sc.foundContinue = r.sc.foundContinue ∧
        (∀ q, r2.info.ur q = r.info.ur q) ∧ (∀ q, q ≠ p → r2.info q = r.info q) ∧
        (stopsEnd r2.sc.end_ = true → (live && (Stmt.compl ls (.doWhileS p body test tt)).n) = false) ∧
        (stopsEnd (r2.info.endAt p) = true → (live && (Stmt.compl ls (.doWhileS p body test tt)).n) = false) := by
    unfold doWhileAfter
    rcases her : r.info.endAt body.pos with _ | ⟨rr, t, i⟩ | _ | _
    · refine ⟨r, rfl, rfl, rfl, fun _ => rfl, fun _ _ => rfl, fun h => by rw [hn]; exact hc.stop h, ?_⟩
      intro h; rw [hc.atP (by simp), flagA_endAt, hpre.fresh p (by simp)] at h; simp at h
    · have hdead : (live && (Stmt.compl ls (.doWhileS p body test tt)).n) = false := by
        rw [hn]; exact hc.bpForced (by rw [her]; rfl)
      exact ⟨_, rfl, by simp, by simp, fun q => by simp, fun q hq => markAsEnd_info_other _ _ _ _ hq,
        fun _ => hdead, fun _ => hdead⟩
    · refine ⟨r, rfl, rfl, rfl, fun _ => rfl, fun _ _ => rfl, fun h => by rw [hn]; exact hc.stop h, ?_⟩
      intro h; rw [hc.atP (by simp), flagA_endAt, hpre.fresh p (by simp)] at h; simp at h
    · refine ⟨r, rfl, rfl, rfl, fun _ => rfl, fun _ _ => rfl, fun h => by rw [hn]; exact hc.stop h, ?_⟩
      intro h; rw [hc.atP (by simp), flagA_endAt, hpre.fresh p (by simp)] at h; simp at h
  obtain ⟨r2, hr2, hfb2, hfc2, hur2, hinfo2, hstop2, hp42⟩ := hm
  have hmt2 : r2.sc.mayThrow = r.sc.mayThrow := by rw [← hr2]; exact doWhileAfter_mayThrow _ _ _
  rw [hr2]
  have hrk : ∀ q, q ∈ test.positions → r2.info q = (flagA a p .other).info q := fun q hq => by
    rw [hinfo2 q (fun e => hsp.pk (e ▸ hq))]
    exact hc.frame q (by simp only [List.mem_cons, not_or]; exact ⟨fun e => hsp.pk (e ▸ hq), fun h => hsp.disj q hq h⟩) (by simp)
  have hprek : PreK test.positions r2 := by
    refine ⟨fun q hq => ?_, hsp.ndk⟩
    rw [endAt_eq_of_info_eq (hrk q hq), flagA_endAt]
    exact hpre.fresh q (List.mem_cons_of_mem _ (List.mem_append.mpr (Or.inl hq)))
  have hk := ihk r2 hprek
  generalize visitKids test r2 = fin at hk
  have htu : ∀ q, q ∈ test.upos → q ≠ p ∧ q ∉ body.positions := fun q hq =>
    ⟨fun e => hsp.pk (e ▸ Kids.upos_sub test q hq), fun h => hsp.disj q (Kids.upos_sub test q hq) h⟩
  have hbu : ∀ q, q ∈ body.upos → q ≠ p ∧ q ∉ test.positions := fun q hq =>
    ⟨fun e => hsp.pb (e ▸ Stmt.upos_sub body q hq), fun h => hsp.disj q h (Stmt.upos_sub body q hq)⟩
  refine ⟨⟨?_, ?_, ?_, ?_, ?_, ?_, ?_, ?_, ?_, ?_, ?_⟩, ?_⟩
  · intro hst; rw [hk.end_] at hst; exact hstop2 hst
  · simp [hb0]
  · simp [hc0]
  · intro hh; rw [hk.fb, hfb2, hc.fbk]; exact hh
  · intro hh; apply hk.fc; rw [hfc2]; exact hc.fc hh
  · intro hh
    apply hk.fc; rw [hfc2]; apply hc.fcBody
    revert hh hl0; cases live <;> cases (Stmt.compl ls (.doWhileS p body test tt)).hasCl <;> simp
  · intro q hq hu
    simp only [Stmt.upos, List.mem_cons, List.mem_append] at hq
    simp only [Stmt.reach]
    rcases hq with rfl | hqt | hqb
    · rw [ur_eq_of_info_eq (hk.frame q hsp.pk), hur2, hc.urp] at hu
      have := own_pos_dead hpre q .other _ rfl hu
      simp [this]
    · simp [(htu q hqt).1, body.reach_false q (htu q hqt).2, Kids.flowReach_pure test q hp]
    · rw [ur_eq_of_info_eq (hk.frame q (hbu q hqb).2), hur2] at hu
      have := hc.p3 q hqb hu
      revert this; cases live <;> simp [(hbu q hqb).1, Kids.flowReach_pure test q hp]
  · intro q hq hu
    simp only [Stmt.upos, List.mem_cons, List.mem_append] at hq
    simp only [Stmt.inner]
    rcases hq with rfl | hqt | hqb
    · simp [Kids.inner_false test q hsp.pk, body.inner_false q hsp.pb]
    · simp [hk.p3 q hqt hu, body.inner_false q (htu q hqt).2]
    · rw [ur_eq_of_info_eq (hk.frame q (hbu q hqb).2), hur2] at hu
      simp [hc.p3i q hqb hu, Kids.inner_false test q (hbu q hqb).2]
  · intro q hq
    simp only [Stmt.positions, List.mem_cons, List.mem_append, not_or] at hq
    rw [hk.frame q hq.2.1, hinfo2 q hq.1, hc.frame q (by simp only [List.mem_cons, not_or]; exact ⟨hq.1, hq.2.2⟩) (by simp)]
    exact flagA_other a p .other q hq.1
  · intro hh; apply hk.mt; rw [hmt2]; exact hc.mt hh
  · intro hh
    simp only [Bool.and_eq_true] at hh
    rcases doWhile_t ls p body test tt hp hh.2 with ht | ht
    · apply hk.mt; rw [hmt2]; exact hc.tBody (by simp [hh.1, ht])
    · simp only [Bool.and_eq_true, Bool.not_eq_true'] at ht
      refine hk.pT (not_stops_of hstop2 ?_) ht.2
      rw [hn]; simp [hh.1, ht.1.1, ht.1.2]
  · intro _ hst
    simp only [Stmt.pos] at hst
    rw [endAt_eq_of_info_eq (hk.frame p hsp.pk)] at hst
    exact hp42 hst

end DL.CF
