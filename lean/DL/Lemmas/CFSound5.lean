import DL.Lemmas.CFSound4

/-! Soundness invariant: `do-while`, `for`, `for-in/of`. -/
namespace DL.CF

theorem doWhile_n (p : Nat) (body : Stmt) (test : Kids) (tt : Bool) :
    (Stmt.compl [] (.doWhileS p body test tt)).n =
      (((((body.compl []).n || (body.compl []).c) && !tt)) || (body.compl []).b) ∧
    (Stmt.compl [] (.doWhileS p body test tt)).b = false ∧ (Stmt.compl [] (.doWhileS p body test tt)).c = false := by
  have hany : ∀ l : List Id, (l.any fun _ => false) = false := by intro l; induction l <;> simp_all
  simp [Stmt.compl, goesRound, hany]

theorem doWhileTail_ok (live tt : Bool) (body : Stmt) (x b' : A) (hb : PostS live body x b') :
    TailOK live (((((body.compl []).n || (body.compl []).c) && !tt)) || (body.compl []).b) body.pos [] b'
      (doWhileTail tt body.isDeclOrExpr body.pos b') := by
  unfold doWhileTail
  simp only
  have hsf := @stmtEnd_forced body.isDeclOrExpr b'.info body.pos
  generalize stmtEnd body.isDeclOrExpr b'.info body.pos = er at hsf
  by_cases h1 : (isForcedEnd er && !(b'.sc.foundBreak == some none) && !b'.sc.foundContinue) = true
  · simp only [h1, if_true]
    simp only [Bool.and_eq_true, Bool.not_eq_true'] at h1
    rcases her : er with _ | e
    · rw [her] at h1; simp at h1
    · simp only
      refine ⟨fun q hq _ => markAsEnd_info_other _ _ _ _ hq, fun q => by simp, by simp, by simp, ⟨e, rfl⟩, ?_, by simp⟩
      intro _
      have hbk := not_break_dead hb h1.1.2
      have hct := not_continue_dead hb h1.2
      have hnn := hb.p4 (stops_of_forced (hsf h1.1.1).1)
      revert hbk hct hnn
      cases live <;> cases (body.compl []).n <;> cases (body.compl []).b <;> cases (body.compl []).c <;> simp
  · simp only [h1, Bool.false_eq_true, if_false]
    by_cases h2 : (tt && b'.sc.foundBreak.isNone) = true
    · simp only [h2, if_true]
      simp only [Bool.and_eq_true] at h2
      refine ⟨fun q hq _ => markAsEnd_info_other _ _ _ _ hq, fun q => by simp, by simp, by simp, ⟨_, rfl⟩, ?_, by simp⟩
      intro _
      have hnb : (b'.sc.foundBreak == some none) = false := by
        cases hfb : b'.sc.foundBreak with
        | none => rfl
        | some v => rw [hfb] at h2; simp at h2
      have := not_break_dead hb hnb
      rw [h2.1]; simpa using this
    · simp only [h2, Bool.false_eq_true, if_false]
      exact ⟨fun q hq _ => markAsEnd_info_other _ _ _ _ hq, fun q => by simp, by simp, by simp, ⟨_, rfl⟩, by simp, by simp⟩

theorem doWhile_ok (live : Bool) (p : Nat) (body : Stmt) (test : Kids) (tt : Bool) (a : A) (ht : test.flat = true)
    (hpre : Pre live (p :: body.positions) a)
    (ih : ∀ a0, Pre live body.positions a0 → PostS live body a0 (visitStmt body a0)) :
    PostS live (.doWhileS p body test tt) a (visitStmt (.doWhileS p body test tt) a) := by
  have hnd := List.nodup_cons.mp hpre.nodup
  have hpbp : p ≠ body.pos := fun e => hnd.1 (e ▸ body.pos_mem)
  have hv : visitStmt (.doWhileS p body test tt) a =
      visitKids test (doWhileAfter p body.pos
        (withChild .loop body.pos (fun x => doWhileTail tt body.isDeclOrExpr body.pos (visitStmt body x)) (flagA a p .other))) := by
    simp [visitStmt, flagA]
  rw [hv]
  obtain ⟨hn, hb0, hc0⟩ := doWhile_n p body test tt
  have hc := loopCore live _ p body.pos body [] (doWhileTail tt body.isDeclOrExpr body.pos) (flagA a p .other) rfl
    hpre.hs (fun q hq => by rw [flagA_endAt]; exact hpre.fresh q (List.mem_cons_of_mem _ hq)) hpre.nodup ih
    (fun b' hb => doWhileTail_ok live tt body _ b' hb)
  generalize withChild .loop body.pos (fun x => doWhileTail tt body.isDeclOrExpr body.pos (visitStmt body x)) (flagA a p .other) = r at hc
  -- the optional extra mark at `p`
  have hm : ∃ r2, doWhileAfter p body.pos r = r2 ∧ r2.sc.foundBreak = r.sc.foundBreak ∧ r2.sc.foundContinue = r.sc.foundContinue ∧
        (∀ q, r2.info.ur q = r.info.ur q) ∧ (∀ q, q ≠ p → r2.info q = r.info q) ∧
        (stopsEnd r2.sc.end_ = true → (live && (Stmt.compl [] (.doWhileS p body test tt)).n) = false) ∧
        (stopsEnd (r2.info.endAt p) = true → (live && (Stmt.compl [] (.doWhileS p body test tt)).n) = false) := by
    unfold doWhileAfter
    rcases her : r.info.endAt body.pos with _ | ⟨rr, t, i⟩ | _ | _
    · refine ⟨r, rfl, rfl, rfl, fun _ => rfl, fun _ _ => rfl, fun h => by rw [hn]; exact hc.stop h, ?_⟩
      intro h; rw [hc.atP (by simp), flagA_endAt, hpre.fresh p (by simp)] at h; simp at h
    · have hdead : (live && (Stmt.compl [] (.doWhileS p body test tt)).n) = false := by
        rw [hn]; exact hc.bpForced (by rw [her]; rfl)
      exact ⟨_, rfl, by simp, by simp, fun q => by simp, fun q hq => markAsEnd_info_other _ _ _ _ hq,
        fun _ => hdead, fun _ => hdead⟩
    · refine ⟨r, rfl, rfl, rfl, fun _ => rfl, fun _ _ => rfl, fun h => by rw [hn]; exact hc.stop h, ?_⟩
      intro h; rw [hc.atP (by simp), flagA_endAt, hpre.fresh p (by simp)] at h; simp at h
    · refine ⟨r, rfl, rfl, rfl, fun _ => rfl, fun _ _ => rfl, fun h => by rw [hn]; exact hc.stop h, ?_⟩
      intro h; rw [hc.atP (by simp), flagA_endAt, hpre.fresh p (by simp)] at h; simp at h
  obtain ⟨r2, hr2, hfb2, hfc2, hur2, hinfo2, hstop2, hp42⟩ := hm
  rw [hr2]
  have hs := visitKids_flat test r2 ht
  generalize visitKids test r2 = fin at hs
  refine ⟨⟨?_, ?_, ?_, ?_, ?_, ?_, ?_, ?_⟩, ?_⟩
  · intro hst; rw [hs.end_] at hst; exact hstop2 hst
  · simp [hb0]
  · simp [hc0]
  · intro hh; rw [hs.fb, hfb2, hc.fbk]; exact hh
  · intro hh; rw [hs.fc, hfc2]; exact hc.fc hh
  · unfold FB; rw [hs.fb, hfb2, hc.fbk]; exact hpre.fb
  · intro q hq hu
    rw [hs.info, hur2] at hu
    simp only [Stmt.positions] at hq
    rcases List.mem_cons.mp hq with rfl | hqb
    · rw [hc.urp] at hu
      have := own_pos_dead hpre q .other _ rfl hu
      simp [this]
    · have hne : q ≠ p := fun e => hnd.1 (e ▸ hqb)
      have := hc.p3 q hqb hu
      simp only [Stmt.reach]
      revert this; cases live <;> simp [hne]
  · intro q hq
    simp only [Stmt.positions] at hq
    have hqp : q ≠ p := by intro e; exact hq (by simp [e])
    rw [hs.info, hinfo2 q hqp, hc.frame q hq (by simp)]
    exact flagA_other a p .other q hqp
  · intro hst
    simp only [Stmt.pos] at hst
    rw [endAt_eq_of_info_eq (congrFun hs.info p)] at hst
    exact hp42 hst

/-! ### `for` -/
theorem for_n (p : Nat) (i u t : Kids) (hasTest tt : Bool) (body : Stmt) :
    (Stmt.compl [] (.forS p i u t hasTest tt body)).n = ((hasTest && !tt) || (body.compl []).b) ∧
    (Stmt.compl [] (.forS p i u t hasTest tt body)).b = false ∧ (Stmt.compl [] (.forS p i u t hasTest tt body)).c = false := by
  simp [Stmt.compl]

theorem forTail_ok (live hasTest tt : Bool) (p : Nat) (body : Stmt) (x b' : A) (hb : PostS live body x b') :
    TailOK live ((hasTest && !tt) || (body.compl []).b) body.pos [p] b' (forTail p body.pos body.isDeclOrExpr hasTest tt b') := by
  unfold forTail
  by_cases hent : forEnters hasTest tt b' = true
  · -- the loop is entered unconditionally and cannot be left by `break`
    rw [if_pos hent]
    have hdead : (live && ((hasTest && !tt) || (body.compl []).b)) = false := by
      simp only [forEnters, Bool.and_eq_true, Bool.not_eq_true', Bool.or_eq_true] at hent
      have := not_break_dead hb hent.1
      rcases hent.2 with h | h
      · simp only [h]; simpa using this
      · rw [h]; simpa using this
    refine ⟨?_, fun q => by simp, by simp, by simp, ?_, fun _ => hdead, fun _ _ _ _ _ => hdead⟩
    · intro q _ hq; exact markAsEnd_info_other _ _ _ _ (by simpa using hq)
    · unfold markAsEnd
      rcases hbe : b'.sc.end_ with _ | ⟨r, t, i⟩ | _ | _ <;> simp [hbe]
  · rw [if_neg hent]
    refine ⟨fun q hq _ => markAsEnd_info_other _ _ _ _ hq, fun q => by simp, by simp, by simp, ⟨_, rfl⟩, by simp, ?_⟩
    intro q hq hqbp hst hnone
    simp only [setEnd_info] at hst
    rw [markAsEnd_endAt_other _ _ _ _ hqbp, hnone] at hst
    simp at hst

theorem for_ok (live : Bool) (p : Nat) (i u t : Kids) (hasTest tt : Bool) (body : Stmt) (a : A)
    (hi : i.flat = true) (hu : u.flat = true) (ht : t.flat = true)
    (hpre : Pre live (p :: body.positions) a)
    (ih : ∀ a0, Pre live body.positions a0 → PostS live body a0 (visitStmt body a0)) :
    PostS live (.forS p i u t hasTest tt body) a (visitStmt (.forS p i u t hasTest tt body) a) := by
  have hnd := List.nodup_cons.mp hpre.nodup
  have hv : visitStmt (.forS p i u t hasTest tt body) a =
      withChild .loop body.pos (fun x => forTail p body.pos body.isDeclOrExpr hasTest tt (visitStmt body x))
        (visitKids t (visitKids u (visitKids i (flagA a p .other)))) := by
    simp [visitStmt, flagA]
  rw [hv]
  have hs1 := ((visitKids_flat i (flagA a p .other) hi).trans (visitKids_flat u _ hu)).trans (visitKids_flat t _ ht)
  generalize visitKids t (visitKids u (visitKids i (flagA a p .other))) = a1 at hs1
  have he1 : a1.sc.end_ = a.sc.end_ := hs1.end_
  have hb1 : a1.sc.foundBreak = a.sc.foundBreak := hs1.fb
  have hc1 : a1.sc.foundContinue = a.sc.foundContinue := hs1.fc
  have hfresh1 : ∀ q, a1.info.endAt q = a.info.endAt q := fun q => by
    rw [endAt_eq_of_info_eq (congrFun hs1.info q), flagA_endAt]
  obtain ⟨hn, hb0, hc0⟩ := for_n p i u t hasTest tt body
  have hc := loopCore live _ p body.pos body [p] (forTail p body.pos body.isDeclOrExpr hasTest tt) a1 rfl
    (fun h => hpre.hs (by rw [← he1]; exact h))
    (fun q hq => by rw [hfresh1]; exact hpre.fresh q (List.mem_cons_of_mem _ hq)) hpre.nodup ih
    (fun b' hb => forTail_ok live hasTest tt p body _ b' hb)
  generalize withChild .loop body.pos (fun x => forTail p body.pos body.isDeclOrExpr hasTest tt (visitStmt body x)) a1 = r at hc
  refine ⟨⟨?_, ?_, ?_, ?_, ?_, ?_, ?_, ?_⟩, ?_⟩
  · intro hst; rw [hn]; exact hc.stop hst
  · simp [hb0]
  · simp [hc0]
  · intro hh; rw [hc.fbk, hb1]; exact hh
  · intro hh; exact hc.fc (by rw [hc1]; exact hh)
  · unfold FB; rw [hc.fbk, hb1]; exact hpre.fb
  · intro q hq hu'
    simp only [Stmt.positions] at hq
    rcases List.mem_cons.mp hq with rfl | hqb
    · rw [hc.urp] at hu'
      have := own_pos_dead hpre q .other _ (by rw [hs1.info]) hu'
      simp [this]
    · have hne : q ≠ p := fun e => hnd.1 (e ▸ hqb)
      have := hc.p3 q hqb hu'
      simp only [Stmt.reach]
      revert this; cases live <;> simp [hne]
  · intro q hq
    simp only [Stmt.positions] at hq
    have hqp : q ≠ p := by intro e; exact hq (by simp [e])
    rw [hc.frame q hq (by simpa using hqp), hs1.info]
    exact flagA_other a p .other q hqp
  · intro hst
    simp only [Stmt.pos] at hst
    rw [hn]
    exact hc.pExtra (by simp) hst (by rw [hfresh1]; exact hpre.fresh p (by simp))

/-! ### `for-in` / `for-of` -/
theorem forInOf_ok (live : Bool) (p : Nat) (l r : Kids) (body : Stmt) (a : A)
    (hl : l.flat = true) (hr : r.flat = true)
    (hpre : Pre live (p :: body.positions) a)
    (ih : ∀ a0, Pre live body.positions a0 → PostS live body a0 (visitStmt body a0)) :
    PostS live (.forInOf p l r body) a (visitStmt (.forInOf p l r body) a) := by
  have hnd := List.nodup_cons.mp hpre.nodup
  have hv : visitStmt (.forInOf p l r body) a =
      withChild .loop body.pos (fun x => forInOfTail body.pos (visitStmt body x))
        (visitKids r (visitKids l (flagA a p .other))) := by
    simp [visitStmt, flagA]
  rw [hv]
  have hs1 := (visitKids_flat l (flagA a p .other) hl).trans (visitKids_flat r _ hr)
  generalize visitKids r (visitKids l (flagA a p .other)) = a1 at hs1
  have he1 : a1.sc.end_ = a.sc.end_ := hs1.end_
  have hb1 : a1.sc.foundBreak = a.sc.foundBreak := hs1.fb
  have hc1 : a1.sc.foundContinue = a.sc.foundContinue := hs1.fc
  have hfresh1 : ∀ q, a1.info.endAt q = a.info.endAt q := fun q => by
    rw [endAt_eq_of_info_eq (congrFun hs1.info q), flagA_endAt]
  have hn : (Stmt.compl [] (.forInOf p l r body)).n = true ∧ (Stmt.compl [] (.forInOf p l r body)).b = false ∧
      (Stmt.compl [] (.forInOf p l r body)).c = false := by simp [Stmt.compl]
  have hc := loopCore live true p body.pos body [] (forInOfTail body.pos) a1 rfl
    (fun h => hpre.hs (by rw [← he1]; exact h))
    (fun q hq => by rw [hfresh1]; exact hpre.fresh q (List.mem_cons_of_mem _ hq)) hpre.nodup ih
    (fun b' _ => by
      unfold forInOfTail
      exact ⟨fun q hq _ => markAsEnd_info_other _ _ _ _ hq, fun q => by simp, by simp, by simp, ⟨_, rfl⟩, by simp, by simp⟩)
  generalize withChild .loop body.pos (fun x => forInOfTail body.pos (visitStmt body x)) a1 = r' at hc
  refine ⟨⟨?_, ?_, ?_, ?_, ?_, ?_, ?_, ?_⟩, ?_⟩
  · intro hst; rw [hn.1]; exact hc.stop hst
  · simp [hn.2.1]
  · simp [hn.2.2]
  · intro hh; rw [hc.fbk, hb1]; exact hh
  · intro hh; exact hc.fc (by rw [hc1]; exact hh)
  · unfold FB; rw [hc.fbk, hb1]; exact hpre.fb
  · intro q hq hu'
    simp only [Stmt.positions] at hq
    rcases List.mem_cons.mp hq with rfl | hqb
    · rw [hc.urp] at hu'
      have := own_pos_dead hpre q .other _ (by rw [hs1.info]) hu'
      simp [this]
    · have hne : q ≠ p := fun e => hnd.1 (e ▸ hqb)
      have := hc.p3 q hqb hu'
      simp only [Stmt.reach]
      revert this; cases live <;> simp [hne]
  · intro q hq
    simp only [Stmt.positions] at hq
    have hqp : q ≠ p := by intro e; exact hq (by simp [e])
    rw [hc.frame q hq (by simp), hs1.info]
    exact flagA_other a p .other q hqp
  · intro hst
    simp only [Stmt.pos] at hst
    rw [hc.atP (by simp), hfresh1, hpre.fresh p (by simp)] at hst
    simp at hst

end DL.CF
