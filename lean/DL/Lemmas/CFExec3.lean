import DL.Lemmas.CFExec2

/-! Soundness of the closed-form completions: the mutual induction on derivations. -/
namespace DL.CF

theorem loop_exit_has {ls : List Id} {e : Bool} {b x : Compl} {o o' : Outcome} (hb : b.has o = true)
    (he : o.exitsLoop ls = some o') : ((loopCompl ls e b).union x).has o' = true := by
  rw [has_union, (has_loopCompl_iff ls e b o').mpr (Or.inr ⟨o, hb, he⟩)]; rfl

theorem loop_normal_has {ls : List Id} {e : Bool} {b x : Compl} (he : e = true) : ((loopCompl ls e b).union x).has .normal = true := by
  rw [has_union, (has_loopCompl_iff ls e b .normal).mpr (Or.inl ⟨rfl, he⟩)]; rfl

theorem loop_round {ls : List Id} {b : Compl} {o : Outcome} (hb : b.has o = true) (hc : o.continuesLoop ls = true) :
    goesRound ls b = true := (goesRound_iff ls b).mpr ⟨o, hb, hc⟩

theorem seq_has_right {x y : Compl} {o : Outcome} (hn : x.has .normal = true) (h : y.has o = true) : (x.seq y).has o = true := by
  rw [has_seq]; simp [show x.n = true from hn, h]

theorem seq_has_left {x y : Compl} {o : Outcome} (ha : o ≠ .normal) (h : x.has o = true) : (x.seq y).has o = true := by
  rw [has_seq]; simp [(Outcome.abrupt_iff o).mpr ha, h]

theorem extra_has {x y : Compl} {g : Bool} {o : Outcome} (hg : g = true) (ha : o ≠ .normal) (h : y.has o = true) :
    (x.union (Compl.guard g y.abrupt)).has o = true := by
  simp [hg, (Outcome.abrupt_iff o).mpr ha, h]

mutual
theorem Exec.sound : ∀ {ls : List Id} {s : Stmt} {o : Outcome}, Exec ls s o → (s.compl ls).has o = true
  | _, _, _, .simple h => by simp only [Stmt.compl]; exact h.sound
  | _, _, _, .block h => by simp only [Stmt.compl]; exact h.sound
  | _, .ifS _ test c alt, _, .if_testAbrupt h ha => by
    cases alt <;> (simp only [Stmt.compl]; exact seq_has_left ha h.sound)
  | _, .ifS _ test c alt, _, .if_then ht h => by
    have := h.sound
    cases alt <;> (simp only [Stmt.compl]; exact seq_has_right ht.sound (by simp [this]))
  | _, _, _, .if_skip ht => by simp only [Stmt.compl]; exact seq_has_right ht.sound (by simp [has_normal])
  | _, _, _, .if_else ht h => by
    have := h.sound
    simp only [Stmt.compl]; exact seq_has_right ht.sound (by simp [this])
  | _, _, _, .while_testAbrupt h ha => by
    simp only [Stmt.compl, testComplOf_eq]; exact seq_has_left ha h.sound
  | _, _, _, .while_done ht => by
    simp only [Stmt.compl, testComplOf_eq]; exact seq_has_right ht.sound (loop_normal_has rfl)
  | _, _, _, .while_exit ht hb he => by
    simp only [Stmt.compl, testComplOf_eq]; exact seq_has_right ht.sound (loop_exit_has hb.sound he)
  | _, _, _, .while_again _ _ _ h => h.sound
  | _, _, _, .do_exit hb he => by simp only [Stmt.compl, testComplOf_eq]; exact loop_exit_has hb.sound he
  | _, _, _, .do_testAbrupt hb hc ht ha => by
    simp only [Stmt.compl, testComplOf_eq, has_union, has_abrupt, has_guard]
    simp [loop_round hb.sound hc, (Outcome.abrupt_iff _).mpr ha, ht.sound]
  | _, _, _, .do_done hb hc ht => by
    simp only [Stmt.compl, testComplOf_eq]
    refine loop_normal_has ?_
    simp [loop_round hb.sound hc, show (testCompl false _).n = true from ht.sound]
  | _, _, _, .do_again _ _ _ h => h.sound
  | _, _, _, .for_initAbrupt h ha => by rw [compl_for]; exact seq_has_left ha h.sound
  | _, _, _, .for_loop hi h => by rw [compl_for]; exact seq_has_right hi.sound h.sound
  | _, _, _, .forIn_rightAbrupt h ha => by rw [has_compl_forIn]; exact seq_has_left ha h.sound
  | _, _, _, .forIn_loop hr h => by rw [has_compl_forIn]; exact seq_has_right hr.sound h.sound
  | _, _, _, .switch_discAbrupt h ha => by
    rw [compl_switch]; exact seq_has_left ha (seq_has_left ha h.sound)
  | _, _, _, .switch_testThrows hd h => by
    rw [compl_switch]; exact seq_has_left (by simp) (seq_has_right hd.sound (by simp [Compl.has, h]))
  | _, .switchS _ d cs, _, .switch_noMatch hd h => by
    rw [compl_switch]
    rw [hasDefault_eq] at h
    refine seq_has_right (seq_has_right hd.sound rfl) ?_
    exact Outcome.leavesSwitch_has _ .normal (by simp [h, has_normal])
  | _, _, _, .switch_enter hd h => by
    rw [compl_switch]
    refine seq_has_right (seq_has_right hd.sound rfl) ?_
    exact Outcome.leavesSwitch_has _ _ (by simp [h.sound])
  | _, _, _, .try_noFinally h => by
    simp only [Stmt.compl, finallyCompl]; exact h.sound
  | _, _, _, .try_finallyNormal (o := o) h hf => by
    simp only [Stmt.compl, finallyCompl, if_true, has_guard, has_union, has_abrupt]
    have h1 := h.sound
    have h2 : (Stmts.compl _).n = true := hf.sound
    simp [(Compl.any_iff _).mpr ⟨o, h1⟩, h1, h2]
  | _, _, _, .try_finallyAbrupt (o := o) h hf ha => by
    simp only [Stmt.compl, finallyCompl, if_true, has_guard, has_union, has_abrupt]
    simp [(Compl.any_iff _).mpr ⟨o, h.sound⟩, hf.sound, (Outcome.abrupt_iff _).mpr ha]
  | _, _, _, .labeled_break h => by
    have := h.sound
    simp only [Stmt.compl, Compl.has, Bool.or_eq_true]
    exact Or.inr this
  | _, _, o, .labeled_other h h1 h2 => by
    have := h.sound
    simp only [Stmt.compl]
    rcases o with _ | l' | l' | _ | _
    · simp [Compl.has, show (Stmt.compl _ _).n = true from this]
    · cases l' with
      | none => exact this
      | some l' =>
        simp only [Compl.has, contains_filter_id]
        have hne : l' ≠ _ := fun e => h1 (by rw [e])
        have hm : (Stmt.compl _ _).bl.contains l' = true := this
        rw [hm]; simp [hne]
    · cases l' with
      | none => exact this
      | some l' =>
        simp only [Compl.has, contains_filter_id]
        have hne : l' ≠ _ := fun e => h2 (by rw [e])
        have hm : (Stmt.compl _ _).cl.contains l' = true := this
        rw [hm]; simp [hne]
    · exact this
    · exact this
  | _, .brk _ l, _, .brk => by cases l <;> simp [Stmt.compl, Compl.has]
  | _, .cont _ l, _, .cont => by cases l <;> simp [Stmt.compl, Compl.has]
  | _, _, _, .ret_argAbrupt h ha => by simp only [Stmt.compl]; exact seq_has_left ha h.sound
  | _, _, _, .ret h => by simp only [Stmt.compl]; exact seq_has_right h.sound rfl
  | _, _, _, .throw_argAbrupt h ha => by simp only [Stmt.compl]; exact seq_has_left ha h.sound
  | _, _, _, .throw h => by simp only [Stmt.compl]; exact seq_has_right h.sound rfl
theorem ExecList.sound : ∀ {l : Stmts} {o : Outcome}, ExecList l o → l.compl.has o = true
  | _, _, .nil => rfl
  | _, _, .stop h ha => by simp only [Stmts.compl]; exact seq_has_left ha h.sound
  | _, _, .next h hr => by simp only [Stmts.compl]; exact seq_has_right h.sound hr.sound
theorem EvalKid.sound : ∀ {k : Kid} {o : Outcome}, EvalKid k o → k.compl.has o = true
  | _, _, .sub h ha => by simp only [Kid.compl]; exact seq_has_left ha h.sound
  | _, _, .expr (e := e) h => by simp only [Kid.compl]; exact seq_has_right h.sound (by cases e <;> rfl)
  | _, _, .exprThrows h => by simp only [Kid.compl]; exact seq_has_right h.sound rfl
  | _, _, .fnScope => by simp [Kid.compl, has_normal]
  | _, _, .block h => by simp only [Kid.compl]; exact h.sound
  | _, _, .stmt h => by simp only [Kid.compl]; exact h.sound
theorem EvalKids.sound : ∀ {ks : Kids} {o : Outcome}, EvalKids ks o → ks.compl.has o = true
  | _, _, .nil => by simp [Kids.compl, has_normal]
  | _, _, .stop h ha => by simp only [Kids.compl]; exact seq_has_left ha h.sound
  | _, _, .next h hr => by simp only [Kids.compl]; exact seq_has_right h.sound hr.sound
theorem EvalTest.sound : ∀ {tt : Bool} {test : Kids} {o : Outcome}, EvalTest tt test o → (testCompl tt test).has o = true
  | _, _, _, .known => by simp [has_testCompl]
  | _, _, _, .eval h => by rw [has_testCompl]; simpa using h.sound
theorem ExecFor.sound : ∀ {ls : List Id} {u t : Kids} {ht tt : Bool} {b : Stmt} {o : Outcome},
    ExecFor ls u t ht tt b o → (forLoopC ls u t ht tt b).has o = true
  | _, _, _, _, _, _, _, .testAbrupt h ha => by simp only [forLoopC]; exact seq_has_left ha h.sound
  | _, _, _, _, _, _, _, .done h => by simp only [forLoopC]; exact seq_has_right h.sound (loop_normal_has (by simp))
  | _, _, _, _, _, _, _, .exit ht hb he => by simp only [forLoopC]; exact seq_has_right ht.sound (loop_exit_has hb.sound he)
  | _, _, _, _, _, _, _, .updateAbrupt ht hb hc hu ha => by
    simp only [forLoopC]
    exact seq_has_right ht.sound (extra_has (loop_round hb.sound hc) ha (seq_has_left ha hu.sound))
  | _, _, _, _, _, _, _, .again _ _ _ _ h => h.sound
theorem ExecForIn.sound : ∀ {ls : List Id} {l : Kids} {b : Stmt} {o : Outcome},
    ExecForIn ls l b o → (forInC ls l b).has o = true
  | _, _, _, _, .leftAbrupt h ha => by simp only [forInC]; exact seq_has_left ha h.sound
  | _, _, _, _, .done h => by simp only [forInC]; exact seq_has_right h.sound (loop_normal_has rfl)
  | _, _, _, _, .exit hl hb he => by simp only [forInC]; exact seq_has_right hl.sound (loop_exit_has hb.sound he)
  | _, _, _, _, .again _ _ _ h => h.sound
theorem ExecCases.sound : ∀ {cs : Cases} {o : Outcome}, ExecCases cs o → cs.compl.1.has o = true
  | _, _, .here h => by
    have := h.sound
    simp only [Cases.fallCompl] at this
    simp [Cases.compl, this]
  | _, _, .later h => by simp [Cases.compl, h.sound]
theorem ExecFall.sound : ∀ {cs : Cases} {o : Outcome}, ExecFall cs o → cs.fallCompl.has o = true
  | _, _, .nil => rfl
  | _, _, .stop h ha => by simp only [Cases.fallCompl]; exact seq_has_left ha h.sound
  | _, _, .next h hr => by simp only [Cases.fallCompl]; exact seq_has_right h.sound hr.sound
theorem ExecTryCatch.sound : ∀ {block : Stmts} {hh : Bool} {ck : Kids} {o : Outcome},
    ExecTryCatch block hh ck o → (tryCatchCompl block.compl hh ck.catchCompl).has o = true
  | block, hh, _, o, .noThrow h ht => by
    have := h.sound
    cases hh
    · simpa [tryCatchCompl] using this
    · simp only [tryCatchCompl, if_true, has_union]
      have : ({ block.compl with t := false } : Compl).has o = true := by
        rcases o with _ | l | l | _ | _
        · exact this
        · cases l <;> exact this
        · cases l <;> exact this
        · exact this
        · exact absurd rfl ht
      simp [this]
  | _, _, _, _, .uncaught h => by simpa [tryCatchCompl] using h.sound
  | _, _, _, _, .caught h hc => by
    simp only [tryCatchCompl, if_true, has_union, has_guard]
    simp [show (Stmts.compl _).t = true from h.sound, hc.sound]
theorem ExecCatch.sound : ∀ {ks : Kids} {o : Outcome}, ExecCatch ks o → ks.catchCompl.has o = true
  | _, _, .nil => rfl
  | .cons k r, _, .paramThrows hk hm => by
    cases k <;> simp [Kid.isBlock] at hk <;>
      (simp only [Kids.catchCompl]; exact seq_has_left (by simp) (by simp [Compl.has, hm]))
  | .cons k r, _, .param hk h => by
    cases k <;> simp [Kid.isBlock] at hk <;>
      (simp only [Kids.catchCompl]; exact seq_has_right rfl h.sound)
  | _, _, .bodyStop h ha => by simp only [Kids.catchCompl]; exact seq_has_left ha h.sound
  | _, _, .bodyNext h hr => by simp only [Kids.catchCompl]; exact seq_has_right h.sound hr.sound
end

end DL.CF
