import DL.Lemmas.RxSafe

/-!
# The identifier tests: the binary search stays inside its table, and what it accepts is a `char`

`is_in_range` indexes `ranges[2*i]`, `ranges[2*i+1]` with `l ≤ i < r ≤ len/2`: never out of bounds, for ANY table.
Every range of the two concrete tables lies inside the scalar values (checked by kernel evaluation), so a code point
accepted by `is_regexp_identifier_start/part` converts with `char::from_u32(..).unwrap()`.
-/
namespace DL.Rx
open DL.Gen.Unicode

/-- `m` reads the state only; it answers `true` only if `p` -/
def Tests (m : M Bool) (p : Prop) : Prop :=
  ∀ s, (∃ b, m s = .ok b s ∧ (b = true → p)) ∨ m s = .outOfFuel s

theorem Tests.pure {b : Bool} {p : Prop} (h : b = true → p) : Tests (pure b) p := fun _ => .inl ⟨b, rfl, h⟩

theorem Tests.ite {c : Prop} [Decidable c] {a b : M Bool} {p : Prop} (ha : c → Tests a p) (hb : ¬c → Tests b p) :
    Tests (if c then a else b) p := by
  by_cases h : c
  · rw [if_pos h]; exact ha h
  · rw [if_neg h]; exact hb h

theorem Tests.orM {a b : M Bool} {p : Prop} (ha : Tests a p) (hb : Tests b p) : Tests (a <or> b) p := by
  intro s
  show (∃ r, M.bind a (fun x => if x = true then Pure.pure true else b) s = .ok r s ∧ _) ∨
    M.bind a (fun x => if x = true then Pure.pure true else b) s = _
  unfold M.bind
  rcases ha s with ⟨x, hx, hp⟩ | hx
  · rw [hx]
    cases x with
    | true => exact .inl ⟨true, rfl, hp⟩
    | false => exact hb s
  · rw [hx]; exact .inr rfl

theorem Tests.mono {m : M Bool} {p q : Prop} (h : Tests m p) (hpq : p → q) : Tests m q := by
  intro s
  rcases h s with ⟨x, hx, hp⟩ | hx
  · exact .inl ⟨x, hx, fun h => hpq (hp h)⟩
  · exact .inr hx

theorem Tests.safe {m : M Bool} {p : Prop} (h : Tests m p) {I : St → Prop} :
    Safe I m (fun b s => I s ∧ (b = true → p)) := by
  intro s hs
  rcases h s with ⟨x, hx, hp⟩ | hx
  · rw [hx]; exact ⟨hs, hp⟩
  · rw [hx]; trivial

theorem Tests.keeps {m : M Bool} {p : Prop} (h : Tests m p) {I : St → Prop} : Keeps I m :=
  h.safe.post fun _ _ h => h.1

/-- `cp` lies in one of the ranges of the table -/
def InRanges (cp : Nat) (ranges : Array Nat) : Prop :=
  ∃ i lo hi, ranges[2 * i]? = some lo ∧ ranges[2 * i + 1]? = some hi ∧ lo ≤ cp ∧ cp ≤ hi

theorem isInRangeLoop_tests (cp : Nat) (ranges : Array Nat) :
    ∀ n l r, r ≤ ranges.size / 2 → Tests (isInRangeLoop cp ranges n l r) (InRanges cp ranges)
  | 0, _, _, _ => fun _ => .inr rfl
  | n + 1, l, r, hr => by
    unfold isInRangeLoop
    by_cases hlr : l < r
    · rw [if_pos hlr]
      dsimp only
      have h0 : 2 * ((l + r) / 2) < ranges.size := by omega
      have h1 : 2 * ((l + r) / 2) + 1 < ranges.size := by omega
      rw [Array.getElem?_eq_getElem h0, Array.getElem?_eq_getElem h1]
      show Tests (if cp < ranges[2 * ((l + r) / 2)] then _ else if cp > ranges[2 * ((l + r) / 2) + 1] then _ else _) _
      refine Tests.ite (fun _ => isInRangeLoop_tests cp ranges n _ _ (by omega)) fun h2 => ?_
      refine Tests.ite (fun _ => isInRangeLoop_tests cp ranges n _ _ (by omega)) fun h3 => ?_
      refine Tests.pure fun _ => ⟨(l + r) / 2, _, _, Array.getElem?_eq_getElem h0, Array.getElem?_eq_getElem h1, ?_, ?_⟩
      · omega
      · omega
    · rw [if_neg hlr]; exact Tests.pure (fun h => by cases h)

theorem isInRange_tests (cp : Nat) (ranges : Array Nat) : Tests (isInRange cp ranges) (InRanges cp ranges) :=
  isInRangeLoop_tests cp ranges _ _ _ (Nat.le_refl _)

/-- `char::from_u32` succeeds on the whole range `lo..=hi` -/
def rangeIsChars (lo hi : Nat) : Bool := hi < 0xD800 || (0xE000 ≤ lo && hi < 0x110000)

def pairsAreChars : List Nat → Bool
  | lo :: hi :: rest => rangeIsChars lo hi && pairsAreChars rest
  | _ => true

theorem pairsAreChars_get : ∀ (l : List Nat) (i lo hi : Nat), pairsAreChars l = true →
    l[2 * i]? = some lo → l[2 * i + 1]? = some hi → rangeIsChars lo hi = true
  | [], _, _, _, _, h, _ => by simp at h
  | [_], i, _, _, _, _, h => by simp at h
  | a :: b :: rest, 0, lo, hi, hp, h0, h1 => by
    simp only [pairsAreChars, Bool.and_eq_true] at hp
    simp at h0 h1
    subst h0 h1; exact hp.1
  | a :: b :: rest, i + 1, lo, hi, hp, h0, h1 => by
    simp only [pairsAreChars, Bool.and_eq_true] at hp
    have e0 : 2 * (i + 1) = 2 * i + 1 + 1 := by omega
    have e1 : 2 * (i + 1) + 1 = 2 * i + 1 + 1 + 1 := by omega
    rw [e0] at h0; rw [e1] at h1
    simp only [List.getElem?_cons_succ] at h0 h1
    exact pairsAreChars_get rest i lo hi hp.2 h0 h1

theorem toChar_of_inRanges {cp : Nat} {ranges : Array Nat} (hg : pairsAreChars ranges.toList = true)
    (h : InRanges cp ranges) : (toChar cp).isSome = true := by
  obtain ⟨i, lo, hi, h0, h1, hlo, hhi⟩ := h
  rw [← Array.getElem?_toList] at h0 h1
  have := pairsAreChars_get _ i lo hi hg h0 h1
  simp only [rangeIsChars, Bool.or_eq_true, Bool.and_eq_true, decide_eq_true_eq] at this
  unfold toChar
  rw [if_pos (by omega)]; rfl

set_option maxRecDepth 100000 in
theorem largeIdStart_chars : pairsAreChars largeIdStartRanges.toList = true := by decide +kernel
set_option maxRecDepth 100000 in
theorem largeIdContinue_chars : pairsAreChars largeIdContinueRanges.toList = true := by decide +kernel

/-- what the identifier tests establish: the value converts to a `char` (and is below 2^32) -/
def IsChar (cp : Nat) : Prop := (toChar cp).isSome = true

theorem isChar_lt {cp : Nat} (h : cp < 0xD800) : IsChar cp := by
  unfold IsChar toChar; rw [if_pos (.inl h)]; rfl

theorem isLargeIdStart_tests (cp : Nat) : Tests (isLargeIdStart cp) (IsChar cp) :=
  (isInRange_tests cp _).mono (toChar_of_inRanges largeIdStart_chars)
theorem isLargeIdContinue_tests (cp : Nat) : Tests (isLargeIdContinue cp) (IsChar cp) :=
  (isInRange_tests cp _).mono (toChar_of_inRanges largeIdContinue_chars)

theorem isIdStart_tests (cp : Nat) : Tests (isIdStart cp) (IsChar cp) := by
  unfold isIdStart
  refine Tests.ite (fun _ => Tests.pure (fun h => by cases h)) fun _ => ?_
  refine Tests.ite (fun _ => Tests.pure fun _ => isChar_lt (by omega)) fun _ => ?_
  refine Tests.ite (fun _ => Tests.pure (fun h => by cases h)) fun _ => ?_
  refine Tests.ite (fun _ => Tests.pure fun _ => isChar_lt (by omega)) fun _ => ?_
  exact isLargeIdStart_tests cp

theorem isIdContinue_tests (cp : Nat) : Tests (isIdContinue cp) (IsChar cp) := by
  unfold isIdContinue
  refine Tests.ite (fun _ => Tests.pure (fun h => by cases h)) fun _ => ?_
  refine Tests.ite (fun _ => Tests.pure fun _ => isChar_lt (by omega)) fun _ => ?_
  refine Tests.ite (fun _ => Tests.pure (fun h => by cases h)) fun _ => ?_
  refine Tests.ite (fun h => Tests.pure fun _ => isChar_lt ?_) fun _ => ?_
  · simp only [Bool.or_eq_true, decide_eq_true_eq, beq_iff_eq] at h; omega
  refine Tests.ite (fun _ => Tests.pure (fun h => by cases h)) fun _ => ?_
  refine Tests.ite (fun _ => Tests.pure fun _ => isChar_lt (by omega)) fun _ => ?_
  exact Tests.orM (isLargeIdStart_tests cp) (isLargeIdContinue_tests cp)

theorem tests_eq (cp v : Nat) (hv : v < 0xD800) : Tests (pure (cp == v)) (IsChar cp) :=
  Tests.pure fun h => by
    have : cp = v := by simpa using h
    subst this; exact isChar_lt hv

theorem isRegexpIdentifierStart_tests (cp : Nat) : Tests (isRegexpIdentifierStart cp) (IsChar cp) := by
  unfold isRegexpIdentifierStart
  exact Tests.orM (isIdStart_tests cp) (Tests.orM (tests_eq cp _ (by decide)) (tests_eq cp _ (by decide)))

theorem isRegexpIdentifierPart_tests (cp : Nat) : Tests (isRegexpIdentifierPart cp) (IsChar cp) := by
  unfold isRegexpIdentifierPart
  exact Tests.orM (isIdContinue_tests cp) (Tests.orM (tests_eq cp _ (by decide)) (Tests.orM (tests_eq cp _ (by decide))
    (Tests.orM (tests_eq cp _ (by decide)) (tests_eq cp _ (by decide)))))

theorem OK.isIdContinue (cp : Nat) : OK (isIdContinue cp) := (isIdContinue_tests cp).keeps
theorem OK.isRegexpIdentifierStart (cp : Nat) : OK (isRegexpIdentifierStart cp) := (isRegexpIdentifierStart_tests cp).keeps
theorem OK.isRegexpIdentifierPart (cp : Nat) : OK (isRegexpIdentifierPart cp) := (isRegexpIdentifierPart_tests cp).keeps
macro_rules | `(tactic| rx_known) => `(tactic| exact OK.isIdContinue _)

end DL.Rx
