import DL.Lemmas.RxEscapes

/-! # The recursive productions (disjunction → alternative → term → atom → group → disjunction), by induction on fuel -/
namespace DL.Rx
attribute [local irreducible] isScalar

structure AllOK (n : Nat) : Prop where
  disjunction : OK (consumeDisjunction n)
  disjunctionLoop : OK (consumeDisjunctionLoop n)
  alternative : OK (consumeAlternative n)
  term : OK (consumeTerm n)
  assertion : OK (consumeAssertion n)
  atom : OK (consumeAtom n)
  extendedAtom : OK (consumeExtendedAtom n)
  uncapturingGroup : OK (consumeUncapturingGroup n)
  capturingGroup : OK (consumeCapturingGroup n)

theorem allOK : ∀ n, AllOK n
  | 0 => by
    constructor
    · unfold consumeDisjunction; exact Keeps.outOfFuel
    · unfold consumeDisjunctionLoop; exact Keeps.outOfFuel
    · unfold consumeAlternative; exact Keeps.outOfFuel
    · unfold consumeTerm; exact Keeps.outOfFuel
    · unfold consumeAssertion; exact Keeps.outOfFuel
    · unfold consumeAtom; exact Keeps.outOfFuel
    · unfold consumeExtendedAtom; exact Keeps.outOfFuel
    · unfold consumeUncapturingGroup; exact Keeps.outOfFuel
    · unfold consumeCapturingGroup; exact Keeps.outOfFuel
  | n + 1 => by
    have ih := allOK n
    have h1 := ih.disjunction
    have h2 := ih.disjunctionLoop
    have h3 := ih.alternative
    have h4 := ih.term
    have h5 := ih.assertion
    have h6 := ih.atom
    have h7 := ih.extendedAtom
    have h8 := ih.uncapturingGroup
    have h9 := ih.capturingGroup
    constructor
    · unfold consumeDisjunction; rx_auto
    · unfold consumeDisjunctionLoop; rx_auto
    · unfold consumeAlternative; rx_auto
    · unfold consumeTerm; rx_auto
    · unfold consumeAssertion; rx_auto
    · unfold consumeAtom; rx_auto
    · unfold consumeExtendedAtom; rx_auto
    · unfold consumeUncapturingGroup; rx_auto
    · unfold consumeCapturingGroup; rx_auto

theorem OK.consumeDisjunction (n : Nat) : OK (consumeDisjunction n) := (allOK n).disjunction
macro_rules | `(tactic| rx_known) => `(tactic| exact OK.consumeDisjunction _)

end DL.Rx
