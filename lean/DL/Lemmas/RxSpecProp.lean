import DL.Lemmas.RxSpecChar

/-! # Soundness w.r.t. the grammar: `\p{…}`, `CharacterClassEscape` -/
namespace DL.Rx
open DL.RxSpec
attribute [local irreducible] isScalar
variable {src : List Nat} {N : Nat}

theorem toChar_small {x : Nat} (h : x < 0xD800) : toChar x = some x := by
  unfold toChar; rw [if_pos (.inl h)]

theorem nameChar_iff (x : Nat) : isUnicodePropertyNameCharacter x = true ↔ UnicodePropertyNameCharacter x := by
  unfold isUnicodePropertyNameCharacter UnicodePropertyNameCharacter
  rw [Bool.or_eq_true]
  constructor
  · rintro (h | h)
    · exact .inl (controlLetter_of_isAsciiAlphabetic h)
    · exact .inr (by simpa using h)
  · rintro (h | h)
    · exact .inl (isAsciiAlphabetic_of_controlLetter h)
    · exact .inr (by simpa using h)

theorem valueChar_iff (x : Nat) : isUnicodePropertyValueCharacter x = true ↔ UnicodePropertyValueCharacter x := by
  unfold isUnicodePropertyValueCharacter UnicodePropertyValueCharacter
  rw [Bool.or_eq_true, nameChar_iff]
  constructor
  · rintro (h | h)
    · exact .inl h
    · exact .inr (decimalDigit_of_isAsciiDigit h)
  · rintro (h | h)
    · exact .inl h
    · exact .inr (isAsciiDigit_of_decimalDigit h)

theorem valueChar_lt {x : Nat} (h : UnicodePropertyValueCharacter x) : x < 0xD800 := by
  rcases h with (h | h) | h
  · have h' : (0x61 ≤ x ∧ x ≤ 0x7a) ∨ (0x41 ≤ x ∧ x ≤ 0x5a) := h
    omega
  · have : x = 0x5f := h
    omega
  · have h' : 0x30 ≤ x ∧ x ≤ 0x39 := h
    omega

theorem eatPropertyCharsLoop_wp (p : Nat → Bool) (site : String) (hp : ∀ x, p x = true → toChar x = some x) :
    ∀ (n : Nat) (r : List Nat) (s : St), UAt src N r s →
    Wp (eatPropertyCharsLoop p site n s) (fun _ s1 => ∃ ds r1, r = ds ++ r1 ∧ (∀ d ∈ ds, p d = true) ∧
      (∀ d, r1.head? = some d → p d = false) ∧ UAt src N r1 s1 ∧
      s1 = (s.setPos src (s.reader.index + ds.length)).withStr (s.lastStrValue ++ ds))
  | 0, _, _, _ => Wp.outOfFuel
  | n + 1, r, s, h => by
    have ih := eatPropertyCharsLoop_wp p site hp n
    unfold eatPropertyCharsLoop
    rx4_auto
    · rename_i x r' hn d hd hat a s1 ds r1 hr hds hnx hat1 hs1
      subst hs1
      have hx : p x = true := by simpa using hn
      rw [hp x hx] at hd
      cases hd
      refine ⟨x :: ds, r1, by rw [hr]; rfl, ?_, hnx, hat1, ?_⟩
      · intro d hd
        rcases List.mem_cons.mp hd with rfl | hd
        · exact hx
        · exact hds d hd
      · st_norm
        rw [List.length_cons, Nat.add_assoc, Nat.add_comm 1, List.append_assoc]; rfl
    · rename_i x r' hc
      refine ⟨[], x :: r', rfl, fun _ hd => (List.not_mem_nil hd).elim, ?_, h, ?_⟩
      · intro d hd; cases hd; simpa using hc
      · show s = (s.setPos src (s.reader.index + 0)).withStr (s.lastStrValue ++ [])
        rw [Nat.add_zero, setPos_self h.inv, List.append_nil]; rfl
    · refine ⟨[], [], rfl, fun _ hd => (List.not_mem_nil hd).elim, (fun _ hd => by cases hd), h, ?_⟩
      show s = (s.setPos src (s.reader.index + 0)).withStr (s.lastStrValue ++ [])
      rw [Nat.add_zero, setPos_self h.inv, List.append_nil]; rfl

theorem eatUnicodePropertyName_wp (n : Nat) (r : List Nat) (s : St) (h : UAt src N r s) :
    Wp (eatUnicodePropertyName n s) (fun b s1 => ∃ ds r1, r = ds ++ r1 ∧ (∀ d ∈ ds, UnicodePropertyNameCharacter d) ∧
      (∀ d, r1.head? = some d → ¬UnicodePropertyNameCharacter d) ∧ UAt src N r1 s1 ∧
      s1 = (s.setPos src (s.reader.index + ds.length)).withStr ds ∧ (b = true ↔ ds ≠ [])) := by
  unfold eatUnicodePropertyName
  rx4_step
  have h' : UAt src N r (s.withStr []) := UAt.of_eq h rfl rfl rfl rfl rfl
  refine Wp.call (eatPropertyCharsLoop_wp _ _ (fun x hx => toChar_small (valueChar_lt
    (.inl ((nameChar_iff x).mp hx)))) n r _ h') (fun _ s1 hpost => ?_)
  obtain ⟨ds, r1, hr, hds, hnx, hat1, hs1⟩ := hpost
  subst hs1
  rx4_auto
  refine ⟨ds, r1, hr, fun d hd => (nameChar_iff d).mp (hds d hd), ?_, hat1, ?_, ?_⟩
  · intro d hd hc
    have := hnx d hd
    rw [(nameChar_iff d).mpr hc] at this; cases this
  · st_norm; rfl
  · st_norm
    cases ds <;> simp

theorem eatUnicodePropertyValue_wp (n : Nat) (r : List Nat) (s : St) (h : UAt src N r s) :
    Wp (eatUnicodePropertyValue n s) (fun b s1 => ∃ ds r1, r = ds ++ r1 ∧ (∀ d ∈ ds, UnicodePropertyValueCharacter d) ∧
      (∀ d, r1.head? = some d → ¬UnicodePropertyValueCharacter d) ∧ UAt src N r1 s1 ∧
      s1 = (s.setPos src (s.reader.index + ds.length)).withStr ds ∧ (b = true ↔ ds ≠ [])) := by
  unfold eatUnicodePropertyValue
  rx4_step
  have h' : UAt src N r (s.withStr []) := UAt.of_eq h rfl rfl rfl rfl rfl
  refine Wp.call (eatPropertyCharsLoop_wp _ _ (fun x hx => toChar_small (valueChar_lt
    ((valueChar_iff x).mp hx))) n r _ h') (fun _ s1 hpost => ?_)
  obtain ⟨ds, r1, hr, hds, hnx, hat1, hs1⟩ := hpost
  subst hs1
  rx4_auto
  refine ⟨ds, r1, hr, fun d hd => (valueChar_iff d).mp (hds d hd), ?_, hat1, ?_, ?_⟩
  · intro d hd hc
    have := hnx d hd
    rw [(valueChar_iff d).mpr hc] at this; cases this
  · st_norm; rfl
  · st_norm
    cases ds <;> simp

theorem eatLoneUnicodePropertyNameOrValue_wp (n : Nat) (r : List Nat) (s : St) (h : UAt src N r s) :
    Wp (eatLoneUnicodePropertyNameOrValue n s) (fun b s1 => ∃ ds r1, r = ds ++ r1 ∧
      (∀ d ∈ ds, UnicodePropertyValueCharacter d) ∧
      (∀ d, r1.head? = some d → ¬UnicodePropertyValueCharacter d) ∧ UAt src N r1 s1 ∧
      s1 = (s.setPos src (s.reader.index + ds.length)).withStr ds ∧ (b = true ↔ ds ≠ [])) :=
  eatUnicodePropertyValue_wp n r s h

/-- a leaf of `eat_unicode_property_value_expression` that accepts a lone name or value -/
macro "lone_leaf" : tactic => `(tactic| (
  refine ⟨by rx4_keep, rfl, ?_⟩
  rw [if_pos rfl]
  refine ⟨_, by rx4_at, UnicodePropertyValueExpression.lone _ _ _
    ⟨‹_ = _ ++ _›, (‹True ↔ _ ≠ []›).mp trivial, ‹∀ d ∈ _, UnicodePropertyValueCharacter d›⟩
    ‹∀ d, _ = some d → ¬UnicodePropertyValueCharacter d› ?_⟩
  first
  | (refine .inl ?_; (first | assumption | (rename_i hv; st_norm at hv; exact hv)))
  | (refine .inr ?_; (first | assumption | (rename_i hv; st_norm at hv; exact hv)))))

theorem eatUnicodePropertyValueExpression_wp (n : Nat) (r : List Nat) (s : St) (h : UAt src N r s) :
    Wp (eatUnicodePropertyValueExpression n s) (fun b s1 => KeepN s s1 ∧ s1.lastIntValue = s.lastIntValue ∧
      if b = true then ∃ r1, UAt src N r1 s1 ∧ UnicodePropertyValueExpression r r1 else UAt src N r s1) := by
  unfold eatUnicodePropertyValueExpression
  rx4_autos
  all_goals (try lone_leaf)
  all_goals (try (
    rename_i w1 w hr _ _ hat hne
    have hw : w1 = [] := by
      cases w1 with
      | nil => rfl
      | cons a t => exact (hne.mpr (List.cons_ne_nil a t)).elim
    subst hw
    have hr' : _ = w := hr
    subst hr'
    refine ⟨by rx4_keep, rfl, ?_⟩
    rw [if_neg (by decide)]
    exact UAt.of_eq hat rfl rfl rfl rfl rfl))
  rename_i nm hnm hnne m hatm hr hnx hat0 vl r1 hm hvl hvx hat1 hvne hvalid
  refine ⟨by rx4_keep, rfl, ?_⟩
  rw [if_pos rfl]
  refine ⟨r1, by rx4_at, UnicodePropertyValueExpression.nameValue r _ r1 nm vl ⟨hr, hnne.mp trivial, hnm⟩
    ⟨hm, hvne.mp trivial, hvl⟩ hvx ?_⟩
  st_norm at hvalid
  exact hvalid

theorem consumeCharacterClassEscape_wp (n : Nat) (r : List Nat) (s : St) (h : UAt src N r s) :
    Wp (consumeCharacterClassEscape n s) (fun b s1 => KeepN s s1 ∧
      if b = true then ∃ r1, UAt src N r1 s1 ∧ CharacterClassEscape r r1 ∧ s1.lastIntValue = -1
      else UAt src N r s1) := by
  unfold consumeCharacterClassEscape
  rx4_auto
  all_goals (try rx4_false)
  all_goals (try (rx4_true; exact ⟨_, by rx4_at, CharacterClassEscape.simple _ _ (by decide), rfl⟩))
  all_goals (
    rx4_true
    exact ⟨_, by rx4_at, CharacterClassEscape.property _ _ _ (by decide)
      ‹UnicodePropertyValueExpression _ _›, by st_norm; rename_i hint _ _ _ _; rw [hint]; rfl⟩)

end DL.Rx
