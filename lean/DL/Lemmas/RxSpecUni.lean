import DL.Lemmas.RxSpecHex

/-! # Soundness w.r.t. the grammar: `RegExpUnicodeEscapeSequence` -/
namespace DL.Rx
open DL.RxSpec
attribute [local irreducible] isScalar
variable {src : List Nat} {N : Nat}

theorem hex4_of {ds r r1 : List Nat} (hr : r = ds ++ r1) (hlen : ds.length = 4) (hds : ∀ d ∈ ds, HexDigit d) :
    Hex4Digits r r1 (mvHex ds) := by
  rcases ds with _ | ⟨a, _ | ⟨b, _ | ⟨c', _ | ⟨d, _ | ⟨e, t⟩⟩⟩⟩⟩ <;> simp at hlen
  exact ⟨a, b, c', d, hr, hds a (by simp), hds b (by simp), hds c' (by simp), hds d (by simp), rfl⟩

theorem eatRegexpUnicodeCodepointEscape_wp (n : Nat) (r : List Nat) (s : St) (h : UAt src N r s) :
    Wp (eatRegexpUnicodeCodepointEscape n s) (fun b s1 => Keep s s1 ∧
      if b = true then ∃ ds r1, r = ch '{' :: (ds ++ ch '}' :: r1) ∧ ds ≠ [] ∧ (∀ d ∈ ds, HexDigit d) ∧
        mvHex ds ≤ 0x10FFFF ∧ UAt src N r1 s1 ∧ s1.lastIntValue = (mvHex ds : Nat)
      else UAt src N r s1) := by
  unfold eatRegexpUnicodeCodepointEscape
  rx4_auto
  all_goals (try rx4_false)
  rename_i r' hat0 s1 hk ds hds hv hne r1 hat1 hr hnx hat2 hvalid
  rx4_true
  have hv' : s1.lastIntValue = satI (mvHex ds) := hv
  have hle : mvHex ds ≤ 0x10FFFF ∧ satI (mvHex ds) = (mvHex ds : Nat) := by
    have : isValidUnicode s1.lastIntValue = true := hvalid
    unfold isValidUnicode at this
    have h1 : s1.lastIntValue ≤ 0x10ffff := of_decide_eq_true this
    rw [hv'] at h1
    unfold satI i64Max at h1 ⊢
    split at h1 <;> constructor <;> omega
  refine ⟨ds, r1, by rw [hr], hne.mp trivial, hds, hle.1, hat1, ?_⟩
  show s1.lastIntValue = _
  rw [hv', hle.2]

/-- the text of a surrogate pair escape after the first `u` -/
def PairText (r r1 : List Nat) (lead trail : Nat) : Prop :=
  ∃ ds1 ds2, r = ds1 ++ ch '\\' :: ch 'u' :: (ds2 ++ r1) ∧ ds1.length = 4 ∧ ds2.length = 4 ∧
    (∀ d ∈ ds1, HexDigit d) ∧ (∀ d ∈ ds2, HexDigit d) ∧ lead = mvHex ds1 ∧ trail = mvHex ds2 ∧
    isLead lead ∧ isTrail trail

theorem pair_split {r w rest r1 : List Nat} {lead trail : Nat} (hr : r = w ++ rest) (hw : w.length = 4)
    (hp : PairText r r1 lead trail) :
    ∃ ds2, rest = ch '\\' :: ch 'u' :: (ds2 ++ r1) ∧ ds2.length = 4 ∧ (∀ d ∈ w, HexDigit d) ∧ (∀ d ∈ ds2, HexDigit d) ∧
      lead = mvHex w ∧ trail = mvHex ds2 ∧ isLead lead ∧ isTrail trail := by
  obtain ⟨ds1, ds2, hr', l1, l2, hd1, hd2, hl, ht, hL, hT⟩ := hp
  rw [hr] at hr'
  have := List.append_inj hr' (by rw [hw, l1])
  obtain ⟨e1, e2⟩ := this
  subst e1
  exact ⟨ds2, e2, l2, hd1, hd2, hl, ht, hL, hT⟩

theorem isLeadSurrogate_iff (v : Nat) : isLeadSurrogate (v : Int) = true ↔ isLead v := by
  unfold isLeadSurrogate isLead
  simp only [Bool.and_eq_true, decide_eq_true_eq]
  constructor <;> intro h <;> omega

theorem isTrailSurrogate_iff (v : Nat) : isTrailSurrogate (v : Int) = true ↔ isTrail v := by
  unfold isTrailSurrogate isTrail
  simp only [Bool.and_eq_true, decide_eq_true_eq]
  constructor <;> intro h <;> omega

theorem combine_eq {l t : Nat} (hl : isLead l) (ht : isTrail t) :
    combineSurrogatePair (l : Int) (t : Int) = (((l - 0xD800) * 0x400 + (t - 0xDC00) + 0x10000 : Nat) : Int) := by
  unfold combineSurrogatePair
  unfold isLead at hl
  unfold isTrail at ht
  omega

theorem eatRegexpUnicodeSurrogatePairEscape_wp (r : List Nat) (s : St) (h : UAt src N r s) :
    Wp (eatRegexpUnicodeSurrogatePairEscape s) (fun b s1 => Keep s s1 ∧
      if b = true then ∃ r1 lead trail, PairText r r1 lead trail ∧ UAt src N r1 s1 ∧
        s1.lastIntValue = (((lead - 0xD800) * 0x400 + (trail - 0xDC00) + 0x10000 : Nat) : Int)
      else UAt src N r s1 ∧ ¬∃ r1 lead trail, PairText r r1 lead trail) := by
  unfold eatRegexpUnicodeSurrogatePairEscape
  rx4_auto
  · -- no four hexadecimal digits
    refine ⟨by rx4_keep, ?_⟩
    rw [if_neg (by decide)]
    refine ⟨by rx4_at, ?_⟩
    rintro ⟨r1, lead, trail, ds1, ds2, hr', l1, l2, hd1, hd2, -⟩
    exact ‹¬∃ ds r1, r = ds ++ r1 ∧ ds.length = 4 ∧ ∀ d ∈ ds, HexDigit d› ⟨ds1, _, hr', l1, hd1⟩
  · -- not a lead surrogate
    refine ⟨by rx4_keep, ?_⟩
    rw [if_neg (by decide)]
    refine ⟨by rx4_at, ?_⟩
    rintro ⟨r1, lead, trail, hp⟩
    obtain ⟨ds2, hrest, l2, hd1, hd2, hl, ht, hL, hT⟩ := pair_split ‹r = _ ++ _› ‹_ = 4› hp
    rename_i s1 _ w _ _ _ _ _ hv hn _
    rw [hv, isLeadSurrogate_iff, ← hl] at hn
    exact hn hL
  · -- no second group of four hexadecimal digits
    refine ⟨by rx4_keep, ?_⟩
    rw [if_neg (by decide)]
    refine ⟨by rx4_at, ?_⟩
    rintro ⟨r1, lead, trail, hp⟩
    obtain ⟨ds2, hrest, l2, hd1, hd2, hl, ht, hL, hT⟩ := pair_split ‹r = _ ++ _› ‹_ = 4› hp
    have hx : _ = ds2 ++ r1 := List.cons.inj (List.cons.inj hrest).2 |>.2
    exact ‹¬∃ ds r1, _ = ds ++ r1 ∧ ds.length = 4 ∧ ∀ d ∈ ds, HexDigit d› ⟨ds2, r1, hx, l2, hd2⟩
  · -- the second value is not a trail surrogate
    refine ⟨by rx4_keep, ?_⟩
    rw [if_neg (by decide)]
    refine ⟨by rx4_at, ?_⟩
    rintro ⟨r1, lead, trail, hp⟩
    obtain ⟨ds2, hrest, l2, hd1, hd2, hl, ht, hL, hT⟩ := pair_split ‹r = _ ++ _› ‹_ = 4› hp
    have hx : _ = ds2 ++ r1 := List.cons.inj (List.cons.inj hrest).2 |>.2
    rename_i x4 _ _ _ _ s2 _ w1 w0 hx4 hw1 _ _ hv hn _
    rw [hx4] at hx
    have e := (List.append_inj hx (by rw [hw1, l2])).1
    subst e
    rw [hv, isTrailSurrogate_iff, ← ht] at hn
    exact hn hT
  · -- a surrogate pair
    rename_i s1 hk1 w2 hw2 hd2 hv1 hc1 x3 hat3 hat2 hr hat1 s2 hk2 w1 w0 hx3 hw1 hd1 hat0 hv2 hc2
    rw [hv1, isLeadSurrogate_iff] at hc1
    rw [hv2, isTrailSurrogate_iff] at hc2
    refine ⟨by rx4_keep, ?_⟩
    rw [if_pos rfl]
    refine ⟨w0, mvHex w2, mvHex w1, ⟨w2, w1, by rw [hr, hx3], hw2, hw1, hd2, hd1, rfl, rfl, hc1, hc2⟩,
      UAt.of_eq hat0 rfl rfl rfl rfl rfl, ?_⟩
    show combineSurrogatePair s1.lastIntValue s2.lastIntValue = _
    rw [hv1, hv2, combine_eq hc1 hc2]
  · -- `\` not followed by `u`
    refine ⟨by rx4_keep, ?_⟩
    rw [if_neg (by decide)]
    refine ⟨by rx4_at, ?_⟩
    rintro ⟨r1, lead, trail, hp⟩
    obtain ⟨ds2, hrest, l2, hd1, hd2, hl, ht, hL, hT⟩ := pair_split ‹r = _ ++ _› ‹_ = 4› hp
    have hx := (List.cons.inj hrest).2
    rename_i hne _
    rw [hx] at hne
    exact hne rfl
  · -- no `\`
    refine ⟨by rx4_keep, ?_⟩
    rw [if_neg (by decide)]
    refine ⟨by rx4_at, ?_⟩
    rintro ⟨r1, lead, trail, hp⟩
    obtain ⟨ds2, hrest, l2, hd1, hd2, hl, ht, hL, hT⟩ := pair_split ‹r = _ ++ _› ‹_ = 4› hp
    rename_i hne _
    rw [hrest] at hne
    exact hne rfl

theorem eatRegexpUnicodeEscapeSequence_wp (n : Nat) (f : Bool) (r : List Nat) (s : St) (h : UAt src N r s) :
    Wp (eatRegexpUnicodeEscapeSequence n f s) (fun b s1 => Keep s s1 ∧
      if b = true then ∃ r1 v, UAt src N r1 s1 ∧ RegExpUnicodeEscapeSequence r r1 v ∧ s1.lastIntValue = (v : Nat)
      else UAt src N r s1) := by
  unfold eatRegexpUnicodeEscapeSequence
  rx4_auto
  all_goals (try rx4_false)
  · -- `u{ CodePoint }`
    rename_i m hat0 s1 hk1 hat1 hnp s2 hk2 hat2 hn4 s3 hk3 ds r1 hm hne hds hle hat3 hv
    rx4_true
    refine ⟨r1, mvHex ds, hat3, ?_, hv⟩
    rw [hm]
    exact RegExpUnicodeEscapeSequence.codePoint _ r1 ds ⟨rfl, hne, hds⟩ hle
  · -- four digits, not the first half of a pair
    rename_i m hat0 s1 hk1 hat1 hnp s2 hk2 ds r1 hm hlen hds hat2 hv
    rx4_true
    refine ⟨r1, mvHex ds, hat2, ?_, hv⟩
    have h4 := hex4_of hm hlen hds
    by_cases hL : isLead (mvHex ds)
    · refine RegExpUnicodeEscapeSequence.lead m r1 _ h4 hL ?_
      rintro ⟨m', r', t, hr1, ⟨a, b, c', d, hm', ha, hb, hc, hd, ht⟩, hT⟩
      refine hnp ⟨r', mvHex ds, t, ds, [a, b, c', d], ?_, hlen, rfl, hds, ?_, rfl, ht, hL, hT⟩
      · rw [hm, hr1, hm']; rfl
      · intro x hx
        simp only [List.mem_cons, List.not_mem_nil, or_false] at hx
        rcases hx with rfl | rfl | rfl | rfl <;> assumption
    · exact RegExpUnicodeEscapeSequence.nonLead m r1 _ h4 hL
  · -- a surrogate pair
    rename_i m hat0 s1 hk1 r1 lead trail hp hat1 hv
    rx4_true
    refine ⟨r1, _, hat1, ?_, hv⟩
    obtain ⟨ds1, ds2, hm, l1, l2, hd1, hd2, hl, ht, hL, hT⟩ := hp
    subst hl ht
    exact RegExpUnicodeEscapeSequence.surrogatePair m (ds2 ++ r1) r1 _ _ (hex4_of hm l1 hd1) hL (hex4_of rfl l2 hd2) hT

end DL.Rx
