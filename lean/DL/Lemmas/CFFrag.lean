import DL.Lemmas.CFPos

/-! Projections of the fragment predicate: the parts of a statement of the fragment are in the fragment. -/
namespace DL.CF

theorem inF_if_none {p t c} (h : (Stmt.ifS p t c none).inF = true) : t.okF = true ∧ c.inF = true := by
  have : (t.okF = true ∧ t.compl.plain = true) ∧ c.inF = true := by simpa [Stmt.inF] using h
  exact ⟨this.1.1, this.2⟩
theorem inF_if_some {p t c a} (h : (Stmt.ifS p t c (some a)).inF = true) : (t.okF = true ∧ c.inF = true) ∧ a.inF = true := by
  have : ((t.okF = true ∧ t.compl.plain = true) ∧ c.inF = true) ∧ a.inF = true := by simpa [Stmt.inF] using h
  exact ⟨⟨this.1.1.1, this.1.2⟩, this.2⟩
theorem inF_while {p t tt b} (h : (Stmt.whileS p t tt b).inF = true) : t.okF = true ∧ b.inF = true := by
  have : ((t.okF = true ∧ t.compl.plain = true) ∧ (tt = false ∨ t.pure = true)) ∧ b.inF = true := by simpa [Stmt.inF] using h
  exact ⟨this.1.1.1, this.2⟩
theorem inF_doWhile {p b t tt} (h : (Stmt.doWhileS p b t tt).inF = true) : t.okF = true ∧ b.inF = true := by
  have : (t.okF = true ∧ t.pure = true) ∧ b.inF = true := by simpa [Stmt.inF] using h
  exact ⟨this.1.1, this.2⟩
theorem inF_for {p i u t ht tt b} (h : (Stmt.forS p i u t ht tt b).inF = true) :
    ((i.okF = true ∧ u.okF = true) ∧ t.okF = true) ∧ b.inF = true := by
  have : ((((i.okF = true ∧ i.compl.plain = true) ∧ (u.okF = true ∧ u.pure = true)) ∧
      ((t.okF = true ∧ t.compl.plain = true) ∧ (tt = false ∨ t.pure = true))) ∧ b.inF = true) := by simpa [Stmt.inF] using h
  exact ⟨⟨⟨this.1.1.1.1, this.1.1.2.1⟩, this.1.2.1.1⟩, this.2⟩
theorem inF_forIn {p l r b} (h : (Stmt.forInOf p l r b).inF = true) : (l.okF = true ∧ r.okF = true) ∧ b.inF = true := by
  have : ((l.okF = true ∧ l.pure = true) ∧ (r.okF = true ∧ r.compl.plain = true)) ∧ b.inF = true := by simpa [Stmt.inF] using h
  exact ⟨⟨this.1.1.1, this.1.2.1⟩, this.2⟩
theorem inF_switch {p d cs} (h : (Stmt.switchS p d cs).inF = true) : d.okF = true ∧ cs.inF = true := by
  have : (d.okF = true ∧ d.pure = true) ∧ cs.inF = true := by simpa [Stmt.inF] using h
  exact ⟨this.1.1, this.2⟩
theorem inF_ret {p a} (h : (Stmt.ret p a).inF = true) : a.okF = true := by
  have : a.okF = true ∧ a.compl.plain = true := by simpa [Stmt.inF] using h
  exact this.1
theorem inF_throw {p a} (h : (Stmt.throw p a).inF = true) : a.okF = true := by
  have : a.okF = true ∧ a.compl.plain = true := by simpa [Stmt.inF] using h
  exact this.1
theorem inF_case {p d t b r} (h : (Cases.cons p d t b r).inF = true) : (t.okF = true ∧ b.inF = true) ∧ r.inF = true := by
  have : ((t.okF = true ∧ t.pure = true) ∧ b.inF = true) ∧ r.inF = true := by simpa [Cases.inF] using h
  exact ⟨⟨this.1.1.1, this.1.2⟩, this.2⟩
theorem okFn_expr {e ks r} (h : (Kids.cons (.expr e ks) r).okFn = true) : (ks.okF = true ∧ ks.pure = true) ∧ r.okFn = true := by
  simpa [Kids.okFn] using h

end DL.CF
