import Lean
import DL.Lemmas.RxInd

/-! # History independence: the symbolic-execution tactic -/
namespace DL.Rx
set_option linter.unusedSimpArgs false

variable {c : Bool} {α β : Type}

theorem Ind.bind_setInt {W : RegSet} {Q : β → RegSet} {v : Int} {g : Unit → M β}
    (hg : Ind c (ins .int W) (g ()) Q) : Ind c W (setInt v >>= g) Q :=
  Ind.bind_modSt (W' := ins .int W) (fun _ _ h =>
    ⟨h.oc, h.oc', h.reader, h.strict, h.uFlag, h.nFlag, fun _ => rfl, h.min, h.max, h.str, h.key, h.val, h.aiq,
      h.ncp, h.gn, h.bn⟩) hg

theorem Ind.bind_setStr {W : RegSet} {Q : β → RegSet} {v : List Nat} {g : Unit → M β}
    (hg : Ind c (ins .str W) (g ()) Q) : Ind c W (setStr v >>= g) Q :=
  Ind.bind_modSt (W' := ins .str W) (fun _ _ h =>
    ⟨h.oc, h.oc', h.reader, h.strict, h.uFlag, h.nFlag, h.int, h.min, h.max, fun _ => rfl, h.key, h.val, h.aiq,
      h.ncp, h.gn, h.bn⟩) hg

theorem Ind.bind_modSt_gain {W : RegSet} (G : List Reg) {Q : β → RegSet} {f : St → St} {g : Unit → M β}
    (h : ∀ s s', Eqv c W s s' → Eqv c (insAll G W) (f s) (f s')) (hg : Ind c (insAll G W) (g ()) Q) :
    Ind c W (modSt f >>= g) Q := Ind.bind_modSt h hg

/-- `W r = true` -/
macro "rx_mem" : tactic => `(tactic| first
  | with_reducible assumption
  | with_reducible rfl
  | (simp [ins, insIf, insAll, RegSet.none]; first | done | with_reducible assumption))

/-- `Sub Q W` -/
macro "rx_sub" : tactic => `(tactic| (intro x hx; first
  | with_reducible exact hx
  | (cases x <;> simp [ins, insIf, insAll, RegSet.none] at hx ⊢ <;> first | with_reducible assumption | (simp only [hx]; done) | (simp [hx]; done) | (rcases hx with h | h <;> (simp [h]; done)))))

/-- `∀ s0 s0', Eqv c W s0 s0' → g s0' = g s0`: rewrite every field on which the runs agree -/
macro "rx_reads" : tactic => `(tactic| (intro s0 s0' h; first
  | rfl
  | (simp (disch := rx_mem) only [h.reader, h.strict, h.uFlag, h.nFlag, h.oc, h.oc', h.int, h.min, h.max, h.str,
      h.key, h.val, h.aiq, h.ncp, h.gn, h.bn]; done)))

/-- `∀ s s', Eqv c W s s' → Eqv c W' (f s) (f s')` for a state update `f` -/
macro "rx_eqv" : tactic => `(tactic| (intro s s' h; constructor <;> (
  (try intro hm); (try simp [ins, insIf, insAll, RegSet.none] at hm);
  first
  | exact h.oc | exact h.oc' | exact h.reader | exact h.strict | exact h.uFlag | exact h.nFlag
  | rfl
  | (simp (disch := rx_mem) only [h.reader, h.strict, h.uFlag, h.nFlag, h.oc, h.oc', h.int, h.min, h.max, h.str,
      h.key, h.val, h.aiq, h.ncp, h.gn, h.bn]; done))))

macro "rx2_modSt" : tactic => `(tactic| first
  | with_reducible refine Ind.bind_setInt ?_
  | with_reducible refine Ind.bind_setStr ?_
  | ((fail_if_success (fail_if_success (with_reducible refine Ind.bind_modSt (W' := ?_) ?_ ?_)));
     first
      | (refine Ind.bind_modSt_gain [.key, .val] ?_ ?_; focus rx_eqv)
      | (refine Ind.bind_modSt_gain [.min, .max] ?_ ?_; focus rx_eqv)
      | (refine Ind.bind_modSt_gain [.key] ?_ ?_; focus rx_eqv)
      | (refine Ind.bind_modSt_gain [.val] ?_ ?_; focus rx_eqv)
      | (refine Ind.bind_modSt_gain [.max] ?_ ?_; focus rx_eqv)
      | (refine Ind.bind_modSt_gain [.aiq] ?_ ?_; focus rx_eqv)
      | (refine Ind.bind_modSt_gain [.caps] ?_ ?_; focus rx_eqv)
      | (refine Ind.bind_modSt_gain [] ?_ ?_; focus rx_eqv)))

open Lean Elab Tactic Meta in
/-- `f args >>= g` for an `f` that has its lemma `DL.Rx.I.f` (looked up by name from the head symbol, so that no
unification against the wrong lemma is ever attempted).  First directly, then through `Ind.pre` with the lemma's `W`
instantiated by the current register set (for lemmas whose precondition is `ins r W`: needs `r` in the current set). -/
elab "rx2_known" : tactic => do
  let g ← getMainGoal
  g.withContext do
    let t ← instantiateMVars (← g.getType)
    unless t.isAppOfArity ``DL.Rx.Ind 5 do throwError "rx2_known: not an Ind goal"
    let args := t.getAppArgs
    let wcur := args[2]!
    let comp := args[3]!
    unless comp.isAppOfArity ``Bind.bind 6 do throwError "rx2_known: not a bind"
    let m := comp.getAppArgs[4]!
    let .const n _ := m.getAppFn | throwError "rx2_known: no head constant"
    -- a local hypothesis (induction hypothesis) about the same function, possibly universally quantified
    for decl in (← getLCtx) do
      if decl.isImplementationDetail then continue
      let ty ← instantiateMVars decl.type
      let hit ← withNewMCtxDepth do
        let (_, _, concl) ← forallMetaTelescope ty
        if concl.isAppOfArity ``DL.Rx.Ind 5 then
          match concl.getAppArgs[3]!.getAppFn with
          | .const n' _ => pure (n' == n)
          | _ => pure false
        else pure false
      if hit then
        let (margs, _, _) ← forallMetaTelescope ty
        let h ← Term.exprToSyntax (mkAppN (mkFVar decl.fvarId) margs)
        evalTactic (← `(tactic|
          (with_reducible refine Ind.bind (Ind.pre $h ?hs) (fun _ => ?_); (case hs => rx_sub))))
        return
    let .str _ last := n | throwError "rx2_known: anonymous"
    let lem := Name.str (Name.str `DL.Rx "I") last
    unless (← getEnv).contains lem do throwError "rx2_known: no lemma {lem}"
    let id := mkIdent lem
    let w ← Term.exprToSyntax wcur
    evalTactic (← `(tactic| first
      | with_reducible refine Ind.bind ($id ..) (fun _ => ?_)
      | (with_reducible refine Ind.bind (Ind.pre ($id (W := $w) ..) ?hs) (fun _ => ?_); (case hs => rx_sub))))

syntax "rx2_call" : tactic
macro_rules | `(tactic| rx2_call) => `(tactic| rx2_known)

macro "rx2_step" : tactic => `(tactic| (show Ind _ _ _ _; first
  | (with_reducible refine Ind.ite (fun hc => ?pos) (fun hn => ?neg);
     (case' pos => first | contradiction | subst hc | (simp only [Bool.not_eq_true'] at hc; subst hc) | skip);
     (case' neg => first | contradiction | (simp only [Bool.not_eq_true', Bool.not_eq_false] at hn; subst hn) | skip))
  | (with_reducible refine Ind.bind_ite (fun hc => ?pos) (fun hn => ?neg);
     (case' pos => first | contradiction | subst hc | (simp only [Bool.not_eq_true'] at hc; subst hc) | skip);
     (case' neg => first | contradiction | (simp only [Bool.not_eq_true', Bool.not_eq_false] at hn; subst hn) | skip))
  | with_reducible refine Ind.bind_pure ?_
  | with_reducible refine Ind.bind_assoc ?_
  | with_reducible refine Ind.bind_orM ?_
  | with_reducible refine Ind.bind_andM ?_
  | (with_reducible refine Ind.bind_getSt ?_ (fun _ => ?_); focus rx_reads)
  | with_reducible exact Ind.bind_fail
  | with_reducible exact Ind.bind_outOfFuel
  | with_reducible exact Ind.bind_rustPanic
  | with_reducible refine Ind.bind_unwrap (fun _ _ => ?_)
  | with_reducible exact Ind.outOfFuel
  | (with_reducible refine Ind.pure ?_; focus rx_sub)
  | rx2_call
  | rx2_modSt
  | split
  | dsimp only
  | ((fail_if_success (with_reducible refine Ind.bind (W1 := ?_) ?_ (fun _ => ?_)));
     (fail_if_success (with_reducible refine Ind.pure ?_)); with_reducible refine Ind.tail ?_)))

macro "rx2_auto" : tactic => `(tactic| repeat' rx2_step)

end DL.Rx
